(** Layer R proofs: C03, monitor L (lifecycle): an actor moves Prep -> Ready -> Zombie or Prep -> Zombie, is notified
    exactly once, its value is dropped once, after Ready and not after a notification with a cause, [is_zombie]
    is true from the notification on. *)
From Coq Require Import ZArith NArith List Bool Lia.
From Stk Require Import Lib.U Gen.SrcCount Gen.SrcCore Gen.SrcLog R.Syntax R.Rt R.Mon R.Shape R.Eff R.Tags R.Mono R.C15Proofs R.Count.
From Stk Require Import R.Nest R.C20Proofs R.Calls R.CallInv.
From Stk Require Import R.Lin R.LinAct R.LinLaw R.LinStep R.LinEvs R.LinTail R.LinLive R.LinNin R.LinDel R.LinC05A R.LinC05Core R.LinC05B R.LinC03Mon.
Import ListNotations.
Local Open Scope Z_scope.

Notation phase_of := Mon.phase_of.

(* ------------------------------------------------------------------ *)
(** * The monitor alone *)

Lemma ind_not a b : ind (RNot a) (RNot b) = if N.eqb a b then 1 else 0.
Proof. apply (ind_eqb_N RNot). intros x y H; inversion H; auto. Qed.
Lemma ind_val a b : ind (RVal a) (RVal b) = if N.eqb a b then 1 else 0.
Proof. apply (ind_eqb_N RVal). intros x y H; inversion H; auto. Qed.

Lemma cre1_not a e : cre1 (RNot a) e = match e with EActor b => if N.eqb a b then 1 else 0 | _ => 0 end.
Proof. destruct e; simpl; try reflexivity; try (rewrite ?ind_neq by discriminate; reflexivity); try apply ind_not. Qed.
Lemma con1_not a e : con1 (RNot a) e = match e with ENotify b _ => if N.eqb a b then 1 else 0 | _ => 0 end.
Proof. destruct e; simpl; try reflexivity; try (rewrite ?ind_neq by discriminate; reflexivity); try apply ind_not. Qed.
Lemma cre1_val a e : cre1 (RVal a) e = match e with EReady b => if N.eqb a b then 1 else 0 | _ => 0 end.
Proof. destruct e; simpl; try reflexivity; try (rewrite ?ind_neq by discriminate; reflexivity); try apply ind_val. Qed.
Lemma con1_val a e : con1 (RVal a) e = match e with EValDrop b => if N.eqb a b then 1 else 0 | _ => 0 end.
Proof. destruct e; simpl; try reflexivity; try (rewrite ?ind_neq by discriminate; reflexivity); try apply ind_val. Qed.

Lemma phase_nset l a v b : phase_of (nset l a v) b = if N.eqb b a then v else phase_of l b.
Proof. unfold phase_of. rewrite nget_nset. destruct (N.eqb b a); reflexivity. Qed.

Record LF (m : sL) (t : list ev) : Prop := mkLF {
  lf_cn : forall a, creT (RNot a) t = if N.eqb (phase_of (l_phase m) a) 0 then 0 else 1;
  lf_kn : forall a, conT (RNot a) t = match nget (l_notified m) a with Some _ => 1 | None => 0 end;
  lf_kv : forall a, conT (RVal a) t = if nmem a (l_valdrop m) then 1 else 0;
  lf_cv : forall a, creT (RVal a) t <= 1 /\ (N.eqb (phase_of (l_phase m) a) 2 = true -> creT (RVal a) t = 1) /\
                    (N.leb (phase_of (l_phase m) a) 1 = true -> creT (RVal a) t = 0);
  lf_p3 : forall a, N.eqb (phase_of (l_phase m) a) 3 = true <-> nget (l_notified m) a <> None;
  lf_rg : forall a, (phase_of (l_phase m) a <= 3)%N }.

Lemma monL_facts t : forall m, monr stepL iL t = Some m -> LF m t.
Proof.
  induction t as [|e t IH]; simpl; intros m M.
  - inversion M; subst. split; simpl; intros a.
    + reflexivity.
    + reflexivity.
    + reflexivity.
    + split; [lia | split; intros H; [discriminate H | reflexivity]].
    + split; [discriminate | intros H; contradiction].
    + unfold Mon.phase_of. simpl. lia.
  - destruct (monr stepL iL t) as [m0|]; [|discriminate]. destruct (IH m0 eq_refl) as [F1 F2 F3 F4 F5 F6].
    assert (G : forall b (x : sL), guard b x = Some m -> b = true /\ m = x).
    { intros b x. unfold guard. destruct b; intros Q; inversion Q; auto. }
    assert (SAME : m = m0 -> (forall a, cre1 (RNot a) e = 0) -> (forall a, con1 (RNot a) e = 0) ->
                   (forall a, cre1 (RVal a) e = 0) -> (forall a, con1 (RVal a) e = 0) -> LF m (e :: t)).
    { intros -> A B C D. split; intros a; cbn [creT conT]; rewrite ?A, ?B, ?C, ?D; simpl; auto. }
    destruct e; simpl in M;
      try (apply SAME; [congruence | intros; rewrite ?cre1_not, ?con1_not, ?cre1_val, ?con1_val; reflexivity ..]).
    + (* EMeth *) apply G in M as [_ ->]. apply SAME; auto; intros; rewrite ?cre1_not, ?con1_not, ?cre1_val, ?con1_val; reflexivity.
    + (* EPrep *) apply G in M as [_ ->]. apply SAME; auto; intros; rewrite ?cre1_not, ?con1_not, ?cre1_val, ?con1_val; reflexivity.
    + (* EActor *)
      apply G in M as [GB ->]. apply N.eqb_eq in GB. split; cbn [l_phase l_notified l_valdrop creT conT]; intros b.
      * rewrite cre1_not, phase_nset, F1. destruct (N.eqb b a) eqn:Q; [apply N.eqb_eq in Q; subst; rewrite GB; reflexivity | lia].
      * rewrite con1_not, F2. lia.
      * rewrite con1_val, F3. lia.
      * rewrite cre1_val, phase_nset. destruct (F4 b) as (A & B & C). destruct (N.eqb b a) eqn:Q.
        -- apply N.eqb_eq in Q. subst. rewrite GB in C. simpl in *. specialize (C eq_refl). split; [exact A|]. split; [intros H; discriminate H | intros _; exact C].
        -- repeat split; auto; lia.
      * rewrite phase_nset. destruct (N.eqb b a) eqn:Q; [|apply F5]. apply N.eqb_eq in Q. subst. simpl.
        split; [discriminate|]. intros H. apply F5 in H. rewrite GB in H. discriminate.
      * rewrite phase_nset. destruct (N.eqb b a); [lia | apply F6].
    + (* EReady *)
      apply G in M as [GB ->]. apply N.eqb_eq in GB. split; cbn [l_phase l_notified l_valdrop creT conT]; intros b.
      * rewrite cre1_not, phase_nset, F1. destruct (N.eqb b a) eqn:Q; [apply N.eqb_eq in Q; subst; rewrite GB; reflexivity | lia].
      * rewrite con1_not, F2. lia.
      * rewrite con1_val, F3. lia.
      * rewrite cre1_val, phase_nset. destruct (F4 b) as (A & B & C). destruct (N.eqb b a) eqn:Q.
        -- apply N.eqb_eq in Q. subst. rewrite GB in C. simpl in *. specialize (C eq_refl). split; [rewrite C; lia|]. split; [intros _; rewrite C; reflexivity | intros H; discriminate H].
        -- repeat split; auto; lia.
      * rewrite phase_nset. destruct (N.eqb b a) eqn:Q; [|apply F5]. apply N.eqb_eq in Q. subst. simpl.
        split; [discriminate|]. intros H. apply F5 in H. rewrite GB in H. discriminate.
      * rewrite phase_nset. destruct (N.eqb b a); [lia | apply F6].
    + (* ENotify *)
      apply G in M as [GB ->]. apply andb_prop in GB as [G1 G2]. apply negb_true_iff in G2.
      split; cbn [l_phase l_notified l_valdrop creT conT]; intros b.
      * rewrite cre1_not, phase_nset, F1. destruct (N.eqb b a) eqn:Q; [apply N.eqb_eq in Q; subst; rewrite G2; reflexivity | lia].
      * rewrite con1_not, nget_nset, F2. destruct (N.eqb b a) eqn:Q; [|lia]. apply N.eqb_eq in Q. subst.
        destruct (nget (l_notified m0) a); [discriminate | lia].
      * rewrite con1_val, F3. lia.
      * rewrite cre1_val, phase_nset. destruct (F4 b) as (A & B & C). destruct (N.eqb b a) eqn:Q; repeat split; auto; try lia; discriminate.
      * rewrite phase_nset, nget_nset. destruct (N.eqb b a) eqn:Q; [|apply F5]. simpl. split; [discriminate | reflexivity].
      * rewrite phase_nset. destruct (N.eqb b a); [lia | apply F6].
    + (* EValDrop *)
      apply G in M as [GB ->]. apply andb_prop in GB as [GB _]. apply andb_prop in GB as [GB _]. apply andb_prop in GB as [G1 _]. apply negb_true_iff in G1.
      split; cbn [l_phase l_notified l_valdrop creT conT nmem]; intros b; rewrite ?cre1_not, ?con1_not, ?cre1_val, ?con1_val; auto.
      * rewrite F1. lia.
      * rewrite F2. lia.
      * rewrite F3. destruct (N.eqb b a) eqn:Q; simpl; [|lia]. apply N.eqb_eq in Q. subst. rewrite G1. lia.
      * destruct (F4 b) as (A & B & C). repeat split; auto; lia.
    + (* EIsZombie *) apply G in M as [_ ->]. apply SAME; auto; intros; rewrite ?cre1_not, ?con1_not, ?cre1_val, ?con1_val; reflexivity.
    + (* ELeak *) destruct (N.eqb kind LK_NOTIFY || N.eqb kind LK_VAL); [discriminate|]. inversion M; subst.
      apply SAME; auto; intros; rewrite ?cre1_not, ?con1_not, ?cre1_val, ?con1_val; reflexivity.
Qed.

(* ------------------------------------------------------------------ *)
(** * The pass: events, actor cells, pushed cause notifications *)

Definition specL (e : ev) : bool :=
  match e with
  | EActor _ | EReady _ | EMeth _ _ _ | EPrep _ _ _ | ENotify _ _ | EValDrop _ | EIsZombie _ _ | ELeak _ _ => true
  | _ => false
  end.
Definition pbL (e : ev) : bool := negb (specL e).

Lemma stepL_neutral m e : pbL e = true -> stepL m e = Some m.
Proof. destruct e; simpl; try discriminate; auto. Qed.

Lemma monL_block evs : forall t m, forallb pbL evs = true -> monr stepL iL t = Some m -> monr stepL iL (evs ++ t) = Some m.
Proof.
  induction evs as [|e l IH]; simpl; intros t m F M; auto. apply andb_prop in F as [F1 F2].
  rewrite (IH t m F2 M). apply stepL_neutral; auto.
Qed.

Lemma pbL_zero evs a : forallb pbL evs = true ->
  creT (RNot a) evs = 0 /\ conT (RNot a) evs = 0 /\ creT (RVal a) evs = 0 /\ conT (RVal a) evs = 0.
Proof.
  induction evs as [|e l IH]; cbn [creT conT forallb]; auto. intros F. apply andb_prop in F as [F1 F2].
  destruct (IH F2) as (A & B & C & D). rewrite A, B, C, D, cre1_not, con1_not, cre1_val, con1_val.
  destruct e; try discriminate F1; auto.
Qed.

(* cells: existing actors persist; their state kind stays or becomes Zombie (then the notifier is gone); the notifier stays otherwise *)
Definition amono (s s' : st) : Prop :=
  (forall a x, aget (actors s) a = Some x -> exists x', aget (actors s') a = Some x' /\
     ((skind (a_state x') = skind (a_state x) /\ a_notify x' = a_notify x) \/ (a_state x' = SZombie /\ a_notify x' = None))) /\
  (forall a, aget (actors s) a = None -> aget (actors s') a = None).

Lemma amono_refl s : amono s s.
Proof. split; [intros a x H; exists x; auto | auto]. Qed.

Lemma amono_trans a b c : amono a b -> amono b c -> amono a c.
Proof.
  intros [A1 A2] [B1 B2]. split; [|auto]. intros x y H. destruct (A1 _ _ H) as (y1 & G1 & C1). destruct (B1 _ _ G1) as (y2 & G2 & C2).
  exists y2. split; auto. destruct C2 as [[S2 N2]|Z2]; [|right; exact Z2].
  destruct C1 as [[S1 N1]|[Z1 N1]]; [left; split; congruence|]. right. rewrite Z1 in S2. split; [|congruence].
  destruct (a_state y2); try discriminate S2; reflexivity.
Qed.

Lemma amono_same s s' : actors s' = actors s -> amono s s'.
Proof. intros E. unfold amono. rewrite E. apply amono_refl. Qed.

Lemma amono_upd s a y y' :
  aget (actors s) a = Some y ->
  ((skind (a_state y') = skind (a_state y) /\ a_notify y' = a_notify y) \/ (a_state y' = SZombie /\ a_notify y' = None)) ->
  amono s (upd_actor s a y').
Proof.
  intros G C. split.
  - intros b x H. unfold upd_actor. simpl. destruct (N.eq_dec a b) as [->|NE].
    + rewrite Tags.aget_aset_eq. exists y'. split; auto. rewrite H in G. inversion G; subst. exact C.
    + rewrite Tags.aget_aset_neq by auto. exists x. auto.
  - intros b H. unfold upd_actor. simpl. destruct (N.eq_dec a b) as [->|NE]; [congruence|]. rewrite Tags.aget_aset_neq by auto. exact H.
Qed.

Lemma amono_ref_clone s a : amono s (ref_clone s a).
Proof.
  unfold ref_clone. destruct (aget (actors s) a) as [y|] eqn:E.
  - destruct (a_freed y).
    + eapply amono_trans; [apply (amono_same s (emit s (EModel M_UAF a))); reflexivity|].
      apply (amono_upd (emit s (EModel M_UAF a)) a y); [exact E | left; split; reflexivity].
    + apply (amono_upd s a y); [exact E | left; split; reflexivity].
  - apply amono_same. reflexivity.
Qed.

Ltac am_same L := eapply amono_trans; [ | apply amono_same; apply L ].

Ltac am_step :=
  lazymatch goal with
  | |- amono _ (emit ?s _) => apply (amono_trans _ s); [ | apply amono_same; apply actors_emit ]
  | |- amono _ (submit ?s _ _) => apply (amono_trans _ s); [ | apply amono_same; apply submit_actors ]
  | |- amono _ (push_main ?s _) => apply (amono_trans _ s); [ | apply amono_same; apply actors_push_main ]
  | |- amono _ (timer_add ?s _ _ _ _) => apply (amono_trans _ s); [ | apply amono_same; apply timer_add_actors ]
  | |- amono _ (push_frame ?s _ _) => apply (amono_trans _ s); [ | apply amono_same; apply actors_push_frame ]
  | |- amono _ (target_ev ?s _) => apply (amono_trans _ s); [ | apply amono_same; apply target_ev_actors ]
  | |- amono _ (tok_script ?s _) => apply (amono_trans _ s); [ | apply amono_same; apply tok_script_actors ]
  | |- amono _ (log_rec ?s _ _ _ _) => apply (amono_trans _ s); [ | apply amono_same; apply log_rec_actors ]
  | |- amono _ (ref_clone ?s _) => apply (amono_trans _ s); [ | apply amono_ref_clone ]
  | |- amono _ (set_alive ?s _) => apply (amono_trans _ s); [ | apply amono_same; apply actors_set_alive ]
  | |- amono _ (set_now ?s _) => apply (amono_trans _ s); [ | apply amono_same; apply actors_set_now ]
  | |- amono _ (set_start ?s _) => apply (amono_trans _ s); [ | apply amono_same; apply actors_set_start ]
  | |- amono _ (set_mainq ?s _) => apply (amono_trans _ s); [ | apply amono_same; apply actors_set_mainq ]
  | |- amono _ (set_lazyq ?s _) => apply (amono_trans _ s); [ | apply amono_same; apply actors_set_lazyq ]
  | |- amono _ (set_idleq ?s _) => apply (amono_trans _ s); [ | apply amono_same; apply actors_set_idleq ]
  | |- amono _ (set_timers ?s _) => apply (amono_trans _ s); [ | apply amono_same; apply actors_set_timers ]
  | |- amono _ (set_tnext ?s _) => apply (amono_trans _ s); [ | apply amono_same; apply actors_set_tnext ]
  | |- amono _ (set_tvars ?s _) => apply (amono_trans _ s); [ | apply amono_same; apply actors_set_tvars ]
  | |- amono _ (set_recreate ?s _) => apply (amono_trans _ s); [ | apply amono_same; apply actors_set_recreate ]
  | |- amono _ (set_fwds ?s _) => apply (amono_trans _ s); [ | apply amono_same; apply actors_set_fwds ]
  | |- amono _ (set_env ?s _) => apply (amono_trans _ s); [ | apply amono_same; apply actors_set_env ]
  | |- amono _ (set_frames ?s _) => apply (amono_trans _ s); [ | apply amono_same; apply actors_set_frames ]
  | |- amono _ (set_nuid ?s _) => apply (amono_trans _ s); [ | apply amono_same; apply actors_set_nuid ]
  | |- amono _ (set_logseq ?s _) => apply (amono_trans _ s); [ | apply amono_same; apply actors_set_logseq ]
  | |- amono _ (set_logfilter ?s _) => apply (amono_trans _ s); [ | apply amono_same; apply actors_set_logfilter ]
  | |- amono _ (set_haslogger ?s _) => apply (amono_trans _ s); [ | apply amono_same; apply actors_set_haslogger ]
  | |- amono _ (set_shut ?s _) => apply (amono_trans _ s); [ | apply amono_same; apply actors_set_shut ]
  | |- amono _ (if ?b then _ else _) => destruct b
  | |- amono _ (upd_actor ?s ?a (with_rc ?y _)) =>
      match goal with A : aget (actors s) a = Some y |- _ => apply (amono_trans _ s); [ | apply (amono_upd s a y); [ exact A | left; split; reflexivity ] ] end
  | |- amono _ (upd_actor ?s ?a (with_strong ?y _)) =>
      match goal with A : aget (actors s) a = Some y |- _ => apply (amono_trans _ s); [ | apply (amono_upd s a y); [ exact A | left; split; reflexivity ] ] end
  | |- amono _ (upd_actor ?s ?a (with_state ?y _)) =>
      match goal with A : aget (actors s) a = Some y, B : a_state y = _ |- _ =>
        apply (amono_trans _ s); [ | apply (amono_upd s a y); [ exact A | left; split; [ rewrite B; reflexivity | reflexivity ] ] ] end
  | |- amono _ (upd_actor ?s ?a (mkActor SZombie _ _ None _ _)) =>
      match goal with A : aget (actors s) a = Some ?y |- _ => apply (amono_trans _ s); [ | apply (amono_upd s a y); [ exact A | right; split; reflexivity ] ] end
  | |- amono _ ?s' =>
      match goal with
      | H : take _ _ = (_, s') |- _ => eapply amono_trans; [ | apply amono_same; exact (take_actors _ _ _ _ H) ]
      | H : take_caps _ _ = (_, s') |- _ => eapply amono_trans; [ | apply amono_same; exact (take_caps_actors _ _ _ _ H) ]
      | H : bind _ _ _ = (_, s') |- _ => eapply amono_trans; [ | apply amono_same; exact (bind_actors _ _ _ _ _ H) ]
      | H : bad _ _ = (_, s') |- _ => eapply amono_trans; [ | apply amono_same; exact (bad_actors _ _ _ _ H) ]
      | H : inst _ _ _ = (_, s') |- _ => eapply amono_trans; [ | apply amono_same; exact (inst_actors _ _ _ _ _ H) ]
      | H : inst_call _ _ _ = (_, s') |- _ => eapply amono_trans; [ | apply amono_same; exact (inst_call_actors _ _ _ _ _ H) ]
      | H : inst_nocaps _ _ _ = (_, s') |- _ => eapply amono_trans; [ | apply amono_same; exact (inst_nocaps_actors _ _ _ _ _ H) ]
      | _ => is_var s'; apply amono_refl
      end
  end.

Ltac am_tac := repeat am_step.

Definition isc (m : mop) : bool := match m with MRetInvoke _ (Some (MCause _)) => true | _ => false end.

Lemma isc_app a b : existsb isc (a ++ b) = existsb isc a || existsb isc b.
Proof. apply existsb_app. Qed.
Lemma isc_drops l : existsb isc (drops l) = false.
Proof. unfold drops. induction l; simpl; auto. Qed.
Lemma isc_slab_drops l : existsb isc (slab_drops l) = false.
Proof. induction l as [|[c|n] l IH]; simpl; auto. Qed.
Lemma isc_dropitems l : existsb isc (map MDropItem l) = false.
Proof. induction l; simpl; auto. Qed.
Lemma isc_runitems l : existsb isc (map MRunItem l) = false.
Proof. induction l; simpl; auto. Qed.
Lemma bind_isc s h v l s' : bind s h v = (l, s') -> existsb isc l = false.
Proof. unfold bind. destruct (aget (env s) h); intros Q; inversion Q; reflexivity. Qed.
Lemma bad_isc s c l s' : bad s c = (l, s') -> existsb isc l = false.
Proof. unfold bad. intros Q; inversion Q; reflexivity. Qed.
Lemma state_drops_isc a sa s l s' : state_drops a sa s = (l, s') -> s' = s /\ existsb isc l = false.
Proof.
  unfold state_drops. destruct sa; intros Q; inversion Q; subst; split; auto.
  - apply isc_dropitems.
  - simpl. rewrite isc_app, isc_drops, isc_slab_drops. reflexivity.
Qed.

Ltac isc_tac :=
  first [ reflexivity
        | (eapply bind_isc; eassumption)
        | (eapply bad_isc; eassumption)
        | (cbn [map app existsb isc orb]; rewrite ?isc_app, ?isc_drops, ?isc_slab_drops, ?isc_dropitems, ?isc_runitems; reflexivity) ].

Definition specialL_act (a : act) : bool :=
  match a with ANewActor _ _ _ | ASlabAdd _ _ _ | AIsZombie _ => true | _ => false end.

Definition specialL (m : mop) : bool :=
  match m with
  | MActs (a :: _) => specialL_act a
  | MToReady _ | MRunItem _ | MRetInvoke _ _ | MValDrop _ | MLeaks | MTerminate _ _ => true
  | _ => false
  end.

Ltac inj_pairL Q :=
  match type of Q with
  | (_, _) = (_, _) => injection Q as ? ?; subst
  | _ => idtac
  end.

Ltac passL := intros Q; inj_pairL Q; (split; [ei_tac | split; [am_tac | isc_tac]]).

Lemma do_act_L a s pre s' : do_act a s = (pre, s') -> specialL_act a = false ->
  evs_in pbL s s' /\ amono s s' /\ existsb isc pre = false.
Proof.
  intros H SP. destruct a; try discriminate SP; clear SP; revert H; unfold do_act; repeat dest_match; passL.
  eapply amono_trans; [apply amono_same; exact (take_actors _ _ _ _ Heqp)|].
  apply (amono_upd s0 a a0); [rewrite (take_actors _ _ _ _ Heqp); exact Heqo | left; split; [rewrite Heqa1; reflexivity | reflexivity]].
Qed.

Lemma handle_L m s pre s' : handle m s = (pre, s') -> specialL m = false ->
  evs_in pbL s s' /\ amono s s' /\ existsb isc pre = false.
Proof.
  intros H SP. destruct m; try discriminate SP; cbn [handle] in H.
  - revert H. unfold do_top. destruct o; repeat dest_match; passL.
  - destruct l as [|a l]; [revert H; passL|]. destruct (do_act a s) as [p s1] eqn:E. inversion H; subst.
    destruct (do_act_L _ _ _ _ E SP) as (A & B & C). split; [exact A | split; [exact B | rewrite isc_app, C; reflexivity]].
  - revert H. destruct (frames s); passL.
  - revert H. destruct (frames s) as [|fr rest]; [passL|]. intros Q; inj_pairL Q. split; [ei_tac | split; [am_tac|]].
    rewrite isc_app, isc_drops. destruct f; try destruct (f_die fr); try destruct ready; reflexivity.
  - revert H. unfold drop_item. destruct c as [u i kd caps q]. destruct kd; passL.
  - revert H. passL.
  - revert H. unfold drop_val. destruct v; repeat dest_match; passL.
  - revert H. unfold drop_own. destruct logged; repeat dest_match; passL.
  - revert H. unfold drop_ref. destruct (aget (actors s) a) as [y|] eqn:A; [|passL].
    destruct (a_freed y); [passL|]. destruct (minrc_drop (a_rc y)) as [[v z]|]; [|passL]. destruct z; [|passL].
    destruct (state_drops a (a_state y) _) as [dl s2] eqn:SD. destruct (state_drops_isc _ _ _ _ _ SD) as [-> IS].
    intros Q; inj_pairL Q. split; [ei_tac | split; [am_tac|]]. rewrite isc_app, IS. destruct (a_notify y); reflexivity.
  - revert H. passL.
  - revert H. passL.
  - revert H. passL.
  - revert H. destruct (aget (actors s) a); passL.
  - revert H. unfold fresh_stakker. passL.
  - revert H. destruct idle; [destruct (idleq s)|]; passL.
  - revert H. destruct (t >? now (set_mainq s [])).
    + destruct (fire t _) as [fired s2] eqn:FI. unfold fire in FI. injection FI as ? ?; subst. passL.
    + passL.
  - revert H. repeat dest_match; passL.
  - revert H. repeat dest_match; passL.
  - revert H. passL.
  - revert H. repeat dest_match; passL.
  - revert H. repeat dest_match; passL.
  - revert H. passL.
Qed.

(* ------------------------------------------------------------------ *)
(** * Actor values occur in no nested value: only in the cell of their actor and in [MValDrop] *)

Section ValZero.
Transparent cv cret crk cci.
Fixpoint cv_val (a : N) (v : hval) {struct v} : cv (RVal a) v = 0
with cret_val (a : N) (r : ret) {struct r} : cret (RVal a) r = 0
with crk_val (a : N) (rid : N) (k : rkind) {struct k} : crk (RVal a) rid k = 0
with cci_val (a : N) (c : citem) {struct c} : cci (RVal a) c = 0.
Proof.
  - destruct v; simpl; try reflexivity. unfold badif. rewrite (cret_val a r), (ind_neq (RVal a) RBad) by discriminate. destruct (ukind r); reflexivity.
  - destruct r as [rid k]. simpl. apply crk_val.
  - destruct k as [caps b|a0 ci|a0 ci|a0 inner|p key inner].
    + simpl. rewrite ind_neq by discriminate.
      assert ((fix go (l : list (N * hval)) : Z := match l with [] => 0 | p :: l' => match p with (_, v) => cv (RVal a) v + go l' end end) caps = 0).
      { induction caps as [|[h v] l IH]; [reflexivity|]. rewrite (cv_val a v), IH. reflexivity. }
      lia.
    + simpl. rewrite !ind_neq by discriminate. unfold badif. rewrite (cci_val a ci), (ind_neq (RVal a) RBad) by discriminate. destruct (realk (ci_kind ci)); reflexivity.
    + simpl. rewrite !ind_neq by discriminate. unfold badif. rewrite (cci_val a ci), (ind_neq (RVal a) RBad) by discriminate. destruct (realk (ci_kind ci)); reflexivity.
    + simpl. rewrite ind_neq by discriminate. destruct inner as [[p ci]|]; [|reflexivity].
      unfold badif. rewrite (cci_val a ci), (ind_neq (RVal a) RBad) by discriminate. destruct (realk (ci_kind ci)); reflexivity.
    + simpl. apply cret_val.
  - destruct c as [u0 i kd caps q]. simpl. destruct (realk kd); [|reflexivity].
    rewrite ind_neq by discriminate.
    assert ((fix go (l : list (N * hval)) : Z := match l with [] => 0 | p :: l' => match p with (_, v) => cv (RVal a) v + go l' end end) caps = 0).
    { induction caps as [|[h v] l IH]; [reflexivity|]. rewrite (cv_val a v), IH. reflexivity. }
    lia.
Qed.
End ValZero.

Lemma cenv_val a l : cenv (RVal a) l = 0.
Proof. induction l as [|p l IH]; simpl; auto. rewrite cv_val, IH. reflexivity. Qed.
Lemma cq_val a l : cq (RVal a) l = 0.
Proof. induction l as [|p l IH]; simpl; auto. rewrite cci_val, IH. reflexivity. Qed.
Lemma ctim_val a l : ctim (RVal a) l = 0.
Proof. induction l as [|p l IH]; simpl; auto. rewrite cci_val, IH. reflexivity. Qed.
Lemma cfrs_val a l : cfrs (RVal a) l = 0.
Proof. induction l as [|p l IH]; simpl; auto. rewrite cenv_val, IH. reflexivity. Qed.

Lemma cactor_val a b y : cactor (RVal a) b y = match a_state y with SReady _ _ _ => if N.eqb a b then 1 else 0 | _ => 0 end.
Proof.
  unfold cactor. assert (cnotopt (RVal a) (a_notify y) = 0).
  { destruct (a_notify y) as [nt|]; simpl; [|reflexivity]. unfold badif. rewrite cret_val, (ind_neq (RVal a) RBad) by discriminate. destruct (nkind nt); reflexivity. }
  rewrite H. destruct (a_state y); simpl; rewrite ?cq_val, ?cenv_val, ?ind_val; lia.
Qed.

Lemma aget_none_in {X} (l : list (N * X)) a : ~ In a (map fst l) -> aget l a = None.
Proof.
  induction l as [|[b y] l IH]; simpl; auto. intros H. destruct (N.eqb a b) eqn:E.
  - apply N.eqb_eq in E. subst. exfalso. apply H. left. reflexivity.
  - apply IH. intros G. apply H. right. exact G.
Qed.

Lemma cacts_val a l : NoDup (map fst l) ->
  cacts (RVal a) l = match aget l a with Some y => match a_state y with SReady _ _ _ => 1 | _ => 0 end | None => 0 end.
Proof.
  induction l as [|[b y] l IH]; simpl; [reflexivity|]. intros ND. inversion ND; subst. rewrite cactor_val, (IH H2).
  destruct (N.eqb a b) eqn:E.
  - apply N.eqb_eq in E. subst b. assert (aget l a = None) by (apply aget_none_in; exact H1). rewrite H.
    destruct (a_state y); lia.
  - destruct (a_state y); lia.
Qed.

Lemma cst_val a s : NoDup (map fst (actors s)) ->
  cst (RVal a) s = match aget (actors s) a with Some y => match a_state y with SReady _ _ _ => 1 | _ => 0 end | None => 0 end.
Proof. intros ND. unfold cst. rewrite !cq_val, ctim_val, cenv_val, cfrs_val, (cacts_val a _ ND). simpl. lia. Qed.

Lemma cmop_val a m : cmop (RVal a) m = match m with MValDrop b => if N.eqb a b then 1 else 0 | _ => 0 end.
Proof.
  destruct m; simpl; rewrite ?cci_val, ?cv_val, ?cret_val; try reflexivity.
  all: try (unfold badif; rewrite (ind_neq (RVal a) RBad) by discriminate; destruct (realk (ci_kind c)); reflexivity).
  all: try (destruct m as [[v|c]|]; simpl; unfold badif; rewrite ?(ind_neq (RVal a) RBad) by discriminate; try reflexivity;
            [destruct (ukind r) | destruct (nkind r)]; reflexivity).
  all: apply ind_val.
Qed.

(* ------------------------------------------------------------------ *)
(** * The relation *)

Record RL (m : sL) (k : list mop) (s : st) : Prop := mkRL {
  rl_none : forall a, aget (actors s) a = None -> phase_of (l_phase m) a = 0%N;
  rl_some : forall a x, aget (actors s) a = Some x ->
              phase_of (l_phase m) a <> 0%N /\ (skind (a_state x) = 0 -> phase_of (l_phase m) a = 1%N) /\
              (skind (a_state x) = 1 -> phase_of (l_phase m) a = 2%N) /\ (a_state x = SZombie -> a_notify x = None);
  rl_v : forall w r c rest a, k = w ++ MRetInvoke r (Some (MCause c)) :: rest -> nshape a r -> cmops (RVal a) rest = 0;
  rl_v2 : forall a, nget (l_notified m) a = Some true -> cnt (RVal a) k s = 0 }.

Lemma isc_split pre : existsb isc pre = false -> forall w r c p2, pre = w ++ MRetInvoke r (Some (MCause c)) :: p2 -> False.
Proof. intros H w r c p2 ->. rewrite existsb_app in H. simpl in H. rewrite orb_true_r in H. discriminate. Qed.

(* the cells part of the relation under [amono] with an unchanged phase table *)
Lemma RL_cells ph s s' :
  amono s s' ->
  (forall a, aget (actors s) a = None -> phase_of ph a = 0%N) ->
  (forall a x, aget (actors s) a = Some x ->
     phase_of ph a <> 0%N /\ (skind (a_state x) = 0 -> phase_of ph a = 1%N) /\
     (skind (a_state x) = 1 -> phase_of ph a = 2%N) /\ (a_state x = SZombie -> a_notify x = None)) ->
  (forall a, aget (actors s') a = None -> phase_of ph a = 0%N) /\
  (forall a x, aget (actors s') a = Some x ->
     phase_of ph a <> 0%N /\ (skind (a_state x) = 0 -> phase_of ph a = 1%N) /\
     (skind (a_state x) = 1 -> phase_of ph a = 2%N) /\ (a_state x = SZombie -> a_notify x = None)).
Proof.
  intros [A1 A2] N0 S0. split.
  - intros a H. destruct (aget (actors s) a) as [x|] eqn:G; [|auto]. destruct (A1 _ _ G) as (x' & G' & _). congruence.
  - intros a x' H. destruct (aget (actors s) a) as [x|] eqn:G; [|rewrite (A2 _ G) in H; discriminate].
    destruct (A1 _ _ G) as (x'' & G' & C). rewrite H in G'. inversion G'; subst x''.
    destruct (S0 _ _ G) as (P0 & P1 & P2 & P3). destruct C as [[SK NT]|[Z NT]].
    + repeat split; auto; try (rewrite SK; auto). intros ZZ. rewrite NT. apply P3. rewrite ZZ in SK. simpl in SK.
      destruct (a_state x); try discriminate SK; reflexivity.
    + repeat split; auto; rewrite Z; simpl; intros; try discriminate; auto.
Qed.

Lemma cnt_val_step k s k' s' a :
  Lin k s -> step k s = Some (k', s') -> creT (RVal a) (tr s') = creT (RVal a) (tr s) -> conT (RVal a) (tr s) <= conT (RVal a) (tr s') ->
  cnt (RVal a) k s = 0 -> cnt (RVal a) k' s' = 0.
Proof.
  intros L H CR CO Z. pose proof (step_bal _ _ _ _ (RVal a) L H) as B. unfold bal, W, cnt in *.
  pose proof (cmops_nn (RVal a) k'). pose proof (cst_nn (RVal a) s'). lia.
Qed.

Lemma IL_core m mo k0 s pre s' :
  Lin (mo :: k0) s -> handle mo s = (pre, s') ->
  monr stepL iL (tr s') = Some m -> (forall a, creT (RVal a) (tr s') = creT (RVal a) (tr s)) ->
  amono s s' -> existsb isc pre = false ->
  RL m (mo :: k0) s -> RL m (pre ++ k0) s'.
Proof.
  intros L E M' CV AM IS R.
  assert (X : ext s s') by (eapply handle_ext; eauto).
  destruct (RL_cells _ _ _ AM (rl_none _ _ _ R) (rl_some _ _ _ R)) as [C1 C2].
  split; auto.
  - intros w r c rest a SPL NS. destruct (app_split pre k0 w _ rest SPL) as [(w0 & K0 & ->)|(p2 & PRE & _)].
    + eapply (rl_v _ _ _ R (mo :: w0)); [rewrite K0; reflexivity | exact NS].
    + exfalso. eapply isc_split; eauto.
  - intros a H. eapply (cnt_val_step _ _ _ _ a L (step_handle _ _ _ _ _ E)); [apply CV | apply conT_ext; exact X | apply (rl_v2 _ _ _ R); auto].
Qed.

Lemma IL_block m mo k0 s pre s' :
  Lin (mo :: k0) s -> handle mo s = (pre, s') ->
  evs_in pbL s s' -> amono s s' -> existsb isc pre = false ->
  monr stepL iL (tr s) = Some m -> RL m (mo :: k0) s ->
  exists m', monr stepL iL (tr s') = Some m' /\ RL m' (pre ++ k0) s'.
Proof.
  intros L E [evs [TR NE]] AM IS M R.
  exists m. split; [rewrite TR; apply monL_block; auto|].
  eapply IL_core; eauto; [rewrite TR; apply monL_block; auto|].
  intros a. rewrite TR, creT_app. destruct (pbL_zero evs a NE) as (_ & _ & Z & _). lia.
Qed.

Lemma IL_neutral m mo k0 s pre s' :
  Lin (mo :: k0) s -> handle mo s = (pre, s') -> specialL mo = false ->
  monr stepL iL (tr s) = Some m -> RL m (mo :: k0) s ->
  exists m', monr stepL iL (tr s') = Some m' /\ RL m' (pre ++ k0) s'.
Proof. intros L E SP M R. destruct (handle_L _ _ _ _ E SP) as (EV & AM & IS). eapply IL_block; eauto. Qed.

(* ------------------------------------------------------------------ *)
(** * Cases *)

Lemma creT_emit x s e : creT x (tr (emit s e)) = cre1 x e + creT x (tr s). Proof. reflexivity. Qed.
Lemma conT_emit x s e : conT x (tr (emit s e)) = con1 x e + conT x (tr s). Proof. reflexivity. Qed.
Lemma tr_upd s a y : tr (upd_actor s a y) = tr s. Proof. reflexivity. Qed.

Lemma aget_upd s a y b : aget (actors (upd_actor s a y)) b = if N.eqb a b then Some y else aget (actors s) b.
Proof.
  change (actors (upd_actor s a y)) with (aset (actors s) a y). destruct (N.eqb a b) eqn:Q.
  - apply N.eqb_eq in Q. subst. apply Tags.aget_aset_eq.
  - apply Tags.aget_aset_neq. intros ->. rewrite N.eqb_refl in Q. discriminate.
Qed.

Lemma aget_upd_emit s a y e b : aget (actors (emit (upd_actor s a y) e)) b = if N.eqb a b then Some y else aget (actors s) b.
Proof. change (actors (emit (upd_actor s a y) e)) with (actors (upd_actor s a y)). apply aget_upd. Qed.

Lemma IL_toready m a k0 s pre s' :
  Lin (MToReady a :: k0) s -> handle (MToReady a) s = (pre, s') ->
  monr stepL iL (tr s) = Some m -> RL m (MToReady a :: k0) s ->
  exists m', monr stepL iL (tr s') = Some m' /\ RL m' (pre ++ k0) s'.
Proof.
  intros L E M R. pose proof E as E0. cbn [handle] in E.
  destruct (aget (actors s) a) as [x|] eqn:A; [|eapply IL_block; eauto; inversion E; subst; [ei_tac | am_tac | reflexivity]].
  destruct (a_state x) as [held|sh slab nx|] eqn:SA; try (eapply IL_block; eauto; inversion E; subst; [ei_tac | am_tac | reflexivity]).
  inversion E; subst pre s'; clear E.
  destruct (rl_some _ _ _ R _ _ A) as (P0 & P1 & _ & _). rewrite SA in P1. specialize (P1 eq_refl).
  set (x1 := mkActor (SReady [] [] 0%N) (oz (count_set_state (a_strong x) STATE_READY)) (a_rc x) (a_notify x) (a_logid x) (a_freed x)).
  eexists. split.
  - simpl. rewrite M. simpl. rewrite P1. reflexivity.
  - split; cbn [l_phase l_notified l_valdrop].
    + intros b H. rewrite phase_nset. rewrite aget_upd_emit in H. rewrite (N.eqb_sym b a).
      destruct (N.eqb a b) eqn:Q; [discriminate H|]. apply (rl_none _ _ _ R). exact H.
    + intros b y H. rewrite phase_nset. rewrite aget_upd_emit in H. rewrite (N.eqb_sym b a).
      destruct (N.eqb a b) eqn:Q.
      * inversion H; subst y. unfold x1. simpl. repeat split; try discriminate; auto.
      * apply (rl_some _ _ _ R _ _ H).
    + intros w r c rest b SPL NS. destruct (app_split _ k0 w _ rest SPL) as [(w0 & K0 & ->)|(p2 & PRE & _)].
      * eapply (rl_v _ _ _ R (MToReady a :: w0)); [rewrite K0; reflexivity | exact NS].
      * exfalso. eapply isc_split; [apply isc_runitems | eauto].
    + intros b H. assert (NB : b <> a).
      { intros ->. destruct (monL_facts _ _ M) as [_ _ _ _ F5 _]. assert (X : nget (l_notified m) a <> None) by congruence.
        apply F5 in X. apply N.eqb_eq in X. congruence. }
      eapply (cnt_val_step _ _ _ _ b L (step_handle _ _ _ _ _ E0)).
      * rewrite creT_emit, tr_upd, cre1_val.
        destruct (N.eqb b a) eqn:Q; [apply N.eqb_eq in Q; congruence | lia].
      * rewrite conT_emit, tr_upd, con1_val. lia.
      * apply (rl_v2 _ _ _ R); auto.
Qed.

Lemma is_zombie_sta v : srange v -> ob (count_is_zombie v) = (sta v =? 2).
Proof. intros H. destruct (srange_pack _ H) as (E & C & T). rewrite E at 1. rewrite is_zombie_spec by auto. reflexivity. Qed.

Lemma KI_aok mo k0 s a x : KI (mo :: k0) s -> aget (actors s) a = Some x -> aok a x.
Proof. intros [KS _] H. apply (ks_act _ KS); auto. Qed.

Lemma run_item_L c s pre s' :
  run_item c s = (pre, s') ->
  amono s s' /\ existsb isc pre = false /\
  (evs_in pbL s s' \/
   (exists a u x, tr s' = EMeth a u (now s) :: tr s /\ aget (actors s) a = Some x /\ skind (a_state x) = 1) \/
   (exists a u x, tr s' = EPrep a u (now s) :: tr s /\ aget (actors s) a = Some x /\ ob (count_is_prep (a_strong x)) = true)).
Proof.
  unfold run_item. destruct c as [u i kd caps q]. destruct kd; repeat dest_match; intros Q; inj_pairL Q;
    (split; [am_tac | split; [isc_tac|]]); try (left; solve [ei_tac]).
  - right. left. exists a, u, a0. repeat split; auto. rewrite Heqa1. reflexivity.
  - right. right. exists a, u, a0. repeat split; auto.
Qed.

Lemma IL_runitem m c k0 s pre s' :
  Lin (MRunItem c :: k0) s -> KI (MRunItem c :: k0) s -> handle (MRunItem c) s = (pre, s') ->
  monr stepL iL (tr s) = Some m -> RL m (MRunItem c :: k0) s ->
  exists m', monr stepL iL (tr s') = Some m' /\ RL m' (pre ++ k0) s'.
Proof.
  intros L K E M R. pose proof E as E0. cbn [handle] in E.
  destruct (run_item_L _ _ _ _ E) as (AM & IS & [EV|[(a & u & x & TR & A & SK)|(a & u & x & TR & A & PR)]]).
  - eapply IL_block; eauto.
  - exists m. assert (M' : monr stepL iL (tr s') = Some m).
    { rewrite TR. simpl. rewrite M. simpl. destruct (rl_some _ _ _ R _ _ A) as (_ & _ & P2 & _). rewrite (P2 SK). reflexivity. }
    split; auto. eapply IL_core; eauto. intros b. rewrite TR. cbn [creT]. rewrite cre1_val. lia.
  - exists m. assert (M' : monr stepL iL (tr s') = Some m).
    { rewrite TR. simpl. rewrite M. simpl. destruct (rl_some _ _ _ R _ _ A) as (_ & P1 & _ & _).
      destruct (KI_aok _ _ _ _ _ K A) as (SR & ST & _). rewrite (is_prep_sta _ SR) in PR. apply Z.eqb_eq in PR.
      rewrite P1 by congruence. reflexivity. }
    split; auto. eapply IL_core; eauto. intros b. rewrite TR. cbn [creT]. rewrite cre1_val. lia.
Qed.

Lemma IL_valdrop m a k0 s pre s' :
  Lin (MValDrop a :: k0) s -> handle (MValDrop a) s = (pre, s') ->
  monr stepL iL (tr s) = Some m -> RL m (MValDrop a :: k0) s ->
  exists m', monr stepL iL (tr s') = Some m' /\ RL m' (pre ++ k0) s'.
Proof.
  intros L E M R. pose proof E as E0. cbn [handle] in E. inversion E; subst pre s'; clear E.
  destruct (monL_facts _ _ M) as [F1 F2 F3 F4 F5 F6].
  assert (PR : 1 <= cnt (RVal a) (MValDrop a :: k0) s).
  { unfold cnt. cbn [cmops cmop]. rewrite ind_refl. pose proof (cmops_nn (RVal a) k0). pose proof (cst_nn (RVal a) s). lia. }
  pose proof (Lin_live _ _ (RVal a) L ltac:(discriminate)) as LV. destruct (F4 a) as (C1 & C2 & C3).
  pose proof (conT_nn (RVal a) (tr s)) as CN.
  assert (NV : nmem a (l_valdrop m) = false).
  { specialize (F3 a). destruct (nmem a (l_valdrop m)); [lia | reflexivity]. }
  assert (P01 : N.leb (phase_of (l_phase m) a) 1 = false).
  { destruct (N.leb (phase_of (l_phase m) a) 1) eqn:Q; auto. specialize (C3 eq_refl). lia. }
  assert (NT : match nget (l_notified m) a with Some true => false | _ => true end = true).
  { destruct (nget (l_notified m) a) as [[|]|] eqn:Q; auto. pose proof (rl_v2 _ _ _ R a Q). lia. }
  apply N.leb_gt in P01.
  eexists. split.
  - simpl. rewrite M. simpl. rewrite NV, NT.
    replace (N.eqb (phase_of (l_phase m) a) 0) with false by (symmetry; apply N.eqb_neq; lia).
    replace (N.eqb (phase_of (l_phase m) a) 1) with false by (symmetry; apply N.eqb_neq; lia). reflexivity.
  - split; cbn [l_phase l_notified l_valdrop].
    + apply (rl_none _ _ _ R).
    + apply (rl_some _ _ _ R).
    + intros w r c rest b SPL NS. simpl in SPL. eapply (rl_v _ _ _ R (MValDrop a :: w)); [rewrite SPL; reflexivity | exact NS].
    + intros b H. eapply (cnt_val_step _ _ _ _ b L (step_handle _ _ _ _ _ E0)).
      * rewrite creT_emit, cre1_val. lia.
      * rewrite conT_emit. pose proof (ind_range (RVal b) (RVal a)). simpl. lia.
      * apply (rl_v2 _ _ _ R); auto.
Qed.

(* the value of an actor is in its Ready cell only *)
Lemma val_in_cell mo k0 s a : KI (mo :: k0) s ->
  cst (RVal a) s = match aget (actors s) a with Some y => match a_state y with SReady _ _ _ => 1 | _ => 0 end | None => 0 end.
Proof. intros [KS _]. apply cst_val. apply (ks_keys _ KS). Qed.

Lemma IL_terminate m a c k0 s pre s' :
  Lin (MTerminate a c :: k0) s -> KI (MTerminate a c :: k0) s -> handle (MTerminate a c) s = (pre, s') ->
  monr stepL iL (tr s) = Some m -> RL m (MTerminate a c :: k0) s ->
  exists m', monr stepL iL (tr s') = Some m' /\ RL m' (pre ++ k0) s'.
Proof.
  intros L K E M R. pose proof E as E0. cbn [handle] in E. unfold terminate in E.
  destruct (aget (actors s) a) as [y|] eqn:A.
  2:{ eapply IL_block; eauto; inversion E; subst; [ei_tac | am_tac | reflexivity]. }
  destruct (state_drops a (a_state y) _) as [dl s2] eqn:SD. destruct (state_drops_isc _ _ _ _ _ SD) as [ES2 IS].
  assert (EV : evs_in pbL s s2).
  { rewrite ES2. destruct (a_freed y); ei_tac. }
  assert (AM : amono s s2).
  { rewrite ES2. destruct (a_freed y).
    - eapply amono_trans; [apply (amono_same s (emit s (EModel M_UAF a))); reflexivity|].
      apply (amono_upd (emit s (EModel M_UAF a)) a y); [exact A | right; split; reflexivity].
    - apply (amono_upd s a y); [exact A | right; split; reflexivity]. }
  clear ES2 SD.
  destruct (a_notify y) as [nt|] eqn:NT; injection E as EP ES; subst pre s2.
  - (* the notifier is taken: its invocation is pushed behind the value drops *)
    destruct EV as [evs [TR NE]].
    exists m. assert (M' : monr stepL iL (tr s') = Some m) by (rewrite TR; apply monL_block; auto).
    split; [exact M'|].
    destruct (RL_cells _ _ _ AM (rl_none _ _ _ R) (rl_some _ _ _ R)) as [C1 C2].
    split; auto.
    + intros w r c0 rest b SPL NS.
      destruct (app_split _ k0 w _ rest SPL) as [(w0 & K0 & ->)|(p2 & PRE & RST)].
      * eapply (rl_v _ _ _ R (MTerminate a c :: w0)); [rewrite K0; reflexivity | exact NS].
      * (* the pushed one: nothing of the value of [a] is behind it *)
        assert (Q : w = dl ++ [MLogClose a c] /\ r = nt /\ p2 = []).
        { clear - PRE IS. revert w PRE. induction dl as [|d dl IH]; simpl; intros w PRE.
          - destruct w as [|x w]; simpl in PRE; inversion PRE; subst. destruct w as [|x w]; simpl in H1; inversion H1; subst; [auto|].
            destruct w; discriminate.
          - simpl in IS. apply orb_false_elim in IS as [I1 I2]. destruct w as [|x w]; simpl in PRE; inversion PRE; subst; [discriminate I1|].
            destruct (IH I2 w H1) as (A & B & C). subst. auto. }
        destruct Q as (-> & -> & ->). simpl in RST. subst rest.
        destruct (KI_aok _ _ _ _ _ K A) as (_ & _ & NSH & _). pose proof (NSH _ NT) as NA.
        assert (b = a). { clear - NS NA. revert NS NA. generalize nt. fix IHr 1. intros [rid kd]. destruct kd; simpl; try contradiction; try congruence. apply IHr. }
        subst b.
        pose proof (Lin_live _ _ (RVal a) L ltac:(discriminate)) as LV. unfold cnt in LV. cbn [cmops] in LV. rewrite cmop_val in LV.
        rewrite (val_in_cell _ _ _ a K), A in LV. destruct (monL_facts _ _ M) as [_ _ _ F4 _ _]. destruct (F4 a) as (D1 & D2 & D3).
        pose proof (cmops_nn (RVal a) k0). pose proof (conT_nn (RVal a) (tr s)).
        destruct (a_state y) eqn:SA.
        -- destruct (rl_some _ _ _ R _ _ A) as (_ & P1 & _ & _). rewrite SA in P1. specialize (P1 eq_refl).
           rewrite P1 in D3. specialize (D3 eq_refl). lia.
        -- lia.
        -- destruct (rl_some _ _ _ R _ _ A) as (_ & _ & _ & P3). rewrite SA in P3. specialize (P3 eq_refl). congruence.
    + intros b H. eapply (cnt_val_step _ _ _ _ b L (step_handle _ _ _ _ _ E0)).
      * rewrite TR, creT_app. destruct (pbL_zero evs b NE) as (_ & _ & Z & _). lia.
      * rewrite TR, conT_app. pose proof (conT_nn (RVal b) evs). lia.
      * apply (rl_v2 _ _ _ R); auto.
  - eapply IL_block; eauto.
Qed.

Lemma nshape_unique r : forall a b, nshape a r -> nshape b r -> a = b.
Proof. revert r. fix IH 1. intros [rid kd] a b. destruct kd; simpl; try contradiction; try congruence. apply IH. Qed.

Lemma KI_zombie mo k0 s r m0 a : KI (MRetInvoke r m0 :: k0) s -> mo = MRetInvoke r m0 -> nshape a r -> zombie s a.
Proof. intros [_ F] -> NS. inversion F; subst. simpl in H1. apply H1. exact NS. Qed.

Lemma IL_retinvoke m r m0 k0 s pre s' :
  Lin (MRetInvoke r m0 :: k0) s -> KI (MRetInvoke r m0 :: k0) s -> handle (MRetInvoke r m0) s = (pre, s') ->
  monr stepL iL (tr s) = Some m -> RL m (MRetInvoke r m0 :: k0) s ->
  exists m', monr stepL iL (tr s') = Some m' /\ RL m' (pre ++ k0) s'.
Proof.
  intros L K E M R. pose proof E as E0. cbn [handle] in E. destruct r as [rid rk]. unfold ret_invoke in E.
  destruct rk as [caps bd|a ci|a ci|a inner|p key inner].
  - eapply IL_block; eauto; inversion E; subst; [ei_tac | am_tac | reflexivity].
  - eapply IL_block; eauto; inversion E; subst; [ei_tac | am_tac | reflexivity].
  - destruct m0; eapply IL_block; eauto; inversion E; subst; try solve [ei_tac | am_tac | reflexivity].
  - (* the notifier of actor a *)
    assert (ZA : zombie s a) by (eapply KI_zombie; eauto; reflexivity).
    destruct ZA as (x & A & SZ).
    destruct (monL_facts _ _ M) as [F1 F2 F3 F4 F5 F6].
    assert (PR : 1 <= cnt (RNot a) (MRetInvoke (Ret rid (RKNotify a inner)) m0 :: k0) s).
    { unfold cnt. cbn [cmops cmop]. rewrite cret_eq, crk_notify, ind_refl.
      pose proof (cmsg_nn (RNot a) (Ret rid (RKNotify a inner)) m0). pose proof (cmops_nn (RNot a) k0). pose proof (cst_nn (RNot a) s).
      destruct inner as [[p ci]|]; [pose proof (badif_nn (RNot a) (realk (ci_kind ci))); pose proof (cci_nn (RNot a) ci)|]; lia. }
    pose proof (Lin_live _ _ (RNot a) L ltac:(discriminate)) as LV. specialize (F1 a). specialize (F2 a).
    pose proof (conT_nn (RNot a) (tr s)) as CNN.
    assert (NP : nget (l_notified m) a = None /\ N.eqb (phase_of (l_phase m) a) 0 = false).
    { destruct (nget (l_notified m) a); destruct (N.eqb (phase_of (l_phase m) a) 0); try lia; auto. }
    destruct NP as [NN P0].
    set (e := ENotify a (msg_cause m0)).
    set (m' := mkL (nset (l_phase m) a 3%N) (nset (l_notified m) a (match msg_cause m0 with Some _ => true | None => false end)) (l_valdrop m)).
    assert (SHAPE : exists evs2, tr s' = evs2 ++ e :: tr s /\ forallb pbL evs2 = true /\ amono s s' /\ existsb isc pre = false).
    { destruct inner as [[p ci]|]; inversion E; subst pre s'.
      - exists [ESub QMain (ci_uid (as_call p ci None)) (ci_call (as_call p ci None))]. split; [reflexivity | split; [reflexivity | split; [am_tac | reflexivity]]].
      - exists []. split; [reflexivity | split; [reflexivity | split; [am_tac | reflexivity]]]. }
    destruct SHAPE as (evs2 & TR & NE2 & AM & IS).
    assert (M1 : monr stepL iL (e :: tr s) = Some m').
    { simpl. rewrite M. simpl. rewrite NN, P0. reflexivity. }
    exists m'. split; [rewrite TR; apply monL_block; auto|].
    assert (X : ext s s') by (eapply handle_ext; eauto).
    (* the cells: only the phase of [a] changes, and [a] is a Zombie *)
    assert (CELLS : (forall b, aget (actors s) b = None -> phase_of (l_phase m') b = 0%N) /\
                    (forall b y, aget (actors s) b = Some y ->
                       phase_of (l_phase m') b <> 0%N /\ (skind (a_state y) = 0 -> phase_of (l_phase m') b = 1%N) /\
                       (skind (a_state y) = 1 -> phase_of (l_phase m') b = 2%N) /\ (a_state y = SZombie -> a_notify y = None))).
    { split.
      - intros b H. unfold m'. cbn [l_phase]. rewrite phase_nset. destruct (N.eqb b a) eqn:Q; [apply N.eqb_eq in Q; subst; congruence|].
        apply (rl_none _ _ _ R); auto.
      - intros b y H. unfold m'. cbn [l_phase]. rewrite phase_nset. destruct (N.eqb b a) eqn:Q.
        + apply N.eqb_eq in Q. subst. rewrite A in H. inversion H; subst y. rewrite SZ. simpl.
          destruct (rl_some _ _ _ R _ _ A) as (_ & _ & _ & P3). repeat split; try discriminate. intros _. apply P3. exact SZ.
        + apply (rl_some _ _ _ R _ _ H). }
    destruct CELLS as [CN CS]. destruct (RL_cells _ _ _ AM CN CS) as [C1 C2].
    split; auto.
    + intros w r c rest b SPL NS. destruct (app_split pre k0 w _ rest SPL) as [(w0 & K0 & ->)|(p2 & PRE & _)].
      * eapply (rl_v _ _ _ R (_ :: w0)); [rewrite K0; reflexivity | exact NS].
      * exfalso. eapply isc_split; eauto.
    + intros b H. unfold m' in H. cbn [l_notified] in H. rewrite nget_nset in H.
      assert (CR : creT (RVal b) (tr s') = creT (RVal b) (tr s)).
      { rewrite TR, creT_app. cbn [creT]. destruct (pbL_zero evs2 b NE2) as (_ & _ & Z & _). rewrite Z, cre1_val. unfold e. lia. }
      destruct (N.eqb b a) eqn:Q.
      * apply N.eqb_eq in Q. subst b.
        (* a notification with a cause: the value of [a] was dropped before *)
        destruct m0 as [[v|c]|]; try discriminate H.
        eapply (cnt_val_step _ _ _ _ a L (step_handle _ _ _ _ _ E0)); [exact CR | apply conT_ext; exact X|].
        unfold cnt. cbn [cmops]. rewrite cmop_val, (val_in_cell _ _ _ a K), A, SZ.
        rewrite (rl_v _ _ _ R [] _ c k0 a eq_refl); [lia | reflexivity].
      * eapply (cnt_val_step _ _ _ _ b L (step_handle _ _ _ _ _ E0)); [exact CR | apply conT_ext; exact X | apply (rl_v2 _ _ _ R); auto].
  - (* the slab wrapper hands the message to the wrapped notifier *)
    destruct m0 as [m1|].
    + inversion E; subst pre s'; clear E.
      assert (EV : evs_in pbL s (push_main (ref_clone s p) (CI 0 0 (KSlabRm p key) [] None))) by ei_tac.
      destruct EV as [evs [TR NE]].
      exists m. assert (M' : monr stepL iL (tr (push_main (ref_clone s p) (CI 0 0 (KSlabRm p key) [] None))) = Some m)
        by (rewrite TR; apply monL_block; auto).
      split; [exact M'|].
      assert (AM : amono s (push_main (ref_clone s p) (CI 0 0 (KSlabRm p key) [] None))) by am_tac.
      destruct (RL_cells _ _ _ AM (rl_none _ _ _ R) (rl_some _ _ _ R)) as [C1 C2].
      split; auto.
      * intros w r c rest b SPL NS. simpl in SPL. destruct w as [|y w]; simpl in SPL; inversion SPL; subst.
        -- cbn [cmops cmop]. rewrite (rl_v _ _ _ R [] _ c k0 b eq_refl); [lia | exact NS].
        -- destruct w as [|y' w]; simpl in H1; inversion H1; subst.
           eapply (rl_v _ _ _ R (_ :: w)); [reflexivity | exact NS].
      * intros b H. eapply (cnt_val_step _ _ _ _ b L (step_handle _ _ _ _ _ E0)).
        -- rewrite TR, creT_app. destruct (pbL_zero evs b NE) as (_ & _ & Z & _). lia.
        -- rewrite TR, conT_app. pose proof (conT_nn (RVal b) evs). lia.
        -- apply (rl_v2 _ _ _ R); auto.
    + eapply IL_block; eauto; inversion E; subst; [ei_tac | am_tac | reflexivity].
Qed.

Section NshapeCnt.
Transparent cret crk.
Fixpoint nshape_cnt (nt : ret) {struct nt} : forall a, nshape a nt -> 1 <= cret (RNot a) nt.
Proof.
  destruct nt as [rid k]. destruct k as [caps b|a0 ci|a0 ci|a0 inner|p key inner]; simpl; intros a H; try contradiction.
  - subst a0. rewrite ind_refl. destruct inner as [[p ci]|]; [|lia].
    pose proof (badif_nn (RNot a) (realk (ci_kind ci))). pose proof (cci_nn (RNot a) ci). lia.
  - apply (nshape_cnt inner a H).
Qed.
End NshapeCnt.

Lemma IL_iszombie m h l k0 s pre s' :
  Lin (MActs (AIsZombie h :: l) :: k0) s -> KI (MActs (AIsZombie h :: l) :: k0) s ->
  handle (MActs (AIsZombie h :: l)) s = (pre, s') ->
  monr stepL iL (tr s) = Some m -> RL m (MActs (AIsZombie h :: l) :: k0) s ->
  exists m', monr stepL iL (tr s') = Some m' /\ RL m' (pre ++ k0) s'.
Proof.
  intros L K E M R. pose proof E as E0. cbn [handle] in E.
  destruct (do_act (AIsZombie h) s) as [p s1] eqn:DA. inversion E; subst pre s1; clear E. unfold do_act in DA.
  assert (BAD : (p, s') = bad s 24 -> exists m', monr stepL iL (tr s') = Some m' /\ RL m' ((p ++ [MActs l]) ++ k0) s').
  { intros Q. unfold bad in Q. inversion Q; subst. eapply IL_block; eauto; [ei_tac | am_tac]. }
  destruct (lookup s h) as [v|]; [|apply BAD; auto]. destruct (handle_actor v) as [a|]; [|apply BAD; auto].
  destruct (aget (actors s) a) as [x|] eqn:A; [|apply BAD; auto]. inversion DA; subst p s'; clear DA.
  exists m. assert (M' : monr stepL iL (tr (emit s (EIsZombie a (ob (count_is_zombie (a_strong x)))))) = Some m).
  { change (monr stepL iL (EIsZombie a (ob (count_is_zombie (a_strong x))) :: tr s) = Some m). cbn [monr]. rewrite M. cbn [stepL].
    destruct (nget (l_notified m) a) as [b|] eqn:NT; [|reflexivity].
    destruct (monL_facts _ _ M) as [F1 F2 _ _ _ _]. specialize (F1 a). specialize (F2 a). rewrite NT in F2.
    pose proof (Lin_live _ _ (RNot a) L ltac:(discriminate)) as LV.
    destruct (KI_aok _ _ _ _ _ K A) as (SR & ST & NSH & NZ & _).
    assert (NN : a_notify x = None).
    { destruct (a_notify x) as [nt|] eqn:AN; auto. exfalso.
      pose proof (nshape_cnt nt a (NSH _ eq_refl)) as C1.
      pose proof (cacts_aget_le (RNot a) _ _ _ A) as C2. unfold cactor in C2. rewrite AN in C2. simpl in C2.
      pose proof (cstate_nn (RNot a) a (a_state x)). pose proof (badif_nn (RNot a) (nkind nt)).
      unfold cnt, cst in LV. pose proof (cmops_nn (RNot a) (MActs (AIsZombie h :: l) :: k0)).
      pose proof (cq_nn (RNot a) (mainq s)). pose proof (cq_nn (RNot a) (lazyq s)). pose proof (cq_nn (RNot a) (idleq s)).
      pose proof (ctim_nn (RNot a) (timers s)). pose proof (cenv_nn (RNot a) (env s)). pose proof (cfrs_nn (RNot a) (frames s)).
      pose proof (cnu_nn (RNot a) (nuid s)). destruct (N.eqb (phase_of (l_phase m) a) 0); lia. }
    rewrite (is_zombie_sta _ SR), ST, (NZ NN). reflexivity. }
  split; [exact M'|]. apply (IL_core m _ k0 s _ _ L E0 M'); [|am_tac|reflexivity|exact R]. intros b. rewrite creT_emit, cre1_val. lia.
Qed.

Lemma new_actor_tr s a nt parent vis :
  exists lg, tr (new_actor s a nt parent vis) = (if vis then [EOwnNew a] else []) ++ EActor a :: lg ++ tr s /\ forallb pbL lg = true.
Proof.
  unfold new_actor, log_rec. destruct (allows _ _ && haslogger _).
  - eexists [_]. destruct vis; split; reflexivity.
  - exists []. destruct vis; split; reflexivity.
Qed.

Lemma IL_newactor m mo k0 s pre s' a s1 nt parent vis :
  Lin (mo :: k0) s -> handle mo s = (pre, s') ->
  evs_in pbL s s1 -> amono s s1 -> aget (actors s) a = None ->
  evs_in pbL (new_actor s1 a nt parent vis) s' -> amono (new_actor s1 a nt parent vis) s' -> existsb isc pre = false ->
  monr stepL iL (tr s) = Some m -> RL m (mo :: k0) s ->
  exists m', monr stepL iL (tr s') = Some m' /\ RL m' (pre ++ k0) s'.
Proof.
  intros L E [e1 [T1 N1]] AM1 AN [e2 [T2 N2]] AM2 IS M R.
  destruct (new_actor_tr s1 a nt parent vis) as (lg & TN & NL).
  assert (P0 : phase_of (l_phase m) a = 0%N) by (apply (rl_none _ _ _ R); exact AN).
  set (m' := mkL (nset (l_phase m) a 1%N) (l_notified m) (l_valdrop m)).
  assert (TR : tr s' = (e2 ++ (if vis then [EOwnNew a] else [])) ++ EActor a :: (lg ++ e1) ++ tr s).
  { rewrite T2, TN, T1, <- !app_assoc. reflexivity. }
  assert (M' : monr stepL iL (tr s') = Some m').
  { rewrite TR. apply monL_block. { rewrite forallb_app, N2. destruct vis; reflexivity. }
    simpl. rewrite (monL_block (lg ++ e1) _ _ ltac:(rewrite forallb_app, NL, N1; reflexivity) M). simpl. rewrite P0. reflexivity. }
  exists m'. split; [exact M'|].
  destruct (RL_cells _ _ _ AM1 (rl_none _ _ _ R) (rl_some _ _ _ R)) as [CN1 CS1].
  assert (AN1 : aget (actors s1) a = None) by (apply AM1; exact AN).
  destruct (new_actor_get s1 a nt parent vis) as (x0 & G0 & SA0 & NT0).
  assert (CELLS2 : (forall b, aget (actors (new_actor s1 a nt parent vis)) b = None -> phase_of (l_phase m') b = 0%N) /\
                   (forall b y, aget (actors (new_actor s1 a nt parent vis)) b = Some y ->
                      phase_of (l_phase m') b <> 0%N /\ (skind (a_state y) = 0 -> phase_of (l_phase m') b = 1%N) /\
                      (skind (a_state y) = 1 -> phase_of (l_phase m') b = 2%N) /\ (a_state y = SZombie -> a_notify y = None))).
  { split.
    - intros b H. unfold m'. cbn [l_phase]. rewrite phase_nset. destruct (N.eqb b a) eqn:Q; [apply N.eqb_eq in Q; subst; congruence|].
      apply CN1. rewrite <- (new_actor_other s1 a nt parent vis b); auto. intros ->. rewrite N.eqb_refl in Q. discriminate.
    - intros b y H. unfold m'. cbn [l_phase]. rewrite phase_nset. destruct (N.eqb b a) eqn:Q.
      + apply N.eqb_eq in Q. subst. rewrite G0 in H. inversion H; subst y. rewrite SA0. simpl. repeat split; try discriminate; auto.
      + apply CS1. rewrite <- (new_actor_other s1 a nt parent vis b); auto. intros ->. rewrite N.eqb_refl in Q. discriminate. }
  destruct CELLS2 as [CN2 CS2]. destruct (RL_cells _ _ _ AM2 CN2 CS2) as [C1 C2].
  assert (X : ext s s') by (eapply handle_ext; eauto).
  split; auto.
  - intros w r c rest b SPL NS. destruct (app_split pre k0 w _ rest SPL) as [(w0 & K0 & ->)|(p2 & PRE & _)].
    + eapply (rl_v _ _ _ R (mo :: w0)); [rewrite K0; reflexivity | exact NS].
    + exfalso. eapply isc_split; eauto.
  - intros b H. eapply (cnt_val_step _ _ _ _ b L (step_handle _ _ _ _ _ E)); [| apply conT_ext; exact X | apply (rl_v2 _ _ _ R); exact H].
    rewrite TR, !creT_app. cbn [creT]. rewrite !creT_app, cre1_val.
    destruct (pbL_zero (e2 ++ (if vis then [EOwnNew a] else [])) b ltac:(rewrite forallb_app, N2; destruct vis; reflexivity)) as (_ & _ & Z1 & _).
    destruct (pbL_zero (lg ++ e1) b ltac:(rewrite forallb_app, NL, N1; reflexivity)) as (_ & _ & Z2 & _). rewrite !creT_app in *. lia.
Qed.

Lemma mk_notifier_am s a n nt s1 : mk_notifier s a n = (nt, s1) -> evs_in pbL s s1 /\ amono s s1.
Proof.
  unfold mk_notifier. destruct n as [[hp c]|].
  - destruct (lookup s hp) as [v|]; [destruct (handle_actor v) as [p|]|].
    + destruct (inst_call c (fun b => KMeth p b None) (ref_clone s p)) as [ci s2] eqn:I. intros Q; inversion Q; subst. split; [ei_tac | am_tac].
    + intros Q; inversion Q; subst. split; [ei_tac | am_tac].
    + intros Q; inversion Q; subst. split; [ei_tac | am_tac].
  - intros Q; inversion Q; subst. split; [ei_tac | am_tac].
Qed.


Lemma IL_newactor_acts m a0 l k0 s pre s' :
  Lin (MActs (a0 :: l) :: k0) s -> handle (MActs (a0 :: l)) s = (pre, s') ->
  match a0 with ANewActor _ _ _ | ASlabAdd _ _ _ => True | _ => False end ->
  monr stepL iL (tr s) = Some m -> RL m (MActs (a0 :: l) :: k0) s ->
  exists m', monr stepL iL (tr s') = Some m' /\ RL m' (pre ++ k0) s'.
Proof.
  intros L E SP M R. pose proof E as E0. cbn [handle] in E.
  destruct (do_act a0 s) as [p s1] eqn:DA. inversion E; subst pre s1; clear E.
  assert (BAD : forall n, (p, s') = bad s n -> exists m', monr stepL iL (tr s') = Some m' /\ RL m' ((p ++ [MActs l]) ++ k0) s').
  { intros n Q. unfold bad in Q. inversion Q; subst. eapply IL_block; eauto; [ei_tac | am_tac]. }
  destruct a0; try contradiction; unfold do_act in DA.
  - (* ANewActor *)
    destruct (has_core s); [|apply (BAD 10%N); auto]. destruct (aget (actors s) a) as [y|] eqn:A; [apply (BAD 10%N); auto|].
    destruct (mk_notifier s a n) as [nt s1] eqn:MK. destruct (mk_notifier_am _ _ _ _ _ MK) as [EV1 AM1].
    apply (IL_newactor m _ k0 s _ s' a s1 nt (ctx_logid s) true L E0 EV1 AM1 A); auto.
    + eapply ei_bind; [apply ei_refl | exact DA].
    + apply amono_same. exact (bind_actors _ _ _ _ _ DA).
    + rewrite isc_app. rewrite (bind_isc _ _ _ _ _ DA). reflexivity.
  - (* ASlabAdd *)
    destruct (cur_ctx s) as [|a1 prep|] eqn:CX; try (apply (BAD 22%N); auto; fail).
    destruct prep; [apply (BAD 22%N); auto|]. destruct (alive s); [|apply (BAD 22%N); auto].
    destruct (aget (actors s) a1) as [px|] eqn:AP; [|apply (BAD 22%N); auto].
    destruct (aget (actors s) a) as [y|] eqn:A; [apply (BAD 22%N); auto|].
    destruct (a_state px) as [|sh slab nx|] eqn:SP1; try (apply (BAD 22%N); auto; fail).
    destruct (mk_notifier s a n) as [inner s1] eqn:MK. destruct (mk_notifier_am _ _ _ _ _ MK) as [EV1 AM1].
    destruct (slab_insert slab nx a) as [[slab' nx'] key] eqn:SI.
    assert (EV1' : evs_in pbL s (ref_clone s1 a1)) by (apply ei_ref_clone; [intros; reflexivity | exact EV1]).
    assert (AM1' : amono s (ref_clone s1 a1)) by (eapply amono_trans; [exact AM1 | apply amono_ref_clone]).
    assert (NE : a <> a1) by (intros ->; congruence).
    cbv zeta in DA.
    set (s4 := ref_clone (new_actor (ref_clone s1 a1) a (Ret a (RKSlab a1 key inner)) (a_logid px) false) a) in *.
    apply (IL_newactor m _ k0 s _ s' a (ref_clone s1 a1) (Ret a (RKSlab a1 key inner)) (a_logid px) false L E0 EV1' AM1' A); auto.
    + eapply ei_bind; [|exact DA]. apply ei_emit; [|reflexivity].
      destruct (aget (actors s4) a1) as [px'|]; [apply (ei_same _ _ s4); [|reflexivity]|]; unfold s4; apply ei_ref_clone; try (intros; reflexivity); apply ei_refl.
    + eapply amono_trans; [|apply amono_same; exact (bind_actors _ _ _ _ _ DA)].
      eapply amono_trans; [|apply amono_same; apply actors_emit].
      apply (amono_trans _ s4); [unfold s4; apply amono_ref_clone|].
      destruct (aget (actors s4) a1) as [px'|] eqn:AP2; [|apply amono_refl].
      (* the parent's slab is updated: its state stays Ready *)
      destruct (mk_notifier_some _ _ _ _ _ _ _ MK AP) as (y1 & G1 & S1 & _).
      destruct (ref_clone_some _ a1 _ _ G1) as (y2 & G2 & S2 & _).
      rewrite <- (new_actor_other _ a (Ret a (RKSlab a1 key inner)) (a_logid px) false a1 NE) in G2.
      destruct (ref_clone_some _ a _ _ G2) as (y3 & G3 & S3 & _). fold s4 in G3.
      rewrite G3 in AP2. inversion AP2; subst y3.
      assert (SA : a_state px' = SReady sh slab nx) by congruence.
      apply (amono_upd _ a1 px'); [exact G3 | left; split; [rewrite SA; reflexivity | reflexivity]].
    + rewrite isc_app. rewrite (bind_isc _ _ _ _ _ DA). reflexivity.
Qed.

(* the hypothesis of the theorem, on the trace so far: a leaked container has been reported *)
Definition BadL (t : list ev) : Prop := exists kd id, In (ELeak kd id) t /\ leak_kind kd = true.

Lemma BadL_ext s s' : ext s s' -> BadL (tr s) -> BadL (tr s').
Proof. intros E (kd & id & H & L). exists kd, id. split; auto. eapply ext_in; eauto. Qed.

Lemma IL_leaks m k0 s pre s' :
  Lin (MLeaks :: k0) s -> handle MLeaks s = (pre, s') ->
  monr stepL iL (tr s) = Some m -> RL m (MLeaks :: k0) s ->
  BadL (tr s') \/ exists m', monr stepL iL (tr s') = Some m' /\ RL m' (pre ++ k0) s'.
Proof.
  intros L E M R. pose proof E as E0. cbn [handle] in E. inversion E; subst pre s'; clear E.
  destruct (class_flags_tr s) as (fl & TR1 & FM & _).
  remember (tr (class_flags s)) as t1 eqn:Ht1. remember (live_after (rev t1) []) as LL eqn:HLL.
  assert (TRS : tr (set_tr (class_flags s) (rev (leaks (rev t1)) ++ t1)) =
                rev (map (fun p : N * N => ELeak (fst p) (snd p)) LL) ++ fl ++ tr s).
  { unfold leaks. rewrite <- HLL. change (tr (set_tr (class_flags s) (rev (map (fun p : N * N => ELeak (fst p) (snd p)) LL) ++ t1)))
      with (rev (map (fun p : N * N => ELeak (fst p) (snd p)) LL) ++ t1). rewrite TR1. reflexivity. }
  destruct (existsb (fun p => leak_kind (fst p)) LL) eqn:EX.
  { left. apply existsb_exists in EX as (p & IN & LK). exists (fst p), (snd p). split; auto.
    rewrite TRS. apply in_or_app. left. apply -> in_rev. apply in_map_iff. exists p. auto. }
  right. exists m.
  assert (NFL : forallb pbL fl = true).
  { apply forallb_forall. intros e IN. rewrite Forall_forall in FM. destruct (FM e IN) as (c & a & -> & _). reflexivity. }
  assert (M' : monr stepL iL (tr (set_tr (class_flags s) (rev (leaks (rev t1)) ++ t1))) = Some m).
  { rewrite TRS. assert (G : forall l, (forall p, In p l -> leak_kind (fst p) = false) ->
       monr stepL iL (map (fun p : N * N => ELeak (fst p) (snd p)) l ++ fl ++ tr s) = Some m
       /\ monr stepL iL (rev (map (fun p : N * N => ELeak (fst p) (snd p)) l) ++ fl ++ tr s) = Some m).
    { assert (ST : forall kd id, leak_kind kd = false -> stepL m (ELeak kd id) = Some m).
      { intros kd id H. simpl. unfold leak_kind in H. apply orb_false_elim in H as [H1 H2]. apply orb_false_elim in H1 as [_ H1].
        rewrite H2, H1. reflexivity. }
      assert (GEN : forall evs, Forall (fun e => exists kd id, e = ELeak kd id /\ leak_kind kd = false) evs -> monr stepL iL (evs ++ fl ++ tr s) = Some m).
      { induction 1 as [|e l0 (kd & id & -> & LK) F IH]; simpl; [apply monL_block; auto|]. rewrite IH. apply (ST kd id); auto. }
      intros l H. split; apply GEN.
      - apply Forall_forall. intros e IN. apply in_map_iff in IN as (p & <- & IP). eauto.
      - apply Forall_rev. apply Forall_forall. intros e IN. apply in_map_iff in IN as (p & <- & IP). eauto. }
    apply G. intros p IN. destruct (leak_kind (fst p)) eqn:LK; auto.
    assert (existsb (fun p => leak_kind (fst p)) LL = true) by (apply existsb_exists; eauto). congruence. }
  split; [exact M'|].
  apply (IL_core m _ k0 s _ _ L E0 M'); [| |reflexivity|exact R].
  - intros a. rewrite TRS, !creT_app. destruct (pbL_zero fl a NFL) as (_ & _ & Z & _). rewrite Z.
    assert (Z2 : creT (RVal a) (rev (map (fun p : N * N => ELeak (fst p) (snd p)) LL)) = 0).
    { rewrite creT_rev. destruct (conT_leaks (RVal a) LL) as [_ B]. exact B. }
    lia.
  - apply amono_same. simpl. unfold class_flags.
    assert (FF : forall (f : N * actor -> option ev) l s0, actors (fold_left (fun s1 p0 => emit_opt s1 (f p0)) l s0) = actors s0).
    { intros f l. induction l; simpl; intros s0; auto. rewrite IHl. unfold emit_opt. destruct (f a); reflexivity. }
    apply FF.
Qed.

(* ------------------------------------------------------------------ *)
(** * Monitor L: preservation *)

Theorem step_RL k s k' s' m :
  Lin k s -> KI k s -> step k s = Some (k', s') ->
  monr stepL iL (tr s) = Some m -> RL m k s ->
  BadL (tr s') \/ exists m', monr stepL iL (tr s') = Some m' /\ RL m' k' s'.
Proof.
  intros L K H M R. destruct k as [|mo k0]; [discriminate|]. simpl in H.
  destruct (handle mo s) as [pre s1] eqn:E. inversion H; subst; clear H.
  destruct (specialL mo) eqn:SP; [|right; eapply IL_neutral; eauto].
  destruct mo; try discriminate SP.
  - destruct l as [|a l]; [discriminate SP|]. simpl in SP. destruct a; try discriminate SP.
    + right. eapply IL_newactor_acts; eauto. exact I.
    + right. eapply IL_newactor_acts; eauto. exact I.
    + right. eapply IL_iszombie; eauto.
  - right. eapply IL_runitem; eauto.
  - right. eapply IL_retinvoke; eauto.
  - right. eapply IL_valdrop; eauto.
  - right. eapply IL_terminate; eauto.
  - right. eapply IL_toready; eauto.
  - eapply IL_leaks; eauto.
Qed.

Lemma RL_init d p : RL iL (map MTop p ++ [MEpilogue]) (init d).
Proof.
  split; simpl.
  - intros a _. reflexivity.
  - intros a x H. discriminate H.
  - intros w r c rest a H. exfalso.
    assert (IN : In (MRetInvoke r (Some (MCause c))) (map MTop p ++ [MEpilogue])) by (rewrite H; apply in_or_app; right; left; reflexivity).
    apply in_app_or in IN as [IN|[IN|[]]]; [|discriminate IN]. apply in_map_iff in IN as (o & Q & _). discriminate Q.
  - intros a H. discriminate H.
Qed.
