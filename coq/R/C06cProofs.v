(** Layer R proofs: C06, calls conjunct: an actor call that went through the main queue and has neither started
    nor been dropped is pending main-queue work unless its target is still in Prep (then it is held); no such work
    is pending when [run] returns or when a lazy closure starts (except what the lazy batch itself submitted).

    [C06_calls_proved] and, with the plain-closure conjunct of C06Proofs.v, [C06_proved]: C06_ok for every program. *)
From Coq Require Import ZArith NArith List Bool Lia Permutation.
From Stk Require Import Lib.U Gen.SrcCount Gen.SrcCore Gen.SrcLog R.Syntax R.Rt R.Mon R.Shape R.Eff R.Tags R.Drops R.Mono R.Count
  R.Nest R.C15Proofs R.C01Proofs R.C06Proofs R.C20Proofs R.Calls R.CallInv R.Lin R.LinAct R.LinLaw R.LinStep.
Import ListNotations.
Local Open Scope Z_scope.

(* ------------------------------------------------------------------ *)
(** * The monitor *)

Definition mon6 (t : list ev) : option s06c := monr step06c i06c t.

Definition same6 (m m' : s06c) : Prop :=
  k_calls m' = k_calls m /\ k_prep m' = k_prep m /\ k_lazyon m' = k_lazyon m /\ k_since m' = k_since m.

Ltac case_all :=
  repeat match goal with
         | |- context [match ?x with _ => _ end] => destruct x
         | |- context [if ?x then _ else _] => destruct x
         end.

Lemma step06c_irrel m e : krel e = false -> exists m', step06c m e = Some m' /\ same6 m m'.
Proof.
  intros H. destruct e; try discriminate H; unfold step06c; simpl.
  all: try (eexists; split; [reflexivity | repeat split]).
  all: try (destruct q; try destruct call; try discriminate H; eexists; (split; [reflexivity | repeat split])).
  all: try (destruct call; try discriminate H; eexists; (split; [reflexivity | repeat split])).
Qed.

Lemma step06c_tgt m e m' : step06c m e = Some m' ->
  k_tgt m' = match e with ETarget u a _ => nset (k_tgt m) u a | _ => k_tgt m end.
Proof.
  unfold step06c, guard. destruct e; simpl; case_all; intros H; inversion H; reflexivity.
Qed.

(* the target map of the monitor is the latest target event of each uid *)
Lemma ktgt_last t : forall m, mon6 t = Some m -> forall u, nget (k_tgt m) u = option_map fst (last_tgt t u).
Proof.
  unfold mon6. induction t as [|e t IH]; simpl; intros m H u.
  - inversion H; subst. reflexivity.
  - destruct (monr step06c i06c t) as [m0|] eqn:M0; [|discriminate]. specialize (IH m0 eq_refl u).
    rewrite (step06c_tgt _ _ _ H). destruct e; try exact IH.
    destruct (N.eqb u uid) eqn:E.
    + apply N.eqb_eq in E. subst. rewrite nget_nset_eq. reflexivity.
    + rewrite nget_nset_neq; [exact IH|]. intros Q. subst. rewrite N.eqb_refl in E. discriminate.
Qed.

(* ------------------------------------------------------------------ *)
(** * Views of the configuration *)

(* an actor call that went through the main queue *)
Definition scb (c : citem) : bool :=
  match ci_kind c with
  | KMeth _ _ _ | KPrep _ _ _ => match ci_sq c with Some QMain => true | _ => false end
  | _ => false
  end.

Definition cu (c : citem) : list N := if scb c then [ci_uid c] else [].
Definition mcu (m : mop) : list N := match m with MRunItem c | MDropItem c | MDropInner c => cu c | _ => [] end.
Definition kcu (k : list mop) : list N := flat_map mcu k.
Definition qcu (l : list citem) : list N := flat_map cu l.
Definition hcu (l : list (N * actor)) : list N := flat_map (fun p => qcu (held_of (snd p))) l.
Definition calls_in (k : list mop) (s : st) : list N := kcu k ++ qcu (mainq s) ++ hcu (actors s).

Lemma kcu_app a b : kcu (a ++ b) = kcu a ++ kcu b. Proof. apply flat_map_app. Qed.
Lemma qcu_app a b : qcu (a ++ b) = qcu a ++ qcu b. Proof. apply flat_map_app. Qed.
Lemma kcu_runitems l : kcu (map MRunItem l) = qcu l.
Proof. induction l; simpl; auto. rewrite IHl. reflexivity. Qed.
Lemma kcu_dropitems l : kcu (map MDropItem l) = qcu l.
Proof. induction l; simpl; auto. rewrite IHl. reflexivity. Qed.

Lemma cu_plain c : ci_call c = false -> cu c = [].
Proof. unfold cu, scb, ci_call. destruct (ci_kind c); auto; discriminate. Qed.

Lemma qcu_plain l : Forall (fun c => ci_call c = false) l -> qcu l = [].
Proof. intros F. induction F; simpl; auto. rewrite cu_plain, IHF; auto. Qed.

Lemma qcu_tagged q l : Forall (tagged q) l -> qcu l = [].
Proof. intros F. apply qcu_plain. eapply Forall_impl; [|exact F]. intros c [C _]; exact C. Qed.

Lemma kcu_gen l : Forall genm l -> kcu l = [].
Proof.
  intros F. induction F as [|m l G F IH]; simpl; auto. rewrite IH, app_nil_r.
  destruct m; simpl in *; auto; try contradiction; apply cu_plain; auto.
Qed.

Lemma cu_setq_call ci : callk ci -> cu (ci_setq ci QMain) = [ci_uid ci].
Proof. destruct ci as [u i k caps q]. unfold callk, cu, scb. simpl. destruct k; simpl; auto; contradiction. Qed.

Lemma cu_internal k : internalk k -> cu (CI 0 0 k [] None) = [].
Proof. unfold cu, scb. simpl. destruct k; simpl; auto; contradiction. Qed.

(* the held part: an association list updated in place *)
Lemma hcu_aset_same l a x y : aget l a = Some y -> held_of x = held_of y -> hcu (aset l a x) = hcu l.
Proof.
  induction l as [|[b z] r IH]; simpl; [discriminate|]. destruct (N.eqb a b) eqn:E.
  - intros Q; inversion Q; subst. intros H. simpl. rewrite H. reflexivity.
  - intros Q H. simpl. rewrite IH; auto.
Qed.

Lemma hcu_aset_none l a x : aget l a = None -> hcu (aset l a x) = hcu l ++ qcu (held_of x).
Proof.
  induction l as [|[b z] r IH]; simpl; intros Q.
  - rewrite app_nil_r. reflexivity.
  - destruct (N.eqb a b) eqn:E; [discriminate|]. simpl. rewrite IH, app_assoc; auto.
Qed.

(* replacing the held queue of one actor: the uids of the other actors stay where they are *)
Lemma hcu_aset_perm l a x y : aget l a = Some y ->
  Permutation (hcu (aset l a x) ++ qcu (held_of y)) (hcu l ++ qcu (held_of x)).
Proof.
  induction l as [|[b z] r IH]; simpl; [discriminate|]. destruct (N.eqb a b) eqn:E.
  - intros Q; inversion Q; subst. simpl.
    (* (hx ++ R) ++ hy  ~  (hy ++ R) ++ hx *)
    apply Permutation_trans with (qcu (held_of y) ++ qcu (held_of x) ++ hcu r).
    + rewrite <- app_assoc. apply Permutation_trans with ((qcu (held_of x) ++ hcu r) ++ qcu (held_of y)); [rewrite app_assoc; apply Permutation_refl|].
      apply Permutation_app_comm.
    + rewrite <- app_assoc. apply Permutation_app_head. apply Permutation_app_comm.
  - intros Q. simpl. rewrite <- !app_assoc. apply Permutation_app_head. apply IH; auto.
Qed.

Lemma hcu_in l u : NoDup (map fst l) -> In u (hcu l) ->
  exists a x c, aget l a = Some x /\ In c (held_of x) /\ scb c = true /\ ci_uid c = u.
Proof.
  intros ND H. unfold hcu in H. apply in_flat_map in H as ([a x] & IN & H). simpl in H.
  unfold qcu in H. apply in_flat_map in H as (c & C & U). unfold cu in U. destruct (scb c) eqn:S; [|contradiction].
  destruct U as [<-|[]]. exists a, x, c. split; [apply aget_in; auto | auto].
Qed.

(* ------------------------------------------------------------------ *)
(** * Lists of the monitor *)

Lemma nmem_In x l : nmem x l = true <-> In x l.
Proof.
  induction l as [|y l IH]; simpl; [split; [discriminate | contradiction]|].
  rewrite orb_true_iff, N.eqb_eq, IH. split; intros [H|H]; auto.
Qed.

Lemma nremove_notin x l : ~ In x l -> nremove x l = l.
Proof.
  induction l as [|y l IH]; simpl; auto. intros H. destruct (N.eqb x y) eqn:E.
  - apply N.eqb_eq in E. subst. exfalso. apply H. auto.
  - rewrite IH; auto.
Qed.

Lemma perm_nremove x l r : Permutation l (x :: r) -> Permutation (nremove x l) r.
Proof.
  intros P. assert (IN : In x l) by (eapply Permutation_in; [apply Permutation_sym; exact P | left; reflexivity]).
  assert (Q : Permutation l (x :: nremove x l)).
  { clear P. induction l as [|y l IH]; simpl; [contradiction|]. destruct (N.eqb x y) eqn:E.
    - apply N.eqb_eq in E. subst. apply Permutation_refl.
    - destruct IN as [->|IN]; [rewrite N.eqb_refl in E; discriminate|].
      eapply Permutation_trans; [apply perm_skip, IH; auto | apply perm_swap]. }
  eapply Permutation_cons_inv. eapply Permutation_trans; [apply Permutation_sym; exact Q | exact P].
Qed.

Lemma nodup_nremove x l : NoDup l -> NoDup (nremove x l) /\ ~ In x (nremove x l) /\ (forall y, y <> x -> (In y (nremove x l) <-> In y l)).
Proof.
  induction l as [|z l IH]; simpl; intros N.
  - split; [constructor | split; [tauto | tauto]].
  - inversion N; subst. destruct (N.eqb x z) eqn:E.
    + apply N.eqb_eq in E. subst. split; auto. split; auto. intros y NE. split; auto. intros [Q|Q]; [congruence | auto].
    + destruct (IH H2) as (A & B & C). assert (x <> z) by (intros ->; rewrite N.eqb_refl in E; discriminate).
      split; [constructor; auto; intros Q; apply H1; destruct (N.eq_dec z x); [congruence | apply C; auto]|].
      split; [intros [Q|Q]; [congruence | auto]|].
      intros y NE. simpl. rewrite (C y NE). tauto.
Qed.

Definition notpend (m : s06c) (u : N) : Prop := exists a, nget (k_tgt m) u = Some a /\ nmem a (k_prep m) = true.

Lemma pend_nil m : (forall u, In u (k_calls m) -> notpend m u) -> pending_calls m = [].
Proof.
  unfold pending_calls. intros H. induction (k_calls m) as [|u l IH]; simpl; auto.
  destruct (H u (or_introl eq_refl)) as (a & T & P). rewrite T, P. simpl. apply IH. intros v V. apply H. right; auto.
Qed.

Lemma pend_subset m : (forall u, In u (k_calls m) -> notpend m u \/ In u (k_since m)) -> subset (pending_calls m) (k_since m) = true.
Proof.
  unfold subset, pending_calls. intros H. apply forallb_forall. intros u IN. apply filter_In in IN as [IN F].
  destruct (H u IN) as [(a & T & P)|S]; [|apply nmem_In; auto]. rewrite T, P in F. discriminate.
Qed.

(* ------------------------------------------------------------------ *)
(** * The data invariant *)

Record J6 (m : s06c) (k : list mop) (s : st) : Prop := mkJ6 {
  j_calls : Permutation (k_calls m) (calls_in k s);
  j_nodup : NoDup (k_prep m);
  j_prep_ex : forall a, In a (k_prep m) -> exists x, aget (actors s) a = Some x;
  j_prep : forall a x h, aget (actors s) a = Some x -> a_state x = SPrep h -> In a (k_prep m);
  j_since : k_lazyon m = true -> forall u, In u (qcu (mainq s)) -> In u (k_since m) }.

Lemma held_notpend m k s u : WF k s -> KI k s -> mon6 (tr s) = Some m -> J6 m k s -> In u (hcu (actors s)) -> notpend m u.
Proof.
  intros [_ WQ] [KS_ _] MM JJ H.
  destruct (hcu_in _ _ (ks_keys _ KS_) H) as (a & x & c & AX & C & S & U).
  assert (SP : exists h, a_state x = SPrep h /\ In c h).
  { unfold held_of in C. destruct (a_state x); try contradiction. eauto. }
  destruct SP as (h & SP & CH).
  pose proof (ks_act _ KS_ _ _ AX) as (_ & _ & _ & _ & HO). eapply Forall_forall in HO; [|exact C].
  assert (KM : exists b arg, ci_kind c = KMeth a b arg).
  { destruct HO as [(b & arg & K & _)|(key & K & _)]; eauto. unfold scb in S. rewrite K in S. discriminate. }
  destruct KM as (b & arg & KM).
  pose proof (w_actors _ WQ _ _ AX) as [AW _]. rewrite SP in AW. eapply Forall_forall in AW; [|exact CH].
  apply cwf_iff in AW as [[_ LT] _]. rewrite KM in LT.
  exists a. split.
  - rewrite (ktgt_last _ _ MM). rewrite U in LT. rewrite LT. reflexivity.
  - apply nmem_In. eapply j_prep; eauto.
Qed.

Lemma J6_same m m' k s s' : J6 m k s -> same6 m m' -> mainq s' = mainq s -> actors s' = actors s -> J6 m' k s'.
Proof.
  intros [A B C D E] (S1 & S2 & S3 & S4) MQ AC. constructor.
  - rewrite S1. unfold calls_in. rewrite MQ, AC. exact A.
  - rewrite S2. exact B.
  - rewrite S2, AC. exact C.
  - rewrite S2, AC. exact D.
  - rewrite S3, S4, MQ. exact E.
Qed.

Ltac j6same := eapply J6_same; [eassumption | first [eassumption | repeat split] | reflexivity | reflexivity].

Lemma same6_refl m : same6 m m. Proof. repeat split. Qed.
Lemma same6_trans a b c : same6 a b -> same6 b c -> same6 a c.
Proof. intros (A1 & A2 & A3 & A4) (B1 & B2 & B3 & B4). repeat split; congruence. Qed.

Lemma mon6_irrel t e m : mon6 t = Some m -> krel e = false -> exists m', mon6 (e :: t) = Some m' /\ same6 m m'.
Proof. intros M K. unfold mon6 in *. simpl. rewrite M. apply step06c_irrel; auto. Qed.

Lemma keff_J6 s s1 : keff s s1 -> forall m k0, mon6 (tr s) = Some m -> J6 m k0 s ->
  exists m1, mon6 (tr s1) = Some m1 /\ J6 m1 k0 s1 /\ k_lazyon m1 = k_lazyon m.
Proof.
  intros E. induction E; intros m k0 MM JJ.
  - exists m. auto.
  - destruct (IHE m k0 MM JJ) as (m1 & M1 & J1 & L1).
    destruct (mon6_irrel _ e _ M1 H) as (m2 & M2 & S2). exists m2. split; auto. split.
    + eapply J6_same; eauto.
    + destruct S2 as (_ & _ & S3 & _). congruence.
  - destruct (IHE m k0 MM JJ) as (m1 & M1 & J1 & L1). destruct H as (T & MQ & AC & _).
    exists m1. rewrite T. split; auto. split; auto. eapply J6_same; eauto. apply same6_refl.
  - (* an actor cell updated in place, same held queue and state kind *)
    destruct (IHE m k0 MM JJ) as (m1 & M1 & J1 & L1). exists m1. split; auto. split; auto.
    destruct H0 as (V1 & V2 & _). destruct J1 as [A B C D F]. constructor; auto.
    + unfold calls_in, upd_actor. simpl. erewrite hcu_aset_same; eauto.
    + intros b IN. unfold upd_actor; simpl. destruct (N.eq_dec a b) as [<-|NE].
      * rewrite aget_aset_eq. eauto.
      * rewrite aget_aset_neq by auto. auto.
    + intros b z h. unfold upd_actor; simpl. destruct (N.eq_dec a b) as [<-|NE].
      * rewrite aget_aset_eq. intros Q; inversion Q; subst. intros SP. rewrite SP in V2. simpl in V2.
        destruct (a_state y) eqn:SY; simpl in V2; try discriminate. eapply D; eauto.
      * rewrite aget_aset_neq by auto. apply D.
  - (* a new actor *)
    destruct (IHE m k0 MM JJ) as (m1 & M1 & J1 & L1).
    set (x0 := mkActor (SPrep []) (oz (count_inc (oz count_new))) MINRC_INIT (Some nt) (oz (log_id_next (logseq s1))) false).
    assert (NI : ~ In a (k_prep m1)).
    { intros IN. destruct (j_prep_ex _ _ _ J1 _ IN) as (x & AX). congruence. }
    set (m2 := mk06c (k_calls m1) (k_tgt m1) (a :: k_prep m1) (k_lazyon m1) (k_since m1)).
    assert (J2 : forall s2, mainq s2 = mainq s1 -> actors s2 = aset (actors s1) a x0 -> J6 m2 k0 s2).
    { intros s2 MQ AC. destruct J1 as [A B C D F]. constructor; simpl.
      - unfold calls_in. rewrite MQ, AC, hcu_aset_none by auto. simpl. rewrite app_nil_r. exact A.
      - constructor; auto.
      - intros b [<-|IN]; rewrite AC.
        + rewrite aget_aset_eq. eauto.
        + destruct (N.eq_dec a b) as [<-|NE]; [rewrite aget_aset_eq; eauto | rewrite aget_aset_neq by auto; auto].
      - intros b z h. rewrite AC. destruct (N.eq_dec a b) as [<-|NE].
        + intros _ _. left; reflexivity.
        + rewrite aget_aset_neq by auto. intros Q SP. right. eapply D; eauto.
      - rewrite MQ. exact F. }
    unfold new_actor, log_rec.
    destruct (allows _ _ && haslogger _); destruct vis; simpl tr.
    all: repeat match goal with
         | |- context [mon6 (?e :: ?t)] =>
             lazymatch e with
             | EActor _ => fail
             | _ => idtac
             end
         end.
    + destruct (mon6_irrel _ (ELog (oz (log_id_next (logseq s1))) LOGLEVEL_OPEN parent 0) _ M1 eq_refl) as (ma & Ma & Sa).
      assert (Mb : mon6 (EActor a :: ELog (oz (log_id_next (logseq s1))) LOGLEVEL_OPEN parent 0 :: tr s1) =
                   Some (mk06c (k_calls ma) (k_tgt ma) (a :: k_prep ma) (k_lazyon ma) (k_since ma))).
      { unfold mon6 in *. simpl. simpl in Ma. rewrite Ma. reflexivity. }
      destruct (mon6_irrel _ (EOwnNew a) _ Mb eq_refl) as (mc & Mc & Sc).
      exists mc. split; [exact Mc|]. split.
      * eapply J6_same with (m := m2) (s := upd_actor s1 a x0); [apply J2; reflexivity | | reflexivity | reflexivity].
        destruct Sa as (A1 & A2 & A3 & A4). destruct Sc as (C1 & C2 & C3 & C4). simpl in *. repeat split; simpl; congruence.
      * destruct Sa as (A1 & A2 & A3 & A4). destruct Sc as (C1 & C2 & C3 & C4). simpl in *. congruence.
    + destruct (mon6_irrel _ (ELog (oz (log_id_next (logseq s1))) LOGLEVEL_OPEN parent 0) _ M1 eq_refl) as (ma & Ma & Sa).
      eexists. split.
      { unfold mon6 in *. simpl. simpl in Ma. rewrite Ma. reflexivity. }
      split.
      * eapply J6_same with (m := m2) (s := upd_actor s1 a x0); [apply J2; reflexivity | | reflexivity | reflexivity].
        destruct Sa as (A1 & A2 & A3 & A4). repeat split; simpl; congruence.
      * destruct Sa as (A1 & A2 & A3 & A4). simpl. congruence.
    + assert (Mb : mon6 (EActor a :: tr s1) = Some m2) by (unfold mon6 in *; simpl; rewrite M1; reflexivity).
      destruct (mon6_irrel _ (EOwnNew a) _ Mb eq_refl) as (mc & Mc & Sc).
      exists mc. split; [exact Mc|]. split.
      * eapply J6_same with (m := m2) (s := upd_actor s1 a x0); [apply J2; reflexivity | exact Sc | reflexivity | reflexivity].
      * destruct Sc as (C1 & C2 & C3 & C4). simpl in *. congruence.
    + exists m2. split; [unfold mon6 in *; simpl; rewrite M1; reflexivity|]. split; [apply J2; reflexivity | exact L1].
  - (* a call submitted *)
    destruct (IHE m k0 MM JJ) as (m1 & M1 & J1 & L1).
    set (u := ci_uid ci).
    exists (mk06c (k_calls m1 ++ [u]) (k_tgt m1) (k_prep m1) (k_lazyon m1) (if k_lazyon m1 then u :: k_since m1 else k_since m1)).
    split; [unfold submit, push_main, mon6 in *; simpl; rewrite M1; destruct ci as [u0 i kd caps q]; unfold ci_call; simpl;
            unfold callk in H; simpl in H; destruct kd; try contradiction; reflexivity|].
    split; [|exact L1].
    destruct J1 as [A B C D F]. constructor; simpl; auto.
    + unfold calls_in, submit, push_main. simpl. rewrite qcu_app. simpl. rewrite cu_setq_call by auto. simpl. fold u.
      apply Permutation_trans with ((kcu k0 ++ qcu (mainq s1) ++ hcu (actors s1)) ++ [u]); [apply Permutation_app_tail; exact A|].
      rewrite <- !app_assoc. apply Permutation_app_head. apply Permutation_app_head. apply Permutation_app_comm.
    + intros LZ v IN. unfold submit, push_main in IN. simpl in IN. rewrite qcu_app in IN. simpl in IN.
      rewrite cu_setq_call in IN by auto. rewrite LZ. apply in_app_or in IN as [IN|[<-|[]]]; [right; apply F; auto | left; reflexivity].
  - (* a plain closure submitted *)
    destruct (IHE m k0 MM JJ) as (m1 & M1 & J1 & L1).
    assert (MX : exists m2, mon6 (ESub q (ci_uid ci) (ci_call ci) :: tr s1) = Some m2 /\ same6 m1 m2).
    { destruct q; try (apply mon6_irrel; auto; rewrite H; reflexivity).
      exists (mk06c (k_calls m1) (k_tgt m1) (k_prep m1) (k_lazyon m1) (k_since m1)).
      split; [unfold mon6 in *; simpl; rewrite M1, H; reflexivity | repeat split]. }
    destruct MX as (m2 & M2 & S2).
    exists m2. split; [unfold submit; destruct q; exact M2|]. split.
    + assert (CP : cu (ci_setq ci q) = []) by (apply cu_plain; rewrite call_setq; auto).
      destruct q; try (eapply J6_same; eauto; reflexivity).
      eapply J6_same with (s := s1) in J1; [|exact S2 | reflexivity | reflexivity].
      destruct J1 as [A B C D F]. constructor; auto.
      * unfold calls_in, submit, push_main. simpl. rewrite qcu_app. simpl. rewrite CP. simpl. rewrite app_nil_r. exact A.
      * intros LZ v IN. unfold submit, push_main in IN. simpl in IN. rewrite qcu_app in IN. simpl in IN. rewrite CP in IN. simpl in IN.
        rewrite app_nil_r in IN. auto.
    + destruct S2 as (_ & _ & S3 & _). congruence.
  - (* an internal item *)
    destruct (IHE m k0 MM JJ) as (m1 & M1 & J1 & L1). exists m1. split; auto. split; auto.
    destruct J1 as [A B C D F]. constructor; auto.
    + unfold calls_in, push_main. simpl. rewrite qcu_app. simpl. rewrite cu_internal by auto. simpl. rewrite app_nil_r. exact A.
    + intros LZ v IN. unfold push_main in IN. simpl in IN. rewrite qcu_app in IN. simpl in IN. rewrite cu_internal in IN by auto.
      simpl in IN. rewrite app_nil_r in IN. auto.
  - (* a plain closure dropped un-run *)
    destruct (IHE m k0 MM JJ) as (m1 & M1 & J1 & L1).
    exists (mk06c (k_calls m1) (k_tgt m1) (k_prep m1) (k_lazyon m1) (k_since m1)).
    split; [unfold mon6 in *; simpl; rewrite M1; reflexivity|]. split; [|exact L1].
    eapply J6_same with (s := s1); [exact J1 | repeat split | reflexivity | reflexivity].
Qed.

(* ------------------------------------------------------------------ *)
(** * Uniqueness of closure instances (from the census of Lin.v) *)

Lemma scb_realk c : scb c = true -> realk (ci_kind c) = true.
Proof. unfold scb, realk. destruct (ci_kind c); auto. Qed.

Lemma cci_self c : realk (ci_kind c) = true -> 1 <= cci (RClo (ci_uid c)) c.
Proof. intros R. rewrite cci_real by auto. rewrite ind_refl. pose proof (cenv_nn (RClo (ci_uid c)) (ci_caps c)). lia. Qed.

Lemma cq_in x l c : In c l -> cci x c <= cq x l.
Proof.
  induction l as [|d l IH]; simpl; [contradiction|]. intros [->|H].
  - pose proof (cq_nn x l). lia.
  - specialize (IH H). pose proof (cci_nn x d). lia.
Qed.

Lemma cmops_in x k m : In m k -> cmop x m <= cmops x k.
Proof.
  induction k as [|d k IH]; simpl; [contradiction|]. intros [->|H].
  - pose proof (cmops_nn x k). lia.
  - specialize (IH H). pose proof (cmop_nn x d). lia.
Qed.

Lemma cacts_in x l a y : In (a, y) l -> cactor x a y <= cacts x l.
Proof.
  induction l as [|d l IH]; simpl; [contradiction|]. intros [->|H].
  - simpl. pose proof (cacts_nn x l). lia.
  - specialize (IH H). pose proof (cactor_nn x (fst d) (snd d)). lia.
Qed.

Lemma kcu_census k u : In u (kcu k) -> 1 <= cmops (RClo u) k.
Proof.
  intros H. unfold kcu in H. apply in_flat_map in H as (m & M & U).
  assert (G : 1 <= cmop (RClo u) m).
  { destruct m; simpl in U; try contradiction; unfold cu in U; destruct (scb c) eqn:S; try contradiction;
      destruct U as [<-|[]]; simpl; pose proof (cci_self c (scb_realk _ S)); try lia.
    pose proof (badif_nn (RClo (ci_uid c)) (realk (ci_kind c))). lia. }
  pose proof (cmops_in (RClo u) k m M). lia.
Qed.

Lemma qcu_census l u : In u (qcu l) -> 1 <= cq (RClo u) l.
Proof.
  intros H. unfold qcu in H. apply in_flat_map in H as (c & C & U). unfold cu in U. destruct (scb c) eqn:S; [|contradiction].
  destruct U as [<-|[]]. pose proof (cci_self c (scb_realk _ S)). pose proof (cq_in (RClo (ci_uid c)) l c C). lia.
Qed.

Lemma hcu_census l u : In u (hcu l) -> 1 <= cacts (RClo u) l.
Proof.
  intros H. unfold hcu in H. apply in_flat_map in H as ([a x] & IN & H). simpl in H.
  pose proof (cacts_in (RClo u) l a x IN). pose proof (qcu_census _ _ H) as Q.
  unfold cactor, cstate in H0. unfold held_of in Q. destruct (a_state x); simpl in Q; try lia.
  pose proof (cnotopt_nn (RClo u) (a_notify x)). lia.
Qed.

Lemma calls_in_census k s u : In u (calls_in k s) -> 1 <= cnt (RClo u) k s.
Proof.
  unfold calls_in, cnt, cst. intros H.
  pose proof (cmops_nn (RClo u) k). pose proof (cq_nn (RClo u) (mainq s)). pose proof (cq_nn (RClo u) (lazyq s)).
  pose proof (cq_nn (RClo u) (idleq s)). pose proof (ctim_nn (RClo u) (timers s)). pose proof (cacts_nn (RClo u) (actors s)).
  pose proof (cenv_nn (RClo u) (env s)). pose proof (cfrs_nn (RClo u) (frames s)). pose proof (cnu_nn (RClo u) (nuid s)).
  apply in_app_or in H as [H|H]; [apply kcu_census in H; lia|].
  apply in_app_or in H as [H|H]; [apply qcu_census in H; lia | apply hcu_census in H; lia].
Qed.

(* a call about to be dropped that never went through the main queue is nowhere else *)
Lemma unsub_fresh c k0 s : Lin (MDropInner c :: k0) s -> callk c -> ~ In (ci_uid c) (calls_in k0 s).
Proof.
  intros L CK IN. pose proof (Lin_uid_once _ _ (ci_uid c) L) as ONE. pose proof (calls_in_census _ _ _ IN) as G.
  unfold cnt in *. simpl in ONE.
  assert (R : realk (ci_kind c) = true) by (unfold callk in CK; unfold realk; destruct (ci_kind c); auto; contradiction).
  pose proof (cci_self c R). pose proof (badif_nn (RClo (ci_uid c)) (realk (ci_kind c))). lia.
Qed.

(* ------------------------------------------------------------------ *)
(** * The invariant *)

Definition norun (m : mop) : Prop :=
  match m with MRunItem _ | MToReady _ => False | MEndBody _ f => f = FNone | _ => True end.
Definition nolz (m : mop) : Prop :=
  match m with MRunItem c => ci_call c = false -> ci_sq c <> Some QLazy | _ => True end.

Definition P6 (m : s06c) (k : list mop) (s : st) : Prop :=
  match phase_of k with
  | Some (PLoop _) =>
      Forall nolz (work_of k) \/
      exists front rest, work_of k = front ++ map MRunItem rest /\ Forall (tagged QLazy) rest /\ Forall norun front /\
                         (k_lazyon m = false -> front = [] /\ mainq s = [])
  | Some (PRunIdle _ _) => work_of k = []
  | Some _ => True
  | None => False
  end.

Definition I6 (k : list mop) (s : st) : Prop :=
  dk s = DGlobal /\ exists m, mon6 (tr s) = Some m /\ J6 m k s /\ P6 m k s.

Lemma J6_k m k k' s : J6 m k s -> kcu k' = kcu k -> J6 m k' s.
Proof. intros [A B C D E] H. constructor; auto. unfold calls_in in *. rewrite H. exact A. Qed.

Lemma quiet_norun l : quiet l -> Forall norun l.
Proof.
  intros Q. apply Forall_forall. intros x Hx. pose proof (quiet_no_runish _ _ Q Hx) as R. destruct x; simpl; auto; discriminate.
Qed.

Lemma quiet_nolz l : quiet l -> Forall nolz l.
Proof.
  intros Q. apply Forall_forall. intros x Hx. pose proof (quiet_no_runish _ _ Q Hx) as R. destruct x; simpl; auto; discriminate.
Qed.

(* a work micro-op other than MRunItem / MToReady / MEndBody replaced by quiet work *)
Lemma P6_quiet mo k0 s pre s' m m' :
  qmop mo = true -> quiet pre -> k_lazyon m' = k_lazyon m -> P6 m (mo :: k0) s -> P6 m' (pre ++ k0) s'.
Proof.
  intros Q QP LZ P. pose proof Q as Q'. apply andb_prop in Q' as [W NR]. apply negb_true_iff in NR.
  destruct QP as [PW PR]. destruct (work_step_phase mo k0 pre W PW) as [X [Y Z]].
  unfold P6 in *. rewrite X. destruct (phase_of (mo :: k0)) as [[]|]; auto; [rewrite Y in P; discriminate P|].
  rewrite Y in P. rewrite Z. destruct P as [P|(front & rest & EQ & TR & NF & LO)].
  - left. inversion P; subst. apply Forall_app. split; auto. apply quiet_nolz. split; auto.
  - right. destruct front as [|f0 front].
    + exfalso. simpl in EQ. destruct rest; simpl in EQ; inversion EQ; subst. simpl in NR. discriminate.
    + simpl in EQ. inversion EQ; subst. exists (pre ++ front), rest. rewrite <- app_assoc. split; [rewrite H1; reflexivity|]. split; auto.
      split. apply Forall_app. split; [apply quiet_norun; split; auto | inversion NF; auto].
      intros LF. rewrite LZ in LF. destruct (LO LF) as [F _]. discriminate.
Qed.

Lemma kcu_cons m k : kcu (m :: k) = mcu m ++ kcu k. Proof. reflexivity. Qed.

(* the generic step: effects of the calculus, the uids of pushed call items are those of the micro-op executed *)
Lemma I6_keff mo k0 s pre s' :
  qmop mo = true -> quiet pre -> keff s s' -> kcu pre = mcu mo -> I6 (mo :: k0) s -> I6 (pre ++ k0) s'.
Proof.
  intros Q QP KE KC (DK & m & MM & JJ & PP).
  destruct (keff_J6 _ _ KE m _ MM JJ) as (m1 & M1 & J1 & L1).
  split. { rewrite (keff_dk _ _ KE). exact DK. }
  exists m1. split; auto. split.
  - eapply J6_k; eauto. rewrite kcu_app, kcu_cons, KC. reflexivity.
  - eapply P6_quiet; eauto.
Qed.

(* ------------------------------------------------------------------ *)
(** * Helpers for the special micro-ops *)

Lemma kcu_nonwork k p : phase_of k = Some p -> kcu k = kcu (work_of k).
Proof.
  unfold phase_of. induction k as [|m k IH]; simpl; auto. destruct (is_work m) eqn:W.
  - intros H. simpl. rewrite IH; auto.
  - intros H. assert (T : forall r, tops r = true -> kcu r = []).
    { induction r as [|x r IHr]; simpl; auto. intros Q. apply andb_prop in Q as [Q1 Q2]. rewrite IHr; auto.
      destruct x; try discriminate Q1; reflexivity. }
    destruct m; try discriminate W; simpl in *.
    all: repeat match goal with
         | H : match ?x with _ => _ end = Some _ |- _ => destruct x eqn:?; try discriminate H
         | H : (if ?x then _ else _) = Some _ |- _ => destruct x eqn:?; try discriminate H
         end.
    all: try (rewrite T; auto; fail).
    all: try (match goal with Q : (_ && tops _)%bool = true |- _ => apply andb_prop in Q as [_ Q] end; simpl; rewrite T; auto).
Qed.

Lemma hcu_aset_q l a x y : aget l a = Some y -> qcu (held_of x) = qcu (held_of y) -> hcu (aset l a x) = hcu l.
Proof.
  induction l as [|[b z] r IH]; simpl; [discriminate|]. destruct (N.eqb a b) eqn:E.
  - intros Q; inversion Q; subst. intros H. simpl. rewrite H. reflexivity.
  - intros Q H. simpl. rewrite IH; auto.
Qed.

Lemma subok_scb c : subok c -> callk c -> scb c = true.
Proof. unfold subok, callk, scb. destruct (ci_kind c); try contradiction; intros ->; reflexivity. Qed.

Lemma subok_internal_cu c : subok c -> internalk (ci_kind c) -> cu c = [].
Proof. unfold cu, scb, internalk. destruct (ci_kind c); try contradiction; reflexivity. Qed.

Ltac perm_tac :=
  apply (Permutation_count_occ N.eq_dec); intros z_;
  repeat match goal with H : Permutation ?a ?b |- _ =>
           let E := fresh "PE" in pose proof (proj1 (Permutation_count_occ N.eq_dec a b) H z_) as E; clear H end;
  simpl; repeat rewrite count_occ_app in *; simpl in *;
  repeat match goal with |- context [N.eq_dec ?a ?b] => destruct (N.eq_dec a b) end; try lia.

(* a drop of the held queue of one actor into the continuation *)
Lemma held_to_k l a x y held :
  aget l a = Some y -> held_of y = held -> held_of x = [] ->
  forall A B, Permutation (A ++ B ++ hcu l) (qcu held ++ A ++ B ++ hcu (aset l a x)).
Proof.
  intros AY HY HX A B. pose proof (hcu_aset_perm l a x y AY) as P. rewrite HY, HX in P. simpl in P. rewrite app_nil_r in P.
  perm_tac.
Qed.

Lemma dk_same_emit s e : dk (emit s e) = dk s. Proof. reflexivity. Qed.

(* ------------------------------------------------------------------ *)
(** * MRunItem *)

Lemma callk_not_plain c : callk c -> ci_call c = true.
Proof. unfold callk, ci_call. destruct (ci_kind c); auto; contradiction. Qed.

(* the work of a run phase in front of a call about to run: not a lazy batch *)
Lemma P6_call_main m c k0 s : P6 m (MRunItem c :: k0) s -> ci_call c = true ->
  match phase_of (MRunItem c :: k0) with Some (PLoop _) => Forall nolz (work_of k0) | _ => True end.
Proof.
  unfold P6. intros P C. destruct (work_step_phase (MRunItem c) k0 [] eq_refl eq_refl) as [_ [Y _]].
  destruct (phase_of (MRunItem c :: k0)) as [[]|]; auto. rewrite Y in P.
  destruct P as [P|(front & rest & EQ & TR & NF & LO)].
  - inversion P; auto.
  - exfalso. destruct front as [|f0 front]; simpl in EQ.
    + destruct rest as [|r0 rest]; simpl in EQ; inversion EQ; subst. inversion TR as [|? ? [T1 _] _]; subst. congruence.
    + inversion EQ; subst. pose proof (Forall_inv NF) as NN. simpl in NN. exact NN.
Qed.

Lemma P6_after_call m m' c k0 s pre s' :
  P6 m (MRunItem c :: k0) s -> ci_call c = true -> forallb is_work pre = true ->
  (forall x, In x pre -> match x with MRunItem _ => False | _ => True end) -> P6 m' (pre ++ k0) s'.
Proof.
  intros P C PW NR. pose proof (P6_call_main _ _ _ _ P C) as G.
  destruct (work_step_phase (MRunItem c) k0 pre eq_refl PW) as [X [Y Z]].
  unfold P6 in *. rewrite X. destruct (phase_of (MRunItem c :: k0)) as [[]|]; auto; [rewrite Y in P; discriminate P|].
  rewrite Z. left. apply Forall_app. split; auto. apply Forall_forall. intros x Hx. specialize (NR x Hx). destruct x; simpl; auto; contradiction.
Qed.

Lemma I6_runitem c k0 s pre s' :
  shape (MRunItem c :: k0) -> Tags (MRunItem c :: k0) s -> WF (MRunItem c :: k0) s -> KI (MRunItem c :: k0) s ->
  run_item c s = (pre, s') -> I6 (MRunItem c :: k0) s -> I6 (pre ++ k0) s'.
Proof.
  intros SH T W KK E (DK & m & MM & JJ & PP).
  assert (HW : handle (MRunItem c) s = (pre, s')) by exact E.
  destruct (handle_work (MRunItem c) _ _ _ eq_refl HW) as [PW _].
  assert (NRI : forall x, In x pre -> match x with MRunItem _ => False | _ => True end) by (intros x Hx; eapply run_item_norun; eauto).
  destruct KK as [KS_ KM]. inversion KM as [|? ? SO KM0]; subst. simpl in SO.
  destruct SH as [p [PH RU]]. destruct (work_step_phase (MRunItem c) k0 pre eq_refl PW) as [X [Y Z]].
  rewrite Y in RU. simpl in RU. specialize (RU eq_refl).
  unfold run_item in E. destruct c as [u i kd caps q]. destruct kd.
  - (* a plain closure starts *)
    inversion E; subst pre s'. clear E.
    set (qq := match q with Some q0 => q0 | None => QMain end).
    assert (KC : kcu ([MActs body; MEndBody u FNone] ++ k0) = kcu (MRunItem (CI u i (KPlain body) caps q) :: k0)) by reflexivity.
    split; [exact DK|].
    assert (CASES : (qq = QIdle) \/ (qq = QLazy) \/ (qq = QMain \/ qq = QTimer)) by (destruct qq; auto).
    destruct CASES as [QI|[QL|QM]].
    + (* the idle item *)
      exists (mk06c (k_calls m) (k_tgt m) (k_prep m) (k_lazyon m) (k_since m)).
      split; [unfold mon6 in *; simpl; rewrite MM; fold qq; rewrite QI; reflexivity|].
      split; [eapply J6_k; [j6same | exact KC]|].
      unfold P6 in *. rewrite X, PH. rewrite PH in PP.
      destruct p; auto; try discriminate RU; [rewrite Y in PP; discriminate PP|].
      (* not in the loop: the idle tag is not a loop tag *)
      exfalso. apply Tags_split in T as [_ WT]. unfold work_tags in WT. rewrite PH in WT. simpl in WT.
      pose proof (Forall_inv WT) as LI. simpl in LI. unfold loop_item in LI. specialize (LI eq_refl). simpl in LI.
      unfold qq in QI. destruct q as [[]|]; try discriminate QI; destruct LI as [L|[L|L]]; discriminate L.
    + (* a lazy closure *)
      assert (QS : q = Some QLazy) by (unfold qq in QL; destruct q as [[]|]; try discriminate QL; reflexivity).
      unfold P6 in PP. rewrite PH in PP. destruct p; try discriminate RU; [rewrite Y in PP; discriminate PP| |].
      * exfalso. apply Tags_split in T as [_ WT]. unfold work_tags in WT. rewrite PH in WT. simpl in WT.
        apply idle_work_runitem in WT as [_ [_ TQ]]. simpl in TQ. congruence.
      * rewrite Y in PP. destruct PP as [PN|(front & rest & EQ & TR & NF & LO)].
        { exfalso. pose proof (Forall_inv PN) as NL. simpl in NL. apply NL; auto. }
        destruct front as [|f0 front]; [|exfalso; simpl in EQ; inversion EQ; subst; pose proof (Forall_inv NF) as NN; simpl in NN; exact NN].
        simpl in EQ. destruct rest as [|r0 rest]; simpl in EQ; inversion EQ; subst. clear EQ.
        assert (KW : kcu (MRunItem (CI u i (KPlain body) caps (Some QLazy)) :: k0) = []).
        { rewrite (kcu_nonwork _ _ PH), Y, H1. simpl. rewrite kcu_runitems. apply (qcu_tagged QLazy). inversion TR; auto. }
        assert (NP : forall v, In v (k_calls m) -> notpend m v \/ (k_lazyon m = true /\ In v (k_since m))).
        { intros v V. eapply Permutation_in in V; [|apply (j_calls _ _ _ JJ)]. unfold calls_in in V. rewrite KW in V. simpl in V.
          apply in_app_or in V as [V|V].
          - destruct (k_lazyon m) eqn:LZ.
            + right. split; auto. eapply j_since; eauto.
            + destruct (LO eq_refl) as [_ MQ]. rewrite MQ in V. contradiction.
          - left. eapply held_notpend; eauto. split; auto. }
        assert (GD : (if k_lazyon m then subset (pending_calls m) (k_since m) else nil_b (pending_calls m)) = true).
        { destruct (k_lazyon m) eqn:LZ.
          - apply pend_subset. intros v V. destruct (NP v V) as [N|[_ S]]; auto.
          - rewrite pend_nil; auto. intros v V. destruct (NP v V) as [N|[C _]]; [auto | discriminate]. }
        eexists. split.
        { unfold mon6 in *. simpl. rewrite MM. unfold step06c. simpl.
          replace (mk06c (k_calls m) (k_tgt m) (k_prep m) (k_lazyon m) (k_since m)) with m by (destruct m; reflexivity).
          unfold guard. rewrite GD. reflexivity. }
        split.
        { destruct JJ as [A B C D F]. constructor; simpl; auto.
          intros _ v V. destruct (k_lazyon m) eqn:LZ; [apply F; auto|]. destruct (LO eq_refl) as [_ MQ]. rewrite MQ in V. contradiction. }
        unfold P6. rewrite X, PH, Z. right. exists [MActs body; MEndBody u FNone], rest. rewrite H1. split; [reflexivity|].
        split; [inversion TR; auto|]. split; [repeat constructor|]. simpl. discriminate.
    + (* a main-queue or timer closure *)
      exists (mk06c (k_calls m) (k_tgt m) (k_prep m) false (k_since m)).
      split; [unfold mon6 in *; simpl; rewrite MM; fold qq; destruct QM as [-> | ->]; reflexivity|].
      split.
      { eapply J6_k; [|exact KC]. destruct JJ as [A B C D F]. constructor; simpl; auto. discriminate. }
      unfold P6 in *. rewrite X, PH. rewrite PH in PP. destruct p; auto; [rewrite Y in PP; discriminate PP|]. rewrite Z. rewrite Y in PP.
      destruct PP as [PN|(front & rest & EQ & TR & NF & LO)].
      * left. constructor; [exact I|]. constructor; [exact I|]. inversion PN; auto.
      * exfalso. destruct front as [|f0 front]; simpl in EQ.
        -- destruct rest as [|r0 rest]; simpl in EQ; inversion EQ; subst. inversion TR as [|? ? [_ TQ] _]; subst. simpl in TQ.
           unfold qq in QM. rewrite TQ in QM. destruct QM; discriminate.
        -- inversion EQ; subst. pose proof (Forall_inv NF) as NN. simpl in NN. exact NN.
  - (* a Ready call *)
    assert (SC : scb (CI u i (KMeth a body arg) caps q) = true) by (apply subok_scb; [exact SO | exact I]).
    assert (MC : mcu (MRunItem (CI u i (KMeth a body arg) caps q)) = [u]) by (simpl; unfold cu; rewrite SC; reflexivity).
    destruct (aget (actors s) a) as [x|] eqn:AX.
    + destruct (a_state x) eqn:SX; inversion E; subst pre s'; clear E.
      * (* held *)
        split; [exact DK|]. exists m. split; [exact MM|]. split.
        -- destruct JJ as [A B C D F]. constructor; auto.
           ++ unfold calls_in in *. simpl. rewrite kcu_cons, MC in A.
              pose proof (hcu_aset_perm (actors s) a (with_state x (SPrep (held ++ [CI u i (KMeth a body arg) caps q]))) x AX) as HP.
              unfold held_of in HP. simpl in HP. rewrite SX in HP. rewrite qcu_app in HP. simpl in HP. unfold cu in HP. rewrite SC in HP. simpl in HP.
              simpl ci_uid in HP. perm_tac.
           ++ intros b IN. unfold upd_actor; simpl. destruct (N.eq_dec a b) as [<-|NE]; [rewrite aget_aset_eq; eauto | rewrite aget_aset_neq by auto; auto].
           ++ intros b z h. unfold upd_actor; simpl. destruct (N.eq_dec a b) as [<-|NE].
              ** rewrite aget_aset_eq. intros _ _. eapply D; eauto.
              ** rewrite aget_aset_neq by auto. apply D.
        -- eapply P6_after_call; eauto; reflexivity.
      * (* the method starts *)
        split; [exact DK|]. exists (mk06c (nremove u (k_calls m)) (k_tgt m) (k_prep m) false (k_since m)).
        split; [unfold mon6 in *; simpl; rewrite MM; reflexivity|]. split.
        -- destruct JJ as [A B C D F]. constructor; simpl; auto; [|discriminate].
           apply perm_nremove. unfold calls_in in *. rewrite kcu_cons, MC in A. simpl in A. exact A.
        -- eapply P6_after_call; eauto; reflexivity.
      * (* discarded: the target is a Zombie *)
        split; [exact DK|]. exists m. split; [exact MM|]. split.
        -- eapply J6_k; eauto; simpl; unfold cu; rewrite ?SC; reflexivity.
        -- eapply P6_after_call; eauto; reflexivity.
    + inversion E; subst pre s'; clear E. split; [exact DK|].
      destruct (mon6_irrel _ (EModel M_UAF a) _ MM eq_refl) as (m2 & M2 & S2).
      exists m2. split; [exact M2|]. split.
      * eapply J6_k; [j6same|]; simpl; unfold cu; rewrite ?SC; reflexivity.
      * eapply P6_after_call; eauto; reflexivity.
  - (* a Prep call *)
    assert (SC : scb (CI u i (KPrep a body ready) caps q) = true) by (apply subok_scb; [exact SO | exact I]).
    assert (MC : mcu (MRunItem (CI u i (KPrep a body ready) caps q)) = [u]) by (simpl; unfold cu; rewrite SC; reflexivity).
    destruct (aget (actors s) a) as [x|] eqn:AX.
    + destruct (ob (count_is_prep (a_strong x))); inversion E; subst pre s'; clear E.
      * split; [exact DK|]. exists (mk06c (nremove u (k_calls m)) (k_tgt m) (k_prep m) false (k_since m)).
        split; [unfold mon6 in *; simpl; rewrite MM; reflexivity|]. split.
        -- destruct JJ as [A B C D F]. constructor; simpl; auto; [|discriminate].
           apply perm_nremove. unfold calls_in in *. rewrite kcu_cons, MC in A. simpl in A. exact A.
        -- eapply P6_after_call; eauto; reflexivity.
      * split; [exact DK|]. exists m. split; [exact MM|]. split.
        -- eapply J6_k; eauto; simpl; unfold cu; rewrite ?SC; reflexivity.
        -- eapply P6_after_call; eauto; reflexivity.
    + inversion E; subst pre s'; clear E. split; [exact DK|].
      destruct (mon6_irrel _ (EModel M_UAF a) _ MM eq_refl) as (m2 & M2 & S2).
      exists m2. split; [exact M2|]. split.
      * eapply J6_k; [j6same|]; simpl; unfold cu; rewrite ?SC; reflexivity.
      * eapply P6_after_call; eauto; reflexivity.
  - (* the internal items *)
    destruct SO as [SQ SU]. simpl in SQ, SU. subst q u.
    assert (MC : mcu (MRunItem (CI 0 i (KSlabRm p0 key) caps None)) = []) by reflexivity.
    destruct (aget (actors s) p0) as [x|] eqn:AX.
    + destruct (a_state x) eqn:SX.
      * inversion E; subst pre s'; clear E. split; [exact DK|]. exists m. split; [exact MM|]. split.
        -- destruct JJ as [A B C D F]. constructor; auto.
           ++ unfold calls_in in *. simpl. rewrite kcu_cons, MC in A. simpl in A.
              erewrite hcu_aset_q; eauto. unfold held_of. simpl. rewrite SX, qcu_app. simpl. rewrite app_nil_r. reflexivity.
           ++ intros b IN. unfold upd_actor; simpl. destruct (N.eq_dec p0 b) as [<-|NE]; [rewrite aget_aset_eq; eauto | rewrite aget_aset_neq by auto; auto].
           ++ intros b z h. unfold upd_actor; simpl. destruct (N.eq_dec p0 b) as [<-|NE].
              ** rewrite aget_aset_eq. intros _ _. eapply D; eauto.
              ** rewrite aget_aset_neq by auto. apply D.
        -- eapply P6_after_call; eauto; reflexivity.
      * destruct (nth_error slab (N.to_nat key)) as [[child|nx]|]; inversion E; subst pre s'; clear E.
        -- split; [exact DK|]. exists m. split; [exact MM|]. split.
           ++ destruct JJ as [A B C D F]. constructor; auto.
              ** unfold calls_in in *. simpl. rewrite kcu_cons, MC in A. simpl in A.
                 erewrite hcu_aset_q; eauto. unfold held_of. simpl. rewrite SX. reflexivity.
              ** intros b IN. unfold upd_actor; simpl. destruct (N.eq_dec p0 b) as [<-|NE]; [rewrite aget_aset_eq; eauto | rewrite aget_aset_neq by auto; auto].
              ** intros b z h. unfold upd_actor; simpl. destruct (N.eq_dec p0 b) as [<-|NE].
                 --- rewrite aget_aset_eq. intros Q; inversion Q; subst. simpl. discriminate.
                 --- rewrite aget_aset_neq by auto. apply D.
           ++ eapply P6_after_call; eauto; reflexivity.
        -- split; [exact DK|]. destruct (mon6_irrel _ (EBad 40) _ MM eq_refl) as (m2 & M2 & S2).
           exists m2. split; [exact M2|]. split.
           ++ eapply J6_k; [j6same | reflexivity].
           ++ eapply P6_after_call; eauto; reflexivity.
        -- split; [exact DK|]. destruct (mon6_irrel _ (EBad 40) _ MM eq_refl) as (m2 & M2 & S2).
           exists m2. split; [exact M2|]. split.
           ++ eapply J6_k; [j6same | reflexivity].
           ++ eapply P6_after_call; eauto; reflexivity.
      * inversion E; subst pre s'; clear E. split; [exact DK|]. exists m. split; [exact MM|]. split.
        -- eapply J6_k; eauto.
        -- eapply P6_after_call; eauto; reflexivity.
    + inversion E; subst pre s'; clear E. split; [exact DK|].
      destruct (mon6_irrel _ (EModel M_UAF p0) _ MM eq_refl) as (m2 & M2 & S2).
      exists m2. split; [exact M2|]. split.
      * eapply J6_k; [j6same | reflexivity].
      * eapply P6_after_call; eauto; reflexivity.
  - inversion E; subst pre s'; clear E. split; [exact DK|]. exists m. split; [exact MM|]. split.
    + eapply J6_k; eauto.
    + eapply P6_after_call; eauto; reflexivity.
  - inversion E; subst pre s'; clear E. split; [exact DK|]. exists m. split; [exact MM|]. split.
    + eapply J6_k; eauto.
    + eapply P6_after_call; eauto; reflexivity.
Qed.

(* ------------------------------------------------------------------ *)
(** * The other work micro-ops *)

Lemma qmop_quiet_pre m s pre s' : qmop m = true -> handle m s = (pre, s') -> quiet pre.
Proof. intros Q H. eapply handle_qmop; eauto. Qed.

Lemma I6_endbody u f k0 s pre s' :
  handle (MEndBody u f) s = (pre, s') -> I6 (MEndBody u f :: k0) s -> I6 (pre ++ k0) s'.
Proof.
  intros E (DK & m & MM & JJ & PP).
  destruct (handle_work (MEndBody u f) _ _ _ eq_refl E) as [PW _].
  destruct (work_step_phase (MEndBody u f) k0 pre eq_refl PW) as [X [Y Z]].
  assert (G : keff s s' /\ kcu pre = [] /\
              (forall x, In x pre -> match x with MRunItem _ => False | _ => True end) /\
              (f = FNone -> Forall norun pre)).
  { simpl in E. destruct (frames s) as [|fr rest]; inversion E; subst.
    - split; [apply ke_emit; [apply ke_emit; [apply ke_refl | reflexivity] | reflexivity]|]. split; [reflexivity|]. split; [intros x []|]. constructor.
    - split; [apply ke_set_frames, ke_emit; [apply ke_refl | reflexivity]|].
      split. { rewrite kcu_app, (kcu_gen _ (gen_drops _)). destruct f; simpl; auto; destruct (f_die fr); try destruct ready; reflexivity. }
      split.
      + intros x Hx. apply in_app_or in Hx as [Hx|Hx].
        * unfold drops in Hx. apply in_map_iff in Hx as (y & <- & _). exact I.
        * destruct f; simpl in Hx; try contradiction; destruct (f_die fr); try destruct ready; simpl in Hx;
            repeat (destruct Hx as [<-|Hx]; [exact I|]); contradiction.
      + intros ->. simpl. rewrite app_nil_r. apply quiet_norun. apply quiet_drops. }
  destruct G as (KE & KC & NR & NF0).
  destruct (keff_J6 _ _ KE m _ MM JJ) as (m1 & M1 & J1 & L1).
  split; [rewrite (keff_dk _ _ KE); exact DK|]. exists m1. split; auto. split.
  - eapply J6_k; eauto. rewrite kcu_app, KC. reflexivity.
  - unfold P6 in *. rewrite X. destruct (phase_of (MEndBody u f :: k0)) as [[]|]; auto; [rewrite Y in PP; discriminate PP|].
    rewrite Y in PP. rewrite Z. destruct PP as [PN|(front & rest & EQ & TR & NF & LO)].
    + left. apply Forall_app. split; [|inversion PN; auto]. apply Forall_forall. intros x Hx. specialize (NR x Hx). destruct x; simpl; auto; contradiction.
    + right. destruct front as [|f0 front]; simpl in EQ.
      * destruct rest; simpl in EQ; inversion EQ.
      * inversion EQ; subst. pose proof (Forall_inv NF) as FN. simpl in FN.
        exists (pre ++ front), rest. rewrite <- app_assoc, H1. split; [reflexivity|]. split; auto.
        split; [apply Forall_app; split; [apply NF0; auto | inversion NF; auto]|].
        intros LF. rewrite L1 in LF. destruct (LO LF) as [Q _]. discriminate Q.
Qed.

Lemma I6_dropinner c k0 s pre s' :
  KI (MDropInner c :: k0) s -> Lin (MDropInner c :: k0) s ->
  handle (MDropInner c) s = (pre, s') -> I6 (MDropInner c :: k0) s -> I6 (pre ++ k0) s'.
Proof.
  intros [_ KM] LN E (DK & m & MM & JJ & PP). pose proof (Forall_inv KM) as CK. simpl in CK. destruct CK as [CK _].
  pose proof (qmop_quiet_pre (MDropInner c) _ _ _ eq_refl E) as QP.
  simpl in E. inversion E; subst pre s'. clear E.
  split; [exact DK|].
  exists (mk06c (nremove (ci_uid c) (k_calls m)) (k_tgt m) (k_prep m) (k_lazyon m) (k_since m)).
  split; [unfold mon6 in *; simpl; rewrite MM; reflexivity|]. split.
  - destruct JJ as [A B C D F]. constructor; simpl; auto.
    unfold calls_in in *. rewrite kcu_app, (kcu_gen _ (gen_drops _)). simpl. rewrite kcu_cons in A. simpl in A. unfold cu in A.
    destruct (scb c) eqn:SC.
    + apply perm_nremove. exact A.
    + simpl in A. rewrite nremove_notin; auto. intros IN. eapply Permutation_in in IN; [|exact A].
      eapply unsub_fresh; eauto.
  - eapply (P6_quiet (MDropInner c)); eauto; reflexivity.
Qed.

Lemma I6_dropitem_call c k0 s pre s' :
  ci_call c = true -> handle (MDropItem c) s = (pre, s') -> I6 (MDropItem c :: k0) s -> I6 (pre ++ k0) s'.
Proof.
  intros CC E II.
  assert (Q : qmop (MDropItem c) = true) by reflexivity.
  eapply I6_keff; eauto.
  - eapply qmop_quiet_pre; eauto.
  - simpl in E. unfold drop_item in E. destruct c as [u i kd caps q]. unfold ci_call in CC. simpl in CC.
    destruct kd; try discriminate CC; inversion E; subst; apply ke_refl.
  - simpl in E. unfold drop_item in E. destruct c as [u i kd caps q]. unfold ci_call in CC. simpl in CC.
    destruct kd; try discriminate CC; inversion E; subst; simpl; rewrite ?app_nil_r; reflexivity.
Qed.

Lemma I6_logclose a c k0 s pre s' :
  handle (MLogClose a c) s = (pre, s') -> I6 (MLogClose a c :: k0) s -> I6 (pre ++ k0) s'.
Proof.
  intros E II. eapply (I6_keff (MLogClose a c)); eauto.
  - eapply (qmop_quiet_pre (MLogClose a c)); eauto.
  - simpl in E. destruct (aget (actors s) a); inversion E; subst; [apply ke_log_rec, ke_refl | apply ke_refl].
  - simpl in E. destruct (aget (actors s) a); inversion E; subst; reflexivity.
Qed.

(* an actor cell becomes a Zombie and its held queue (if any) is handed to the continuation as drops *)
Lemma J6_held_out m k0 s a x x1 pre s1 mo :
  aget (actors s) a = Some x -> held_of x1 = [] -> (forall h, a_state x1 <> SPrep h) ->
  mainq s1 = mainq s -> actors s1 = aset (actors s) a x1 ->
  mcu mo = [] -> Permutation (kcu pre) (qcu (held_of x)) ->
  J6 m (mo :: k0) s -> J6 m (pre ++ k0) s1.
Proof.
  intros AX HX NP MQ AC MC KP [A B C D F]. constructor; auto.
  - unfold calls_in in *. rewrite MQ, AC, kcu_app. rewrite kcu_cons, MC in A. simpl in A.
    pose proof (held_to_k (actors s) a x1 x (held_of x) AX eq_refl HX (kcu k0) (qcu (mainq s))) as HP.
    perm_tac.
  - intros b IN. rewrite AC. destruct (N.eq_dec a b) as [<-|NE]; [rewrite aget_aset_eq; eauto | rewrite aget_aset_neq by auto; auto].
  - intros b z h. rewrite AC. destruct (N.eq_dec a b) as [<-|NE].
    + rewrite aget_aset_eq. intros Q; inversion Q; subst. intros SP. exfalso. eapply NP; eauto.
    + rewrite aget_aset_neq by auto. apply D.
  - rewrite MQ. exact F.
Qed.

Lemma state_drops_kcu a x s l s' : state_drops a (a_state x) s = (l, s') -> s' = s /\ kcu l = qcu (held_of x).
Proof.
  unfold state_drops, held_of. destruct (a_state x); intros E; inversion E; subst; split; auto.
  - apply kcu_dropitems.
  - simpl. rewrite kcu_app. rewrite (kcu_gen _ (gen_drops _)), (kcu_gen _ (gen_slab_drops _)). reflexivity.
Qed.

Lemma I6_dropref a k0 s pre s' :
  handle (MDropRef a) s = (pre, s') -> I6 (MDropRef a :: k0) s -> I6 (pre ++ k0) s'.
Proof.
  intros E II. pose proof (qmop_quiet_pre (MDropRef a) _ _ _ eq_refl E) as QP.
  simpl in E. unfold drop_ref in E. destruct (aget (actors s) a) as [x|] eqn:AX.
  - destruct (a_freed x).
    { inversion E; subst. eapply (I6_keff (MDropRef a)); eauto. apply ke_emit; [apply ke_refl | reflexivity]. }
    destruct (minrc_drop (a_rc x)) as [[v z]|].
    + destruct z.
      * set (x1 := mkActor SZombie (oz (count_set_state (a_strong x) STATE_ZOMBIE)) v None (a_logid x) true) in *.
        set (s1 := emit (upd_actor s a x1) (EModel M_FREE_ACTOR a)) in *.
        destruct (state_drops a (a_state x) s1) as [dl s2] eqn:SD. destruct (state_drops_kcu _ _ _ _ _ SD) as [-> KD].
        inversion E; subst pre s'. clear E.
        destruct II as (DK & m & MM & JJ & PP).
        destruct (mon6_irrel _ (EModel M_FREE_ACTOR a) _ MM eq_refl) as (m2 & M2 & S2).
        split; [exact DK|]. exists m2. split; [exact M2|]. split.
        -- eapply J6_held_out with (mo := MDropRef a) (x1 := x1); eauto; try reflexivity.
           ++ intros h Q. discriminate Q.
           ++ rewrite kcu_app, KD. destruct (a_notify x); simpl; apply Permutation_refl.
           ++ eapply J6_same with (s := s); eauto.
        -- apply (P6_quiet (MDropRef a) k0 s _ _ m m2); auto. destruct S2 as (_ & _ & S3 & _). exact S3.
      * inversion E; subst. eapply (I6_keff (MDropRef a)); eauto.
        eapply ke_upd; [apply ke_refl | exact AX | apply same_view_rc].
    + inversion E; subst. eapply (I6_keff (MDropRef a)); eauto. apply ke_emit; [apply ke_refl | reflexivity].
  - inversion E; subst. eapply (I6_keff (MDropRef a)); eauto. apply ke_emit; [apply ke_refl | reflexivity].
Qed.

Lemma I6_terminate a c k0 s pre s' :
  handle (MTerminate a c) s = (pre, s') -> I6 (MTerminate a c :: k0) s -> I6 (pre ++ k0) s'.
Proof.
  intros E II. pose proof (qmop_quiet_pre (MTerminate a c) _ _ _ eq_refl E) as QP.
  simpl in E. unfold terminate in E. destruct (aget (actors s) a) as [x|] eqn:AX.
  - set (x1 := mkActor SZombie (oz (count_set_state (a_strong x) STATE_ZOMBIE)) (a_rc x) None (a_logid x) (a_freed x)) in *.
    set (s0 := if a_freed x then emit s (EModel M_UAF a) else s) in *.
    destruct (state_drops a (a_state x) (upd_actor s0 a x1)) as [dl s1] eqn:SD. destruct (state_drops_kcu _ _ _ _ _ SD) as [-> KD].
    destruct II as (DK & m & MM & JJ & PP).
    assert (M0 : exists m0, mon6 (tr s0) = Some m0 /\ same6 m m0).
    { unfold s0. destruct (a_freed x); [apply mon6_irrel; auto | exists m; split; [auto | apply same6_refl]]. }
    destruct M0 as (m0 & M0 & S0).
    assert (J0 : J6 m0 (MTerminate a c :: k0) s0).
    { eapply J6_same; eauto; unfold s0; destruct (a_freed x); reflexivity. }
    assert (A0 : aget (actors s0) a = Some x) by (unfold s0; destruct (a_freed x); exact AX).
    assert (DK0 : dk s0 = DGlobal) by (unfold s0; destruct (a_freed x); exact DK).
    assert (PRE : kcu pre = qcu (held_of x)).
    { destruct (a_notify x); inversion E; subst; rewrite ?kcu_app, KD; simpl; rewrite ?app_nil_r; reflexivity. }
    assert (ST : s' = upd_actor s0 a x1) by (destruct (a_notify x); inversion E; reflexivity).
    subst s'. split; [exact DK0|]. exists m0. split; [exact M0|]. split.
    + eapply J6_held_out with (mo := MTerminate a c) (x1 := x1); eauto; try reflexivity.
      * intros h Q. discriminate Q.
      * rewrite PRE. apply Permutation_refl.
    + apply (P6_quiet (MTerminate a c) k0 s _ _ m m0); auto. destruct S0 as (_ & _ & S3 & _). exact S3.
  - inversion E; subst. eapply (I6_keff (MTerminate a c)); eauto. apply ke_emit; [apply ke_refl | reflexivity].
Qed.

(* an actor leaves the observed Prep set *)
Lemma J6_unprep m k s a e :
  J6 m k s -> (forall x h, aget (actors s) a = Some x -> a_state x <> SPrep h) ->
  J6 (mk06c (k_calls m) (k_tgt m) (nremove a (k_prep m)) (k_lazyon m) (k_since m)) k (emit s e).
Proof.
  intros [A B C D F] NP. destruct (nodup_nremove a _ B) as (N1 & N2 & N3). constructor; simpl; auto.
  - intros b IN. apply C. destruct (N.eq_dec b a) as [->|NE]; [contradiction | apply N3; auto].
  - intros b z h AZ SP. assert (b <> a) by (intros ->; eapply NP; eauto). apply N3; auto. eapply D; eauto.
Qed.

Lemma cu_unsub ci : ci_sq ci = None -> cu ci = [].
Proof. unfold cu, scb. intros ->. destruct (ci_kind ci); reflexivity. Qed.

Lemma as_call_iwf s e a ci arg : is_tgt e = false -> cwf s ci -> tgt_is ci a -> iwf (emit s e) (as_call a ci arg).
Proof.
  intros T C TG. pose proof (cwf_as_call _ _ _ arg C TG) as CA.
  assert (CE : cwf (emit s e) (as_call a ci arg)) by (eapply nsf_mono; [apply sle_emit; exact T | exact CA]).
  apply cwf_iff in CE. apply CE.
Qed.

Lemma I6_retinvoke r m0 k0 s pre s' :
  WF (MRetInvoke r m0 :: k0) s -> KI (MRetInvoke r m0 :: k0) s ->
  handle (MRetInvoke r m0) s = (pre, s') -> I6 (MRetInvoke r m0 :: k0) s -> I6 (pre ++ k0) s'.
Proof.
  intros [WK WQ] [KS_ KM] E II. pose proof (qmop_quiet_pre (MRetInvoke r m0) _ _ _ eq_refl E) as QP.
  inversion WK as [|? ? MW _]; subst. unfold mwf, nsf in MW. simpl in MW.
  pose proof (Forall_inv KM) as ZB. simpl in ZB.
  simpl in E. unfold ret_invoke in E. destruct r as [rid rk]. destruct rk.
  - inversion E; subst. eapply (I6_keff (MRetInvoke _ m0)); eauto. apply ke_push_frame, ke_emit; [apply ke_refl | reflexivity].
  - (* ret_to *)
    simpl in MW. pose proof (Forall_inv MW) as [TK TQ]. simpl in TK, TQ.
    inversion E; subst. eapply (I6_keff (MRetInvoke _ m0)); eauto.
    apply ke_submit_call; [apply ke_emit; [apply ke_refl | reflexivity] | destruct ci; exact I | | destruct ci; exact TQ].
    apply (as_call_iwf s); [reflexivity | exact (Forall_inv_tail (Forall_inv_tail MW)) | split; [exact TK | exact TQ]].
  - simpl in MW. pose proof (Forall_inv MW) as [TK TQ]. simpl in TK, TQ.
    destruct m0 as [mm|]; inversion E; subst.
    + eapply (I6_keff (MRetInvoke _ (Some mm))); eauto.
      apply ke_submit_call; [apply ke_emit; [apply ke_refl | reflexivity] | destruct ci; exact I | | destruct ci; exact TQ].
      apply (as_call_iwf s); [reflexivity | exact (Forall_inv_tail (Forall_inv_tail MW)) | split; [exact TK | exact TQ]].
    + eapply (I6_keff (MRetInvoke _ None)); eauto; [apply ke_emit; [apply ke_refl | reflexivity]|].
      simpl. rewrite cu_unsub; auto.
  - (* the notifier *)
    destruct II as (DK & m & MM & JJ & PP).
    set (e := ENotify a (msg_cause m0)).
    set (m1 := mk06c (k_calls m) (k_tgt m) (nremove a (k_prep m)) (k_lazyon m) (k_since m)).
    assert (M1 : mon6 (tr (emit s e)) = Some m1) by (unfold mon6 in *; simpl; rewrite MM; reflexivity).
    assert (ZA : zombie s a) by (apply ZB; reflexivity).
    assert (J1 : J6 m1 (MRetInvoke (Ret rid (RKNotify a inner)) m0 :: k0) (emit s e)).
    { apply J6_unprep; auto. intros x h AX SP. destruct ZA as (y & AY & ZY). congruence. }
    assert (I1 : I6 (MRetInvoke (Ret rid (RKNotify a inner)) m0 :: k0) (emit s e)).
    { split; [exact DK|]. exists m1. split; [exact M1|]. split; [exact J1 | exact PP]. }
    destruct inner as [[p ci]|]; inversion E; subst.
    + simpl in MW. pose proof (Forall_inv MW) as [TK TQ]. simpl in TK, TQ.
      eapply (I6_keff (MRetInvoke _ m0)); [reflexivity | exact QP | | reflexivity | exact I1].
      apply ke_submit_call; [apply ke_refl | destruct ci; exact I | | destruct ci; exact TQ].
      apply (as_call_iwf s); [reflexivity | exact (Forall_inv_tail (Forall_inv_tail MW)) | split; [exact TK | exact TQ]].
    + eapply (I6_keff (MRetInvoke _ m0)); [reflexivity | exact QP | apply ke_refl | reflexivity | exact I1].
  - (* the wrapper of a slab child *)
    destruct m0 as [mm|]; inversion E; subst.
    + eapply (I6_keff (MRetInvoke _ (Some mm))); eauto. apply ke_push_internal; [apply ke_ref_clone, ke_refl | exact I].
    + eapply (I6_keff (MRetInvoke _ None)); eauto. apply ke_refl.
Qed.

Lemma I6_toready a k0 s pre s' :
  KI (MToReady a :: k0) s -> handle (MToReady a) s = (pre, s') -> I6 (MToReady a :: k0) s -> I6 (pre ++ k0) s'.
Proof.
  intros [KS_ _] E (DK & m & MM & JJ & PP).
  destruct (handle_work (MToReady a) _ _ _ eq_refl E) as [PW _].
  destruct (work_step_phase (MToReady a) k0 pre eq_refl PW) as [X [Y Z]].
  assert (PQ : forall m', (forall x, In x pre -> match x with MRunItem c => ci_call c = true | _ => False end) -> P6 m' (pre ++ k0) s').
  { intros m' CA. unfold P6 in *. rewrite X. destruct (phase_of (MToReady a :: k0)) as [[]|]; auto; [rewrite Y in PP; discriminate PP|].
    rewrite Y in PP. rewrite Z. destruct PP as [PN|(front & rest & EQ & TR & NF & LO)].
    - left. apply Forall_app. split; [|inversion PN; auto]. apply Forall_forall. intros x Hx. specialize (CA x Hx).
      destruct x; try contradiction. simpl. intros Q. congruence.
    - exfalso. destruct front as [|f0 front]; simpl in EQ.
      + destruct rest; simpl in EQ; inversion EQ.
      + inversion EQ; subst. pose proof (Forall_inv NF) as FN. simpl in FN. exact FN. }
  simpl in E. destruct (aget (actors s) a) as [x|] eqn:AX.
  - destruct (a_state x) eqn:SX; inversion E; subst pre s'; clear E.
    + set (x1 := mkActor (SReady [] [] 0%N) (oz (count_set_state (a_strong x) STATE_READY)) (a_rc x) (a_notify x) (a_logid x) (a_freed x)) in *.
      assert (J1 : J6 m (map MRunItem held ++ k0) (upd_actor s a x1)).
      { eapply J6_held_out with (mo := MToReady a) (x1 := x1); eauto; try reflexivity.
        - intros h Q. discriminate Q.
        - rewrite kcu_runitems. unfold held_of. rewrite SX. apply Permutation_refl. }
      split; [exact DK|].
      exists (mk06c (k_calls m) (k_tgt m) (nremove a (k_prep m)) (k_lazyon m) (k_since m)).
      split; [unfold mon6 in *; simpl; rewrite MM; reflexivity|]. split.
      * apply J6_unprep; auto. intros y h AY SP. unfold upd_actor in AY; simpl in AY. rewrite aget_aset_eq in AY. inversion AY; subst. discriminate SP.
      * apply PQ. intros y Hy. apply in_map_iff in Hy as (c & <- & Hc).
        pose proof (ks_act _ KS_ _ _ AX) as (_ & _ & _ & _ & HO). unfold held_of in HO. rewrite SX in HO.
        eapply Forall_forall in HO; [|exact Hc]. unfold ci_call. destruct HO as [(b & arg & K & _)|(key & K & _)]; rewrite K; reflexivity.
    + split; [exact DK|]. destruct (mon6_irrel _ (EBad 61) _ MM eq_refl) as (m2 & M2 & S2). exists m2. split; [exact M2|].
      split; [eapply J6_k; [j6same | reflexivity] | apply PQ; intros y []].
    + split; [exact DK|]. destruct (mon6_irrel _ (EBad 61) _ MM eq_refl) as (m2 & M2 & S2). exists m2. split; [exact M2|].
      split; [eapply J6_k; [j6same | reflexivity] | apply PQ; intros y []].
  - inversion E; subst pre s'; clear E.
    split; [exact DK|]. destruct (mon6_irrel _ (EModel M_UAF a) _ MM eq_refl) as (m2 & M2 & S2). exists m2. split; [exact M2|].
    split; [eapply J6_k; [j6same | reflexivity] | apply PQ; intros y []].
Qed.

(* ------------------------------------------------------------------ *)
(** * Phase and top-level micro-ops *)

Lemma P6_top m k s : tops k = true -> P6 m k s.
Proof. intros T. unfold P6. rewrite tops_phase; auto. Qed.

Lemma P6_work_top m w r s : forallb is_work w = true -> tops r = true -> P6 m (w ++ r) s.
Proof. intros W T. unfold P6. rewrite phase_of_work, tops_phase; auto. Qed.

Lemma kcu_tops k : tops k = true -> kcu k = [].
Proof.
  induction k as [|x r IH]; simpl; auto. intros Q. apply andb_prop in Q as [Q1 Q2]. rewrite IH; auto.
  destruct x; try discriminate Q1; reflexivity.
Qed.

Lemma nolz_main l : Forall main_ok l -> Forall nolz (map MRunItem l).
Proof.
  intros F. induction F; simpl; constructor; auto. simpl. intros C. rewrite (H C). discriminate.
Qed.

Lemma nolz_timers l : Forall (tagged QTimer) l -> Forall nolz (map MRunItem l).
Proof. intros F. induction F; simpl; constructor; auto. simpl. intros C. destruct H as [_ Q]. rewrite Q. discriminate. Qed.

Lemma J6_main_to_k m mo k0 s s' l (f : citem -> mop) :
  (forall c, mcu (f c) = cu c) -> mcu mo = [] -> mainq s' = [] -> actors s' = actors s ->
  Permutation (qcu l) (qcu (mainq s)) -> J6 m (mo :: k0) s -> J6 m (map f l ++ k0) s'.
Proof.
  intros FC MC MQ AC PL [A B C D F]. constructor; auto.
  - unfold calls_in in *. rewrite MQ, AC. rewrite kcu_cons, MC in A. simpl in A. rewrite kcu_app.
    assert (KM : kcu (map f l) = qcu l) by (clear - FC; induction l; simpl; auto; rewrite FC, IHl; reflexivity).
    rewrite KM. simpl. perm_tac.
  - rewrite AC. exact C.
  - rewrite AC. exact D.
  - rewrite MQ. intros _ u [].
Qed.

Lemma fold_emit_opt_dk (f : N * actor -> option ev) l : forall s0, dk (fold_left (fun x p => emit_opt x (f p)) l s0) = dk s0.
Proof. induction l as [|p l IH]; intros s0; simpl; auto. rewrite IH. unfold emit_opt. destruct (f p); reflexivity. Qed.

Lemma class_flags_dk s : dk (class_flags s) = dk s.
Proof. unfold class_flags. apply fold_emit_opt_dk. Qed.

Lemma I6_phase mo k0 s pre s' :
  shape (mo :: k0) -> Tags (mo :: k0) s -> WF (mo :: k0) s -> KI (mo :: k0) s ->
  is_work mo = false -> handle mo s = (pre, s') -> I6 (mo :: k0) s -> I6 (pre ++ k0) s'.
Proof.
  intros SH T WW KK W E (DK & m & MM & JJ & PP).
  apply Tags_split in T as [Q _]. pose proof Q as [QA QB QC QD QH].
  destruct SH as [p [PH _]].
  unfold phase_of in PH. simpl in PH. rewrite W in PH.
  assert (MC : mcu mo = []) by (destruct mo; try discriminate W; reflexivity).
  assert (SAME : forall m2 s2 pre2, same6 m m2 -> mainq s2 = mainq s -> actors s2 = actors s -> kcu pre2 = [] ->
                 J6 m2 (pre2 ++ k0) s2).
  { intros m2 s2 pre2 S2 MQ AC KP. eapply J6_k; [eapply J6_same; eauto|]. rewrite kcu_app, KP, kcu_cons, MC. reflexivity. }
  destruct mo; try discriminate W; simpl in E.
  - (* MTop *)
    simpl in PH. destruct (tops k0) eqn:TP; [|discriminate].
    unfold do_top in E. destruct o.
    + destruct (alive s); inversion E; subst pre s'; (split; [exact DK|]); exists m; (split; [exact MM|]);
        (split; [apply SAME; auto; apply same6_refl | apply P6_top; simpl; auto]).
    + destruct (alive s); [|unfold bad in E]; inversion E; subst pre s'.
      * split; [exact DK|]. exists (mk06c (k_calls m) (k_tgt m) (k_prep m) false []).
        split; [unfold mon6 in *; simpl; rewrite MM; reflexivity|]. split.
        -- eapply J6_k with (k := MTop (TRun t idle) :: k0); [|reflexivity]. destruct JJ as [A B C D F]. constructor; simpl; auto. discriminate.
        -- unfold P6. unfold phase_of. simpl. rewrite Z.eqb_refl, TP. reflexivity.
      * split; [exact DK|]. destruct (mon6_irrel _ (EBad 50) _ MM eq_refl) as (m2 & M2 & S2). exists m2. split; [exact M2|].
        split; [apply SAME; auto | apply P6_top; auto].
    + inversion E; subst pre s'. split; [exact DK|]. exists m. split; [exact MM|].
      split; [apply SAME; auto; apply same6_refl | apply (P6_work_top m [MActs l; MPopFrame]); auto].
    + destruct (alive s); inversion E; subst pre s'.
      * split; [exact DK|]. exists (mk06c (k_calls m) (k_tgt m) (k_prep m) (k_lazyon m) (k_since m)).
        split; [unfold mon6 in *; simpl; rewrite MM; reflexivity|].
        split; [apply SAME; auto; repeat split|]. unfold P6, phase_of. simpl. rewrite TP. exact I.
      * split; [exact DK|]. exists m. split; [exact MM|]. split; [apply SAME; auto; apply same6_refl | apply P6_top; auto].
    + inversion E; subst pre s'. split; [exact DK|]. exists m. split; [exact MM|].
      split; [apply SAME; auto; apply same6_refl | apply P6_top; simpl; auto].
    + destruct (alive s); [|unfold bad in E]; inversion E; subst pre s'.
      * split; [exact DK|]. destruct (mon6_irrel _ (ESetLogger lvls) _ MM eq_refl) as (m2 & M2 & S2). exists m2. split; [exact M2|].
        split; [apply SAME; auto | apply P6_top; auto].
      * split; [exact DK|]. destruct (mon6_irrel _ (EBad 51) _ MM eq_refl) as (m2 & M2 & S2). exists m2. split; [exact M2|].
        split; [apply SAME; auto | apply P6_top; auto].
    + destruct (alive s); [|unfold bad in E]; inversion E; subst pre s'.
      * split; [destruct (haslogger _); exact DK|].
        destruct (mon6_irrel _ (ESetFilter lvls) _ MM eq_refl) as (m2 & M2 & S2).
        change (haslogger (emit s (ESetFilter lvls))) with (haslogger s). destruct (haslogger s).
        -- destruct (mon6_irrel _ (ELog 0 LOGLEVEL_INFO 0 9) _ M2 eq_refl) as (m3 & M3 & S3). exists m3. split; [exact M3|].
           split; [apply SAME; auto; eapply same6_trans; eauto | apply P6_top; auto].
        -- exists m2. split; [exact M2|]. split; [apply SAME; auto | apply P6_top; auto].
      * split; [exact DK|]. destruct (mon6_irrel _ (EBad 52) _ MM eq_refl) as (m2 & M2 & S2). exists m2. split; [exact M2|].
        split; [apply SAME; auto | apply P6_top; auto].
  - (* MNew *)
    simpl in PH. destruct (tops k0) eqn:TP; [|discriminate].
    inversion E; subst pre s'. rewrite DK. split; [exact DK|].
    exists (mk06c (k_calls m) (k_tgt m) (k_prep m) (k_lazyon m) (k_since m)).
    split; [unfold mon6 in *; simpl; rewrite MM; reflexivity|]. split.
    + eapply J6_main_to_k with (mo := MNew t) (f := MDropItem) (s := s); try reflexivity.
      eapply J6_same with (s := s); [exact JJ | repeat split | reflexivity | reflexivity].
    + apply P6_work_top; auto. apply work_map_dropitem.
  - (* MRunIdle *)
    destruct k0 as [|m1 k1]; [discriminate|]. destruct m1; try discriminate PH.
    destruct k1 as [|m2 k2]; [discriminate|]. destruct m2; try discriminate PH.
    destruct ((t =? t0) && tops k2) eqn:TP; [|discriminate].
    assert (P6' : forall mm w ss, forallb is_work w = true -> P6 mm (w ++ MRunMain t :: MLoop t0 :: k2) ss).
    { intros mm w ss Hw. unfold P6. rewrite phase_of_work; auto. unfold phase_of. simpl. rewrite TP. exact I. }
    destruct idle; [destruct (idleq s) as [|c r] eqn:IQ|]; inversion E; subst pre s'.
    + split; [exact DK|]. exists m. split; [exact MM|]. split; [apply SAME; auto; apply same6_refl | apply (P6' m []); reflexivity].
    + split; [exact DK|]. exists m. split; [exact MM|]. split; [|apply (P6' m [MRunItem c]); reflexivity].
      apply SAME; auto; try apply same6_refl. simpl. rewrite app_nil_r. apply cu_plain.
      pose proof (qt_idle _ Q) as QC'. rewrite IQ in QC'. inversion QC' as [|? ? [C _] _]; subst. exact C.
    + split; [exact DK|]. exists m. split; [exact MM|]. split; [apply SAME; auto; apply same6_refl | apply (P6' m []); reflexivity].
  - (* MRunMain *)
    destruct k0 as [|m1 k1]; [discriminate|]. destruct m1; try discriminate PH.
    destruct ((t =? t0) && tops k1) eqn:TP; [|discriminate]. apply andb_prop in TP as [_ TP].
    assert (PL : forall mm l ss, Forall nolz (map MRunItem l) -> P6 mm (map MRunItem l ++ MLoop t0 :: k1) ss).
    { intros mm l ss F. unfold P6. rewrite phase_of_work by apply work_map_runitem. unfold phase_of. simpl. rewrite TP.
      left. rewrite work_of_app by apply work_map_runitem. simpl. rewrite app_nil_r. exact F. }
    destruct (t >? now s) eqn:GT; inversion E; subst pre s'; clear E.
    + set (fl := map ti_ci (ti_sort (filter (ti_due t) (timers s)))).
      assert (FT : Forall (tagged QTimer) fl).
      { unfold fl. apply Forall_forall. intros c Hc. apply in_map_iff in Hc as (y & <- & Hy). apply ti_sort_in in Hy.
        apply filter_In in Hy as [Hy _]. eapply Forall_forall in QD; [exact QD|]. apply in_map. exact Hy. }
      split; [destruct (ambiguous _); exact DK|].
      assert (MX : exists m2, mon6 (tr (if ambiguous (filter (ti_due t) (timers s)) then emit (set_now (set_mainq s []) t) (EModel M_AMBIG 0) else set_now (set_mainq s []) t)) = Some m2 /\ same6 m m2).
      { destruct (ambiguous _); [apply (mon6_irrel _ (EModel M_AMBIG 0) _ MM eq_refl) | exists m; split; [exact MM | apply same6_refl]]. }
      destruct MX as (m2 & M2 & S2). exists m2. split; [destruct (ambiguous _); exact M2|]. split.
      * eapply J6_main_to_k with (mo := MRunMain t) (f := MRunItem) (s := s); eauto; try reflexivity.
        -- destruct (ambiguous _); reflexivity.
        -- destruct (ambiguous _); reflexivity.
        -- rewrite qcu_app, (qcu_tagged QTimer fl FT), app_nil_r. apply Permutation_refl.
        -- eapply J6_same with (s := s); eauto.
      * apply PL. rewrite map_app. apply Forall_app. split; [apply nolz_main; auto | apply nolz_timers; auto].
    + split; [exact DK|]. exists m. split; [exact MM|]. split.
      * eapply J6_main_to_k with (mo := MRunMain t) (f := MRunItem) (s := s); eauto; try reflexivity.
      * apply PL. apply nolz_main; auto.
  - (* MLoop *)
    destruct (tops k0) eqn:TP; [|discriminate].
    destruct (mainq s) as [|c l] eqn:MQ.
    + destruct (lazyq s) as [|c l] eqn:LQ; inversion E; subst pre s'.
      * (* run returns *)
        assert (NP : forall u, In u (k_calls m) -> notpend m u).
        { intros u U. eapply Permutation_in in U; [|apply (j_calls _ _ _ JJ)]. unfold calls_in in U. rewrite MQ in U. simpl in U.
          rewrite (kcu_tops _ TP) in U. simpl in U. eapply held_notpend; eauto. }
        split; [destruct (t >? recreate s); exact DK|].
        exists (mk06c (k_calls m) (k_tgt m) (k_prep m) false []).
        split.
        { assert (TRS : forall v, tr (if t >? recreate s then set_recreate s v else s) = tr s) by (intros v; destruct (t >? recreate s); reflexivity).
          unfold mon6 in *. simpl tr. simpl monr. rewrite TRS, MM. unfold step06c. simpl.
          replace (mk06c (k_calls m) (k_tgt m) (k_prep m) (k_lazyon m) (k_since m)) with m by (destruct m; reflexivity).
          rewrite (pend_nil _ NP). reflexivity. }
        split.
        { eapply J6_k with (k := MLoop t :: k0); [|reflexivity]. destruct JJ as [A B C D F]. constructor; simpl; auto.
          - unfold calls_in in *. destruct (t >? recreate s); exact A.
          - destruct (t >? recreate s); exact C.
          - destruct (t >? recreate s); exact D.
          - discriminate. }
        apply P6_top; auto.
      * (* a lazy batch *)
        split; [exact DK|]. exists m. split; [exact MM|]. split.
        { change (MRunItem c :: map MRunItem l ++ [MLoop t]) with (map MRunItem (c :: l) ++ [MLoop t]).
          eapply J6_k with (k := MLoop t :: k0).
          - destruct JJ as [A B C D F]. constructor; auto.
          - rewrite <- app_assoc, kcu_app, kcu_runitems. rewrite (qcu_tagged QLazy); [reflexivity|]. exact QB. }
        unfold P6. replace ((MRunItem c :: map MRunItem l ++ [MLoop t]) ++ k0) with (map MRunItem (c :: l) ++ MLoop t :: k0) by (simpl; rewrite <- app_assoc; reflexivity).
        rewrite phase_of_work by apply work_map_runitem. unfold phase_of. simpl. rewrite TP.
        right. exists [], (c :: l). rewrite work_of_app by apply work_map_runitem. simpl. rewrite app_nil_r.
        split; [reflexivity|]. split; [exact QB|]. split; [constructor|]. intros _. split; [reflexivity | exact MQ].
    + (* a main batch *)
      inversion E; subst pre s'. split; [exact DK|]. exists m. split; [exact MM|]. split.
      * replace ((MRunItem c :: map MRunItem l ++ [MLoop t]) ++ k0) with (map MRunItem (c :: l) ++ MLoop t :: k0) by (simpl; rewrite <- app_assoc; reflexivity).
        assert (J1 : J6 m (map MRunItem (c :: l) ++ k0) (set_mainq s [])).
        { eapply J6_main_to_k with (mo := MLoop t) (f := MRunItem) (s := s); eauto; try reflexivity. rewrite MQ. apply Permutation_refl. }
        eapply J6_k; [exact J1|]. rewrite !kcu_app. simpl. reflexivity.
      * unfold P6. replace ((MRunItem c :: map MRunItem l ++ [MLoop t]) ++ k0) with (map MRunItem (c :: l) ++ MLoop t :: k0) by (simpl; rewrite <- app_assoc; reflexivity).
        rewrite phase_of_work by apply work_map_runitem. unfold phase_of. simpl. rewrite TP.
        left. rewrite work_of_app by apply work_map_runitem. simpl. rewrite app_nil_r. apply (nolz_main (c :: l)); exact QA.
  - (* MDrain *)
    destruct (tops k0) eqn:TP; [|discriminate].
    assert (PF : forall mm ss, P6 mm (MDropFields :: k0) ss) by (intros; unfold P6, phase_of; simpl; rewrite TP; exact I).
    destruct (i >=? TEARDOWN_ROUNDS).
    + inversion E; subst pre s'. destruct (is_nil (mainq s)).
      * split; [exact DK|]. exists m. split; [exact MM|]. split; [apply (SAME m s [MDropFields]); auto; apply same6_refl | apply PF].
      * split; [exact DK|]. match goal with |- context [emit s ?e] => destruct (mon6_irrel _ e _ MM eq_refl) as (m2 & M2 & S2) end.
        exists m2. split; [exact M2|]. split; [apply (SAME m2 _ [MDropFields]); auto | apply PF].
    + destruct (mainq s) as [|c l] eqn:MQ; inversion E; subst pre s'.
      * split; [exact DK|]. exists m. split; [exact MM|]. split; [apply (SAME m s [MDropFields]); auto; apply same6_refl | apply PF].
      * split; [exact DK|]. exists m. split; [exact MM|]. split.
        -- replace ((MDropItem c :: map MDropItem l ++ [MDrain (i + 1)]) ++ k0) with (map MDropItem (c :: l) ++ MDrain (i + 1) :: k0) by (simpl; rewrite <- app_assoc; reflexivity).
           assert (J1 : J6 m (map MDropItem (c :: l) ++ k0) (set_mainq s [])).
           { eapply J6_main_to_k with (mo := MDrain i) (f := MDropItem) (s := s); eauto; try reflexivity. rewrite MQ. apply Permutation_refl. }
           eapply J6_k; [exact J1|]. rewrite !kcu_app. simpl. reflexivity.
        -- unfold P6. replace ((MDropItem c :: map MDropItem l ++ [MDrain (i + 1)]) ++ k0) with (map MDropItem (c :: l) ++ MDrain (i + 1) :: k0) by (simpl; rewrite <- app_assoc; reflexivity).
           rewrite phase_of_work by apply work_map_dropitem. unfold phase_of. simpl. rewrite TP. exact I.
  - (* MDropFields *)
    destruct (tops k0) eqn:TP; [|discriminate]. inversion E; subst pre s'. clear E.
    split; [destruct (ambiguous _); exact DK|].
    assert (MX : exists m2, mon6 (tr (if ambiguous (timers s) then emit s (EModel M_AMBIG 1) else s)) = Some m2 /\ same6 m m2).
    { destruct (ambiguous _); [apply (mon6_irrel _ (EModel M_AMBIG 1) _ MM eq_refl) | exists m; split; [exact MM | apply same6_refl]]. }
    destruct MX as (m2 & M2 & S2).
    assert (TRE : forall s0, tr (set_tvars (set_timers (set_idleq (set_lazyq s0 []) []) []) []) = tr s0) by reflexivity.
    destruct (mon6_irrel _ EDropFields _ M2 eq_refl) as (m3 & M3 & S3).
    exists m3. split; [simpl; exact M3|]. split.
    + set (items := lazyq (if ambiguous (timers s) then emit s (EModel M_AMBIG 1) else s) ++ idleq (if ambiguous (timers s) then emit s (EModel M_AMBIG 1) else s) ++
                    map ti_ci (ti_sort (timers (if ambiguous (timers s) then emit s (EModel M_AMBIG 1) else s)))).
      assert (IT : kcu (map MDropItem items) = []).
      { rewrite kcu_dropitems. unfold items. destruct (ambiguous (timers s)); simpl; rewrite !qcu_app.
        all: rewrite (qcu_tagged QLazy _ QB), (qcu_tagged QIdle _ QC); simpl; apply qcu_plain.
        all: apply Forall_forall; intros c Hc; apply in_map_iff in Hc as (y & <- & Hy); apply ti_sort_in in Hy.
        all: eapply Forall_forall in QD; [destruct QD as [C _]; exact C | apply in_map; exact Hy]. }
      apply SAME; [eapply same6_trans; eauto | destruct (ambiguous _); reflexivity | destruct (ambiguous _); reflexivity|].
      rewrite kcu_app, IT. reflexivity.
    + unfold P6. rewrite <- app_assoc. rewrite phase_of_work by apply work_map_dropitem. unfold phase_of. simpl. rewrite TP. exact I.
  - (* MDropEnd *)
    destruct (tops k0) eqn:TP; [|discriminate]. inversion E; subst pre s'. clear E.
    split; [destruct (is_nil _); exact DK|].
    assert (MX : exists m2, mon6 (tr (if is_nil (mainq s) then s else emit s (EModel M_LIMBO 0))) = Some m2 /\ same6 m m2).
    { destruct (is_nil _); [exists m; split; [exact MM | apply same6_refl] | apply (mon6_irrel _ (EModel M_LIMBO 0) _ MM eq_refl)]. }
    destruct MX as (m2 & M2 & S2). destruct (mon6_irrel _ EDropEnd _ M2 eq_refl) as (m3 & M3 & S3).
    exists m3. split; [simpl; exact M3|]. split.
    + apply (SAME m3 _ []); [eapply same6_trans; eauto | destruct (is_nil _); reflexivity | destruct (is_nil _); reflexivity | reflexivity].
    + apply P6_top; auto.
  - (* MDropAll *)
    simpl in PH. destruct (tops k0) eqn:TP; [|discriminate].
    destruct (amin (env s)) as [[h v]|]; inversion E; subst pre s'.
    + split; [exact DK|]. exists m. split; [exact MM|]. split; [apply (SAME m _ [MDropVal v; MDropAll]); auto; apply same6_refl|].
      apply (P6_work_top m [MDropVal v]); simpl; auto.
    + split; [exact DK|]. exists m. split; [exact MM|]. split; [apply (SAME m s []); auto; apply same6_refl | apply P6_top; auto].
  - (* MEpilogue *)
    simpl in PH. destruct (tops k0) eqn:TP; [|discriminate]. inversion E; subst pre s'.
    split; [exact DK|]. destruct (mon6_irrel _ EEpilogue _ MM eq_refl) as (m2 & M2 & S2). exists m2. split; [exact M2|].
    split; [apply SAME; auto | apply P6_top; simpl; auto].
  - (* MLeaks *)
    simpl in PH. destruct (tops k0) eqn:TP; [|discriminate]. inversion E; subst pre s'. clear E.
    assert (CF : exists mc, mon6 (tr (class_flags s)) = Some mc /\ same6 m mc).
    { destruct (class_flags_tr s) as (evs & TE & FE & _). rewrite TE. clear TE. induction FE as [|e evs (c & a & -> & _) FE IH]; simpl.
      - exists m. split; [exact MM | apply same6_refl].
      - destruct IH as (mc & Mc & Sc). destruct (mon6_irrel _ (EModel c a) _ Mc eq_refl) as (md & Md & Sd).
        exists md. split; [exact Md | eapply same6_trans; eauto]. }
    destruct CF as (mc & Mc & Sc).
    assert (LF : exists ml, mon6 (rev (leaks (rev (tr (class_flags s)))) ++ tr (class_flags s)) = Some ml /\ same6 mc ml).
    { assert (LK : Forall (fun e => exists k i, e = ELeak k i) (rev (leaks (rev (tr (class_flags s)))))).
      { apply Forall_rev. unfold leaks. apply Forall_forall. intros e H. apply in_map_iff in H as (pp & <- & _). eauto. }
      revert LK. generalize (rev (leaks (rev (tr (class_flags s))))). intros l F.
      induction F as [|e l (kk & ii & ->) F IH]; simpl.
      - exists mc. split; [exact Mc | apply same6_refl].
      - destruct IH as (ml & Ml & Sl).
        destruct (mon6_irrel _ (ELeak kk ii) _ Ml eq_refl) as (mn & Mn & Sn). exists mn. split; [exact Mn | eapply same6_trans; eauto]. }
    destruct LF as (ml & Ml & Sl). destruct (class_flags_fields s) as [AC MQF].
    split; [simpl; rewrite class_flags_dk; exact DK|].
    exists ml. split; [simpl; exact Ml|]. split.
    + apply (SAME ml _ []); [eapply same6_trans; eauto | exact MQF | exact AC | reflexivity].
    + apply P6_top; auto.
Qed.

(* ------------------------------------------------------------------ *)
(** * The theorem *)

Lemma kclass_qmop m : kclass m = true -> qmop m = true /\ mcu m = [].
Proof.
  destruct m; try discriminate; intros H; split; try reflexivity.
  simpl. apply cu_plain. simpl in H. apply negb_true_iff in H. exact H.
Qed.

Theorem step_I6 k s k' s' :
  shape k -> Tags k s -> WF k s -> KI k s -> Lin k s -> I6 k s -> step k s = Some (k', s') -> I6 k' s'.
Proof.
  intros SH T W KK LN II H. destruct k as [|mo k0]; [discriminate|]. simpl in H.
  destruct (handle mo s) as [pre s1] eqn:E. inversion H; subst; clear H.
  destruct (kclass mo) eqn:KC.
  { destruct (kclass_qmop _ KC) as [Q MC]. pose proof T as T'. apply Tags_split in T' as [QT _].
    destruct (kclass_kout _ _ _ _ _ KC W QT E) as [KE G].
    eapply I6_keff; eauto. eapply qmop_quiet_pre; eauto. rewrite MC. apply kcu_gen; auto. }
  destruct (is_work mo) eqn:WK; [|eapply I6_phase; eauto].
  destruct mo; try discriminate WK; try discriminate KC; simpl in E.
  - eapply I6_endbody; eauto.
  - eapply I6_runitem; eauto.
  - eapply I6_dropitem_call; eauto. simpl in KC. apply negb_false_iff in KC. exact KC.
  - eapply I6_dropinner; eauto.
  - eapply I6_dropref; eauto.
  - eapply I6_retinvoke; eauto.
  - eapply I6_terminate; eauto.
  - eapply I6_logclose; eauto.
  - eapply I6_toready; eauto.
Qed.

Lemma I6_init p : I6 (map MTop p ++ [MEpilogue]) (init DGlobal).
Proof.
  assert (TP : tops (map MTop p ++ [MEpilogue]) = true).
  { unfold tops. rewrite forallb_app. simpl. rewrite andb_true_r. induction p; simpl; auto. }
  split; [reflexivity|]. exists i06c. split; [reflexivity|]. split.
  - constructor; simpl.
    + unfold calls_in. rewrite (kcu_tops _ TP). simpl. constructor.
    + constructor.
    + intros a [].
    + intros a x h H. discriminate H.
    + discriminate.
  - apply P6_top; auto.
Qed.

Lemma run_inv6 fuel : forall k s t,
  shape k -> Tags k s -> WF k s -> KI k s -> Lin k s -> I6 k s -> run fuel k s = Done t ->
  exists s', t = rev (tr s') /\ exists m, mon6 (tr s') = Some m.
Proof.
  induction fuel as [|f IH]; intros k s t SH T W KK LN II H; simpl in H.
  - destruct k; [|discriminate]. inversion H; subst. destruct II as (_ & m & MM & _). eauto.
  - destruct (step k s) as [[k' s']|] eqn:ST.
    + pose proof T as T'. apply Tags_split in T' as [QT _].
      eapply IH; [ eapply step_shape; eauto | eapply step_tags; eauto | eapply step_WF; eauto
                 | eapply step_KI; eauto | eapply step_Lin; eauto | eapply step_I6; eauto | exact H ].
    + inversion H; subst. destruct II as (_ & m & MM & _). eauto.
Qed.

(** C06, calls conjunct, for every program and every amount of fuel, with the global (or thread-local) deferrer.
    (With the inline deferrer a call submitted while no Stakker exists, or left in the queue by the field phase
    of Stakker::drop, is never touched again: it would stay "pending" for ever.) *)
Theorem C06_calls_proved : forall (p : list top) (fuel : nat) (t : list ev),
  exec DGlobal fuel p = Done t -> C06_calls_ok t = true.
Proof.
  intros p fuel t H. unfold exec in H.
  destruct (run_inv6 fuel _ _ _ (shape_init p) (tags_init DGlobal p) (WF_init DGlobal p) (KI_init DGlobal p) (Lin_init DGlobal p) (I6_init p) H)
    as (s' & -> & m & MM).
  unfold C06_calls_ok. rewrite fold_mon_rev. unfold mon6 in MM. rewrite MM. reflexivity.
Qed.

(** C06 as a whole (both conjuncts), global / thread-local deferrer. *)
Theorem C06_proved : forall (p : list top) (fuel : nat) (t : list ev),
  exec DGlobal fuel p = Done t -> C06_ok t = true.
Proof.
  intros p fuel t H. unfold C06_ok. rewrite (C06_plain_proved _ _ _ _ H), (C06_calls_proved _ _ _ H). reflexivity.
Qed.

(* not vacuous: a call made while its target is in Prep is held over two runs; a lazy closure starts although that
   call has not run; a call made by a lazy closure runs before run returns *)
Example C06_calls_nontrivial :
  exists t, exec DGlobal 600
    [TNew 0;
     TDo [ANewActor 1 1 None; ACall 1 (Clo 1 0 0 [] []);
          ALazy (Clo 2 0 0 [] [ACall 1 (Clo 3 0 0 [] [])])];
     TRun 2 false;
     TDo [ACallPrep 1 (Clo 4 0 0 [] []) true]; TRun 4 false] = Done t
    /\ In (ERun 2%N 2 QLazy) t /\ In (ERunRet false) t /\ In (EMeth 1%N 1%N 4) t /\ In (EMeth 1%N 3%N 4) t.
Proof. eexists. split; [vm_compute; reflexivity|]. simpl. tauto. Qed.
