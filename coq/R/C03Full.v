(** Layer R proofs: C03 without the refcount hypothesis.

    [okF_proved]: in every terminating run no cell is freed while one of its own methods / init steps runs
    (from the reference census, LinRef*.v on top of Own.v: the references to a cell never exceed its MinRc count
    unless the count is saturated).
    [C03_full]: for every program, fuel and deferrer kind, if the machine terminates with trace [t] and [t] reports
    no leaked closure / actor value / notifier, then the C03 monitor accepts [t]. *)
From Coq Require Import ZArith NArith List Bool Lia.
From Stk Require Import Lib.U R.Syntax R.Rt R.Mon R.LinC05Core R.C05Proofs R.LinC03Mon R.LinC03K R.LinC03F R.C03Proofs R.Own R.LinRef R.LinRefInv.
Import ListNotations.

Theorem okF_proved : forall (d : dkind) (p : list top) (fuel : nat) (t : list ev),
  exec d fuel p = Done t -> okF t = true.
Proof.
  apply (okF_of_inv J).
  - exact J_no_self_free.
  - exact J_init.
  - exact step_J.
Qed.

Theorem C03_cause_full : forall (d : dkind) (p : list top) (fuel : nat) (t : list ev),
  exec d fuel p = Done t -> okK t = true.
Proof. intros d p fuel t H. eapply C03_cause_proved; eauto. eapply okF_proved; eauto. Qed.

Theorem C03_full : forall (d : dkind) (p : list top) (fuel : nat) (t : list ev),
  exec d fuel p = Done t -> no_container_leak t -> C03_ok t = true.
Proof. intros d p fuel t H NL. eapply C03_proved; eauto. eapply okF_proved; eauto. Qed.

Corollary C03_full_checked d p fuel t : exec d fuel p = Done t -> ncl_b t = true -> C03_ok t = true.
Proof. intros H B. eapply C03_full; eauto. apply ncl_of_b. exact B. Qed.

Print Assumptions okF_proved.
Print Assumptions C03_full.

Example C03_full_nontrivial :
  exists t, exec DGlobal 3000 c03_prog = Done t /\ ncl_b t = true /\ C03_ok t = true.
Proof. eexists. split; [vm_compute; reflexivity|]. split; vm_compute; reflexivity. Qed.
