(** Layer R proofs: frames and bodies.  [step_FK]: layerR's frame/pop correspondence [FK] (C20Proofs.v: the frame
    pops of the continuation match the frame contexts; nested frames are Core-less; the bottom one belongs to the
    running item or to a top-level [do]) is preserved by every step on its own. *)
From Coq Require Import ZArith NArith List Bool Lia.
From Stk Require Import Lib.U Gen.SrcCount Gen.SrcCore Gen.SrcLog R.Syntax R.Rt R.Mon R.Shape R.Eff R.Tags R.Mono R.C15Proofs R.C20Proofs.
From Stk Require Import R.LinDel.
Import ListNotations.
Local Open Scope Z_scope.

Lemma eff_ctxs' s s' : eff s s' -> ctxs s' = ctxs s.
Proof. apply eff_ctxs. Qed.

Lemma FK_body b u f c rest : endm f c -> poppers rest = [] -> FK (MActs b :: MEndBody u f :: rest) [c].
Proof. intros EM PR. exists [MActs b; MEndBody u f], rest. repeat split; auto. apply fo_end. exact EM. Qed.

Lemma FK_do l rest : poppers rest = [] -> FK (MActs l :: MPopFrame :: rest) [XStk].
Proof. intros PR. exists [MActs l; MPopFrame], rest. repeat split; auto. apply fo_do. Qed.

Theorem step_FK k s k' s' : FK k (ctxs s) -> step k s = Some (k', s') -> FK k' (ctxs s').
Proof.
  intros F H. destruct k as [|mo k0]; [discriminate|]. simpl in H.
  destruct (handle mo s) as [pre s1] eqn:E. inversion H; subst; clear H.
  destruct (qmop mo) eqn:Q.
  - destruct (handle_qmop _ _ _ _ Q E) as [QP HC].
    destruct HC as [O|c M C P S|fr rest M FR P S].
    + assert (NP : is_popper mo = false).
      { destruct mo; try reflexivity; try discriminate Q. exfalso. cbn [handle] in E.
        destruct (FK_pop _ _ F) as (c & cs' & CS & _). unfold ctxs in CS.
        destruct (frames s) as [|f0 r0] eqn:F0; [discriminate CS|]. inversion E; subst.
        destruct O as [EF PP|s2 loc EF X PP].
        - apply eff_ctxs' in EF. unfold ctxs in EF. simpl in EF. rewrite F0 in EF. simpl in EF.
          apply (f_equal (@length ctx)) in EF. simpl in EF. lia.
        - rewrite poppers_drops in PP. discriminate. }
      destruct O as [EF PP|s2 loc EF X PP].
      * rewrite (eff_ctxs' _ _ EF). apply (FK_eff _ _ _ _ F); [exact NP | apply quiet_calm; auto | exact PP].
      * subst s'. rewrite ctxs_push, (eff_ctxs' _ _ EF). apply (FK_push _ _ _ _ F); [exact NP | apply quiet_calm; auto | exact PP].
    + subst. change (ctxs (emit s (EDrop (ci_uid c) (ci_sq c) false))) with (ctxs s).
      apply (FK_eff _ _ _ _ F); [reflexivity | apply quiet_calm; apply quiet_drops | apply poppers_drops].
    + subst. destruct (FK_pop _ _ F) as (c & cs' & CS & FP). unfold ctxs in *. rewrite FR in CS. simpl in CS. inversion CS; subst.
      simpl. apply FP; [apply quiet_calm; apply quiet_drops | apply poppers_drops].
  - destruct (is_work mo) eqn:W.
    + destruct mo; try discriminate W; try discriminate Q; cbn [handle] in E.
      * (* MEndBody *)
        destruct (FK_end _ _ _ _ F) as (c & CS & EM & PK). unfold ctxs in CS.
        destruct (frames s) as [|fr rest] eqn:FR; [discriminate CS|]. simpl in CS. inversion CS; subst.
        destruct rest; [|discriminate]. inversion E; subst. unfold ctxs. simpl. apply FK_of_flat.
        rewrite !poppers_app, poppers_drops, PK.
        destruct f; try destruct (f_die fr); try destruct ready; reflexivity.
      * (* MRunItem *)
        destruct (FK_flat _ _ _ F eq_refl) as (CS & PK & _).
        revert E. unfold run_item. destruct c as [u i kd caps q]. destruct kd; repeat dest_match; intros E; inversion E; subst.
        all: first
          [ (rewrite ctxs_push; match goal with |- FK _ (_ :: ctxs (emit ?x ?e)) => change (ctxs (emit x e)) with (ctxs x) end; rewrite CS;
             (apply FK_body; [constructor | simpl; exact PK]))
          | (rewrite CS; apply FK_of_flat; simpl; exact PK)
          | (match goal with |- FK _ (ctxs ?x) => change (ctxs x) with (ctxs s) end; rewrite CS; apply FK_of_flat; simpl; exact PK) ].
      * (* MToReady *)
        destruct (FK_flat _ _ _ F eq_refl) as (CS & PK & _).
        destruct (aget (actors s) a) as [x|]; [destruct (a_state x)|]; inversion E; subst;
          match goal with |- FK _ (ctxs ?x) => change (ctxs x) with (ctxs s) end; rewrite CS; apply FK_of_flat;
          rewrite ?poppers_app, ?poppers_map_runitem; simpl; exact PK.
    + assert (NC : calm mo = false) by (unfold calm; rewrite W; reflexivity).
      destruct (FK_flat _ _ _ F NC) as (CS & PK & _).
      assert (FLAT : forall p x, ctxs x = ctxs s -> poppers p = [] -> FK (p ++ k0) (ctxs x)).
      { intros p x CX PP. rewrite CX, CS. apply FK_of_flat. rewrite poppers_app, PP, PK. reflexivity. }
      destruct mo; try discriminate W; cbn [handle] in E.
      * unfold do_top in E. destruct o; repeat (revert E; dest_match; intros E); unfold bad in *; inversion E; subst;
          try (apply FLAT; reflexivity).
        all: rewrite ctxs_push, CS; first [ apply FK_do; exact PK | (exists [MActs l; MPopFrame], k0; repeat split; auto; apply fo_nest; apply fo_nil) ].
      * inversion E; subst. apply FLAT; [reflexivity | apply poppers_map_dropitem].
      * destruct idle; [destruct (idleq s)|]; inversion E; subst; apply FLAT; reflexivity.
      * unfold fire in E. simpl in E. destruct (t >? now s); inversion E; subst; (apply FLAT; [|apply poppers_map_runitem]);
          try destruct (ambiguous _); reflexivity.
      * destruct (mainq s) as [|c l] eqn:MQ; [destruct (lazyq s) as [|c l] eqn:LQ|]; inversion E; subst; apply FLAT;
          try (destruct (t >? recreate s); reflexivity); try reflexivity.
        -- change (MRunItem c :: map MRunItem l ++ [MLoop t]) with (map MRunItem (c :: l) ++ [MLoop t]). rewrite poppers_app, poppers_map_runitem. reflexivity.
        -- change (MRunItem c :: map MRunItem l ++ [MLoop t]) with (map MRunItem (c :: l) ++ [MLoop t]). rewrite poppers_app, poppers_map_runitem. reflexivity.
      * destruct (i >=? TEARDOWN_ROUNDS).
        -- inversion E; subst. apply FLAT; [destruct (is_nil (mainq s)); reflexivity | reflexivity].
        -- destruct (mainq s) as [|c l] eqn:MQ; inversion E; subst; apply FLAT; try reflexivity.
           change (MDropItem c :: map MDropItem l ++ [MDrain (i + 1)]) with (map MDropItem (c :: l) ++ [MDrain (i + 1)]). rewrite poppers_app, poppers_map_dropitem. reflexivity.
      * inversion E; subst. apply FLAT; [destruct (ambiguous _); reflexivity | rewrite poppers_app, poppers_map_dropitem; reflexivity].
      * inversion E; subst. apply FLAT; [destruct (is_nil (mainq s)); reflexivity | reflexivity].
      * destruct (amin (env s)) as [[h v]|]; inversion E; subst; apply FLAT; reflexivity.
      * inversion E; subst. apply FLAT; reflexivity.
      * inversion E; subst. apply FLAT; [|reflexivity]. unfold ctxs. simpl.
        assert (FF : forall (f : N * actor -> option ev) l s0, frames (fold_left (fun s1 p0 => emit_opt s1 (f p0)) l s0) = frames s0).
        { intros f l. induction l; simpl; intros s0; auto. rewrite IHl. unfold emit_opt. destruct (f a); reflexivity. }
        unfold class_flags. rewrite FF. reflexivity.
Qed.

Lemma FK_init d p : FK (map MTop p ++ [MEpilogue]) (ctxs (init d)).
Proof. apply FK_of_flat. rewrite poppers_app. simpl. rewrite app_nil_r. induction p; simpl; auto. Qed.

(* ------------------------------------------------------------------ *)
(** * Delayed micro-ops: a pending termination, cause notification or value drop is reached through quiet
      Core-less micro-ops only *)

Definition dly (m : mop) : bool :=
  match m with
  | MTerminate _ _ | MValDrop _ => true
  | MRetInvoke _ (Some (MCause _)) => true
  | _ => false
  end.

(* a micro-op that may stand in front of a delayed one *)
Definition gd (m : mop) : bool := qmop m && negb (is_popper m) && negb (is_acts m).

(* every element with a delayed micro-op behind it is [gd] *)
Fixpoint chk (l : list mop) : bool :=
  match l with [] => true | y :: r => (negb (existsb dly r) || gd y) && chk r end.

Lemma chk_ok pre : chk pre = true -> forall p1 x p2, pre = p1 ++ x :: p2 -> dly x = true -> forallb gd p1 = true.
Proof.
  revert pre. induction pre as [|y r IH]; simpl; intros H p1 x p2 E D.
  - destruct p1; discriminate.
  - apply andb_prop in H as [H1 H2]. destruct p1 as [|z p1]; simpl in E; inversion E; subst; [reflexivity|].
    simpl. rewrite (IH H2 p1 x p2 eq_refl D), andb_true_r.
    rewrite existsb_app in H1. simpl in H1. rewrite D in H1. rewrite orb_true_r in H1. simpl in H1. exact H1.
Qed.

Lemma dly_app a b : existsb dly (a ++ b) = existsb dly a || existsb dly b.
Proof. apply existsb_app. Qed.
Lemma dly_drops l : existsb dly (drops l) = false.
Proof. unfold drops. induction l; simpl; auto. Qed.
Lemma dly_slab_drops l : existsb dly (slab_drops l) = false.
Proof. induction l as [|[c|n] l IH]; simpl; auto. Qed.
Lemma dly_dropitems l : existsb dly (map MDropItem l) = false.
Proof. induction l; simpl; auto. Qed.
Lemma dly_runitems l : existsb dly (map MRunItem l) = false.
Proof. induction l; simpl; auto. Qed.

Lemma chk_nodly l : existsb dly l = false -> chk l = true.
Proof.
  induction l as [|y r IH]; simpl; auto. intros H. apply orb_false_elim in H as [H1 H2]. rewrite H2, (IH H2). reflexivity.
Qed.

Lemma chk_app_gd a b : forallb gd a = true -> chk (a ++ b) = chk b.
Proof.
  induction a as [|y a IH]; cbn [chk app forallb]; auto. intros H. apply andb_prop in H as [H1 H2]. rewrite (IH H2), H1, orb_true_r. reflexivity.
Qed.

Lemma gd_drops l : forallb gd (drops l) = true.
Proof. unfold drops. induction l; simpl; auto. Qed.
Lemma gd_slab_drops l : forallb gd (slab_drops l) = true.
Proof. induction l as [|[c|n] l IH]; simpl; auto. Qed.
Lemma gd_dropitems l : forallb gd (map MDropItem l) = true.
Proof. induction l; simpl; auto. Qed.

Lemma bind_chk s h v l s' : bind s h v = (l, s') -> existsb dly l = false.
Proof. unfold bind. destruct (aget (env s) h); intros Q; inversion Q; reflexivity. Qed.
Lemma bad_chk s c l s' : bad s c = (l, s') -> existsb dly l = false.
Proof. unfold bad. intros Q; inversion Q; reflexivity. Qed.

(* the pushed value drops: [MValDrop a] first *)
Lemma state_drops_chk a sa s l s' : state_drops a sa s = (l, s') -> forall r, chk (l ++ r) = chk r /\ forallb gd l = true.
Proof.
  unfold state_drops. destruct sa; intros Q; inversion Q; subst; intros r.
  - split; [apply chk_app_gd|]; apply gd_dropitems.
  - assert (G : forallb gd (MValDrop a :: drops sh ++ slab_drops slab) = true).
    { simpl. rewrite forallb_app, gd_drops, gd_slab_drops. reflexivity. }
    split; [apply chk_app_gd; exact G | exact G].
  - split; reflexivity.
Qed.

Ltac chk_tac :=
  first [ reflexivity
        | (apply chk_nodly; first [ reflexivity | (eapply bind_chk; eassumption) | (eapply bad_chk; eassumption)
             | (cbn [map app existsb dly orb]; rewrite ?dly_app, ?dly_drops, ?dly_slab_drops, ?dly_dropitems, ?dly_runitems; reflexivity) ]) ].

Lemma chk_app_nodly a b : existsb dly b = false -> chk (a ++ b) = chk a.
Proof.
  intros H. induction a as [|y a IH]; cbn [chk app]; [apply chk_nodly; exact H|]. rewrite IH, dly_app, H, orb_false_r. reflexivity.
Qed.

Lemma do_act_chk a s pre s' : do_act a s = (pre, s') -> chk pre = true.
Proof.
  unfold do_act. destruct a; repeat dest_match; intros Q; LinDel.inj_pair Q; chk_tac.
Qed.

Ltac chk2 := intros Q; LinDel.inj_pair Q; chk_tac.

Lemma handle_chk mo s pre s' : handle mo s = (pre, s') -> chk pre = true.
Proof.
  destruct mo; cbn [handle].
  - unfold do_top. destruct o; repeat dest_match; chk2.
  - destruct l as [|a l]; [chk2|]. destruct (do_act a s) as [p s1] eqn:E. intros Q; inversion Q; subst.
    rewrite chk_app_nodly by reflexivity. eapply do_act_chk; eauto.
  - destruct (frames s); chk2.
  - destruct (frames s) as [|fr rest]; [chk2|]. intros Q; inversion Q; subst. rewrite chk_app_gd by apply gd_drops.
    destruct f; try destruct (f_die fr); try destruct ready; reflexivity.
  - unfold run_item. destruct c as [u i kd caps q]. destruct kd; repeat dest_match; chk2.
  - unfold drop_item. destruct c as [u i kd caps q]. destruct kd; chk2.
  - chk2.
  - unfold drop_val. destruct v; repeat dest_match; chk2.
  - unfold drop_own. destruct logged; repeat dest_match; chk2.
  - unfold drop_ref. destruct (aget (actors s) a) as [y|]; [|chk2]. destruct (a_freed y); [chk2|].
    destruct (minrc_drop (a_rc y)) as [[v z]|]; [|chk2]. destruct z; [|chk2].
    destruct (state_drops a (a_state y) _) as [dl s2] eqn:SD. intros Q; inversion Q; subst.
    destruct (state_drops_chk _ _ _ _ _ SD []) as [C1 G1]. rewrite app_nil_r in C1.
    destruct (a_notify y); simpl app; [|exact C1]. cbn [chk]. rewrite C1. simpl. rewrite orb_true_r. reflexivity.
  - unfold ret_invoke. destruct r as [rid k]. destruct k; repeat dest_match; chk2.
  - chk2.
  - chk2.
  - chk2.
  - chk2.
  - unfold terminate. destruct (aget (actors s) a) as [y|]; [|chk2].
    destruct (state_drops a (a_state y) _) as [dl s2] eqn:SD.
    destruct (a_notify y); intros Q; inversion Q; subst.
    + destruct (state_drops_chk _ _ _ _ _ SD [MLogClose a c; MRetInvoke r (Some (MCause c))]) as [C1 G1]. rewrite C1. reflexivity.
    + destruct (state_drops_chk _ _ _ _ _ SD []) as [C1 G1]. rewrite app_nil_r in C1. exact C1.
  - destruct (aget (actors s) a); chk2.
  - destruct (aget (actors s) a) as [y|]; [destruct (a_state y)|]; chk2.
  - chk2.
  - destruct idle; [destruct (idleq s)|]; chk2.
  - destruct (t >? now (set_mainq s [])); [destruct (fire t _) as [f s2]|]; chk2.
  - repeat dest_match; chk2.
  - repeat dest_match; chk2.
  - intros Q; inversion Q; subst. apply chk_nodly. rewrite dly_app, dly_dropitems. reflexivity.
  - repeat dest_match; chk2.
  - repeat dest_match; chk2.
  - chk2.
  - chk2.
Qed.

Definition DT (k : list mop) (s : st) : Prop :=
  forall w x rest, k = w ++ x :: rest -> dly x = true -> DP w s.

Lemma gd_facts p : forallb gd p = true -> forallb qmop p = true /\ poppers p = [] /\ existsb is_acts p = false.
Proof.
  induction p as [|y p IH]; simpl; auto. intros H. apply andb_prop in H as [H1 H2]. destruct (IH H2) as (A & B & C).
  unfold gd in H1. apply andb_prop in H1 as [H1 H3]. apply andb_prop in H1 as [H1 H4].
  apply negb_true_iff in H3, H4. rewrite H1, A, H3, C. unfold poppers in *. simpl. rewrite H4. auto.
Qed.

Theorem step_DT k s k' s' : DT k s -> step k s = Some (k', s') -> DT k' s'.
Proof.
  intros D H. destruct k as [|mo k0]; [discriminate|]. simpl in H.
  destruct (handle mo s) as [pre s1] eqn:E. inversion H; subst; clear H.
  intros w' x rest' SPL DX.
  destruct (app_split pre k0 w' x rest' SPL) as [(w0 & K0 & ->)|(p2 & PRE & _)].
  - (* already pending *)
    assert (OLD : DP (mo :: w0) s) by (apply (D (mo :: w0) x rest'); [rewrite K0; reflexivity | exact DX]).
    destruct OLD as [OQ (fs & fs' & FR & LN & FX) OA]. simpl in OQ. apply andb_prop in OQ as [QM OQ].
    destruct (handle_qmop _ _ _ _ QM E) as [QP HC].
    assert (NQ : forallb qmop (pre ++ w0) = true) by (rewrite forallb_app, (quiet_qmops _ QP), OQ; reflexivity).
    assert (AC : acts_closed (pre ++ w0)).
    { apply (acts_closed_step mo w0 pre OA); [|auto].
      destruct (is_acts mo) eqn:IA; [left; reflexivity | right].
      destruct (qmop_pre _ _ _ _ E QM IA) as [p D1 D2|b]; [left; exact D2 | right; eauto]. }
    split; auto.
    destruct HC as [O|c M C P S|fr rs M F P S].
    + assert (NP : is_popper mo = false).
      { destruct mo; try reflexivity; try discriminate QM. exfalso. simpl in LN. cbn [handle] in E.
        destruct (frames s) as [|f0 r0] eqn:F0.
        - destruct fs; simpl in *; [discriminate | discriminate].
        - inversion E; subst. destruct O as [EF PP|s2 loc EF X PP].
          + apply eff_ctxs in EF. simpl in EF. rewrite F0 in EF. simpl in EF. apply (f_equal (@length ctx)) in EF. simpl in EF. rewrite !map_length in EF. lia.
          + rewrite poppers_drops in PP. discriminate. }
      rewrite LinDel.poppers_cons, NP in LN.
      destruct O as [EF PP|s2 loc EF X PP].
      * destruct (ctxs_split (frames s') fs fs') as (gs & gs' & A & B & C); [rewrite (eff_ctxs _ _ EF), FR; reflexivity | exact FX |].
        exists gs, gs'. rewrite poppers_app, PP. simpl. repeat split; auto. lia.
      * destruct (ctxs_split (frames s2) fs fs') as (gs & gs' & A & B & C); [rewrite (eff_ctxs _ _ EF), FR; reflexivity | exact FX |].
        subst s'. exists (mkFrame XNone loc None :: gs), gs'. rewrite poppers_app, PP. unfold push_frame. simpl. rewrite A.
        repeat split; auto. simpl. lia.
    + subst. exists fs, fs'. rewrite poppers_app, poppers_drops. simpl in *. repeat split; auto.
    + subst. simpl in LN. rewrite F in FR. destruct fs as [|f0 fs]; simpl in *; [discriminate|]. inversion FR; subst.
      inversion FX; subst. exists fs, fs'. rewrite poppers_app, poppers_drops. simpl. repeat split; auto.
  - (* pushed by this step: its prefix inside [pre] is made of plain quiet micro-ops *)
    destruct (gd_facts _ (chk_ok _ (handle_chk _ _ _ _ E) w' x p2 PRE DX)) as (A & B & C).
    split; auto.
    + exists [], (frames s'). rewrite B. simpl. auto.
    + apply acts_closed_nil_acts. exact C.
Qed.

Lemma DT_init d p : DT (map MTop p ++ [MEpilogue]) (init d).
Proof.
  intros w x rest H DX. exfalso.
  assert (IN : In x (map MTop p ++ [MEpilogue])) by (rewrite H; apply in_or_app; right; left; reflexivity).
  apply in_app_or in IN as [IN|[IN|[]]]; [|subst; discriminate DX]. apply in_map_iff in IN as (o & Q & _). subst. discriminate DX.
Qed.

(** consequences *)

(* a non-quiet head (an item about to run, a phase or top-level micro-op): nothing delayed is pending *)
Lemma DT_flat mo k0 s : DT (mo :: k0) s -> qmop mo = false -> existsb dly k0 = false.
Proof.
  intros D Q. destruct (existsb dly k0) eqn:X; auto. exfalso.
  apply existsb_exists in X as (x & IN & DX). apply in_split in IN as (a & b & ->).
  destruct (D (mo :: a) x b eq_refl DX) as [OQ _ _]. simpl in OQ. rewrite Q in OQ. discriminate.
Qed.

(* acts in front of a delayed micro-op run in a Core-less frame *)
Lemma DT_ctx l k0 s : DT (MActs l :: k0) s -> existsb dly k0 = true -> cur_ctx s = XNone.
Proof.
  intros D H. apply existsb_exists in H as (x & IN & DX). apply in_split in IN as (w & rest & ->).
  destruct (D (MActs l :: w) x rest eq_refl DX) as [_ (fs & fs' & FR & LN & FX) AC].
  specialize (AC [] l w eq_refl). simpl in LN.
  destruct fs as [|f fs]; [destruct (poppers w); [congruence | discriminate]|].
  unfold cur_ctx. rewrite FR. simpl. inversion FX; subst. exact H1.
Qed.
