(** Layer R proofs: frames and bodies.  [step_FK]: layerR's frame/pop correspondence [FK] (C20Proofs.v: the frame
    pops of the continuation match the frame contexts; nested frames are Core-less; the bottom one belongs to the
    running item or to a top-level [do]) is preserved by every step on its own. *)
From Coq Require Import ZArith NArith List Bool Lia.
From Stk Require Import Lib.U Gen.SrcCount Gen.SrcCore Gen.SrcLog R.Syntax R.Rt R.Mon R.Shape R.Eff R.Tags R.Mono R.C15Proofs R.C20Proofs.
From Stk Require Import R.LinDel.
Import ListNotations.
Local Open Scope Z_scope.

Lemma eff_ctxs' s s' : eff s s' -> ctxs s' = ctxs s.
Proof. apply eff_ctxs. Qed.

Lemma FK_body b u f c rest : endm f c -> poppers rest = [] -> FK (MActs b :: MEndBody u f :: rest) [c].
Proof. intros EM PR. exists [MActs b; MEndBody u f], rest. repeat split; auto. apply fo_end. exact EM. Qed.

Lemma FK_do l rest : poppers rest = [] -> FK (MActs l :: MPopFrame :: rest) [XStk].
Proof. intros PR. exists [MActs l; MPopFrame], rest. repeat split; auto. apply fo_do. Qed.

Theorem step_FK k s k' s' : FK k (ctxs s) -> step k s = Some (k', s') -> FK k' (ctxs s').
Proof.
  intros F H. destruct k as [|mo k0]; [discriminate|]. simpl in H.
  destruct (handle mo s) as [pre s1] eqn:E. inversion H; subst; clear H.
  destruct (qmop mo) eqn:Q.
  - destruct (handle_qmop _ _ _ _ Q E) as [QP HC].
    destruct HC as [O|c M C P S|fr rest M FR P S].
    + assert (NP : is_popper mo = false).
      { destruct mo; try reflexivity; try discriminate Q. exfalso. cbn [handle] in E.
        destruct (FK_pop _ _ F) as (c & cs' & CS & _). unfold ctxs in CS.
        destruct (frames s) as [|f0 r0] eqn:F0; [discriminate CS|]. inversion E; subst.
        destruct O as [EF PP|s2 loc EF X PP].
        - apply eff_ctxs' in EF. unfold ctxs in EF. simpl in EF. rewrite F0 in EF. simpl in EF.
          apply (f_equal (@length ctx)) in EF. simpl in EF. lia.
        - rewrite poppers_drops in PP. discriminate. }
      destruct O as [EF PP|s2 loc EF X PP].
      * rewrite (eff_ctxs' _ _ EF). apply (FK_eff _ _ _ _ F); [exact NP | apply quiet_calm; auto | exact PP].
      * subst s'. rewrite ctxs_push, (eff_ctxs' _ _ EF). apply (FK_push _ _ _ _ F); [exact NP | apply quiet_calm; auto | exact PP].
    + subst. change (ctxs (emit s (EDrop (ci_uid c) (ci_sq c) false))) with (ctxs s).
      apply (FK_eff _ _ _ _ F); [reflexivity | apply quiet_calm; apply quiet_drops | apply poppers_drops].
    + subst. destruct (FK_pop _ _ F) as (c & cs' & CS & FP). unfold ctxs in *. rewrite FR in CS. simpl in CS. inversion CS; subst.
      simpl. apply FP; [apply quiet_calm; apply quiet_drops | apply poppers_drops].
  - destruct (is_work mo) eqn:W.
    + destruct mo; try discriminate W; try discriminate Q; cbn [handle] in E.
      * (* MEndBody *)
        destruct (FK_end _ _ _ _ F) as (c & CS & EM & PK). unfold ctxs in CS.
        destruct (frames s) as [|fr rest] eqn:FR; [discriminate CS|]. simpl in CS. inversion CS; subst.
        destruct rest; [|discriminate]. inversion E; subst. unfold ctxs. simpl. apply FK_of_flat.
        rewrite !poppers_app, poppers_drops, PK.
        destruct f; try destruct (f_die fr); try destruct ready; reflexivity.
      * (* MRunItem *)
        destruct (FK_flat _ _ _ F eq_refl) as (CS & PK & _).
        revert E. unfold run_item. destruct c as [u i kd caps q]. destruct kd; repeat dest_match; intros E; inversion E; subst.
        all: first
          [ (rewrite ctxs_push; match goal with |- FK _ (_ :: ctxs (emit ?x ?e)) => change (ctxs (emit x e)) with (ctxs x) end; rewrite CS;
             (apply FK_body; [constructor | simpl; exact PK]))
          | (rewrite CS; apply FK_of_flat; simpl; exact PK)
          | (match goal with |- FK _ (ctxs ?x) => change (ctxs x) with (ctxs s) end; rewrite CS; apply FK_of_flat; simpl; exact PK) ].
      * (* MToReady *)
        destruct (FK_flat _ _ _ F eq_refl) as (CS & PK & _).
        destruct (aget (actors s) a) as [x|]; [destruct (a_state x)|]; inversion E; subst;
          match goal with |- FK _ (ctxs ?x) => change (ctxs x) with (ctxs s) end; rewrite CS; apply FK_of_flat;
          rewrite ?poppers_app, ?poppers_map_runitem; simpl; exact PK.
    + assert (NC : calm mo = false) by (unfold calm; rewrite W; reflexivity).
      destruct (FK_flat _ _ _ F NC) as (CS & PK & _).
      assert (FLAT : forall p x, ctxs x = ctxs s -> poppers p = [] -> FK (p ++ k0) (ctxs x)).
      { intros p x CX PP. rewrite CX, CS. apply FK_of_flat. rewrite poppers_app, PP, PK. reflexivity. }
      destruct mo; try discriminate W; cbn [handle] in E.
      * unfold do_top in E. destruct o; repeat (revert E; dest_match; intros E); unfold bad in *; inversion E; subst;
          try (apply FLAT; reflexivity).
        all: rewrite ctxs_push, CS; first [ apply FK_do; exact PK | (exists [MActs l; MPopFrame], k0; repeat split; auto; apply fo_nest; apply fo_nil) ].
      * inversion E; subst. apply FLAT; [reflexivity | apply poppers_map_dropitem].
      * destruct idle; [destruct (idleq s)|]; inversion E; subst; apply FLAT; reflexivity.
      * unfold fire in E. simpl in E. destruct (t >? now s); inversion E; subst; (apply FLAT; [|apply poppers_map_runitem]);
          try destruct (ambiguous _); reflexivity.
      * destruct (mainq s) as [|c l] eqn:MQ; [destruct (lazyq s) as [|c l] eqn:LQ|]; inversion E; subst; apply FLAT;
          try (destruct (t >? recreate s); reflexivity); try reflexivity.
        -- change (MRunItem c :: map MRunItem l ++ [MLoop t]) with (map MRunItem (c :: l) ++ [MLoop t]). rewrite poppers_app, poppers_map_runitem. reflexivity.
        -- change (MRunItem c :: map MRunItem l ++ [MLoop t]) with (map MRunItem (c :: l) ++ [MLoop t]). rewrite poppers_app, poppers_map_runitem. reflexivity.
      * destruct (i >=? TEARDOWN_ROUNDS).
        -- inversion E; subst. apply FLAT; [destruct (is_nil (mainq s)); reflexivity | reflexivity].
        -- destruct (mainq s) as [|c l] eqn:MQ; inversion E; subst; apply FLAT; try reflexivity.
           change (MDropItem c :: map MDropItem l ++ [MDrain (i + 1)]) with (map MDropItem (c :: l) ++ [MDrain (i + 1)]). rewrite poppers_app, poppers_map_dropitem. reflexivity.
      * inversion E; subst. apply FLAT; [destruct (ambiguous _); reflexivity | rewrite poppers_app, poppers_map_dropitem; reflexivity].
      * inversion E; subst. apply FLAT; [destruct (is_nil (mainq s)); reflexivity | reflexivity].
      * destruct (amin (env s)) as [[h v]|]; inversion E; subst; apply FLAT; reflexivity.
      * inversion E; subst. apply FLAT; reflexivity.
      * inversion E; subst. apply FLAT; [|reflexivity]. unfold ctxs. simpl.
        assert (FF : forall (f : N * actor -> option ev) l s0, frames (fold_left (fun s1 p0 => emit_opt s1 (f p0)) l s0) = frames s0).
        { intros f l. induction l; simpl; intros s0; auto. rewrite IHl. unfold emit_opt. destruct (f a); reflexivity. }
        unfold class_flags. rewrite FF. reflexivity.
Qed.

Lemma FK_init d p : FK (map MTop p ++ [MEpilogue]) (ctxs (init d)).
Proof. apply FK_of_flat. rewrite poppers_app. simpl. rewrite app_nil_r. induction p; simpl; auto. Qed.
