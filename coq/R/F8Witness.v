(** Layer R: known finding F8 (PendingTermRefCycle) at model level.

    An actor A whose state holds a NON-owning Actor reference to an actor B whose StopCause notifier is a
    [ret_to!([A], ..)]: both owners are dropped after the last run, the Stakker is dropped next.  The deferred
    terminate(Dropped) closures are discarded un-run, and only termination breaks the cycle
    A value -> B cell -> B notifier -> A cell: both values and both notifiers leak.  Unlike F7 the model's class flags
    (M_PREPHELD / M_CHILDCYCLE) are silent (A does not OWN B); the check decides the class on the program text
    (layer_r.refcycle_actors).  With a run between the owner drops and the Stakker drop everything is released. *)
From Coq Require Import ZArith NArith List Bool.
From Stk Require Import R.Syntax R.Rt R.Mon.
Import ListNotations.
Local Open Scope Z_scope.

Definition f8_setup : list act :=
  [ANewActor 1 2 None; ACallPrep 1 (Clo 3 0 0 [] []) true;
   ANewActor 14 3 (Some (1%N, Clo 4 0 0 [] [])); ACallPrep 14 (Clo 29 0 0 [] []) true;
   AClone 14 20; ACall 1 (Clo 34 0 0 [20%N] [AStore 20])].

Definition f8_prog : list top := [TNew 2; TDo f8_setup; TRun 2 false; TDo [ADropH 1; ADropH 14]; TDropStakker].
Definition f8_control : list top := [TNew 2; TDo f8_setup; TRun 2 false; TDo [ADropH 1; ADropH 14]; TRun 3 false].

Definition no_class_flag (t : list ev) : bool :=
  negb (existsb (fun e => match e with EModel c _ => N.eqb c M_PREPHELD || N.eqb c M_CHILDCYCLE | _ => false end) t).

Example F8_refuted_proved :
  exists t, exec DGlobal 3000 f8_prog = Done t /\ no_class_flag t = true /\
            In (ELeak LK_VAL 2) t /\ In (ELeak LK_VAL 3) t /\ In (ELeak LK_NOTIFY 2) t /\ In (ELeak LK_NOTIFY 3) t /\
            C16_ok t = false /\ C03_ok t = false.
Proof. eexists. split; [vm_compute; reflexivity|]. split; [vm_compute; reflexivity|]. repeat split; vm_compute; tauto. Qed.

Example F8_control_proved :
  exists t, exec DGlobal 3000 f8_control = Done t /\ C16_ok t = true /\ C03_ok t = true /\
            In (ENotify 2 (Some CDrop)) t /\ In (ENotify 3 (Some CDrop)) t.
Proof. eexists. split; [vm_compute; reflexivity|]. repeat split; vm_compute; tauto. Qed.
