(** Layer R proofs: C01 (deferred closures run exactly once, in submission order).

    [C01_proved]: for every program, fuel and deferrer kind, if the machine terminates with trace [t] and the
    program is outside the class DropDepth99 of known finding F4 (decided by the model: the drain loop of
    [Stakker::drop] never gives up with closures still queued, i.e. [EModel M_DRAINLEFT 0] does not occur in
    [t]), then [C01_ok t = true].  [F4_refuted] shows a program in the class whose trace violates C01_ok. *)
From Coq Require Import ZArith NArith List Bool Lia.
From Stk Require Import Lib.U Gen.SrcCount Gen.SrcCore Gen.SrcLog R.Syntax R.Rt R.Mon R.Shape R.Eff R.Tags R.Drops R.Mono R.C15Proofs.
Import ListNotations.
Local Open Scope Z_scope.

(* ------------------------------------------------------------------ *)
(** * Abstraction: the plain main-queue closures of a configuration, in order *)

Definition pmain (c : citem) : bool :=
  negb (ci_call c) && match ci_sq c with Some QMain => true | _ => false end.
Definition item_uids (c : citem) : list N := if pmain c then [ci_uid c] else [].
Definition mop_uids (mo : mop) : list N :=
  match mo with MRunItem c | MDropItem c => item_uids c | _ => [] end.
Definition wuids (w : list mop) : list N := flat_map mop_uids w.
Definition quids (l : list citem) : list N := flat_map item_uids l.

Lemma wuids_app a b : wuids (a ++ b) = wuids a ++ wuids b.
Proof. apply flat_map_app. Qed.
Lemma quids_app a b : quids (a ++ b) = quids a ++ quids b.
Proof. apply flat_map_app. Qed.
Lemma wuids_runitems l : wuids (map MRunItem l) = quids l.
Proof. induction l; simpl; auto. rewrite IHl. reflexivity. Qed.
Lemma wuids_dropitems l : wuids (map MDropItem l) = quids l.
Proof. induction l; simpl; auto. rewrite IHl. reflexivity. Qed.

Lemma okdrop_uids mo : okdrop mo -> runish mo = false -> mop_uids mo = [].
Proof.
  destruct mo; simpl; auto; try discriminate. unfold item_uids, pmain.
  intros [H|H] _; rewrite H; simpl; auto. rewrite andb_false_r. reflexivity.
Qed.

Lemma wuids_ok_quiet l : Forall okdrop l -> existsb runish l = false -> wuids l = [].
Proof.
  intros F. induction F; simpl; auto. intros R. apply orb_false_elim in R as [R1 R2].
  rewrite okdrop_uids; auto.
Qed.

Lemma quids_tagged q l : q <> QMain -> Forall (tagged q) l -> quids l = [].
Proof.
  intros N F. induction F; simpl; auto. rewrite IHF, app_nil_r. unfold item_uids, pmain.
  destruct H as [_ H]. rewrite H. destruct q; try congruence; rewrite andb_false_r; reflexivity.
Qed.

Lemma quids_calls l : Forall is_callb l -> quids l = [].
Proof.
  intros F. induction F; simpl; auto. rewrite IHF, app_nil_r. unfold item_uids, pmain. unfold is_callb in H. rewrite H. reflexivity.
Qed.

(* lazy / idle / timer closures about to be dropped by Stakker::drop *)
Definition fmop (mo : mop) : Prop :=
  exists c, mo = MDropItem c /\ ci_call c = false /\ exists q, ci_sq c = Some q /\ q <> QMain.

(* ------------------------------------------------------------------ *)
(** * The relation *)

Definition R01 (m : s01) (k : list mop) (s : st) : Prop :=
  exists L, (dk s = DGlobal -> L = []) /\
  match phase_of k with
  | Some PTop =>
      m_pend m = quids (mainq s) /\ m_limbo m = wuids (work_of k) ++ L /\ m_tear m = false
  | Some (PDrain _) =>
      m_pend m = wuids (work_of k) ++ quids (mainq s) /\ m_limbo m = L /\ m_tear m = true /\ m_fields m = false
  | Some PFields =>
      m_pend m = wuids (work_of k) ++ quids (mainq s) /\ m_limbo m = L /\ m_tear m = true /\ m_fields m = false /\
      m_pend m = [] /\ work_of k = []
  | Some PDropEnd =>
      m_pend m = wuids (work_of k) ++ quids (mainq s) /\ m_limbo m = L /\ m_tear m = true /\
      (m_fields m = true \/ (m_pend m = [] /\ Forall fmop (work_of k)))
  | Some (PRunIdle _ _) =>
      m_pend m = wuids (work_of k) ++ quids (mainq s) /\ m_limbo m = L /\ m_tear m = false /\ work_of k = []
  | Some _ =>
      m_pend m = wuids (work_of k) ++ quids (mainq s) /\ m_limbo m = L /\ m_tear m = false
  | None => False
  end.

Definition flag : ev := EModel M_DRAINLEFT 0.

Definition I01 (k : list mop) (s : st) : Prop :=
  In flag (tr s) \/ exists m, monr step01 i01 (tr s) = Some m /\ R01 m k s.

(* ------------------------------------------------------------------ *)
(** * Effects *)

Lemma step01_quiet m e : quiet_ev e = true -> step01 m e = Some m.
Proof.
  destruct e; simpl; try discriminate; auto.
  destruct call; try discriminate. intros _. destruct q as [[]|]; reflexivity.
Qed.

Lemma pmain_setq c : ci_call c = false -> item_uids (ci_setq c QMain) = [ci_uid c].
Proof. destruct c as [u i k caps q]. unfold item_uids, pmain, ci_call. simpl. intros ->. reflexivity. Qed.

Lemma call_uids c : ci_call c = true -> item_uids c = [].
Proof. unfold item_uids, pmain. intros ->. reflexivity. Qed.

Lemma uid_setq c q : ci_uid (ci_setq c q) = ci_uid c.
Proof. destruct c; reflexivity. Qed.

Lemma eff_mon01 s s1 m :
  eff s s1 -> monr step01 i01 (tr s) = Some m ->
  exists m1 l, monr step01 i01 (tr s1) = Some m1 /\ mainq s1 = mainq s ++ l /\
               m_pend m1 = m_pend m ++ quids l /\ m_limbo m1 = m_limbo m /\ m_tear m1 = m_tear m /\
               m_fields m1 = m_fields m /\ dk s1 = dk s.
Proof.
  intros E M. induction E.
  - exists m, []. rewrite !app_nil_r. repeat split; auto.
  - destruct (IHE M) as (m1 & l0 & A & B & C & D & F & G & K). exists m1, l0. repeat split; auto.
    unfold emit; simpl. rewrite A. apply step01_quiet; auto.
  - destruct (IHE M) as (m1 & l0 & A & B & C & D & F & G & K). exists m1, l0. repeat split; auto.
    unfold emit; simpl. rewrite A. reflexivity.
  - destruct (IHE M) as (m1 & l0 & A & B & C & D & F & G & K). exists m1, l0. repeat split; auto.
    unfold emit; simpl. rewrite A. reflexivity.
  - (* submit of a plain closure *)
    destruct (IHE M) as (m1 & l0 & A & B & C & D & F & G & K).
    destruct q; try congruence.
    + exists (mk01 (m_pend m1 ++ [ci_uid ci]) (m_limbo m1) (m_tear m1) (m_fields m1)), (l0 ++ [ci_setq ci QMain]).
      unfold submit, push_main, emit; simpl. rewrite A, H. simpl. repeat split; auto.
      * rewrite B, app_assoc. reflexivity.
      * rewrite C, quids_app. simpl. rewrite pmain_setq, app_nil_r, app_assoc; auto.
    + exists m1, l0. unfold submit, emit; simpl. rewrite A. repeat split; auto.
    + exists m1, l0. unfold submit, emit; simpl. rewrite A. repeat split; auto.
  - (* submit of a call *)
    destruct (IHE M) as (m1 & l0 & A & B & C & D & F & G & K).
    exists m1, (l0 ++ [ci_setq ci QMain]). unfold submit, push_main, emit; simpl. rewrite A, H. simpl. repeat split; auto.
    + rewrite B, app_assoc. reflexivity.
    + rewrite C, quids_app. simpl. rewrite call_uids, !app_nil_r; auto. rewrite call_setq; auto.
  - destruct (IHE M) as (m1 & l0 & A & B & C & D & F & G & K).
    exists m1, (l0 ++ [ci]). unfold push_main; simpl. repeat split; auto.
    + rewrite B, app_assoc. reflexivity.
    + rewrite C, quids_app. simpl. rewrite call_uids, !app_nil_r; auto.
  - destruct (IHE M) as (m1 & l0 & A & B & C & D & F & G & K). exists m1, l0.
    unfold timer_add, emit; simpl. rewrite A. repeat split; auto.
  - destruct (IHE M) as (m1 & l0 & A & B & C & D & F & G & K). exists m1, l0. repeat split; auto.
  - destruct (IHE M) as (m1 & l0 & A & B & C & D & F & G & K). exists m1, l0. repeat split; auto.
  - destruct (IHE M) as (m1 & l0 & A & B & C & D & F & G & K). exists m1, l0. repeat split; auto.
  - destruct (IHE M) as (m1 & l0 & A & B & C & D & F & G & K). exists m1, l0. repeat split; auto.
  - destruct (IHE M) as (m1 & l0 & A & B & C & D & F & G & K). exists m1, l0. repeat split; auto.
  - destruct (IHE M) as (m1 & l0 & A & B & C & D & F & G & K). exists m1, l0. repeat split; auto.
  - destruct (IHE M) as (m1 & l0 & A & B & C & D & F & G & K). exists m1, l0. repeat split; auto.
  - destruct (IHE M) as (m1 & l0 & A & B & C & D & F & G & K). exists m1, l0. repeat split; auto.
  - destruct (IHE M) as (m1 & l0 & A & B & C & D & F & G & K). exists m1, l0. repeat split; auto.
  - destruct (IHE M) as (m1 & l0 & A & B & C & D & F & G & K). exists m1, l0. repeat split; auto.
Qed.

(* ------------------------------------------------------------------ *)
(** * Quiet work *)

Lemma I01_flag (k' : list mop) s s' : ext s s' -> In flag (tr s) -> I01 k' s'.
Proof. intros E H. left. eapply ext_in; eauto. Qed.

Lemma plain_kind c : ci_call c = false -> exists b, ci_kind c = KPlain b.
Proof. unfold ci_call. destruct (ci_kind c); try discriminate. eauto. Qed.

Lemma R01_eff m mo k0 s pre s1 m1 l :
  is_work mo = true -> forallb is_work pre = true -> mop_uids mo = [] -> wuids pre = [] ->
  (phase_of (mo :: k0) = Some PDropEnd -> ~ fmop mo) ->
  R01 m (mo :: k0) s ->
  mainq s1 = mainq s ++ l -> m_pend m1 = m_pend m ++ quids l -> m_limbo m1 = m_limbo m ->
  m_tear m1 = m_tear m -> m_fields m1 = m_fields m -> dk s1 = dk s ->
  R01 m1 (pre ++ k0) s1.
Proof.
  intros W PW MU WU NF (L & LD & R) B C D F G K.
  destruct (work_step_phase mo k0 pre W PW) as [X [Y Z]].
  exists L. split. rewrite K; auto.
  rewrite X, Z. rewrite Y in R. rewrite B, C, D, F, G, quids_app, wuids_app, WU. simpl in R. rewrite MU in R. simpl in R. simpl.
  destruct (phase_of (mo :: k0)) as [[]|] eqn:PH; auto.
  - destruct R as (R1 & R2 & R3). rewrite R1. auto.
  - destruct R as (R1 & R2 & R3 & R4). discriminate R4.
  - destruct R as (R1 & R2 & R3). rewrite R1, app_assoc. auto.
  - destruct R as (R1 & R2 & R3). rewrite R1, app_assoc. auto.
  - destruct R as (R1 & R2 & R3 & R4). rewrite R1, app_assoc. auto.
  - destruct R as (R1 & R2 & R3 & R4 & R5 & R6). discriminate R6.
  - destruct R as (R1 & R2 & R3 & R4). rewrite R1, app_assoc. repeat split; auto.
    destruct R4 as [R4|[_ R4]]; auto. exfalso. inversion R4; subst. apply (NF eq_refl). auto.
Qed.

Lemma I01_qmop mo k0 s pre s' :
  shape (mo :: k0) -> Tags (mo :: k0) s -> drop_tags (mo :: k0) ->
  qmop mo = true -> handle mo s = (pre, s') -> I01 (mo :: k0) s -> I01 (pre ++ k0) s'.
Proof.
  intros SH T DT Q E [FL|(m & MM & R)].
  { eapply I01_flag; eauto. eapply handle_ext; eauto. }
  right.
  destruct (handle_qmop _ _ _ _ Q E) as [QP HC].
  pose proof Q as Q'. apply andb_prop in Q' as [W NR]. apply negb_true_iff in NR.
  apply Tags_split in T as [QT _].
  pose proof (handle_ok _ _ _ _ W QT E) as OK.
  assert (WU : wuids pre = []). { apply wuids_ok_quiet; auto. apply QP. }
  destruct QP as [PW _].
  (* the un-run drop of a plain closure is treated apart *)
  assert (CASE : (exists c, mo = MDropItem c /\ ci_call c = false) \/
                 (mop_uids mo = [] /\ forall c, mo = MDropItem c -> ci_call c = true)).
  { destruct mo; simpl; auto; try discriminate NR;
      try (right; split; [reflexivity | intros c0 E0; discriminate E0]).
    destruct (ci_call c) eqn:CC; [right | left; eauto].
    split; [apply call_uids; auto | intros c0 E0; inversion E0; subst; auto]. }
  destruct CASE as [(c & -> & CC)|[MU NP]].
  - (* plain closure dropped un-run *)
    destruct (plain_kind _ CC) as [b KB]. destruct c as [u i kd caps q]. simpl in KB. subst kd. simpl in E. inversion E; subst. clear E.
    destruct (work_step_phase (MDropItem (CI u i (KPlain b) caps q)) k0 (drops caps) W PW) as [X [Y Z]].
    destruct R as (L & LD & R). rewrite Y in R. unfold drop_tags in DT. rewrite Y in DT.
    unfold R01. rewrite X, Z. simpl. rewrite MM. simpl.
    assert (NM : forall q0, q = Some q0 -> q0 <> QMain ->
              exists m', (if m_tear m && negb (m_fields m) then guard (nil_b (m_pend m)) (mk01 (m_pend m) (m_limbo m) true true) else Some m) = Some m' /\
              R01 m' (drops caps ++ k0) (emit s (EDrop u q false))).
    { intros q0 -> NQ.
      assert (IU : item_uids (CI u i (KPlain b) caps (Some q0)) = []).
      { unfold item_uids, pmain. simpl. destruct q0; try congruence; reflexivity. }
      simpl in R. rewrite IU in R. simpl in R. unfold R01. rewrite X, Z, wuids_app, WU. simpl.
      destruct (phase_of (MDropItem (CI u i (KPlain b) caps (Some q0)) :: k0)) as [[]|] eqn:PH; try contradiction.
      1-5: exfalso; inversion DT as [|? ? D1 D2]; subst; simpl in D1;
           first [ destruct (D1 eq_refl) as [D|D]; inversion D; subst; congruence
                 | destruct D1 as [D|D]; discriminate D ].
      - destruct R as (_ & _ & _ & _ & _ & R6). discriminate R6.
      - destruct R as (R1 & R2 & R3 & R4). rewrite R3. destruct (m_fields m) eqn:FD; simpl.
        + exists m. split; auto. exists L. rewrite FD. repeat split; auto.
        + destruct R4 as [R4|[R4 R5]]; [discriminate|]. rewrite R4. simpl.
          eexists. split; [reflexivity|]. exists L. simpl. repeat split; auto. rewrite <- R1; auto. }
    destruct q as [[]|].
    + (* a main-queue closure *)
      simpl in R.
      destruct (phase_of (MDropItem (CI u i (KPlain b) caps (Some QMain)) :: k0)) as [[]|] eqn:PH; try contradiction.
      * destruct R as (R1 & R2 & R3). rewrite R3, R2. simpl. rewrite N.eqb_refl.
        eexists. split; [reflexivity|]. exists L. split; auto. simpl. rewrite wuids_app, WU. simpl. auto.
      * exfalso. inversion DT as [|? ? D1 D2]; subst. simpl in D1. destruct D1; discriminate.
      * exfalso. inversion DT as [|? ? D1 D2]; subst. simpl in D1. destruct D1; discriminate.
      * exfalso. inversion DT as [|? ? D1 D2]; subst. simpl in D1. destruct D1; discriminate.
      * destruct R as (R1 & R2 & R3 & R4). rewrite R3, R1. simpl. rewrite N.eqb_refl.
        eexists. split; [reflexivity|]. exists L. split; auto. simpl. rewrite wuids_app, WU. simpl. auto.
      * destruct R as (_ & _ & _ & _ & _ & R6). discriminate R6.
      * destruct R as (R1 & R2 & R3 & R4). rewrite R3, R1. simpl. rewrite N.eqb_refl.
        eexists. split; [reflexivity|]. exists L. split; auto. simpl. rewrite wuids_app, WU. simpl. repeat split; auto.
        destruct R4 as [R4|[_ R4]]; auto. exfalso. inversion R4 as [|? ? F1 F2]; subst.
        destruct F1 as (c0 & E0 & _ & q0 & S0 & N0). inversion E0; subst. simpl in S0. inversion S0; subst. congruence.
    + destruct (NM QLazy eq_refl ltac:(discriminate)) as (m' & A & B). exists m'. split; auto. unfold R01 in B. rewrite X, Z in B. exact B.
    + destruct (NM QIdle eq_refl ltac:(discriminate)) as (m' & A & B). exists m'. split; auto. unfold R01 in B. rewrite X, Z in B. exact B.
    + destruct (NM QTimer eq_refl ltac:(discriminate)) as (m' & A & B). exists m'. split; auto. unfold R01 in B. rewrite X, Z in B. exact B.
    + (* a closure that sits in no queue *)
      simpl in R. eexists. split; [reflexivity|]. exists L. split; auto.
      rewrite wuids_app, WU. simpl.
      destruct (phase_of (MDropItem (CI u i (KPlain b) caps None) :: k0)) as [[]|] eqn:PH; auto.
      * destruct R as (_ & _ & _ & R4). discriminate R4.
      * destruct R as (_ & _ & _ & _ & _ & R6). discriminate R6.
      * destruct R as (R1 & R2 & R3 & R4). repeat split; auto.
        destruct R4 as [R4|[_ R4]]; auto. exfalso. inversion R4 as [|? ? F1 F2]; subst.
        destruct F1 as (c0 & E0 & _ & q0 & S0 & N0). inversion E0; subst. discriminate S0.
  - (* effects, possibly with a pushed frame, or a frame pop *)
    assert (G : exists m1 l, monr step01 i01 (tr s') = Some m1 /\ mainq s' = mainq s ++ l /\
               m_pend m1 = m_pend m ++ quids l /\ m_limbo m1 = m_limbo m /\ m_tear m1 = m_tear m /\
               m_fields m1 = m_fields m /\ dk s' = dk s).
    { destruct HC as [O|c1 M1 C1 P1 S1|fr rest M1 F1 P1 S1].
      - destruct O as [EF _|s1 loc EF X _].
        + eapply eff_mon01; eauto.
        + subst. destruct (eff_mon01 _ _ _ EF MM) as (m1 & l & A). exists m1, l. exact A.
      - subst. specialize (NP _ eq_refl). congruence.
      - subst. exists m, []. rewrite !app_nil_r. repeat split; auto. }
    destruct G as (m1 & l & A & B & C & D & F & G & K).
    exists m1. split; auto. eapply R01_eff; eauto.
    intros _ (c0 & -> & C0 & _). specialize (NP _ eq_refl). congruence.
Qed.

(* ------------------------------------------------------------------ *)
(** * Items run by Stakker::run *)

Lemma run_item_mainq c s pre s' : run_item c s = (pre, s') -> mainq s' = mainq s /\ dk s' = dk s.
Proof.
  unfold run_item. destruct c as [u i kd caps q]. destruct kd; repeat dest_match; intros E; inversion E; subst; auto.
Qed.

Lemma wuids_norun l : Forall okdrop l -> (forall x, In x l -> match x with MRunItem _ => False | _ => True end) -> wuids l = [].
Proof.
  intros F H. induction F; simpl; auto. rewrite IHF by (intros y Hy; apply H; right; auto). rewrite app_nil_r.
  specialize (H x (or_introl eq_refl)). destruct x; simpl; auto; try contradiction.
  simpl in H0. unfold item_uids, pmain. destruct H0 as [G|G]; rewrite G; simpl; auto. rewrite andb_false_r. reflexivity.
Qed.

Lemma R01_run_phase m k s :
  R01 m k s -> (exists p, phase_of k = Some p /\ is_run p = true) ->
  exists L, (dk s = DGlobal -> L = []) /\ m_pend m = wuids (work_of k) ++ quids (mainq s) /\ m_limbo m = L /\ m_tear m = false.
Proof.
  intros (L & LD & R) (p & PH & RU). exists L. split; auto. rewrite PH in R. destruct p; try discriminate RU; auto.
  destruct R as (A & B & C & D). auto.
Qed.

Lemma R01_run_intro m k s L p :
  phase_of k = Some p -> is_run p = true -> (dk s = DGlobal -> L = []) ->
  m_pend m = wuids (work_of k) ++ quids (mainq s) -> m_limbo m = L -> m_tear m = false ->
  (forall b t, p = PRunIdle b t -> work_of k = []) -> R01 m k s.
Proof.
  intros PH RU LD A B C D. exists L. split; auto. rewrite PH. destruct p; try discriminate RU; auto.
  repeat split; auto. eapply D; eauto.
Qed.

Lemma cons_neq {X} (x : X) l : x :: l = l -> False.
Proof. intros H. apply (f_equal (@length X)) in H. simpl in H. lia. Qed.

Lemma I01_runish mo k0 s pre s' :
  shape (mo :: k0) -> Tags (mo :: k0) s ->
  is_work mo = true -> runish mo = true -> handle mo s = (pre, s') -> I01 (mo :: k0) s -> I01 (pre ++ k0) s'.
Proof.
  intros SH T W RN E [FL|(m & MM & R)].
  { eapply I01_flag; eauto. eapply handle_ext; eauto. }
  right.
  destruct (handle_work _ _ _ _ W E) as [PW _].
  destruct (work_step_phase mo k0 pre W PW) as [X [Y Z]].
  pose proof SH as [p [PH RU]]. rewrite Y in RU. simpl in RU. rewrite RN in RU. specialize (RU eq_refl).
  destruct (R01_run_phase _ _ _ R (ex_intro _ p (conj PH RU))) as (L & LD & R1 & R2 & R3).
  rewrite Y in R1.
  pose proof T as T'. apply Tags_split in T' as [QT WT].
  pose proof (handle_ok _ _ _ _ W QT E) as OK.
  assert (PH' : phase_of (pre ++ k0) = Some p) by congruence.
  assert (NI : forall b t, p = PRunIdle b t -> work_of (pre ++ k0) = []).
  { intros b t ->. exfalso. destruct R as (L0 & _ & R). rewrite PH in R. destruct R as (_ & _ & _ & R4). rewrite Y in R4. discriminate. }
  destruct mo; try discriminate RN.
  - (* MEndBody *)
    assert (WU : wuids pre = []). { apply wuids_norun; auto. intros x Hx. eapply endbody_norun; eauto. }
    destruct (endbody_ev _ _ _ _ _ E) as (_ & _ & TR).
    assert (MQ : mainq s' = mainq s /\ dk s' = dk s).
    { simpl in E. destruct (frames s); inversion E; subst; auto. }
    destruct MQ as [MQ DK].
    exists m. split. destruct TR as [TR|TR]; rewrite TR; simpl; rewrite MM; reflexivity.
    apply (R01_run_intro _ _ _ L p PH' RU); [rewrite DK; exact LD | | simpl; auto | simpl; auto | exact NI]. rewrite Z, wuids_app, WU, MQ. simpl. exact R1.
  - (* MRunItem *)
    simpl in E.
    assert (WU : wuids pre = []). { apply wuids_norun; auto. intros x Hx. eapply run_item_norun; eauto. }
    destruct (run_item_mainq _ _ _ _ E) as [MQ DK].
    destruct (run_item_ev _ _ _ _ E) as (_ & _ & evs & TR & SE).
    simpl in R1.
    unfold work_tags in WT. rewrite PH, Y in WT.
    destruct SE; rewrite TR; simpl; rewrite MM.
    + (* no event: a call held, discarded ... *)
      assert (IU : item_uids c = []).
      { clear - E TR. unfold run_item in E. destruct c as [u i kd caps q]. destruct kd; try (apply call_uids; reflexivity).
        inversion E; subst. simpl in TR. exfalso. eapply cons_neq; eauto. }
      exists m. split; auto. apply (R01_run_intro _ _ _ L p PH' RU); [rewrite DK; exact LD | | simpl; auto | simpl; auto | exact NI].
      rewrite Z, wuids_app, WU, MQ. simpl. rewrite IU in R1. exact R1.
    + assert (IU : item_uids c = []).
      { clear - E H TR. unfold run_item in E. destruct c as [u i kd caps q]. destruct kd; try (apply call_uids; reflexivity).
        inversion E; subst. simpl in TR. inversion TR; subst. simpl in H. discriminate. }
      exists m. split. apply step01_quiet; auto. apply (R01_run_intro _ _ _ L p PH' RU); [rewrite DK; exact LD | | simpl; auto | simpl; auto | exact NI].
      rewrite Z, wuids_app, WU, MQ. simpl. rewrite IU in R1. exact R1.
    + (* a plain closure starts *)
      assert (TG : (exists q, ci_sq c = Some q /\ q <> QMain /\ item_uids c = []) \/ (ci_sq c = Some QMain /\ item_uids c = [ci_uid c])).
      { unfold item_uids, pmain. rewrite H. simpl. destruct p; try discriminate RU.
        - exfalso. destruct R as (L0 & _ & R). rewrite PH in R. destruct R as (_ & _ & _ & R4). rewrite Y in R4. discriminate.
        - apply idle_work_runitem in WT as [_ [_ TQ]]. rewrite TQ. left. exists QIdle. repeat split; auto. discriminate.
        - inversion WT as [|? ? LI WT']; subst. destruct (LI H) as [S|[S|S]]; rewrite S; auto;
            left; eexists; repeat split; eauto; discriminate. }
      destruct TG as [(q & SQ & NQ & IU)|[SQ IU]]; rewrite SQ; rewrite IU in R1.
      * exists m. split. simpl. rewrite R3. destruct q; try congruence; reflexivity.
        apply (R01_run_intro _ _ _ L p PH' RU); [rewrite DK; exact LD | | simpl; auto | simpl; auto | exact NI]. rewrite Z, wuids_app, WU, MQ. simpl. exact R1.
      * eexists. split. simpl. rewrite R3, R1. simpl. rewrite N.eqb_refl. reflexivity.
        apply (R01_run_intro _ _ _ L p PH' RU); [rewrite DK; exact LD | | simpl; auto | simpl; auto | exact NI]. simpl. rewrite Z, wuids_app, WU, MQ. reflexivity.
    + exists m. split. simpl. rewrite R3. reflexivity. apply (R01_run_intro _ _ _ L p PH' RU); [rewrite DK; exact LD | | simpl; auto | simpl; auto | exact NI].
      rewrite Z, wuids_app, WU, MQ. simpl. rewrite call_uids in R1; auto.
    + exists m. split. simpl. rewrite R3. reflexivity. apply (R01_run_intro _ _ _ L p PH' RU); [rewrite DK; exact LD | | simpl; auto | simpl; auto | exact NI].
      rewrite Z, wuids_app, WU, MQ. simpl. rewrite call_uids in R1; auto.
  - (* MToReady *)
    assert (EV : mainq s' = mainq s /\ dk s' = dk s /\ exists e, tr s' = e :: tr s /\ quiet_ev e = true).
    { simpl in E. destruct (aget (actors s) a) as [x|]; [destruct (a_state x)|]; inversion E; subst;
        repeat split; auto; eexists; split; reflexivity. }
    destruct EV as (MQ & DK & e & TR & QE).
    assert (WU : wuids pre = []).
    { simpl in E. destruct (aget (actors s) a) as [x|] eqn:AX; [destruct (a_state x) eqn:SX|]; inversion E; subst; auto.
      rewrite wuids_runitems. apply quids_calls. eapply held_calls; eauto. }
    exists m. split. rewrite TR. simpl. rewrite MM. apply step01_quiet; auto.
    apply (R01_run_intro _ _ _ L p PH' RU); [rewrite DK; exact LD | | simpl; auto | simpl; auto | exact NI]. rewrite Z, wuids_app, WU, MQ. simpl. exact R1.
Qed.

(* ------------------------------------------------------------------ *)
(** * Phase and top-level micro-ops *)

Lemma quids_main_batch l : quids (l) = wuids (map MRunItem l).
Proof. symmetry. apply wuids_runitems. Qed.

Lemma fmop_items (q : qk) l : q <> QMain -> Forall (tagged q) l -> Forall fmop (map MDropItem l).
Proof.
  intros N F. induction F; simpl; constructor; auto. destruct H as [A B]. exists x. repeat split; auto. exists q. auto.
Qed.

Lemma Forall_tagged_sorted l : Forall (tagged QTimer) (map ti_ci l) -> Forall (tagged QTimer) (map ti_ci (ti_sort l)).
Proof. rewrite !Forall_map. apply Forall_ti_sort. Qed.

Lemma monr_ignored01 (P : ev -> Prop) m evs t :
  (forall e, P e -> step01 m e = Some m) -> Forall P evs ->
  monr step01 i01 t = Some m -> monr step01 i01 (evs ++ t) = Some m.
Proof. intros H F M. induction F; simpl; auto. rewrite IHF. auto. Qed.

(* the translated drain bound of core.rs is (at least) the bound in the definition of class DropDepth99 *)
Lemma rounds_in_class i : (i >=? TEARDOWN_ROUNDS) = true -> (i >=? F4_CLASS_ROUNDS) = true.
Proof.
  assert (H : F4_CLASS_ROUNDS <= TEARDOWN_ROUNDS) by (vm_compute; discriminate).
  rewrite !Z.geb_leb. intros G. apply Z.leb_le in G. apply Z.leb_le. lia.
Qed.

Lemma I01_phase mo k0 s pre s' :
  shape (mo :: k0) -> Tags (mo :: k0) s -> is_work mo = false -> handle mo s = (pre, s') ->
  I01 (mo :: k0) s -> I01 (pre ++ k0) s'.
Proof.
  intros SH T W E [FL|(m & MM & (L & LD & R))].
  { eapply I01_flag; eauto. eapply handle_ext; eauto. }
  apply Tags_split in T as [Q _]. pose proof Q as [QA QB QC QD QH].
  destruct SH as [p [PH _]]. rewrite PH in R.
  assert (WO : work_of (mo :: k0) = []) by (simpl; rewrite W; reflexivity). rewrite WO in R. simpl in R.
  unfold phase_of in PH. simpl in PH. rewrite W in PH.
  destruct mo; try discriminate W; simpl in E.
  - (* MTop *)
    simpl in PH. destruct (tops k0) eqn:T; [|discriminate]. inversion PH; subst p. destruct R as (R1 & R2 & R3).
    assert (TP : forall w, forallb is_work w = true -> phase_of (w ++ k0) = Some PTop /\ work_of (w ++ k0) = w).
    { intros w Hw. split. rewrite phase_of_work, tops_phase; auto. rewrite work_of_app, tops_work_of, app_nil_r; auto. }
    unfold do_top in E. destruct o.
    + (* TNew *)
      right. exists m. destruct (alive s); inversion E; subst pre s'; (split; [auto|]); exists L; (split; [auto|]);
        rewrite tops_phase, tops_work_of by (simpl; auto); auto.
    + (* TRun *)
      right. destruct (alive s); [|unfold bad in E]; inversion E; subst pre s'.
      * exists m. split. simpl. rewrite MM. reflexivity. exists L. split; auto.
        unfold phase_of. simpl. rewrite Z.eqb_refl, T. simpl. repeat split; auto.
      * exists m. split. simpl. rewrite MM. reflexivity. exists L. split; auto. simpl.
        rewrite tops_phase, tops_work_of; auto.
    + (* TDo *)
      right. inversion E; subst pre s'. exists m. split; auto. exists L. split; auto.
      destruct (TP [MActs l; MPopFrame] eq_refl) as [P1 P2]. rewrite P1, P2. simpl. auto.
    + (* TDropStakker *)
      right. destruct (alive s); inversion E; subst pre s'.
      * eexists. split. simpl. rewrite MM. reflexivity. exists L. split; auto.
        unfold phase_of. simpl. rewrite T. simpl. repeat split; auto.
      * exists m. split; auto. exists L. split; auto. simpl. rewrite tops_phase, tops_work_of; auto.
    + right. inversion E; subst pre s'. exists m. split; auto. exists L. split; auto.
      rewrite tops_phase, tops_work_of by (simpl; auto). auto.
    + right. destruct (alive s); [|unfold bad in E]; inversion E; subst pre s'; exists m;
        (split; [simpl; rewrite MM; reflexivity|]); exists L; (split; [auto|]); simpl;
        rewrite tops_phase, tops_work_of; auto.
    + right. destruct (alive s); [|unfold bad in E]; inversion E; subst pre s'; exists m.
      * split. match goal with |- context [if ?b then _ else _] => destruct b end; simpl; rewrite MM; reflexivity.
        exists L. split. match goal with |- context [if ?b then _ else _] => destruct b end; auto.
        simpl. rewrite tops_phase, tops_work_of; auto.
        match goal with |- context [if ?b then _ else _] => destruct b end; auto.
      * split. simpl; rewrite MM; reflexivity. exists L. split; auto. simpl. rewrite tops_phase, tops_work_of; auto.
  - (* MNew *)
    simpl in PH. destruct (tops k0) eqn:T; [|discriminate]. inversion PH; subst p. destruct R as (R1 & R2 & R3).
    inversion E; subst pre s'. right.
    exists (mk01 [] (m_limbo m ++ m_pend m) false false). split. simpl. rewrite MM. reflexivity.
    destruct (dk s) eqn:DK.
    + exists []. split; auto.
      rewrite phase_of_work by apply work_map_dropitem. rewrite tops_phase by auto.
      rewrite work_of_app by apply work_map_dropitem. rewrite tops_work_of by auto. rewrite !app_nil_r.
      rewrite wuids_dropitems. simpl. rewrite R2, R1, (LD eq_refl). simpl. auto.
    + exists (L ++ quids (mainq s)). split. simpl. rewrite DK. discriminate.
      simpl. rewrite tops_phase, tops_work_of by auto. simpl. rewrite R2, R1. auto.
  - (* MRunIdle *)
    destruct k0 as [|m1 k1]; [discriminate|]. destruct m1; try discriminate PH.
    destruct k1 as [|m2 k2]; [discriminate|]. destruct m2; try discriminate PH.
    destruct ((t =? t0) && tops k2) eqn:T; [|discriminate]. inversion PH; subst p.
    destruct R as (R1 & R2 & R3 & R4).
    assert (PP : forall w, forallb is_work w = true -> phase_of (w ++ MRunMain t :: MLoop t0 :: k2) = Some (PRunMain t) /\
                           work_of (w ++ MRunMain t :: MLoop t0 :: k2) = w).
    { intros w Hw. split. rewrite phase_of_work; auto. unfold phase_of. simpl. rewrite T. reflexivity.
      rewrite work_of_app by auto. simpl. apply app_nil_r. }
    right. exists m. destruct idle; [destruct (idleq s) as [|c r] eqn:IQ|]; inversion E; subst pre s'; (split; [auto|]); exists L; (split; [auto|]).
    + destruct (PP [] eq_refl) as [P1 P2]. rewrite P1, P2. auto.
    + destruct (PP [MRunItem c] eq_refl) as [P1 P2]. rewrite P1, P2. simpl.
      destruct (tags_idle_pop _ _ _ Q IQ) as [_ [TC TQ]]. unfold item_uids, pmain. rewrite TQ, andb_false_r. simpl. auto.
    + destruct (PP [] eq_refl) as [P1 P2]. rewrite P1, P2. auto.
  - (* MRunMain *)
    destruct k0 as [|m1 k1]; [discriminate|]. destruct m1; try discriminate PH.
    destruct ((t =? t0) && tops k1) eqn:T; [|discriminate]. apply andb_prop in T as [_ T]. inversion PH; subst p.
    destruct R as (R1 & R2 & R3).
    assert (PP : forall l, phase_of (map MRunItem l ++ MLoop t0 :: k1) = Some (PLoop t0) /\
                           work_of (map MRunItem l ++ MLoop t0 :: k1) = map MRunItem l).
    { intros l. split. rewrite phase_of_work by apply work_map_runitem. unfold phase_of. simpl. rewrite T. reflexivity.
      rewrite work_of_app by apply work_map_runitem. simpl. apply app_nil_r. }
    right. exists m. destruct (t >? now s) eqn:GT; inversion E; subst pre s'; clear E.
    + split. destruct (ambiguous _); simpl; rewrite MM; reflexivity.
      exists L. split. destruct (ambiguous _); auto.
      destruct (PP (mainq s ++ map ti_ci (ti_sort (filter (ti_due t) (timers s))))) as [P1 P2]. rewrite P1, P2.
      rewrite wuids_runitems, quids_app.
      rewrite (quids_tagged QTimer (map ti_ci (ti_sort (filter (ti_due t) (timers s))))); [|discriminate|].
      * destruct (ambiguous _); simpl; rewrite !app_nil_r; auto.
      * apply Forall_tagged_sorted. rewrite Forall_map in *. apply Forall_filter. auto.
    + split; auto. exists L. split; auto.
      destruct (PP (mainq s)) as [P1 P2]. rewrite P1, P2. rewrite wuids_runitems. simpl. rewrite app_nil_r. auto.
  - (* MLoop *)
    destruct (tops k0) eqn:T; [|discriminate]. inversion PH; subst p. destruct R as (R1 & R2 & R3).
    assert (PP : forall l, phase_of ((map MRunItem l ++ [MLoop t]) ++ k0) = Some (PLoop t) /\
                           work_of ((map MRunItem l ++ [MLoop t]) ++ k0) = map MRunItem l).
    { intros l. rewrite <- app_assoc. simpl. split. rewrite phase_of_work by apply work_map_runitem. unfold phase_of. simpl. rewrite T. reflexivity.
      rewrite work_of_app by apply work_map_runitem. simpl. apply app_nil_r. }
    right.
    destruct (mainq s) as [|c l] eqn:M.
    + destruct (lazyq s) as [|c l] eqn:LQ.
      * inversion E; subst pre s'. exists m. split.
        -- destruct (t >? recreate s); simpl; rewrite MM; simpl; rewrite R1; reflexivity.
        -- exists L. split. destruct (t >? recreate s); auto. simpl. rewrite tops_phase, tops_work_of by auto.
           destruct (t >? recreate s); simpl; rewrite ?M; auto.
      * inversion E; subst pre s'. exists m. split; auto. exists L. split; auto.
        change (MRunItem c :: map MRunItem l ++ [MLoop t]) with (map MRunItem (c :: l) ++ [MLoop t]).
        destruct (PP (c :: l)) as [P1 P2]. rewrite P1, P2. rewrite wuids_runitems.
        rewrite (quids_tagged QLazy (c :: l)); auto; [|discriminate]. simpl. rewrite M. auto.
    + inversion E; subst pre s'. exists m. split; auto. exists L. split; auto.
      change (MRunItem c :: map MRunItem l ++ [MLoop t]) with (map MRunItem (c :: l) ++ [MLoop t]).
      destruct (PP (c :: l)) as [P1 P2]. rewrite P1, P2. rewrite wuids_runitems. simpl. rewrite app_nil_r. auto.
  - (* MDrain *)
    destruct (tops k0) eqn:T; [|discriminate]. inversion PH; subst p. destruct R as (R1 & R2 & R3 & R4).
    destruct (i >=? TEARDOWN_ROUNDS) eqn:GE.
    + inversion E; subst pre s'. destruct (mainq s) as [|c l] eqn:M; simpl.
      * right. exists m. split; auto. exists L. split; auto.
        unfold phase_of. simpl. rewrite T. simpl. rewrite M. repeat split; auto.
      * (* the loop gave up: with the translated bound this is exactly the class of F4 *)
        left. left. rewrite (rounds_in_class i GE). reflexivity.
    + destruct (mainq s) as [|c l] eqn:M; inversion E; subst pre s'; right; exists m; (split; [auto|]); exists L; (split; [auto|]).
      * unfold phase_of. simpl. rewrite T. simpl. rewrite M. repeat split; auto.
      * match goal with |- context [phase_of ?k] => replace k with (map MDropItem (c :: l) ++ MDrain (i + 1) :: k0)
          by (simpl; rewrite <- app_assoc; reflexivity) end.
        rewrite phase_of_work by apply work_map_dropitem. unfold phase_of. simpl. rewrite T.
        rewrite work_of_app by apply work_map_dropitem. simpl work_of. rewrite !app_nil_r.
        rewrite wuids_dropitems. rewrite R1. simpl. rewrite ?app_nil_r. auto.
  - (* MDropFields *)
    destruct (tops k0) eqn:T; [|discriminate]. inversion PH; subst p. destruct R as (R1 & R2 & R3 & R4 & R5 & R6).
    inversion E; subst pre s'. right. exists m. split.
    + destruct (ambiguous (timers s)); simpl; rewrite MM; reflexivity.
    + exists L. split. destruct (ambiguous (timers s)); auto.
      rewrite <- app_assoc. simpl. rewrite phase_of_work by apply work_map_dropitem. unfold phase_of. simpl. rewrite T.
      rewrite work_of_app by apply work_map_dropitem. simpl work_of. rewrite app_nil_r.
      assert (FM : Forall fmop (map MDropItem (lazyq s ++ idleq s ++ map ti_ci (ti_sort (timers s))))).
      { rewrite !map_app. apply Forall_app; split; [|apply Forall_app; split].
        - eapply fmop_items; [|exact QB]. discriminate.
        - eapply fmop_items; [|exact QC]. discriminate.
        - eapply fmop_items; [|apply Forall_tagged_sorted; exact QD]. discriminate. }
      assert (WZ : wuids (map MDropItem (lazyq s ++ idleq s ++ map ti_ci (ti_sort (timers s)))) = []).
      { rewrite wuids_dropitems, !quids_app.
        rewrite (quids_tagged QLazy), (quids_tagged QIdle), (quids_tagged QTimer); auto; try discriminate.
        apply Forall_tagged_sorted; auto. }
      destruct (ambiguous (timers s)); simpl; rewrite WZ; simpl; (repeat split; auto; right; split; auto).
  - (* MDropEnd *)
    destruct (tops k0) eqn:T; [|discriminate]. inversion PH; subst p. destruct R as (R1 & R2 & R3 & R4).
    inversion E; subst pre s'. right.
    assert (G : (m_fields m || nil_b (m_pend m)) = true).
    { destruct R4 as [R4|[R4 _]]; [rewrite R4; reflexivity | rewrite R4; apply orb_true_r]. }
    exists (mk01 (m_pend m) (m_limbo m) false false). split.
    + destruct (is_nil (mainq s)); simpl; rewrite MM; simpl; unfold guard; rewrite G; reflexivity.
    + exists L. split. destruct (is_nil (mainq s)); auto.
      simpl. rewrite tops_phase, tops_work_of by auto. simpl. destruct (is_nil (mainq s)); simpl; auto.
  - (* MDropAll *)
    simpl in PH. destruct (tops k0) eqn:T; [|discriminate]. inversion PH; subst p. destruct R as (R1 & R2 & R3).
    right. exists m. destruct (amin (env s)) as [[h v]|]; inversion E; subst pre s'; (split; [auto|]); exists L; (split; [auto|]).
    + assert (P1 : phase_of ([MDropVal v; MDropAll] ++ k0) = Some PTop).
      { change ([MDropVal v; MDropAll] ++ k0) with ([MDropVal v] ++ (MDropAll :: k0)).
        rewrite phase_of_work by reflexivity. apply tops_phase. simpl. auto. }
      assert (P2 : work_of ([MDropVal v; MDropAll] ++ k0) = [MDropVal v]) by reflexivity.
      rewrite P1, P2. simpl. auto.
    + simpl. rewrite tops_phase, tops_work_of by auto. auto.
  - (* MEpilogue *)
    simpl in PH. destruct (tops k0) eqn:T; [|discriminate]. inversion PH; subst p. destruct R as (R1 & R2 & R3).
    inversion E; subst pre s'. right. exists m. split. simpl. rewrite MM. reflexivity. exists L. split; auto.
    rewrite tops_phase, tops_work_of by (simpl; auto). auto.
  - (* MLeaks *)
    simpl in PH. destruct (tops k0) eqn:T; [|discriminate]. inversion PH; subst p. destruct R as (R1 & R2 & R3).
    inversion E; subst pre s'. right.
    destruct (class_flags_tr s) as (evs & A & B & C & D).
    exists m. split.
    + simpl. eapply monr_ignored01 with (P := fun e => exists k i, e = ELeak k i).
      * intros e (k & i & ->). reflexivity.
      * unfold leaks. rewrite <- map_rev. apply Forall_forall. intros x Hx. apply in_map_iff in Hx as [y [<- _]]. eauto.
      * rewrite A. eapply monr_ignored01 with (P := fun e => exists c a, e = EModel c a /\ c <> M_DRAINLEFT); eauto.
        intros e (c & a & -> & _). reflexivity.
    + exists L. split.
      * unfold class_flags. simpl.
        assert (DKF : forall (f : N * actor -> option ev) l s0, dk (fold_left (fun s1 p0 => emit_opt s1 (f p0)) l s0) = dk s0).
        { intros f l. induction l; simpl; intros s0; auto. rewrite IHl. unfold emit_opt. destruct (f a); reflexivity. }
        rewrite DKF. auto.
      * simpl. rewrite tops_phase, tops_work_of by auto.
        assert (MQF : forall (f : N * actor -> option ev) l s0, mainq (fold_left (fun s1 p0 => emit_opt s1 (f p0)) l s0) = mainq s0).
        { intros f l. induction l; simpl; intros s0; auto. rewrite IHl. unfold emit_opt. destruct (f a); reflexivity. }
        unfold class_flags. rewrite MQF. auto.
Qed.

(* ------------------------------------------------------------------ *)
(** * The theorem *)

Theorem step_I01 k s k' s' :
  shape k -> Tags k s -> drop_tags k -> I01 k s -> step k s = Some (k', s') -> I01 k' s'.
Proof.
  intros SH T DT I H. destruct k as [|mo k0]; [discriminate|]. simpl in H.
  destruct (handle mo s) as [pre s1] eqn:E. inversion H; subst; clear H.
  destruct (qmop mo) eqn:QM. { eapply I01_qmop; eauto. }
  destruct (is_work mo) eqn:W.
  - assert (R : runish mo = true). { unfold qmop in QM. rewrite W in QM. simpl in QM. apply negb_false_iff in QM. auto. }
    eapply I01_runish; eauto.
  - eapply I01_phase; eauto.
Qed.

Lemma I01_init d p : I01 (map MTop p ++ [MEpilogue]) (init d).
Proof.
  right. exists i01. split; [reflexivity|]. exists []. split; auto.
  assert (TP : tops (map MTop p ++ [MEpilogue]) = true).
  { unfold tops. rewrite forallb_app. simpl. rewrite andb_true_r. induction p; simpl; auto. }
  rewrite tops_phase, tops_work_of; auto.
Qed.

Lemma run_inv01 fuel : forall k s t,
  shape k -> Tags k s -> drop_tags k -> I01 k s -> run fuel k s = Done t ->
  exists s', t = rev (tr s') /\ (In flag (tr s') \/ exists m, monr step01 i01 (tr s') = Some m).
Proof.
  induction fuel as [|f IH]; intros k s t SH T DT I H; simpl in H.
  - destruct k; [|discriminate]. inversion H; subst. exists s. split; auto.
    destruct I as [F|(m & MM & _)]; eauto.
  - destruct (step k s) as [[k' s']|] eqn:ST.
    + eapply IH; [ eapply step_shape; eauto | eapply step_tags; eauto | eapply step_drop_tags; eauto
                 | eapply step_I01; eauto | exact H ].
    + inversion H; subst. exists s. split; auto. destruct I as [F|(m & MM & _)]; eauto.
Qed.

(** C01 for every program outside the class of known finding F4 (DropDepth99): the class is decided by the
    model on the program -- the drain loop of Stakker::drop gave up with closures still queued. *)
Theorem C01_proved : forall (d : dkind) (p : list top) (fuel : nat) (t : list ev),
  exec d fuel p = Done t -> ~ In (EModel M_DRAINLEFT 0) t -> C01_ok t = true.
Proof.
  intros d p fuel t H NF. unfold exec in H.
  destruct (run_inv01 fuel _ _ _ (shape_init p) (tags_init d p) (drop_tags_init p) (I01_init d p) H) as (s' & -> & [F|(m & MM)]).
  - exfalso. apply NF. apply in_rev in F. exact F.
  - unfold C01_ok. rewrite fold_mon_rev, MM. reflexivity.
Qed.

(* The witness of F4 at model level, symbolic in spirit but small enough to compute: with the round bound
   of the generated TEARDOWN_ROUNDS the chain needs 100 closures; the statement is checked by vm_compute in
   Props/C01.v on the corpus witness.  Here: the class predicate is not vacuous -- a clean program is outside. *)
Example C01_nontrivial :
  exists t, exec DGlobal 300 [TNew 0; TDo [ADefer (Clo 1 0 0 [] [ADefer (Clo 2 0 0 [] []); ALazy (Clo 3 0 0 [] [])]);
                                         ADeferD (Clo 4 0 0 [] [])]; TRun 2 false; TDo [ADefer (Clo 5 0 0 [] [])]] = Done t
            /\ ~ In (EModel M_DRAINLEFT 0) t /\ In (ERun 3%N 2 QMain) t /\ In (EDrop 5%N (Some QMain) false) t.
Proof.
  eexists. split; [vm_compute; reflexivity|]. split.
  - intros H. simpl in H. repeat (destruct H as [H|H]; [discriminate H|]). exact H.
  - split; simpl; tauto.
Qed.

(* ------------------------------------------------------------------ *)
(** * Known finding F4 at model level: the class is not empty and C01 fails in it *)

Fixpoint f4_toks (k : nat) (n : N) : list act :=
  match k with
  | O => []
  | S k' => let i := N.of_nat k in
            ANewTok i i [Clo (i + 1) 0 0 (if N.ltb i n then [(i + 1)%N] else []) []] :: f4_toks k' n
  end.

(* closures c1..c100; dropping c_i un-run drops token T_i whose Drop defers c_(i+1) *)
Definition f4_prog : list top :=
  [TNew 0; TDo (f4_toks 99 99 ++ [ADefer (Clo 1 0 0 [1%N] [])]); TDropStakker].

Definition has_flag (t : list ev) : bool :=
  existsb (fun e => match e with EModel c _ => N.eqb c M_DRAINLEFT | _ => false end) t.

Lemma F4_refuted_model :
  exists t, exec DGlobal 3000 f4_prog = Done t /\ has_flag t = true /\ C01_ok t = false.
Proof. eexists. split; [vm_compute; reflexivity|]. split; vm_compute; reflexivity. Qed.
