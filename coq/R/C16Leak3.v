(** Layer R proofs: C16, the leak conjunct -- part 3: the exact census (global / thread-local deferrer) and the
    final-configuration theorems.

    - [BE]: for closure instances, user Rets, notifiers and actor values the conservation law of [LinLaw.v] is an
      equality along every run with the global deferrer: occurrences in the configuration = created - consumed;
    - [final_state]: the configuration in which the leak report is computed;
    - [leak_located]: every reported leak of these four kinds is an object sitting in the final main queue
      (parked closures) or in an actor cell that was not freed;
    - [no_lin_leak], [no_leak_settled]: nothing leaks when the run creates no actor and the last flush round of the
      epilogue parks nothing (both decidable on the trace). *)
From Coq Require Import ZArith NArith List Bool Lia.
From Stk Require Import Lib.U Gen.SrcCount Gen.SrcCore Gen.SrcLog R.Syntax R.Rt R.Mon R.Shape R.Eff R.LinTail R.Lin R.LinAct R.LinLaw R.LinStep R.LinLive R.LinOnce R.C16Proofs R.Nest R.C16Leak R.C16Leak2.
Import ListNotations.
Local Open Scope Z_scope.

Definition lin_kind (x : res) : bool := match x with RClo _ | RRet _ | RNot _ | RVal _ => true | _ => false end.

Lemma emb_lin x m : lin_kind x = true -> emb x m = 0.
Proof.
  intros K. destruct m; simpl; try reflexivity. destruct r as [rid [| | | |]]; try reflexivity;
    destruct x; try discriminate K; apply ind_neq; discriminate.
Qed.

Lemma cnu_lin x n : lin_kind x = true -> cnu x n = 0.
Proof. destruct x; try discriminate; reflexivity. Qed.

Lemma tok_lin x q : tok x = Some q -> lin_kind x = true.
Proof. destruct x; try discriminate; reflexivity. Qed.

Lemma tok_notfr x q : tok x = Some q -> notfr x.
Proof. destruct x; try discriminate; intros _; exact I. Qed.

(** the exact census *)
Definition BE (k : list mop) (s : st) : Prop := forall x, lin_kind x = true -> bal x k s = 0.

Lemma step_BE k s k' s' : Lin k s -> dk s = DGlobal -> BE k s -> step k s = Some (k', s') -> BE k' s'.
Proof.
  intros L DG B H x LK. destruct k as [|m k0]; [discriminate|]. simpl in H.
  destruct (handle m s) as [pre s1] eqn:E. inversion H; subst; clear H.
  specialize (B x LK). unfold bal in *. rewrite cmops_app. simpl in B.
  assert (D : (exists t, m = MNew t) \/ forall t, m <> MNew t).
  { destruct m; try (right; intros t0 Q; discriminate Q). left; eauto. }
  destruct D as [[t ->]|NN].
  - pose proof (new_law _ _ _ _ x E) as G. rewrite DG in G. simpl in *. lia.
  - pose proof (handle_law _ _ _ _ x (Lin_NB _ _ _ L) NN E) as G. rewrite (emb_lin _ _ LK) in G. lia.
Qed.

Lemma BE_init d p : BE (map MTop p ++ [MEpilogue]) (init d).
Proof. intros x K. unfold bal. rewrite cmops_tops. unfold W, cst. simpl. rewrite (cnu_lin _ _ K). lia. Qed.

(* ------------------------------------------------------------------ *)
(** * Everything that holds in every reachable configuration *)

Lemma phase_nl m s pre s' : is_phase m = true -> handle m s = (pre, s') -> nlk (tr s) = true -> nlk (tr s') = true.
Proof.
  intros P H N. destruct m; try discriminate P; cbn [handle] in H; unfold fire in *;
    repeat (revert H; dest_match; intros H); inversion H; subst; repeat dest_match; exact N.
Qed.

Record INV (k : list mop) (s : st) : Prop := mkINV {
  i_shape : shape k;
  i_fl : FL k s;
  i_tail : Tail k s;
  i_si : SI k s;
  i_lin : Lin k s;
  i_suf : sufok (tr s);
  i_wf : WF k s;
  i_nl : k <> [] -> nlk (tr s) = true }.

Lemma INV_init d p : INV (map MTop p ++ [MEpilogue]) (init d).
Proof.
  split.
  - apply shape_init.
  - apply FL_init.
  - apply Tail_init.
  - apply SI_init.
  - apply Lin_init.
  - intros t1 t2 EQ x NF. simpl in EQ. destruct t1; [|discriminate]. destruct t2; [|discriminate]. simpl. lia.
  - apply WF_init.
  - intros _. reflexivity.
Qed.

Lemma step_INV k s k' s' : INV k s -> step k s = Some (k', s') -> INV k' s'.
Proof.
  intros [SH F T S L SU W NL] H. split.
  - eapply step_shape; eauto.
  - eapply step_FL; eauto.
  - eapply step_Tail; eauto.
  - eapply step_SI; eauto.
  - eapply step_Lin; eauto.
  - eapply step_sufok; eauto.
  - eapply step_WF; eauto.
  - intros NE. destruct k as [|m k0]; [discriminate|]. specialize (NL ltac:(discriminate)). simpl in H.
    destruct (handle m s) as [pre s1] eqn:E. inversion H; subst; clear H.
    destruct (is_phase m) eqn:P; [eapply phase_nl; eauto|].
    assert (ML : m = MLeaks \/ m <> MLeaks) by (destruct m; auto; right; discriminate).
    destruct ML as [->|NLK].
    + destruct (Tail_leaks _ _ T) as (-> & _ & _). cbn [handle] in E. inversion E; subst. exfalso. apply NE. reflexivity.
    + apply (r_nl _ _ (handle_R _ _ _ _ P NLK E) NL).
Qed.

Theorem reach_INV d p k s : LinStep.reach d p k s -> INV k s.
Proof. induction 1; [apply INV_init | eapply step_INV; eauto]. Qed.

Lemma step_dk k s k' s' : INV k s -> step k s = Some (k', s') -> dk s' = dk s.
Proof.
  intros [SH F T [M A D E0] L SU W NL] H. destruct k as [|m k0]; [discriminate|]. simpl in H.
  destruct (handle m s) as [pre s1] eqn:E. inversion H; subst; clear H.
  destruct (is_phase m) eqn:P.
  - apply (phase_step _ _ _ _ _ P E SH F M A D).
  - assert (ML : m = MLeaks \/ m <> MLeaks) by (destruct m; auto; right; discriminate).
    destruct ML as [->|NLK].
    + cbn [handle] in E. inversion E; subst. cbn [dk set_tr]. apply (r_dk _ _ (R_class_flags _ _ (R_refl s))).
    + apply (r_dk _ _ (handle_R _ _ _ _ P NLK E)).
Qed.

Lemma reach_dk d p k s : LinStep.reach d p k s -> dk s = d.
Proof.
  induction 1; [reflexivity|]. rewrite <- IHreach. eapply step_dk; eauto. eapply reach_INV; eauto.
Qed.

Theorem reach_BE p k s : LinStep.reach DGlobal p k s -> BE k s.
Proof.
  induction 1; [apply BE_init|]. eapply step_BE; eauto; [eapply reach_Lin; eauto | eapply reach_dk; eauto].
Qed.

(* ------------------------------------------------------------------ *)
(** * From a finished run back to the configuration of the leak report *)

Lemma run_nil f s : run f [] s = Done (rev (tr s)).
Proof. destruct f; reflexivity. Qed.

Lemma last_step k s s' : Tail k s -> step k s = Some ([], s') -> k = [MLeaks].
Proof.
  intros T H. destruct k as [|m k0]; [discriminate|]. simpl in H. destruct (handle m s) as [pre s1] eqn:E.
  inversion H as [[H1 H2]]. apply app_eq_nil in H1 as [-> ->].
  destruct T as [w K C|w K C|K _ _|K]; try discriminate.
  - destruct w as [|x [|y w]]; simpl in K; inversion K; subst. cbn [handle] in E. inversion E.
  - destruct w as [|x [|y w]]; simpl in K; inversion K.
  - exact K.
Qed.

Definition final_of (s : st) : list ev := rev (tr (snd (handle MLeaks s))).

Lemma run_reach d p fuel : forall k s t, LinStep.reach d p k s -> k <> [] -> run fuel k s = Done t ->
  exists s0, LinStep.reach d p [MLeaks] s0 /\ t = final_of s0.
Proof.
  induction fuel as [|f IH]; intros k s t RC NE H; simpl in H.
  - destruct k; [exfalso; apply NE; reflexivity | discriminate].
  - destruct (step k s) as [[k' s']|] eqn:ST.
    + destruct k' as [|m' k''].
      * pose proof (last_step _ _ _ (i_tail _ _ (reach_INV _ _ _ _ RC)) ST) as ->.
        rewrite run_nil in H. simpl in ST. inversion ST; subst s'. inversion H; subst. exists s. split; [exact RC | reflexivity].
      * eapply IH; [eapply LinStep.reach_step; eauto | discriminate | exact H].
    + destruct k as [|m k]; [exfalso; apply NE; reflexivity|]. simpl in ST. destruct (handle m s); discriminate ST.
Qed.

Theorem exec_final d p fuel t : exec d fuel p = Done t -> exists s, LinStep.reach d p [MLeaks] s /\ t = final_of s.
Proof.
  unfold exec. intros H. eapply run_reach; [apply LinStep.reach_init | | exact H].
  destruct (map MTop p); discriminate.
Qed.

(** (C)(i): the configuration in which the leak report is computed, for both deferrer kinds *)
Theorem final_state d p s : LinStep.reach d p [MLeaks] s ->
  alive s = false /\ env s = [] /\ frames s = [] /\ lazyq s = [] /\ idleq s = [] /\ timers s = [] /\
  (has_real (mainq s) = true -> sub_since_new (tr s) = true) /\ nlk (tr s) = true.
Proof.
  intros RC. destruct (reach_INV _ _ _ _ RC) as [SH F T S L SU W NL].
  destruct (Tail_leaks _ _ T) as (_ & EN & FR). destruct (SI_leaks _ S) as (AL & (L1 & L2 & L3) & M).
  repeat split; auto. apply NL. discriminate.
Qed.

(* ------------------------------------------------------------------ *)
(** * The leak report against the census *)

Lemma live_exact y q t : tok y = Some q -> sufok t -> cntp q (liveR t) = creT y t - conT y t.
Proof.
  intros T. induction t as [|e t IH]; intros S; [reflexivity|].
  specialize (IH (sufok_tail _ _ S)). pose proof (S [] (e :: t) eq_refl y (tok_notfr _ _ T)) as B. simpl in B.
  rewrite (tok_cre _ _ e T), (tok_con _ _ e T) in B.
  rewrite liveR_cons, cntp_upd_exact by (intros ?; lia). simpl. rewrite (tok_cre _ _ e T), (tok_con _ _ e T). lia.
Qed.

Definition is_model (e : ev) : bool := match e with EModel _ _ => true | _ => false end.

Lemma class_flag_ismodel all p e : class_flag all p = Some e -> is_model e = true.
Proof. intros H. destruct (class_flag_model' _ _ _ H) as (c & a & ->). reflexivity. Qed.

Lemma flags_tr s : exists fl, tr (class_flags s) = fl ++ tr s /\ forallb is_model fl = true.
Proof. exact (fold_flags_P is_model (class_flag (actors s)) (class_flag_ismodel (actors s)) (actors s) s). Qed.

Lemma liveR_models fl t : forallb is_model fl = true -> liveR (fl ++ t) = liveR t.
Proof.
  induction fl as [|e fl IH]; simpl; auto. intros H. apply andb_prop in H as [H1 H2].
  rewrite liveR_cons, (IH H2). destruct e; try discriminate H1. reflexivity.
Qed.

Lemma nlk_in t k i : nlk t = true -> ~ In (ELeak k i) t.
Proof. unfold nlk. intros H IN. rewrite forallb_forall in H. specialize (H _ IN). discriminate H. Qed.

Lemma nlk_models fl t : forallb is_model fl = true -> nlk t = true -> nlk (fl ++ t) = true.
Proof.
  unfold nlk. intros H N. rewrite forallb_app, N, andb_true_r. apply forallb_forall. intros e IN.
  rewrite forallb_forall in H. specialize (H _ IN). destruct e; try discriminate H; reflexivity.
Qed.

(* the reported leaks are exactly the live tokens of the trace before the report *)
Lemma final_leak s k i : nlk (tr s) = true -> In (ELeak k i) (final_of s) -> In (k, i) (liveR (tr s)).
Proof.
  intros N IN. unfold final_of in IN. cbn [handle snd tr set_tr] in IN. apply in_rev in IN.
  destruct (flags_tr s) as (fl & TR & FM). apply in_app_or in IN as [IN|IN].
  - apply in_rev in IN. unfold leaks in IN. apply in_map_iff in IN as ([k' i'] & Q & IN). simpl in Q. inversion Q; subst.
    fold (liveR (tr (class_flags s))) in IN. rewrite TR, (liveR_models _ _ FM) in IN. exact IN.
  - exfalso. rewrite TR in IN. exact (nlk_in _ _ _ (nlk_models _ _ FM N) IN).
Qed.

(** (C)(ii): with the global deferrer every reported leak of a closure instance / user Ret / notifier / actor value
    is an object of the final main queue or of an actor cell *)
Theorem leak_located p s x k i : LinStep.reach DGlobal p [MLeaks] s -> tok x = Some (k, i) ->
  In (ELeak k i) (final_of s) -> 1 <= cq x (mainq s) + cacts x (actors s).
Proof.
  intros RC T IN. destruct (final_state _ _ _ RC) as (AL & EN & FR & L1 & L2 & L3 & _ & N).
  pose proof (final_leak _ _ _ N IN) as LV. apply cntp_in in LV.
  rewrite (live_exact x _ _ T (i_suf _ _ (reach_INV _ _ _ _ RC))) in LV.
  pose proof (reach_BE _ _ _ RC x (tok_lin _ _ T)) as B. unfold bal, W, cst in B. simpl in B.
  rewrite EN, FR, L1, L2, L3, (cnu_lin _ _ (tok_lin _ _ T)) in B. simpl in B. lia.
Qed.

(* ------------------------------------------------------------------ *)
(** * Nothing leaks: no actor created, last flush round quiet *)

(* [t] oldest first: no closure is submitted after the last [Core::new] *)
Definition settled (t : list ev) : bool := negb (sub_since_new (rev t)).
Definition no_actor (t : list ev) : bool := forallb (fun e => match e with EActor _ => false | _ => true end) t.
Definition simple16 (t : list ev) : bool :=
  forallb (fun e => match e with ETokNew _ | EFwdNew _ | EOrphNew _ => false | _ => true end) t.

Lemma cq_pos_real x l : 0 < cq x l -> has_real l = true.
Proof.
  induction l as [|c l IH]; simpl; [lia|]. intros H. destruct (realk (ci_kind c)) eqn:K; [reflexivity|].
  rewrite (cci_unreal _ _ K) in H. simpl. apply IH. lia.
Qed.

Definition skipev (e : ev) : bool := match e with ENew _ | ESub _ _ _ => false | _ => true end.

Lemma ssn_skip l t : forallb skipev l = true -> sub_since_new (l ++ t) = sub_since_new t.
Proof.
  induction l as [|e l IH]; simpl; auto. intros H. apply andb_prop in H as [H1 H2]. rewrite (IH H2).
  destruct e; try discriminate H1; reflexivity.
Qed.

Lemma final_tr s : exists l, rev (final_of s) = l ++ tr s /\ forallb skipev l = true.
Proof.
  unfold final_of. rewrite rev_involutive. cbn [handle snd tr set_tr]. destruct (flags_tr s) as (fl & TR & FM).
  exists (rev (leaks (rev (tr (class_flags s)))) ++ fl). rewrite TR at 2. rewrite app_assoc. split; [reflexivity|].
  rewrite forallb_app. apply andb_true_intro. split.
  - apply forallb_forall. intros e IN. apply in_rev in IN. unfold leaks in IN. apply in_map_iff in IN as (q & <- & _). reflexivity.
  - apply forallb_forall. intros e IN. rewrite forallb_forall in FM. specialize (FM _ IN). destruct e; try discriminate FM; reflexivity.
Qed.

Lemma aget_all_none {X} (l : list (N * X)) : (forall a, aget l a = None) -> l = [].
Proof. destruct l as [|[a x] r]; auto. intros H. specialize (H a). simpl in H. rewrite N.eqb_refl in H. discriminate. Qed.

Lemma in_final s e : In e (tr s) -> In e (final_of s).
Proof.
  intros IN. destruct (final_tr s) as (l & TR & _). apply in_rev. rewrite TR. apply in_or_app. right. exact IN.
Qed.

Lemma no_actor_table d p s : LinStep.reach d p [MLeaks] s -> no_actor (final_of s) = true -> actors s = [].
Proof.
  intros RC NA. destruct (i_wf _ _ (reach_INV _ _ _ _ RC)) as [_ Q]. apply aget_all_none. intros a.
  destruct (aget (actors s) a) as [y|] eqn:E; [|reflexivity]. exfalso.
  pose proof (in_final _ _ (w_ae _ Q _ _ E)) as IN. unfold no_actor in NA. rewrite forallb_forall in NA. specialize (NA _ IN). discriminate NA.
Qed.

Theorem no_lin_leak : forall (p : list top) (fuel : nat) (t : list ev),
  exec DGlobal fuel p = Done t -> settled t = true -> no_actor t = true ->
  forall k i, In (ELeak k i) t -> K16_lin k = false.
Proof.
  intros p fuel t H ST NA k i IN. destruct (exec_final _ _ _ _ H) as (s & RC & ->).
  destruct (K16_lin k) eqn:K; [|reflexivity]. exfalso.
  assert (X : exists x, tok x = Some (k, i)).
  { destruct (K16_cases _ K) as [-> | [-> | [-> | ->]]]; [exists (RClo i) | exists (RVal i) | exists (RRet i) | exists (RNot i)]; reflexivity. }
  destruct X as (x & T). pose proof (leak_located _ _ _ _ _ RC T IN) as LC.
  rewrite (no_actor_table _ _ _ RC NA) in LC. simpl in LC.
  destruct (final_state _ _ _ RC) as (_ & _ & _ & _ & _ & _ & M & _).
  specialize (M (cq_pos_real x (mainq s) ltac:(lia))).
  unfold settled in ST. destruct (final_tr s) as (l & TR & SK). rewrite TR, (ssn_skip _ _ SK), M in ST. discriminate ST.
Qed.

(* a reported leak was created *)
Lemma remove_first_in q x l : In q (remove_first x l) -> In q l.
Proof.
  induction l as [|y r IH]; simpl; auto. destruct (pair_eqb x y); [intros H; right; exact H|].
  intros [H|H]; [left; exact H | right; apply IH; exact H].
Qed.

Lemma live_created q t : In q (liveR t) -> exists e, In e t /\ created e = Some q.
Proof.
  induction t as [|e t IH]; [intros []|]. rewrite liveR_cons. unfold upd_live. intros IN.
  assert (IN' : In q (match created e with Some p => liveR t ++ [p] | None => liveR t end)).
  { destruct (consumed e); [eapply remove_first_in; eauto | exact IN]. }
  destruct (created e) as [p'|] eqn:C.
  - apply in_app_or in IN' as [I1|[<-|[]]].
    + destruct (IH I1) as (e0 & A & B). exists e0. split; [right; exact A | exact B].
    + exists e. split; [left; reflexivity | exact C].
  - destruct (IH IN') as (e0 & A & B). exists e0. split; [right; exact A | exact B].
Qed.

Theorem no_leak_settled : forall (p : list top) (fuel : nat) (t : list ev),
  exec DGlobal fuel p = Done t -> settled t = true -> no_actor t = true -> simple16 t = true ->
  forall k i, ~ In (ELeak k i) t.
Proof.
  intros p fuel t H ST NA SM k i IN. pose proof (no_lin_leak _ _ _ H ST NA _ _ IN) as K.
  destruct (exec_final _ _ _ _ H) as (s & RC & ->).
  destruct (final_state _ _ _ RC) as (_ & _ & _ & _ & _ & _ & _ & N).
  destruct (live_created _ _ (final_leak _ _ _ N IN)) as (e & IE & CE).
  pose proof (in_final _ _ IE) as IF. unfold simple16 in SM. rewrite forallb_forall in SM. specialize (SM _ IF).
  destruct e; try discriminate CE; try discriminate SM; simpl in CE; inversion CE; subst; discriminate K.
Qed.

Print Assumptions final_state.
Print Assumptions leak_located.
Print Assumptions no_leak_settled.
