(** Layer R proofs: the HANDLE census, part 2: the conservation law of the OWNER count.

    For every micro-op [m] other than [MNew], below the saturation point of the packed count,
       handle m s = (pre, s')  ->  hmops (HO b) pre + H (HO b) s' = hmop (HO b) m + H (HO b) s
    (no owner of actor b is created or lost without the matching [count_inc] / [count_dec] on its cell), and the
    slack [G (HO b) s] = (owner increments visible in the trace) - (stored count) never decreases. *)
From Coq Require Import ZArith NArith List Bool Lia.
From Stk Require Import Lib.U Gen.SrcCount Gen.SrcCore Gen.SrcLog R.Syntax R.Rt R.Shape R.Count R.Own.
Import ListNotations.
Local Open Scope Z_scope.

Arguments submit : simpl never.
Arguments push_main : simpl never.
Arguments timer_add : simpl never.
Arguments emit : simpl never.
Arguments upd_actor : simpl never.
Arguments ref_clone : simpl never.
Arguments new_actor : simpl never.
Arguments log_rec : simpl never.
Arguments tok_script : simpl never.
Arguments target_ev : simpl never.
Arguments push_frame : simpl never.
Global Opaque H G.

(* ------------------------------------------------------------------ *)
(** * Premises of the law *)

Record PremO (m : mop) (s : st) : Prop := mkPremO {
  po_sr : forall a y, aget (actors s) a = Some y -> srange (a_strong y);
  po_hb : forall a, hmop (HO a) m + hst (HO a) s <= ctr (HO a) s;
  po_lim : forall a, ctr (HO a) s < CMAX - 1 }.

Definition lawO (b : N) (w : Z) (s : st) (pre : list mop) (s' : st) : Prop :=
  hmops (HO b) pre + H (HO b) s' = w + H (HO b) s /\ G (HO b) s <= G (HO b) s'.

Lemma hindO_R b a : hind (HO b) (HR a) = 0. Proof. reflexivity. Qed.
Lemma hindO_F b f : hind (HO b) (HF f) = 0. Proof. reflexivity. Qed.
Lemma hindO_O b a : hind (HO b) (HO a) = if N.eqb b a then 1 else 0. Proof. reflexivity. Qed.

Lemma hfw_O b o : hfw (HO b) o = 0.
Proof. destruct o as [rc [bd|h c] [a|]]; simpl; try reflexivity. destruct (0 <? rc); reflexivity. Qed.

Ltac osimp :=
  cbn [rkb hmops hmop hkind hstate hnotopt hopt hslab hq henv hfrs htim snd fst f_loc ti_ci ci_kind ci_uid ci_caps ci_sq
       cact cfw cred1 a_strong a_rc a_state a_notify with_strong with_rc with_state with_notify frc] in *;
  rewrite ?hfw_O, ?hindO_R, ?hindO_F, ?hindO_O in *.

Ltac eqb_split :=
  repeat match goal with
  | |- context [N.eqb ?a ?b] => let E := fresh "E" in destruct (N.eqb a b) eqn:E
  end.

(* split an equation between pairs without reducing its members *)
Ltac injp Q := apply pair_equal_spec in Q; destruct Q as [? ?]; subst.

(* the cell of an actor that has an owner somewhere is in the table *)
Lemma ctr_pos_in s a : 0 < ctr (HO a) s -> exists y, aget (actors s) a = Some y /\ ctr (HO a) s = cnt (a_strong y).
Proof. unfold ctr. destruct (aget (actors s) a) as [y|]; [eauto | lia]. Qed.

(* ------------------------------------------------------------------ *)
(** * Reference counting and closure creation do not touch the owner count *)

Lemma HO_ref_clone b s a : H (HO b) (ref_clone s a) = H (HO b) s.
Proof.
  destruct (aget (actors s) a) as [y|] eqn:E.
  - rewrite (H_ref_clone _ _ _ _ E). osimp. eqb_split; lia.
  - apply H_ref_clone_none; auto.
Qed.
Lemma GO_ref_clone b s a : G (HO b) (ref_clone s a) = G (HO b) s.
Proof.
  destruct (aget (actors s) a) as [y|] eqn:E.
  - rewrite (G_ref_clone _ _ _ _ E). osimp. eqb_split; lia.
  - apply G_ref_clone_none; auto.
Qed.

Definition oview (y y' : actor) : Prop :=
  a_strong y' = a_strong y /\ a_state y' = a_state y /\ a_notify y' = a_notify y /\ a_logid y' = a_logid y.

Definition opres (s s' : st) : Prop :=
  forall a, match aget (actors s) a with
            | Some y => exists y', aget (actors s') a = Some y' /\ oview y y'
            | None => aget (actors s') a = None
            end.

Lemma oview_refl y : oview y y. Proof. repeat split. Qed.
Lemma opres_refl s : opres s s.
Proof. intros a. destruct (aget (actors s) a) as [y|]; [exists y; split; [auto | apply oview_refl] | auto]. Qed.
Lemma opres_same s s' : actors s' = actors s -> opres s s'.
Proof. intros E a. rewrite E. destruct (aget (actors s) a) as [y|]; [exists y; split; [auto | apply oview_refl] | auto]. Qed.
Lemma opres_trans s1 s2 s3 : opres s1 s2 -> opres s2 s3 -> opres s1 s3.
Proof.
  intros A B a. specialize (A a). destruct (aget (actors s1) a) as [y|].
  - destruct A as (y2 & A2 & V2). specialize (B a). rewrite A2 in B. destruct B as (y3 & A3 & V3).
    exists y3. split; auto. destruct V2 as (P & Q & R & T), V3 as (P' & Q' & R' & T'). repeat split; congruence.
  - specialize (B a). rewrite A in B. exact B.
Qed.

Lemma opres_ref_clone s p : opres s (ref_clone s p).
Proof.
  unfold ref_clone. destruct (aget (actors s) p) as [z|] eqn:E; [|apply opres_same; reflexivity].
  set (s0 := if a_freed z then emit s (EModel M_UAF p) else s).
  assert (A0 : actors s0 = actors s) by (unfold s0; destruct (a_freed z); reflexivity).
  intros a. unfold upd_actor. cbn [actors set_actors]. rewrite A0. destruct (N.eq_dec p a) as [<-|NE].
  - rewrite E, aget_aset_eq. eexists. split; [reflexivity | repeat split].
  - rewrite aget_aset_neq by auto.
    destruct (aget (actors s) a) as [y|]; [exists y; split; [auto | apply oview_refl] | auto].
Qed.

Lemma opres_some s s' a y : opres s s' -> aget (actors s) a = Some y -> exists y', aget (actors s') a = Some y' /\ oview y y'.
Proof. intros P E. specialize (P a). rewrite E in P. exact P. Qed.
Lemma opres_none s s' a : opres s s' -> aget (actors s) a = None -> aget (actors s') a = None.
Proof. intros P E. specialize (P a). rewrite E in P. exact P. Qed.

Lemma mk_notifier_O b s a n nt s' : mk_notifier s a n = (nt, s') ->
  hret (HO b) nt + H (HO b) s' = H (HO b) s /\ G (HO b) s' = G (HO b) s /\ opres s s'.
Proof.
  unfold mk_notifier. destruct n as [[hp c]|].
  - destruct (lookup s hp) as [v|].
    + destruct (handle_actor v) as [p|].
      * destruct (inst_call c (fun b0 => KMeth p b0 None) (ref_clone s p)) as [ci s2] eqn:I.
        intros Q; inversion Q; subst. destruct (inst_call_H (HO b) _ _ _ _ _ I) as [A _].
        rewrite HO_ref_clone in A. rewrite (inst_call_G (HO b) _ _ _ _ _ I), GO_ref_clone.
        rewrite hret_eq, hrk_notify. osimp. split; [lia|]. split; [reflexivity|].
        eapply opres_trans; [apply opres_ref_clone | apply opres_same; eapply inst_call_same; eauto].
      * intros Q; inversion Q; subst. rewrite hret_eq, hrk_notify, H_emit, G_emit. simpl. repeat split; try lia. apply opres_same; reflexivity.
    + intros Q; inversion Q; subst. rewrite hret_eq, hrk_notify, H_emit, G_emit. simpl. repeat split; try lia. apply opres_same; reflexivity.
  - intros Q; inversion Q; subst. rewrite hret_eq, hrk_notify. repeat split; try lia. apply opres_refl.
Qed.

Lemma new_actor_O b s a nt parent vis : aget (actors s) a = None ->
  H (HO b) (new_actor s a nt parent vis) = H (HO b) s + hret (HO b) nt - hind (HO b) (HO a) /\
  G (HO b) (new_actor s a nt parent vis) = G (HO b) s + (if vis then hind (HO b) (HO a) else 0).
Proof.
  intros E. unfold new_actor.
  set (id := oz (log_id_next (logseq s))).
  set (s2 := log_rec (set_logseq s id) id LOGLEVEL_OPEN parent 0).
  assert (A2 : aget (actors s2) a = None) by (unfold s2; rewrite log_rec_actors; exact E).
  assert (H2 : H (HO b) s2 = H (HO b) s) by (unfold s2; rewrite H_log_rec; reflexivity).
  assert (G2 : G (HO b) s2 = G (HO b) s) by (unfold s2; rewrite G_log_rec; reflexivity).
  set (y := mkActor (SPrep []) (oz (count_inc (oz count_new))) MINRC_INIT (Some nt) id false).
  destruct cnt_new as [_ CN].
  assert (HA : H (HO b) (emit (upd_actor s2 a y) (EActor a)) = H (HO b) s + hret (HO b) nt - hind (HO b) (HO a)).
  { rewrite H_emit, (H_upd_none _ s2 a y A2), H2. subst y. unfold hactor. osimp. rewrite CN. eqb_split; lia. }
  assert (GA : G (HO b) (emit (upd_actor s2 a y) (EActor a)) = G (HO b) s).
  { rewrite G_emit, (G_upd_none _ s2 a y A2), G2. subst y. osimp. rewrite CN. eqb_split; lia. }
  destruct vis; split.
  - rewrite H_emit. exact HA.
  - rewrite G_emit, GA. osimp. lia.
  - exact HA.
  - rewrite GA. lia.
Qed.

Lemma new_actor_get s a nt parent vis :
  exists y, aget (actors (new_actor s a nt parent vis)) a = Some y /\ a_state y = SPrep [] /\ a_notify y = Some nt.
Proof.
  unfold new_actor. eexists. split.
  - destruct vis; unfold emit, upd_actor; stsimp; apply aget_aset_eq.
  - split; reflexivity.
Qed.

Lemma new_actor_other s a nt parent vis c : a <> c ->
  aget (actors (new_actor s a nt parent vis)) c = aget (actors s) c.
Proof.
  intros NE. unfold new_actor. destruct vis; unfold emit, upd_actor; stsimp; rewrite aget_aset_neq by auto; rewrite log_rec_actors; reflexivity.
Qed.

(* ------------------------------------------------------------------ *)
(** * Handlers *)

Lemma drop_own_O b a lg s pre s' :
  (forall c y, aget (actors s) c = Some y -> srange (a_strong y)) -> 0 < ctr (HO a) s < CMAX ->
  drop_own a lg s = (pre, s') -> lawO b (hind (HO b) (HO a)) s pre s'.
Proof.
  intros SR C. unfold drop_own.
  set (s0 := if lg then emit s (EOwnDrop a) else s).
  assert (A0 : actors s0 = actors s) by (unfold s0; destruct lg; reflexivity).
  assert (H0 : H (HO b) s0 = H (HO b) s) by (unfold s0; destruct lg; reflexivity).
  assert (G0 : G (HO b) s0 = G (HO b) s) by (unfold s0; destruct lg; [rewrite G_emit; simpl; lia | reflexivity]).
  destruct (ctr_pos_in s a ltac:(lia)) as (y & AY & CY). rewrite A0, AY.
  assert (AY0 : aget (actors s0) a = Some y) by (rewrite A0; exact AY).
  destruct (count_dec (a_strong y)) as [[v z]|] eqn:CD.
  - destruct (cnt_dec _ _ _ (SR _ _ AY) ltac:(lia) CD) as (SV & CV & ZZ).
    destruct z; intros Q; injp Q; unfold lawO.
    + rewrite H_push_main, G_push_main, HO_ref_clone, GO_ref_clone, (H_upd_some _ _ _ _ _ AY0), (G_upd_some _ _ _ _ _ AY0), H0, G0.
      rewrite hactor_with_strong, hci_eq. osimp. eqb_split; lia.
    + rewrite (H_upd_some _ _ _ _ _ AY0), (G_upd_some _ _ _ _ _ AY0), H0, G0.
      rewrite hactor_with_strong. osimp. eqb_split; lia.
  - exfalso. unfold count_dec in CD. destruct (a_strong y <? COUNT_INC) eqn:L; [discriminate|].
    destruct (a_strong y >=? COUNT_MASK); [discriminate|]. cbn [orb] in CD.
    unfold csub in CD. destruct (COUNT_INC <=? a_strong y) eqn:L2; [discriminate|]. zb. lia.
Qed.

Lemma drop_val_O b v s pre s' :
  drop_val v s = (pre, s') -> lawO b (hv (HO b) v) s pre s'.
Proof.
  unfold drop_val, lawO. destruct v as [a|a|a|r|f|t sc].
  - intros Q; injp Q. rewrite hv_own. osimp. lia.
  - intros Q; injp Q. rewrite hv_act. osimp. lia.
  - intros Q; injp Q. rewrite hv_anon. osimp. lia.
  - intros Q; injp Q. rewrite hv_ret. osimp. lia.
  - rewrite hv_fwd. destruct (aget (fwds s) f) as [[rc k tg]|] eqn:F.
    + destruct (minrc_drop rc) as [[v' z]|].
      * assert (HF0 : H (HO b) (set_fwds s (aset (fwds s) f (FwdObj v' k tg))) = H (HO b) s).
        { rewrite (H_fwd_some _ _ _ _ _ F), !hfw_O. osimp. lia. }
        assert (GF0 : G (HO b) (set_fwds s (aset (fwds s) f (FwdObj v' k tg))) = G (HO b) s).
        { rewrite (G_fwd_some _ _ _ _ _ F). osimp. lia. }
        destruct z; [destruct k; [|destruct tg]|]; intros Q; injp Q; rewrite ?H_emit, ?G_emit, ?HF0, ?GF0; osimp; lia.
      * intros Q; injp Q. rewrite H_emit, G_emit. osimp. lia.
    + intros Q; injp Q. rewrite H_emit, G_emit. osimp. lia.
  - intros Q; injp Q. rewrite hv_tok, H_tok_script, G_tok_script, H_emit, G_emit. osimp. lia.
Qed.

Lemma zombie_O b s a y st' rc fr : aget (actors s) a = Some y -> srange (a_strong y) -> 0 <= st' < 4 ->
  H (HO b) (upd_actor s a (mkActor SZombie (oz (count_set_state (a_strong y) st')) rc None (a_logid y) fr)) = H (HO b) s - hactor (HO b) y /\
  G (HO b) (upd_actor s a (mkActor SZombie (oz (count_set_state (a_strong y) st')) rc None (a_logid y) fr)) = G (HO b) s.
Proof.
  intros E SR ST. destruct (cnt_set _ _ SR ST) as [_ CS].
  rewrite (H_upd_some _ _ _ _ _ E), (G_upd_some _ _ _ _ _ E). unfold hactor at 2. osimp. rewrite CS. eqb_split; split; lia.
Qed.

Lemma state_range : 0 <= STATE_ZOMBIE < 4 /\ 0 <= STATE_READY < 4.
Proof. vm_compute. repeat split; discriminate. Qed.

Lemma drop_ref_O b a s pre s' :
  (forall c y, aget (actors s) c = Some y -> srange (a_strong y)) ->
  drop_ref a s = (pre, s') -> lawO b 0 s pre s'.
Proof.
  intros SR. unfold drop_ref, lawO. destruct (aget (actors s) a) as [y|] eqn:A.
  2:{ intros Q; injp Q. rewrite H_emit, G_emit. osimp. lia. }
  destruct (a_freed y). { intros Q; injp Q. rewrite H_emit, G_emit. osimp. lia. }
  destruct (minrc_drop (a_rc y)) as [[v z]|].
  2:{ intros Q; injp Q. rewrite H_emit, G_emit. osimp. lia. }
  destruct z.
  - destruct (state_drops a (a_state y) _) as [dl s2] eqn:SD.
    intros Q; injp Q.
    destruct (state_drops_h (HO b) _ _ _ _ _ SD) as [-> CD].
    destruct (zombie_O b s a y STATE_ZOMBIE v true A (SR _ _ A) (proj1 state_range)) as [HZ GZ].
    rewrite hmops_app, CD, H_emit, G_emit, HZ, GZ. unfold hactor.
    destruct (a_notify y) as [nt|]; osimp; lia.
  - intros Q; injp Q. rewrite (H_upd_some _ _ _ _ _ A), (G_upd_some _ _ _ _ _ A), hactor_with_rc. osimp. eqb_split; lia.
Qed.

Lemma terminate_O b a c s pre s' :
  (forall c0 y, aget (actors s) c0 = Some y -> srange (a_strong y)) ->
  terminate a c s = (pre, s') -> lawO b 0 s pre s'.
Proof.
  intros SR. unfold terminate, lawO. destruct (aget (actors s) a) as [y|] eqn:A.
  2:{ intros Q; injp Q. rewrite H_emit, G_emit. osimp. lia. }
  set (s0 := if a_freed y then emit s (EModel M_UAF a) else s).
  assert (A0 : aget (actors s0) a = Some y) by (unfold s0; destruct (a_freed y); exact A).
  assert (H0 : H (HO b) s0 = H (HO b) s) by (unfold s0; destruct (a_freed y); reflexivity).
  assert (G0 : G (HO b) s0 = G (HO b) s) by (unfold s0; destruct (a_freed y); [rewrite G_emit; simpl; lia | reflexivity]).
  destruct (state_drops a (a_state y) _) as [dl s1] eqn:SD.
  destruct (state_drops_h (HO b) _ _ _ _ _ SD) as [-> CD].
  destruct (zombie_O b s0 a y STATE_ZOMBIE (a_rc y) (a_freed y) A0 (SR _ _ A) (proj1 state_range)) as [HZ GZ].
  destruct (a_notify y) as [nt|] eqn:NT; intros Q; injp Q;
    rewrite HZ, GZ, H0, G0; unfold hactor; rewrite NT; rewrite ?hmops_app, CD; osimp; lia.
Qed.

Lemma run_item_O b c s pre s' :
  run_item c s = (pre, s') -> lawO b (hci (HO b) c) s pre s'.
Proof.
  unfold run_item, lawO. destruct c as [u i kd caps q]. rewrite hci_eq. destruct kd; osimp.
  - intros Q; injp Q. rewrite H_push_frame, H_emit, G_push_frame, G_emit. osimp. lia.
  - destruct (aget (actors s) a) as [y|] eqn:A.
    + destruct (a_state y) eqn:SA; intros Q; injp Q.
      * rewrite (H_upd_some _ _ _ _ _ A), (G_upd_some _ _ _ _ _ A), hactor_with_state, (hactor_unf _ _ _ SA).
        osimp. rewrite hq_app. osimp. rewrite hci_eq. osimp. eqb_split; lia.
      * rewrite H_push_frame, H_emit, G_push_frame, G_emit. osimp. lia.
      * osimp. rewrite hcc_eq. lia.
    + intros Q; injp Q. rewrite H_emit, G_emit. osimp. rewrite hcc_eq. lia.
  - destruct (aget (actors s) a) as [y|] eqn:A.
    + destruct (ob (count_is_prep (a_strong y))); intros Q; injp Q.
      * rewrite H_push_frame, H_emit, G_push_frame, G_emit. osimp. lia.
      * osimp. rewrite hcc_eq. lia.
    + intros Q; injp Q. rewrite H_emit, G_emit. osimp. rewrite hcc_eq. lia.
  - destruct (aget (actors s) p) as [y|] eqn:A.
    + destruct (a_state y) eqn:SA.
      * intros Q; injp Q.
        rewrite (H_upd_some _ _ _ _ _ A), (G_upd_some _ _ _ _ _ A), hactor_with_state, (hactor_unf _ _ _ SA).
        osimp. rewrite hq_app. osimp. rewrite hci_eq. osimp. eqb_split; lia.
      * destruct (nth_error slab (N.to_nat key)) as [[child|nx]|] eqn:NE; intros Q; injp Q.
        -- rewrite (H_upd_some _ _ _ _ _ A), (G_upd_some _ _ _ _ _ A), hactor_with_state, (hactor_unf _ _ _ SA).
           pose proof (hslab_list_set_vac (HO b) _ _ snext _ NE) as SL. osimp. revert SL. eqb_split; lia.
        -- rewrite H_emit, G_emit. osimp. lia.
        -- rewrite H_emit, G_emit. osimp. lia.
      * intros Q; injp Q. osimp. lia.
    + intros Q; injp Q. rewrite H_emit, G_emit. osimp. lia.
  - intros Q; injp Q. osimp. lia.
  - intros Q; injp Q. osimp. lia.
Qed.

Lemma drop_item_O b c s pre s' :
  drop_item c s = (pre, s') -> lawO b (hci (HO b) c) s pre s'.
Proof.
  unfold drop_item, lawO. destruct c as [u i kd caps q]. rewrite hci_eq. destruct kd; intros Q; injp Q;
    rewrite ?H_emit, ?G_emit; osimp; rewrite ?hmops_drops, ?hcc_eq; lia.
Qed.

Lemma ret_invoke_O b r m0 s pre s' :
  ret_invoke r m0 s = (pre, s') -> lawO b (hret (HO b) r) s pre s'.
Proof.
  destruct r as [rid k]. unfold ret_invoke, lawO. rewrite hret_eq.
  destruct k as [caps bd|a ci|a ci|a inner|p key inner].
  - intros Q; injp Q. rewrite hrk_clos, H_push_frame, G_push_frame, H_emit, G_emit. osimp. lia.
  - intros Q; injp Q. rewrite hrk_to, H_submit, G_submit, H_emit, G_emit, hci_as_call by discriminate. osimp. lia.
  - rewrite hrk_someto. destruct m0 as [m1|]; intros Q; injp Q.
    + rewrite H_submit, G_submit, H_emit, G_emit, hci_as_call by discriminate. osimp. lia.
    + rewrite H_emit, G_emit. osimp. lia.
  - rewrite hrk_notify. destruct inner as [[p ci]|]; intros Q; injp Q.
    + rewrite H_submit, G_submit, H_emit, G_emit, hci_as_call by discriminate. osimp. lia.
    + rewrite H_emit, G_emit. osimp. lia.
  - rewrite hrk_slab. destruct m0 as [m1|]; intros Q; injp Q.
    + rewrite H_push_main, G_push_main, HO_ref_clone, GO_ref_clone, hci_eq. osimp. lia.
    + osimp. lia.
Qed.

(* ------------------------------------------------------------------ *)
(** * Acts *)

Ltac pp t := let X := fresh "PP" in pose proof t as X.

Ltac pose_helpers b :=
  repeat match goal with
  | E : take ?s ?h = (?o, _) |- _ =>
      pp (take_H (HO b) _ _ _ _ E); pp (take_G (HO b) _ _ _ _ E);
      let TL := fresh "TL" in pose proof (take_lookup s h) as TL; rewrite E in TL; cbn [fst] in TL; revert E
  | E : take_caps _ _ = (_, _) |- _ => pp (take_caps_H (HO b) _ _ _ _ E); pp (take_caps_G (HO b) _ _ _ _ E); revert E
  | E : bind _ _ _ = (_, _) |- _ => pp (bind_H (HO b) _ _ _ _ _ E); pp (bind_G (HO b) _ _ _ _ _ E); revert E
  | E : bad _ _ = (_, _) |- _ => pp (bad_H (HO b) _ _ _ _ E); pp (bad_G (HO b) _ _ _ _ E); revert E
  | E : inst _ _ _ = (_, _) |- _ =>
      let A := fresh "IH" in let B := fresh "IK" in
      destruct (inst_H (HO b) _ _ _ _ _ E) as [A B]; pp (inst_G (HO b) _ _ _ _ _ E); revert E
  | E : inst_call _ _ _ = (_, _) |- _ =>
      let A := fresh "IH" in let B := fresh "IK" in
      destruct (inst_call_H (HO b) _ _ _ _ _ E) as [A B]; pp (inst_call_G (HO b) _ _ _ _ _ E); revert E
  | E : inst_nocaps _ _ _ = (_, _) |- _ =>
      let A := fresh "IH" in let B := fresh "IK" in let C := fresh "IC" in
      destruct (inst_nocaps_H (HO b) _ _ _ _ _ E) as (C & A & B); pp (inst_nocaps_G (HO b) _ _ _ _ _ E); revert E
  | E : mk_notifier _ _ _ = (_, _) |- _ =>
      let A := fresh "MH" in let B := fresh "MG" in let C := fresh "MP" in
      destruct (mk_notifier_O b _ _ _ _ _ E) as (A & B & C); revert E
  | E : var_timer _ _ _ = Some _ |- _ =>
      let i := fresh "i" in let F := fresh "F" in let E2 := fresh "E" in
      destruct (var_timer_find _ _ _ _ E) as (i & F & E2); cbn [ti_tid] in E2; subst i;
      pp (htim_remove (HO b) _ _ _ F); revert E
  end; intros;
  repeat match goal with
  | E : ?o = lookup ?s ?h, E2 : lookup ?s ?h = Some _ |- _ => rewrite E2 in E; subst o
  end.

Ltac Hrw :=
  repeat (progress (
    rewrite ?H_emit, ?G_emit, ?H_push_main, ?G_push_main, ?H_timer_add, ?G_timer_add, ?H_push_frame, ?G_push_frame,
            ?HO_ref_clone, ?GO_ref_clone, ?H_log_rec, ?G_log_rec, ?H_target_ev, ?G_target_ev, ?H_tok_script, ?G_tok_script,
            ?G_submit,
            ?H_set_shut, ?G_set_shut, ?H_set_nuid, ?G_set_nuid, ?H_set_tvars, ?G_set_tvars, ?H_set_tnext, ?G_set_tnext,
            ?H_set_logseq, ?G_set_logseq, ?H_set_logfilter, ?G_set_logfilter, ?H_set_haslogger, ?G_set_haslogger,
            ?H_set_recreate, ?G_set_recreate, ?H_set_now, ?G_set_now, ?H_set_start, ?G_set_start, ?H_set_alive, ?G_set_alive,
            ?H_set_frames, ?G_set_frames, ?H_set_timers, ?G_set_timers, ?G_set_mainq, ?G_set_lazyq, ?G_set_idleq,
            ?G_set_env in *;
    rewrite ?H_submit in * by discriminate));
  repeat match goal with
  | |- context [htim _ (ti_update _ _ _)] => erewrite htim_update by (first [ eassumption | reflexivity ])
  end;
  repeat match goal with H : frames ?s = _ |- context [frames ?s] => rewrite H end.

Ltac ofin :=
  repeat (progress (
    try match goal with H : ci_kind ?c = _ |- _ => rewrite H in * end;
    unfold hci in *;
    osimp;
    rewrite ?hmops_app, ?hmops_drops, ?hmops_slab_drops, ?hmops_runitems, ?hmops_dropitems, ?hci_unq, ?hci_setq,
            ?henv_app, ?hq_app, ?hv_ret, ?hret_eq, ?hrk_clos, ?hrk_to, ?hrk_someto, ?hrk_slab, ?hrk_notify,
            ?hcc_eq, ?hv_own, ?hv_act, ?hv_anon, ?hv_fwd, ?hv_tok, ?hfw_O in *));
  unfold lawO; try (split; lia);
  try (repeat match goal with E : context [N.eqb _ _] |- _ => revert E end; eqb_split; intros; split; lia).

Ltac olaw b := intros; unfold lawO in *; pose_helpers b; Hrw; ofin.

Lemma lookup_take s h v : lookup s h = Some v -> exists s1, take s h = (Some v, s1).
Proof. intros E. rewrite <- take_lookup in E. destruct (take s h) as [o s1]. simpl in E. subst. eauto. Qed.

(* owned(): one more owner of a cell that is in the table *)
Lemma owned_O b s a y : aget (actors s) a = Some y -> srange (a_strong y) -> cnt (a_strong y) < CMAX ->
  H (HO b) (upd_actor s a (with_strong y (oz (count_inc (a_strong y))))) = H (HO b) s - hind (HO b) (HO a) /\
  G (HO b) (upd_actor s a (with_strong y (oz (count_inc (a_strong y))))) = G (HO b) s - hind (HO b) (HO a).
Proof.
  intros E SR C. destruct (cnt_inc _ SR C) as [_ CI].
  rewrite (H_upd_some _ _ _ _ _ E), (G_upd_some _ _ _ _ _ E), hactor_with_strong. osimp. rewrite CI. eqb_split; split; lia.
Qed.

Lemma do_act_O b a l s pre s' :
  PremO (MActs (a :: l)) s -> do_act a s = (pre, s') -> lawO b 0 s pre s'.
Proof.
  intros [SR HB LIM]. unfold do_act, lawO. destruct a.
  all: try solve [repeat dest_match; intros Q; try injp Q; olaw b].
  - (* ANewActor *)
    destruct (has_core s); [|intros Q; try injp Q; olaw b].
    destruct (aget (actors s) a) eqn:AA; [intros Q; try injp Q; olaw b|].
    destruct (mk_notifier s a n) as [nt s1] eqn:MK. intros Q.
    destruct (mk_notifier_O b _ _ _ _ _ MK) as (MH & MG & MP).
    destruct (new_actor_O b s1 a nt (ctx_logid s) true (opres_none _ _ _ MP AA)) as [NH NG].
    pose proof (bind_H (HO b) _ _ _ _ _ Q) as BH. pose proof (bind_G (HO b) _ _ _ _ _ Q) as BG.
    rewrite hv_own in BH. unfold lawO. pose proof (hind_range (HO b) (HO a)). osimp. split; lia.
  - (* AKillAsync *)
    destruct (lookup s h) as [[a|a|a|r|f|t sc]|] eqn:LK; try solve [intros Q; try injp Q; olaw b].
    destruct (aget (actors s) a) as [y|] eqn:AY; [|intros Q; try injp Q; olaw b].
    intros Q; injp Q.
    assert (C : cnt (a_strong y) < CMAX). { pose proof (LIM a) as L. unfold ctr in L. rewrite AY in L. lia. }
    destruct (owned_O b s a y AY (SR _ _ AY) C) as [OH OG].
    Hrw. rewrite OH, OG, hci_eq. osimp. unfold lawO. eqb_split; split; lia.
  - (* AOwned *)
    destruct (lookup s h) as [[a|a|a|r|f|t sc]|] eqn:LK; try solve [intros Q; try injp Q; olaw b].
    destruct (aget (actors s) a) as [y|] eqn:AY; [|intros Q; try injp Q; olaw b].
    intros Q.
    assert (C : cnt (a_strong y) < CMAX). { pose proof (LIM a) as L. unfold ctr in L. rewrite AY in L. lia. }
    destruct (owned_O b s a y AY (SR _ _ AY) C) as [OH OG].
    pose proof (bind_H (HO b) _ _ _ _ _ Q) as BH. pose proof (bind_G (HO b) _ _ _ _ _ Q) as BG.
    revert BH BG. Hrw. rewrite OH, OG, hv_own. osimp. unfold lawO. eqb_split; intros; split; lia.
  - (* AClone *)
    destruct (lookup s h) as [[a|a|a|r|f|t sc]|] eqn:LK; try solve [intros Q; try injp Q; olaw b].
    destruct (aget (fwds s) f) as [[rc k tg]|] eqn:AF; [|intros Q; try injp Q; olaw b].
    intros Q. pose proof (bind_H (HO b) _ _ _ _ _ Q) as BH. pose proof (bind_G (HO b) _ _ _ _ _ Q) as BG.
    revert BH BG. rewrite (H_fwd_some _ _ _ _ _ AF), (G_fwd_some _ _ _ _ _ AF). ofin; try (intros; split; lia).
  - (* AStore *)
    destruct (cur_ctx s) as [|a pr|]; try solve [intros Q; try injp Q; olaw b]. destruct pr; try solve [intros Q; try injp Q; olaw b].
    destruct (aget (actors s) a) as [y|] eqn:AY; [|intros Q; try injp Q; olaw b].
    destruct (a_state y) eqn:SA; try solve [intros Q; try injp Q; olaw b].
    destruct (take s h) as [[v|] s1] eqn:T; intros Q; injp Q; [|olaw b].
    destruct (take_same _ _ _ _ T) as (TA & _ & _).
    assert (AY1 : aget (actors s1) a = Some y) by (rewrite TA; exact AY).
    pose proof (take_H (HO b) _ _ _ _ T) as TH. pose proof (take_G (HO b) _ _ _ _ T) as TG.
    rewrite (H_upd_some _ _ _ _ _ AY1), (G_upd_some _ _ _ _ _ AY1), hactor_with_state, (hactor_unf _ _ _ SA).
    ofin; try (revert TH TG; eqb_split; intros; split; lia).
  - (* ASlabAdd *)
    destruct (cur_ctx s) as [|p pr|] eqn:CC; try solve [intros Q; try injp Q; olaw b]. destruct pr; try solve [intros Q; try injp Q; olaw b].
    destruct (alive s); try solve [intros Q; try injp Q; olaw b].
    destruct (aget (actors s) p) as [px|] eqn:AP; try solve [intros Q; try injp Q; olaw b].
    destruct (aget (actors s) a) eqn:AA; try solve [intros Q; try injp Q; olaw b].
    destruct (a_state px) eqn:SP; try solve [intros Q; try injp Q; olaw b].
    destruct (mk_notifier s a n) as [inner s1] eqn:MK.
    destruct (slab_insert slab snext a) as [[slab' nx'] key] eqn:SI.
    intros Q.
    destruct (mk_notifier_O b _ _ _ _ _ MK) as (MH & MG & MP).
    pose proof (opres_trans _ _ _ MP (opres_ref_clone s1 p)) as P2.
    destruct (new_actor_O b (ref_clone s1 p) a (Ret a (RKSlab p key inner)) (a_logid px) false (opres_none _ _ _ P2 AA)) as [NH NG].
    set (s3 := new_actor (ref_clone s1 p) a (Ret a (RKSlab p key inner)) (a_logid px) false) in *.
    assert (NE : a <> p) by (intros ->; congruence).
    destruct (opres_some _ _ _ _ P2 AP) as (y2 & A2 & V2).
    assert (A3 : aget (actors s3) p = Some y2) by (unfold s3; rewrite new_actor_other by auto; exact A2).
    destruct (opres_some _ _ _ _ (opres_ref_clone s3 a) A3) as (y4 & A4 & V4).
    rewrite A4 in Q.
    pose proof (bind_H (HO b) _ _ _ _ _ Q) as BH. pose proof (bind_G (HO b) _ _ _ _ _ Q) as BG.
    revert BH BG. rewrite H_emit, G_emit, (H_upd_some _ _ _ _ _ A4), (G_upd_some _ _ _ _ _ A4), hactor_with_state.
    destruct V2 as (S2 & T2 & N2 & _), V4 as (S4 & T4 & N4 & _).
    assert (ST4 : a_state y4 = SReady sh slab snext) by congruence.
    rewrite (hactor_unf _ _ _ ST4), !HO_ref_clone, !GO_ref_clone, NH, NG, HO_ref_clone, GO_ref_clone.
    pose proof (hslab_insert (HO b) _ _ _ _ _ _ SI) as HS.
    rewrite hv_act, hret_eq, hrk_slab. osimp. unfold lawO. rewrite HS. osimp. eqb_split; intros; split; lia.
  - (* ANewFwd *)
    destruct (aget (fwds s) f) eqn:AF; [intros Q; try injp Q; olaw b|].
    destruct k.
    + intros Q. pose proof (bind_H (HO b) _ _ _ _ _ Q) as BH. pose proof (bind_G (HO b) _ _ _ _ _ Q) as BG.
      revert BH BG. rewrite H_emit, G_emit, (H_fwd_none _ _ _ _ AF), (G_fwd_none _ _ _ _ AF). ofin; try (intros; split; lia).
    + destruct (lookup s h0) as [v|]; [|intros Q; try injp Q; olaw b]. destruct (handle_actor v) as [a|]; [|intros Q; try injp Q; olaw b].
      intros Q. pose proof (bind_H (HO b) _ _ _ _ _ Q) as BH. pose proof (bind_G (HO b) _ _ _ _ _ Q) as BG.
      assert (AF1 : aget (fwds (ref_clone s a)) f = None).
      { unfold ref_clone. destruct (aget (actors s) a) as [z|]; [destruct (a_freed z)|]; exact AF. }
      revert BH BG. rewrite (H_fwd_none _ _ _ _ AF1), (G_fwd_none _ _ _ _ AF1), HO_ref_clone, GO_ref_clone. ofin; try (intros; split; lia).
  - (* AFwdSend *)
    destruct (lookup s h) as [[a|a|a|r|f|t sc]|] eqn:LK; try solve [intros Q; try injp Q; olaw b].
    destruct (aget (fwds s) f) as [[rc [body|ht c] tg]|] eqn:AF; try solve [intros Q; try injp Q; olaw b].
    + intros Q; injp Q. rewrite H_push_frame, G_push_frame, H_emit, G_emit, (H_fwd_some _ _ _ _ _ AF), (G_fwd_some _ _ _ _ _ AF). ofin.
    + destruct tg as [a|]; [|intros Q; try injp Q; olaw b].
      destruct (inst_nocaps c _ (ref_clone s a)) as [ci s2] eqn:I. intros Q; injp Q. olaw b.
Qed.

(* ------------------------------------------------------------------ *)
(** * Top-level operations and the law for every micro-op *)

Lemma do_top_O b o s pre s' : do_top o s = (pre, s') -> lawO b 0 s pre s'.
Proof.
  unfold do_top, lawO. destruct o; repeat dest_match; intros Q; try injp Q; olaw b.
Qed.

Lemma class_flag_cred x all p e : class_flag all p = Some e -> cred1 x e = 0.
Proof.
  unfold class_flag. destruct (a_freed (snd p)); [discriminate|].
  destruct (a_state (snd p)) as [[|c h]|sh slab nx|]; try discriminate.
  - intros Q; inversion Q; reflexivity.
  - destruct (existsb _ _); [|discriminate]. intros Q; inversion Q; reflexivity.
Qed.

Lemma HG_class_flags x s : H x (class_flags s) = H x s /\ G x (class_flags s) = G x s.
Proof.
  unfold class_flags. generalize (actors s) at 1 3 as all. intros all.
  generalize (actors s) at 1 2 as l. intros l. revert s. induction l as [|p l IH]; intros s; simpl; auto.
  destruct (IH (emit_opt s (class_flag all p))) as [A B]. rewrite A, B. unfold emit_opt.
  destruct (class_flag all p) as [e|] eqn:CF; [|auto].
  rewrite H_emit, G_emit, (class_flag_cred x _ _ _ CF). split; lia.
Qed.

Lemma cred_app x a b : cred x (a ++ b) = cred x a + cred x b.
Proof. induction a; simpl; lia. Qed.
Lemma cred_leaks x l : cred x (map (fun p : N * N => ELeak (fst p) (snd p)) l) = 0.
Proof. induction l; simpl; lia. Qed.

Lemma handle_O b m s pre s' :
  PremO m s -> (forall t, m <> MNew t) -> handle m s = (pre, s') -> lawO b (hmop (HO b) m) s pre s'.
Proof.
  intros PR NN. pose proof PR as [SR HB LIM]. destruct m; cbn [handle]; try (cbn [hmop]).
  - (* MTop *) apply do_top_O.
  - (* MActs *)
    destruct l as [|a l]; [intros Q; injp Q; olaw b|].
    destruct (do_act a s) as [p s1] eqn:E. intros Q; injp Q.
    destruct (do_act_O b _ _ _ _ _ PR E) as [A B]. unfold lawO. rewrite hmops_app. simpl. split; lia.
  - (* MPopFrame *)
    destruct (frames s) as [|fr rest] eqn:F; intros Q; injp Q; olaw b.
  - (* MEndBody *)
    destruct (frames s) as [|fr rest] eqn:F; [intros Q; injp Q; olaw b|].
    intros Q; injp Q. unfold lawO. rewrite hmops_app, hmops_drops.
    assert (T : forall l, l = match f with
            | FNone => []
            | FMeth a => match f_die fr with Some c => [MTerminate a c] | None => [] end
            | FPrep a ready => match f_die fr with
                | Some c => if ready then [MOrphNew a; MTerminate a c; MOrphDrop a] else [MTerminate a c]
                | None => if ready then [MToReady a] else [] end end -> hmops (HO b) l = 0).
    { intros l ->. destruct f; try destruct (f_die fr); try destruct ready; reflexivity. }
    rewrite (T _ eq_refl), H_set_frames, G_set_frames, H_emit, G_emit.
    replace (frames (emit s (EEnd uid))) with (frames s) by reflexivity. rewrite F. osimp. split; lia.
  - (* MRunItem *) apply run_item_O.
  - (* MDropItem *) apply drop_item_O.
  - (* MDropInner *) intros Q; injp Q. unfold lawO. rewrite (hcc_caps (HO b) c). olaw b.
  - (* MDropVal *) apply drop_val_O.
  - (* MDropOwn *)
    intros Q. pose proof (HB a) as HA. cbn [hmop] in HA. rewrite hind_refl in HA. pose proof (hst_nn (HO a) s).
    pose proof (LIM a). pose proof (hind_range (HO a) (HR a)).
    pose proof (drop_own_O b a logged s pre s' SR ltac:(lia) Q) as L. unfold lawO in *. osimp. lia.
  - (* MDropRef *) intros Q. pose proof (drop_ref_O b a s pre s' SR Q) as L. unfold lawO in *. osimp. lia.
  - (* MRetInvoke *) apply ret_invoke_O.
  - intros Q; injp Q; olaw b.
  - intros Q; injp Q; olaw b.
  - intros Q; injp Q; olaw b.
  - intros Q; injp Q; olaw b.
  - (* MTerminate *) apply terminate_O; auto.
  - (* MLogClose *) destruct (aget (actors s) a); intros Q; injp Q; olaw b.
  - (* MToReady *)
    destruct (aget (actors s) a) as [y|] eqn:A; [|intros Q; injp Q; olaw b].
    destruct (a_state y) eqn:SA; try solve [intros Q; injp Q; olaw b].
    intros Q; injp Q. unfold lawO. destruct (cnt_set _ _ (SR _ _ A) (proj2 state_range)) as [_ CS].
    rewrite hmops_runitems, H_emit, G_emit, (H_upd_some _ _ _ _ _ A), (G_upd_some _ _ _ _ _ A).
    rewrite (hactor_unf _ _ _ SA). unfold hactor. osimp. rewrite CS. eqb_split; split; lia.
  - (* MNew *) exfalso. eapply NN; reflexivity.
  - (* MRunIdle *)
    destruct idle; [destruct (idleq s) as [|c r] eqn:IQ|]; intros Q; injp Q; try solve [olaw b].
    unfold lawO. rewrite H_set_idleq, G_set_idleq, IQ. osimp. split; lia.
  - (* MRunMain *)
    destruct (t >? now (set_mainq s [])).
    + destruct (fire t (set_now (set_mainq s []) t)) as [fired s2] eqn:FI. intros Q; injp Q.
      pose proof (H_fire (HO b) _ _ _ _ FI) as A. pose proof (G_fire (HO b) _ _ _ _ FI) as B.
      rewrite H_set_now, H_set_mainq in A. rewrite G_set_now, G_set_mainq in B.
      unfold lawO. rewrite hmops_runitems, hq_app. osimp. split; lia.
    + intros Q; injp Q. unfold lawO. rewrite hmops_runitems, H_set_mainq, G_set_mainq. osimp. split; lia.
  - (* MLoop *)
    destruct (mainq s) as [|c l] eqn:MQ.
    + destruct (lazyq s) as [|c l] eqn:LQ.
      * intros Q; injp Q. destruct (t >? recreate s); olaw b.
      * intros Q; injp Q. unfold lawO. cbn [map app hmops hmop]. rewrite hmops_app, hmops_runitems, H_set_lazyq, G_set_lazyq, LQ. osimp. split; lia.
    + intros Q; injp Q. unfold lawO. cbn [map app hmops hmop]. rewrite hmops_app, hmops_runitems, H_set_mainq, G_set_mainq, MQ. osimp. split; lia.
  - (* MDrain *)
    destruct (i >=? TEARDOWN_ROUNDS).
    + intros Q; injp Q. destruct (is_nil (mainq s)); olaw b.
    + destruct (mainq s) as [|c l] eqn:MQ; intros Q; injp Q; [olaw b|].
      unfold lawO. cbn [map app hmops hmop]. rewrite hmops_app, hmops_dropitems, H_set_mainq, G_set_mainq, MQ. osimp. split; lia.
  - (* MDropFields *)
    intros Q; injp Q.
    set (s0 := if ambiguous (timers s) then emit s (EModel M_AMBIG 1) else s).
    assert (H0 : H (HO b) s0 = H (HO b) s) by (unfold s0; destruct (ambiguous (timers s)); reflexivity).
    assert (G0 : G (HO b) s0 = G (HO b) s) by (unfold s0; destruct (ambiguous (timers s)); [rewrite G_emit; simpl; lia | reflexivity]).
    assert (Q0 : lazyq s0 = lazyq s /\ idleq s0 = idleq s /\ timers s0 = timers s) by (unfold s0; destruct (ambiguous (timers s)); auto).
    destruct Q0 as (Q1 & Q2 & Q3).
    unfold lawO. rewrite hmops_app, hmops_dropitems, !hq_app, hq_map_ti, htim_sort, H_emit, G_emit, H_set_tvars, G_set_tvars,
      H_set_timers, G_set_timers, H_set_idleq, G_set_idleq, H_set_lazyq, G_set_lazyq, H0, G0.
    stsimp. rewrite Q1, Q2, Q3. osimp. split; lia.
  - (* MDropEnd *)
    intros Q; injp Q. destruct (is_nil (mainq s)); olaw b.
  - (* MDropAll *)
    destruct (amin (env s)) as [[h v]|] eqn:AM; intros Q; injp Q; [|olaw b].
    unfold lawO. rewrite H_set_env, G_set_env. pose proof (henv_aget (HO b) _ _ _ (amin_aget _ _ _ AM)). osimp. split; lia.
  - (* MEpilogue *) intros Q; injp Q; olaw b.
  - (* MLeaks *)
    intros Q; injp Q. destruct (HG_class_flags (HO b) s) as [A B]. unfold lawO.
    assert (HS : H (HO b) (set_tr (class_flags s) (rev (leaks (rev (tr (class_flags s)))) ++ tr (class_flags s))) = H (HO b) (class_flags s)).
    { apply H_same; reflexivity. }
    assert (GS : G (HO b) (set_tr (class_flags s) (rev (leaks (rev (tr (class_flags s)))) ++ tr (class_flags s))) = G (HO b) (class_flags s)).
    { Transparent G. unfold G. rewrite (ctr_same (HO b) (class_flags s) (set_tr (class_flags s) _)) by reflexivity.
      cbn [tr set_tr]. rewrite cred_app. unfold leaks. rewrite <- map_rev, cred_leaks. lia. Opaque G. }
    rewrite HS, GS, A, B. osimp. split; lia.
Qed.

(* [MNew]: with the global deferrer the previous main queue is dropped, item by item *)
Lemma new_O b t s pre s' : dk s = DGlobal -> handle (MNew t) s = (pre, s') -> lawO b 0 s pre s'.
Proof.
  cbn [handle]. intros D Q; injp Q. rewrite D. unfold lawO, fresh_stakker.
  Hrw. rewrite hmops_dropitems, H_set_mainq, H_emit. change (mainq (emit s (ENew t))) with (mainq s). cbn [hq cred1]. split; lia.
Qed.

Print Assumptions handle_O.
