(** Layer R proofs: C04, the owner invariant.

    [OI k s]: in every reachable configuration (global / thread-local deferrer, fewer than CMAX-1 events so far),
      - the count field of the packed word of every actor cell is the number of its owner handles anywhere in the
        configuration ([oi_bal], census of Own.v);
      - it is also the number of its invisible owners (slab entries, queued kill! items, un-logged owner drops) plus
        [EOwnNew] minus [EOwnDrop] of the trace ([oi_vis], census of OwnVis.v);
      - it is at most the number of owner increments visible in the trace ([oi_g]), hence below saturation. *)
From Coq Require Import ZArith NArith List Bool Lia.
From Stk Require Import Lib.U Gen.SrcCount Gen.SrcCore Gen.SrcLog R.Syntax R.Rt R.Mon R.Shape R.Eff R.Tags R.Mono R.Count
  R.Nest R.C15Proofs R.C20Proofs R.Calls R.CallInv R.Own R.OwnLaw R.OwnVis R.C04Mon.
Import ListNotations.
Local Open Scope Z_scope.

Lemma H_def x s : H x s = hst x s - ctr x s.
Proof. Transparent H. reflexivity. Opaque H. Qed.
Lemma G_def x s : G x s = cred x (tr s) - ctr x s.
Proof. Transparent G. reflexivity. Opaque G. Qed.
Lemma V_def a s : V a s = ist a s + vcr a (tr s) - ctr (HO a) s.
Proof. Transparent V. reflexivity. Opaque V. Qed.

Record OI (k : list mop) (s : st) : Prop := mkOI {
  oi_bal : forall a, hmops (HO a) k + H (HO a) s = 0;
  oi_vis : forall a, imops a k + V a s = 0;
  oi_g : forall a, 0 <= G (HO a) s }.

Lemma cred_le_len x t : 0 <= cred x t <= Z.of_nat (length t).
Proof.
  induction t as [|e t IH]; simpl length; cbn [cred]; [lia|].
  assert (0 <= cred1 x e <= 1).
  { destruct e; simpl; try lia; try apply hind_range. destruct c; try lia; apply hind_range. }
  lia.
Qed.

Lemma hmops_tops x p : hmops x (map MTop p ++ [MEpilogue]) = 0.
Proof. rewrite hmops_app. simpl. induction p; simpl; lia. Qed.
Lemma imops_tops a p : imops a (map MTop p ++ [MEpilogue]) = 0.
Proof. rewrite imops_app. simpl. induction p; simpl; lia. Qed.

Lemma OI_init d p : OI (map MTop p ++ [MEpilogue]) (init d).
Proof.
  constructor; intros a.
  - rewrite hmops_tops, H_def. reflexivity.
  - rewrite imops_tops, V_def. reflexivity.
  - rewrite G_def. simpl. lia.
Qed.

(* the premises of the laws, from the invariant *)
Lemma OI_prem m k0 s : KS s -> OI (m :: k0) s -> Z.of_nat (length (tr s)) < CMAX - 1 -> PremO m s.
Proof.
  intros KK [B _ GG] LEN. constructor.
  - intros a y A. exact (proj1 (ks_act _ KK a y A)).
  - intros a. specialize (B a). rewrite H_def in B. cbn [hmops] in B. pose proof (hmops_nn (HO a) k0). lia.
  - intros a. specialize (GG a). rewrite G_def in GG. pose proof (cred_le_len (HO a) (tr s)). lia.
Qed.

Theorem step_OI k s k' s' :
  KS s -> dk s = DGlobal -> Z.of_nat (length (tr s)) < CMAX - 1 -> OI k s -> step k s = Some (k', s') -> OI k' s'.
Proof.
  intros KK D LEN I ST. destruct k as [|m k0]; [discriminate|]. simpl in ST.
  destruct (handle m s) as [pre s1] eqn:E. inversion ST; subst; clear ST.
  pose proof (OI_prem _ _ _ KK I LEN) as PR. destruct I as [B VV GG].
  assert (DM : (exists t, m = MNew t) \/ forall t, m <> MNew t).
  { destruct m; try (right; intros t0 Q; discriminate Q). left; eauto. }
  constructor; intros a.
  - specialize (B a). cbn [hmops] in B. rewrite hmops_app. destruct DM as [[t ->]|NN].
    + destruct (new_O a _ _ _ _ D E) as [L _]. cbn [hmop] in B. lia.
    + destruct (handle_O a _ _ _ _ PR NN E) as [L _]. lia.
  - specialize (VV a). cbn [imops] in VV. rewrite imops_app. destruct DM as [[t ->]|NN].
    + pose proof (new_V a _ _ _ _ D E) as L. unfold lawV in L. cbn [imop] in VV. lia.
    + pose proof (handle_V a _ _ _ _ PR NN E) as L. unfold lawV in L. lia.
  - specialize (GG a). destruct DM as [[t ->]|NN].
    + destruct (new_O a _ _ _ _ D E) as [_ L]. lia.
    + destruct (handle_O a _ _ _ _ PR NN E) as [_ L]. lia.
Qed.

(* consequences *)
Lemma OI_census k s a : OI k s -> hmops (HO a) k + hst (HO a) s = ctr (HO a) s.
Proof. intros [B _ _]. specialize (B a). rewrite H_def in B. lia. Qed.

Lemma vcr_vis a t : vcr a t = vis a t.
Proof. induction t as [|e t IH]; [reflexivity|]. cbn [vcr vis]. rewrite IH. destruct e; reflexivity. Qed.

Lemma OI_visible k s a : OI k s -> vis a (tr s) = ctr (HO a) s - (imops a k + ist a s).
Proof. intros [_ VV _]. specialize (VV a). rewrite V_def, vcr_vis in VV. lia. Qed.

Lemma OI_vis_le k s a : OI k s -> vis a (tr s) <= ctr (HO a) s.
Proof. intros I. rewrite (OI_visible _ _ _ I). pose proof (imops_nn a k). pose proof (ist_nn a s). lia. Qed.

Lemma OI_ctr_nn k s a : OI k s -> 0 <= ctr (HO a) s.
Proof. intros I. rewrite <- (OI_census _ _ _ I). pose proof (hmops_nn (HO a) k). pose proof (hst_nn (HO a) s). lia. Qed.

Print Assumptions step_OI.
