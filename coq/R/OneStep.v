(** Layer R proofs: facts about single handlers of the machine that the remaining properties rest on.
    They are the proved PART of C02/C03/C04/C05/C16/C20 (see docs/layer_r.md for what is missing to reach the
    trace-level statements [Cxx_ok (trace) = true], which are validated on real and model traces by the
    checks but not yet proved for all programs). *)
From Coq Require Import ZArith NArith List Bool Lia.
From Stk Require Import Lib.U Gen.SrcCount Gen.SrcCore Gen.SrcLog R.Syntax R.Rt R.Mon R.Shape R.Eff R.Tags R.Count.
Import ListNotations.
Local Open Scope Z_scope.

(** * C02: gating and order of calls, at the level of one item *)

(* a Ready method starts only when the actor cell is Ready; it is held, at the END of the held list, when the
   actor is in Prep; it is discarded when the actor is a Zombie *)
Lemma call_gating u i a b arg caps q s pre s' :
  run_item (CI u i (KMeth a b arg) caps q) s = (pre, s') ->
  match aget (actors s) a with
  | Some x =>
      match a_state x with
      | SReady _ _ _ => tr s' = EMeth a u (now s) :: tr s
      | SPrep held => tr s' = tr s /\ pre = [] /\
                      exists x', aget (actors s') a = Some x' /\ a_state x' = SPrep (held ++ [CI u i (KMeth a b arg) caps q])
      | SZombie => tr s' = tr s /\ pre = [MDropInner (CI u i (KMeth a b arg) caps q); MDropRef a]
      end
  | None => True
  end.
Proof.
  unfold run_item. destruct (aget (actors s) a) as [x|] eqn:A; auto.
  destruct (a_state x) eqn:S; intros E; inversion E; subst; auto.
  repeat split; auto. eexists. split. unfold upd_actor. simpl. apply aget_aset_eq. reflexivity.
Qed.

(* a Prep-style call runs only while the packed state bits say Prep *)
Lemma prep_gating u i a b r caps q s pre s' :
  run_item (CI u i (KPrep a b r) caps q) s = (pre, s') ->
  forall x, aget (actors s) a = Some x ->
  if ob (count_is_prep (a_strong x)) then tr s' = EPrep a u (now s) :: tr s
  else tr s' = tr s /\ pre = [MDropInner (CI u i (KPrep a b r) caps q); MDropRef a].
Proof.
  unfold run_item. intros E x A. rewrite A in E. destruct (ob (count_is_prep (a_strong x))); inversion E; subst; auto.
Qed.

(* becoming Ready runs the held calls at once, in the order they were held *)
Lemma to_ready_flush a s pre s' x held :
  handle (MToReady a) s = (pre, s') -> aget (actors s) a = Some x -> a_state x = SPrep held ->
  pre = map MRunItem held /\ tr s' = EReady a :: tr s /\
  exists x', aget (actors s') a = Some x' /\ a_state x' = SReady [] [] 0%N.
Proof.
  simpl. intros E A S. rewrite A, S in E. inversion E; subst. repeat split; auto.
  eexists. split. unfold upd_actor. simpl. apply aget_aset_eq. reflexivity.
Qed.

(** * C03: termination takes the notifier once *)

Lemma terminate_zombie a c s pre s' x :
  terminate a c s = (pre, s') -> aget (actors s) a = Some x ->
  exists x', aget (actors s') a = Some x' /\ a_state x' = SZombie /\ a_notify x' = None.
Proof.
  unfold terminate. intros E A. rewrite A in E.
  destruct (state_drops a (a_state x) _) as [dl s1] eqn:SD.
  apply state_drops_same in SD as [-> _].
  assert (G : exists x', aget (actors (upd_actor (if a_freed x then emit s (EModel M_UAF a) else s) a
                (mkActor SZombie (oz (count_set_state (a_strong x) STATE_ZOMBIE)) (a_rc x) None (a_logid x) (a_freed x)))) a = Some x'
              /\ a_state x' = SZombie /\ a_notify x' = None).
  { eexists. split. unfold upd_actor. simpl. apply aget_aset_eq. auto. }
  destruct (a_notify x); inversion E; subst; exact G.
Qed.

(* the notifier is invoked by a termination only if it was still there: a second termination is silent *)
Lemma terminate_notifies_once a c s pre s' x :
  terminate a c s = (pre, s') -> aget (actors s) a = Some x ->
  match a_notify x with
  | Some nt => exists dl, pre = dl ++ [MLogClose a c; MRetInvoke nt (Some (MCause c))] /\ poppers dl = []
  | None => poppers pre = [] /\ forall nt m, In (MRetInvoke nt m) pre -> False
  end.
Proof.
  unfold terminate. intros E A. rewrite A in E.
  destruct (state_drops a (a_state x) _) as [dl s1] eqn:SD.
  pose proof SD as SD'. apply state_drops_same in SD' as [-> PD].
  destruct (a_notify x); inversion E; subst.
  - exists dl. split; auto.
  - split; auto. intros nt m H.
    unfold state_drops in SD. destruct (a_state x); inversion SD; subst.
    + apply in_map_iff in H as [y [Y _]]. discriminate.
    + simpl in H. destruct H as [H|H]; [discriminate|]. apply in_app_or in H as [H|H].
      * unfold drops in H. apply in_map_iff in H as [y [Y _]]. discriminate.
      * clear - H. induction slab as [|[c0|n] l IH]; simpl in H; auto. destruct H as [H|H]; [discriminate|auto].
    + contradiction.
Qed.

(* stop / fail: the first request of a body wins *)
Lemma die_first_wins a p loc d rest s pre s' act :
  frames s = mkFrame (XCx a p) loc (Some d) :: rest -> (act = AStop \/ exists e, act = AFail e) ->
  do_act act s = (pre, s') -> exists loc', frames s' = mkFrame (XCx a p) loc' (Some d) :: rest.
Proof.
  intros F [->|[e ->]] E; simpl in E; rewrite F in E; inversion E; subst; eexists; reflexivity.
Qed.

(** * C04: dropping an owner *)

(* the deferred terminate(Dropped) is queued exactly when the translated count says "went to zero" *)
Lemma drop_own_defers a lg s pre s' x v z :
  drop_own a lg s = (pre, s') -> aget (actors (if lg then emit s (EOwnDrop a) else s)) a = Some x ->
  count_dec (a_strong x) = Some (v, z) ->
  pre = [MDropRef a] /\
  mainq s' = if z then mainq s ++ [CI 0 0 (KTerm a) [] None] else mainq s.
Proof.
  unfold drop_own. intros E A D. rewrite A, D in E. destruct z; inversion E; subst; split; auto.
  - unfold push_main, ref_clone. simpl. destruct lg; simpl;
      match goal with |- context [aget ?l a] => destruct (aget l a) as [y|] end; simpl;
      try destruct (a_freed y); reflexivity.
  - destruct lg; reflexivity.
Qed.

(** * C05: a Ret value is consumed by its invocation, which produces its event first *)

Lemma ret_invoke_event r k m s pre s' :
  ret_invoke (Ret r k) m s = (pre, s') ->
  match k with
  | RKClos _ _ | RKTo _ _ | RKSomeTo _ _ => exists evs, tr s' = evs ++ ERet r (msg_num m) :: tr s
  | RKNotify a _ => exists evs, tr s' = evs ++ ENotify a (msg_cause m) :: tr s
  | RKSlab _ _ inner => In (MRetInvoke inner m) pre
  end.
Proof.
  unfold ret_invoke. destruct k.
  - intros E; inversion E; subst. exists []. reflexivity.
  - intros E; inversion E; subst. eexists [_]. reflexivity.
  - destruct m; intros E; inversion E; subst; [eexists [_] | exists []]; reflexivity.
  - destruct inner as [[p ci]|]; intros E; inversion E; subst; [eexists [_] | exists []]; reflexivity.
  - destruct m; intros E; inversion E; subst; simpl; auto.
Qed.

(** * C20: the records of one actor *)

(* creation: the id is the translated successor of the sequence; the Open record (if the filter lets it
   through and a logger is installed) is immediately followed by the creation event *)
Lemma new_actor_records s a nt parent vis :
  let id := oz (log_id_next (logseq s)) in
  tr (new_actor s a nt parent vis) =
    (if vis then [EOwnNew a] else []) ++ EActor a :: tr (log_rec (set_logseq s id) id LOGLEVEL_OPEN parent 0).
Proof. simpl. unfold new_actor. destruct vis; reflexivity. Qed.

(* termination: the Close record carries the actor's id and the marker of the cause, and is pushed right in
   front of the notifier's invocation *)
Lemma close_record a c s x :
  aget (actors s) a = Some x ->
  handle (MLogClose a c) s = ([], log_rec s (a_logid x) LOGLEVEL_CLOSE 0 (marker_of c)).
Proof. intros A. simpl. rewrite A. reflexivity. Qed.

Lemma log_delivery s id lvl parent mk :
  tr (log_rec s id lvl parent mk) = (if allows s lvl && haslogger s then [ELog id lvl parent mk] else []) ++ tr s.
Proof. unfold log_rec. destruct (allows s lvl && haslogger s); reflexivity. Qed.

(** * C16: the actor cell is freed exactly when the translated MinRc table says so *)

Lemma drop_ref_frees a s pre s' x v z :
  drop_ref a s = (pre, s') -> aget (actors s) a = Some x -> a_freed x = false -> minrc_drop (a_rc x) = Some (v, z) ->
  exists x', aget (actors s') a = Some x' /\ a_freed x' = z /\ a_rc x' = v.
Proof.
  unfold drop_ref. intros E A F M. rewrite A, F, M in E. destruct z.
  - destruct (state_drops a (a_state x) _) as [dl s2] eqn:SD. apply state_drops_same in SD as [-> _].
    inversion E; subst. eexists. split. unfold upd_actor, emit. simpl. apply aget_aset_eq. auto.
  - inversion E; subst. eexists. split. unfold upd_actor. simpl. apply aget_aset_eq. auto.
Qed.
