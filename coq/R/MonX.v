(** Layer R: extra executable monitors used by the checks, kept out of [Mon.v] (so that the proofs about [Mon.v] are
    not rebuilt when one is added).

    [C03_dropped_ok]: the part of C03's "the notifier is invoked with the cause of a termination request that was
    actually issued" that concerns the cause [Dropped].  The request behind [Dropped] is the loss of the last owner;
    [step03] (Mon.v) only checks that no stop/fail was expected instead.  This monitor counts the visible owner handles
    of every actor ([EOwnNew] - [EOwnDrop]) and requires the count to be <= 0 when [ENotify a (Some CDrop)] happens.
    It is the first clause of the C04 monitor's Notify check ([chkN1] of C04A3.v) written as a chronological fold;
    [R/C03D.v] proves the two equal and hence the monitor true of every run of the machine. *)
From Coq Require Import ZArith NArith List Bool.
From Stk Require Import R.Syntax R.Rt R.Mon.
Import ListNotations.
Local Open Scope Z_scope.

Definition zget (l : list (N * Z)) (a : N) : Z := match nget l a with Some z => z | None => 0 end.

Definition stepD (s : list (N * Z)) (e : ev) : option (list (N * Z)) :=
  match e with
  | EOwnNew a => Some (nset s a (zget s a + 1))
  | EOwnDrop a => Some (nset s a (zget s a - 1))
  | ENotify a (Some CDrop) => guard (zget s a <=? 0) s
  | _ => Some s
  end.

Definition C03_dropped_ok (t : list ev) : bool := fold_mon stepD (fun _ => true) [] t.


(** [C03_none_ok]: a notifier is answered [None] (its Ret was dropped without being sent) only for an actor that was
    NOT terminated: when an actor cell is freed without termination its fields are dropped in declaration order, the
    notifier before the value, so [ENotify a None] precedes [EValDrop a]; a termination drops the value first and then
    SENDS the cause.  Hence "[ENotify a None] after [EValDrop a]" means a cause that was owed got lost.
    NOT PROVED of the model (validated on every model trace by the check, like the real traces). *)
Definition stepNone (s : list N) (e : ev) : option (list N) :=
  match e with
  | EValDrop a => Some (a :: s)
  | ENotify a None => guard (negb (nmem a s)) s
  | _ => Some s
  end.

Definition C03_none_ok (t : list ev) : bool := fold_mon stepNone (fun _ => true) [] t.
