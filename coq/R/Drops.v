(** Layer R proofs, part 4: which closures the continuation is about to drop un-run.

    Outside the field phase of [Stakker::drop], the only tagged plain closures dropped un-run are main-queue
    closures, and only in the batches made by the drain loop of [Stakker::drop] and by [Stakker::new];
    everything else that the handlers push for dropping is a call or sits in no queue. *)
From Coq Require Import ZArith NArith List Bool Lia.
From Stk Require Import Lib.U Gen.SrcCount Gen.SrcCore Gen.SrcLog R.Syntax R.Rt R.Shape R.Eff R.Tags.
Import ListNotations.
Local Open Scope Z_scope.

Definition okdrop (mo : mop) : Prop :=
  match mo with MDropItem c => ci_call c = true \/ ci_sq c = None | _ => True end.

Definition maindrop (mo : mop) : Prop :=
  match mo with MDropItem c => ci_call c = false -> ci_sq c = Some QMain \/ ci_sq c = None | _ => True end.

Definition drop_tags (k : list mop) : Prop :=
  match phase_of k with
  | Some PDropEnd => True
  | Some (PDrain _) | Some PTop => Forall maindrop (work_of k)
  | Some _ => Forall okdrop (work_of k)
  | None => True
  end.

Lemma okdrop_maindrop mo : okdrop mo -> maindrop mo.
Proof. destruct mo; simpl; auto. intros [H|H] C; [congruence | auto]. Qed.

Lemma Forall_ok_main l : Forall okdrop l -> Forall maindrop l.
Proof. intros H. eapply Forall_impl; [|exact H]. apply okdrop_maindrop. Qed.

Lemma ok_drops l : Forall okdrop (drops l).
Proof. apply Forall_forall. intros x H. apply in_map_iff in H as [y [<- _]]. exact I. Qed.

Lemma ok_slab_drops l : Forall okdrop (slab_drops l).
Proof. induction l as [|[c|n] l IH]; simpl; auto. constructor; simpl; auto. Qed.

Lemma ok_held l : Forall is_callb l -> Forall okdrop (map MDropItem l).
Proof. intros H. induction H; simpl; constructor; auto. simpl. left. exact H. Qed.

Lemma inst_sq c mk s ci s' : inst c mk s = (ci, s') -> ci_sq ci = None.
Proof. unfold inst. destruct (take_caps (clo_caps c) s). intros E; inversion E; reflexivity. Qed.

Lemma unq_sq c : ci_sq (ci_unq c) = None.
Proof. destruct c; reflexivity. Qed.

Lemma bind_ok s h v l s' : bind s h v = (l, s') -> Forall okdrop l.
Proof. unfold bind. destruct (aget (env s) h); intros E; inversion E; repeat constructor. Qed.

Lemma bad_ok s c l s' : bad s c = (l, s') -> Forall okdrop l.
Proof. unfold bad. intros E; inversion E; constructor. Qed.

Ltac ok_tac :=
  intros;
  match goal with
  | E : (_, _) = (_, _) |- _ => inversion E; subst; clear E
  | _ => idtac
  end;
  first [ eapply bind_ok; eassumption | eapply bad_ok; eassumption
        | repeat (first [ apply Forall_nil | apply Forall_cons | apply ok_drops | apply ok_slab_drops ]); simpl; auto ].

Lemma do_act_ok a s l s' : do_act a s = (l, s') -> Forall okdrop l.
Proof.
  unfold do_act. destruct a; repeat dest_match; try solve [ok_tac].
  all: intros E; inversion E; subst; clear E; repeat (first [apply Forall_cons | apply Forall_nil]); simpl; auto.
  all: try (right; eapply inst_sq; eassumption).
  all: try (right; apply unq_sq).
Qed.

Lemma state_drops_ok a sa s l s' : state_drops a sa s = (l, s') -> (forall h, sa = SPrep h -> Forall is_callb h) -> Forall okdrop l.
Proof.
  unfold state_drops. destruct sa; intros E H; inversion E; subst.
  - apply ok_held. eapply H; eauto.
  - constructor; simpl; auto. apply Forall_app; split; [apply ok_drops | apply ok_slab_drops].
  - constructor.
Qed.

Lemma held_calls s a x : QTags s -> aget (actors s) a = Some x -> forall h, a_state x = SPrep h -> Forall is_callb h.
Proof. intros Q A h E. pose proof (qt_held _ Q _ _ A) as G. unfold held_of in G. rewrite E in G. exact G. Qed.

Lemma handle_ok mo s pre s' : is_work mo = true -> QTags s -> handle mo s = (pre, s') -> Forall okdrop pre.
Proof.
  intros W Q H. destruct mo; try discriminate W; simpl in H.
  - destruct l as [|a l]; [inversion H; constructor|].
    destruct (do_act a s) as [p s1] eqn:E. inversion H; subst. apply Forall_app; split.
    eapply do_act_ok; eauto. repeat constructor.
  - destruct (frames s); inversion H; subst; [constructor | apply ok_drops].
  - destruct (frames s) as [|fr rest]; inversion H; subst; [constructor|].
    apply Forall_app; split; [apply ok_drops|]. destruct f; [constructor | destruct (f_die fr); repeat constructor |
      destruct (f_die fr); destruct ready; repeat constructor].
  - revert H. unfold run_item. destruct c as [u i kd caps q]. destruct kd; repeat dest_match; intros H; inversion H; subst; repeat constructor.
  - unfold drop_item in H. destruct c as [u i kd caps q]. destruct kd; inversion H; subst; try apply ok_drops; repeat (first [apply Forall_cons | apply Forall_nil]); simpl; auto.
  - inversion H; subst. apply ok_drops.
  - revert H. unfold drop_val. destruct v; repeat dest_match; intros H; inversion H; subst; repeat constructor.
  - revert H. unfold drop_own. repeat dest_match; intros H; inversion H; subst; repeat constructor.
  - unfold drop_ref in H. destruct (aget (actors s) a) as [x|] eqn:AX; [|inversion H; constructor].
    destruct (a_freed x); [inversion H; constructor|].
    destruct (minrc_drop (a_rc x)) as [[v z]|]; [|inversion H; constructor].
    destruct z; [|inversion H; constructor].
    destruct (state_drops a (a_state x) _) as [dl s2] eqn:SD. inversion H; subst.
    apply Forall_app; split. destruct (a_notify x); repeat constructor.
    eapply state_drops_ok; eauto. intros h Eh. eapply held_calls; eauto.
  - revert H. unfold ret_invoke. destruct r as [rid kd]. destruct kd; repeat dest_match; intros H; inversion H; subst; repeat constructor.
  - inversion H; constructor.
  - inversion H; constructor.
  - inversion H; constructor.
  - inversion H; constructor.
  - unfold terminate in H. destruct (aget (actors s) a) as [x|] eqn:AX; [|inversion H; constructor].
    destruct (state_drops a (a_state x) _) as [dl s2] eqn:SD.
    assert (G : Forall okdrop dl). { eapply state_drops_ok; eauto. intros h Eh. eapply held_calls; eauto. }
    destruct (a_notify x); inversion H; subst; auto. apply Forall_app; split; auto. repeat constructor.
  - destruct (aget (actors s) a); inversion H; constructor.
  - destruct (aget (actors s) a) as [x|]; [destruct (a_state x)|]; inversion H; subst; try constructor.
    apply Forall_forall. intros y Hy. apply in_map_iff in Hy as [c0 [<- _]]. exact I.
Qed.

Lemma main_ok_maindrop l : Forall main_ok l -> Forall maindrop (map MDropItem l).
Proof. intros H. induction H; simpl; constructor; auto. simpl. intros C. left. apply H; auto. Qed.

Lemma ok_runitems l : Forall okdrop (map MRunItem l).
Proof. apply Forall_forall. intros y Hy. apply in_map_iff in Hy as [c0 [<- _]]. exact I. Qed.

Lemma drop_tags_tops r : tops r = true -> drop_tags r.
Proof. intros T. unfold drop_tags. rewrite tops_phase, tops_work_of; auto. Qed.

Lemma drop_tags_work w r : forallb is_work w = true -> tops r = true -> Forall maindrop w -> drop_tags (w ++ r).
Proof.
  intros W T F. unfold drop_tags. rewrite phase_of_work, tops_phase; auto.
  rewrite work_of_app, tops_work_of, app_nil_r; auto.
Qed.

Theorem step_drop_tags k s k' s' :
  shape k -> Tags k s -> drop_tags k -> step k s = Some (k', s') -> drop_tags k'.
Proof.
  intros SH T D H. apply Tags_split in T as [Q _].
  destruct k as [|mo k0]; [discriminate|]. simpl in H.
  destruct (handle mo s) as [pre s1] eqn:E. inversion H; subst; clear H.
  destruct (is_work mo) eqn:W.
  - (* work *)
    destruct (handle_work _ _ _ _ W E) as [PW _].
    destruct (work_step_phase mo k0 pre W PW) as [X [Y Z]].
    pose proof (handle_ok _ _ _ _ W Q E) as OK.
    unfold drop_tags in *. rewrite X, Z. rewrite Y in D.
    destruct (phase_of (mo :: k0)) as [[]|]; auto.
    all: inversion D; subst; apply Forall_app; split; auto using Forall_ok_main.
  - (* phase / top micro-ops *)
    destruct SH as [p [PH _]]. unfold phase_of in PH. simpl in PH. rewrite W in PH.
    pose proof Q as [QA QB QC QD QH].
    destruct mo; try discriminate W; simpl in E.
    + simpl in PH. destruct (tops k0) eqn:T; [|discriminate].
      unfold do_top in E. destruct o.
      * destruct (alive s); inversion E; subst; apply drop_tags_tops; simpl; auto.
      * destruct (alive s); [|unfold bad in E]; inversion E; subst.
        -- unfold drop_tags, phase_of. simpl. rewrite Z.eqb_refl, T. simpl. constructor.
        -- apply drop_tags_tops; auto.
      * inversion E; subst. apply drop_tags_work; auto. repeat constructor.
      * destruct (alive s); inversion E; subst.
        -- unfold drop_tags, phase_of. simpl. rewrite T. constructor.
        -- apply drop_tags_tops; auto.
      * inversion E; subst. apply drop_tags_tops; simpl; auto.
      * destruct (alive s); [|unfold bad in E]; inversion E; subst; apply drop_tags_tops; auto.
      * destruct (alive s); [|unfold bad in E]; inversion E; subst; apply drop_tags_tops; auto.
    + simpl in PH. destruct (tops k0) eqn:T; [|discriminate]. inversion E; subst.
      apply drop_tags_work; auto. apply work_map_dropitem.
      destruct (dk s); [apply main_ok_maindrop; auto | constructor].
    + destruct k0 as [|m1 k1]; [discriminate|]. destruct m1; try discriminate PH.
      destruct k1 as [|m2 k2]; [discriminate|]. destruct m2; try discriminate PH.
      destruct ((t =? t0) && tops k2) eqn:T; [|discriminate].
      destruct idle; [destruct (idleq s)|]; inversion E; subst; unfold drop_tags, phase_of; simpl; rewrite T; simpl; repeat constructor.
    + destruct k0 as [|m1 k1]; [discriminate|]. destruct m1; try discriminate PH.
      destruct ((t =? t0) && tops k1) eqn:T; [|discriminate]. apply andb_prop in T as [_ T].
      assert (L : forall l, drop_tags (map MRunItem l ++ MLoop t0 :: k1)).
      { intros l. unfold drop_tags. rewrite phase_of_work by apply work_map_runitem.
        unfold phase_of. simpl. rewrite T. rewrite work_of_app by apply work_map_runitem. simpl. rewrite app_nil_r.
        apply ok_runitems. }
      destruct (t >? now s); inversion E; subst; apply L.
    + destruct (tops k0) eqn:T; [|discriminate].
      assert (L : forall l, drop_tags ((map MRunItem l ++ [MLoop t]) ++ k0)).
      { intros l. rewrite <- app_assoc. simpl. unfold drop_tags. rewrite phase_of_work by apply work_map_runitem.
        unfold phase_of. simpl. rewrite T. rewrite work_of_app by apply work_map_runitem. simpl. rewrite app_nil_r.
        apply ok_runitems. }
      destruct (mainq s) as [|c l] eqn:M; [destruct (lazyq s) as [|c l] eqn:LQ|]; inversion E; subst.
      * apply drop_tags_tops; auto.
      * apply (L (c :: l)).
      * apply (L (c :: l)).
    + destruct (tops k0) eqn:T; [|discriminate].
      destruct (i >=? TEARDOWN_ROUNDS).
      * inversion E; subst. unfold drop_tags, phase_of. simpl. rewrite T. constructor.
      * destruct (mainq s) as [|c l] eqn:M; inversion E; subst.
        -- unfold drop_tags, phase_of. simpl. rewrite T. constructor.
        -- match goal with |- drop_tags ?k => replace k with (map MDropItem (c :: l) ++ MDrain (i + 1) :: k0)
             by (simpl; rewrite <- app_assoc; reflexivity) end.
           unfold drop_tags. rewrite phase_of_work by apply work_map_dropitem.
           unfold phase_of. simpl. rewrite T. rewrite work_of_app by apply work_map_dropitem. simpl. rewrite app_nil_r.
           apply (main_ok_maindrop (c :: l)). auto.
    + destruct (tops k0) eqn:T; [|discriminate]. inversion E; subst.
      rewrite <- app_assoc. simpl. unfold drop_tags. rewrite phase_of_work by apply work_map_dropitem.
      unfold phase_of. simpl. rewrite T. exact I.
    + destruct (tops k0) eqn:T; [|discriminate]. inversion E; subst. apply drop_tags_tops; auto.
    + simpl in PH. destruct (tops k0) eqn:T; [|discriminate].
      destruct (amin (env s)) as [[h v]|]; inversion E; subst.
      * apply (drop_tags_work [MDropVal v] (MDropAll :: k0)); auto. repeat constructor.
      * apply drop_tags_tops; auto.
    + simpl in PH. destruct (tops k0) eqn:T; [|discriminate]. inversion E; subst. apply drop_tags_tops; simpl; auto.
    + simpl in PH. destruct (tops k0) eqn:T; [|discriminate]. inversion E; subst. apply drop_tags_tops; auto.
Qed.

Lemma drop_tags_init p : drop_tags (map MTop p ++ [MEpilogue]).
Proof. apply drop_tags_tops. unfold tops. rewrite forallb_app. simpl. rewrite andb_true_r. induction p; simpl; auto. Qed.
