(** Layer R proofs: C04, second clause (first half): an actor that lost its last visible owner while a Stakker is up
    is terminated (notified) by the time the run returns.  Part 1: the events that matter, per micro-op. *)
From Coq Require Import ZArith NArith List Bool Lia.
From Stk Require Import R.LinEvs R.LinC03K R.Lin R.LinAct R.LinLaw R.LinStep R.C06cProofs R.C02Proofs.
From Stk Require Import Lib.U Gen.SrcCount Gen.SrcCore Gen.SrcLog R.Syntax R.Rt R.Mon R.Shape R.Eff R.Tags R.Mono R.Count
  R.Nest R.C15Proofs R.C20Proofs R.Calls R.CallInv R.Own R.OwnLaw R.OwnVis R.C04Mon R.C04Base R.C04A R.C04Ceq R.C04SK R.C04A2 R.C04A3.
Import ListNotations.
Local Open Scope Z_scope.

Arguments submit : simpl never.
Arguments push_main : simpl never.
Arguments timer_add : simpl never.
Arguments emit : simpl never.
Arguments upd_actor : simpl never.
Arguments ref_clone : simpl never.
Arguments new_actor : simpl never.
Arguments log_rec : simpl never.
Arguments tok_script : simpl never.
Arguments target_ev : simpl never.
Arguments push_frame : simpl never.

(* ------------------------------------------------------------------ *)
(** * Events that move [o_must], [o_alive], [o_slabkid], the visible count *)

Definition pbB (e : ev) : bool :=
  match e with
  | ENew _ | EDropBegin | ERunRet _ | EOwnDrop _ | EOwnNew _ | ESlabAdd _ _ => false
  | _ => true
  end.

Lemma upd04_neutral s e : pbB e = true ->
  o_must (upd04 s e) = o_must s /\ o_alive (upd04 s e) = o_alive s /\ o_slabkid (upd04 s e) = o_slabkid s /\
  forall a, vis1 a e = 0.
Proof.
  destruct e; try discriminate; intros _; cbn [upd04 vis1]; repeat split; dmatch.
Qed.

Lemma st04_neutral evs t : forallb pbB evs = true ->
  o_must (st04 (evs ++ t)) = o_must (st04 t) /\ o_alive (st04 (evs ++ t)) = o_alive (st04 t) /\
  o_slabkid (st04 (evs ++ t)) = o_slabkid (st04 t) /\ forall a, vis a (evs ++ t) = vis a t.
Proof.
  induction evs as [|e evs IH]; intros F; [repeat split|]. simpl in F. apply andb_prop in F as [F1 F2].
  destruct (IH F2) as (A & B & C & D). destruct (upd04_neutral (st04 (evs ++ t)) e F1) as (A1 & B1 & C1 & D1).
  cbn [app st04 vis]. repeat split; try congruence. intros a. rewrite D1, D. lia.
Qed.

Lemma notified_mono evs t a : In a (o_notified (st04 t)) -> In a (o_notified (st04 (evs ++ t))).
Proof. intros H. apply st04_notified in H as [c H]. apply st04_notified. exists c. apply in_or_app. auto. Qed.

(* obligations exist only while the monitor sees a live Stakker *)
Lemma must_alive t : o_alive (st04 t) = false -> o_must (st04 t) = [].
Proof.
  induction t as [|e t IH]; [reflexivity|]. cbn [st04].
  destruct e; cbn [upd04]; try exact IH; try reflexivity; try discriminate.
  all: try (repeat match goal with |- context [match ?x with _ => _ end] => destruct x end; try exact IH; cbn [o_alive o_must]; auto; fail).
  - intros A. cbn [o_alive o_must] in *. rewrite A, andb_false_r. apply IH. exact A.
Qed.

Ltac eiB := repeat ei_step.

Definition one_ev (s s' : st) (e : ev) : Prop := exists s1, evs_in pbB s s1 /\ evs_in pbB (emit s1 e) s'.

Definition evok (m : mop) (s : st) (e : ev) : Prop :=
  match e with
  | ENew t => m = MNew t
  | EDropBegin => m = MTop TDropStakker
  | ERunRet _ => exists t, m = MLoop t /\ mainq s = [] /\ lazyq s = []
  | EOwnDrop a => m = MDropOwn a true
  | EOwnNew a => exists l, (exists h n, m = MActs (ANewActor h a n :: l) /\ aget (actors s) a = None) \/
                           (exists h h2, m = MActs (AOwned h h2 :: l) /\ lookup s h = Some (HOwn a))
  | ESlabAdd p a => exists h n l, m = MActs (ASlabAdd h a n :: l) /\ aget (actors s) a = None
  | _ => False
  end.

Definition evB (m : mop) (s s' : st) : Prop :=
  evs_in pbB s s' \/ exists e, pbB e = false /\ one_ev s s' e /\ evok m s e.

Lemma leaks_pbB t : forallb pbB (rev (leaks t)) = true.
Proof. unfold leaks. rewrite <- map_rev. induction (rev (live_after t [])); simpl; auto. Qed.

Lemma ei_bind_B s0 s h v l s' : evs_in pbB s0 s -> bind s h v = (l, s') -> evs_in pbB s0 s'.
Proof. apply ei_bind. Qed.

Lemma ei_new_actor_inv (pb : ev -> bool) s0 s a nt parent :
  (forall a b c d, pb (ELog a b c d) = true) -> (forall a, pb (EActor a) = true) ->
  evs_in pb s0 s -> evs_in pb s0 (new_actor s a nt parent false).
Proof.
  intros P1 P2 H. unfold new_actor. apply ei_emit; [|apply P2].
  eapply ei_same; [|reflexivity]. apply ei_log_rec; [exact P1|]. eapply ei_same; [exact H | reflexivity].
Qed.

Lemma do_act_evB act l s pre s' : do_act act s = (pre, s') -> evB (MActs (act :: l)) s s'.
Proof.
  unfold do_act, evB. destruct act.
  all: try solve [left; revert H; repeat dest_match; intros Q; try injp Q; eiB].
  all: intros Q.
  - (* ANewActor *)
    revert Q. destruct (has_core s); [|intros Q; injp Q; left; eiB].
    destruct (aget (actors s) a) eqn:AA; [intros Q; injp Q; left; eiB|].
    destruct (mk_notifier s a n) as [nt s1] eqn:MK. intros Q.
    right. exists (EOwnNew a). split; [reflexivity|]. split.
    + unfold new_actor in Q.
      eexists. split; [|eapply ei_bind; [|exact Q]; apply ei_refl].
      eiB.
    + cbn [evok]. exists l. left. eauto.
  - (* AOwned *)
    revert Q. destruct (lookup s h) as [[p|p|p|r|f|t sc]|] eqn:LK; try solve [intros Q; injp Q; left; eiB].
    destruct (aget (actors s) p) as [y|] eqn:AY; [|intros Q; injp Q; left; eiB].
    intros Q. right. exists (EOwnNew p). split; [reflexivity|]. split.
    + eexists. split; [|eapply ei_bind; [|exact Q]; apply ei_refl]. eiB.
    + cbn [evok]. exists l. right. eauto.
  - (* ASlabAdd *)
    revert Q. destruct (cur_ctx s) as [|p pr|] eqn:CC; try solve [intros Q; injp Q; left; eiB]. destruct pr; try solve [intros Q; injp Q; left; eiB].
    destruct (alive s); try solve [intros Q; injp Q; left; eiB].
    destruct (aget (actors s) p) as [px|] eqn:AP; try solve [intros Q; injp Q; left; eiB].
    destruct (aget (actors s) a) eqn:AA; try solve [intros Q; injp Q; left; eiB].
    destruct (a_state px) eqn:SP; try solve [intros Q; injp Q; left; eiB].
    destruct (mk_notifier s a n) as [inner s1] eqn:MK.
    destruct (slab_insert slab snext a) as [[slab' nx'] key] eqn:SI.
    intros Q. right. exists (ESlabAdd p a). split; [reflexivity|]. split.
    + eexists. split; [|eapply ei_bind; [|exact Q]; apply ei_refl].
      match goal with |- evs_in _ _ (match ?x with _ => _ end) => destruct x end; eiB;
        (apply ei_new_actor_inv; [intros; reflexivity | intros; reflexivity | eiB]).
    + cbn [evok]. eauto 6.
Qed.

Lemma handle_evB m s pre s' : handle m s = (pre, s') -> evB m s s'.
Proof.
  intros H. destruct m; cbn [handle] in H.
  - (* MTop *)
    unfold do_top in H. destruct o; try solve [left; revert H; repeat dest_match; unfold bad; intros Q; injp Q; eiB].
    destruct (alive s); injp H; [|left; eiB].
    right. exists EDropBegin. split; [reflexivity|]. split; [|reflexivity].
    exists s. split; apply ei_refl.
  - destruct l as [|act l]; [left; injp H; eiB|].
    destruct (do_act act s) as [p s1] eqn:E. injp H. eapply do_act_evB; eauto.
  - left. revert H. destruct (frames s); intros Q; injp Q; eiB.
  - left. revert H. destruct (frames s); intros Q; injp Q; eiB.
  - left. revert H. unfold run_item. destruct c as [u i kd caps q]. destruct kd; repeat dest_match; intros Q; injp Q; eiB.
  - left. revert H. unfold drop_item. destruct c as [u i kd caps q]. destruct kd; intros Q; injp Q; eiB.
  - left. injp H; eiB.
  - left. revert H. unfold drop_val. destruct v; repeat dest_match; intros Q; injp Q; eiB.
  - (* MDropOwn *)
    unfold drop_own in H. destruct logged.
    + right. exists (EOwnDrop a). split; [reflexivity|]. split; [|reflexivity].
      exists s. split; [apply ei_refl|]. revert H. repeat dest_match; intros Q; injp Q; eiB.
    + left. revert H. repeat dest_match; intros Q; injp Q; eiB.
  - left. revert H. unfold drop_ref. destruct (aget (actors s) a) as [y|]; [|intros Q; injp Q; eiB].
    destruct (a_freed y); [intros Q; injp Q; eiB|]. destruct (minrc_drop (a_rc y)) as [[v z]|]; [|intros Q; injp Q; eiB].
    destruct z; [|intros Q; injp Q; eiB].
    destruct (state_drops a (a_state y) _) as [dl s2] eqn:SD. intros Q; injp Q.
    destruct (state_drops_h (HO 0) _ _ _ _ _ SD) as [-> _]. eiB.
  - left. revert H. unfold ret_invoke. destruct r as [rid k]. destruct k; repeat dest_match; intros Q; injp Q; eiB.
  - left. injp H; eiB.
  - left. injp H; eiB.
  - left. injp H; eiB.
  - left. injp H; eiB.
  - left. revert H. unfold terminate. destruct (aget (actors s) a) as [y|]; [|intros Q; injp Q; eiB].
    destruct (state_drops a (a_state y) _) as [dl s1] eqn:SD.
    destruct (state_drops_h (HO 0) _ _ _ _ _ SD) as [-> _].
    destruct (a_notify y); intros Q; injp Q; eiB.
  - left. revert H. destruct (aget (actors s) a); intros Q; injp Q; eiB.
  - left. revert H. destruct (aget (actors s) a) as [y|]; [destruct (a_state y)|]; intros Q; injp Q; eiB.
  - (* MNew *)
    injp H. right. exists (ENew t). split; [reflexivity|]. split; [|reflexivity].
    exists s. split; [apply ei_refl|]. unfold fresh_stakker. eiB.
  - left. revert H. destruct idle; [destruct (idleq s)|]; intros Q; injp Q; eiB.
  - left. revert H. destruct (t >? now (set_mainq s [])).
    + destruct (fire t (set_now (set_mainq s []) t)) as [fired s2] eqn:FI. unfold fire in FI. injection FI as ? ?; subst.
      intros Q; injp Q; eiB.
    + intros Q; injp Q; eiB.
  - (* MLoop *)
    destruct (mainq s) as [|c l] eqn:MQ; [destruct (lazyq s) as [|c l] eqn:LQ|]; injp H; try solve [left; eiB].
    right. eexists (ERunRet _). split; [reflexivity|]. split; [|cbn [evok]; eauto].
    eexists. split; [|apply ei_refl]. destruct (t >? recreate s); eiB.
  - left. revert H. repeat dest_match; intros Q; injp Q; eiB.
  - left. revert H. cbv zeta. intros Q; injp Q; eiB.
  - left. revert H. repeat dest_match; intros Q; injp Q; eiB.
  - left. revert H. repeat dest_match; intros Q; injp Q; eiB.
  - left. injp H; eiB.
  - left. injp H.
    destruct (class_flags_tr s) as (evs & TE & FE & _).
    exists (rev (leaks (rev (tr (class_flags s)))) ++ evs). cbn [tr set_tr]. rewrite TE, app_assoc. split; [reflexivity|].
    rewrite forallb_app, leaks_pbB. simpl. clear TE. induction FE as [|e l (c & a & -> & _) FE IH]; simpl; auto.
Qed.
