(** Layer R proofs: which events a state operation appends to the trace.

    [evs_in pb s s']: the trace of [s'] extends that of [s] by events that all satisfy the boolean predicate
    [pb].  Right-extension lemmas for every helper of Rt.v and a tactic composing them; side conditions of the
    form [pb (EClo u c) = true] are discharged by computation, so the tactic succeeds exactly on the handlers
    that emit only events of the shapes accepted by [pb]. *)
From Coq Require Import ZArith NArith List Bool Lia.
From Stk Require Import Lib.U Gen.SrcCount Gen.SrcCore Gen.SrcLog R.Syntax R.Rt R.Shape.
Import ListNotations.
Local Open Scope Z_scope.

Section Evs.
Variable pb : ev -> bool.

Definition evs_in (s s' : st) : Prop := exists evs, tr s' = evs ++ tr s /\ forallb pb evs = true.

Lemma ei_refl s : evs_in s s.
Proof. exists []. split; reflexivity. Qed.

Lemma ei_trans a b c : evs_in a b -> evs_in b c -> evs_in a c.
Proof. intros [x [X1 X2]] [y [Y1 Y2]]. exists (y ++ x). rewrite Y1, X1, app_assoc, forallb_app, X2, Y2. split; reflexivity. Qed.

Lemma ei_same s0 s s' : evs_in s0 s -> tr s' = tr s -> evs_in s0 s'.
Proof. intros [x [X1 X2]] E. exists x. rewrite E. auto. Qed.

Lemma ei_emit s0 s e : evs_in s0 s -> pb e = true -> evs_in s0 (emit s e).
Proof. intros [x [X1 X2]] E. exists (e :: x). simpl. rewrite X1, E, X2. split; reflexivity. Qed.

Lemma ei_take s0 s h o s' : evs_in s0 s -> take s h = (o, s') -> evs_in s0 s'.
Proof.
  intros H T. eapply ei_same; [exact H|]. revert T. unfold take.
  repeat dest_match; intros Q; inversion Q; reflexivity.
Qed.

Lemma ei_take_caps ids : forall s0 s l s', evs_in s0 s -> take_caps ids s = (l, s') -> evs_in s0 s'.
Proof.
  induction ids as [|h r IH]; simpl; intros s0 s l s' H E.
  - inversion E; subst; auto.
  - destruct (take s h) as [[v|] s1] eqn:T.
    + destruct (take_caps r s1) as [l2 s2] eqn:T2. inversion E; subst. eapply IH; [|eauto]. eapply ei_take; eauto.
    + eapply IH; [|eauto]. eapply ei_take; eauto.
Qed.

Lemma ei_take_env_caps ids : forall s0 s l s', evs_in s0 s -> take_env_caps ids s = (l, s') -> evs_in s0 s'.
Proof.
  induction ids as [|h r IH]; simpl; intros s0 s l s' H E.
  - inversion E; subst; auto.
  - destruct (aget (env s) h).
    + destruct (take_env_caps r (set_env s (adel (env s) h))) as [l2 s2] eqn:T2. inversion E; subst.
      eapply IH; [|eauto]. eapply ei_same; [exact H | reflexivity].
    + eapply IH; eauto.
Qed.

Lemma ei_bind s0 s h v l s' : evs_in s0 s -> bind s h v = (l, s') -> evs_in s0 s'.
Proof. intros H. unfold bind. destruct (aget (env s) h); intros Q; inversion Q; subst; (eapply ei_same; [exact H | reflexivity]). Qed.

Lemma ei_bad s0 s c l s' : (forall c, pb (EBad c) = true) -> evs_in s0 s -> bad s c = (l, s') -> evs_in s0 s'.
Proof. intros P H. unfold bad. intros Q; inversion Q; subst. apply ei_emit; auto. Qed.

Lemma ei_inst c mk s0 s ci s' : (forall u i, pb (EClo u i) = true) -> evs_in s0 s -> inst c mk s = (ci, s') -> evs_in s0 s'.
Proof.
  intros P H. unfold inst. destruct (take_caps (clo_caps c) s) as [caps s1] eqn:T. intros Q; inversion Q; subst.
  apply ei_emit; auto. eapply ei_same; [eapply ei_take_caps; eauto | reflexivity].
Qed.

Lemma ei_target_ev s0 s ci : (forall u a p, pb (ETarget u a p) = true) -> evs_in s0 s -> evs_in s0 (target_ev s ci).
Proof. intros P H. unfold target_ev. destruct ci as [u i kd caps q]. destruct kd; auto; apply ei_emit; auto. Qed.

Lemma ei_inst_call c mk s0 s ci s' :
  (forall u i, pb (EClo u i) = true) -> (forall u a p, pb (ETarget u a p) = true) ->
  evs_in s0 s -> inst_call c mk s = (ci, s') -> evs_in s0 s'.
Proof.
  intros P1 P2 H. unfold inst_call. destruct (inst c mk s) as [ci1 s1] eqn:I. intros Q; inversion Q; subst.
  apply ei_target_ev; auto. eapply ei_inst; eauto.
Qed.

Lemma ei_inst_nocaps c mk s0 s ci s' : (forall u i, pb (EClo u i) = true) -> evs_in s0 s -> inst_nocaps c mk s = (ci, s') -> evs_in s0 s'.
Proof. intros P H. unfold inst_nocaps. intros Q; inversion Q; subst. apply ei_emit; [|apply P]. eapply ei_same; [exact H | reflexivity]. Qed.

Lemma ei_inst_env c mk s0 s ci s' : (forall u i, pb (EClo u i) = true) -> evs_in s0 s -> inst_env c mk s = (ci, s') -> evs_in s0 s'.
Proof.
  intros P H. unfold inst_env. destruct (take_env_caps (clo_caps c) s) as [caps s1] eqn:T. intros Q; inversion Q; subst.
  apply ei_emit; auto. eapply ei_same; [eapply ei_take_env_caps; eauto | reflexivity].
Qed.

Lemma ei_push_main s0 s ci : evs_in s0 s -> evs_in s0 (push_main s ci).
Proof. intros H. eapply ei_same; [exact H | reflexivity]. Qed.

Lemma ei_submit s0 s q ci : (forall u c, pb (ESub q u c) = true) -> evs_in s0 s -> evs_in s0 (submit s q ci).
Proof.
  intros P H. unfold submit. destruct q; (eapply ei_same; [apply ei_emit; [exact H | apply P] | reflexivity]).
Qed.

Lemma ei_submit1 s0 s q ci : pb (ESub q (ci_uid ci) (ci_call ci)) = true -> evs_in s0 s -> evs_in s0 (submit s q ci).
Proof.
  intros P H. unfold submit. destruct q; (eapply ei_same; [apply ei_emit; [exact H | exact P] | reflexivity]).
Qed.

Lemma ei_timer_add s0 s k v t ci :
  (forall u c, pb (ESub QTimer u c) = true) -> (forall k v u, pb (ETimerVar k v u) = true) ->
  evs_in s0 s -> evs_in s0 (timer_add s k v t ci).
Proof.
  intros P1 P2 H. unfold timer_add. eapply ei_same; [apply ei_emit; [apply ei_emit; [exact H | apply P1] | apply P2] | reflexivity].
Qed.

Lemma ei_ref_clone s0 s a : (forall c a, pb (EModel c a) = true) -> evs_in s0 s -> evs_in s0 (ref_clone s a).
Proof.
  intros P H. unfold ref_clone. destruct (aget (actors s) a) as [x|].
  - destruct (a_freed x); (eapply ei_same; [|reflexivity]); [apply ei_emit; auto | exact H].
  - apply ei_emit; auto.
Qed.

Lemma ei_log_rec s0 s a b c d : (forall a b c d, pb (ELog a b c d) = true) -> evs_in s0 s -> evs_in s0 (log_rec s a b c d).
Proof. intros P H. unfold log_rec. destruct (allows s b && haslogger s); auto. apply ei_emit; auto. Qed.

Lemma ei_new_actor s0 s a nt parent vis :
  (forall a b c d, pb (ELog a b c d) = true) -> (forall a, pb (EActor a) = true) -> (forall a, pb (EOwnNew a) = true) ->
  evs_in s0 s -> evs_in s0 (new_actor s a nt parent vis).
Proof.
  intros P1 P2 P3 H. unfold new_actor.
  assert (E : evs_in s0 (emit (upd_actor (log_rec (set_logseq s (oz (log_id_next (logseq s)))) (oz (log_id_next (logseq s))) LOGLEVEL_OPEN parent 0) a
       (mkActor (SPrep []) (oz (count_inc (oz count_new))) MINRC_INIT (Some nt) (oz (log_id_next (logseq s))) false)) (EActor a))).
  { apply ei_emit; [|apply P2].
    apply (ei_same s0 (log_rec (set_logseq s (oz (log_id_next (logseq s)))) (oz (log_id_next (logseq s))) LOGLEVEL_OPEN parent 0)); [|reflexivity].
    apply ei_log_rec; [exact P1|]. apply (ei_same s0 s); [exact H | reflexivity]. }
  destruct vis; [apply ei_emit; [exact E | apply P3] | exact E].
Qed.

Lemma ei_mk_notifier s0 s a n r s' :
  (forall u i, pb (EClo u i) = true) -> (forall u a p, pb (ETarget u a p) = true) ->
  (forall c a, pb (EModel c a) = true) -> (forall c, pb (EBad c) = true) ->
  evs_in s0 s -> mk_notifier s a n = (r, s') -> evs_in s0 s'.
Proof.
  intros P1 P2 P3 P4 H. unfold mk_notifier. destruct n as [[hp c]|].
  - destruct (lookup s hp) as [v|].
    + destruct (handle_actor v) as [p|].
      * destruct (inst_call c (fun b => KMeth p b None) (ref_clone s p)) as [ci s2] eqn:I.
        intros Q; inversion Q; subst. eapply ei_inst_call; [exact P1 | exact P2 | | eauto]. apply ei_ref_clone; auto.
      * intros Q; inversion Q; subst. apply ei_emit; auto.
    + intros Q; inversion Q; subst. apply ei_emit; auto.
  - intros Q; inversion Q; subst; auto.
Qed.

Lemma ei_tok_script script : forall s0 s,
  (forall u i, pb (EClo u i) = true) -> (forall u c, pb (ESub QMain u c) = true) ->
  evs_in s0 s -> evs_in s0 (tok_script s script).
Proof.
  unfold tok_script. induction script as [|c r IH]; intros s0 s P1 P2 H; [exact H|]. cbn [fold_left].
  destruct (inst_env c KPlain s) as [ci s1] eqn:I. apply IH; auto.
  apply ei_submit; auto. eapply ei_inst_env; eauto.
Qed.

End Evs.

Arguments evs_in pb s s' : assert.

Lemma evs_in_weaken (p q : ev -> bool) s s' : (forall e, p e = true -> q e = true) -> evs_in p s s' -> evs_in q s s'.
Proof.
  intros I [evs [A B]]. exists evs. split; auto. clear A. induction evs as [|e l IH]; simpl in *; auto.
  apply andb_prop in B as [B1 B2]. rewrite (I _ B1), IH; auto.
Qed.

Ltac ei_side := first [ assumption | (intros; reflexivity) ].

Ltac ei_step :=
  lazymatch goal with
  | |- evs_in _ ?s ?s => apply ei_refl
  | |- evs_in _ _ (emit _ _) => apply ei_emit; [ | reflexivity ]
  | |- evs_in _ _ (submit _ _ _) => apply ei_submit; [ ei_side | ]
  | |- evs_in _ _ (push_main _ _) => apply ei_push_main
  | |- evs_in _ _ (timer_add _ _ _ _ _) => apply ei_timer_add; [ ei_side | ei_side | ]
  | |- evs_in _ _ (ref_clone _ _) => apply ei_ref_clone; [ ei_side | ]
  | |- evs_in _ _ (log_rec _ _ _ _ _) => apply ei_log_rec; [ ei_side | ]
  | |- evs_in _ _ (new_actor _ _ _ _ _) => apply ei_new_actor; [ ei_side | ei_side | ei_side | ]
  | |- evs_in _ _ (target_ev _ _) => apply ei_target_ev; [ ei_side | ]
  | |- evs_in _ _ (tok_script _ _) => apply ei_tok_script; [ ei_side | ei_side | ]
  | |- evs_in _ _ (upd_actor ?s _ _) => apply (ei_same _ _ s); [ | reflexivity ]
  | |- evs_in _ _ (push_frame ?s _ _) => apply (ei_same _ _ s); [ | reflexivity ]
  | |- evs_in _ _ (set_alive ?s _) => apply (ei_same _ _ s); [ | reflexivity ]
  | |- evs_in _ _ (set_now ?s _) => apply (ei_same _ _ s); [ | reflexivity ]
  | |- evs_in _ _ (set_start ?s _) => apply (ei_same _ _ s); [ | reflexivity ]
  | |- evs_in _ _ (set_mainq ?s _) => apply (ei_same _ _ s); [ | reflexivity ]
  | |- evs_in _ _ (set_lazyq ?s _) => apply (ei_same _ _ s); [ | reflexivity ]
  | |- evs_in _ _ (set_idleq ?s _) => apply (ei_same _ _ s); [ | reflexivity ]
  | |- evs_in _ _ (set_timers ?s _) => apply (ei_same _ _ s); [ | reflexivity ]
  | |- evs_in _ _ (set_tnext ?s _) => apply (ei_same _ _ s); [ | reflexivity ]
  | |- evs_in _ _ (set_tvars ?s _) => apply (ei_same _ _ s); [ | reflexivity ]
  | |- evs_in _ _ (set_recreate ?s _) => apply (ei_same _ _ s); [ | reflexivity ]
  | |- evs_in _ _ (set_actors ?s _) => apply (ei_same _ _ s); [ | reflexivity ]
  | |- evs_in _ _ (set_fwds ?s _) => apply (ei_same _ _ s); [ | reflexivity ]
  | |- evs_in _ _ (set_env ?s _) => apply (ei_same _ _ s); [ | reflexivity ]
  | |- evs_in _ _ (set_frames ?s _) => apply (ei_same _ _ s); [ | reflexivity ]
  | |- evs_in _ _ (set_nuid ?s _) => apply (ei_same _ _ s); [ | reflexivity ]
  | |- evs_in _ _ (set_logseq ?s _) => apply (ei_same _ _ s); [ | reflexivity ]
  | |- evs_in _ _ (set_logfilter ?s _) => apply (ei_same _ _ s); [ | reflexivity ]
  | |- evs_in _ _ (set_haslogger ?s _) => apply (ei_same _ _ s); [ | reflexivity ]
  | |- evs_in _ _ (set_shut ?s _) => apply (ei_same _ _ s); [ | reflexivity ]
  | |- evs_in _ _ (if ?b then _ else _) => destruct b
  | |- evs_in _ _ ?s' =>
      match goal with
      | H : take _ _ = (_, s') |- _ => eapply ei_take; [ | exact H ]
      | H : take_caps _ _ = (_, s') |- _ => eapply ei_take_caps; [ | exact H ]
      | H : bind _ _ _ = (_, s') |- _ => eapply ei_bind; [ | exact H ]
      | H : bad _ _ = (_, s') |- _ => eapply ei_bad; [ ei_side | | exact H ]
      | H : inst _ _ _ = (_, s') |- _ => eapply ei_inst; [ ei_side | | exact H ]
      | H : inst_call _ _ _ = (_, s') |- _ => eapply ei_inst_call; [ ei_side | ei_side | | exact H ]
      | H : inst_nocaps _ _ _ = (_, s') |- _ => eapply ei_inst_nocaps; [ ei_side | | exact H ]
      | H : mk_notifier _ _ _ = (_, s') |- _ => eapply ei_mk_notifier; [ ei_side | ei_side | ei_side | ei_side | | exact H ]
      end
  end.

Ltac ei_tac := repeat ei_step.
