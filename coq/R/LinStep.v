(** Layer R proofs: LINEARITY, part 3: the invariant [Lin] and its preservation.

    [Lin k s]: for every resource x the census of x in the configuration plus its consumption events is at
    most its creation events (sub-multiset of the live tokens), the census of ill-kinded values is 0, and the
    uids handed out are exactly 1 .. nuid-1, each once.  Consequences: every closure instance occurs at most
    once in the whole configuration and not at all once it ran / was dropped; uids in the configuration are
    below the next-uid counter; a Ret (a notifier, an actor value) occurs at most as often as it was created
    minus consumed. *)
From Coq Require Import ZArith NArith List Bool Lia.
From Stk Require Import Lib.U Gen.SrcCount Gen.SrcCore Gen.SrcLog R.Syntax R.Rt R.Shape R.Lin R.LinAct R.LinLaw.
Import ListNotations.
Local Open Scope Z_scope.

Definition bal (x : res) (k : list mop) (s : st) : Z := cmops x k + W x s.

Record Lin (k : list mop) (s : st) : Prop := mkLin {
  lin_le : forall x, bal x k s <= cnu x 1;
  lin_fr : forall u, bal (RFr u) k s = cnu (RFr u) 1 }.

Lemma W_fresh_stakker x s t : W x (fresh_stakker s t) = W x s.
Proof. reflexivity. Qed.

Lemma new_law t s pre s' x :
  handle (MNew t) s = (pre, s') ->
  cmops x pre + W x s' + match dk s with DGlobal => 0 | DInline => cq x (mainq s) end = W x s.
Proof.
  cbn [handle]. intros Q; injection Q as Q1 Q2; subst pre s'.
  rewrite W_fresh_stakker, W_set_mainq, W_emit, cmops_dropitems. stsimp. destruct (dk s); simpl; lia.
Qed.

Lemma Lin_NB m k0 s : Lin (m :: k0) s -> NB m s.
Proof.
  intros [LE _]. specialize (LE RBad). unfold bal, W in LE. rewrite conT_bad, creT_bad in LE. simpl in LE.
  unfold NB. pose proof (cmop_nn RBad m). pose proof (cmops_nn RBad k0). pose proof (cst_nn RBad s). lia.
Qed.

Lemma emb_nn x m : 0 <= emb x m.
Proof. destruct m; simpl; try lia. destruct r as [rid [| | | |]]; try lia; apply ind_range. Qed.

Lemma emb_fr u m : emb (RFr u) m = 0.
Proof. destruct m; simpl; try lia. destruct r as [rid [| | | |]]; try lia; apply ind_neq; discriminate. Qed.

(** the balance of every resource never increases; that of the freshness marker is constant *)
Lemma step_bal k s k' s' x : Lin k s -> step k s = Some (k', s') -> bal x k' s' <= bal x k s.
Proof.
  intros L H. destruct k as [|m k0]; [discriminate|]. simpl in H.
  destruct (handle m s) as [pre s1] eqn:E. inversion H; subst; clear H.
  unfold bal. rewrite cmops_app. simpl.
  assert (D : (exists t, m = MNew t) \/ forall t, m <> MNew t).
  { destruct m; try (right; intros t0 Q; discriminate Q). left; eauto. }
  destruct D as [[t ->]|NN].
  - pose proof (new_law _ _ _ _ x E). pose proof (cq_nn x (mainq s)). destruct (dk s); simpl; lia.
  - pose proof (handle_law _ _ _ _ x (Lin_NB _ _ _ L) NN E). pose proof (emb_nn x m). lia.
Qed.

Lemma step_bal_fr k s k' s' u : Lin k s -> step k s = Some (k', s') -> bal (RFr u) k' s' = bal (RFr u) k s.
Proof.
  intros L H. destruct k as [|m k0]; [discriminate|]. simpl in H.
  destruct (handle m s) as [pre s1] eqn:E. inversion H; subst; clear H.
  unfold bal. rewrite cmops_app. simpl.
  assert (D : (exists t, m = MNew t) \/ forall t, m <> MNew t).
  { destruct m; try (right; intros t0 Q; discriminate Q). left; eauto. }
  destruct D as [[t ->]|NN].
  - pose proof (new_law _ _ _ _ (RFr u) E) as G. rewrite cq_fr in G. destruct (dk s); simpl; lia.
  - pose proof (handle_law _ _ _ _ (RFr u) (Lin_NB _ _ _ L) NN E) as G. rewrite emb_fr in G. lia.
Qed.

Theorem step_Lin k s k' s' : Lin k s -> step k s = Some (k', s') -> Lin k' s'.
Proof.
  intros L H. split.
  - intros x. pose proof (step_bal _ _ _ _ x L H). pose proof (lin_le _ _ L x). lia.
  - intros u. rewrite (step_bal_fr _ _ _ _ u L H). apply (lin_fr _ _ L).
Qed.

Lemma cmops_tops x p : cmops x (map MTop p ++ [MEpilogue]) = 0.
Proof. rewrite cmops_app. simpl. induction p; simpl; lia. Qed.

Lemma Lin_init d p : Lin (map MTop p ++ [MEpilogue]) (init d).
Proof. split; intros; unfold bal; rewrite cmops_tops; unfold W, cst; simpl; lia. Qed.

(** [Lin] holds in every configuration the machine reaches *)
Inductive reach (d : dkind) (p : list top) : list mop -> st -> Prop :=
| reach_init : reach d p (map MTop p ++ [MEpilogue]) (init d)
| reach_step k s k' s' : reach d p k s -> step k s = Some (k', s') -> reach d p k' s'.

Theorem reach_Lin d p k s : reach d p k s -> Lin k s.
Proof. induction 1; [apply Lin_init | eapply step_Lin; eauto]. Qed.

(* ------------------------------------------------------------------ *)
(** * Consequences *)

Definition cnt (x : res) (k : list mop) (s : st) : Z := cmops x k + cst x s.

Lemma cnt_nn x k s : 0 <= cnt x k s.
Proof. unfold cnt. pose proof (cmops_nn x k). pose proof (cst_nn x s). lia. Qed.

(** sub-multiset of the live tokens *)
Lemma Lin_live k s x : Lin k s -> (forall u, x <> RFr u) -> cnt x k s + conT x (tr s) <= creT x (tr s).
Proof.
  intros L NF. pose proof (lin_le _ _ L x) as H. unfold bal, W in H. unfold cnt.
  assert (cnu x 1 = 0) by (destruct x; try reflexivity; exfalso; eapply NF; reflexivity). lia.
Qed.

(** the uids handed out are exactly 1 .. nuid-1, each once *)
Lemma Lin_created k s u : Lin k s -> creT (RClo u) (tr s) = cnu (RFr u) (nuid s) - cnu (RFr u) 1.
Proof.
  intros L. pose proof (lin_fr _ _ L u) as H. unfold bal, W in H.
  rewrite cmops_fr, cst_fr, conT_fr, creT_fr in H. lia.
Qed.

Lemma Lin_nuid k s : Lin k s -> (1 <= nuid s)%N.
Proof.
  intros L. pose proof (Lin_created _ _ 0%N L) as H. pose proof (creT_nn (RClo 0) (tr s)). simpl in H.
  destruct (N.ltb 0 (nuid s)) eqn:E; [apply N.ltb_lt in E; lia | lia].
Qed.

Lemma Lin_created_once k s u : Lin k s -> creT (RClo u) (tr s) <= 1.
Proof. intros L. rewrite (Lin_created _ _ u L). simpl. destruct (N.ltb u (nuid s)), (N.ltb u 1); lia. Qed.

Lemma Lin_created_fresh k s u : Lin k s -> (nuid s <= u)%N -> creT (RClo u) (tr s) = 0.
Proof.
  intros L G. rewrite (Lin_created _ _ u L). pose proof (Lin_nuid _ _ L). simpl.
  replace (N.ltb u (nuid s)) with false by (symmetry; apply N.ltb_ge; lia).
  replace (N.ltb u 1) with false by (symmetry; apply N.ltb_ge; lia). lia.
Qed.

(** every closure instance occurs at most once in the whole configuration ... *)
Theorem Lin_uid_once k s u : Lin k s -> cnt (RClo u) k s <= 1.
Proof.
  intros L. pose proof (Lin_live _ _ (RClo u) L ltac:(discriminate)). pose proof (Lin_created_once _ _ u L).
  pose proof (conT_nn (RClo u) (tr s)). lia.
Qed.

(** ... only with a uid that was handed out ... *)
Theorem Lin_uid_fresh k s u : Lin k s -> 0 < cnt (RClo u) k s -> (1 <= u < nuid s)%N.
Proof.
  intros L P. pose proof (Lin_live _ _ (RClo u) L ltac:(discriminate)). pose proof (conT_nn (RClo u) (tr s)).
  rewrite (Lin_created _ _ u L) in H. simpl in H.
  destruct (N.ltb u (nuid s)) eqn:A; destruct (N.ltb u 1) eqn:B; try lia.
  apply N.ltb_lt in A. apply N.ltb_ge in B. lia.
Qed.

(** ... and not at all once it started or was dropped *)
Theorem Lin_uid_consumed k s u : Lin k s -> 0 < conT (RClo u) (tr s) -> cnt (RClo u) k s = 0.
Proof.
  intros L P. pose proof (Lin_live _ _ (RClo u) L ltac:(discriminate)). pose proof (Lin_created_once _ _ u L).
  pose proof (cnt_nn (RClo u) k s). lia.
Qed.

(** no ill-kinded value anywhere *)
Theorem Lin_wellkinded k s : Lin k s -> cnt RBad k s = 0.
Proof.
  intros L. pose proof (Lin_live _ _ RBad L ltac:(discriminate)) as H. rewrite conT_bad, creT_bad in H.
  pose proof (cnt_nn RBad k s). lia.
Qed.

(* ------------------------------------------------------------------ *)
(** * Non-vacuity: a reachable configuration with a Ret nested in a queued closure *)

Fixpoint iter (n : nat) (k : list mop) (s : st) : list mop * st :=
  match n with
  | O => (k, s)
  | S n' => match step k s with Some (k', s') => iter n' k' s' | None => (k, s) end
  end.

Lemma reach_iter d p n : forall k s, reach d p k s -> reach d p (fst (iter n k s)) (snd (iter n k s)).
Proof.
  induction n as [|n IH]; intros k s R; simpl; auto.
  destruct (step k s) as [[k' s']|] eqn:E; auto. apply IH. eapply reach_step; eauto.
Qed.

Definition lin_prog : list top :=
  [TNew 0; TDo [ANewRet 1 7 (RClos [] []); ADefer (Clo 1 0 0 [1%N] [])]].

Example Lin_nontrivial :
  exists k s, reach DGlobal lin_prog k s /\ Lin k s /\
              cnt (RRet 7) k s = 1 /\ cnt (RClo 1) k s = 1 /\ cq (RRet 7) (mainq s) = 1 /\ nuid s = 2%N.
Proof.
  pose proof (reach_iter DGlobal lin_prog 6 _ _ (reach_init DGlobal lin_prog)) as R.
  eexists _, _. split; [exact R|]. split; [eapply reach_Lin; exact R|].
  repeat split; vm_compute; reflexivity.
Qed.

Print Assumptions step_Lin.
Print Assumptions reach_Lin.
