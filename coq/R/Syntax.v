(** Layer R: syntax of programs (the DSL shared by the model and the Rust interpreter harness/r),
    run-time values of the model and trace events.  See docs/layer_r.md for the text format. *)
From Coq Require Import ZArith NArith List Bool.
Import ListNotations.

Inductive qk := QMain | QLazy | QIdle | QTimer.
Inductive tk := TFixed | TMax | TMin.
Inductive cause := CStop | CFail (e : N) | CKill (e : N) | CDrop.

(** Acts: what a body (top-level [TDo], closure, actor method, Ret/Fwd handler) can do.  Times are
    milliseconds relative to the base instant of the case.  Handles (h), actors (a), rets (r), fwds (f),
    tokens (t), timer variables (v) and closures (clo id) are static identifiers of the program text;
    closure *instances* get a dynamic uid at creation. *)
Inductive act :=
| ADefer (c : clo)            (* core.defer *)
| ADeferD (c : clo)           (* through a cloned Deferrer: needs no Core *)
| ALazy (c : clo)
| AIdle (c : clo)
| ATimerAdd (k : tk) (v : N) (t : Z) (c : clo)
| AAfter (v : N) (d : Z) (c : clo)
| ATimerMac (k : tk) (v : N) (t : Z) (c : clo)   (* timer_max! / timer_min! *)
| ATimerUpd (k : tk) (v : N) (t : Z)
| ATimerDel (k : tk) (v : N)
| ATimerActive (k : tk) (v : N)
| ANewActor (h a : N) (n : option (N * clo))     (* notifier: log only, or ret_to handle's actor *)
| ACall (h : N) (c : clo)
| ACallPrep (h : N) (c : clo) (ready : bool)
| AStop
| AFail (e : N)
| AKill (h e : N)             (* ActorOwn::kill_string, synchronous, needs &mut Stakker *)
| AKillAsync (h e : N)        (* kill! macro *)
| AOwned (h h2 : N)
| AClone (h h2 : N)
| AAnon (h h2 : N)
| AStore (h : N)              (* move handle into the running actor's state *)
| ADropH (h : N)
| ASlabAdd (h a : N) (n : option (N * clo))
| ASlabLen
| AIsZombie (h : N)
| ANewRet (h r : N) (k : retk)
| ARetSend (h v : N)
| ANewFwd (h f : N) (k : fwdk)
| AFwdSend (h v : N)
| ANewTok (h t : N) (script : list clo)
| ALog (lvl : Z)
| ALogCheck (lvl : Z)
| ANow
| AStart
| AShutdown
| ARep (n : N) (l : list act)
with clo := Clo (id size align : N) (caps : list N) (body : list act)
with retk := RClos (caps : list N) (body : list act) | RTo (h : N) (c : clo) | RSomeTo (h : N) (c : clo)
with fwdk := FClos (body : list act) | FTo (h : N) (c : clo).

Definition clo_id (c : clo) := match c with Clo i _ _ _ _ => i end.
Definition clo_caps (c : clo) := match c with Clo _ _ _ l _ => l end.
Definition clo_body (c : clo) := match c with Clo _ _ _ _ b => b end.

Inductive top :=
| TNew (t : Z)
| TRun (t : Z) (idle : bool)
| TDo (l : list act)
| TDropStakker
| TDropAll
| TSetLogger (lvls : list Z)
| TSetFilter (lvls : list Z).

(** Run-time values *)
Inductive hval :=
| HOwn (a : N) | HAct (a : N) | HAnon (a : N)
| HRet (r : ret)
| HFwd (f : N)
| HTok (t : N) (script : list clo)
with ret := Ret (rid : N) (k : rkind)
with rkind :=
| RKClos (caps : list (N * hval)) (body : list act)
| RKTo (a : N) (ci : citem)
| RKSomeTo (a : N) (ci : citem)
| RKNotify (a : N) (inner : option (N * citem))
| RKSlab (p key : N) (inner : ret)
with citem := CI (uid cid : N) (kind : ckind) (caps : list (N * hval)) (sq : option qk)   (* sq: the queue it was handed to *)
with ckind :=
| KPlain (body : list act)
| KMeth (a : N) (body : list act) (arg : option N)
| KPrep (a : N) (body : list act) (ready : bool)
| KSlabRm (p key : N)
| KTerm (a : N)
| KKill (a e : N).

Definition ci_uid (c : citem) := match c with CI u _ _ _ _ => u end.
Definition ci_kind (c : citem) := match c with CI _ _ k _ _ => k end.
Definition ci_caps (c : citem) := match c with CI _ _ _ l _ => l end.
Definition ci_sq (c : citem) := match c with CI _ _ _ _ q => q end.
Definition ci_call (c : citem) : bool := match ci_kind c with KPlain _ => false | _ => true end.
Definition ci_setq (c : citem) (q : qk) : citem := match c with CI u i k l _ => CI u i k l (Some q) end.
Definition ci_unq (c : citem) : citem := match c with CI u i k l _ => CI u i k l None end.

Inductive msg := MNum (v : N) | MCause (c : cause).

(** Trace events.  [EModel] events exist only on the model side (printed with a leading '~'). *)
Inductive ev :=
| ENew (t : Z) | ERunBegin (t : Z) (idle : bool) | ERunRet (b : bool)
| EDropBegin | EDropFields | EDropEnd | EEpilogue
| EClo (uid cid : N)                 (* closure instance created *)
| ETarget (uid a : N) (prep : bool)  (* ... it is a call to actor a (Ready method / Prep method) *)
| ESub (q : qk) (uid : N) (call : bool)   (* ... and handed to a queue / timer (call: an actor call, not a plain closure) *)
| ERun (uid : N) (now : Z) (q : qk)  (* plain closure body starts; q: the queue it came from *)
| EMeth (a uid : N) (now : Z)        (* Ready method starts *)
| EPrep (a uid : N) (now : Z)        (* Prep method starts *)
| EEnd (uid : N)                     (* body finished (before its captures are dropped) *)
| EDrop (uid : N) (q : option qk) (call : bool)   (* closure dropped without running *)
| EActor (a : N)                     (* actor created (its notifier exists from here) *)
| EOwnNew (a : N) | EOwnDrop (a : N)
| EReady (a : N)
| EReq (a : N) (c : cause)           (* stop/fail/kill request issued (echo) *)
| ENotify (a : N) (c : option cause)
| EValDrop (a : N)
| EOrphNew (a : N) | EOrphDrop (a : N)   (* a value returned by an init step that also asked to stop/fail: never installed *)
| ERetNew (r : N) | ERetTo (r uid : N) (some : bool) | ERetSent (r v : N) | ERet (r : N) (m : option N)
| EFwdNew (f : N) | EFwd (f v : N) | EFwdFree (f : N)
| ETokNew (t : N) | ETokDrop (t : N)
| ELog (id level parent : Z) (marker : N)
| EIsZombie (a : N) (b : bool)
| ESlabAdd (p a : N) | ESlabLen (p : N) (n : Z)
| ESetLogger (lvls : list Z) | ESetFilter (lvls : list Z)
| ELogReq (id lvl : Z) | ELogCheck (lvl : Z) (b : bool)
| ETimerVar (k : tk) (v uid : N)      (* timer variable v of kind k now refers to the timer holding closure uid *)
| ETimerDel (k : tk) (v : N) (b : bool)   (* timer_*_del through variable v returned b *)
| EBool (tag : N) (b : bool)
| ENum (tag : N) (n : Z)
| ELeak (kind id : N)
| EBad (code : N)
| EModel (code a : N).

(* tags of EBool / ENum *)
Definition TAG_UPD : N := 1.   Definition TAG_DEL : N := 2.    Definition TAG_ACTIVE : N := 3.
Definition TAG_ZOMBIE : N := 4. Definition TAG_LOGCHECK : N := 5. Definition TAG_NOTSHUT : N := 6.
Definition TAG_SLABLEN : N := 7. Definition TAG_NOW : N := 8.   Definition TAG_START : N := 9.
(* codes of EModel *)
Definition M_FREE_ACTOR : N := 1. Definition M_AMBIG : N := 2. Definition M_UAF : N := 3.
Definition M_LIMBO : N := 4.      Definition M_PREPHELD : N := 5. Definition M_DRAINLEFT : N := 6.
Definition M_CHILDCYCLE : N := 7. Definition M_DRAINSHORT : N := 8.
(* class DropDepth99 of known finding F4 is about chains of >= 99 closures: the bound of the CLASS is this
   literal, not the translated constant of the code *)
Definition F4_CLASS_ROUNDS : Z := 99.
(* leak kinds *)
Definition LK_CLO : N := 0. Definition LK_VAL : N := 1. Definition LK_RET : N := 2.
Definition LK_NOTIFY : N := 3. Definition LK_TOK : N := 4. Definition LK_FWD : N := 5. Definition LK_ORPH : N := 6.
