(** Layer R proofs: C04, the monitor as a total state function plus three independent checks.

    [step04 s e = guard (chkN s e && chkR s e && chkS s e) (upd04 s e)]: the state of the C04 monitor evolves by the
    total function [upd04] whatever the checks say; the checks are
      [chkN]  at [ENotify a (Some CDrop)]: no visible owner, and every call that was pending when the last visible
              owner went has been processed (the termination took the drop's place in the queue);
      [chkR]  at [ERunRet]: everything that lost its last owner is terminated, and so are the slab children of
              terminated parents;
      [chkS]  at [ESlabLen p n]: the slab holds exactly its not-yet-terminated children.
    Hence [C04_ok (rev t) = okx chkN t && okx chkR t && okx chkS t] over the newest-first trace [t] of the machine,
    where [st04 t] is the monitor state after [t] and [okx chk t] says that [chk] held at every event. *)
From Coq Require Import ZArith NArith List Bool Lia.
From Stk Require Import Lib.U R.Syntax R.Rt R.Mon R.C15Proofs.
Import ListNotations.
Local Open Scope Z_scope.

Definition upd04 (s : s04) (e : ev) : s04 :=
  match e with
  | ENew _ => mk04 (o_cnt s) true [] (o_notified s) (o_atret s) (o_tgt s) (o_pend s) (o_snap s) (live_kids s) (o_slabkid s)
  | EDropBegin => mk04 (o_cnt s) false [] (o_notified s) (o_atret s) (o_tgt s) (o_pend s) (o_snap s) (live_kids s) (o_slabkid s)
  | EOwnNew a => mk04 (nset (o_cnt s) a (cnt_of s a + 1)) (o_alive s) (o_must s) (o_notified s) (o_atret s) (o_tgt s) (o_pend s) (o_snap s) (o_kids s) (o_slabkid s)
  | EOwnDrop a =>
      let c := cnt_of s a - 1 in
      let zero := (c =? 0) && negb (nmem a (o_slabkid s)) in
      mk04 (nset (o_cnt s) a c) (o_alive s)
           (if zero && o_alive s then a :: o_must s else o_must s)
           (o_notified s) (o_atret s) (o_tgt s) (o_pend s)
           (if zero then nset (o_snap s) a (lst_of (o_pend s) a) else o_snap s) (o_kids s) (o_slabkid s)
  | ESlabAdd p a => mk04 (o_cnt s) (o_alive s) (o_must s) (o_notified s) (o_atret s) (o_tgt s) (o_pend s) (o_snap s)
                         (nset (o_kids s) p (a :: lst_of (o_kids s) p)) (a :: o_slabkid s)
  | ETarget u a false => mk04 (o_cnt s) (o_alive s) (o_must s) (o_notified s) (o_atret s) (nset (o_tgt s) u a) (o_pend s) (o_snap s) (o_kids s) (o_slabkid s)
  | ESub QMain u _ =>
      match nget (o_tgt s) u with
      | Some a => mk04 (o_cnt s) (o_alive s) (o_must s) (o_notified s) (o_atret s) (o_tgt s) (nset (o_pend s) a (lst_of (o_pend s) a ++ [u])) (o_snap s) (o_kids s) (o_slabkid s)
      | None => s
      end
  | EMeth _ u _ | EDrop u _ _ =>
      match nget (o_tgt s) u with
      | Some a => mk04 (o_cnt s) (o_alive s) (o_must s) (o_notified s) (o_atret s) (o_tgt s) (nset (o_pend s) a (nremove u (lst_of (o_pend s) a))) (o_snap s) (o_kids s) (o_slabkid s)
      | None => s
      end
  | ENotify a c => mk04 (o_cnt s) (o_alive s) (o_must s) (a :: o_notified s) (o_atret s) (o_tgt s) (o_pend s) (o_snap s) (o_kids s) (o_slabkid s)
  | ERunRet _ => mk04 (o_cnt s) (o_alive s) [] (o_notified s) (o_notified s) (o_tgt s) (o_pend s) (o_snap s) (o_kids s) (o_slabkid s)
  | _ => s
  end.

Definition chkN (s : s04) (e : ev) : bool :=
  match e with
  | ENotify a (Some CDrop) => (cnt_of s a <=? 0) && disjoint (lst_of (o_snap s) a) (lst_of (o_pend s) a)
  | _ => true
  end.

Definition chkR (s : s04) (e : ev) : bool :=
  match e with
  | ERunRet _ =>
      subset (o_must s) (o_notified s) &&
      forallb (fun pk => negb (nmem (fst pk) (o_notified s)) || subset (snd pk) (o_notified s)) (o_kids s)
  | _ => true
  end.

Definition chkS (s : s04) (e : ev) : bool :=
  match e with
  | ESlabLen p n =>
      let kids := lst_of (o_kids s) p in
      let lo := Z.of_nat (length (filter (fun k => negb (nmem k (o_notified s))) kids)) in
      let hi := Z.of_nat (length (filter (fun k => negb (nmem k (o_atret s))) kids)) in
      (lo <=? n) && (n <=? hi)
  | _ => true
  end.

Ltac dmatch := repeat (first [reflexivity | match goal with |- context [match ?x with _ => _ end] => destruct x end]).

Lemma step04_eq s e : step04 s e = guard (chkN s e && chkR s e && chkS s e) (upd04 s e).
Proof.
  destruct e; try reflexivity; unfold step04, upd04, chkN, chkR, chkS, guard; cbn [andb]; rewrite ?andb_true_r; dmatch.
Qed.

(* newest-first traces *)
Fixpoint st04 (t : list ev) : s04 := match t with [] => i04 | e :: r => upd04 (st04 r) e end.

Fixpoint okx (chk : s04 -> ev -> bool) (t : list ev) : bool :=
  match t with [] => true | e :: r => chk (st04 r) e && okx chk r end.

Lemma monr_04 t : monr step04 i04 t = if okx chkN t && okx chkR t && okx chkS t then Some (st04 t) else None.
Proof.
  induction t as [|e r IH]; [reflexivity|]. cbn [monr okx st04]. rewrite IH.
  destruct (okx chkN r), (okx chkR r), (okx chkS r); cbn [andb]; rewrite ?andb_false_r; try reflexivity.
  rewrite step04_eq, !andb_true_r. unfold guard. destruct (chkN (st04 r) e), (chkR (st04 r) e), (chkS (st04 r) e); reflexivity.
Qed.

Theorem C04_ok_rev t : C04_ok (rev t) = okx chkN t && okx chkR t && okx chkS t.
Proof.
  unfold C04_ok. rewrite fold_mon_rev, monr_04. destruct (okx chkN t && okx chkR t && okx chkS t); reflexivity.
Qed.

(* the checks only fire at their own events *)
Lemma okx_cons_other chk e r : chk (st04 r) e = true -> okx chk (e :: r) = okx chk r.
Proof. intros E. simpl. rewrite E. reflexivity. Qed.

Lemma okx_app chk evs r : (forall e s, In e evs -> chk s e = true) -> okx chk (evs ++ r) = okx chk r.
Proof.
  intros F. induction evs as [|e evs IH]; [reflexivity|]. simpl. rewrite (F e _ (or_introl eq_refl)). simpl.
  apply IH. intros e' s' IN. apply F. right; exact IN.
Qed.

(* ------------------------------------------------------------------ *)
(** * The monitor state as functions of the trace *)

Lemma nget_nset_eq {X} (l : list (N * X)) i x : nget (nset l i x) i = Some x.
Proof. induction l as [|[j y] r IH]; simpl; [rewrite N.eqb_refl; auto|]. destruct (N.eqb i j) eqn:E; simpl; rewrite ?N.eqb_refl, ?E; auto. Qed.
Lemma nget_nset_neq {X} (l : list (N * X)) i j x : i <> j -> nget (nset l i x) j = nget l j.
Proof.
  intros NE. induction l as [|[k y] r IH]; simpl.
  - destruct (N.eqb j i) eqn:E; auto. apply N.eqb_eq in E. congruence.
  - destruct (N.eqb i k) eqn:E; simpl.
    + apply N.eqb_eq in E. subst k. destruct (N.eqb j i) eqn:F; auto. apply N.eqb_eq in F. congruence.
    + destruct (N.eqb j k); auto.
Qed.

(* visible owners: EOwnNew minus EOwnDrop *)
Definition vb (a c : N) : Z := if N.eqb a c then 1 else 0.
Definition vis1 (a : N) (e : ev) : Z := match e with EOwnNew c => vb a c | EOwnDrop c => - vb a c | _ => 0 end.
Fixpoint vis (a : N) (t : list ev) : Z := match t with [] => 0 | e :: r => vis1 a e + vis a r end.

Lemma cnt_of_nset s a v b : match nget (nset (o_cnt s) a v) b with Some z => z | None => 0 end = if N.eqb b a then v else cnt_of s b.
Proof.
  destruct (N.eqb b a) eqn:E.
  - apply N.eqb_eq in E. subst. rewrite nget_nset_eq. reflexivity.
  - rewrite nget_nset_neq; [reflexivity|]. intros ->. rewrite N.eqb_refl in E. discriminate.
Qed.

Lemma upd04_cnt s e a : cnt_of (upd04 s e) a = cnt_of s a + vis1 a e.
Proof.
  destruct e; cbn [upd04 vis1]; try (unfold cnt_of; cbn [o_cnt]; lia).
  all: try (unfold cnt_of at 1; cbn [o_cnt]; rewrite cnt_of_nset; unfold vb; destruct (N.eqb a a0) eqn:E; [apply N.eqb_eq in E; subst a0|]; lia).
  all: repeat match goal with |- context [match ?x with _ => _ end] => destruct x end; unfold cnt_of; cbn [o_cnt]; lia.
Qed.

Lemma st04_cnt t a : cnt_of (st04 t) a = vis a t.
Proof. induction t as [|e r IH]; [reflexivity|]. cbn [st04 vis]. rewrite upd04_cnt, IH. lia. Qed.

(* notified actors *)
Definition notif1 (e : ev) : list N := match e with ENotify a _ => [a] | _ => [] end.

Lemma upd04_notified s e : o_notified (upd04 s e) = notif1 e ++ o_notified s.
Proof. destruct e; try reflexivity; cbn [upd04 notif1 app]; dmatch. Qed.

Lemma st04_notified t a : In a (o_notified (st04 t)) <-> exists c, In (ENotify a c) t.
Proof.
  induction t as [|e r IH]; simpl.
  - split; [contradiction | intros [c []]].
  - rewrite upd04_notified, in_app_iff, IH. split.
    + intros [H|[c H]]; [|eauto]. destruct e; simpl in H; try contradiction. destruct H as [<-|[]]. eauto.
    + intros [c [H|H]]; [left; subst; simpl; auto | right; eauto].
Qed.

Lemma upd04_slabkid s e : o_slabkid (upd04 s e) = match e with ESlabAdd _ a => a :: o_slabkid s | _ => o_slabkid s end.
Proof. destruct e; try reflexivity; cbn [upd04]; dmatch. Qed.

Lemma st04_slabkid t a : In a (o_slabkid (st04 t)) <-> exists p, In (ESlabAdd p a) t.
Proof.
  induction t as [|e r IH]; simpl.
  - split; [contradiction | intros [c []]].
  - rewrite upd04_slabkid. split.
    + intros H. assert (D : (exists p, e = ESlabAdd p a) \/ In a (o_slabkid (st04 r))).
      { destruct e; auto. destruct H as [<-|H]; eauto. }
      destruct D as [[p ->]|D]; [eauto | apply IH in D as [p D]; eauto].
    + intros [p [H|H]].
      * subst. left. reflexivity.
      * assert (G : In a (o_slabkid (st04 r))) by (apply IH; eauto). destruct e; auto. right; auto.
Qed.
