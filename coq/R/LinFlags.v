(** Layer R proofs: the flag events of C16 other than leaks: the model never emits [EModel M_UAF _] (LinUafInv.v) nor an
    [EBad c] with 900 <= c (no such code exists in the machine). *)
From Coq Require Import ZArith NArith List Bool Lia.
From Stk Require Import Lib.U Gen.SrcCount Gen.SrcCore Gen.SrcLog R.Syntax R.Rt R.Mon R.Shape R.Eff.
From Stk Require Import R.Lin R.LinEvs R.LinNin R.LinRefStep R.LinUaf R.LinUafInv.
Import ListNotations.
Local Open Scope Z_scope.

Definition pbB (e : ev) : bool := match e with EBad c => negb (N.leb 900 c) | _ => true end.

Lemma ei_bad_B s0 s c l s' : N.leb 900 c = false -> evs_in pbB s0 s -> bad s c = (l, s') -> evs_in pbB s0 s'.
Proof. intros C H. unfold bad. intros Q; inversion Q; subst. apply ei_emit; [exact H|]. simpl. rewrite C. reflexivity. Qed.

Lemma mk_notifier_B s0 s a n r s' : evs_in pbB s0 s -> mk_notifier s a n = (r, s') -> evs_in pbB s0 s'.
Proof.
  intros H. unfold mk_notifier. destruct n as [[hp c]|].
  - destruct (lookup s hp) as [v|]; [destruct (handle_actor v) as [p|]|].
    + destruct (inst_call c (fun b => KMeth p b None) (ref_clone s p)) as [ci s2] eqn:I. intros Q; inversion Q; subst. ei_tac; try exact H.
    + intros Q; inversion Q; subst. ei_tac; try exact H.
    + intros Q; inversion Q; subst. ei_tac; try exact H.
  - intros Q; inversion Q; subst. exact H.
Qed.

Lemma class_flag_B all p e : class_flag all p = Some e -> pbB e = true.
Proof.
  unfold class_flag. destruct (a_freed (snd p)); [discriminate|].
  destruct (a_state (snd p)) as [[|c hl]| |]; try discriminate.
  - intros E; inversion E. reflexivity.
  - destruct (existsb _ _); [|discriminate]. intros E; inversion E. reflexivity.
Qed.

Lemma fold_flags_B (f : N * actor -> option ev) (FU : forall p e, f p = Some e -> pbB e = true) l : forall s,
  exists fl, tr (fold_left (fun s0 p => emit_opt s0 (f p)) l s) = fl ++ tr s /\ forallb pbB fl = true.
Proof.
  induction l as [|p l IH]; simpl; intros s; [exists []; auto|].
  destruct (IH (emit_opt s (f p))) as (fl & TR & PF). unfold emit_opt in *. destruct (f p) as [e|] eqn:E.
  - exists (fl ++ [e]). rewrite TR. split; [rewrite <- app_assoc; reflexivity|].
    rewrite forallb_app, PF. simpl. rewrite (FU _ _ E). reflexivity.
  - exists fl. auto.
Qed.

Ltac eiB :=
  repeat first
    [ match goal with
      | H : bad _ _ = (_, ?s') |- evs_in _ _ ?s' => eapply ei_bad_B; [ | | exact H ]; [ reflexivity | ]
      | H : mk_notifier _ _ _ = (_, ?s') |- evs_in _ _ ?s' => eapply mk_notifier_B; [ | exact H ]
      end
    | ei_step ].

Ltac passB := intros Q; inj_R Q; eiB.

Lemma do_act_B a s pre s' : do_act a s = (pre, s') -> evs_in pbB s s'.
Proof. unfold do_act. destruct a; repeat dest_match; passB. Qed.

Lemma handle_B m s pre s' : handle m s = (pre, s') -> evs_in pbB s s'.
Proof.
  destruct m; cbn [handle].
  - unfold do_top. destruct o; repeat dest_match; passB.
  - destruct l as [|a l]; [passB|]. destruct (do_act a s) as [p s1] eqn:E. intros Q; inj_R Q. eapply do_act_B; eauto.
  - destruct (frames s); passB.
  - destruct (frames s); passB.
  - unfold run_item. destruct c as [u i kd caps q]. destruct kd; repeat dest_match; passB.
  - unfold drop_item. destruct c as [u i kd caps q]. destruct kd; passB.
  - passB.
  - unfold drop_val. destruct v; repeat dest_match; passB.
  - unfold drop_own. destruct logged; repeat dest_match; passB.
  - unfold drop_ref. destruct (aget (actors s) a) as [y|]; [|passB]. destruct (a_freed y); [passB|].
    destruct (minrc_drop (a_rc y)) as [[v z]|]; [|passB]. destruct z; [|passB].
    destruct (state_drops a (a_state y) _) as [dl s2] eqn:SD. destruct (Own.state_drops_h (Own.HR a) _ _ _ _ _ SD) as [-> _]. passB.
  - unfold ret_invoke. destruct r as [rid k]. destruct k; repeat dest_match; passB.
  - passB.
  - passB.
  - passB.
  - passB.
  - unfold terminate. destruct (aget (actors s) a) as [y|]; [|passB].
    destruct (state_drops a (a_state y) _) as [dl s2] eqn:SD. destruct (Own.state_drops_h (Own.HR a) _ _ _ _ _ SD) as [-> _].
    destruct (a_notify y); passB.
  - destruct (aget (actors s) a); passB.
  - destruct (aget (actors s) a) as [y|]; [destruct (a_state y)|]; passB.
  - unfold fresh_stakker. passB.
  - destruct idle; [destruct (idleq s)|]; passB.
  - destruct (t >? now (set_mainq s [])).
    + destruct (fire t _) as [fired s2] eqn:FI. unfold fire in FI. injection FI as ? ?; subst. destruct (ambiguous _); passB.
    + passB.
  - repeat dest_match; passB.
  - repeat dest_match; passB.
  - cbv zeta. destruct (ambiguous (timers s)); passB.
  - repeat dest_match; passB.
  - repeat dest_match; passB.
  - passB.
  - (* MLeaks *) intros Q; inj_R Q.
    destruct (fold_flags_B (class_flag (actors s)) (class_flag_B (actors s)) (actors s) s) as (fl & TR1 & PF). fold (class_flags s) in TR1.
    exists (rev (leaks (rev (tr (class_flags s)))) ++ fl). split.
    + change (tr (set_tr ?x ?v)) with v. rewrite TR1 at 2. rewrite app_assoc. reflexivity.
    + rewrite forallb_app, PF, andb_true_r.
      apply forallb_forall. intros e IN. apply in_rev in IN. unfold leaks in IN. apply in_map_iff in IN as (p & <- & _). reflexivity.
Qed.

Lemma run_noB fuel : forall k s t, forallb pbB (tr s) = true -> run fuel k s = Done t -> forallb pbB t = true.
Proof.
  induction fuel as [|f IH]; intros k s t N H; simpl in H.
  - destruct k; [|discriminate]. inversion H; subst. rewrite forallb_rev'. exact N.
  - destruct (step k s) as [[k' s']|] eqn:ST.
    + destruct k as [|m k0]; [discriminate|]. simpl in ST. destruct (handle m s) as [pre s1] eqn:HD. inversion ST; subst k' s1.
      destruct (handle_B _ _ _ _ HD) as (evs & TR & PB). eapply IH; [|exact H]. rewrite TR, forallb_app, PB. exact N.
    + inversion H; subst. rewrite forallb_rev'. exact N.
Qed.

Theorem no_bad900 : forall (d : dkind) (p : list top) (fuel : nat) (t : list ev),
  exec d fuel p = Done t -> forallb (fun e => match e with EBad c => negb (N.leb 900 c) | _ => true end) t = true.
Proof.
  intros d p fuel t H. unfold exec in H.
  assert (N0 : forallb pbB (tr (init d)) = true) by (destruct d; reflexivity).
  exact (run_noB fuel _ _ _ N0 H).
Qed.

(** the flag conjunct of C16 apart from the leak reports: no use-after-free model event, no internal error code *)
Definition flag16_nl (e : ev) : bool :=
  match e with EBad c => negb (N.leb 900 c) | EModel c _ => negb (N.eqb c M_UAF) | _ => true end.

Theorem C16_flags_noleak : forall (d : dkind) (p : list top) (fuel : nat) (t : list ev),
  exec d fuel p = Done t -> forallb flag16_nl t = true.
Proof.
  intros d p fuel t H. pose proof (no_uaf d p fuel t H) as U. pose proof (no_bad900 d p fuel t H) as B.
  apply forallb_forall. intros e IN. rewrite forallb_forall in U, B. specialize (U e IN). specialize (B e IN).
  destruct e; try reflexivity; [exact B | exact U].
Qed.

(* with the leak reports: C16_flags_ok t = forallb flag16 t, and flag16 = flag16_nl except [ELeak _ _ => false] *)
Corollary C16_flags_of_noleak : forall (d : dkind) (p : list top) (fuel : nat) (t : list ev),
  exec d fuel p = Done t -> (forall k i, ~ In (ELeak k i) t) -> C16_flags_ok t = true.
Proof.
  intros d p fuel t H NL. pose proof (C16_flags_noleak d p fuel t H) as F. unfold C16_flags_ok.
  apply forallb_forall. intros e IN. rewrite forallb_forall in F. specialize (F e IN).
  destruct e; try reflexivity; try exact F. exfalso. eapply NL; eauto.
Qed.

Print Assumptions C16_flags_noleak.
Print Assumptions C16_flags_of_noleak.
