(** Layer R proofs, part 2: what the "work" handlers may do to the state.

    [eff s s'] is the closure of a small set of atomic effects.  Every handler of a work micro-op other
    than running an item / ending a body is shown (once) to act on the state through these effects only,
    possibly followed by pushing one frame without Core access.  Each invariant of the later files is then
    proved preserved by the atomic effects, instead of by every handler. *)
From Coq Require Import ZArith NArith List Bool Lia.
From Stk Require Import Lib.U Gen.SrcCount Gen.SrcCore Gen.SrcLog R.Syntax R.Rt R.Shape.
Import ListNotations.
Local Open Scope Z_scope.

Arguments submit : simpl never.
Arguments push_main : simpl never.
Arguments timer_add : simpl never.
Arguments emit : simpl never.
Arguments upd_actor : simpl never.
Arguments ref_clone : simpl never.
Arguments new_actor : simpl never.
Arguments log_rec : simpl never.
Arguments tok_script : simpl never.
Arguments target_ev : simpl never.

(* events that the queue / time monitors (C01, C06, C15) ignore *)
Definition quiet_ev (e : ev) : bool :=
  match e with
  | ESub _ _ _ | ERun _ _ _ | EMeth _ _ _ | EPrep _ _ _ | EEnd _ | EDrop _ _ false | ENum _ _
  | ERunBegin _ _ | ERunRet _ | ENew _ | EDropBegin | EDropEnd => false
  | EModel c _ => negb (N.eqb c M_DRAINLEFT)
  | _ => true
  end.

Definition held_of (x : actor) : list citem := match a_state x with SPrep h => h | _ => [] end.

Inductive eff : st -> st -> Prop :=
| eff_refl s : eff s s
| eff_emit s s1 e : eff s s1 -> quiet_ev e = true -> eff s (emit s1 e)
| eff_now s s1 : eff s s1 -> eff s (emit s1 (ENum TAG_NOW (now s1)))
| eff_start s s1 : eff s s1 -> eff s (emit s1 (ENum TAG_START (start s1)))
| eff_submit s s1 q ci : eff s s1 -> ci_call ci = false -> q <> QTimer -> eff s (submit s1 q ci)
| eff_submit_call s s1 ci : eff s s1 -> ci_call ci = true -> eff s (submit s1 QMain ci)
| eff_push_main s s1 ci : eff s s1 -> ci_call ci = true -> eff s (push_main s1 ci)
| eff_timer_add s s1 k v t ci : eff s s1 -> ci_call ci = false -> eff s (timer_add s1 k v t ci)
| eff_set_timers s s1 l : eff s s1 -> incl (map ti_ci l) (map ti_ci (timers s1)) -> eff s (set_timers s1 l)
| eff_set_nuid s s1 v : eff s s1 -> eff s (set_nuid s1 v)
| eff_set_env s s1 v : eff s s1 -> eff s (set_env s1 v)
| eff_set_fwds s s1 v : eff s s1 -> eff s (set_fwds s1 v)
| eff_set_shut s s1 v : eff s s1 -> eff s (set_shut s1 v)
| eff_set_logseq s s1 v : eff s s1 -> eff s (set_logseq s1 v)
| eff_set_tvars s s1 v : eff s s1 -> eff s (set_tvars s1 v)
| eff_set_tnext s s1 v : eff s s1 -> eff s (set_tnext s1 v)
| eff_set_frames s s1 fs : eff s s1 -> map f_ctx fs = map f_ctx (frames s1) -> eff s (set_frames s1 fs)
| eff_upd_actor s s1 a x :
    eff s s1 ->
    (forall c, In c (held_of x) ->
               ci_call c = true \/ exists y, aget (actors s1) a = Some y /\ In c (held_of y)) ->
    eff s (upd_actor s1 a x).

Lemma eff_trans s1 s2 s3 : eff s1 s2 -> eff s2 s3 -> eff s1 s3.
Proof. intros A B. induction B; try (econstructor; eauto; fail). exact A. Qed.

(* ------------------------------------------------------------------ *)
(** * The helper functions of Rt.v are effects *)

Lemma eff_ref_clone s0 s a : eff s0 s -> eff s0 (ref_clone s a).
Proof.
  intros H. unfold ref_clone. destruct (aget (actors s) a) as [x|] eqn:E.
  - destruct (a_freed x).
    + apply eff_upd_actor. apply eff_emit; auto.
      intros c Hc. right. exists x. split; auto.
    + apply eff_upd_actor; auto. intros c Hc. right. exists x. split; auto.
  - apply eff_emit; auto.
Qed.

Lemma take_eff s0 s h o s' : eff s0 s -> take s h = (o, s') -> eff s0 s'.
Proof.
  intros H. unfold take. destruct (frames s) as [|fr rest] eqn:F.
  - destruct (aget (env s) h); intros E; inversion E; subst; auto. apply eff_set_env; auto.
  - destruct (aget (f_loc fr) h).
    + intros E; inversion E; subst. apply eff_set_frames; auto. rewrite F. reflexivity.
    + destruct (aget (env s) h); intros E; inversion E; subst; auto. apply eff_set_env; auto.
Qed.

Lemma take_caps_eff ids : forall s0 s l s', eff s0 s -> take_caps ids s = (l, s') -> eff s0 s'.
Proof.
  induction ids as [|h r IH]; simpl; intros s0 s l s' H E.
  - inversion E; subst; auto.
  - destruct (take s h) as [[v|] s1] eqn:T.
    + destruct (take_caps r s1) as [l2 s2] eqn:T2. inversion E; subst.
      eapply IH; [|eauto]. eapply take_eff; eauto.
    + eapply IH; [|eauto]. eapply take_eff; eauto.
Qed.

Lemma take_env_caps_eff ids : forall s0 s l s', eff s0 s -> take_env_caps ids s = (l, s') -> eff s0 s'.
Proof.
  induction ids as [|h r IH]; simpl; intros s0 s l s' H E.
  - inversion E; subst; auto.
  - destruct (aget (env s) h).
    + destruct (take_env_caps r (set_env s (adel (env s) h))) as [l2 s2] eqn:T2. inversion E; subst.
      eapply IH; [|eauto]. apply eff_set_env; auto.
    + eapply IH; eauto.
Qed.

Lemma inst_eff c mk s0 s ci s' : eff s0 s -> inst c mk s = (ci, s') -> eff s0 s' /\ ci_kind ci = mk (clo_body c).
Proof.
  intros H. unfold inst. destruct (take_caps (clo_caps c) s) as [caps s1] eqn:T. intros E; inversion E; subst.
  split; [|reflexivity]. apply eff_emit; auto. apply eff_set_nuid. eapply take_caps_eff; eauto.
Qed.

Lemma inst_env_eff c mk s0 s ci s' : eff s0 s -> inst_env c mk s = (ci, s') -> eff s0 s' /\ ci_kind ci = mk (clo_body c).
Proof.
  intros H. unfold inst_env. destruct (take_env_caps (clo_caps c) s) as [caps s1] eqn:T. intros E; inversion E; subst.
  split; [|reflexivity]. apply eff_emit; auto. apply eff_set_nuid. eapply take_env_caps_eff; eauto.
Qed.

Lemma inst_nocaps_eff c mk s0 s ci s' : eff s0 s -> inst_nocaps c mk s = (ci, s') -> eff s0 s' /\ ci_kind ci = mk (clo_body c).
Proof.
  intros H. unfold inst_nocaps. intros E; inversion E; subst. split; [|reflexivity].
  apply eff_emit; auto. apply eff_set_nuid; auto.
Qed.

Lemma target_ev_eff s0 s ci : eff s0 s -> eff s0 (target_ev s ci).
Proof. intros H. unfold target_ev. destruct ci as [u i k caps q]. destruct k; auto; apply eff_emit; auto. Qed.

Lemma inst_call_eff c mk s0 s ci s' : eff s0 s -> inst_call c mk s = (ci, s') -> eff s0 s' /\ ci_kind ci = mk (clo_body c).
Proof.
  intros H. unfold inst_call. destruct (inst c mk s) as [ci1 s1] eqn:I. intros E; inversion E; subst.
  destruct (inst_eff _ _ _ _ _ _ H I) as [A B]. split; auto. apply target_ev_eff; auto.
Qed.

Lemma bind_eff s0 s h v l s' : eff s0 s -> bind s h v = (l, s') -> eff s0 s'.
Proof. intros H. unfold bind. destruct (aget (env s) h); intros E; inversion E; subst; apply eff_set_env; auto. Qed.

Lemma bad_eff s0 s c l s' : eff s0 s -> bad s c = (l, s') -> eff s0 s'.
Proof. intros H. unfold bad. intros E; inversion E; subst. apply eff_emit; auto. Qed.

Lemma log_rec_eff s0 s a b c d : eff s0 s -> eff s0 (log_rec s a b c d).
Proof. intros H. unfold log_rec. destruct (allows s b && haslogger s); auto. apply eff_emit; auto. Qed.

Lemma tok_script_eff script : forall s0 s, eff s0 s -> eff s0 (tok_script s script).
Proof.
  unfold tok_script. induction script as [|c r IH]; simpl; intros s0 s H; auto.
  fold (tok_script) in *.
  destruct (inst_env c KPlain s) as [ci s1] eqn:I. apply IH.
  destruct (inst_env_eff _ _ _ _ _ _ H I) as [A B].
  apply eff_submit; auto. unfold ci_call. rewrite B. reflexivity. discriminate.
Qed.

Lemma new_actor_eff s0 s a nt parent vis : eff s0 s -> eff s0 (new_actor s a nt parent vis).
Proof.
  intros H. unfold new_actor.
  assert (E : eff s0 (emit (upd_actor (log_rec (set_logseq s (oz (log_id_next (logseq s)))) (oz (log_id_next (logseq s))) LOGLEVEL_OPEN parent 0) a
                 (mkActor (SPrep []) (oz (count_inc (oz count_new))) MINRC_INIT (Some nt) (oz (log_id_next (logseq s))) false)) (EActor a))).
  { apply eff_emit; auto. apply eff_upd_actor. apply log_rec_eff. apply eff_set_logseq; auto.
    intros c Hc. inversion Hc. }
  destruct vis; auto. apply eff_emit; auto.
Qed.

Lemma mk_notifier_eff s0 s a n r s' : eff s0 s -> mk_notifier s a n = (r, s') -> eff s0 s'.
Proof.
  intros H. unfold mk_notifier. destruct n as [[hp c]|].
  - destruct (lookup s hp) as [v|].
    + destruct (handle_actor v) as [p|].
      * destruct (inst_call c (fun b => KMeth p b None) (ref_clone s p)) as [ci s2] eqn:I.
        intros E; inversion E; subst. eapply inst_call_eff; [|eauto]. apply eff_ref_clone; auto.
      * intros E; inversion E; subst. apply eff_emit; auto.
    + intros E; inversion E; subst. apply eff_emit; auto.
  - intros E; inversion E; subst; auto.
Qed.

(* ------------------------------------------------------------------ *)
(** * Handlers *)

Lemma inst_eff1 c mk s0 s ci s' : eff s0 s -> inst c mk s = (ci, s') -> eff s0 s'.
Proof. intros. eapply inst_eff; eauto. Qed.
Lemma inst_call_eff1 c mk s0 s ci s' : eff s0 s -> inst_call c mk s = (ci, s') -> eff s0 s'.
Proof. intros. eapply inst_call_eff; eauto. Qed.
Lemma inst_nocaps_eff1 c mk s0 s ci s' : eff s0 s -> inst_nocaps c mk s = (ci, s') -> eff s0 s'.
Proof. intros. eapply inst_nocaps_eff; eauto. Qed.
Lemma inst_kind c mk s ci s' : inst c mk s = (ci, s') -> ci_kind ci = mk (clo_body c).
Proof. intros. eapply inst_eff; eauto. apply eff_refl. Qed.
Lemma inst_call_kind c mk s ci s' : inst_call c mk s = (ci, s') -> ci_kind ci = mk (clo_body c).
Proof. intros. eapply inst_call_eff; eauto. apply eff_refl. Qed.
Lemma inst_nocaps_kind c mk s ci s' : inst_nocaps c mk s = (ci, s') -> ci_kind ci = mk (clo_body c).
Proof. intros. eapply inst_nocaps_eff; eauto. apply eff_refl. Qed.

Definition is_popper (m : mop) : bool := match m with MPopFrame | MEndBody _ _ => true | _ => false end.
Definition poppers (l : list mop) : list mop := filter is_popper l.

Lemma poppers_app a b : poppers (a ++ b) = poppers a ++ poppers b.
Proof. apply filter_app. Qed.
Lemma poppers_drops l : poppers (drops l) = [].
Proof. induction l; simpl; auto. Qed.
Lemma poppers_slab_drops l : poppers (slab_drops l) = [].
Proof. induction l as [|[c|n] l IH]; simpl; auto. Qed.
Lemma poppers_map_dropitem l : poppers (map MDropItem l) = [].
Proof. induction l; simpl; auto. Qed.
Lemma poppers_map_runitem l : poppers (map MRunItem l) = [].
Proof. induction l; simpl; auto. Qed.

(* the result of a handler: effects only, or effects then one pushed frame without Core access whose
   pop is the only frame pop among the pushed micro-ops *)
Inductive outcome (s : st) (pre : list mop) (s' : st) : Prop :=
| out_eff : eff s s' -> poppers pre = [] -> outcome s pre s'
| out_push s1 loc : eff s s1 -> s' = push_frame s1 XNone loc -> poppers pre = [MPopFrame] -> outcome s pre s'.

Ltac kind_tac :=
  unfold ci_call;
  first [ erewrite inst_kind by eassumption | erewrite inst_call_kind by eassumption
        | erewrite inst_nocaps_kind by eassumption ]; reflexivity.

Lemma incl_ti_update l i f : (forall x, ti_ci (f x) = ti_ci x) -> incl (map ti_ci (ti_update l i f)) (map ti_ci l).
Proof.
  intros H. induction l as [|x r IH]; simpl; [apply incl_refl|].
  destruct (N.eqb (ti_tid x) i); simpl.
  - rewrite H. apply incl_refl.
  - apply incl_cons; [left; reflexivity | apply incl_tl; exact IH].
Qed.

Lemma incl_ti_remove l i : incl (map ti_ci (ti_remove l i)) (map ti_ci l).
Proof.
  induction l as [|x r IH]; simpl; [apply incl_refl|].
  destruct (N.eqb (ti_tid x) i); simpl.
  - apply incl_tl, incl_refl.
  - apply incl_cons; [left; reflexivity | apply incl_tl; exact IH].
Qed.

Lemma ti_find_ci l i x : ti_find l i = Some x -> In (ti_ci x) (map ti_ci l).
Proof.
  induction l as [|y r IH]; simpl; [discriminate|].
  destruct (N.eqb (ti_tid y) i); intros E.
  - inversion E; subst. left; reflexivity.
  - right; auto.
Qed.

Lemma var_timer_in s k v x : var_timer s k v = Some x -> In (ti_ci x) (map ti_ci (timers s)).
Proof. unfold var_timer. destruct (vget (tvars s) k v); [|discriminate]. apply ti_find_ci. Qed.

Lemma var_timer_in' s k v i k' e o c : var_timer s k v = Some (TI i k' e o c) -> In c (map ti_ci (timers s)).
Proof. intros H. apply var_timer_in in H. exact H. Qed.

Lemma incl_ti_update_const l i y :
  In (ti_ci y) (map ti_ci l) -> incl (map ti_ci (ti_update l i (fun _ => y))) (map ti_ci l).
Proof.
  intros H z Hz.
  assert (G : In z (map ti_ci l) \/ z = ti_ci y).
  { clear H. induction l as [|w r IHr]; simpl in *; [contradiction|].
    destruct (N.eqb (ti_tid w) i); simpl in Hz.
    - destruct Hz as [E|E]; [right; auto | left; right; exact E].
    - destruct Hz as [E|E]; [left; left; exact E|]. destruct (IHr E) as [G|G]; [left; right; exact G | right; exact G]. }
  destruct G as [G|G]; [exact G | subst; exact H].
Qed.

Ltac upd_side :=
  let c := fresh "c" in let Hc := fresh "Hc" in
  intros c Hc; cbn in Hc;
  first [ solve [inversion Hc]
        | right; eexists; split; [ eassumption | exact Hc ] ].

Ltac eff_tac :=
  repeat first
    [ assumption
    | apply eff_upd_actor; [ | solve [upd_side] ]
    | apply eff_set_frames; [ | solve [ match goal with H : frames _ = _ |- _ => cbn; rewrite H; reflexivity end ] ]
    | apply eff_set_timers; [ | solve [ apply incl_ti_remove | apply incl_ti_update; reflexivity
                                       | apply incl_ti_update_const; cbn [ti_ci]; eapply var_timer_in'; eassumption ] ]
    | apply eff_refl
    | apply eff_emit; [ | reflexivity ]
    | apply eff_now | apply eff_start
    | apply eff_submit; [ | kind_tac | discriminate ]
    | apply eff_submit_call; [ | first [ kind_tac | reflexivity ] ]
    | apply eff_push_main; [ | reflexivity ]
    | apply eff_timer_add; [ | kind_tac ]
    | apply eff_set_nuid | apply eff_set_env | apply eff_set_fwds | apply eff_set_shut
    | apply eff_set_logseq | apply eff_set_tvars | apply eff_set_tnext
    | apply eff_ref_clone | apply log_rec_eff | apply new_actor_eff | apply tok_script_eff | apply target_ev_eff
    | eapply bind_eff; [ | eassumption ]
    | eapply bad_eff; [ | eassumption ]
    | eapply take_eff; [ | eassumption ]
    | eapply take_caps_eff; [ | eassumption ]
    | eapply inst_eff1; [ | eassumption ]
    | eapply inst_call_eff1; [ | eassumption ]
    | eapply inst_nocaps_eff1; [ | eassumption ]
    | eapply mk_notifier_eff; [ | eassumption ] ].

Lemma bind_poppers s h v l s' : bind s h v = (l, s') -> poppers l = [].
Proof. unfold bind. destruct (aget (env s) h); intros E; inversion E; reflexivity. Qed.
Lemma bad_poppers s c l s' : bad s c = (l, s') -> poppers l = [].
Proof. unfold bad. intros E; inversion E; reflexivity. Qed.

Ltac out_tac :=
  intros;
  match goal with
  | E : (_, _) = (_, _) |- _ => inversion E; subst; clear E
  | _ => idtac
  end;
  first
    [ apply out_eff; [ eff_tac | first [ reflexivity | eapply bind_poppers; eassumption | eapply bad_poppers; eassumption ] ]
    | eapply out_push; [ | reflexivity | reflexivity ]; eff_tac ].

Lemma do_act_outcome a s l s' : do_act a s = (l, s') -> outcome s l s'.
Proof.
  unfold do_act. destruct a; repeat dest_match; try solve [out_tac].
  all: intros; apply out_eff; [ eff_tac | eapply bind_poppers; eassumption ].
Qed.

Lemma state_drops_same a sa s l s' : state_drops a sa s = (l, s') -> s' = s /\ poppers l = [].
Proof.
  unfold state_drops. destruct sa; intros E; inversion E; subst; split; auto.
  - apply poppers_map_dropitem.
  - simpl. rewrite poppers_app, poppers_drops, poppers_slab_drops. reflexivity.
Qed.

Lemma as_call_call a ci arg : ci_call (as_call a ci arg) = true.
Proof. destruct ci. reflexivity. Qed.

Lemma ret_invoke_outcome r m s l s' : ret_invoke r m s = (l, s') -> outcome s l s'.
Proof.
  unfold ret_invoke. destruct r as [rid k]. destruct k; repeat dest_match; try solve [out_tac].
  all: intros E; inversion E; subst; clear E; apply out_eff; [|reflexivity].
  all: apply eff_submit_call; [|apply as_call_call]; eff_tac.
Qed.

Ltac use_state_drops :=
  match goal with
  | H : state_drops _ _ _ = (_, _) |- _ => apply state_drops_same in H; destruct H as [? ?]; subst
  end.

Lemma terminate_outcome a c s l s' : terminate a c s = (l, s') -> outcome s l s'.
Proof.
  unfold terminate. repeat dest_match; try solve [out_tac].
  all: intros E; inversion E; subst; clear E; use_state_drops.
  all: apply out_eff; [ eff_tac | rewrite ?poppers_app; simpl; try rewrite H0; auto ].
  all: destruct (a_freed _); eff_tac.
Qed.

Lemma drop_own_outcome a b s l s' : drop_own a b s = (l, s') -> outcome s l s'.
Proof. unfold drop_own. repeat dest_match; try solve [out_tac]. Qed.

Lemma drop_ref_outcome a s l s' : drop_ref a s = (l, s') -> outcome s l s'.
Proof.
  unfold drop_ref. repeat dest_match; try solve [out_tac].
  all: intros E; inversion E; subst; clear E; use_state_drops.
  all: apply out_eff; [ eff_tac | rewrite ?poppers_app; simpl; try rewrite H0; auto ].
Qed.

Lemma drop_val_outcome v s l s' : drop_val v s = (l, s') -> outcome s l s'.
Proof. unfold drop_val. destruct v; repeat dest_match; try solve [out_tac]. Qed.

(* ------------------------------------------------------------------ *)
(** * Every "quiet" work micro-op: effects (plus at most a pushed Core-less frame), the un-run drop of a
      plain closure, or a frame pop *)

Definition qmop (m : mop) : bool := is_work m && negb (runish m).

Inductive hcase (m : mop) (s : st) (pre : list mop) (s' : st) : Prop :=
| hc_eff : outcome s pre s' -> hcase m s pre s'
| hc_drop c : m = MDropItem c -> ci_call c = false -> pre = drops (ci_caps c) ->
              s' = emit s (EDrop (ci_uid c) (ci_sq c) false) -> hcase m s pre s'
| hc_pop fr rest : m = MPopFrame -> frames s = fr :: rest -> pre = drops (f_loc fr) ->
                   s' = set_frames s rest -> hcase m s pre s'.

Lemma outcome_app s p s' l : outcome s p s' -> poppers l = [] -> outcome s (p ++ l) s'.
Proof.
  intros [E P|s1 loc E X P] L.
  - apply out_eff; auto. rewrite poppers_app, P, L. reflexivity.
  - eapply out_push; eauto. rewrite poppers_app, P, L. reflexivity.
Qed.

Lemma handle_qmop m s pre s' : qmop m = true -> handle m s = (pre, s') -> quiet pre /\ hcase m s pre s'.
Proof.
  intros Q H. split.
  - apply andb_prop in Q as [W R]. destruct (handle_work _ _ _ _ W H) as [A B]. split; auto.
    destruct (existsb runish pre) eqn:X; auto. rewrite (B eq_refl) in R. discriminate.
  - destruct m; try discriminate Q; simpl in H.
    + (* MActs *)
      destruct l as [|a l].
      * inversion H; subst. apply hc_eff, out_eff; [apply eff_refl | reflexivity].
      * destruct (do_act a s) as [p s1] eqn:E. inversion H; subst.
        apply hc_eff. apply outcome_app; [eapply do_act_outcome; eauto | reflexivity].
    + (* MPopFrame *)
      destruct (frames s) as [|fr rest] eqn:F; inversion H; subst.
      * apply hc_eff, out_eff; [apply eff_refl | reflexivity].
      * eapply hc_pop; eauto.
    + (* MDropItem *)
      destruct c as [u i k caps q]. destruct k; simpl in H; inversion H; subst.
      * eapply hc_drop; reflexivity.
      * apply hc_eff, out_eff; [apply eff_refl | reflexivity].
      * apply hc_eff, out_eff; [apply eff_refl | reflexivity].
      * apply hc_eff, out_eff; [apply eff_refl | reflexivity].
      * apply hc_eff, out_eff; [apply eff_refl | reflexivity].
      * apply hc_eff, out_eff; [apply eff_refl | reflexivity].
    + (* MDropInner *)
      inversion H; subst. apply hc_eff, out_eff; [eff_tac | apply poppers_drops].
    + apply hc_eff. eapply drop_val_outcome; eauto.
    + apply hc_eff. eapply drop_own_outcome; eauto.
    + apply hc_eff. eapply drop_ref_outcome; eauto.
    + apply hc_eff. eapply ret_invoke_outcome; eauto.
    + inversion H; subst. apply hc_eff, out_eff; [eff_tac | reflexivity].
    + inversion H; subst. apply hc_eff, out_eff; [eff_tac | reflexivity].
    + inversion H; subst. apply hc_eff, out_eff; [eff_tac | reflexivity].
    + inversion H; subst. apply hc_eff, out_eff; [eff_tac | reflexivity].
    + apply hc_eff. eapply terminate_outcome; eauto.
    + destruct (aget (actors s) a); inversion H; subst; apply hc_eff, out_eff; try reflexivity; eff_tac.
Qed.
