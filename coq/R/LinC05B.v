(** Layer R proofs: C05, monitor B (the call closure behind a ret_to! / ret_some_to! Ret): it is queued at most
    once, only when the Ret is invoked (with Some for ret_some_to!), and it runs only after it was queued. *)
From Coq Require Import ZArith NArith List Bool Lia.
From Stk Require Import Lib.U Gen.SrcCount Gen.SrcCore Gen.SrcLog R.Syntax R.Rt R.Mon R.Shape R.Eff R.Tags R.Mono R.C15Proofs.
From Stk Require Import R.Lin R.LinAct R.LinLaw R.LinStep R.LinEvs R.LinTail R.LinLive R.LinEmb R.LinNin R.LinC05Mon R.LinC05A R.LinC05Pass R.LinC05Core.
Import ListNotations.
Local Open Scope Z_scope.

Definition reg (t : list ev) (r u : N) (b : bool) : Prop := In (ERetTo r u b) t.

Definition dropinner (k : list mop) (u : N) : Prop := exists c, In (MDropInner c) k /\ ci_uid c = u.

Record RB (m : sB) (k : list mop) (s : st) : Prop := mkRB {
  rb_to : forall r u b, ret_of_call (b_to m) u = Some (r, b) <-> reg (tr s) r u b;
  rb_dom : forall r u b, nget (b_to m) r = Some (u, b) -> reg (tr s) r u b;
  rb_lt : forall r u b, reg (tr s) r u b -> (u < nuid s)%N /\ 0 < creT (RRet r) (tr s);
  rb_cs : forall u, nmem u (b_callsub m) = true -> exists r b, reg (tr s) r u b /\ 0 < conT (RRet r) (tr s);
  rb_where : forall r u b, reg (tr s) r u b ->
               1 <= cnt (REmb r u b) k s \/ nmem u (b_callsub m) = true \/ 0 < conT (RClo u) (tr s) \/ dropinner k u;
  rb_nin : forall u, In u (NU k s) -> forall r b, ~ reg (tr s) r u b }.

(* ------------------------------------------------------------------ *)
(** * Events *)

Definition specB (e : ev) : bool :=
  match e with ERetTo _ _ _ | ERet _ _ | EMeth _ _ _ | ESub QMain _ _ => true | _ => false end.
Definition pbB (e : ev) : bool := negb (specB e).

(* ... or the submission of a closure instance created in this very step *)
Definition pbB' (n : N) (e : ev) : bool :=
  match e with ESub QMain u _ => N.leb n u | _ => pbB e end.

Lemma pbB_weaken n e : pbB e = true -> pbB' n e = true.
Proof. destruct e; simpl; auto. destruct q; simpl; auto; discriminate. Qed.

Lemma stepB_neutral m e : pbB e = true -> stepB m e = Some m.
Proof. destruct e; simpl; try discriminate; auto. destruct q; simpl; try discriminate; auto. Qed.

Lemma evs_reg n evs t r u b : forallb (pbB' n) evs = true -> (reg (evs ++ t) r u b <-> reg t r u b).
Proof.
  intros F. unfold reg. split; [|intros H; apply in_or_app; auto].
  intros H. apply in_app_or in H as [H|H]; auto. exfalso.
  rewrite forallb_forall in F. specialize (F _ H). discriminate F.
Qed.

Lemma conT_emb r u b t : conT (REmb r u b) t = 0.
Proof. induction t as [|e t IH]; simpl; auto. rewrite IH. destruct e; simpl; try reflexivity; try (rewrite ?ind_neq by discriminate; reflexivity). Qed.

Lemma creT_emb_evs n r u b evs : forallb (pbB' n) evs = true -> creT (REmb r u b) evs = 0.
Proof.
  induction evs as [|e l IH]; simpl; auto. intros H. apply andb_prop in H as [H1 H2]. rewrite (IH H2).
  destruct e; simpl in *; try reflexivity; try discriminate H1; try (rewrite ?ind_neq by discriminate; reflexivity).
Qed.

Lemma creT_emb_in r u b t : 0 < creT (REmb r u b) t -> reg t r u b.
Proof.
  unfold reg. induction t as [|e t IH]; simpl; [lia|]. intros H.
  destruct (Z.ltb 0 (cre1 (REmb r u b) e)) eqn:Q.
  - apply Z.ltb_lt in Q. left. destruct e; simpl in Q; try lia; try (rewrite ?ind_neq in Q by discriminate; lia).
    apply ind_pos in Q. inversion Q; reflexivity.
  - apply Z.ltb_ge in Q. right. apply IH.
    assert (0 <= cre1 (REmb r u b) e).
    { destruct e; simpl; try lia; try apply ind_range; try (rewrite ?ind_neq by discriminate; lia). }
    lia.
Qed.

(* monitor B over a block of events that are neutral or submissions of unregistered closures *)
Lemma monB_block n evs : forall t m,
  forallb (pbB' n) evs = true -> monr stepB iB t = Some m ->
  (forall r u b, ret_of_call (b_to m) u = Some (r, b) -> (u < n)%N) ->
  monr stepB iB (evs ++ t) = Some m.
Proof.
  induction evs as [|e l IH]; simpl; intros t m F M LT; auto.
  apply andb_prop in F as [F1 F2]. rewrite (IH t m F2 M LT).
  destruct e; try (apply stepB_neutral; exact F1).
  destruct q; try (apply stepB_neutral; exact F1).
  simpl in F1. apply N.leb_le in F1. simpl.
  destruct (ret_of_call (b_to m) uid) as [[r some]|] eqn:RC; auto.
  exfalso. specialize (LT _ _ _ RC). lia.
Qed.

(* ------------------------------------------------------------------ *)
(** * A notifier's call closure occurs in the census *)

Section NuCnt.
Transparent cret crk.
Fixpoint nu_ret_cnt (r : ret) {struct r} : forall u, In u (nu_ret r) -> cret RBad r = 0 -> 1 <= cret (RClo u) r.
Proof.
  destruct r as [rid k]. destruct k as [caps b|a ci|a ci|a inner|p key inner]; unfold nu_ret; simpl; try (intros u []).
  - destruct inner as [[p ci]|]; [|intros u []]. intros u [<-|[]] B.
    rewrite (ind_neq RBad (RNot a)) in B by discriminate.
    assert (R : realk (ci_kind ci) = true).
    { apply nb_real. pose proof (badif_nn RBad (realk (ci_kind ci))). pose proof (cci_nn RBad ci). lia. }
    rewrite R. simpl. pose proof (cci_self ci R). pose proof (ind_range (RClo (ci_uid ci)) (RNot a)). lia.
  - intros u H B. apply (nu_ret_cnt inner u H B).
Qed.
End NuCnt.

Lemma in_cmops x m k : In m k -> cmop x m <= cmops x k.
Proof.
  induction k as [|y k IH]; simpl; [contradiction|]. intros [->|H].
  - pose proof (cmops_nn x k). lia.
  - specialize (IH H). pose proof (cmop_nn x y). lia.
Qed.

Lemma nu_cnt k s u : In u (NU k s) -> cnt RBad k s = 0 -> 1 <= cnt (RClo u) k s.
Proof.
  unfold NU, cnt. intros H B. pose proof (cmops_nn RBad k). pose proof (cst_nn RBad s).
  pose proof (cmops_nn (RClo u) k). pose proof (cst_nn (RClo u) s).
  apply in_app_or in H as [H|H].
  - unfold nu_k in H. apply in_flat_map in H as (mo & IM & IU).
    destruct mo; simpl in IU; try contradiction.
    pose proof (in_cmops (RClo u) _ _ IM) as G1. pose proof (in_cmops RBad _ _ IM) as G2. simpl in G1, G2.
    pose proof (cmsg_nn RBad r m). pose proof (cret_nn RBad r). pose proof (cmsg_nn (RClo u) r m).
    assert (1 <= cret (RClo u) r) by (apply nu_ret_cnt; [exact IU | lia]). lia.
  - unfold nu_acts in H. apply in_flat_map in H as ([a y] & IA & IU). simpl in IU.
    destruct (a_notify y) as [nt|] eqn:NT; [|contradiction]. simpl in IU.
    assert (G : forall x l, In (a, y) l -> cactor x a y <= cacts x l).
    { intros x l. induction l as [|p l IH]; simpl; [contradiction|]. intros [->|I2].
      - simpl. pose proof (cacts_nn x l). lia.
      - specialize (IH I2). pose proof (cactor_nn x (fst p) (snd p)). lia. }
    pose proof (G (RClo u) _ IA) as G1. pose proof (G RBad _ IA) as G2. unfold cactor in G1, G2. rewrite NT in G1, G2. simpl in G1, G2.
    pose proof (cstate_nn RBad a (a_state y)). pose proof (cstate_nn (RClo u) a (a_state y)).
    pose proof (badif_nn RBad (nkind nt)). pose proof (badif_nn (RClo u) (nkind nt)). pose proof (cret_nn RBad nt).
    assert (CB : cacts RBad (actors s) = 0).
    { unfold cst in *. pose proof (cq_nn RBad (mainq s)). pose proof (cq_nn RBad (lazyq s)). pose proof (cq_nn RBad (idleq s)).
      pose proof (ctim_nn RBad (timers s)). pose proof (cacts_nn RBad (actors s)). pose proof (cenv_nn RBad (env s)).
      pose proof (cfrs_nn RBad (frames s)). pose proof (cnu_nn RBad (nuid s)). lia. }
    assert (1 <= cret (RClo u) nt) by (apply nu_ret_cnt; [exact IU | lia]).
    unfold cst. pose proof (cq_nn (RClo u) (mainq s)). pose proof (cq_nn (RClo u) (lazyq s)). pose proof (cq_nn (RClo u) (idleq s)).
    pose proof (ctim_nn (RClo u) (timers s)). pose proof (cenv_nn (RClo u) (env s)).
    pose proof (cfrs_nn (RClo u) (frames s)). pose proof (cnu_nn (RClo u) (nuid s)). lia.
Qed.

(* ------------------------------------------------------------------ *)
(** * The pass *)

Definition specialB_act (a : act) : bool :=
  match a with
  | ANewRet _ _ _ | ADefer _ | ADeferD _ | ACall _ _ | ACallPrep _ _ _ | AFwdSend _ _ => true
  | _ => false
  end.

Definition specialB (m : mop) : bool :=
  match m with
  | MActs (a :: _) => specialB_act a
  | MRetInvoke _ _ | MRunItem _ | MDropVal _ => true
  | _ => false
  end.

Ltac passB := intros Q; inj_pair Q; ei_tac.

Lemma do_act_B a s pre s' : do_act a s = (pre, s') -> specialB_act a = false -> evs_in pbB s s'.
Proof.
  intros H SP. destruct a; try discriminate SP; clear SP; revert H; unfold do_act; repeat dest_match; passB.
Qed.

Lemma handle_B m s pre s' : handle m s = (pre, s') -> specialB m = false -> evs_in pbB s s'.
Proof.
  intros H SP. destruct m; try discriminate SP; cbn [handle] in H.
  - revert H. unfold do_top. destruct o; repeat dest_match; passB.
  - destruct l as [|a l]; [revert H; passB|]. destruct (do_act a s) as [p s1] eqn:E. inversion H; subst.
    eapply do_act_B; eauto.
  - revert H. destruct (frames s); passB.
  - revert H. destruct (frames s); passB.
  - revert H. unfold drop_item. destruct c as [u i kd caps q]. destruct kd; passB.
  - revert H. passB.
  - revert H. unfold drop_own. destruct logged; repeat dest_match; passB.
  - revert H. unfold drop_ref. destruct (aget (actors s) a) as [y|]; [|passB].
    destruct (a_freed y); [passB|]. destruct (minrc_drop (a_rc y)) as [[v z]|]; [|passB]. destruct z; [|passB].
    destruct (state_drops a (a_state y) _) as [dl s2] eqn:SD. destruct (state_drops_mnum _ _ _ _ _ SD) as [-> _]. passB.
  - revert H. passB.
  - revert H. passB.
  - revert H. passB.
  - revert H. passB.
  - revert H. unfold terminate. destruct (aget (actors s) a) as [y|]; [|passB].
    destruct (state_drops a (a_state y) _) as [dl s2] eqn:SD. destruct (state_drops_mnum _ _ _ _ _ SD) as [-> _].
    destruct (a_notify y); passB.
  - revert H. destruct (aget (actors s) a); passB.
  - revert H. destruct (aget (actors s) a) as [y|]; [destruct (a_state y)|]; passB.
  - revert H. unfold fresh_stakker. passB.
  - revert H. destruct idle; [destruct (idleq s)|]; passB.
  - revert H. destruct (t >? now (set_mainq s [])).
    + destruct (fire t _) as [fired s2] eqn:FI. unfold fire in FI. injection FI as ? ?; subst. passB.
    + passB.
  - revert H. repeat dest_match; passB.
  - revert H. repeat dest_match; passB.
  - revert H. passB.
  - revert H. repeat dest_match; passB.
  - revert H. repeat dest_match; passB.
  - revert H. passB.
  - inversion H; subst. destruct (class_flags_tr s) as (fl & TR1 & FM & _).
    exists (rev (leaks (rev (tr (class_flags s)))) ++ fl). simpl. rewrite TR1, app_assoc. split; [reflexivity|].
    rewrite forallb_app. apply andb_true_intro. split.
    + unfold leaks. rewrite <- map_rev. apply forallb_forall. intros e IN. apply in_map_iff in IN as (p & <- & _). reflexivity.
    + apply forallb_forall. intros e IN. rewrite Forall_forall in FM. destruct (FM e IN) as (c & a & -> & _). reflexivity.
Qed.

(* ------------------------------------------------------------------ *)
(** * Monotonicity *)

Lemma nuid_mono k s k' s' : Lin k s -> Lin k' s' -> ext s s' -> (nuid s <= nuid s')%N.
Proof.
  intros L L' E. pose proof (Lin_nuid _ _ L). pose proof (Lin_nuid _ _ L').
  destruct (N.eq_dec (nuid s) 1) as [Q|Q]; [lia|].
  pose proof (Lin_created _ _ (nuid s - 1)%N L) as C1. pose proof (Lin_created _ _ (nuid s - 1)%N L') as C2.
  pose proof (creT_ext (RClo (nuid s - 1)) _ _ E) as MO. cbn [cnu] in C1, C2.
  replace (N.ltb (nuid s - 1) (nuid s)) with true in C1 by (symmetry; apply N.ltb_lt; lia).
  replace (N.ltb (nuid s - 1) 1) with false in * by (symmetry; apply N.ltb_ge; lia).
  destruct (N.ltb (nuid s - 1) (nuid s')) eqn:LT; [apply N.ltb_lt in LT; lia |]. exfalso. rewrite C1, C2 in MO. lia.
Qed.

Lemma conT_ext x s s' : ext s s' -> conT x (tr s) <= conT x (tr s').
Proof. intros [evs E]. rewrite E, conT_app. pose proof (conT_nn x evs). lia. Qed.

(** the balance of a resource without slack is constant unless a container is lost *)
Lemma bal_step_eq x mo k0 s pre s' :
  Lin (mo :: k0) s -> handle mo s = (pre, s') -> emb x mo = 0 ->
  bal x (pre ++ k0) s' = bal x (mo :: k0) s \/ LostC (pre ++ k0) s'.
Proof.
  intros L E EM.
  assert (D : (exists t, mo = MNew t) \/ forall t, mo <> MNew t).
  { destruct mo; try (right; intros t0 Q; discriminate Q). left; eauto. }
  unfold bal. rewrite cmops_app. cbn [cmops].
  destruct D as [[t ->]|NN].
  - cbn [cmop]. pose proof (new_law _ _ _ _ x E) as G. destruct (dk s) eqn:DK; [left; lia|].
    destruct (Z.ltb 0 (cq x (mainq s))) eqn:P.
    + apply Z.ltb_lt in P. right. destruct (cq_pos_clo _ _ P) as [u U]. exists (RClo u). split; [exact I|].
      pose proof (new_law _ _ _ _ (RClo u) E) as G2. rewrite DK in G2.
      pose proof (lin_le _ _ L (RClo u)) as LE. unfold bal in *. rewrite cmops_app. simpl in LE. lia.
    + apply Z.ltb_ge in P. pose proof (cq_nn x (mainq s)). left. lia.
  - pose proof (handle_law _ _ _ _ x (Lin_NB _ _ _ L) NN E) as G. left. lia.
Qed.

Lemma cnt_emb_bal r u b k s : cnt (REmb r u b) k s = bal (REmb r u b) k s + creT (REmb r u b) (tr s).
Proof. unfold cnt, bal, W. rewrite conT_emb. lia. Qed.

(* ------------------------------------------------------------------ *)
(** * Re-establishing the relation after a step without registration, invocation or start of a call *)

Lemma dropinner_head mo k0 u : dropinner (mo :: k0) u -> (exists c, mo = MDropInner c /\ ci_uid c = u) \/ dropinner k0 u.
Proof. intros (c & [->|IN] & E); [left; eauto | right; exists c; auto]. Qed.

Lemma dropinner_app pre k0 u : dropinner k0 u -> dropinner (pre ++ k0) u.
Proof. intros (c & IN & E). exists c. split; auto. apply in_or_app. auto. Qed.

Lemma RB_quiet m m' mo k0 s pre s' :
  Lin (mo :: k0) s -> Lin (pre ++ k0) s' -> handle mo s = (pre, s') -> RB m (mo :: k0) s ->
  b_to m' = b_to m ->
  (forall u, nmem u (b_callsub m) = true -> nmem u (b_callsub m') = true) ->
  (forall u, nmem u (b_callsub m') = true -> nmem u (b_callsub m) = true \/ exists r b, reg (tr s') r u b /\ 0 < conT (RRet r) (tr s')) ->
  (forall r u b, reg (tr s') r u b <-> reg (tr s) r u b) ->
  (forall r u b, creT (REmb r u b) (tr s') = creT (REmb r u b) (tr s)) ->
  (forall r u b, emb (REmb r u b) mo = 0 \/ nmem u (b_callsub m') = true \/ dropinner (pre ++ k0) u) ->
  RB m' (pre ++ k0) s' \/ LostC (pre ++ k0) s'.
Proof.
  intros L L' E R BT CS1 CS2 RG CE EM.
  assert (X : ext s s') by (eapply handle_ext; eauto).
  pose proof (nuid_mono _ _ _ _ L L' X) as NM.
  assert (DEC : LostC (pre ++ k0) s' \/ forall r u b, bal (REmb r u b) (pre ++ k0) s' + emb (REmb r u b) mo = bal (REmb r u b) (mo :: k0) s).
  { assert (D : (exists t, mo = MNew t) \/ forall t, mo <> MNew t).
    { destruct mo; try (right; intros t0 Q; discriminate Q). left; eauto. }
    destruct D as [[t ->]|NN].
    - destruct (dk s) eqn:DK.
      + right. intros r u b. unfold bal. rewrite cmops_app. pose proof (new_law _ _ _ _ (REmb r u b) E) as G. rewrite DK in G. simpl. lia.
      + destruct (mainq s) as [|c q] eqn:MQ.
        * right. intros r u b. unfold bal. rewrite cmops_app. pose proof (new_law _ _ _ _ (REmb r u b) E) as G. rewrite DK, MQ in G. simpl in *. lia.
        * (* something is forgotten: if it is a real closure it is lost; otherwise it holds nothing *)
          destruct (existsb (fun c => realk (ci_kind c)) (c :: q)) eqn:EX.
          -- left. apply existsb_exists in EX as (c0 & IN & RK). exists (RClo (ci_uid c0)). split; [exact I|].
             pose proof (new_law _ _ _ _ (RClo (ci_uid c0)) E) as G. rewrite DK, MQ in G.
             assert (P : 1 <= cq (RClo (ci_uid c0)) (c :: q)).
             { clear - IN RK. induction (c :: q) as [|y l IH]; [contradiction|]. simpl. destruct IN as [->|IN].
               - pose proof (cci_self c0 RK). pose proof (cq_nn (RClo (ci_uid c0)) l). lia.
               - specialize (IH IN). pose proof (cci_nn (RClo (ci_uid c0)) y). lia. }
             pose proof (lin_le _ _ L (RClo (ci_uid c0))) as LE. unfold bal in *. rewrite cmops_app. simpl in LE. lia.
          -- right. intros r u b. unfold bal. rewrite cmops_app. pose proof (new_law _ _ _ _ (REmb r u b) E) as G. rewrite DK, MQ in G.
             assert (Z0 : cq (REmb r u b) (c :: q) = 0).
             { clear - EX. induction (c :: q) as [|y l IH]; [reflexivity|]. simpl in *. apply orb_false_elim in EX as [E1 E2].
               rewrite (cci_unreal _ y E1), (IH E2). reflexivity. }
             simpl in *. lia.
    - right. intros r u b. unfold bal. rewrite cmops_app.
      pose proof (handle_law _ _ _ _ (REmb r u b) (Lin_NB _ _ _ L) NN E) as G. simpl. lia. }
  destruct DEC as [LC|BE]; [right; exact LC|]. left.
  split.
  - intros r u b. rewrite RG, BT. apply (rb_to _ _ _ R).
  - intros r u b H. rewrite RG. rewrite BT in H. apply (rb_dom _ _ _ R); auto.
  - intros r u b H. rewrite RG in H. destruct (rb_lt _ _ _ R _ _ _ H) as [A B]. split; [lia|].
    pose proof (creT_ext (RRet r) _ _ X). lia.
  - intros u H. destruct (CS2 u H) as [H0|H0]; [|exact H0].
    destruct (rb_cs _ _ _ R u H0) as (r & b & A & B). exists r, b. rewrite RG. split; auto.
    pose proof (conT_ext (RRet r) _ _ X). lia.
  - intros r u b H. rewrite RG in H. destruct (rb_where _ _ _ R _ _ _ H) as [A|[A|[A|A]]].
    + destruct (EM r u b) as [E0|[E0|E0]].
      * left. rewrite cnt_emb_bal, CE. pose proof (BE r u b) as B0. rewrite E0 in B0. rewrite cnt_emb_bal in A. lia.
      * right. left. exact E0.
      * right. right. right. exact E0.
    + right. left. apply CS1. exact A.
    + right. right. left. pose proof (conT_ext (RClo u) _ _ X). lia.
    + destruct (dropinner_head _ _ _ A) as [(c & -> & CU)|A2].
      * right. right. left. cbn [handle] in E. inversion E; subst. simpl. rewrite ind_refl.
        pose proof (conT_nn (RClo (ci_uid c)) (tr s)). lia.
      * right. right. right. apply dropinner_app; auto.
  - intros u H r b RGH. rewrite RG in RGH.
    destruct (handle_nu _ k0 _ _ _ (Lin_NB _ _ _ L) E u H) as [OLD|FR].
    + eapply (rb_nin _ _ _ R); eauto.
    + destruct (rb_lt _ _ _ R _ _ _ RGH) as [A _]. lia.
Qed.

(* ------------------------------------------------------------------ *)
(** * Cases *)

Lemma specialB_emb mo : specialB mo = false -> forall x, emb x mo = 0.
Proof. intros H x. destruct mo; try reflexivity. discriminate H. Qed.

Lemma reg_lt_n m k s : RB m k s -> forall r u b, ret_of_call (b_to m) u = Some (r, b) -> (u < nuid s)%N.
Proof. intros R r u b H. apply (rb_to _ _ _ R) in H. apply (rb_lt _ _ _ R _ _ _ H). Qed.

(* a block of neutral events and submissions of fresh closures *)
Lemma IB_block m mo k0 s pre s' :
  Lin (mo :: k0) s -> Lin (pre ++ k0) s' -> handle mo s = (pre, s') ->
  monr stepB iB (tr s) = Some m -> RB m (mo :: k0) s ->
  evs_in (pbB' (nuid s)) s s' -> (forall x, emb x mo = 0) ->
  (exists m', monr stepB iB (tr s') = Some m' /\ RB m' (pre ++ k0) s') \/ LostC (pre ++ k0) s'.
Proof.
  intros L L' E M R [evs [TR NE]] EM.
  assert (M' : monr stepB iB (tr s') = Some m).
  { rewrite TR. eapply monB_block; eauto. eapply reg_lt_n; eauto. }
  destruct (RB_quiet m m mo k0 s pre s' L L' E R eq_refl (fun u H => H) (fun u H => or_introl H)) as [R'|LC]; auto.
  - intros r u b. rewrite TR. eapply evs_reg; eauto.
  - intros r u b. rewrite TR, creT_app, (creT_emb_evs _ _ _ _ _ NE). lia.
  - left. exists m. auto.
Qed.

Lemma IB_neutral m mo k0 s pre s' :
  Lin (mo :: k0) s -> Lin (pre ++ k0) s' -> handle mo s = (pre, s') -> specialB mo = false ->
  monr stepB iB (tr s) = Some m -> RB m (mo :: k0) s ->
  (exists m', monr stepB iB (tr s') = Some m' /\ RB m' (pre ++ k0) s') \/ LostC (pre ++ k0) s'.
Proof.
  intros L L' E SP M R. eapply IB_block; eauto.
  - eapply evs_in_weaken; [|eapply handle_B; eauto]. intros e. apply pbB_weaken.
  - apply specialB_emb; auto.
Qed.

Lemma inst_nocaps_uid c mk s ci s' : inst_nocaps c mk s = (ci, s') -> ci_uid ci = nuid s.
Proof. unfold inst_nocaps. intros Q; inversion Q; reflexivity. Qed.

Ltac sub_side :=
  simpl; apply N.leb_le;
  first [ erewrite inst_uid by eassumption | erewrite inst_call_uid by eassumption | erewrite inst_nocaps_uid by eassumption ];
  rewrite ?nuid_ref_clone; apply N.le_refl.

Lemma fresh_acts_B a s pre s' :
  match a with ADefer _ | ADeferD _ | ACall _ _ | ACallPrep _ _ _ | AFwdSend _ _ => True | _ => False end ->
  do_act a s = (pre, s') -> evs_in (pbB' (nuid s)) s s'.
Proof.
  intros SP. destruct a; try contradiction; clear SP; unfold do_act; repeat dest_match; intros Q; inj_pair Q;
    try (apply ei_submit1; [sub_side|]); ei_tac.
Qed.

Lemma take_env_caps_nuid ids : forall s l s', take_env_caps ids s = (l, s') -> nuid s' = nuid s.
Proof.
  induction ids as [|h r IH]; simpl; intros s l s' E.
  - inversion E; reflexivity.
  - destruct (aget (env s) h).
    + destruct (take_env_caps r (set_env s (adel (env s) h))) as [l2 s2] eqn:T2. inversion E; subst. rewrite (IH _ _ _ T2). reflexivity.
    + eapply IH; eauto.
Qed.

Lemma tok_script_B n script : forall s0 s, (n <= nuid s)%N -> evs_in (pbB' n) s0 s -> evs_in (pbB' n) s0 (tok_script s script).
Proof.
  unfold tok_script. induction script as [|c r IH]; intros s0 s LE H; [exact H|]. cbn [fold_left].
  destruct (inst_env c KPlain s) as [ci s1] eqn:I.
  assert (U : ci_uid ci = nuid s /\ nuid s1 = (nuid s + 1)%N).
  { unfold inst_env in I. destruct (take_env_caps (clo_caps c) s) as [caps s2] eqn:T. inversion I; subst. simpl.
    rewrite (take_env_caps_nuid _ _ _ _ T). auto. }
  destruct U as [U1 U2]. apply IH.
  - unfold submit. simpl. lia.
  - apply ei_submit1; [simpl; apply N.leb_le; lia|]. eapply ei_inst_env; eauto.
Qed.

Lemma drop_val_B v s pre s' : drop_val v s = (pre, s') -> evs_in (pbB' (nuid s)) s s'.
Proof.
  unfold drop_val. destruct v; repeat dest_match; intros Q; inj_pair Q; try solve [ei_tac].
  apply tok_script_B; [simpl; apply N.le_refl | ei_tac].
Qed.

Lemma IB_fresh m mo k0 s pre s' :
  Lin (mo :: k0) s -> Lin (pre ++ k0) s' -> handle mo s = (pre, s') ->
  match mo with
  | MActs (ADefer _ :: _) | MActs (ADeferD _ :: _) | MActs (ACall _ _ :: _) | MActs (ACallPrep _ _ _ :: _)
  | MActs (AFwdSend _ _ :: _) | MDropVal _ => True
  | _ => False
  end ->
  monr stepB iB (tr s) = Some m -> RB m (mo :: k0) s ->
  (exists m', monr stepB iB (tr s') = Some m' /\ RB m' (pre ++ k0) s') \/ LostC (pre ++ k0) s'.
Proof.
  intros L L' E SP M R. eapply IB_block; eauto.
  - destruct mo; try contradiction; cbn [handle] in E.
    + destruct l as [|a l]; [contradiction|]. destruct (do_act a s) as [p s1] eqn:DA. inversion E; subst.
      eapply fresh_acts_B; [|eauto]. destruct a; try contradiction; exact I.
    + eapply drop_val_B; eauto.
  - intros x. destruct mo; try contradiction; reflexivity.
Qed.

Lemma run_item_evB c s pre s' :
  run_item c s = (pre, s') ->
  evs_in pbB s s' \/ (realk (ci_kind c) = true /\ exists a, tr s' = EMeth a (ci_uid c) (now s) :: tr s).
Proof.
  unfold run_item. destruct c as [u i kd caps q]. destruct kd; repeat dest_match; intros Q; inj_pair Q;
    try (left; solve [ei_tac]).
  right. split; [reflexivity|]. eexists. reflexivity.
Qed.

Lemma in_dropinner_cnt k u : dropinner k u -> cmops RBad k = 0 -> 1 <= cmops (RClo u) k.
Proof.
  intros (c & IN & E) B. pose proof (in_cmops (RClo u) _ _ IN) as G1. pose proof (in_cmops RBad _ _ IN) as G2.
  simpl in G1, G2. pose proof (cci_nn RBad c). pose proof (badif_nn RBad (realk (ci_kind c))).
  assert (RK : realk (ci_kind c) = true) by (apply nb_real; lia).
  pose proof (cci_self c RK) as SF. rewrite E in SF. pose proof (badif_nn (RClo u) (realk (ci_kind c))). lia.
Qed.

Lemma IB_runitem m c k0 s pre s' :
  Lin (MRunItem c :: k0) s -> Lin (pre ++ k0) s' -> handle (MRunItem c) s = (pre, s') ->
  monr stepB iB (tr s) = Some m -> RB m (MRunItem c :: k0) s ->
  (exists m', monr stepB iB (tr s') = Some m' /\ RB m' (pre ++ k0) s') \/ LostC (pre ++ k0) s'.
Proof.
  intros L L' E M R. pose proof E as E0. cbn [handle] in E.
  destruct (run_item_evB _ _ _ _ E) as [EV|(RK & a & TR)].
  { eapply IB_block; eauto. eapply evs_in_weaken; [|exact EV]. intros e. apply pbB_weaken. }
  (* a Ready method starts: if it is the call of a ret_to! Ret, it was queued by the invocation of the Ret *)
  assert (M' : monr stepB iB (tr s') = Some m).
  { rewrite TR. simpl. rewrite M. simpl.
    destruct (ret_of_call (b_to m) (ci_uid c)) as [[r b]|] eqn:RC; auto.
    apply (rb_to _ _ _ R) in RC.
    pose proof (Lin_wellkinded _ _ L) as WK. pose proof (Lin_uid_once _ _ (ci_uid c) L) as ONE. unfold cnt in *.
    cbn [cmops cmop] in *.
    pose proof (cci_nn RBad c). pose proof (cmops_nn RBad k0). pose proof (cst_nn RBad s).
    pose proof (cci_self c RK) as SF. pose proof (cmops_nn (RClo (ci_uid c)) k0). pose proof (cst_nn (RClo (ci_uid c)) s).
    destruct (rb_where _ _ _ R _ _ _ RC) as [A|[A|[A|A]]].
    - exfalso. unfold cnt in A. cbn [cmops cmop] in A.
      pose proof (cci_emb_self r (ci_uid c) b c RK eq_refl). pose proof (cmops_emb r (ci_uid c) b k0). pose proof (cst_emb r (ci_uid c) b s). lia.
    - rewrite A. reflexivity.
    - exfalso. pose proof (Lin_uid_consumed _ _ (ci_uid c) L A) as Z0. unfold cnt in Z0. cbn [cmops cmop] in Z0. lia.
    - exfalso. destruct (dropinner_head _ _ _ A) as [(c' & Q & _)|A2]; [discriminate Q|].
      assert (B0 : cmops RBad k0 = 0) by lia. pose proof (in_dropinner_cnt _ _ A2 B0). lia. }
  destruct (RB_quiet m m (MRunItem c) k0 s pre s' L L' E0 R eq_refl (fun u H => H) (fun u H => or_introl H)) as [R'|LC]; auto.
  - intros r u b. rewrite TR. unfold reg. simpl. split; [intros [Q|Q]; [discriminate Q | exact Q] | auto].
  - intros r u b. rewrite TR. simpl. lia.
  - left. exists m. auto.
Qed.

Lemma as_call_uid a ci arg : ci_uid (as_call a ci arg) = ci_uid ci.
Proof. destruct ci; reflexivity. Qed.

Lemma conT_zero_of_present k s mA rid :
  Lin k s -> monr stepA iA (tr s) = Some mA -> 1 <= cnt (RRet rid) k s -> conT (RRet rid) (tr s) = 0.
Proof.
  intros L M P. destruct (present_live _ _ _ _ L M P) as [_ NI].
  destruct (monA_facts _ _ M) as (_ & F2 & _). rewrite F2, NI. reflexivity.
Qed.

Lemma reg_fun m k s r u b r' b' : RB m k s -> reg (tr s) r u b -> reg (tr s) r' u b' -> r = r' /\ b = b'.
Proof.
  intros R A B. apply (rb_to _ _ _ R) in A. apply (rb_to _ _ _ R) in B. rewrite A in B. inversion B; auto.
Qed.

Lemma IB_retinvoke m mA r m0 k0 s pre s' :
  Lin (MRetInvoke r m0 :: k0) s -> Lin (pre ++ k0) s' -> handle (MRetInvoke r m0) s = (pre, s') ->
  monr stepA iA (tr s) = Some mA ->
  monr stepB iB (tr s) = Some m -> RB m (MRetInvoke r m0 :: k0) s ->
  (exists m', monr stepB iB (tr s') = Some m' /\ RB m' (pre ++ k0) s') \/ LostC (pre ++ k0) s'.
Proof.
  intros L L' E MA M R. pose proof E as E0. cbn [handle] in E. destruct r as [rid rk].
  pose proof (NB_mop _ _ (Lin_NB _ _ _ L)) as NBM. cbn [cmop] in NBM.
  pose proof (cmsg_nn RBad (Ret rid rk) m0) as MN0. pose proof (cret_nn RBad (Ret rid rk)) as CR0.
  unfold ret_invoke in E. destruct rk as [caps bd|a ci|a ci|a inner|p key inner].
  - (* RKClos *)
    inversion E; subst pre s'; clear E.
    destruct (RB_quiet m (mkB (b_to m) (b_callsub m) (nset (b_inv m) rid (msg_num m0))) _ k0 s _ _ L L' E0 R eq_refl (fun u H => H) (fun u H => or_introl H)) as [R'|LC]; auto.
    + intros r u b. change (tr (push_frame (emit s (ERet rid (msg_num m0))) XNone caps)) with (ERet rid (msg_num m0) :: tr s).
      unfold reg. simpl. split; [intros [Q|Q]; [discriminate Q | exact Q] | auto].
    + left. eexists. split; [|exact R']. change (tr (push_frame (emit s (ERet rid (msg_num m0))) XNone caps)) with (ERet rid (msg_num m0) :: tr s).
      simpl. rewrite M. reflexivity.
  - (* RKTo: the call is queued now *)
    inversion E; subst pre s'; clear E.
    set (u := ci_uid ci).
    assert (PE : 1 <= cnt (REmb rid u false) (MRetInvoke (Ret rid (RKTo a ci)) m0 :: k0) s).
    { unfold cnt. cbn [cmops cmop]. rewrite cret_eq, crk_to. fold u. rewrite ind_refl.
      pose proof (cmsg_nn (REmb rid u false) (Ret rid (RKTo a ci)) m0). pose proof (ind_range (REmb rid u false) (RRet rid)).
      pose proof (badif_nn (REmb rid u false) (realk (ci_kind ci))). pose proof (cci_nn (REmb rid u false) ci).
      pose proof (cmops_nn (REmb rid u false) k0). pose proof (cst_nn (REmb rid u false) s). lia. }
    assert (RG0 : reg (tr s) rid u false).
    { apply creT_emb_in. pose proof (Lin_live _ _ (REmb rid u false) L ltac:(discriminate)). rewrite conT_emb in H. lia. }
    assert (PR : 1 <= cnt (RRet rid) (MRetInvoke (Ret rid (RKTo a ci)) m0 :: k0) s).
    { unfold cnt. cbn [cmops cmop]. pose proof (cret_self rid (RKTo a ci) eq_refl). pose proof (cmsg_nn (RRet rid) (Ret rid (RKTo a ci)) m0).
      pose proof (cmops_nn (RRet rid) k0). pose proof (cst_nn (RRet rid) s). lia. }
    pose proof (conT_zero_of_present _ _ _ _ L MA PR) as CZ.
    assert (NCS : nmem u (b_callsub m) = false).
    { destruct (nmem u (b_callsub m)) eqn:Q; auto. exfalso.
      destruct (rb_cs _ _ _ R u Q) as (r' & b' & A1 & A2). destruct (reg_fun _ _ _ _ _ _ _ _ R RG0 A1) as [<- _]. lia. }
    pose proof (proj2 (rb_to _ _ _ R rid u false) RG0) as RC.
    set (m' := mkB (b_to m) (u :: b_callsub m) (nset (b_inv m) rid (msg_num m0))).
    assert (TR : tr (submit (emit s (ERet rid (msg_num m0))) QMain (as_call a ci (msg_num m0))) =
                 ESub QMain u true :: ERet rid (msg_num m0) :: tr s).
    { unfold submit. simpl. rewrite as_call_uid, as_call_call. reflexivity. }
    assert (M' : monr stepB iB (ESub QMain u true :: ERet rid (msg_num m0) :: tr s) = Some m').
    { simpl. rewrite M. simpl. rewrite RC, NCS, nget_nset, N.eqb_refl. simpl. destruct (msg_num m0); reflexivity. }
    destruct (RB_quiet m m' _ k0 s _ _ L L' E0 R eq_refl) as [R'|LC]; auto.
    + intros u0 H. simpl. rewrite H. apply orb_true_r.
    + intros u0 H. simpl in H. apply orb_prop in H as [H|H]; [|left; exact H]. apply N.eqb_eq in H. subst u0.
      right. exists rid, false. rewrite TR. split; [right; right; exact RG0|]. simpl. rewrite ind_refl. pose proof (conT_nn (RRet rid) (tr s)). lia.
    + intros r0 u0 b0. rewrite TR. unfold reg. simpl. split; [intros [Q|[Q|Q]]; [discriminate Q | discriminate Q | exact Q] | auto].
    + intros r0 u0 b0. cbn [emb]. fold u.
      destruct (res_dec (REmb r0 u0 b0) (REmb rid u false)) as [Q|Q].
      * inversion Q; subst. right. left. simpl. rewrite N.eqb_refl. reflexivity.
      * left. apply ind_neq. exact Q.
    + left. exists m'. rewrite TR. auto.
  - (* RKSomeTo *)
    set (u := ci_uid ci).
    assert (PE : 1 <= cnt (REmb rid u true) (MRetInvoke (Ret rid (RKSomeTo a ci)) m0 :: k0) s).
    { unfold cnt. cbn [cmops cmop]. rewrite cret_eq, crk_someto. fold u. rewrite ind_refl.
      pose proof (cmsg_nn (REmb rid u true) (Ret rid (RKSomeTo a ci)) m0). pose proof (ind_range (REmb rid u true) (RRet rid)).
      pose proof (badif_nn (REmb rid u true) (realk (ci_kind ci))). pose proof (cci_nn (REmb rid u true) ci).
      pose proof (cmops_nn (REmb rid u true) k0). pose proof (cst_nn (REmb rid u true) s). lia. }
    assert (RG0 : reg (tr s) rid u true).
    { apply creT_emb_in. pose proof (Lin_live _ _ (REmb rid u true) L ltac:(discriminate)). rewrite conT_emb in H. lia. }
    assert (PR : 1 <= cnt (RRet rid) (MRetInvoke (Ret rid (RKSomeTo a ci)) m0 :: k0) s).
    { unfold cnt. cbn [cmops cmop]. pose proof (cret_self rid (RKSomeTo a ci) eq_refl). pose proof (cmsg_nn (RRet rid) (Ret rid (RKSomeTo a ci)) m0).
      pose proof (cmops_nn (RRet rid) k0). pose proof (cst_nn (RRet rid) s). lia. }
    pose proof (conT_zero_of_present _ _ _ _ L MA PR) as CZ.
    assert (NCS : nmem u (b_callsub m) = false).
    { destruct (nmem u (b_callsub m)) eqn:Q; auto. exfalso.
      destruct (rb_cs _ _ _ R u Q) as (r' & b' & A1 & A2). destruct (reg_fun _ _ _ _ _ _ _ _ R RG0 A1) as [<- _]. lia. }
    pose proof (proj2 (rb_to _ _ _ R rid u true) RG0) as RC.
    destruct m0 as [m1|]; injection E as EP ES.
    + (* Some: the call is queued *)
      destruct m1 as [v|c]; [|exfalso; cbn [cmsg nkind badif] in NBM; rewrite ind_refl in NBM; lia].
      set (m' := mkB (b_to m) (u :: b_callsub m) (nset (b_inv m) rid (Some v))).
      assert (TR : tr s' = ESub QMain u true :: ERet rid (Some v) :: tr s).
      { rewrite <- ES. unfold submit. simpl tr. rewrite as_call_uid, as_call_call. reflexivity. }
      assert (M' : monr stepB iB (ESub QMain u true :: ERet rid (Some v) :: tr s) = Some m').
      { simpl. rewrite M. simpl. rewrite RC, NCS, nget_nset, N.eqb_refl. reflexivity. }
      destruct (RB_quiet m m' _ k0 s _ _ L L' E0 R eq_refl) as [R'|LC]; auto.
      * intros u0 H. simpl. rewrite H. apply orb_true_r.
      * intros u0 H. simpl in H. apply orb_prop in H as [H|H]; [|left; exact H]. apply N.eqb_eq in H. subst u0.
        right. exists rid, true. rewrite TR. split; [right; right; exact RG0|]. simpl. rewrite ind_refl. pose proof (conT_nn (RRet rid) (tr s)). lia.
      * intros r0 u0 b0. rewrite TR. unfold reg. simpl. split; [intros [Q|[Q|Q]]; [discriminate Q | discriminate Q | exact Q] | auto].
      * intros r0 u0 b0. rewrite TR. simpl. lia.
      * intros r0 u0 b0. cbn [emb]. fold u.
        destruct (res_dec (REmb r0 u0 b0) (REmb rid u true)) as [Q|Q].
        -- inversion Q; subst. right. left. simpl. rewrite N.eqb_refl. reflexivity.
        -- left. apply ind_neq. exact Q.
      * left. exists m'. rewrite TR. auto.
    + (* None: the call closure is dropped *)
      subst pre s'.
      set (m' := mkB (b_to m) (b_callsub m) (nset (b_inv m) rid None)).
      destruct (RB_quiet m m' _ k0 s _ _ L L' E0 R eq_refl (fun u H => H) (fun u H => or_introl H)) as [R'|LC]; auto.
      * intros r0 u0 b0. unfold reg. simpl. split; [intros [Q|Q]; [discriminate Q | exact Q] | auto].
      * intros r0 u0 b0. cbn [emb]. fold u.
        destruct (res_dec (REmb r0 u0 b0) (REmb rid u true)) as [Q|Q].
        -- inversion Q; subst. right. right. exists ci. split; [simpl; auto | reflexivity].
        -- left. apply ind_neq. exact Q.
      * left. exists m'. split; [|exact R']. simpl. rewrite M. reflexivity.
  - (* RKNotify: its call, if any, is not a registered one *)
    destruct inner as [[p ci]|]; inversion E; subst pre s'; clear E.
    + assert (NR : forall r b, ~ reg (tr s) r (ci_uid ci) b).
      { apply (rb_nin _ _ _ R). unfold NU. apply in_or_app. left. simpl. left. reflexivity. }
      assert (RC : ret_of_call (b_to m) (ci_uid ci) = None).
      { destruct (ret_of_call (b_to m) (ci_uid ci)) as [[r b]|] eqn:Q; auto. exfalso. apply (rb_to _ _ _ R) in Q. eapply NR; eauto. }
      assert (TR : tr (submit (emit s (ENotify a (msg_cause m0))) QMain (as_call p ci None)) =
                   ESub QMain (ci_uid ci) true :: ENotify a (msg_cause m0) :: tr s).
      { unfold submit. simpl tr. rewrite as_call_uid, as_call_call. reflexivity. }
      destruct (RB_quiet m m _ k0 s _ _ L L' E0 R eq_refl (fun u H => H) (fun u H => or_introl H)) as [R'|LC]; auto.
      * intros r0 u0 b0. rewrite TR. unfold reg. simpl. split; [intros [Q|[Q|Q]]; [discriminate Q | discriminate Q | exact Q] | auto].
      * left. exists m. split; [|exact R']. rewrite TR. simpl. rewrite M. simpl. rewrite RC. reflexivity.
    + destruct (RB_quiet m m _ k0 s _ _ L L' E0 R eq_refl (fun u H => H) (fun u H => or_introl H)) as [R'|LC]; auto.
      * intros r0 u0 b0. unfold reg. simpl. split; [intros [Q|Q]; [discriminate Q | exact Q] | auto].
      * left. exists m. split; [|exact R']. simpl. rewrite M. reflexivity.
  - (* RKSlab *)
    apply (IB_block m _ k0 s pre s' L L' E0 M R); [|intros x; reflexivity].
    destruct m0 as [m1|]; inversion E; subst pre s'; ei_tac.
Qed.

(* ------------------------------------------------------------------ *)
(** * Registration: creation of a ret_to! / ret_some_to! Ret *)

Lemma roc_nset_fresh l r u b :
  nget l r = None -> ret_of_call l u = None ->
  forall u', ret_of_call (nset l r (u, b)) u' =
             match ret_of_call l u' with Some x => Some x | None => if N.eqb u' u then Some (r, b) else None end.
Proof.
  induction l as [|[r0 [v0 b0]] l IH]; simpl; intros G1 G2 u'.
  - reflexivity.
  - destruct (N.eqb r r0) eqn:Q1; [discriminate|]. destruct (N.eqb u v0) eqn:Q2; [discriminate|].
    simpl. destruct (N.eqb u' v0); [reflexivity|]. apply IH; auto.
Qed.

Lemma newret_nule h r kd s pre s' n : do_act (ANewRet h r kd) s = (pre, s') -> nule n s s'.
Proof. unfold do_act. repeat dest_match; intros Q; inj_pair Q; nule_tac. Qed.

Lemma inst_call_shape c mk s ci s' : inst_call c mk s = (ci, s') -> evs_in pbB s s'.
Proof. intros H. ei_tac. Qed.

Lemma IB_newret m h r kd l k0 s pre s' :
  Lin (MActs (ANewRet h r kd :: l) :: k0) s -> Lin (pre ++ k0) s' ->
  handle (MActs (ANewRet h r kd :: l)) s = (pre, s') ->
  (exists mA', monr stepA iA (tr s') = Some mA') ->
  monr stepB iB (tr s) = Some m -> RB m (MActs (ANewRet h r kd :: l) :: k0) s ->
  (exists m', monr stepB iB (tr s') = Some m' /\ RB m' (pre ++ k0) s') \/ LostC (pre ++ k0) s'.
Proof.
  intros L L' E [mA' MA'] M R. pose proof E as E0. cbn [handle] in E.
  destruct (do_act (ANewRet h r kd) s) as [p s1] eqn:DA. inversion E; subst pre s1; clear E.
  (* the cases without registration *)
  assert (NEU : evs_in pbB s s' -> (exists m', monr stepB iB (tr s') = Some m' /\ RB m' ((p ++ [MActs l]) ++ k0) s') \/ LostC ((p ++ [MActs l]) ++ k0) s').
  { intros EV. apply (IB_block m _ k0 s _ s' L L' E0 M R); [|intros x; reflexivity]. eapply evs_in_weaken; [|exact EV]. intros e. apply pbB_weaken. }
  pose proof DA as DA0. unfold do_act in DA.
  assert (REGCASE : forall ht c b, (kd = RTo ht c /\ b = false) \/ (kd = RSomeTo ht c /\ b = true) ->
     forall v a ci s2, lookup s ht = Some v -> handle_actor v = Some a ->
       inst_call c (fun bd => KMeth a bd None) (ref_clone s a) = (ci, s2) ->
       bind (emit (emit s2 (ERetNew r)) (ERetTo r (ci_uid ci) b)) h (HRet (Ret r (if b then RKSomeTo a ci else RKTo a ci))) = (p, s') ->
       (exists m', monr stepB iB (tr s') = Some m' /\ RB m' ((p ++ [MActs l]) ++ k0) s') \/ LostC ((p ++ [MActs l]) ++ k0) s').
  { intros ht c b KD v a ci s2 LK HA IC BD. clear NEU DA.
    set (u := ci_uid ci) in *.
    assert (UN : u = nuid s) by (unfold u; rewrite (inst_call_uid _ _ _ _ _ IC), nuid_ref_clone; reflexivity).
    destruct (inst_call_shape _ _ _ _ _ IC) as [evs0 [TR0 NE0]].
    assert (EV1 : exists evs1, tr s2 = evs1 ++ tr s /\ forallb pbB evs1 = true).
    { assert (X1 : evs_in pbB s (ref_clone s a)) by ei_tac. destruct X1 as [e1 [T1 N1]].
      exists (evs0 ++ e1). rewrite TR0, T1, app_assoc, forallb_app, NE0, N1. auto. }
    destruct EV1 as (evs1 & TR2 & NE1).
    assert (TR : tr s' = ERetTo r u b :: ERetNew r :: evs1 ++ tr s).
    { rewrite (bind_tr _ _ _ _ _ BD). simpl. rewrite TR2. reflexivity. }
    assert (NE1' : forallb (pbB' (nuid s)) evs1 = true).
    { rewrite forallb_forall in *. intros e IN. apply pbB_weaken. auto. }
    (* r and u are fresh *)
    assert (RF : creT (RRet r) (tr s) = 0).
    { destruct (monA_facts _ _ MA') as (F1 & _ & _). specialize (F1 r). rewrite TR in F1. cbn [creT] in F1.
      rewrite !cre1_ret, N.eqb_refl, creT_app in F1. pose proof (creT_nn (RRet r) evs1). pose proof (creT_nn (RRet r) (tr s)).
      destruct (nmem r (a_new mA')); lia. }
    assert (NR : nget (b_to m) r = None).
    { destruct (nget (b_to m) r) as [[u0 b0]|] eqn:Q; auto. exfalso.
      apply (rb_dom _ _ _ R) in Q. destruct (rb_lt _ _ _ R _ _ _ Q) as [_ C]. lia. }
    assert (NU0 : ret_of_call (b_to m) u = None).
    { destruct (ret_of_call (b_to m) u) as [[r0 b0]|] eqn:Q; auto. exfalso.
      apply (rb_to _ _ _ R) in Q. destruct (rb_lt _ _ _ R _ _ _ Q) as [C _]. lia. }
    set (m' := mkB (nset (b_to m) r (u, b)) (b_callsub m) (b_inv m)).
    assert (M' : monr stepB iB (tr s') = Some m').
    { rewrite TR. simpl. rewrite (monB_block (nuid s) evs1 _ _ NE1' M (reg_lt_n _ _ _ R)). reflexivity. }
    assert (RGN : forall r' u' b', reg (tr s') r' u' b' <-> (r' = r /\ u' = u /\ b' = b) \/ reg (tr s) r' u' b').
    { intros r' u' b'. rewrite TR. unfold reg. simpl. rewrite (evs_reg (nuid s) evs1 (tr s) r' u' b' NE1'). unfold reg.
      split.
      - intros [Q|[Q|Q]]; [inversion Q; auto | discriminate Q | auto].
      - intros [(-> & -> & ->)|Q]; auto. }
    assert (X : ext s s') by (eapply handle_ext; eauto).
    pose proof (nuid_mono _ _ _ _ L L' X) as NM.
    (* the balance of every resource is unchanged *)
    assert (BE : forall x, bal x ((p ++ [MActs l]) ++ k0) s' = bal x (MActs (ANewRet h r kd :: l) :: k0) s).
    { intros x. unfold bal. rewrite cmops_app.
      pose proof (handle_law _ _ _ _ x (Lin_NB _ _ _ L) ltac:(intros t Q; discriminate Q) E0) as G. cbn [emb cmop] in G. cbn [cmops cmop]. lia. }
    (* the new pair is present exactly once *)
    assert (C0 : cnt (REmb r u b) (MActs (ANewRet h r kd :: l) :: k0) s = 0).
    { pose proof (cnt_nn (REmb r u b) (MActs (ANewRet h r kd :: l) :: k0) s).
      assert (Z1 : cnt (RClo u) (MActs (ANewRet h r kd :: l) :: k0) s = 0).
      { pose proof (cnt_nn (RClo u) (MActs (ANewRet h r kd :: l) :: k0) s).
        destruct (Z.ltb 0 (cnt (RClo u) (MActs (ANewRet h r kd :: l) :: k0) s)) eqn:Q; [|apply Z.ltb_ge in Q; lia].
        apply Z.ltb_lt in Q. pose proof (Lin_uid_fresh _ _ u L Q). lia. }
      pose proof (Lin_wellkinded _ _ L) as WK. unfold cnt in *.
      pose proof (cmops_emb r u b (MActs (ANewRet h r kd :: l) :: k0)). pose proof (cst_emb r u b s). lia. }
    assert (CR0 : creT (REmb r u b) (tr s) = 0).
    { pose proof (creT_nn (REmb r u b) (tr s)). destruct (Z.ltb 0 (creT (REmb r u b) (tr s))) eqn:Q; [|apply Z.ltb_ge in Q; lia].
      apply Z.ltb_lt in Q. apply creT_emb_in in Q. destruct (rb_lt _ _ _ R _ _ _ Q) as [C _]. lia. }
    assert (C1 : cnt (REmb r u b) ((p ++ [MActs l]) ++ k0) s' = 1).
    { rewrite cnt_emb_bal, BE, TR. cbn [creT cre1]. rewrite ind_refl, (ind_neq (REmb r u b) (RRet r)) by discriminate.
      rewrite creT_app, (creT_emb_evs _ _ _ _ _ NE1'), CR0. rewrite cnt_emb_bal in C0. lia. }
    assert (ULT : (u < nuid s')%N).
    { pose proof (Lin_wellkinded _ _ L') as WK. unfold cnt in *.
      pose proof (cmops_emb r u b ((p ++ [MActs l]) ++ k0)). pose proof (cst_emb r u b s').
      apply (Lin_uid_fresh _ _ u L'). unfold cnt. lia. }
    left. exists m'. split; [exact M'|]. split.
    - intros r' u' b'. rewrite RGN. cbn [b_to m']. rewrite (roc_nset_fresh _ _ _ _ NR NU0).
      destruct (ret_of_call (b_to m) u') as [[r0 b0]|] eqn:Q.
      + apply (rb_to _ _ _ R) in Q. split.
        * intros Y; inversion Y; subst. right. exact Q.
        * intros [(-> & -> & ->)|Y].
          -- exfalso. destruct (rb_lt _ _ _ R _ _ _ Q) as [C _]. lia.
          -- destruct (reg_fun _ _ _ _ _ _ _ _ R Q Y) as [-> ->]. reflexivity.
      + destruct (N.eqb u' u) eqn:QU.
        * apply N.eqb_eq in QU. subst u'. split.
          -- intros Y; inversion Y; subst. left. auto.
          -- intros [(-> & _ & ->)|Y]; [reflexivity|]. apply (rb_to _ _ _ R) in Y. congruence.
        * split; [discriminate|]. intros [(_ & -> & _)|Y]; [rewrite N.eqb_refl in QU; discriminate|].
          apply (rb_to _ _ _ R) in Y. congruence.
    - intros r' u' b'. cbn [b_to m']. rewrite nget_nset, RGN. destruct (N.eqb r' r) eqn:Q.
      + apply N.eqb_eq in Q. subst r'. intros Y; inversion Y; subst. left. auto.
      + intros Y. right. apply (rb_dom _ _ _ R); auto.
    - intros r' u' b'. rewrite RGN. intros [(-> & -> & ->)|Y].
      + split; [exact ULT|]. rewrite TR. cbn [creT]. rewrite !cre1_ret, N.eqb_refl. pose proof (creT_nn (RRet r) (evs1 ++ tr s)). lia.
      + destruct (rb_lt _ _ _ R _ _ _ Y) as [A B]. split; [lia|]. pose proof (creT_ext (RRet r') _ _ X). lia.
    - intros u' H. cbn [b_callsub m'] in H. destruct (rb_cs _ _ _ R u' H) as (r0 & b0 & A & B). exists r0, b0. rewrite RGN. split; [right; exact A|].
      pose proof (conT_ext (RRet r0) _ _ X). lia.
    - intros r' u' b'. rewrite RGN. intros [(-> & -> & ->)|Y].
      + left. lia.
      + destruct (rb_where _ _ _ R _ _ _ Y) as [A|[A|[A|A]]].
        * left. rewrite cnt_emb_bal, BE, TR. cbn [creT cre1].
          assert (NE : REmb r' u' b' <> REmb r u b).
          { intros Q; inversion Q; subst. destruct (rb_lt _ _ _ R _ _ _ Y) as [C _]. lia. }
          rewrite (ind_neq _ _ NE), (ind_neq (REmb r' u' b') (RRet r)) by discriminate.
          rewrite creT_app, (creT_emb_evs _ _ _ _ _ NE1'). rewrite cnt_emb_bal in A. lia.
        * right. left. exact A.
        * right. right. left. pose proof (conT_ext (RClo u') _ _ X). lia.
        * right. right. right. destruct (dropinner_head _ _ _ A) as [(c0 & Q & _)|A2]; [discriminate Q|]. apply dropinner_app; auto.
    - (* notifier calls: no notifier is created here *)
      intros u' H r' b'. rewrite RGN.
      assert (OLD : In u' (NU (MActs (ANewRet h r kd :: l) :: k0) s)).
      { unfold NU in *. rewrite !nu_k_app in H. apply in_app_or in H as [H|H].
        - apply in_app_or in H as [H|H].
          + apply in_app_or in H as [H|H]; [|simpl in H; contradiction].
            rewrite (do_act_nupre _ _ _ _ (NB_state _ _ (Lin_NB _ _ _ L)) DA0) in H. contradiction.
          + apply in_or_app. left. simpl. exact H.
        - destruct (newret_nule _ _ _ _ _ _ (u' + 1)%N DA0 u' H) as [G|G]; [apply in_or_app; right; exact G | lia]. }
      intros [(_ & -> & _)|Y].
      + pose proof (nu_cnt _ _ _ OLD (Lin_wellkinded _ _ L)) as P.
        assert (Q : 0 < cnt (RClo u) (MActs (ANewRet h r kd :: l) :: k0) s) by lia.
        pose proof (Lin_uid_fresh _ _ u L Q). lia.
      + eapply (rb_nin _ _ _ R); eauto. }
  destruct kd as [caps body|ht c|ht c].
  - apply NEU. destruct (take_caps caps s) as [cv s1] eqn:T. ei_tac.
  - destruct (lookup s ht) as [v|] eqn:LK; [|apply NEU; ei_tac].
    destruct (handle_actor v) as [a|] eqn:HA; [|apply NEU; ei_tac].
    destruct (inst_call c (fun b => KMeth a b None) (ref_clone s a)) as [ci s2] eqn:IC.
    eapply (REGCASE ht c false); eauto.
  - destruct (lookup s ht) as [v|] eqn:LK; [|apply NEU; ei_tac].
    destruct (handle_actor v) as [a|] eqn:HA; [|apply NEU; ei_tac].
    destruct (inst_call c (fun b => KMeth a b None) (ref_clone s a)) as [ci s2] eqn:IC.
    eapply (REGCASE ht c true); eauto.
Qed.

(* ------------------------------------------------------------------ *)
(** * Monitor B: preservation *)

Theorem step_RB k s k' s' m mA :
  Lin k s -> step k s = Some (k', s') ->
  monr stepA iA (tr s) = Some mA -> (exists mA', monr stepA iA (tr s') = Some mA') ->
  monr stepB iB (tr s) = Some m -> RB m k s ->
  (exists m', monr stepB iB (tr s') = Some m' /\ RB m' k' s') \/ LostC k' s'.
Proof.
  intros L H MA MA' M R. pose proof (step_Lin _ _ _ _ L H) as L'.
  destruct k as [|mo k0]; [discriminate|]. simpl in H.
  destruct (handle mo s) as [pre s1] eqn:E. inversion H; subst; clear H.
  destruct (specialB mo) eqn:SP; [|eapply IB_neutral; eauto].
  destruct mo; try discriminate SP.
  - destruct l as [|a l]; [discriminate SP|]. simpl in SP. destruct a; try discriminate SP.
    + eapply IB_fresh; eauto. exact I.
    + eapply IB_fresh; eauto. exact I.
    + eapply IB_fresh; eauto. exact I.
    + eapply IB_fresh; eauto. exact I.
    + eapply IB_newret; eauto.
    + eapply IB_fresh; eauto. exact I.
  - eapply IB_runitem; eauto.
  - eapply IB_fresh; eauto. exact I.
  - eapply IB_retinvoke; eauto.
Qed.

Lemma RB_init d p : RB iB (map MTop p ++ [MEpilogue]) (init d).
Proof.
  split; simpl.
  - intros r u b. split; [discriminate | intros []].
  - intros r u b H. discriminate H.
  - intros r u b [].
  - intros u H. discriminate H.
  - intros r u b [].
  - intros u H. exfalso. unfold NU in H. simpl in H. rewrite app_nil_r in H.
    unfold nu_k in H. apply in_flat_map in H as (mo & IM & IU).
    apply in_app_or in IM as [IM|[<-|[]]]; [|contradiction]. apply in_map_iff in IM as (o & <- & _). contradiction.
Qed.
