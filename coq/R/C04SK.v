(** Layer R proofs: C04: every occupied slab entry was announced by an [ESlabAdd] event.

    [slsub s s']: the occupied entries of every slab in s' were there in s (same parent).  Every micro-op satisfies
    it except the act slabadd, whose new entry comes with its [ESlabAdd p c] event.  Hence [SK]: an occupied entry
    [SOcc c] in the slab of p implies [ESlabAdd p c] in the trace (so c is a "slab child" for the C04 monitor). *)
From Coq Require Import ZArith NArith List Bool Lia.
From Stk Require Import Lib.U Gen.SrcCount Gen.SrcCore Gen.SrcLog R.Syntax R.Rt R.Mon R.Shape R.Eff R.Tags R.Mono R.Count
  R.Nest R.C15Proofs R.C20Proofs R.Calls R.CallInv R.Own R.OwnLaw R.OwnVis R.C04Mon R.C04Base R.C04A.
Import ListNotations.
Local Open Scope Z_scope.

Arguments submit : simpl never.
Arguments push_main : simpl never.
Arguments timer_add : simpl never.
Arguments emit : simpl never.
Arguments upd_actor : simpl never.
Arguments ref_clone : simpl never.
Arguments new_actor : simpl never.
Arguments log_rec : simpl never.
Arguments tok_script : simpl never.
Arguments target_ev : simpl never.
Arguments push_frame : simpl never.

Definition slab_st (sa : astate) : list sentry := match sa with SReady _ slab _ => slab | _ => [] end.
Definition slab_of (s : st) (p : N) : list sentry :=
  match aget (actors s) p with Some y => slab_st (a_state y) | None => [] end.

Definition slsub (s s' : st) : Prop := forall p c, In (SOcc c) (slab_of s' p) -> In (SOcc c) (slab_of s p).

Lemma slsub_refl s : slsub s s. Proof. intros p c H; exact H. Qed.
Lemma slsub_trans s1 s2 s3 : slsub s1 s2 -> slsub s2 s3 -> slsub s1 s3.
Proof. intros A B p c H. apply A, B, H. Qed.
Lemma slsub_same s s' : actors s' = actors s -> slsub s s'.
Proof. intros E p c H. unfold slab_of in *. rewrite E in H. exact H. Qed.
Lemma slsub_opres s s' : opres s s' -> slsub s s'.
Proof.
  intros P p c H. unfold slab_of in *. specialize (P p). destruct (aget (actors s) p) as [y|].
  - destruct P as (y' & A' & (_ & S & _)). rewrite A' in H. rewrite S in H. exact H.
  - rewrite P in H. destruct H.
Qed.
Lemma slsub_upd s p y z : aget (actors s) p = Some z ->
  (forall c, In (SOcc c) (slab_st (a_state y)) -> In (SOcc c) (slab_st (a_state z))) -> slsub s (upd_actor s p y).
Proof.
  intros E L q c H. unfold slab_of, upd_actor in *. cbn [actors set_actors] in H. destruct (N.eq_dec p q) as [<-|NE].
  - rewrite aget_aset_eq in H. rewrite E. apply L. exact H.
  - rewrite aget_aset_neq in H by auto. exact H.
Qed.
Lemma slsub_fresh s p y : aget (actors s) p = None -> slab_st (a_state y) = [] -> slsub s (upd_actor s p y).
Proof.
  intros E L q c H. unfold slab_of, upd_actor in *. cbn [actors set_actors] in H. destruct (N.eq_dec p q) as [<-|NE].
  - rewrite aget_aset_eq, L in H. destruct H.
  - rewrite aget_aset_neq in H by auto. exact H.
Qed.
Lemma slsub_new_actor s p nt parent vis : aget (actors s) p = None -> slsub s (new_actor s p nt parent vis).
Proof.
  intros E q c H. unfold slab_of in *. destruct (N.eq_dec p q) as [<-|NE].
  - destruct (new_actor_get s p nt parent vis) as (y & A & S & _). rewrite A, S in H. destruct H.
  - rewrite new_actor_other in H by auto. exact H.
Qed.

(* generic composition: [slsub s0 E] for a state expression E built from the helpers of Rt.v *)
Ltac slsub_tac :=
  repeat first
    [ match goal with |- slsub ?x ?y => constr_eq x y; apply slsub_refl end
    | match goal with C : slsub ?x ?y |- slsub ?x2 ?y2 => constr_eq x x2; constr_eq y y2; exact C end
    | match goal with
      | |- slsub _ (emit ?s _) => apply (slsub_trans _ s); [ | apply slsub_same; apply actors_emit ]
      | |- slsub _ (push_main ?s _) => apply (slsub_trans _ s); [ | apply slsub_same; apply actors_push_main ]
      | |- slsub _ (push_frame ?s _ _) => apply (slsub_trans _ s); [ | apply slsub_same; apply actors_push_frame ]
      | |- slsub _ (submit ?s ?q _) => apply (slsub_trans _ s); [ | apply slsub_same; apply actors_submit ]
      | |- slsub _ (timer_add ?s _ _ _ _) => apply (slsub_trans _ s); [ | apply slsub_same; apply actors_timer_add ]
      | |- slsub _ (target_ev ?s _) => apply (slsub_trans _ s); [ | apply slsub_same; apply target_ev_same ]
      | |- slsub _ (log_rec ?s _ _ _ _) => apply (slsub_trans _ s); [ | apply slsub_same; apply log_rec_actors ]
      | |- slsub _ (ref_clone ?s _) => apply (slsub_trans _ s); [ | apply slsub_opres; apply opres_ref_clone ]
      | |- slsub _ (set_alive ?s _) => apply (slsub_trans _ s); [ | apply slsub_same; apply actors_set_alive ]
      | |- slsub _ (set_now ?s _) => apply (slsub_trans _ s); [ | apply slsub_same; apply actors_set_now ]
      | |- slsub _ (set_start ?s _) => apply (slsub_trans _ s); [ | apply slsub_same; apply actors_set_start ]
      | |- slsub _ (set_mainq ?s _) => apply (slsub_trans _ s); [ | apply slsub_same; apply actors_set_mainq ]
      | |- slsub _ (set_lazyq ?s _) => apply (slsub_trans _ s); [ | apply slsub_same; apply actors_set_lazyq ]
      | |- slsub _ (set_idleq ?s _) => apply (slsub_trans _ s); [ | apply slsub_same; apply actors_set_idleq ]
      | |- slsub _ (set_timers ?s _) => apply (slsub_trans _ s); [ | apply slsub_same; apply actors_set_timers ]
      | |- slsub _ (set_tnext ?s _) => apply (slsub_trans _ s); [ | apply slsub_same; apply actors_set_tnext ]
      | |- slsub _ (set_tvars ?s _) => apply (slsub_trans _ s); [ | apply slsub_same; apply actors_set_tvars ]
      | |- slsub _ (set_recreate ?s _) => apply (slsub_trans _ s); [ | apply slsub_same; apply actors_set_recreate ]
      | |- slsub _ (set_fwds ?s _) => apply (slsub_trans _ s); [ | apply slsub_same; apply actors_set_fwds ]
      | |- slsub _ (set_env ?s _) => apply (slsub_trans _ s); [ | apply slsub_same; apply actors_set_env ]
      | |- slsub _ (set_frames ?s _) => apply (slsub_trans _ s); [ | apply slsub_same; apply actors_set_frames ]
      | |- slsub _ (set_nuid ?s _) => apply (slsub_trans _ s); [ | apply slsub_same; apply actors_set_nuid ]
      | |- slsub _ (set_logseq ?s _) => apply (slsub_trans _ s); [ | apply slsub_same; apply actors_set_logseq ]
      | |- slsub _ (set_logfilter ?s _) => apply (slsub_trans _ s); [ | apply slsub_same; apply actors_set_logfilter ]
      | |- slsub _ (set_haslogger ?s _) => apply (slsub_trans _ s); [ | apply slsub_same; apply actors_set_haslogger ]
      | |- slsub _ (set_shut ?s _) => apply (slsub_trans _ s); [ | apply slsub_same; apply actors_set_shut ]
      | |- slsub _ (set_tr ?s _) => apply (slsub_trans _ s); [ | apply slsub_same; apply actors_set_tr ]
      | |- slsub _ (if ?b then _ else _) => destruct b
      | |- slsub _ ?s' =>
          match goal with
          | E : take ?s _ = (_, s') |- _ => apply (slsub_trans _ s); [ | apply slsub_same; apply (take_same _ _ _ _ E) ]
          | E : take_caps _ ?s = (_, s') |- _ => apply (slsub_trans _ s); [ | apply slsub_same; apply (take_caps_same _ _ _ _ E) ]
          | E : bind ?s _ _ = (_, s') |- _ => apply (slsub_trans _ s); [ | apply slsub_same; revert E; unfold bind; repeat dest_match; intros Q; inversion Q; reflexivity ]
          | E : bad ?s _ = (_, s') |- _ => apply (slsub_trans _ s); [ | apply slsub_same; unfold bad in E; inversion E; reflexivity ]
          | E : inst _ _ ?s = (_, s') |- _ => apply (slsub_trans _ s); [ | apply slsub_same; apply (inst_same _ _ _ _ _ E) ]
          | E : inst_call _ _ ?s = (_, s') |- _ => apply (slsub_trans _ s); [ | apply slsub_same; apply (inst_call_same _ _ _ _ _ E) ]
          | E : inst_nocaps _ _ ?s = (_, s') |- _ => apply (slsub_trans _ s); [ | apply slsub_same; apply (inst_nocaps_same _ _ _ _ _ E) ]
          | E : mk_notifier ?s _ _ = (_, s') |- _ => apply (slsub_trans _ s); [ | apply slsub_opres; apply (mk_notifier_O 0 _ _ _ _ _ E) ]
          end
      end ].


Ltac lft := let Q := fresh "Q" in intros Q; left; revert Q.
Ltac sl_all := solve [intros Q; try injp Q; slsub_tac].
Ltac sl_st := cbn [a_state with_state with_strong with_rc slab_st]; auto.

Lemma in_list_set_vac l i n c : In (SOcc c) (list_set l i (SVac n)) -> In (SOcc c) l.
Proof.
  revert i. induction l as [|e l IH]; intros i; destruct i; simpl; auto.
  - intros [Q|H]; [discriminate | auto].
  - intros [Q|H]; [auto | right; eapply IH; eauto].
Qed.

Lemma in_list_set_occ l i a c : In (SOcc c) (list_set l i (SOcc a)) -> In (SOcc c) l \/ c = a.
Proof.
  revert i. induction l as [|e l IH]; intros i; destruct i; simpl; auto.
  - intros [Q|H]; [inversion Q; auto | auto].
  - intros [Q|H]; [auto | destruct (IH _ H); auto].
Qed.

Lemma do_act_slsub act s pre s' :
  do_act act s = (pre, s') ->
  slsub s s' \/ (exists h a n, act = ASlabAdd h a n) /\
                forall p c, In (SOcc c) (slab_of s' p) -> In (SOcc c) (slab_of s p) \/ In (ESlabAdd p c) (tr s').
Proof.
  unfold do_act. destruct act.
  all: try (timeout 5 (solve [lft; repeat dest_match; sl_all])).
  - (* ANewActor *)
    lft. destruct (has_core s); [|sl_all].
    destruct (aget (actors s) a) eqn:AA; [sl_all|].
    destruct (mk_notifier s a n) as [nt s1] eqn:MK. intros Q.
    destruct (mk_notifier_O 0 _ _ _ _ _ MK) as (_ & _ & MP).
    apply (slsub_trans _ s1); [apply slsub_opres; exact MP|].
    apply (slsub_trans _ (new_actor s1 a nt (ctx_logid s) true)); [apply slsub_new_actor; apply (opres_none _ _ _ MP AA)|].
    apply slsub_same. revert Q. unfold bind. repeat dest_match; intros Q; inversion Q; reflexivity.
  - (* AKillAsync *)
    lft. destruct (lookup s h) as [[p|p|p|r|f|t sc]|]; try sl_all.
    destruct (aget (actors s) p) as [y|] eqn:AY; [|sl_all].
    intros Q; injp Q. set (s1 := upd_actor s p (with_strong y (oz (count_inc (a_strong y))))).
    assert (C1 : slsub s s1) by (apply (slsub_upd _ _ _ y AY); sl_st).
    slsub_tac.
  - (* AOwned *)
    lft. destruct (lookup s h) as [[p|p|p|r|f|t sc]|]; try sl_all.
    destruct (aget (actors s) p) as [y|] eqn:AY; [|sl_all].
    intros Q. set (s1 := upd_actor s p (with_strong y (oz (count_inc (a_strong y))))) in *.
    assert (C1 : slsub s s1) by (apply (slsub_upd _ _ _ y AY); sl_st).
    slsub_tac.
  - (* AStore *)
    lft. destruct (cur_ctx s) as [|p pr|]; try sl_all. destruct pr; try sl_all.
    destruct (aget (actors s) p) as [y|] eqn:AY; [|sl_all].
    destruct (a_state y) eqn:SA; try sl_all.
    destruct (take s h) as [[v|] s1] eqn:T; intros Q; injp Q.
    + apply (slsub_trans _ s1); [apply slsub_same; apply (take_same _ _ _ _ T)|].
      apply (slsub_upd s1 p _ y); [rewrite (proj1 (take_same _ _ _ _ T)); exact AY | rewrite SA; sl_st].
    + apply slsub_same; apply (take_same _ _ _ _ T).
  - (* ASlabAdd *)
    destruct (cur_ctx s) as [|p pr|] eqn:CC; try solve [lft; sl_all]. destruct pr; try solve [lft; sl_all].
    destruct (alive s); try solve [lft; sl_all].
    destruct (aget (actors s) p) as [px|] eqn:AP; try solve [lft; sl_all].
    destruct (aget (actors s) a) eqn:AA; try solve [lft; sl_all].
    destruct (a_state px) eqn:SP; try solve [lft; sl_all].
    destruct (mk_notifier s a n) as [inner s1] eqn:MK.
    destruct (slab_insert slab snext a) as [[slab' nx'] key] eqn:SI.
    intros Q. right. split; [eauto|].
    destruct (mk_notifier_O 0 _ _ _ _ _ MK) as (_ & _ & MP).
    pose proof (opres_trans _ _ _ MP (opres_ref_clone s1 p)) as P2.
    set (s3 := new_actor (ref_clone s1 p) a (Ret a (RKSlab p key inner)) (a_logid px) false) in *.
    assert (C3 : slsub s s3).
    { apply (slsub_trans _ (ref_clone s1 p)); [apply slsub_opres; exact P2 | apply slsub_new_actor; apply (opres_none _ _ _ P2 AA)]. }
    assert (C4 : slsub s (ref_clone s3 a)) by (apply (slsub_trans _ s3); [exact C3 | apply slsub_opres; apply opres_ref_clone]).
    assert (NE : a <> p) by (intros ->; congruence).
    destruct (opres_some _ _ _ _ P2 AP) as (y2 & A2 & V2).
    assert (A3 : aget (actors s3) p = Some y2) by (unfold s3; rewrite new_actor_other by auto; exact A2).
    destruct (opres_some _ _ _ _ (opres_ref_clone s3 a) A3) as (y4 & A4 & V4).
    rewrite A4 in Q.
    assert (AS : actors s' = actors (upd_actor (ref_clone s3 a) p (with_state y4 (SReady sh slab' nx')))).
    { revert Q. unfold bind. repeat dest_match; intros Q; inversion Q; reflexivity. }
    assert (TS : In (ESlabAdd p a) (tr s')).
    { assert (TT : tr s' = ESlabAdd p a :: tr (upd_actor (ref_clone s3 a) p (with_state y4 (SReady sh slab' nx')))).
      { revert Q. unfold bind. repeat dest_match; intros Q; inversion Q; reflexivity. }
      rewrite TT. left. reflexivity. }
    intros q c H. unfold slab_of in H. rewrite AS in H. unfold upd_actor in H. cbn [actors set_actors] in H.
    destruct (N.eq_dec p q) as [<-|NQ].
    + rewrite aget_aset_eq in H. cbn [a_state with_state slab_st] in H.
      unfold slab_insert in SI. destruct (nth_error slab (N.to_nat snext)) as [[c0|nx0]|] eqn:NE0; inversion SI; subst.
      * apply in_app_or in H as [H|[H|[]]]; [left | inversion H; subst; right; exact TS].
        unfold slab_of. rewrite AP, SP. exact H.
      * assert (G : In (SOcc c) slab \/ c = a) by (eapply in_list_set_occ; eauto).
        destruct G as [G|G]; [left; unfold slab_of; rewrite AP, SP; exact G | subst c; right; exact TS].
      * apply in_app_or in H as [H|[H|[]]]; [left | inversion H; subst; right; exact TS].
        unfold slab_of. rewrite AP, SP. exact H.
    + rewrite aget_aset_neq in H by auto. left. apply C4. unfold slab_of. exact H.
Qed.

Lemma handle_slsub m s pre s' :
  handle m s = (pre, s') ->
  slsub s s' \/ forall p c, In (SOcc c) (slab_of s' p) -> In (SOcc c) (slab_of s p) \/ In (ESlabAdd p c) (tr s').
Proof.
  destruct m; cbn [handle].
  - lft. unfold do_top. destruct o; repeat dest_match; sl_all.
  - destruct l as [|act l]; [lft; sl_all|].
    destruct (do_act act s) as [p s1] eqn:E. intros Q; injp Q.
    destruct (do_act_slsub _ _ _ _ E) as [C|[_ C]]; [left; exact C | right; exact C].
  - lft. destruct (frames s) as [|fr rest]; sl_all.
  - lft. destruct (frames s) as [|fr rest]; sl_all.
  - (* MRunItem *)
    lft. unfold run_item. destruct c as [u i kd caps q]. destruct kd.
    + sl_all.
    + destruct (aget (actors s) a) as [y|] eqn:A; [destruct (a_state y) eqn:SA|]; try sl_all.
      intros Q; injp Q. apply (slsub_upd _ _ _ y A). sl_st. intros cc [].
    + destruct (aget (actors s) a) as [y|] eqn:A; [destruct (ob (count_is_prep (a_strong y)))|]; sl_all.
    + destruct (aget (actors s) p) as [y|] eqn:A; [destruct (a_state y) eqn:SA|]; try sl_all.
      * intros Q; injp Q. apply (slsub_upd _ _ _ y A). sl_st. intros cc [].
      * destruct (nth_error slab (N.to_nat key)) as [[child|nx]|]; try sl_all.
        intros Q; injp Q. apply (slsub_upd _ _ _ y A). rewrite SA. sl_st. intros cc. apply in_list_set_vac.
    + sl_all.
    + sl_all.
  - lft. unfold drop_item. destruct c as [u i kd caps q]. destruct kd; sl_all.
  - lft. sl_all.
  - lft. unfold drop_val. destruct v; try sl_all.
    + repeat dest_match; sl_all.
    + intros Q; injp Q. apply (slsub_trans _ (emit s (ETokDrop t))); [slsub_tac | apply slsub_same; apply tok_script_actors].
  - (* MDropOwn *)
    lft. unfold drop_own. set (s0 := if logged then emit s (EOwnDrop a) else s).
    assert (C0 : slsub s s0) by (unfold s0; destruct logged; slsub_tac).
    destruct (aget (actors s0) a) as [y|] eqn:AY.
    + destruct (count_dec (a_strong y)) as [[v z]|] eqn:CD.
      * assert (C1 : slsub s (upd_actor s0 a (with_strong y v))).
        { apply (slsub_trans _ s0); [exact C0|]. apply (slsub_upd _ _ _ y AY). sl_st. }
        destruct z; intros Q; injp Q; slsub_tac.
      * intros Q; injp Q; slsub_tac.
    + intros Q; injp Q; slsub_tac.
  - (* MDropRef *)
    lft. unfold drop_ref. destruct (aget (actors s) a) as [y|] eqn:A; [|sl_all].
    destruct (a_freed y); [sl_all|]. destruct (minrc_drop (a_rc y)) as [[v z]|]; [|sl_all].
    destruct z.
    + destruct (state_drops a (a_state y) _) as [dl s2] eqn:SD. intros Q; injp Q.
      destruct (state_drops_h (HO 0) _ _ _ _ _ SD) as [-> _].
      eapply slsub_trans; [|apply slsub_same; reflexivity]. apply (slsub_upd _ _ _ y A). sl_st. intros cc [].
    + intros Q; injp Q. apply (slsub_upd _ _ _ y A). sl_st.
  - lft. unfold ret_invoke. destruct r as [rid k]. destruct k; repeat dest_match; sl_all.
  - lft. sl_all.
  - lft. sl_all.
  - lft. sl_all.
  - lft. sl_all.
  - (* MTerminate *)
    lft. unfold terminate. destruct (aget (actors s) a) as [y|] eqn:A; [|sl_all].
    set (s0 := if a_freed y then emit s (EModel M_UAF a) else s).
    assert (C0 : slsub s s0) by (unfold s0; destruct (a_freed y); slsub_tac).
    assert (A0 : aget (actors s0) a = Some y) by (unfold s0; destruct (a_freed y); exact A).
    destruct (state_drops a (a_state y) _) as [dl s1] eqn:SD.
    assert (C1 : slsub s s1).
    { destruct (state_drops_h (HO 0) _ _ _ _ _ SD) as [-> _].
      apply (slsub_trans _ s0); [exact C0|]. apply (slsub_upd _ _ _ y A0). sl_st. intros cc []. }
    destruct (a_notify y); intros Q; injp Q; exact C1.
  - lft. destruct (aget (actors s) a); sl_all.
  - (* MToReady *)
    lft. destruct (aget (actors s) a) as [y|] eqn:A; [|sl_all].
    destruct (a_state y) eqn:SA; try sl_all.
    intros Q; injp Q.
    eapply slsub_trans; [|apply slsub_same; reflexivity]. apply (slsub_upd _ _ _ y A). sl_st. intros cc [].
  - lft. unfold fresh_stakker. sl_all.
  - lft. destruct idle; [destruct (idleq s)|]; sl_all.
  - lft. destruct (t >? now (set_mainq s [])).
    + destruct (fire t (set_now (set_mainq s []) t)) as [fired s2] eqn:FI. unfold fire in FI. injection FI as ? ?; subst.
      sl_all.
    + sl_all.
  - lft. repeat dest_match; sl_all.
  - lft. repeat dest_match; sl_all.
  - lft. cbv zeta. sl_all.
  - lft. repeat dest_match; sl_all.
  - lft. repeat dest_match; sl_all.
  - lft. sl_all.
  - lft. intros Q; injp Q. apply slsub_same. cbn [actors set_tr]. apply class_flags_actors.
Qed.

(** every occupied slab entry was announced *)
Definition SK (s : st) : Prop := forall p c, In (SOcc c) (slab_of s p) -> In (ESlabAdd p c) (tr s).

Lemma SK_init d : SK (init d).
Proof. intros p c H. destruct H. Qed.

Theorem step_SK k s k' s' : SK s -> step k s = Some (k', s') -> SK s'.
Proof.
  intros K ST. pose proof (step_ext _ _ _ _ ST) as EX.
  destruct k as [|m k0]; [discriminate|]. simpl in ST. destruct (handle m s) as [pre s1] eqn:E. inversion ST; subst.
  intros p c H. destruct (handle_slsub _ _ _ _ E) as [C|C].
  - eapply ext_in; [exact EX|]. apply K. apply C. exact H.
  - destruct (C p c H) as [G|G]; [eapply ext_in; [exact EX | apply K; exact G] | exact G].
Qed.

(* a slab child for the monitor *)
Lemma SK_slabkid s p c : SK s -> In (SOcc c) (slab_of s p) -> In c (o_slabkid (st04 (tr s))).
Proof. intros K H. apply st04_slabkid. exists p. apply K. exact H. Qed.

Lemma islab_zero a l : (forall c, In (SOcc c) l -> c <> a) -> islab a l = 0.
Proof.
  induction l as [|[c|n] l IH]; intros H; simpl; auto.
  - rewrite IH by (intros x Hx; apply H; right; exact Hx). unfold ib.
    destruct (N.eqb a c) eqn:E; [apply N.eqb_eq in E; subst; exfalso; eapply H; [left; reflexivity | reflexivity] | reflexivity].
  - apply IH. intros x Hx. apply H. right. exact Hx.
Qed.

Print Assumptions step_SK.
