(** Layer R proofs: the REFERENCE census (on top of the handle census of Own.v, read-only): the references to the cell
    of an actor ([HR a]) and the handles of a Fwd object ([HF f]) never exceed the stored MinRc count, unless that
    count is saturated:     ctr x s = MX  \/  hmops x k + hst x s <= ctr x s      (x = HR a or HF f).
    This file: the saturating counters, the effect of every state operation on [H x = hst x - ctr x] and on [ctr x]
    in a form that linear arithmetic (with [Z.min]) can use. *)
From Coq Require Import ZArith NArith List Bool Lia.
From Stk Require Import Lib.U Gen.SrcCount Gen.SrcCore Gen.SrcLog R.Syntax R.Rt R.Shape R.Count R.Own.
Import ListNotations.
Local Open Scope Z_scope.

Arguments submit : simpl never.
Arguments push_main : simpl never.
Arguments timer_add : simpl never.
Arguments emit : simpl never.
Arguments upd_actor : simpl never.
Arguments ref_clone : simpl never.
Arguments new_actor : simpl never.
Arguments log_rec : simpl never.
Arguments tok_script : simpl never.
Arguments target_ev : simpl never.
Arguments push_frame : simpl never.

Definition MX : Z := 18446744073709551615.

(* the counted resources of this file *)
Definition rf (x : hres) : Prop := match x with HO _ => False | _ => True end.

(* ------------------------------------------------------------------ *)
(** * The saturating MinRc count *)

Lemma clone_val c : 0 <= c <= MX -> oz (minrc_clone c) = Z.min (c + 1) MX.
Proof. intros _. reflexivity. Qed.

Lemma drop_cases c v z : 0 <= c <= MX -> minrc_drop c = Some (v, z) ->
  (c = 1 /\ v = 0 /\ z = true) \/ (z = false /\ ((c = 0 /\ v = 0) \/ (c = MX /\ v = MX) \/ (2 <= c < MX /\ v = c - 1))).
Proof.
  intros R. unfold MX in *. destruct (Z.eq_dec c 18446744073709551615) as [->|NE].
  - vm_compute. intros Q; inversion Q; subst. right. split; auto.
  - rewrite minrc_drop_spec by lia. intros Q; inversion Q; subst. destruct (c =? 1) eqn:E.
    + apply Z.eqb_eq in E. subst. left. auto.
    + apply Z.eqb_neq in E. right. split; auto. destruct (Z.eq_dec c 0) as [->|N0]; [left; auto | right; right; split; lia].
Qed.

Lemma drop_some c : 0 <= c <= MX -> exists v z, minrc_drop c = Some (v, z).
Proof.
  intros R. unfold MX in *. destruct (Z.eq_dec c 18446744073709551615) as [->|NE].
  - eexists _, _. vm_compute. reflexivity.
  - rewrite minrc_drop_spec by lia. eauto.
Qed.

(* ------------------------------------------------------------------ *)
(** * Counters through the state operations *)

Lemma ctr_emit x s e : ctr x (emit s e) = ctr x s. Proof. reflexivity. Qed.
Lemma ctr_push_main x s c : ctr x (push_main s c) = ctr x s. Proof. reflexivity. Qed.
Lemma ctr_push_frame x s c l : ctr x (push_frame s c l) = ctr x s. Proof. reflexivity. Qed.
Lemma ctr_submit x s q c : ctr x (submit s q c) = ctr x s. Proof. unfold submit. destruct q; reflexivity. Qed.
Lemma ctr_timer_add x s k v t c : ctr x (timer_add s k v t c) = ctr x s. Proof. reflexivity. Qed.
Lemma ctr_set_alive x s v : ctr x (set_alive s v) = ctr x s. Proof. reflexivity. Qed.
Lemma ctr_set_now x s v : ctr x (set_now s v) = ctr x s. Proof. reflexivity. Qed.
Lemma ctr_set_start x s v : ctr x (set_start s v) = ctr x s. Proof. reflexivity. Qed.
Lemma ctr_set_mainq x s v : ctr x (set_mainq s v) = ctr x s. Proof. reflexivity. Qed.
Lemma ctr_set_lazyq x s v : ctr x (set_lazyq s v) = ctr x s. Proof. reflexivity. Qed.
Lemma ctr_set_idleq x s v : ctr x (set_idleq s v) = ctr x s. Proof. reflexivity. Qed.
Lemma ctr_set_timers x s v : ctr x (set_timers s v) = ctr x s. Proof. reflexivity. Qed.
Lemma ctr_set_tnext x s v : ctr x (set_tnext s v) = ctr x s. Proof. reflexivity. Qed.
Lemma ctr_set_tvars x s v : ctr x (set_tvars s v) = ctr x s. Proof. reflexivity. Qed.
Lemma ctr_set_recreate x s v : ctr x (set_recreate s v) = ctr x s. Proof. reflexivity. Qed.
Lemma ctr_set_env x s v : ctr x (set_env s v) = ctr x s. Proof. reflexivity. Qed.
Lemma ctr_set_frames x s v : ctr x (set_frames s v) = ctr x s. Proof. reflexivity. Qed.
Lemma ctr_set_nuid x s v : ctr x (set_nuid s v) = ctr x s. Proof. reflexivity. Qed.
Lemma ctr_set_logseq x s v : ctr x (set_logseq s v) = ctr x s. Proof. reflexivity. Qed.
Lemma ctr_set_logfilter x s v : ctr x (set_logfilter s v) = ctr x s. Proof. reflexivity. Qed.
Lemma ctr_set_haslogger x s v : ctr x (set_haslogger s v) = ctr x s. Proof. reflexivity. Qed.
Lemma ctr_set_shut x s v : ctr x (set_shut s v) = ctr x s. Proof. reflexivity. Qed.
Lemma ctr_set_tr x s v : ctr x (set_tr s v) = ctr x s. Proof. reflexivity. Qed.
Lemma H_set_tr x s v : H x (set_tr s v) = H x s. Proof. reflexivity. Qed.
Lemma ctr_log_rec x s a b c d : ctr x (log_rec s a b c d) = ctr x s.
Proof. apply ctr_same; [apply log_rec_actors | apply log_rec_fwds]. Qed.
Lemma ctr_target_ev x s ci : ctr x (target_ev s ci) = ctr x s.
Proof. destruct (target_ev_same s ci) as [A B]. apply ctr_same; auto. Qed.
Lemma ctr_take x s h o s' : take s h = (o, s') -> ctr x s' = ctr x s.
Proof. intros T. destruct (take_same _ _ _ _ T) as (A & B & _). apply ctr_same; auto. Qed.
Lemma ctr_take_caps x ids s l s' : take_caps ids s = (l, s') -> ctr x s' = ctr x s.
Proof. intros T. destruct (take_caps_same _ _ _ _ T) as (A & B & _). apply ctr_same; auto. Qed.
Lemma ctr_take_env_caps x ids s l s' : take_env_caps ids s = (l, s') -> ctr x s' = ctr x s.
Proof. intros T. destruct (take_env_caps_same _ _ _ _ T) as (A & B & _). apply ctr_same; auto. Qed.
Lemma ctr_bind x s h v l s' : bind s h v = (l, s') -> ctr x s' = ctr x s.
Proof. unfold bind. destruct (aget (env s) h); intros Q; inversion Q; reflexivity. Qed.
Lemma ctr_bad x s c l s' : bad s c = (l, s') -> ctr x s' = ctr x s.
Proof. unfold bad. intros Q; inversion Q; reflexivity. Qed.
Lemma ctr_inst x c mk s ci s' : inst c mk s = (ci, s') -> ctr x s' = ctr x s.
Proof. intros I. destruct (inst_same _ _ _ _ _ I) as [A B]. apply ctr_same; auto. Qed.
Lemma ctr_inst_call x c mk s ci s' : inst_call c mk s = (ci, s') -> ctr x s' = ctr x s.
Proof. intros I. destruct (inst_call_same _ _ _ _ _ I) as [A B]. apply ctr_same; auto. Qed.
Lemma ctr_inst_nocaps x c mk s ci s' : inst_nocaps c mk s = (ci, s') -> ctr x s' = ctr x s.
Proof. intros I. destruct (inst_nocaps_same _ _ _ _ _ I) as [A B]. apply ctr_same; auto. Qed.
Lemma ctr_tok_script x script : forall s, ctr x (tok_script s script) = ctr x s.
Proof.
  unfold tok_script. induction script as [|c r IH]; intros s; [reflexivity|]. cbn [fold_left].
  destruct (inst_env c KPlain s) as [ci s1] eqn:I. rewrite IH, ctr_submit.
  unfold inst_env in I. destruct (take_env_caps (clo_caps c) s) as [caps s2] eqn:T. inversion I; subst.
  rewrite ctr_emit, ctr_set_nuid. eapply ctr_take_env_caps; eauto.
Qed.
Lemma ctr_fire x t s l s' : fire t s = (l, s') -> ctr x s' = ctr x s.
Proof. unfold fire. intros Q; inversion Q; subst. rewrite ctr_set_timers. destruct (ambiguous _); reflexivity. Qed.
Lemma ctr_class_flags x s : ctr x (class_flags s) = ctr x s.
Proof.
  unfold class_flags. generalize (class_flag (actors s)). intros f. generalize (actors s) as l. intros l. revert s.
  induction l as [|p l IH]; simpl; intros s; auto. rewrite IH. unfold emit_opt. destruct (f p); reflexivity.
Qed.
Lemma H_class_flags x s : H x (class_flags s) = H x s.
Proof.
  unfold class_flags. generalize (class_flag (actors s)). intros f. generalize (actors s) as l. intros l. revert s.
  induction l as [|p l IH]; simpl; intros s; auto. rewrite IH. unfold emit_opt. destruct (f p); reflexivity.
Qed.

(* ------------------------------------------------------------------ *)
(** * Cloning a reference *)

Definition dcl (x : hres) (s : st) (a : N) : Z := ctr x (ref_clone s a) - ctr x s.

Lemma ctr_ref_clone x s a : ctr x (ref_clone s a) = ctr x s + dcl x s a.
Proof. unfold dcl. lia. Qed.

Lemma H_ref_clone' x s a : H x (ref_clone s a) = H x s - dcl x s a.
Proof.
  unfold dcl. destruct (aget (actors s) a) as [y|] eqn:E.
  - rewrite (H_ref_clone x s a y E). unfold ref_clone. rewrite E. destruct (a_freed y).
    + rewrite (ctr_upd_some x _ a _ y) by (stsimp; exact E). rewrite ctr_emit. lia.
    + rewrite (ctr_upd_some x _ a _ y) by exact E. lia.
  - rewrite (H_ref_clone_none x s a E). unfold ref_clone. rewrite E, ctr_emit. lia.
Qed.

Lemma dcl_facts x s a : 0 <= ctr x s <= MX ->
  0 <= dcl x s a <= hind x (HR a) /\ ctr x s + dcl x s a <= MX /\
  (hind x (HR a) = 1 -> 1 <= ctr x s -> ctr x s + dcl x s a = Z.min (ctr x s + 1) MX).
Proof.
  intros R. unfold dcl. destruct (aget (actors s) a) as [y|] eqn:E.
  - assert (C : ctr x (ref_clone s a) = ctr x s - cact x a y + cact x a (with_rc y (oz (minrc_clone (a_rc y))))).
    { unfold ref_clone. rewrite E. destruct (a_freed y).
      - rewrite (ctr_upd_some x _ a _ y) by (stsimp; exact E). rewrite ctr_emit. reflexivity.
      - rewrite (ctr_upd_some x _ a _ y) by exact E. reflexivity. }
    rewrite C. pose proof (hind_range x (HR a)) as HRG. destruct x as [b|b|g].
    + assert (Q : cact (HO b) a (with_rc y (oz (minrc_clone (a_rc y)))) = cact (HO b) a y) by reflexivity.
      rewrite Q. split; [lia|]. split; [lia|]. intros I1. unfold hind in I1. cbn [hres_eqb] in I1. discriminate.
    + cbn [cact a_rc with_rc]. unfold hind in *. cbn [hres_eqb] in *. destruct (N.eqb b a) eqn:Q.
      * apply N.eqb_eq in Q. subst b. unfold ctr in R |- *. rewrite E in *. unfold minrc_clone. cbn [oz]. unfold MX in *. lia.
      * split; [lia|]. split; [lia|]. intros I1. discriminate.
    + assert (Q : cact (HF g) a (with_rc y (oz (minrc_clone (a_rc y)))) = cact (HF g) a y) by reflexivity.
      rewrite Q. split; [lia|]. split; [lia|]. intros I1. unfold hind in I1. cbn [hres_eqb] in I1. discriminate.
  - assert (C : ctr x (ref_clone s a) = ctr x s) by (unfold ref_clone; rewrite E; apply ctr_emit).
    rewrite C. pose proof (hind_range x (HR a)). split; [lia|]. split; [lia|]. intros I1 C1.
    exfalso. destruct x as [b|b|g]; unfold hind in I1; cbn [hres_eqb] in I1; try discriminate.
    destruct (N.eqb b a) eqn:Q; [|discriminate]. apply N.eqb_eq in Q. subst b. unfold ctr in C1. rewrite E in C1. lia.
Qed.

(* ------------------------------------------------------------------ *)
(** * A new cell *)

Lemma new_actor_actors_get s a nt parent vis : aget (actors (new_actor s a nt parent vis)) a =
  Some (mkActor (SPrep []) (oz (count_inc (oz count_new))) MINRC_INIT (Some nt) (oz (log_id_next (logseq s))) false).
Proof.
  unfold new_actor, log_rec. destruct (_ && _); destruct vis; unfold upd_actor; stsimp; apply aget_aset_eq.
Qed.

Lemma H_new_actor x s a nt parent vis : aget (actors s) a = None -> rf x ->
  H x (new_actor s a nt parent vis) = H x s + hret x nt - hind x (HR a).
Proof.
  intros E RF. unfold new_actor.
  set (y := mkActor (SPrep []) (oz (count_inc (oz count_new))) MINRC_INIT (Some nt) (oz (log_id_next (logseq s))) false).
  assert (G : forall s0, actors s0 = actors s -> H x (upd_actor s0 a y) = H x s0 + hret x nt - hind x (HR a)).
  { intros s0 A0. rewrite (H_upd_none x s0 a y) by (rewrite A0; exact E). unfold hactor, y. cbn [a_state a_notify hstate hq hnotopt].
    destruct x as [b|b|g]; [contradiction RF | |]; cbn [cact a_rc].
    - unfold hind. cbn [hres_eqb]. destruct (N.eqb b a); unfold MINRC_INIT; lia.
    - unfold hind. cbn [hres_eqb]. lia. }
  destruct vis; rewrite ?H_emit, G by (rewrite ?log_rec_actors; reflexivity); rewrite H_log_rec; reflexivity.
Qed.

Lemma ctr_new_actor x s a nt parent vis : aget (actors s) a = None -> rf x ->
  ctr x (new_actor s a nt parent vis) = ctr x s + hind x (HR a).
Proof.
  intros E RF. unfold new_actor.
  set (y := mkActor (SPrep []) (oz (count_inc (oz count_new))) MINRC_INIT (Some nt) (oz (log_id_next (logseq s))) false).
  assert (G : forall s0, actors s0 = actors s -> fwds s0 = fwds s -> ctr x (upd_actor s0 a y) = ctr x s + hind x (HR a)).
  { intros s0 A0 F0. rewrite (ctr_upd_none x s0 a y) by (rewrite A0; exact E). rewrite (ctr_same x s s0 A0 F0).
    destruct x as [b|b|g]; [contradiction RF | |]; cbn [cact a_rc y].
    - unfold hind. cbn [hres_eqb]. destruct (N.eqb b a); unfold MINRC_INIT; lia.
    - unfold hind. cbn [hres_eqb]. lia. }
  destruct vis; rewrite ?ctr_emit; apply G; rewrite ?log_rec_actors, ?log_rec_fwds; reflexivity.
Qed.

(* ------------------------------------------------------------------ *)
(** * The invariant and the form of the law *)

Definition Jx (x : hres) (k : list mop) (s : st) : Prop :=
  0 <= ctr x s <= MX /\ (ctr x s = MX \/ hmops x k + hst x s <= ctr x s).

Definition J (k : list mop) (s : st) : Prop := forall x, rf x -> Jx x k s.

(* what the head micro-op [m] (census [w]) may assume *)
Definition PJ (w : hres -> Z) (s : st) : Prop :=
  forall x, rf x -> 0 <= ctr x s <= MX /\ (ctr x s = MX \/ w x + hst x s <= ctr x s).

(* what it has to establish *)
Definition LW (x : hres) (w : Z) (s : st) (pre : list mop) (s' : st) : Prop :=
  0 <= ctr x s' <= MX /\ (ctr x s = MX -> ctr x s' = MX) /\ (ctr x s' = MX \/ hmops x pre + H x s' <= w + H x s).

Lemma hind_rf_O x a : rf x -> hind x (HO a) = 0.
Proof. destruct x; simpl; try contradiction; reflexivity. Qed.

Lemma handle_actor_hv x v a : handle_actor v = Some a -> hind x (HR a) <= hv x v.
Proof.
  destruct v; simpl; intros E; inversion E; subst; rewrite ?hv_own, ?hv_act; pose proof (hind_range x (HO a)); lia.
Qed.

Lemma hci_kind x ci k : ci_kind ci = k -> hci x ci = hkind x k + (if rkb k then hcc x ci else 0).
Proof. intros <-. reflexivity. Qed.

Lemma hst_H x s : hst x s = H x s + ctr x s.
Proof. unfold H. lia. Qed.

(* the notifier of a new actor *)
Lemma mk_notifier_R x s a n nt s1 : mk_notifier s a n = (nt, s1) ->
  exists d i, H x s1 + hret x nt = H x s - d + i /\ ctr x s1 = ctr x s + d /\ 0 <= i <= 1 /\ i <= hst x s /\
    (0 <= ctr x s <= MX -> 0 <= d <= i /\ ctr x s + d <= MX /\ (i = 1 -> 1 <= ctr x s -> ctr x s + d = Z.min (ctr x s + 1) MX)).
Proof.
  pose proof (hst_nn x s) as HN.
  unfold mk_notifier. destruct n as [[hp c]|].
  - destruct (lookup s hp) as [v|] eqn:L; [destruct (handle_actor v) as [p|] eqn:HA|].
    + destruct (inst_call c (fun b => KMeth p b None) (ref_clone s p)) as [ci s2] eqn:I. intros Q; inversion Q; subst nt s1.
      exists (dcl x s p), (hind x (HR p)). destruct (inst_call_H x _ _ _ _ _ I) as [IH _].
      rewrite hret_eq, hrk_notify, (ctr_inst_call x _ _ _ _ _ I), ctr_ref_clone. rewrite H_ref_clone' in IH.
      pose proof (hind_range x (HR p)). pose proof (handle_actor_hv x v p HA). pose proof (lookup_le x s hp v L).
      split; [lia|]. split; [lia|]. split; [lia|]. split; [lia|]. intros R. pose proof (dcl_facts x s p R). lia.
    + intros Q; inversion Q; subst. exists 0, 0. rewrite hret_eq, hrk_notify, H_emit, ctr_emit. repeat split; lia.
    + intros Q; inversion Q; subst. exists 0, 0. rewrite hret_eq, hrk_notify, H_emit, ctr_emit. repeat split; lia.
  - intros Q; inversion Q; subst. exists 0, 0. rewrite hret_eq, hrk_notify. repeat split; lia.
Qed.
