(** Layer R proofs: C03, monitor K (cause): the steps that emit an event of the cause monitor, start or end a body,
    or push a termination; [step_IK]. *)
From Coq Require Import ZArith NArith List Bool Lia.
From Stk Require Import Lib.U Gen.SrcCount Gen.SrcCore Gen.SrcLog R.Syntax R.Rt R.Mon R.Shape R.Eff R.Tags R.Mono R.C15Proofs R.Count.
From Stk Require Import R.Nest R.C20Proofs R.Calls R.CallInv.
From Stk Require Import R.Lin R.LinAct R.LinLaw R.LinStep R.LinEvs R.LinTail R.LinLive R.LinNin R.LinDel R.LinBody R.LinC05A R.LinC05Core R.LinC05B.
From Stk Require Import R.LinC03Mon R.LinC03L R.LinC03K.
Import ListNotations.
Local Open Scope Z_scope.

(* ------------------------------------------------------------------ *)
(** * An item starts *)

Definition body_start (ci : citem) (s : st) (pre : list mop) (s' : st) : Prop :=
  exists body f c e tail,
    pre = MActs body :: MEndBody (ci_uid ci) f :: tail /\ s' = push_frame (emit s e) c (ci_caps ci) /\ endm f c /\
    existsb is_endb tail = false /\ existsb dly tail = false /\ existsb is_runm tail = false /\
    match f with
    | FNone => exists t q, e = ERun (ci_uid ci) t q
    | FMeth a => (exists t, e = EMeth a (ci_uid ci) t) /\ aget (actors s) a <> None
    | FPrep a r => (exists t, e = EPrep a (ci_uid ci) t) /\ aget (actors s) a <> None
    end.

Definition term_start (ci : citem) (s : st) (pre : list mop) (s' : st) : Prop :=
  exists a c x, s' = s /\ pre = [MTerminate a c; x] /\ dly x = false /\ is_endb x = false /\ is_runm x = false /\
    (c = CDrop \/ exists e, c = CKill e /\ ci_kind ci = KKill a e).

Lemma run_item_K ci s pre s' : run_item ci s = (pre, s') ->
  neutralK s pre s' \/ body_start ci s pre s' \/ term_start ci s pre s'.
Proof.
  unfold run_item. destruct ci as [uid cid kd caps sq]. destruct kd as [body|a body arg|a body ready|p key|a|a e].
  - intros Q; inversion Q; subst. right; left. exists body, FNone, XStk, (ERun uid (now s) (match sq with Some q => q | None => QMain end)), [].
    repeat split; try reflexivity; [constructor | eauto].
  - destruct (aget (actors s) a) as [x|] eqn:A; [destruct (a_state x) eqn:SA|].
    + intros Q; inj_pairK Q. left. unfold neutralK. split; [eiK | split; [|split; [reflexivity | split; [reflexivity | left; reflexivity]]]].
      intros b0 y H. rewrite aget_upd. destruct (N.eqb a b0) eqn:E.
      * apply N.eqb_eq in E. subst b0. rewrite A in H. inversion H; subst y. eexists. split; [reflexivity | left; reflexivity].
      * exists y. auto.
    + intros Q; inversion Q; subst. right; left. exists body, (FMeth a), (XCx a false), (EMeth a uid (now s)), [MDropRef a].
      repeat split; try reflexivity; [constructor | eauto | congruence].
    + intros Q; inj_pairK Q. left. unfold neutralK. split; [eiK | split; [apply nmono_refl | split; [reflexivity | split; [reflexivity | left; reflexivity]]]].
    + intros Q; inj_pairK Q. left. unfold neutralK. split; [eiK | split; [apply nmono_same; reflexivity | split; [reflexivity | split; [reflexivity | left; reflexivity]]]].
  - destruct (aget (actors s) a) as [x|] eqn:A; [destruct (ob (count_is_prep (a_strong x)))|].
    + intros Q; inversion Q; subst. right; left. exists body, (FPrep a ready), (XCx a true), (EPrep a uid (now s)), [MDropRef a].
      repeat split; try reflexivity; [constructor | eauto | congruence].
    + intros Q; inj_pairK Q. left. unfold neutralK. split; [eiK | split; [apply nmono_refl | split; [reflexivity | split; [reflexivity | left; reflexivity]]]].
    + intros Q; inj_pairK Q. left. unfold neutralK. split; [eiK | split; [apply nmono_same; reflexivity | split; [reflexivity | split; [reflexivity | left; reflexivity]]]].
  - destruct (aget (actors s) p) as [x|] eqn:A; [destruct (a_state x) eqn:SA|].
    + intros Q; inj_pairK Q. left. unfold neutralK. split; [eiK | split; [|split; [reflexivity | split; [reflexivity | left; reflexivity]]]].
      intros b0 y H. rewrite aget_upd. destruct (N.eqb p b0) eqn:E.
      * apply N.eqb_eq in E. subst b0. rewrite A in H. inversion H; subst y. eexists. split; [reflexivity | left; reflexivity].
      * exists y. auto.
    + destruct (nth_error slab (N.to_nat key)) as [[child|nx]|]; intros Q; inj_pairK Q; left; unfold neutralK.
      * split; [eiK | split; [|split; [reflexivity | split; [reflexivity | left; reflexivity]]]].
        intros b0 y H. rewrite aget_upd. destruct (N.eqb p b0) eqn:E.
        -- apply N.eqb_eq in E. subst b0. rewrite A in H. inversion H; subst y. eexists. split; [reflexivity | left; reflexivity].
        -- exists y. auto.
      * split; [eiK | split; [apply nmono_same; reflexivity | split; [reflexivity | split; [reflexivity | left; reflexivity]]]].
      * split; [eiK | split; [apply nmono_same; reflexivity | split; [reflexivity | split; [reflexivity | left; reflexivity]]]].
    + intros Q; inj_pairK Q. left. unfold neutralK. split; [eiK | split; [apply nmono_refl | split; [reflexivity | split; [reflexivity | left; reflexivity]]]].
    + intros Q; inj_pairK Q. left. unfold neutralK. split; [eiK | split; [apply nmono_same; reflexivity | split; [reflexivity | split; [reflexivity | left; reflexivity]]]].
  - intros Q; inversion Q; subst. right; right. exists a, CDrop, (MDropRef a). repeat split; auto.
  - intros Q; inversion Q; subst. right; right. exists a, (CKill e), (MDropOwn a false). repeat split; auto. right. exists e. auto.
Qed.

Lemma dies_nil s : ctxs s = [] -> dies s = [].
Proof. unfold ctxs, dies. destruct (frames s); [reflexivity | discriminate]. Qed.

Lemma nodly_notgt k x a : existsb dly k = false -> In x k -> tgt x = Some a -> False.
Proof. intros ND IN T. apply tgt_dly in T. rewrite (nodly_in _ _ ND IN) in T. discriminate. Qed.

(* the termination of actor a starts while nothing delayed is pending: allowed by the expectation or the notifier is gone *)
Lemma start_cok m b mo k0 s a c :
  RK m b (mo :: k0) s -> existsb dly (mo :: k0) = false ->
  (c = CDrop \/ has_req (k_reqs m) a c = true) -> cok m a c \/ gone s a.
Proof.
  intros R ND H. destruct (nget (k_expect m) a) as [c0|] eqn:EX.
  - destruct (k_y _ _ _ _ R _ _ EX) as (y & A & [G|G]).
    + right. exists y. auto.
    + exfalso. assert (existsb dly (mo :: k0) = true) by (apply existsb_exists; exists (MTerminate a c0); auto). congruence.
  - left. unfold cok. destruct H as [->|H]; [exact EX|]. destruct c; auto.
Qed.

Lemma IK_runitem m b ci k0 s pre s' :
  FK (MRunItem ci :: k0) (ctxs s) -> FK (pre ++ k0) (ctxs s') -> DT (MRunItem ci :: k0) s -> QTags s -> KS s ->
  handle (MRunItem ci) s = (pre, s') ->
  monr stepK iK (tr s) = Some m -> monr stepF None (tr s) = Some b -> RK m b (MRunItem ci :: k0) s ->
  RKnext (pre ++ k0) s'.
Proof.
  intros F F' D QT KS_ H MK MF R.
  pose proof (handle_Q _ _ _ _ QT KS_ H I) as QS.
  cbn [handle] in H. destruct (run_item_K _ _ _ _ H) as [NE|[BS|TS]].
  - right. exists m, b. apply (RK_neutral m b (MRunItem ci) k0 s pre s'); auto. intros; discriminate.
  - destruct BS as (body & f & c & e & tail & -> & -> & EM & TE & TD & TR_ & FE).
    destruct (FK_flat _ _ _ F eq_refl) as (CS & EB0 & _). pose proof (dies_nil _ CS) as DN.
    pose proof (DT_flat _ _ _ D eq_refl) as ND.
    pose proof R as [Kb Kf Ky Kp Kz Kcx Kql Kqr].
    set (s' := push_frame (emit s e) c (ci_caps ci)).
    set (m' := mkK (k_reqs m) (match fin_actor f with Some a => Some (a, ci_uid ci, None) | None => None end) (k_expect m)).
    assert (MK' : monr stepK iK (tr s') = Some m').
    { change (tr s') with (e :: tr s). cbn [monr]. rewrite MK. unfold m'. destruct f; simpl in FE.
      - destruct FE as (t & q & ->). reflexivity.
      - destruct FE as ((t & ->) & _). reflexivity.
      - destruct FE as ((t & ->) & _). reflexivity. }
    assert (MF' : monr stepF None (tr s') = Some (fin_actor f)).
    { change (tr s') with (e :: tr s). cbn [monr]. rewrite MF. destruct f; simpl in FE.
      - destruct FE as (t & q & ->). reflexivity.
      - destruct FE as ((t & ->) & _). reflexivity.
      - destruct FE as ((t & ->) & _). reflexivity. }
    right. exists m', (fin_actor f). split; [exact MK' | split; [exact MF'|]].
    destruct (RK_frame m m' b _ k0 s s' [e] eq_refl (nmono_same _ _ eq_refl) (fun a c H => H) eq_refl R) as (P1 & P2 & P3 & P4 & P5 & P6).
    assert (EB' : endb ((MActs body :: MEndBody (ci_uid ci) f :: tail) ++ k0) = Some (ci_uid ci, f)) by reflexivity.
    assert (DS : dies s' = [(c, None)]) by (unfold s'; rewrite dies_push_frame, dies_emit, DN; reflexivity).
    constructor.
    + unfold openbody. rewrite EB'. unfold lastdie. rewrite DS. reflexivity.
    + unfold fbody. rewrite EB'. reflexivity.
    + intros a0 c0 EX. assert (NT : MRunItem ci <> MTerminate a0 c0) by discriminate. destruct (P4 _ _ EX NT) as (y & A & G). exists y. split; [exact A|].
      destruct G as [G|G]; [left; exact G | right; apply in_or_app; right; exact G].
    + intros x IN. apply in_app_or in IN as [IN|IN]; [|apply P1; exact IN]. apply pok_nodly.
      destruct IN as [<-|[<-|IN]]; [reflexivity | reflexivity | exact (nodly_in _ _ TD IN)].
    + intros x a0 IN T. exfalso. apply in_app_or in IN as [IN|IN]; [|exact (nodly_notgt _ _ _ ND IN T)].
      destruct IN as [<-|[<-|IN]]; [discriminate T | discriminate T | exact (nodly_notgt _ _ _ TD IN T)].
    + intros a0 p0 d0 IN. rewrite DS in IN. destruct IN as [E|[]]. inversion E; subst.
      assert (AN : aget (actors s) a0 <> None) by (inversion EM; subst; simpl in FE; apply FE).
      change (actors s') with (actors s). destruct (aget (actors s) a0) as [y|]; [eauto | contradiction AN; reflexivity].
    + intros ci0 IN. apply P3. exact IN.
    + intros ci0 IN. apply in_app_or in IN as [IN|IN]; [|apply P2; exact IN].
      destruct IN as [E|[E|IN]]; [discriminate E | discriminate E | exfalso; eapply runm_notin; eauto].
  - destruct TS as (a & c & x & -> & -> & XD & XE & XR & CC).
    destruct (FK_flat _ _ _ F eq_refl) as (CS & EB0 & _).
    pose proof (DT_flat _ _ _ D eq_refl) as ND.
    pose proof R as [Kb Kf Ky Kp Kz Kcx Kql Kqr].
    right. exists m, b. split; [exact MK | split; [exact MF|]].
    destruct (RK_frame m m b _ k0 s s [] eq_refl (nmono_refl _) (fun a c H => H) eq_refl R) as (P1 & P2 & P3 & P4 & P5 & P6).
    assert (EB' : endb ([MTerminate a c; x] ++ k0) = endb (MRunItem ci :: k0)).
    { simpl. destruct x; try discriminate XE; reflexivity. }
    constructor.
    + unfold openbody. rewrite EB'. exact Kb.
    + unfold fbody. rewrite EB'. exact Kf.
    + intros a0 c0 EX. assert (NT : MRunItem ci <> MTerminate a0 c0) by discriminate. destruct (P4 _ _ EX NT) as (y & A & G). exists y. split; [exact A|].
      destruct G as [G|G]; [left; exact G | right; right; right; exact G].
    + intros y [<-|[<-|IN]]; [|apply pok_nodly; exact XD | apply P1; exact IN].
      simpl. apply (start_cok m b (MRunItem ci) k0 s a c R); [exact ND|].
      destruct CC as [->|(e & -> & KK)]; [left; reflexivity|]. right.
      apply (kf_req _ _ (monK_facts _ _ MK)). specialize (Kqr ci (or_introl eq_refl)). unfold kq in Kqr. rewrite KK in Kqr. exact Kqr.
    + intros y a0 _ _. unfold fbody. rewrite EB'. simpl. rewrite EB0. discriminate.
    + exact Kcx.
    + exact Kql.
    + intros ci0 [E|[E|IN]]; [discriminate E | subst x; discriminate XR | apply P2; exact IN].
Qed.

(* ------------------------------------------------------------------ *)
(** * A body ends *)

Definition end_tail (f : fin) (die : option cause) : list mop :=
  match f with
  | FNone => []
  | FMeth a => match die with Some c => [MTerminate a c] | None => [] end
  | FPrep a ready =>
      match die with
      | Some c => if ready then [MOrphNew a; MTerminate a c; MOrphDrop a] else [MTerminate a c]
      | None => if ready then [MToReady a] else []
      end
  end.

Lemma end_tail_facts f die :
  existsb is_endb (end_tail f die) = false /\ existsb is_runm (end_tail f die) = false /\
  (forall x, In x (end_tail f die) -> dly x = true -> exists a c, fin_actor f = Some a /\ die = Some c /\ x = MTerminate a c) /\
  (forall a c, fin_actor f = Some a -> die = Some c -> In (MTerminate a c) (end_tail f die)).
Proof.
  destruct f as [|a|a ready]; simpl.
  - repeat split; auto; try contradiction. intros; discriminate.
  - destruct die as [c|]; simpl; repeat split; auto; try contradiction; try (intros; discriminate).
    + intros x [<-|[]] _. exists a, c. auto.
    + intros a0 c0 E1 E2. inversion E1; inversion E2; subst. left. reflexivity.
  - destruct die as [c|]; destruct ready; simpl; repeat split; auto; try contradiction; try (intros; discriminate).
    + intros x [<-|[<-|[<-|[]]]] D; try discriminate D. exists a, c. auto.
    + intros a0 c0 E1 E2. inversion E1; inversion E2; subst. right; left. reflexivity.
    + intros x [<-|[]] _. exists a, c. auto.
    + intros a0 c0 E1 E2. inversion E1; inversion E2; subst. left. reflexivity.
    + intros x [<-|[]] D. discriminate D.
Qed.

Lemma IK_endbody m b u f k0 s pre s' :
  FK (MEndBody u f :: k0) (ctxs s) -> DT (MEndBody u f :: k0) s ->
  handle (MEndBody u f) s = (pre, s') ->
  monr stepK iK (tr s) = Some m -> monr stepF None (tr s) = Some b -> RK m b (MEndBody u f :: k0) s ->
  RKnext (pre ++ k0) s'.
Proof.
  intros F D H MK MF R. pose proof R as [Kb Kf Ky Kp Kz Kcx Kql Kqr].
  destruct (FK_endbody _ _ _ _ F) as (fr & FR & EM & EB0).
  pose proof (DT_flat _ _ _ D eq_refl) as ND.
  cbn [handle] in H. rewrite FR in H. fold (end_tail f (f_die fr)) in H. inversion H; subst pre s'; clear H.
  set (s' := set_frames (emit s (EEnd u)) []).
  destruct (end_tail_facts f (f_die fr)) as (T1 & T4 & T2 & T3).
  assert (LD : lastdie s = f_die fr) by (unfold lastdie, dies; rewrite FR; reflexivity).
  assert (OB : k_body m = match fin_actor f with Some a => Some (a, u, f_die fr) | None => None end).
  { rewrite Kb. unfold openbody. simpl. rewrite LD. reflexivity. }
  set (ex' := match fin_actor f, f_die fr with Some a, Some c => nset (k_expect m) a c | _, _ => k_expect m end).
  set (m' := mkK (k_reqs m) None ex').
  assert (MK' : monr stepK iK (tr s') = Some m').
  { change (tr s') with (EEnd u :: tr s). cbn [monr]. rewrite MK. cbn [stepK]. rewrite OB. unfold m', ex'.
    destruct (fin_actor f) as [a|].
    - rewrite N.eqb_refl. destruct (f_die fr); reflexivity.
    - destruct m as [rq bd ex]. simpl in OB. subst bd. reflexivity. }
  assert (MF' : monr stepF None (tr s') = Some None) by (change (tr s') with (EEnd u :: tr s); cbn [monr]; rewrite MF; reflexivity).
  right. exists m', None. split; [exact MK' | split; [exact MF'|]].
  assert (EP : existsb is_endb (drops (f_loc fr) ++ end_tail f (f_die fr)) = false) by (rewrite endb_app, endb_drops, T1; reflexivity).
  assert (EB' : endb ((drops (f_loc fr) ++ end_tail f (f_die fr)) ++ k0) = None) by (rewrite (endb_pre _ _ EP); exact EB0).
  assert (PD : forall x, In x (drops (f_loc fr) ++ end_tail f (f_die fr)) -> dly x = true ->
               exists a c, fin_actor f = Some a /\ f_die fr = Some c /\ x = MTerminate a c).
  { intros x IN DX. apply in_app_or in IN as [IN|IN]; [|apply T2; auto]. rewrite (nodly_in _ _ (dly_drops _) IN) in DX. discriminate. }
  constructor.
  - unfold openbody. rewrite EB'. reflexivity.
  - unfold fbody. rewrite EB'. reflexivity.
  - intros a0 c0 EX. cbn [k_expect m'] in EX. unfold ex' in EX.
    assert (OLD : nget (k_expect m) a0 = Some c0 -> exists x, aget (actors s') a0 = Some x /\
                  (a_notify x = None \/ In (MTerminate a0 c0) ((drops (f_loc fr) ++ end_tail f (f_die fr)) ++ k0))).
    { intros EX0. destruct (Ky _ _ EX0) as (x & A & G). exists x. split; [exact A|]. destruct G as [G|[G|G]]; [left; exact G | discriminate G|].
      right. apply in_or_app. right. exact G. }
    destruct (fin_actor f) as [a|] eqn:FA; [|apply OLD; exact EX]. destruct (f_die fr) as [c|] eqn:DI; [|apply OLD; exact EX].
    rewrite nget_nset in EX. destruct (N.eqb a0 a) eqn:Q; [|apply OLD; exact EX].
    apply N.eqb_eq in Q. subst a0. inversion EX; subst c0.
    assert (CXA : exists p, f_ctx fr = XCx a p) by (inversion EM; subst; simpl in FA; inversion FA; subst; eauto; discriminate).
    destruct CXA as (p & CXA). destruct (Kcx a p (f_die fr)) as (x & A).
    { unfold dies. rewrite FR. left. unfold fd. rewrite CXA. reflexivity. }
    exists x. split; [exact A|]. right. apply in_or_app. left. apply in_or_app. right. apply T3; auto.
  - intros x IN. apply in_app_or in IN as [IN|IN]; [|apply pok_nodly; exact (nodly_in _ _ ND IN)].
    destruct (dly x) eqn:DX; [|apply pok_nodly; exact DX]. destruct (PD x IN DX) as (a & c & FA & DI & ->).
    simpl. left. rewrite FA, DI in OB. destruct (kf_body _ _ (monK_facts _ _ MK) _ _ _ OB) as [HR SF].
    assert (NG : nget ex' a = Some c) by (unfold ex'; rewrite FA, DI, nget_nset, N.eqb_refl; reflexivity).
    unfold cok. cbn [k_reqs k_expect m']. rewrite NG. destruct c; try contradiction; auto.
  - intros x a0 _ _. unfold fbody. rewrite EB'. discriminate.
  - intros a0 p0 d0 IN. unfold s', dies in IN. simpl in IN. contradiction.
  - intros ci IN. change (tr s') with ([EEnd u] ++ tr s). apply kq_ext. apply Kql. exact IN.
  - intros ci IN. change (tr s') with ([EEnd u] ++ tr s). apply kq_ext. apply in_app_or in IN as [IN|IN]; [|apply Kqr; right; exact IN].
    exfalso. eapply runm_notin; [|exact IN]. rewrite runm_app, runm_drops, T4. reflexivity.
Qed.

(* ------------------------------------------------------------------ *)
(** * Termination *)

Lemma state_drops_K a sa s l s' : state_drops a sa s = (l, s') ->
  s' = s /\ existsb is_endb l = false /\ existsb is_runm l = false /\ (forall x, In x l -> x = MValDrop a \/ dly x = false).
Proof.
  unfold state_drops. destruct sa as [held|sh slab nx|]; intros Q; inversion Q; subst; (split; [reflexivity|]).
  - split; [apply endb_dropitems | split; [apply runm_dropitems|]]. intros x IN. right. exact (nodly_in _ _ (dly_dropitems _) IN).
  - split; [simpl; rewrite endb_app, endb_drops, endb_slab_drops; reflexivity|].
    split; [simpl; rewrite runm_app, runm_drops, runm_slab_drops; reflexivity|].
    intros x [<-|IN]; [left; reflexivity | right]. apply (nodly_in (drops sh ++ slab_drops slab)); [|exact IN].
    rewrite dly_app, dly_drops, dly_slab_drops. reflexivity.
  - split; [reflexivity | split; [reflexivity|]]. intros x [].
Qed.

Lemma pok_valdrop m s x a : x = MValDrop a \/ dly x = false -> pok m s x.
Proof. intros [->|H]; [exact I | apply pok_nodly; exact H]. Qed.

Lemma IK_terminate m b a c k0 s pre s' :
  KS s -> handle (MTerminate a c) s = (pre, s') ->
  monr stepK iK (tr s) = Some m -> monr stepF None (tr s) = Some b -> RK m b (MTerminate a c :: k0) s ->
  RKnext (pre ++ k0) s'.
Proof.
  intros KS_ H MK MF R. pose proof R as [Kb Kf Ky Kp Kz Kcx Kql Kqr].
  cbn [handle] in H. unfold terminate in H. destruct (aget (actors s) a) as [x|] eqn:A.
  - set (x1 := mkActor SZombie (oz (count_set_state (a_strong x) STATE_ZOMBIE)) (a_rc x) None (a_logid x) (a_freed x)) in *.
    set (s0 := if a_freed x then emit s (EModel M_UAF a) else s) in *.
    destruct (state_drops a (a_state x) (upd_actor s0 a x1)) as [dl s1] eqn:SD.
    destruct (state_drops_K _ _ _ _ _ SD) as (-> & DE & DR & DV).
    set (s2 := upd_actor s0 a x1) in *.
    assert (EV : exists evs, tr s2 = evs ++ tr s /\ forallb pbK evs = true).
    { unfold s2, s0. destruct (a_freed x); [exists [EModel M_UAF a] | exists []]; split; reflexivity. }
    destruct EV as (evs & TR & PB).
    assert (A0 : aget (actors s0) a = Some x) by (unfold s0; destruct (a_freed x); exact A).
    assert (NM : nmono s s2).
    { intros b0 y HY. unfold s2. rewrite aget_upd. destruct (N.eqb a b0) eqn:Q.
      - exists x1. split; [reflexivity | right; reflexivity].
      - exists y. split; [|left; reflexivity]. unfold s0. destruct (a_freed x); exact HY. }
    assert (DS : dies s2 = dies s) by (unfold s2, s0; destruct (a_freed x); reflexivity).
    assert (KL : kl s2 = kl s) by (unfold s2, s0; destruct (a_freed x); reflexivity).
    assert (A2 : aget (actors s2) a = Some x1) by (unfold s2; rewrite aget_upd, N.eqb_refl; reflexivity).
    destruct (RK_frame m m b _ k0 s s2 evs TR NM (fun a c H => H) eq_refl R) as (P1 & P2 & P3 & P4 & P5 & P6).
    assert (GEN : forall tl, pre = dl ++ tl -> s' = s2 -> existsb is_endb tl = false -> existsb is_runm tl = false ->
                  (forall y, In y tl -> pok m s2 y) -> (forall y, In y tl -> tgt y = None) -> RKnext (pre ++ k0) s').
    { intros tl -> -> TE TRn TP TT. right. exists m, b. split; [rewrite TR; apply monK_block; auto|]. split; [rewrite TR; apply monF_block; auto|].
      assert (EP : existsb is_endb (dl ++ tl) = false) by (rewrite endb_app, DE, TE; reflexivity).
      assert (EB' : endb ((dl ++ tl) ++ k0) = endb (MTerminate a c :: k0)) by (rewrite (endb_pre _ _ EP); reflexivity).
      constructor.
      - unfold openbody. rewrite EB'. unfold lastdie. rewrite DS. exact Kb.
      - unfold fbody. rewrite EB'. exact Kf.
      - intros a0 c0 EX. destruct (N.eqb a0 a) eqn:Q.
        + apply N.eqb_eq in Q. subst a0. exists x1. split; [exact A2 | left; reflexivity].
        + assert (NT : MTerminate a c <> MTerminate a0 c0) by (intros E; inversion E; subst; rewrite N.eqb_refl in Q; discriminate).
          destruct (P4 _ _ EX NT) as (y & AY & G). exists y. split; [exact AY|]. destruct G as [G|G]; [left; exact G | right; apply in_or_app; right; exact G].
      - intros y IN. apply in_app_or in IN as [IN|IN]; [|apply P1; exact IN]. apply in_app_or in IN as [IN|IN]; [|apply TP; exact IN].
        apply (pok_valdrop m s2 y a). apply DV. exact IN.
      - intros y a0 IN T. unfold fbody. rewrite EB'. fold (fbody (MTerminate a c :: k0)).
        apply in_app_or in IN as [IN|IN]; [|apply (P5 y a0 IN T)]. apply in_app_or in IN as [IN|IN]; [|rewrite (TT y IN) in T; discriminate].
        destruct (DV y IN) as [->|DY]; [|apply tgt_dly in T; congruence]. inversion T; subst a0. apply (Kz (MTerminate a c) a); [left; reflexivity | reflexivity].
      - intros a0 p0 d0 IN. rewrite DS in IN. apply (P6 a0 p0 d0). exact IN.
      - intros ci IN. rewrite KL in IN. apply P3. exact IN.
      - intros ci IN. apply in_app_or in IN as [IN|IN]; [|apply P2; exact IN]. exfalso. eapply runm_notin; [|exact IN].
        rewrite runm_app, DR, TRn. reflexivity. }
    destruct (a_notify x) as [nt|] eqn:NT; inversion H; subst pre s'; clear H.
    + apply (GEN [MLogClose a c; MRetInvoke nt (Some (MCause c))]); auto.
      * intros y [<-|[<-|[]]]; [exact I|]. simpl. intros a' NS.
        destruct (ks_act _ KS_ _ _ A) as (_ & _ & SH & _). pose proof (SH _ NT) as NS0. rewrite <- (nshape_fun _ _ _ NS0 NS).
        destruct (Kp (MTerminate a c) (or_introl eq_refl)) as [CK|(y & AY & GY)]; [exact CK|]. rewrite A in AY. inversion AY; subst y. congruence.
      * intros y [<-|[<-|[]]]; reflexivity.
    + apply (GEN []); auto; try (symmetry; apply app_nil_r); intros y [].
  - inversion H; subst pre s'; clear H. set (s' := emit s (EModel M_UAF a)).
    destruct (RK_frame m m b _ k0 s s' [EModel M_UAF a] eq_refl (nmono_same _ _ eq_refl) (fun a c H => H) eq_refl R) as (P1 & P2 & P3 & P4 & P5 & P6).
    right. exists m, b. split; [change (tr s') with ([EModel M_UAF a] ++ tr s); apply monK_block; auto|].
    split; [change (tr s') with ([EModel M_UAF a] ++ tr s); apply monF_block; auto|].
    constructor.
    + exact Kb.
    + exact Kf.
    + intros a0 c0 EX. destruct (N.eqb a0 a) eqn:Q.
      * apply N.eqb_eq in Q. subst a0. destruct (Ky _ _ EX) as (y & AY & _). rewrite A in AY. discriminate.
      * assert (NT : MTerminate a c <> MTerminate a0 c0) by (intros E; inversion E; subst; rewrite N.eqb_refl in Q; discriminate).
        destruct (P4 _ _ EX NT) as (y & AY & G). exists y. split; [exact AY | exact G].
    + exact P1.
    + intros y a0 IN T. apply (P5 y a0 IN T).
    + intros a0 p0 d0 IN. apply (P6 a0 p0 d0). exact IN.
    + exact P3.
    + exact P2.
Qed.

(* ------------------------------------------------------------------ *)
(** * A Ret is invoked: the notification *)

Lemma actors_submit s q c : actors (submit s q c) = actors s.
Proof. unfold submit. destruct q; reflexivity. Qed.

Definition notify_step (r : ret) (m0 : option msg) (s : st) (pre : list mop) (s' : st) : Prop :=
  exists rid a inner evs, r = Ret rid (RKNotify a inner) /\ pre = [] /\
    tr s' = evs ++ ENotify a (msg_cause m0) :: tr s /\ forallb pbK evs = true /\ actors s' = actors s /\ dies s' = dies s.

Definition slab_step (r : ret) (m0 : option msg) (s : st) (pre : list mop) (s' : st) : Prop :=
  exists rid p key inner mm, r = Ret rid (RKSlab p key inner) /\ m0 = Some mm /\ pre = [MRetInvoke inner m0; MDropRef p] /\
    evs_in pbK s s' /\ nmono s s' /\ dies s' = dies s.

Lemma ret_invoke_K r m0 s pre s' : ret_invoke r m0 s = (pre, s') ->
  neutralK s pre s' \/ notify_step r m0 s pre s' \/ slab_step r m0 s pre s'.
Proof.
  unfold ret_invoke. destruct r as [rid k]. destruct k as [caps body|a ci|a ci|a inner|p key inner].
  - intros Q; inj_pairK Q. left. unfold neutralK. split; [eiK | split; [apply nmono_same; reflexivity | split; [reflexivity | split; [reflexivity|]]]].
    right; left. exists XNone. split; [exact I | reflexivity].
  - intros Q; inj_pairK Q. left. unfold neutralK. split; [eiK | split; [apply nmono_same; rewrite actors_submit; reflexivity | split; [reflexivity | split; [reflexivity|]]]].
    left. dies_rw. reflexivity.
  - destruct m0 as [mm|]; intros Q; inj_pairK Q; left; unfold neutralK.
    + split; [eiK | split; [apply nmono_same; rewrite actors_submit; reflexivity | split; [reflexivity | split; [reflexivity|]]]]. left. dies_rw. reflexivity.
    + split; [eiK | split; [apply nmono_same; reflexivity | split; [reflexivity | split; [reflexivity|]]]]. left. reflexivity.
  - destruct inner as [[p ci]|]; intros Q; inj_pairK Q; right; left.
    + exists rid, a, (Some (p, ci)), [ESub QMain (ci_uid (as_call p ci None)) (ci_call (as_call p ci None))].
      repeat split; try reflexivity.
    + exists rid, a, None, []. repeat split; reflexivity.
  - destruct m0 as [mm|]; intros Q; inj_pairK Q.
    + right; right. exists rid, p, key, inner, mm. repeat split; try reflexivity; [eiK | apply amono_nmono; am_tac | dies_rw; reflexivity].
    + left. unfold neutralK. split; [eiK | split; [apply nmono_refl | split; [reflexivity | split; [reflexivity | left; reflexivity]]]].
Qed.

Lemma cok_guard m a c : cok m a c ->
  match c with
  | CDrop => match nget (k_expect m) a with Some _ => false | None => true end
  | cc => has_req (k_reqs m) a cc && match nget (k_expect m) a with Some c0 => cause_eqb cc c0 | None => true end
  end = true.
Proof.
  unfold cok. destruct c; try (intros [H [G|G]]; rewrite H, G; simpl; auto; try apply N.eqb_refl).
  intros ->. reflexivity.
Qed.

Lemma IK_retinvoke m b r m0 k0 s pre s' :
  FK (MRetInvoke r m0 :: k0) (ctxs s) -> FK (pre ++ k0) (ctxs s') -> QTags s -> KS s ->
  handle (MRetInvoke r m0) s = (pre, s') ->
  monr stepK iK (tr s) = Some m -> monr stepF None (tr s) = Some b -> RK m b (MRetInvoke r m0 :: k0) s ->
  RKnext (pre ++ k0) s'.
Proof.
  intros F F' QT KS_ H MK MF R.
  pose proof (handle_Q _ _ _ _ QT KS_ H I) as QS.
  cbn [handle] in H. destruct (ret_invoke_K _ _ _ _ _ H) as [NE|[NS|SS]].
  - right. exists m, b. apply (RK_neutral m b (MRetInvoke r m0) k0 s pre s'); auto. intros; discriminate.
  - destruct NS as (rid & a & inner & evs & -> & -> & TR & PB & AC & DS).
    pose proof R as [Kb Kf Ky Kp Kz Kcx Kql Kqr].
    assert (ST : stepK m (ENotify a (msg_cause m0)) = Some m).
    { cbn [stepK]. destruct m0 as [[v|c]|]; try reflexivity. simpl msg_cause.
      pose proof (Kp _ (or_introl eq_refl)) as PK. simpl in PK. specialize (PK a eq_refl). apply cok_guard in PK.
      unfold guard. destruct c; rewrite PK; reflexivity. }
    assert (MK' : monr stepK iK (tr s') = Some m) by (rewrite TR; apply monK_block; auto; cbn [monr]; rewrite MK; exact ST).
    assert (MF' : monr stepF None (tr s') = Some b) by (rewrite TR; apply monF_block; auto; cbn [monr]; rewrite MF; reflexivity).
    right. exists m, b. split; [exact MK' | split; [exact MF'|]].
    assert (TR2 : tr s' = (evs ++ [ENotify a (msg_cause m0)]) ++ tr s) by (rewrite TR, <- app_assoc; reflexivity).
    destruct (RK_frame m m b _ k0 s s' _ TR2 (nmono_same _ _ AC) (fun a c H => H) eq_refl R) as (P1 & P2 & P3 & P4 & P5 & P6).
    destruct QS as [Q1 Q2].
    constructor.
    + unfold openbody, lastdie. rewrite DS. exact Kb.
    + exact Kf.
    + intros a0 c0 EX. assert (NT : MRetInvoke (Ret rid (RKNotify a inner)) m0 <> MTerminate a0 c0) by discriminate. exact (P4 _ _ EX NT).
    + exact P1.
    + intros y a0 IN T. apply (P5 y a0 IN T).
    + intros a0 p0 d0 IN. rewrite DS in IN. apply (P6 a0 p0 d0). exact IN.
    + intros ci IN. apply P3. apply Q1. exact IN.
    + exact P2.
  - destruct SS as (rid & p & key & inner & mm & -> & -> & -> & (evs & TR & PB) & NM & DS).
    pose proof R as [Kb Kf Ky Kp Kz Kcx Kql Kqr].
    right. exists m, b. split; [rewrite TR; apply monK_block; auto|]. split; [rewrite TR; apply monF_block; auto|].
    destruct (RK_frame m m b _ k0 s s' _ TR NM (fun a c H => H) eq_refl R) as (P1 & P2 & P3 & P4 & P5 & P6).
    destruct QS as [Q1 Q2].
    constructor.
    + unfold openbody, lastdie. rewrite DS. exact Kb.
    + exact Kf.
    + intros a0 c0 EX. assert (NT : MRetInvoke (Ret rid (RKSlab p key inner)) (Some mm) <> MTerminate a0 c0) by discriminate.
      destruct (P4 _ _ EX NT) as (y & AY & G). exists y. split; [exact AY|]. destruct G as [G|G]; [left; exact G | right; right; right; exact G].
    + intros y [<-|[<-|IN]]; [|exact I | apply P1; exact IN].
      destruct mm as [v|c]; [exact I|]. simpl. intros a0 NS. pose proof (Kp _ (or_introl eq_refl)) as PK. simpl in PK. apply (PK a0 NS).
    + intros y a0 [<-|[<-|IN]] T; [destruct mm; discriminate T | discriminate T | apply (P5 y a0 IN T)].
    + intros a0 p0 d0 IN. rewrite DS in IN. apply (P6 a0 p0 d0). exact IN.
    + intros ci IN. apply P3. apply Q1. exact IN.
    + intros ci [E|[E|IN]]; [discriminate E | discriminate E | apply P2; exact IN].
Qed.

(* ------------------------------------------------------------------ *)
(** * The value of an actor is dropped; a cell is freed *)

Lemma IK_valdrop m b a k0 s :
  monr stepK iK (tr s) = Some m -> monr stepF None (tr s) = Some b -> RK m b (MValDrop a :: k0) s ->
  RKnext ([] ++ k0) (emit s (EValDrop a)).
Proof.
  intros MK MF R. pose proof R as [Kb Kf Ky Kp Kz Kcx Kql Kqr]. set (s' := emit s (EValDrop a)).
  assert (ST : stepK m (EValDrop a) = Some m).
  { cbn [stepK]. rewrite Kb. pose proof (Kz (MValDrop a) a (or_introl eq_refl) eq_refl) as NB. unfold fbody in NB. unfold openbody.
    destruct (endb (MValDrop a :: k0)) as [[u f]|]; [|reflexivity]. destruct (fin_actor f) as [a1|]; [|reflexivity].
    destruct (N.eqb a a1) eqn:Q; [|reflexivity]. apply N.eqb_eq in Q. subst a1. contradiction NB; reflexivity. }
  right. exists m, b. split; [change (tr s') with (EValDrop a :: tr s); cbn [monr]; rewrite MK; exact ST|].
  split; [change (tr s') with (EValDrop a :: tr s); cbn [monr]; rewrite MF; reflexivity|].
  destruct (RK_frame m m b _ k0 s s' [EValDrop a] eq_refl (nmono_same _ _ eq_refl) (fun a c H => H) eq_refl R) as (P1 & P2 & P3 & P4 & P5 & P6).
  constructor.
  - exact Kb.
  - exact Kf.
  - intros a0 c0 EX. assert (NT : MValDrop a <> MTerminate a0 c0) by discriminate. exact (P4 _ _ EX NT).
  - exact P1.
  - intros y a0 IN T. apply (P5 y a0 IN T).
  - intros a0 p0 d0 IN. apply (P6 a0 p0 d0). exact IN.
  - exact P3.
  - exact P2.
Qed.

Definition free_step (a : N) (s : st) (pre : list mop) (s' : st) : Prop :=
  exists evs, tr s' = EModel M_FREE_ACTOR a :: evs ++ tr s /\ forallb pbK evs = true /\ nmono s s' /\ dies s' = dies s /\
    existsb is_endb pre = false /\ (forall y, In y pre -> y = MValDrop a \/ dly y = false).

Lemma drop_ref_K a s pre s' : drop_ref a s = (pre, s') -> neutralK s pre s' \/ free_step a s pre s'.
Proof.
  unfold drop_ref. destruct (aget (actors s) a) as [x|] eqn:A.
  - destruct (a_freed x).
    { intros Q; inj_pairK Q. left. unfold neutralK. split; [eiK | split; [apply nmono_same; reflexivity | split; [reflexivity | split; [reflexivity | left; reflexivity]]]]. }
    destruct (minrc_drop (a_rc x)) as [[v z]|].
    + destruct z.
      * destruct (state_drops a (a_state x) _) as [dl s2] eqn:SD. destruct (state_drops_K _ _ _ _ _ SD) as (-> & DE & DR & DV).
        intros Q; inj_pairK Q. right. exists []. split; [reflexivity | split; [reflexivity|]]. split; [|split; [reflexivity | split]].
        -- intros b0 y HY. rewrite aget_upd_emit. destruct (N.eqb a b0) eqn:Q.
           ++ eexists. split; [reflexivity | right; reflexivity].
           ++ exists y. auto.
        -- rewrite endb_app, DE. destruct (a_notify x); reflexivity.
        -- intros y IN. apply in_app_or in IN as [IN|IN]; [|apply DV; exact IN]. right. destruct (a_notify x); [destruct IN as [<-|[]]; reflexivity | destruct IN].
      * intros Q; inj_pairK Q. left. unfold neutralK. split; [eiK | split; [|split; [reflexivity | split; [reflexivity | left; reflexivity]]]].
        intros b0 y HY. rewrite aget_upd. destruct (N.eqb a b0) eqn:Q.
        -- apply N.eqb_eq in Q. subst b0. rewrite A in HY. inversion HY; subst y. eexists. split; [reflexivity | left; reflexivity].
        -- exists y. auto.
    + intros Q; inj_pairK Q. left. unfold neutralK. split; [eiK | split; [apply nmono_same; reflexivity | split; [reflexivity | split; [reflexivity | left; reflexivity]]]].
  - intros Q; inj_pairK Q. left. unfold neutralK. split; [eiK | split; [apply nmono_same; reflexivity | split; [reflexivity | split; [reflexivity | left; reflexivity]]]].
Qed.

Lemma IK_dropref m b a k0 s pre s' :
  FK (MDropRef a :: k0) (ctxs s) -> FK (pre ++ k0) (ctxs s') -> QTags s -> KS s ->
  handle (MDropRef a) s = (pre, s') ->
  monr stepK iK (tr s) = Some m -> monr stepF None (tr s) = Some b -> RK m b (MDropRef a :: k0) s ->
  RKnext (pre ++ k0) s'.
Proof.
  intros F F' QT KS_ H MK MF R.
  pose proof (handle_Q _ _ _ _ QT KS_ H I) as QS.
  cbn [handle] in H. destruct (drop_ref_K _ _ _ _ H) as [NE|FS].
  - right. exists m, b. apply (RK_neutral m b (MDropRef a) k0 s pre s'); auto. intros; discriminate.
  - destruct FS as (evs & TR & PB & NM & DS & DE & DV).
    pose proof R as [Kb Kf Ky Kp Kz Kcx Kql Kqr]. destruct QS as [Q1 Q2].
    destruct (match b with Some x => N.eqb x a | None => false end) eqn:BA.
    + left. unfold BadF. rewrite TR. cbn [monr]. rewrite (monF_block _ _ _ PB MF). cbn [stepF]. rewrite N.eqb_refl, BA. reflexivity.
    + right. exists m, b. split; [rewrite TR; cbn [monr]; rewrite (monK_block _ _ _ PB MK); reflexivity|].
      split; [rewrite TR; cbn [monr]; rewrite (monF_block _ _ _ PB MF); cbn [stepF]; rewrite N.eqb_refl, BA; reflexivity|].
      assert (TR2 : tr s' = (EModel M_FREE_ACTOR a :: evs) ++ tr s) by (rewrite TR; reflexivity).
      destruct (RK_frame m m b _ k0 s s' _ TR2 NM (fun a c H => H) eq_refl R) as (P1 & P2 & P3 & P4 & P5 & P6).
      assert (EB' : endb (pre ++ k0) = endb (MDropRef a :: k0)) by (rewrite (endb_pre _ _ DE); reflexivity).
      constructor.
      * unfold openbody. rewrite EB'. unfold lastdie. rewrite DS. exact Kb.
      * unfold fbody. rewrite EB'. exact Kf.
      * intros a0 c0 EX. assert (NT : MDropRef a <> MTerminate a0 c0) by discriminate.
        destruct (P4 _ _ EX NT) as (y & AY & G). exists y. split; [exact AY|]. destruct G as [G|G]; [left; exact G | right; apply in_or_app; right; exact G].
      * intros y IN. apply in_app_or in IN as [IN|IN]; [|apply P1; exact IN]. apply (pok_valdrop m s' y a). apply DV. exact IN.
      * intros y a0 IN T. unfold fbody. rewrite EB'. fold (fbody (MDropRef a :: k0)). apply in_app_or in IN as [IN|IN]; [|apply (P5 y a0 IN T)].
        destruct (DV y IN) as [->|DY]; [|apply tgt_dly in T; congruence]. inversion T; subst a0. rewrite <- Kf. intros E. rewrite E in BA. rewrite N.eqb_refl in BA. discriminate.
      * intros a0 p0 d0 IN. rewrite DS in IN. apply (P6 a0 p0 d0). exact IN.
      * intros ci IN. apply P3. apply Q1. exact IN.
      * intros ci IN. apply in_app_or in IN as [IN|IN]; [|apply P2; exact IN].
        destruct (iskill ci) eqn:K; [apply P3; apply Q2; auto | apply kq_nokill; exact K].
Qed.

(* ------------------------------------------------------------------ *)
(** * The acts that request a termination *)

Lemma IK_badact m b mo l k0 s n :
  is_endb mo = false -> (forall a c, mo <> MTerminate a c) ->
  FK (mo :: k0) (ctxs s) -> FK (([] ++ [MActs l]) ++ k0) (ctxs (emit s (EBad n))) ->
  monr stepK iK (tr s) = Some m -> monr stepF None (tr s) = Some b -> RK m b (mo :: k0) s ->
  RKnext (([] ++ [MActs l]) ++ k0) (emit s (EBad n)).
Proof.
  intros EM NT F F' MK MF R. right. exists m, b. apply (RK_neutral m b mo k0 s ([] ++ [MActs l]) (emit s (EBad n))); auto.
  - unfold neutralK. split; [eiK | split; [apply nmono_same; reflexivity | split; [reflexivity | split; [reflexivity | left; reflexivity]]]].
  - apply Qeq; reflexivity.
Qed.

Lemma IK_reqact m b a l k0 s pre s' :
  reqact a = true ->
  FK (MActs (a :: l) :: k0) (ctxs s) -> FK (pre ++ k0) (ctxs s') -> DT (MActs (a :: l) :: k0) s ->
  handle (MActs (a :: l)) s = (pre, s') ->
  monr stepK iK (tr s) = Some m -> monr stepF None (tr s) = Some b -> RK m b (MActs (a :: l) :: k0) s ->
  RKnext (pre ++ k0) s'.
Proof.
  intros RA F F' D H MK MF R. cbn [handle] in H.
  assert (BAD : forall n, (pre, s') = (let '(p, s1) := bad s n in (p ++ [MActs l], s1)) -> RKnext (pre ++ k0) s').
  { intros n Q. unfold bad in Q. inversion Q; subst pre s'. apply (IK_badact m b (MActs (a :: l))); auto. intros; discriminate. }
  destruct a; try discriminate RA; unfold do_act in H.
  - (* AStop *)
    destruct (frames s) as [|[cx loc die] rest] eqn:FR; [apply (BAD 13%N); auto|].
    destruct cx as [|a p|]; try (apply (BAD 13%N); auto; fail).
    destruct (FK_cx _ _ _ _ _ _ _ F FR) as (-> & _). inversion H; subst pre s'.
    apply (IK_stopfail m b (MActs (AStop :: l)) CStop l k0 s a p loc die); auto; try (intros; discriminate). exact I.
  - (* AFail *)
    destruct (frames s) as [|[cx loc die] rest] eqn:FR; [apply (BAD 14%N); auto|].
    destruct cx as [|a p|]; try (apply (BAD 14%N); auto; fail).
    destruct (FK_cx _ _ _ _ _ _ _ F FR) as (-> & _). inversion H; subst pre s'.
    apply (IK_stopfail m b (MActs (AFail e :: l)) (CFail e) l k0 s a p loc die); auto; try (intros; discriminate). exact I.
  - (* AKill *)
    destruct (cur_ctx s) eqn:CX; try (apply (BAD 15%N); auto; fail).
    destruct (alive s); [|apply (BAD 15%N); auto].
    destruct (lookup s h) as [[a| | | | |]|]; try (apply (BAD 15%N); auto; fail).
    inversion H; subst pre s'. apply (IK_kill m b (AKill h e :: l) l k0 s a e); auto.
  - (* AKillAsync *)
    destruct (lookup s h) as [[a| | | | |]|]; try (apply (BAD 16%N); auto; fail).
    destruct (aget (actors s) a) as [x|] eqn:A; [|apply (BAD 16%N); auto].
    inversion H; subst pre s'. apply (IK_killasync m b (AKillAsync h e :: l) l k0 s a e x); auto.
Qed.

(* ------------------------------------------------------------------ *)
(** * The leak report; every step *)

Lemma class_flag_pbK all p e : class_flag all p = Some e -> pbK e = true.
Proof.
  unfold class_flag. destruct (a_freed (snd p)); [discriminate|].
  destruct (a_state (snd p)) as [[|c hl]| |]; try discriminate.
  - intros E; inversion E. reflexivity.
  - destruct (existsb _ _); [|discriminate]. intros E; inversion E. reflexivity.
Qed.

Lemma IK_leaks m b s pre s' :
  handle MLeaks s = (pre, s') ->
  monr stepK iK (tr s) = Some m -> monr stepF None (tr s) = Some b ->
  pre = [] /\ monr stepK iK (tr s') = Some m /\ monr stepF None (tr s') = Some b.
Proof.
  intros H MK MF. cbn [handle] in H. inversion H; subst pre s'; clear H. split; [reflexivity|].
  unfold class_flags. destruct (fold_emit_opt (class_flag (actors s)) (actors s) s) as (fl & TR1 & FM & _).
  fold (class_flags s) in TR1.
  assert (PF : forallb pbK fl = true).
  { apply forallb_forall. intros e IN. rewrite Forall_forall in FM. destruct (FM e IN) as (p & CF). eapply class_flag_pbK; eauto. }
  fold (class_flags s).
  assert (TR : tr (set_tr (class_flags s) (rev (leaks (rev (tr (class_flags s)))) ++ tr (class_flags s))) =
               (rev (leaks (rev (tr (class_flags s)))) ++ fl) ++ tr s).
  { change (tr (set_tr ?x ?v)) with v. rewrite TR1 at 2. rewrite app_assoc. reflexivity. }
  assert (PL : forallb pbK (rev (leaks (rev (tr (class_flags s)))) ++ fl) = true).
  { rewrite forallb_app, PF, andb_true_r. apply forallb_forall. intros e IN. apply in_rev in IN. unfold leaks in IN.
    apply in_map_iff in IN as (p & <- & _). reflexivity. }
  split; rewrite TR; [apply monK_block | apply monF_block]; auto.
Qed.

Theorem step_IK k s k' s' :
  FK k (ctxs s) -> DT k s -> Tail k s -> QTags s -> KS s ->
  step k s = Some (k', s') -> IK k s -> IK k' s'.
Proof.
  intros F D TL QT KS_ ST II. pose proof (step_FK _ _ _ _ F ST) as F'.
  destruct k as [|mo k0]; [discriminate|]. simpl in ST. destruct (handle mo s) as [pre s1] eqn:H. inversion ST; subst k' s1; clear ST.
  destruct II as [B|(m & b & MK & MF & [E|R])]; [|discriminate E|].
  { left. destruct (handle_ext _ _ _ _ H) as [evs TR]. rewrite TR. apply BadF_ext. exact B. }
  assert (NEXT : RKnext (pre ++ k0) s' -> IK (pre ++ k0) s').
  { intros [B|(m' & b' & MK' & MF' & R')]; [left; exact B | right; exists m', b'; auto]. }
  destruct (specialK mo) eqn:SP.
  - destruct mo; try discriminate SP.
    + destruct l as [|a l]; [discriminate SP|]. apply NEXT. eapply IK_reqact; eauto.
    + apply NEXT. eapply IK_endbody; eauto.
    + apply NEXT. eapply IK_runitem; eauto.
    + apply NEXT. eapply IK_dropref; eauto.
    + apply NEXT. eapply IK_retinvoke; eauto.
    + apply NEXT. cbn [handle] in H. inversion H; subst pre s'. eapply IK_valdrop; eauto.
    + apply NEXT. eapply IK_terminate; eauto.
    + destruct (Tail_leaks _ _ TL) as (-> & _). destruct (IK_leaks _ _ _ _ _ H MK MF) as (-> & MK' & MF').
      right. exists m, b. split; [exact MK' | split; [exact MF' | left; reflexivity]].
  - apply NEXT. right. exists m, b. apply (RK_neutral m b mo k0 s pre s'); auto.
    + eapply handle_K; eauto.
    + eapply handle_Q; eauto. destruct mo; auto. destruct l as [|a l]; auto. destruct a; auto. discriminate SP.
    + destruct mo; try reflexivity. discriminate SP.
    + intros a c E. subst mo. discriminate SP.
Qed.

Lemma IK_init d p : IK (map MTop p ++ [MEpilogue]) (init d).
Proof.
  right. exists iK, None. split; [reflexivity | split; [reflexivity|]]. right.
  assert (NE : forall l, endb (map MTop l ++ [MEpilogue]) = None) by (induction l; simpl; auto).
  assert (ND : forall l x, In x (map MTop l ++ [MEpilogue]) -> dly x = false /\ is_runm x = false).
  { intros l x IN. apply in_app_or in IN as [IN|[<-|[]]]; [|split; reflexivity]. apply in_map_iff in IN as (o & <- & _). split; reflexivity. }
  constructor.
  - unfold openbody. rewrite NE. reflexivity.
  - unfold fbody. rewrite NE. reflexivity.
  - intros a c0 H. discriminate H.
  - intros x IN. apply pok_nodly. apply (ND p x IN).
  - intros x a IN T. apply tgt_dly in T. destruct (ND p x IN) as [DX _]. congruence.
  - intros a q dd IN. destruct d; contradiction IN.
  - intros ci IN. destruct d; contradiction IN.
  - intros ci IN. destruct (ND p _ IN) as [_ RX]. discriminate RX.
Qed.
