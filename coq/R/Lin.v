(** Layer R proofs: LINEARITY of resources over the whole configuration (part 1: the census).

    A resource ([res]) is a closure instance (uid), a user Ret (rid), the termination notifier of an actor,
    or the value of an actor.  [cmops x k + cst x s] counts the occurrences of resource [x] in the whole
    configuration [(k, s)]: pending micro-ops, the main / lazy / idle queues, timers, held Prep queues, actor
    state, notifiers, the environment, frame locals, and all nested values (closure captures, Ret captures,
    call closures kept inside Rets and notifiers).  [W x s] adds the token events of the trace: consumed minus
    created.  The conservation law (LinStep.v) is  cmops x pre + W x s' = cmop x m + W x s  for every
    micro-op.  The pseudo resource [RBad] counts ill-kinded values (a notifier used as a user Ret, ...): it is
    never created, so its census is always 0.

    This file: definitions, non-negativity, census of the list operations and of the helpers of Rt.v. *)
From Coq Require Import ZArith NArith List Bool Lia.
From Stk Require Import Lib.U Gen.SrcCount Gen.SrcCore Gen.SrcLog R.Syntax R.Rt R.Shape.
Import ListNotations.
Local Open Scope Z_scope.

(* ------------------------------------------------------------------ *)
(** * Resources *)

(* [REmb r u b]: the Ret r whose handler is the call closure u ([b]: ret_some_to), as one object *)
(* [RFr u]: the uid u has been handed out (census: u below the next-uid counter; created by [EClo u]) *)
Inductive res := RClo (u : N) | RRet (r : N) | RNot (a : N) | RVal (a : N) | REmb (r u : N) (b : bool) | RFr (u : N) | RBad.

Definition res_eqb (x y : res) : bool :=
  match x, y with
  | RClo a, RClo b | RRet a, RRet b | RNot a, RNot b | RVal a, RVal b | RFr a, RFr b => N.eqb a b
  | REmb r u b, REmb r' u' b' => N.eqb r r' && N.eqb u u' && Bool.eqb b b'
  | RBad, RBad => true
  | _, _ => false
  end.

Definition ind (x y : res) : Z := if res_eqb x y then 1 else 0.

Lemma res_eqb_eq x y : res_eqb x y = true <-> x = y.
Proof.
  destruct x, y; simpl; try (split; [discriminate | intros E; discriminate E]);
    try (rewrite N.eqb_eq; split; [intros ->; reflexivity | intros E; inversion E; reflexivity]).
  - rewrite !andb_true_iff, !N.eqb_eq, Bool.eqb_true_iff. split; [intros [[-> ->] ->]; reflexivity | intros E; inversion E; auto].
  - split; auto.
Qed.

Lemma ind_refl x : ind x x = 1.
Proof. unfold ind. destruct (res_eqb x x) eqn:E; auto. assert (H : x = x) by reflexivity. apply res_eqb_eq in H. congruence. Qed.

Lemma ind_neq x y : x <> y -> ind x y = 0.
Proof. unfold ind. destruct (res_eqb x y) eqn:E; auto. apply res_eqb_eq in E. congruence. Qed.

Lemma ind_range x y : 0 <= ind x y <= 1.
Proof. unfold ind. destruct (res_eqb x y); lia. Qed.

Lemma ind_pos x y : 0 < ind x y -> x = y.
Proof. unfold ind. destruct (res_eqb x y) eqn:E; [intros _; apply res_eqb_eq; auto | lia]. Qed.

Global Opaque ind.

(* ------------------------------------------------------------------ *)
(** * Kinds *)

(* closure kinds that denote an instance (with a uid and events); the others ([KSlabRm], [KTerm], [KKill]) are
   internal items made with uid 0 and no captures *)
Definition realk (k : ckind) : bool :=
  match k with KPlain _ | KMeth _ _ _ | KPrep _ _ _ => true | _ => false end.

Definition ukind (r : ret) : bool :=
  match r with Ret _ (RKClos _ _) | Ret _ (RKTo _ _) | Ret _ (RKSomeTo _ _) => true | _ => false end.

Fixpoint nkind (r : ret) : bool :=
  match r with
  | Ret _ (RKNotify _ _) => true
  | Ret _ (RKSlab _ _ inner) => nkind inner
  | _ => false
  end.

Definition badif (x : res) (ok : bool) : Z := if ok then 0 else ind x RBad.

Lemma badif_nn x b : 0 <= badif x b.
Proof. unfold badif. destruct b; [lia | apply ind_range]. Qed.

(* ------------------------------------------------------------------ *)
(** * Census of values *)

Fixpoint cv (x : res) (v : hval) {struct v} : Z :=
  match v with
  | HRet r => badif x (ukind r) + cret x r
  | _ => 0
  end
with cret (x : res) (r : ret) {struct r} : Z :=
  match r with Ret rid k => crk x rid k end
with crk (x : res) (rid : N) (k : rkind) {struct k} : Z :=
  match k with
  | RKClos caps _ =>
      ind x (RRet rid) +
      (fix go (l : list (N * hval)) : Z := match l with [] => 0 | p :: l' => match p with (_, v) => cv x v + go l' end end) caps
  | RKTo _ ci => ind x (RRet rid) + ind x (REmb rid (ci_uid ci) false) + badif x (realk (ci_kind ci)) + cci x ci
  | RKSomeTo _ ci => ind x (RRet rid) + ind x (REmb rid (ci_uid ci) true) + badif x (realk (ci_kind ci)) + cci x ci
  | RKNotify a inner =>
      ind x (RNot a) + match inner with Some (_, ci) => badif x (realk (ci_kind ci)) + cci x ci | None => 0 end
  | RKSlab _ _ inner => cret x inner
  end
with cci (x : res) (c : citem) {struct c} : Z :=
  match c with
  | CI u _ kd caps _ =>
      if realk kd then
        ind x (RClo u) +
        (fix go (l : list (N * hval)) : Z := match l with [] => 0 | p :: l' => match p with (_, v) => cv x v + go l' end end) caps
      else 0
  end.

Fixpoint cenv (x : res) (l : list (N * hval)) : Z :=
  match l with [] => 0 | p :: l' => cv x (snd p) + cenv x l' end.

Lemma go_cenv x caps :
  (fix go (l : list (N * hval)) : Z := match l with [] => 0 | p :: l' => match p with (_, v) => cv x v + go l' end end) caps
  = cenv x caps.
Proof. induction caps as [|[h v] l IH]; simpl; auto. rewrite IH. reflexivity. Qed.

Lemma cv_ret x r : cv x (HRet r) = badif x (ukind r) + cret x r.
Proof. reflexivity. Qed.

Lemma crk_clos x rid caps b : crk x rid (RKClos caps b) = ind x (RRet rid) + cenv x caps.
Proof. simpl. rewrite go_cenv. reflexivity. Qed.

Lemma cci_eq x u i kd caps q :
  cci x (CI u i kd caps q) = if realk kd then ind x (RClo u) + cenv x caps else 0.
Proof. simpl. rewrite go_cenv. reflexivity. Qed.

Lemma cci_real x c : realk (ci_kind c) = true -> cci x c = ind x (RClo (ci_uid c)) + cenv x (ci_caps c).
Proof. destruct c as [u i kd caps q]. simpl ci_kind. simpl ci_uid. simpl ci_caps. intros H. rewrite cci_eq, H. reflexivity. Qed.

Lemma cci_unreal x c : realk (ci_kind c) = false -> cci x c = 0.
Proof. destruct c as [u i kd caps q]. simpl ci_kind. intros H. rewrite cci_eq, H. reflexivity. Qed.

(* non-negativity, by the same recursion *)
Fixpoint cv_nn (x : res) (v : hval) {struct v} : 0 <= cv x v
with cret_nn (x : res) (r : ret) {struct r} : 0 <= cret x r
with crk_nn (x : res) (rid : N) (k : rkind) {struct k} : 0 <= crk x rid k
with cci_nn (x : res) (c : citem) {struct c} : 0 <= cci x c.
Proof.
  - destruct v; simpl; try lia. pose proof (cret_nn x r). pose proof (badif_nn x (ukind r)). lia.
  - destruct r as [rid k]. simpl. apply crk_nn.
  - destruct k as [caps b|a ci|a ci|a inner|p key inner].
    + simpl. pose proof (ind_range x (RRet rid)).
      assert (0 <= (fix go (l : list (N * hval)) : Z := match l with [] => 0 | p :: l' => match p with (_, v) => cv x v + go l' end end) caps).
      { induction caps as [|[h v] l IH]; [lia|]. pose proof (cv_nn x v). lia. }
      lia.
    + simpl. pose proof (ind_range x (RRet rid)). pose proof (ind_range x (REmb rid (ci_uid ci) false)). pose proof (cci_nn x ci). pose proof (badif_nn x (realk (ci_kind ci))). lia.
    + simpl. pose proof (ind_range x (RRet rid)). pose proof (ind_range x (REmb rid (ci_uid ci) true)). pose proof (cci_nn x ci). pose proof (badif_nn x (realk (ci_kind ci))). lia.
    + simpl. pose proof (ind_range x (RNot a)). destruct inner as [[p ci]|]; [|lia].
      pose proof (cci_nn x ci). pose proof (badif_nn x (realk (ci_kind ci))). lia.
    + simpl. apply cret_nn.
  - destruct c as [u i kd caps q]. simpl. destruct (realk kd); [|lia].
    pose proof (ind_range x (RClo u)).
    assert (0 <= (fix go (l : list (N * hval)) : Z := match l with [] => 0 | p :: l' => match p with (_, v) => cv x v + go l' end end) caps).
    { induction caps as [|[h v] l IH]; [lia|]. pose proof (cv_nn x v). lia. }
    lia.
Qed.

Lemma cenv_nn x l : 0 <= cenv x l.
Proof. induction l as [|p l IH]; simpl; [lia|]. pose proof (cv_nn x (snd p)). lia. Qed.

Lemma cv_eq x v : cv x v = match v with HRet r => badif x (ukind r) + cret x r | _ => 0 end.
Proof. destruct v; reflexivity. Qed.
Lemma cret_eq x rid k : cret x (Ret rid k) = crk x rid k.
Proof. reflexivity. Qed.
Lemma crk_to x rid a ci : crk x rid (RKTo a ci) = ind x (RRet rid) + ind x (REmb rid (ci_uid ci) false) + badif x (realk (ci_kind ci)) + cci x ci.
Proof. reflexivity. Qed.
Lemma crk_someto x rid a ci : crk x rid (RKSomeTo a ci) = ind x (RRet rid) + ind x (REmb rid (ci_uid ci) true) + badif x (realk (ci_kind ci)) + cci x ci.
Proof. reflexivity. Qed.
Lemma crk_notify x rid a inner : crk x rid (RKNotify a inner) =
  ind x (RNot a) + match inner with Some (_, ci) => badif x (realk (ci_kind ci)) + cci x ci | None => 0 end.
Proof. reflexivity. Qed.
Lemma crk_slab x rid p key inner : crk x rid (RKSlab p key inner) = cret x inner.
Proof. reflexivity. Qed.

Global Opaque cv cret crk cci.

(* ------------------------------------------------------------------ *)
(** * Census of the state *)

Definition copt (x : res) (o : option hval) : Z := match o with Some v => cv x v | None => 0 end.

Fixpoint cq (x : res) (l : list citem) : Z :=
  match l with [] => 0 | c :: r => cci x c + cq x r end.

Fixpoint ctim (x : res) (l : list titem) : Z :=
  match l with [] => 0 | t :: r => cci x (ti_ci t) + ctim x r end.

Fixpoint cfrs (x : res) (l : list frame) : Z :=
  match l with [] => 0 | f :: r => cenv x (f_loc f) + cfrs x r end.

Definition cstate (x : res) (a : N) (sa : astate) : Z :=
  match sa with
  | SPrep held => cq x held
  | SReady sh _ _ => ind x (RVal a) + cenv x sh
  | SZombie => 0
  end.

Definition cnotopt (x : res) (o : option ret) : Z :=
  match o with Some nt => badif x (nkind nt) + cret x nt | None => 0 end.

Definition cactor (x : res) (a : N) (y : actor) : Z := cstate x a (a_state y) + cnotopt x (a_notify y).

Fixpoint cacts (x : res) (l : list (N * actor)) : Z :=
  match l with [] => 0 | p :: r => cactor x (fst p) (snd p) + cacts x r end.

(* uids below the next-uid counter *)
Definition cnu (x : res) (n : N) : Z :=
  match x with RFr u => if N.ltb u n then 1 else 0 | _ => 0 end.

Definition cst (x : res) (s : st) : Z :=
  cq x (mainq s) + cq x (lazyq s) + cq x (idleq s) + ctim x (timers s) + cacts x (actors s) +
  cenv x (env s) + cfrs x (frames s) + cnu x (nuid s).

(* the message a Ret is invoked with must fit its kind *)
Definition cmsg (x : res) (r : ret) (m : option msg) : Z :=
  match m with
  | Some (MCause _) => badif x (nkind r)
  | Some (MNum _) => badif x (ukind r)
  | None => 0
  end.

Definition cmop (x : res) (m : mop) : Z :=
  match m with
  | MRunItem c | MDropItem c => cci x c
  | MDropInner c => badif x (realk (ci_kind c)) + cci x c
  | MDropVal v => cv x v
  | MRetInvoke r m0 => cmsg x r m0 + cret x r
  | MValDrop a => ind x (RVal a)
  | _ => 0
  end.

Fixpoint cmops (x : res) (l : list mop) : Z :=
  match l with [] => 0 | m :: r => cmop x m + cmops x r end.

(* token events *)
Definition cre1 (x : res) (e : ev) : Z :=
  match e with
  | EClo u _ => ind x (RClo u) + ind x (RFr u)
  | EReady a => ind x (RVal a)
  | ERetNew r => ind x (RRet r)
  | ERetTo r u b => ind x (REmb r u b)
  | EActor a => ind x (RNot a)
  | _ => 0
  end.

Definition con1 (x : res) (e : ev) : Z :=
  match e with
  | ERun u _ _ | EMeth _ u _ | EPrep _ u _ | EDrop u _ _ => ind x (RClo u)
  | EValDrop a => ind x (RVal a)
  | ERet r _ => ind x (RRet r)
  | ENotify a _ => ind x (RNot a)
  | _ => 0
  end.

Fixpoint creT (x : res) (t : list ev) : Z := match t with [] => 0 | e :: r => cre1 x e + creT x r end.
Fixpoint conT (x : res) (t : list ev) : Z := match t with [] => 0 | e :: r => con1 x e + conT x r end.

(* census of the state plus consumed minus created *)
Definition W (x : res) (s : st) : Z := cst x s + conT x (tr s) - creT x (tr s).

(* ------------------------------------------------------------------ *)
(** * Lists *)

Lemma cq_app x a b : cq x (a ++ b) = cq x a + cq x b.
Proof. induction a; simpl; lia. Qed.
Lemma cenv_app x a b : cenv x (a ++ b) = cenv x a + cenv x b.
Proof. induction a; simpl; lia. Qed.
Lemma ctim_app x a b : ctim x (a ++ b) = ctim x a + ctim x b.
Proof. induction a; simpl; lia. Qed.
Lemma cmops_app x a b : cmops x (a ++ b) = cmops x a + cmops x b.
Proof. induction a; simpl; lia. Qed.
Lemma cq_nn x l : 0 <= cq x l.
Proof. induction l as [|c l IH]; simpl; [lia|]. pose proof (cci_nn x c). lia. Qed.
Lemma ctim_nn x l : 0 <= ctim x l.
Proof. induction l as [|c l IH]; simpl; [lia|]. pose proof (cci_nn x (ti_ci c)). lia. Qed.
Lemma cfrs_nn x l : 0 <= cfrs x l.
Proof. induction l as [|c l IH]; simpl; [lia|]. pose proof (cenv_nn x (f_loc c)). lia. Qed.
Lemma cstate_nn x a sa : 0 <= cstate x a sa.
Proof. destruct sa; simpl; [apply cq_nn | | lia]. pose proof (ind_range x (RVal a)). pose proof (cenv_nn x sh). lia. Qed.
Lemma cnotopt_nn x o : 0 <= cnotopt x o.
Proof. destruct o as [nt|]; simpl; [|lia]. pose proof (badif_nn x (nkind nt)). pose proof (cret_nn x nt). lia. Qed.
Lemma cactor_nn x a y : 0 <= cactor x a y.
Proof. unfold cactor. pose proof (cstate_nn x a (a_state y)). pose proof (cnotopt_nn x (a_notify y)). lia. Qed.
Lemma cacts_nn x l : 0 <= cacts x l.
Proof. induction l as [|p l IH]; simpl; [lia|]. pose proof (cactor_nn x (fst p) (snd p)). lia. Qed.
Lemma cnu_nn x n : 0 <= cnu x n.
Proof. destruct x; simpl; try lia. destruct (N.ltb u n); lia. Qed.
Lemma cst_nn x s : 0 <= cst x s.
Proof.
  unfold cst. pose proof (cq_nn x (mainq s)). pose proof (cq_nn x (lazyq s)). pose proof (cq_nn x (idleq s)).
  pose proof (ctim_nn x (timers s)). pose proof (cacts_nn x (actors s)). pose proof (cenv_nn x (env s)).
  pose proof (cfrs_nn x (frames s)). pose proof (cnu_nn x (nuid s)). lia.
Qed.
Lemma cmsg_nn x r m : 0 <= cmsg x r m.
Proof. destruct m as [[v|c]|]; simpl; try lia; apply badif_nn. Qed.
Lemma cmop_nn x m : 0 <= cmop x m.
Proof.
  destruct m; simpl; try lia; try apply cci_nn; try apply cv_nn; try apply ind_range.
  - pose proof (cci_nn x c). pose proof (badif_nn x (realk (ci_kind c))). lia.
  - pose proof (cmsg_nn x r m). pose proof (cret_nn x r). lia.
Qed.
Lemma cmops_nn x l : 0 <= cmops x l.
Proof. induction l as [|m l IH]; simpl; [lia|]. pose proof (cmop_nn x m). lia. Qed.

Lemma cmops_drops x l : cmops x (drops l) = cenv x l.
Proof. unfold drops. induction l as [|p l IH]; simpl; lia. Qed.
Lemma cmops_slab_drops x l : cmops x (slab_drops l) = 0.
Proof. induction l as [|[c|n] l IH]; simpl; lia. Qed.
Lemma cmops_runitems x l : cmops x (map MRunItem l) = cq x l.
Proof. induction l; simpl; lia. Qed.
Lemma cmops_dropitems x l : cmops x (map MDropItem l) = cq x l.
Proof. induction l; simpl; lia. Qed.
Lemma cq_map_ti x l : cq x (map ti_ci l) = ctim x l.
Proof. induction l; simpl; lia. Qed.

(* association lists *)
Lemma cenv_aget x l h v : aget l h = Some v -> cenv x (adel l h) + cv x v = cenv x l.
Proof.
  induction l as [|[j w] l IH]; simpl; [discriminate|]. destruct (N.eqb h j).
  - intros E; inversion E; subst. lia.
  - intros E. specialize (IH E). simpl. lia.
Qed.

Lemma cenv_aset_some x l h v w : aget l h = Some w -> cenv x (aset l h v) + cv x w = cenv x l + cv x v.
Proof.
  induction l as [|[j u] l IH]; simpl; [discriminate|]. destruct (N.eqb h j).
  - intros E; inversion E; subst. simpl. lia.
  - intros E. specialize (IH E). simpl. lia.
Qed.

Lemma cenv_aset_none x l h v : aget l h = None -> cenv x (aset l h v) = cenv x l + cv x v.
Proof.
  induction l as [|[j u] l IH]; simpl; [intros _; lia|]. destruct (N.eqb h j); [discriminate|].
  intros E. specialize (IH E). simpl. lia.
Qed.

Lemma cacts_aset_some x l a y z : aget l a = Some z -> cacts x (aset l a y) + cactor x a z = cacts x l + cactor x a y.
Proof.
  induction l as [|[j u] l IH]; simpl; [discriminate|]. destruct (N.eqb a j) eqn:E.
  - apply N.eqb_eq in E. subst j. intros F; inversion F; subst. simpl. lia.
  - intros F. specialize (IH F). simpl. lia.
Qed.

Lemma cacts_aset_none x l a y : aget l a = None -> cacts x (aset l a y) = cacts x l + cactor x a y.
Proof.
  induction l as [|[j u] l IH]; simpl; [intros _; lia|]. destruct (N.eqb a j); [discriminate|].
  intros F. specialize (IH F). simpl. lia.
Qed.

Lemma cacts_aget_le x l a z : aget l a = Some z -> cactor x a z <= cacts x l.
Proof.
  induction l as [|[j u] l IH]; simpl; [discriminate|]. destruct (N.eqb a j) eqn:E.
  - apply N.eqb_eq in E. subst j. intros F; inversion F; subst. pose proof (cacts_nn x l). lia.
  - intros F. specialize (IH F). pose proof (cactor_nn x j u). lia.
Qed.

Lemma amin_aget {X} (l : list (N * X)) h v : amin l = Some (h, v) -> aget l h = Some v.
Proof.
  revert h v. induction l as [|[j u] l IH]; simpl; [discriminate|]. intros h v.
  destruct (amin l) as [[j' x']|] eqn:A.
  - destruct (N.ltb j' j) eqn:L; intros E; inversion E; subst.
    + apply N.ltb_lt in L. destruct (N.eqb h j) eqn:Q; [apply N.eqb_eq in Q; lia|]. apply IH. reflexivity.
    + rewrite N.eqb_refl. reflexivity.
  - intros E; inversion E; subst. rewrite N.eqb_refl. reflexivity.
Qed.

(* timers *)
Lemma ctim_insert x y l : ctim x (ti_insert y l) = cci x (ti_ci y) + ctim x l.
Proof. induction l as [|z l IH]; simpl; [lia|]. destruct (ti_le y z); simpl; lia. Qed.
Lemma ctim_sort x l : ctim x (ti_sort l) = ctim x l.
Proof. unfold ti_sort. induction l as [|z l IH]; simpl; [lia|]. rewrite ctim_insert. lia. Qed.
Lemma ctim_filter x f l : ctim x (filter f l) + ctim x (filter (fun y => negb (f y)) l) = ctim x l.
Proof. induction l as [|z l IH]; simpl; [lia|]. destruct (f z); simpl; lia. Qed.
Lemma ctim_remove x l i t : ti_find l i = Some t -> ctim x (ti_remove l i) + cci x (ti_ci t) = ctim x l.
Proof.
  induction l as [|z l IH]; simpl; [discriminate|]. destruct (N.eqb (ti_tid z) i).
  - intros E; inversion E; subst. lia.
  - intros E. specialize (IH E). simpl. lia.
Qed.
Lemma ctim_update x l i t f : ti_find l i = Some t -> ti_ci (f t) = ti_ci t -> ctim x (ti_update l i f) = ctim x l.
Proof.
  induction l as [|z l IH]; simpl; [discriminate|]. destruct (N.eqb (ti_tid z) i).
  - intros E F; inversion E; subst. simpl. rewrite F. lia.
  - intros E F. specialize (IH E F). simpl. lia.
Qed.

Lemma cci_setq x c q : cci x (ci_setq c q) = cci x c.
Proof. destruct c as [u i kd caps q0]. unfold ci_setq. rewrite !cci_eq. reflexivity. Qed.
Lemma cci_unq x c : cci x (ci_unq c) = cci x c.
Proof. destruct c as [u i kd caps q0]. unfold ci_unq. rewrite !cci_eq. reflexivity. Qed.

(* ------------------------------------------------------------------ *)
(** * Census of the state operations *)

Ltac stsimp :=
  cbn [dk alive now start mainq lazyq idleq timers tnext tvars recreate actors fwds env frames nuid logseq
       logfilter haslogger shut tr
       set_alive set_now set_start set_mainq set_lazyq set_idleq set_timers set_tnext set_tvars set_recreate
       set_actors set_fwds set_env set_frames set_nuid set_logseq set_logfilter set_haslogger set_shut set_tr
       emit push_frame push_main upd_actor f_loc f_ctx f_die] in *.

Lemma W_emit x s e : W x (emit s e) = W x s + con1 x e - cre1 x e.
Proof. unfold W, cst. stsimp. simpl creT. simpl conT. lia. Qed.

Lemma W_same x s s' :
  mainq s' = mainq s -> lazyq s' = lazyq s -> idleq s' = idleq s -> timers s' = timers s -> actors s' = actors s ->
  env s' = env s -> frames s' = frames s -> tr s' = tr s -> nuid s' = nuid s -> W x s' = W x s.
Proof. intros A B C D E F G H I. unfold W, cst. rewrite A, B, C, D, E, F, G, H, I. reflexivity. Qed.

Lemma W_set_alive x s v : W x (set_alive s v) = W x s. Proof. reflexivity. Qed.
Lemma W_set_now x s v : W x (set_now s v) = W x s. Proof. reflexivity. Qed.
Lemma W_set_start x s v : W x (set_start s v) = W x s. Proof. reflexivity. Qed.
Lemma W_set_tnext x s v : W x (set_tnext s v) = W x s. Proof. reflexivity. Qed.
Lemma W_set_tvars x s v : W x (set_tvars s v) = W x s. Proof. reflexivity. Qed.
Lemma W_set_recreate x s v : W x (set_recreate s v) = W x s. Proof. reflexivity. Qed.
Lemma W_set_fwds x s v : W x (set_fwds s v) = W x s. Proof. reflexivity. Qed.
Lemma W_set_logseq x s v : W x (set_logseq s v) = W x s. Proof. reflexivity. Qed.
Lemma W_set_logfilter x s v : W x (set_logfilter s v) = W x s. Proof. reflexivity. Qed.
Lemma W_set_haslogger x s v : W x (set_haslogger s v) = W x s. Proof. reflexivity. Qed.
Lemma W_set_shut x s v : W x (set_shut s v) = W x s. Proof. reflexivity. Qed.

Lemma W_set_nuid x s v : W x (set_nuid s v) = W x s - cnu x (nuid s) + cnu x v.
Proof. unfold W, cst. stsimp. lia. Qed.
Lemma cnu_succ x n : cnu x (n + 1) = cnu x n + ind x (RFr n).
Proof.
  destruct x; simpl; try (rewrite ind_neq by discriminate; lia).
  destruct (N.eq_dec u n) as [->|NE].
  - rewrite ind_refl. replace (N.ltb n n) with false by (symmetry; apply N.ltb_ge; lia).
    replace (N.ltb n (n + 1)) with true by (symmetry; apply N.ltb_lt; lia). lia.
  - rewrite ind_neq by congruence.
    destruct (N.ltb u n) eqn:L.
    + apply N.ltb_lt in L. replace (N.ltb u (n + 1)) with true by (symmetry; apply N.ltb_lt; lia). lia.
    + apply N.ltb_ge in L. replace (N.ltb u (n + 1)) with false by (symmetry; apply N.ltb_ge; lia). lia.
Qed.
Lemma W_set_mainq x s v : W x (set_mainq s v) = W x s - cq x (mainq s) + cq x v.
Proof. unfold W, cst. stsimp. lia. Qed.
Lemma W_set_lazyq x s v : W x (set_lazyq s v) = W x s - cq x (lazyq s) + cq x v.
Proof. unfold W, cst. stsimp. lia. Qed.
Lemma W_set_idleq x s v : W x (set_idleq s v) = W x s - cq x (idleq s) + cq x v.
Proof. unfold W, cst. stsimp. lia. Qed.
Lemma W_set_timers x s v : W x (set_timers s v) = W x s - ctim x (timers s) + ctim x v.
Proof. unfold W, cst. stsimp. lia. Qed.
Lemma W_set_actors x s v : W x (set_actors s v) = W x s - cacts x (actors s) + cacts x v.
Proof. unfold W, cst. stsimp. lia. Qed.
Lemma W_set_env x s v : W x (set_env s v) = W x s - cenv x (env s) + cenv x v.
Proof. unfold W, cst. stsimp. lia. Qed.
Lemma W_set_frames x s v : W x (set_frames s v) = W x s - cfrs x (frames s) + cfrs x v.
Proof. unfold W, cst. stsimp. lia. Qed.

Lemma W_push_frame x s c loc : W x (push_frame s c loc) = W x s + cenv x loc.
Proof. unfold push_frame. rewrite W_set_frames. simpl. lia. Qed.

Lemma W_push_main x s ci : W x (push_main s ci) = W x s + cci x ci.
Proof. unfold push_main. rewrite W_set_mainq, cq_app. simpl. lia. Qed.

Lemma W_submit x s q ci : q <> QTimer -> W x (submit s q ci) = W x s + cci x ci.
Proof.
  intros NQ. unfold submit. destruct q; try congruence.
  - rewrite W_push_main, W_emit, cci_setq. simpl. lia.
  - rewrite W_set_lazyq, cq_app, W_emit. stsimp. simpl. rewrite cci_setq. lia.
  - rewrite W_set_idleq, cq_app, W_emit. stsimp. simpl. rewrite cci_setq. lia.
Qed.

Lemma W_timer_add x s k v t ci : W x (timer_add s k v t ci) = W x s + cci x ci.
Proof.
  unfold timer_add. rewrite W_set_tvars, W_set_tnext, W_set_timers, ctim_app, !W_emit. stsimp. simpl.
  rewrite cci_setq. lia.
Qed.

Lemma W_upd_some x s a y z : aget (actors s) a = Some z -> W x (upd_actor s a y) = W x s - cactor x a z + cactor x a y.
Proof. intros H. unfold upd_actor. rewrite W_set_actors. pose proof (cacts_aset_some x _ _ y _ H). lia. Qed.

Lemma W_upd_none x s a y : aget (actors s) a = None -> W x (upd_actor s a y) = W x s + cactor x a y.
Proof. intros H. unfold upd_actor. rewrite W_set_actors. pose proof (cacts_aset_none x _ _ y H). lia. Qed.

Lemma cactor_with_rc x a y v : cactor x a (with_rc y v) = cactor x a y. Proof. reflexivity. Qed.
Lemma cactor_with_strong x a y v : cactor x a (with_strong y v) = cactor x a y. Proof. reflexivity. Qed.
Lemma cactor_with_state x a y st' : cactor x a (with_state y st') = cstate x a st' + cnotopt x (a_notify y). Proof. reflexivity. Qed.

Lemma W_ref_clone x s a : W x (ref_clone s a) = W x s.
Proof.
  unfold ref_clone. destruct (aget (actors s) a) as [y|] eqn:E.
  - destruct (a_freed y).
    + rewrite (W_upd_some x _ a _ y) by (stsimp; exact E). rewrite W_emit, cactor_with_rc. simpl. lia.
    + rewrite (W_upd_some x _ a _ y) by exact E. rewrite cactor_with_rc. lia.
  - rewrite W_emit. simpl. lia.
Qed.

Lemma W_log_rec x s a b c d : W x (log_rec s a b c d) = W x s.
Proof. unfold log_rec. destruct (allows s b && haslogger s); reflexivity. Qed.

Lemma W_target_ev x s ci : W x (target_ev s ci) = W x s.
Proof. unfold target_ev. destruct ci as [u i kd caps q]. destruct kd; auto; rewrite W_emit; simpl; lia. Qed.

(* scopes *)
Lemma take_W x s h o s' : take s h = (o, s') -> W x s' + copt x o = W x s.
Proof.
  unfold take. destruct (frames s) as [|fr rest] eqn:F.
  - destruct (aget (env s) h) as [v|] eqn:E; intros Q; inversion Q; subst; simpl; [|lia].
    rewrite W_set_env. pose proof (cenv_aget x _ _ _ E). lia.
  - destruct (aget (f_loc fr) h) as [v|] eqn:L.
    + intros Q; inversion Q; subst. simpl. rewrite W_set_frames, F. simpl.
      pose proof (cenv_aget x _ _ _ L). lia.
    + destruct (aget (env s) h) as [v|] eqn:E; intros Q; inversion Q; subst; simpl; [|lia].
      rewrite W_set_env. pose proof (cenv_aget x _ _ _ E). lia.
Qed.

Lemma take_lookup s h : fst (take s h) = lookup s h.
Proof.
  unfold take, lookup. destruct (frames s) as [|fr rest].
  - destruct (aget (env s) h); reflexivity.
  - destruct (aget (f_loc fr) h); [reflexivity|]. destruct (aget (env s) h); reflexivity.
Qed.

Lemma take_caps_W x ids : forall s l s', take_caps ids s = (l, s') -> W x s' + cenv x l = W x s.
Proof.
  induction ids as [|h r IH]; simpl; intros s l s' E.
  - inversion E; subst. simpl. lia.
  - destruct (take s h) as [[v|] s1] eqn:T.
    + destruct (take_caps r s1) as [l2 s2] eqn:T2. inversion E; subst.
      pose proof (IH _ _ _ T2). pose proof (take_W x _ _ _ _ T). simpl in *. lia.
    + pose proof (IH _ _ _ E). pose proof (take_W x _ _ _ _ T). simpl in *. lia.
Qed.

Lemma take_env_caps_W x ids : forall s l s', take_env_caps ids s = (l, s') -> W x s' + cenv x l = W x s.
Proof.
  induction ids as [|h r IH]; simpl; intros s l s' E.
  - inversion E; subst. simpl. lia.
  - destruct (aget (env s) h) as [v|] eqn:A.
    + destruct (take_env_caps r (set_env s (adel (env s) h))) as [l2 s2] eqn:T2. inversion E; subst.
      pose proof (IH _ _ _ T2) as G. rewrite W_set_env in G. pose proof (cenv_aget x _ _ _ A). simpl. lia.
    + eapply IH; eauto.
Qed.

Lemma bind_W x s h v l s' : bind s h v = (l, s') -> cmops x l + W x s' = W x s + cv x v.
Proof.
  unfold bind. destruct (aget (env s) h) as [old|] eqn:E; intros Q; inversion Q; subst; simpl; rewrite W_set_env.
  - pose proof (cenv_aset_some x _ _ v _ E). lia.
  - pose proof (cenv_aset_none x _ _ v E). lia.
Qed.

Lemma bad_W x s c l s' : bad s c = (l, s') -> cmops x l + W x s' = W x s.
Proof. unfold bad. intros Q; inversion Q; subst. rewrite W_emit. simpl. lia. Qed.

(* closure instances *)
Lemma inst_W x c mk s ci s' : inst c mk s = (ci, s') -> realk (mk (clo_body c)) = true -> cci x ci + W x s' = W x s.
Proof.
  unfold inst. destruct (take_caps (clo_caps c) s) as [caps s1] eqn:T. intros Q R; inversion Q; subst.
  rewrite cci_eq, R, W_emit, W_set_nuid. pose proof (take_caps_W x _ _ _ _ T).
  assert (NU : nuid s1 = nuid s).
  { clear - T. revert s caps s1 T. induction (clo_caps c) as [|h r IH]; simpl; intros s caps s1 T.
    - inversion T; reflexivity.
    - assert (TK : forall o s2, take s h = (o, s2) -> nuid s2 = nuid s).
      { intros o s2. unfold take. repeat dest_match; intros Q; inversion Q; reflexivity. }
      destruct (take s h) as [[v|] s2] eqn:TT.
      + destruct (take_caps r s2) as [l2 s3] eqn:T2. inversion T; subst. rewrite (IH _ _ _ T2). eapply TK; eauto.
      + rewrite (IH _ _ _ T). eapply TK; eauto. }
  stsimp. rewrite NU, cnu_succ. simpl. lia.
Qed.

Lemma inst_call_W x c mk s ci s' : inst_call c mk s = (ci, s') -> realk (mk (clo_body c)) = true -> cci x ci + W x s' = W x s.
Proof.
  unfold inst_call. destruct (inst c mk s) as [ci1 s1] eqn:I. intros Q R; inversion Q; subst.
  rewrite W_target_ev. eapply inst_W; eauto.
Qed.

Lemma inst_nocaps_W x c mk s ci s' : inst_nocaps c mk s = (ci, s') -> realk (mk (clo_body c)) = true -> cci x ci + W x s' = W x s.
Proof.
  unfold inst_nocaps. intros Q R; inversion Q; subst. rewrite cci_eq, R, W_emit, W_set_nuid, cnu_succ. simpl. lia.
Qed.

Lemma inst_env_W x c mk s ci s' : inst_env c mk s = (ci, s') -> realk (mk (clo_body c)) = true -> cci x ci + W x s' = W x s.
Proof.
  unfold inst_env. destruct (take_env_caps (clo_caps c) s) as [caps s1] eqn:T. intros Q R; inversion Q; subst.
  rewrite cci_eq, R, W_emit, W_set_nuid, cnu_succ. pose proof (take_env_caps_W x _ _ _ _ T). simpl. lia.
Qed.

Lemma inst_kind c mk s ci s' : inst c mk s = (ci, s') -> ci_kind ci = mk (clo_body c).
Proof. unfold inst. destruct (take_caps (clo_caps c) s). intros Q; inversion Q; reflexivity. Qed.
Lemma inst_call_kind c mk s ci s' : inst_call c mk s = (ci, s') -> ci_kind ci = mk (clo_body c).
Proof. unfold inst_call. destruct (inst c mk s) as [ci1 s1] eqn:I. intros Q; inversion Q; subst. eapply inst_kind; eauto. Qed.
Lemma inst_nocaps_kind c mk s ci s' : inst_nocaps c mk s = (ci, s') -> ci_kind ci = mk (clo_body c).
Proof. unfold inst_nocaps. intros Q; inversion Q; reflexivity. Qed.

Lemma W_tok_script x script : forall s, W x (tok_script s script) = W x s.
Proof.
  unfold tok_script. induction script as [|c r IH]; intros s; [reflexivity|]. cbn [fold_left].
  destruct (inst_env c KPlain s) as [ci s1] eqn:I. rewrite IH, W_submit by discriminate.
  pose proof (inst_env_W x _ _ _ _ _ I eq_refl). lia.
Qed.

Lemma state_drops_c x a sa s l s' : state_drops a sa s = (l, s') -> s' = s /\ cmops x l = cstate x a sa.
Proof.
  unfold state_drops. destruct sa; intros Q; inversion Q; subst; split; auto; simpl.
  - apply cmops_dropitems.
  - rewrite cmops_app, cmops_drops, cmops_slab_drops. lia.
Qed.

(* actors *)
Lemma take_actors s h o s' : take s h = (o, s') -> actors s' = actors s.
Proof.
  unfold take. destruct (frames s) as [|fr rest].
  - destruct (aget (env s) h); intros Q; inversion Q; reflexivity.
  - destruct (aget (f_loc fr) h); [intros Q; inversion Q; reflexivity|].
    destruct (aget (env s) h); intros Q; inversion Q; reflexivity.
Qed.

Lemma take_caps_actors ids : forall s l s', take_caps ids s = (l, s') -> actors s' = actors s.
Proof.
  induction ids as [|h r IH]; simpl; intros s l s' E.
  - inversion E; reflexivity.
  - destruct (take s h) as [[v|] s1] eqn:T.
    + destruct (take_caps r s1) as [l2 s2] eqn:T2. inversion E; subst.
      rewrite (IH _ _ _ T2). eapply take_actors; eauto.
    + rewrite (IH _ _ _ E). eapply take_actors; eauto.
Qed.

Lemma inst_actors c mk s ci s' : inst c mk s = (ci, s') -> actors s' = actors s.
Proof.
  unfold inst. destruct (take_caps (clo_caps c) s) as [caps s1] eqn:T. intros Q; inversion Q; subst.
  stsimp. eapply take_caps_actors; eauto.
Qed.

Lemma target_ev_actors s ci : actors (target_ev s ci) = actors s.
Proof. unfold target_ev. destruct ci as [u i kd caps q]. destruct kd; reflexivity. Qed.

Lemma inst_call_actors c mk s ci s' : inst_call c mk s = (ci, s') -> actors s' = actors s.
Proof.
  unfold inst_call. destruct (inst c mk s) as [ci1 s1] eqn:I. intros Q; inversion Q; subst.
  rewrite target_ev_actors. eapply inst_actors; eauto.
Qed.

Lemma aget_aset_eq {X} (l : list (N * X)) i x : aget (aset l i x) i = Some x.
Proof. induction l as [|[j y] r IH]; simpl; [rewrite N.eqb_refl; auto|]. destruct (N.eqb i j) eqn:E; simpl; rewrite ?N.eqb_refl, ?E; auto. Qed.
Lemma aget_aset_neq {X} (l : list (N * X)) i j x : i <> j -> aget (aset l i x) j = aget l j.
Proof.
  intros NE. induction l as [|[k y] r IH]; simpl.
  - destruct (N.eqb j i) eqn:E; auto. apply N.eqb_eq in E. congruence.
  - destruct (N.eqb i k) eqn:E; simpl.
    + apply N.eqb_eq in E. subst k. destruct (N.eqb j i) eqn:F; auto. apply N.eqb_eq in F. congruence.
    + destruct (N.eqb j k); auto.
Qed.

Lemma ref_clone_none s p a : aget (actors s) a = None -> aget (actors (ref_clone s p)) a = None.
Proof.
  intros H. unfold ref_clone. destruct (aget (actors s) p) as [y|] eqn:E; [|exact H].
  assert (NE : p <> a) by (intros ->; congruence).
  destruct (a_freed y); stsimp; rewrite aget_aset_neq; auto.
Qed.

Lemma ref_clone_some s p a y : aget (actors s) a = Some y ->
  exists y', aget (actors (ref_clone s p)) a = Some y' /\ a_state y' = a_state y /\ a_notify y' = a_notify y /\ a_logid y' = a_logid y.
Proof.
  intros H. unfold ref_clone. destruct (aget (actors s) p) as [z|] eqn:E; [|exists y; auto].
  destruct (N.eq_dec p a) as [->|NE].
  - rewrite H in E. inversion E; subst z. destruct (a_freed y); stsimp; rewrite aget_aset_eq; eexists; split; eauto.
  - destruct (a_freed z); stsimp; rewrite aget_aset_neq; auto; exists y; auto.
Qed.

Lemma log_rec_actors s a b c d : actors (log_rec s a b c d) = actors s.
Proof. unfold log_rec. destruct (allows s b && haslogger s); reflexivity. Qed.

Lemma W_new_actor x s a nt parent vis :
  aget (actors s) a = None ->
  W x (new_actor s a nt parent vis) = W x s + cnotopt x (Some nt) - ind x (RNot a).
Proof.
  intros H. unfold new_actor.
  set (id := oz (log_id_next (logseq s))).
  set (s2 := log_rec (set_logseq s id) id LOGLEVEL_OPEN parent 0).
  assert (A2 : aget (actors s2) a = None) by (unfold s2; rewrite log_rec_actors; exact H).
  assert (W2 : W x s2 = W x s) by (unfold s2; rewrite W_log_rec; reflexivity).
  set (y := mkActor (SPrep []) (oz (count_inc (oz count_new))) MINRC_INIT (Some nt) id false).
  assert (E : W x (emit (upd_actor s2 a y) (EActor a)) = W x s + cnotopt x (Some nt) - ind x (RNot a)).
  { rewrite W_emit, (W_upd_none x s2 a y A2), W2. unfold cactor. simpl. lia. }
  destruct vis; [rewrite W_emit, E; simpl; lia | exact E].
Qed.

Lemma mk_notifier_W x s a n nt s' :
  mk_notifier s a n = (nt, s') -> cret x nt + W x s' = W x s + ind x (RNot a) /\ nkind nt = true.
Proof.
  unfold mk_notifier. destruct n as [[hp c]|].
  - destruct (lookup s hp) as [v|].
    + destruct (handle_actor v) as [p|].
      * destruct (inst_call c (fun b => KMeth p b None) (ref_clone s p)) as [ci s2] eqn:I.
        intros Q; inversion Q; subst. split; [|reflexivity].
        rewrite cret_eq, crk_notify. rewrite (inst_call_kind _ _ _ _ _ I). simpl.
        pose proof (inst_call_W x _ _ _ _ _ I eq_refl) as G. rewrite W_ref_clone in G. lia.
      * intros Q; inversion Q; subst. split; [|reflexivity]. rewrite cret_eq, crk_notify, W_emit. simpl. lia.
    + intros Q; inversion Q; subst. split; [|reflexivity]. rewrite cret_eq, crk_notify, W_emit. simpl. lia.
  - intros Q; inversion Q; subst. split; [|reflexivity]. rewrite cret_eq, crk_notify. lia.
Qed.

Lemma mk_notifier_none s a n nt s' b :
  mk_notifier s a n = (nt, s') -> aget (actors s) b = None -> aget (actors s') b = None.
Proof.
  unfold mk_notifier. destruct n as [[hp c]|].
  - destruct (lookup s hp) as [v|].
    + destruct (handle_actor v) as [p|].
      * destruct (inst_call c (fun b => KMeth p b None) (ref_clone s p)) as [ci s2] eqn:I.
        intros Q H; inversion Q; subst. rewrite (inst_call_actors _ _ _ _ _ I). apply ref_clone_none; auto.
      * intros Q H; inversion Q; subst. exact H.
    + intros Q H; inversion Q; subst. exact H.
  - intros Q H; inversion Q; subst. exact H.
Qed.

Lemma mk_notifier_some s a n nt s' b y :
  mk_notifier s a n = (nt, s') -> aget (actors s) b = Some y ->
  exists y', aget (actors s') b = Some y' /\ a_state y' = a_state y /\ a_notify y' = a_notify y /\ a_logid y' = a_logid y.
Proof.
  unfold mk_notifier. destruct n as [[hp c]|].
  - destruct (lookup s hp) as [v|].
    + destruct (handle_actor v) as [p|].
      * destruct (inst_call c (fun b => KMeth p b None) (ref_clone s p)) as [ci s2] eqn:I.
        intros Q H; inversion Q; subst. rewrite (inst_call_actors _ _ _ _ _ I). apply ref_clone_some; auto.
      * intros Q H; inversion Q; subst. exists y; auto.
    + intros Q H; inversion Q; subst. exists y; auto.
  - intros Q H; inversion Q; subst. exists y; auto.
Qed.

Lemma new_actor_get s a nt parent vis :
  exists y, aget (actors (new_actor s a nt parent vis)) a = Some y /\ a_state y = SPrep [] /\ a_notify y = Some nt.
Proof.
  unfold new_actor. eexists. split.
  - destruct vis; stsimp; apply aget_aset_eq.
  - split; reflexivity.
Qed.

Lemma new_actor_other s a nt parent vis b : a <> b ->
  aget (actors (new_actor s a nt parent vis)) b = aget (actors s) b.
Proof.
  intros NE. unfold new_actor. destruct vis; stsimp; rewrite aget_aset_neq by auto; rewrite log_rec_actors; reflexivity.
Qed.

(* timers: a variable's pending timer *)
Lemma var_timer_find s k v t : var_timer s k v = Some t -> exists i, ti_find (timers s) i = Some t /\ ti_tid t = i.
Proof.
  unfold var_timer. destruct (vget (tvars s) k v) as [i|]; [|discriminate]. intros H. exists i. split; auto.
  revert H. induction (timers s) as [|z l IH]; simpl; [discriminate|].
  destruct (N.eqb (ti_tid z) i) eqn:E; [intros Q; inversion Q; subst; apply N.eqb_eq; auto | auto].
Qed.

Lemma W_fire x t s l s' : fire t s = (l, s') -> cq x l + W x s' = W x s.
Proof.
  unfold fire. intros Q; inversion Q; subst. rewrite cq_map_ti, ctim_sort, W_set_timers.
  pose proof (ctim_filter x (ti_due t) (timers s)).
  destruct (ambiguous _); [rewrite W_emit; stsimp; simpl|]; lia.
Qed.

(* ------------------------------------------------------------------ *)
(** * The freshness marker occurs in no value *)

Lemma badif_fr u b : badif (RFr u) b = 0.
Proof. unfold badif. destruct b; [reflexivity | apply ind_neq; discriminate]. Qed.

Section FrZero.
Transparent cv cret crk cci.
Fixpoint cv_fr (u : N) (v : hval) {struct v} : cv (RFr u) v = 0
with cret_fr (u : N) (r : ret) {struct r} : cret (RFr u) r = 0
with crk_fr (u : N) (rid : N) (k : rkind) {struct k} : crk (RFr u) rid k = 0
with cci_fr (u : N) (c : citem) {struct c} : cci (RFr u) c = 0.
Proof.
  - destruct v; simpl; try reflexivity. rewrite badif_fr, (cret_fr u r). reflexivity.
  - destruct r as [rid k]. simpl. apply crk_fr.
  - destruct k as [caps b|a ci|a ci|a inner|p key inner].
    + simpl. rewrite ind_neq by discriminate.
      assert ((fix go (l : list (N * hval)) : Z := match l with [] => 0 | p :: l' => match p with (_, v) => cv (RFr u) v + go l' end end) caps = 0).
      { induction caps as [|[h v] l IH]; [reflexivity|]. rewrite (cv_fr u v), IH. reflexivity. }
      lia.
    + simpl. rewrite !ind_neq by discriminate. rewrite badif_fr, (cci_fr u ci). reflexivity.
    + simpl. rewrite !ind_neq by discriminate. rewrite badif_fr, (cci_fr u ci). reflexivity.
    + simpl. rewrite ind_neq by discriminate. destruct inner as [[p ci]|]; [|reflexivity].
      rewrite badif_fr, (cci_fr u ci). reflexivity.
    + simpl. apply cret_fr.
  - destruct c as [u0 i kd caps q]. simpl. destruct (realk kd); [|reflexivity].
    rewrite ind_neq by discriminate.
    assert ((fix go (l : list (N * hval)) : Z := match l with [] => 0 | p :: l' => match p with (_, v) => cv (RFr u) v + go l' end end) caps = 0).
    { induction caps as [|[h v] l IH]; [reflexivity|]. rewrite (cv_fr u v), IH. reflexivity. }
    lia.
Qed.
End FrZero.

Lemma cenv_fr u l : cenv (RFr u) l = 0.
Proof. induction l as [|p l IH]; simpl; auto. rewrite cv_fr, IH. reflexivity. Qed.
Lemma cq_fr u l : cq (RFr u) l = 0.
Proof. induction l as [|p l IH]; simpl; auto. rewrite cci_fr, IH. reflexivity. Qed.
Lemma ctim_fr u l : ctim (RFr u) l = 0.
Proof. induction l as [|p l IH]; simpl; auto. rewrite cci_fr, IH. reflexivity. Qed.
Lemma cfrs_fr u l : cfrs (RFr u) l = 0.
Proof. induction l as [|p l IH]; simpl; auto. rewrite cenv_fr, IH. reflexivity. Qed.
Lemma cacts_fr u l : cacts (RFr u) l = 0.
Proof.
  induction l as [|[a y] l IH]; simpl; auto. rewrite IH. unfold cactor. simpl.
  assert (cstate (RFr u) a (a_state y) = 0).
  { destruct (a_state y); simpl; [apply cq_fr | rewrite cenv_fr, ind_neq by discriminate; reflexivity | reflexivity]. }
  assert (cnotopt (RFr u) (a_notify y) = 0).
  { destruct (a_notify y); simpl; [rewrite badif_fr, cret_fr; reflexivity | reflexivity]. }
  lia.
Qed.
Lemma cmop_fr u m : cmop (RFr u) m = 0.
Proof.
  destruct m; simpl; rewrite ?badif_fr, ?cci_fr, ?cv_fr, ?cret_fr; try reflexivity.
  all: try (destruct m as [[v|c]|]; simpl; rewrite ?badif_fr; reflexivity).
  all: apply ind_neq; discriminate.
Qed.
Lemma cmops_fr u k : cmops (RFr u) k = 0.
Proof. induction k as [|m k IH]; simpl; auto. rewrite cmop_fr, IH. reflexivity. Qed.
Lemma cst_fr u s : cst (RFr u) s = cnu (RFr u) (nuid s).
Proof. unfold cst. rewrite !cq_fr, ctim_fr, cacts_fr, cenv_fr, cfrs_fr. lia. Qed.
Lemma conT_fr u t : conT (RFr u) t = 0.
Proof. induction t as [|e t IH]; simpl; auto. rewrite IH. destruct e; simpl; try reflexivity; rewrite ind_neq by discriminate; reflexivity. Qed.
Lemma creT_fr u t : creT (RFr u) t = creT (RClo u) t.
Proof.
  induction t as [|e t IH]; simpl; auto. rewrite IH. f_equal.
  destruct e; simpl; try reflexivity; try (rewrite !ind_neq by discriminate; reflexivity).
  rewrite (ind_neq (RFr u) (RClo uid)), (ind_neq (RClo u) (RFr uid)) by discriminate.
  destruct (N.eq_dec u uid) as [->|NE]; [rewrite !ind_refl; reflexivity | rewrite !ind_neq by congruence; reflexivity].
Qed.

(* nothing is ever created or consumed for the pseudo resource of ill-kinded values *)
Lemma conT_bad t : conT RBad t = 0.
Proof. induction t as [|e t IH]; simpl; auto. rewrite IH. destruct e; simpl; try reflexivity; rewrite ?ind_neq by discriminate; reflexivity. Qed.
Lemma creT_bad t : creT RBad t = 0.
Proof. induction t as [|e t IH]; simpl; auto. rewrite IH. destruct e; simpl; try reflexivity; rewrite ?ind_neq by discriminate; reflexivity. Qed.
Lemma conT_nn x t : 0 <= conT x t.
Proof. induction t as [|e t IH]; simpl; [lia|]. assert (0 <= con1 x e) by (destruct e; simpl; try lia; apply ind_range). lia. Qed.
Lemma creT_nn x t : 0 <= creT x t.
Proof.
  induction t as [|e t IH]; simpl; [lia|].
  assert (0 <= cre1 x e).
  { destruct e; simpl; try lia; try apply ind_range. pose proof (ind_range x (RClo uid)). pose proof (ind_range x (RFr uid)). lia. }
  lia.
Qed.
