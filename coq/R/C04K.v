(** Layer R proofs: C04, slab clauses, part 3: which slab entry a wrapper notifier refers to.

    [EAI]: an actor is announced ([EActor a]) at most once, and only when its cell is created; with the census of
    Lin.v: once a is notified no notifier of a exists any more, and never two at once ([U1], [U2], [U3]).
    [WA]: the wrapper notifier [RKSlab p key inner] of a slab child c (in its cell or being invoked) has inner notifier
    [RKNotify c _], and the entry [key] of the slab of p holds c (unless p is a Zombie).
    [TI]: for a parent p that is not a Zombie at most one slab-removal item [KSlabRm p key] exists, and then the entry
    [key] holds a child whose plain notifier is being invoked or has been invoked. *)
From Coq Require Import ZArith NArith List Bool Lia.
From Stk Require Import R.LinEvs R.LinC03K R.Lin R.LinAct R.LinLaw R.LinStep R.LinNin R.LinC03L R.C06cProofs R.C02Proofs.
From Stk Require Import Lib.U Gen.SrcCount Gen.SrcCore Gen.SrcLog R.Syntax R.Rt R.Mon R.Shape R.Eff R.Tags R.Mono R.Count
  R.Nest R.C15Proofs R.C20Proofs R.Calls R.CallInv R.Own R.OwnLaw R.OwnVis R.C04Mon R.C04Base R.C04A R.C04SK R.C04B R.C04B2
  R.C04W R.C04W2.
Import ListNotations.
Local Open Scope Z_scope.

Arguments submit : simpl never.
Arguments push_main : simpl never.
Arguments timer_add : simpl never.
Arguments emit : simpl never.
Arguments upd_actor : simpl never.
Arguments ref_clone : simpl never.
Arguments new_actor : simpl never.
Arguments log_rec : simpl never.
Arguments tok_script : simpl never.
Arguments target_ev : simpl never.
Arguments push_frame : simpl never.

(* ------------------------------------------------------------------ *)
(** * Actors are announced once *)

Definition pbA (e : ev) : bool := match e with EActor _ => false | _ => true end.

Definition one_actor (s s' : st) (a : N) : Prop :=
  aget (actors s) a = None /\ (exists y, aget (actors s') a = Some y) /\
  exists s1, evs_in pbA s s1 /\ evs_in pbA (emit s1 (EActor a)) s'.

Lemma bind_actors_eq s h v l s' : bind s h v = (l, s') -> actors s' = actors s.
Proof. unfold bind. repeat dest_match; intros Q; inversion Q; reflexivity. Qed.

Lemma one_new_actor s0 s a nt parent vis : evs_in pbA s0 s ->
  exists s1, evs_in pbA s0 s1 /\ evs_in pbA (emit s1 (EActor a)) (new_actor s a nt parent vis).
Proof.
  intros H. unfold new_actor. eexists. split.
  2:{ destruct vis; [apply ei_emit; [apply ei_refl | reflexivity] | apply ei_refl]. }
  eapply ei_same; [|reflexivity]. apply ei_log_rec; [intros; reflexivity|]. eapply ei_same; [exact H | reflexivity].
Qed.

Ltac eiA := repeat ei_step.

Lemma do_act_evA act s pre s' : do_act act s = (pre, s') -> evs_in pbA s s' \/ exists a, one_actor s s' a.
Proof.
  unfold do_act. destruct act.
  all: try solve [left; revert H; repeat dest_match; intros Q; try injp Q; eiA].
  all: intros Q.
  - (* ANewActor *)
    revert Q. destruct (has_core s); [|intros Q; injp Q; left; eiA].
    destruct (aget (actors s) a) eqn:AA; [intros Q; injp Q; left; eiA|].
    destruct (mk_notifier s a n) as [nt s1] eqn:MK. intros Q.
    right. exists a. split; [exact AA|]. split.
    { rewrite (bind_actors_eq _ _ _ _ _ Q). destruct (new_actor_get s1 a nt (ctx_logid s) true) as (y & AY & _). eauto. }
    assert (E1 : evs_in pbA s s1) by eiA.
    destruct (one_new_actor s s1 a nt (ctx_logid s) true E1) as (s2 & E2 & E3).
    exists s2. split; [exact E2|]. eapply ei_bind; [exact E3 | exact Q].
  - (* ASlabAdd *)
    revert Q. destruct (cur_ctx s) as [|p pr|] eqn:CC; try solve [intros Q; injp Q; left; eiA]. destruct pr; try solve [intros Q; injp Q; left; eiA].
    destruct (alive s); try solve [intros Q; injp Q; left; eiA].
    destruct (aget (actors s) p) as [px|] eqn:AP; try solve [intros Q; injp Q; left; eiA].
    destruct (aget (actors s) a) eqn:AA; try solve [intros Q; injp Q; left; eiA].
    destruct (a_state px) eqn:SP; try solve [intros Q; injp Q; left; eiA].
    destruct (mk_notifier s a n) as [inner s1] eqn:MK.
    destruct (slab_insert slab snext a) as [[slab' nx'] key] eqn:SI.
    intros Q. right. exists a. split; [exact AA|]. split.
    { rewrite (bind_actors_eq _ _ _ _ _ Q).
      assert (NE : a <> p) by (intros ->; congruence).
      set (s3 := new_actor (ref_clone s1 p) a (Ret a (RKSlab p key inner)) (a_logid px) false).
      destruct (new_actor_get (ref_clone s1 p) a (Ret a (RKSlab p key inner)) (a_logid px) false) as (ya & AYA & _). fold s3 in AYA.
      destruct (opres_some _ _ _ _ (opres_ref_clone s3 a) AYA) as (ya4 & AYA4 & _).
      destruct (aget (actors (ref_clone s3 a)) p) as [yp|]; [|cbn [actors emit set_tr]; eauto].
      unfold emit, upd_actor. cbn [actors set_tr set_actors]. rewrite aget_aset_neq by auto. eauto. }
    assert (E1 : evs_in pbA s (ref_clone s1 p)) by eiA.
    destruct (one_new_actor s (ref_clone s1 p) a (Ret a (RKSlab p key inner)) (a_logid px) false E1) as (s2 & E2 & E3).
    exists s2. split; [exact E2|]. eapply ei_bind; [|exact Q].
    match goal with |- evs_in _ _ (emit (match ?x with _ => _ end) _) => destruct x end; eiA; exact E3.
Qed.

Lemma leaks_pbA t : forallb pbA (rev (leaks t)) = true.
Proof. unfold leaks. rewrite <- map_rev. induction (rev (live_after t [])); simpl; auto. Qed.

Lemma handle_evA m s pre s' : handle m s = (pre, s') -> evs_in pbA s s' \/ exists a, one_actor s s' a.
Proof.
  intros H. destruct m; cbn [handle] in H.
  - left. revert H. unfold do_top. destruct o; repeat dest_match; unfold bad; intros Q; injp Q; eiA.
  - revert H. destruct l as [|act l]; [intros Q; injp Q; left; eiA|].
    destruct (do_act act s) as [p s1] eqn:E. intros Q; injp Q. eapply do_act_evA; eauto.
  - left. revert H. destruct (frames s); intros Q; injp Q; eiA.
  - left. revert H. destruct (frames s); intros Q; injp Q; eiA.
  - left. revert H. unfold run_item. destruct c as [u i kd caps q]. destruct kd; repeat dest_match; intros Q; injp Q; eiA.
  - left. revert H. unfold drop_item. destruct c as [u i kd caps q]. destruct kd; intros Q; injp Q; eiA.
  - left. revert H. intros Q; injp Q; eiA.
  - left. revert H. unfold drop_val. destruct v; repeat dest_match; intros Q; injp Q; eiA.
  - left. revert H. unfold drop_own. repeat dest_match; intros Q; injp Q; eiA.
  - left. revert H. unfold drop_ref. destruct (aget (actors s) a) as [y|]; [|intros Q; injp Q; eiA].
    destruct (a_freed y); [intros Q; injp Q; eiA|]. destruct (minrc_drop (a_rc y)) as [[v z]|]; [|intros Q; injp Q; eiA].
    destruct z; [|intros Q; injp Q; eiA].
    destruct (state_drops a (a_state y) _) as [dl s2] eqn:SD. intros Q; injp Q.
    destruct (state_drops_h (HO 0) _ _ _ _ _ SD) as [-> _]. eiA.
  - left. revert H. unfold ret_invoke. destruct r as [rid k]. destruct k; repeat dest_match; intros Q; injp Q; eiA.
  - left. revert H. intros Q; injp Q; eiA.
  - left. revert H. intros Q; injp Q; eiA.
  - left. revert H. intros Q; injp Q; eiA.
  - left. revert H. intros Q; injp Q; eiA.
  - left. revert H. unfold terminate. destruct (aget (actors s) a) as [y|]; [|intros Q; injp Q; eiA].
    destruct (state_drops a (a_state y) _) as [dl s1] eqn:SD.
    destruct (state_drops_h (HO 0) _ _ _ _ _ SD) as [-> _].
    destruct (a_notify y); intros Q; injp Q; eiA.
  - left. revert H. destruct (aget (actors s) a); intros Q; injp Q; eiA.
  - left. revert H. destruct (aget (actors s) a) as [y|]; [destruct (a_state y)|]; intros Q; injp Q; eiA.
  - left. revert H. unfold fresh_stakker. intros Q; injp Q; eiA.
  - left. revert H. destruct idle; [destruct (idleq s)|]; intros Q; injp Q; eiA.
  - left. revert H. destruct (t >? now (set_mainq s [])).
    + destruct (fire t (set_now (set_mainq s []) t)) as [fired s2] eqn:FI. unfold fire in FI. injection FI as ? ?; subst.
      intros Q; injp Q; eiA.
    + intros Q; injp Q; eiA.
  - left. revert H. repeat dest_match; intros Q; injp Q; eiA.
  - left. revert H. repeat dest_match; intros Q; injp Q; eiA.
  - left. revert H. cbv zeta. intros Q; injp Q; eiA.
  - left. revert H. repeat dest_match; intros Q; injp Q; eiA.
  - left. revert H. repeat dest_match; intros Q; injp Q; eiA.
  - left. revert H. intros Q; injp Q; eiA.
  - left. revert H. intros Q; injp Q.
    destruct (class_flags_tr s) as (evs & TE & FE & _).
    exists (rev (leaks (rev (tr (class_flags s)))) ++ evs). cbn [tr set_tr]. rewrite TE, app_assoc. split; [reflexivity|].
    rewrite forallb_app, leaks_pbA. simpl. clear TE. induction FE as [|e l (c & a & -> & _) FE IH]; simpl; auto.
Qed.

(* cells stay in the table *)
Lemma handle_tab m s pre s' a y : handle m s = (pre, s') -> aget (actors s) a = Some y -> exists y', aget (actors s') a = Some y'.
Proof.
  intros E AY. destruct (handle_afr _ _ _ _ E) as [F|[(h & b & n & l & -> & SA)|(c & -> & SR)]].
  - specialize (F a). rewrite AY in F. destruct F as (y' & A' & _). eauto.
  - destruct SA as (p & px & sh & slab & nx & inner & slab' & nx' & key & rid & inn & _ & AP & _ & AB & NE & _ & _ & (ya & AYA & _) & (yp & AYP & _) & OTH).
    destruct (N.eq_dec a b) as [->|NB]; [congruence|]. destruct (N.eq_dec a p) as [->|NP]; [eauto|].
    specialize (OTH a NB NP). rewrite AY in OTH. destruct OTH as (y' & A' & _). eauto.
  - destruct SR as (p & key & yp & sh & slab & nx & child & _ & AP & _ & _ & _ & ->).
    unfold upd_actor. cbn [actors set_actors]. destruct (N.eq_dec p a) as [->|NE].
    + rewrite aget_aset_eq. eauto.
    + rewrite aget_aset_neq by auto. eauto.
Qed.

Definition EAI (s : st) : Prop :=
  forall a, creT (RNot a) (tr s) <= 1 /\ (aget (actors s) a = None -> creT (RNot a) (tr s) = 0).

Lemma creT_pbA a evs : forallb pbA evs = true -> creT (RNot a) evs = 0.
Proof.
  induction evs as [|e evs IH]; simpl; auto. intros F. apply andb_prop in F as [F1 F2]. rewrite IH by auto.
  rewrite cre1_not. destruct e; try reflexivity. discriminate F1.
Qed.

Lemma EAI_init d : EAI (init d).
Proof. intros a. simpl. split; [lia | reflexivity]. Qed.

Theorem step_EAI k s k' s' : EAI s -> step k s = Some (k', s') -> EAI s'.
Proof.
  intros I ST. destruct k as [|m k0]; [discriminate|]. simpl in ST. destruct (handle m s) as [pre s1] eqn:E. inversion ST; subst.
  assert (TAB : forall a, aget (actors s') a = None -> aget (actors s) a = None).
  { intros a N'. destruct (aget (actors s) a) as [y|] eqn:AY; auto. destruct (handle_tab _ _ _ _ _ _ E AY) as (y' & A'). congruence. }
  intros a. destruct (I a) as [LE ZN].
  destruct (handle_evA _ _ _ _ E) as [(evs & TE & FE)|(b & AB & (yb & AYB) & s2 & (evs1 & T1 & F1) & (evs2 & T2 & F2))].
  - rewrite TE, creT_app, (creT_pbA a _ FE). split; [lia|]. intros N'. rewrite (ZN (TAB _ N')). lia.
  - assert (TE : tr s' = evs2 ++ EActor b :: evs1 ++ tr s) by (rewrite T2; unfold emit; cbn [tr set_tr]; rewrite T1; reflexivity).
    rewrite TE, creT_app, (creT_pbA a _ F2). cbn [creT]. rewrite creT_app, (creT_pbA a _ F1), cre1_not.
    destruct (N.eqb a b) eqn:AB2.
    + apply N.eqb_eq in AB2. subst b. rewrite (ZN AB). split; [lia|]. intros N'. congruence.
    + split; [lia|]. intros N'. rewrite (ZN (TAB _ N')). lia.
Qed.

(* ------------------------------------------------------------------ *)
(** * Notifiers are linear *)

Lemma conT_in a cc t : In (ENotify a cc) t -> 1 <= conT (RNot a) t.
Proof.
  induction t as [|e t IH]; [intros []|]. intros [->|H]; cbn [conT].
  - rewrite con1_not, N.eqb_refl. pose proof (conT_nn (RNot a) t). lia.
  - specialize (IH H). rewrite con1_not. destruct e; try lia. destruct (N.eqb a a0); lia.
Qed.

Lemma cmops_in x m k : In m k -> cmop x m <= cmops x k.
Proof.
  induction k as [|m0 k IH]; [intros []|]. intros [->|H]; simpl.
  - pose proof (cmops_nn x k). lia.
  - specialize (IH H). pose proof (cmop_nn x m0). lia.
Qed.

Lemma cmop_inv a r mm : nshape a r -> 1 <= cmop (RNot a) (MRetInvoke r mm).
Proof. intros NS. cbn [cmop]. pose proof (nshape_cnt r a NS). pose proof (cmsg_nn (RNot a) r mm). lia. Qed.

Lemma cell_cnt a s y r : aget (actors s) a = Some y -> a_notify y = Some r -> nshape a r -> 1 <= cst (RNot a) s.
Proof.
  intros AY AN NS. pose proof (cacts_aget_le (RNot a) _ _ _ AY) as C2. unfold cactor in C2. rewrite AN in C2. simpl in C2.
  pose proof (nshape_cnt r a NS). pose proof (cstate_nn (RNot a) a (a_state y)). pose proof (badif_nn (RNot a) (nkind r)).
  unfold cst. pose proof (cq_nn (RNot a) (mainq s)). pose proof (cq_nn (RNot a) (lazyq s)). pose proof (cq_nn (RNot a) (idleq s)).
  pose proof (ctim_nn (RNot a) (timers s)). pose proof (cenv_nn (RNot a) (env s)). pose proof (cfrs_nn (RNot a) (frames s)).
  pose proof (cnu_nn (RNot a) (nuid s)). lia.
Qed.

Lemma Lin_not k s a : Lin k s -> EAI s -> cmops (RNot a) k + cst (RNot a) s + conT (RNot a) (tr s) <= 1.
Proof.
  intros L I. pose proof (Lin_live _ _ (RNot a) L ltac:(discriminate)) as LV. unfold LinStep.cnt in LV. destruct (I a) as [LE _]. lia.
Qed.

(* once a is notified no notifier of a exists *)
Lemma U1 k s a : Lin k s -> EAI s -> In a (o_notified (st04 (tr s))) ->
  (forall y r, aget (actors s) a = Some y -> a_notify y = Some r -> nshape a r -> False) /\
  (forall r mm, In (MRetInvoke r mm) k -> nshape a r -> False).
Proof.
  intros L I NT. apply st04_notified in NT as (cc & NT). pose proof (conT_in _ _ _ NT) as C. pose proof (Lin_not _ _ a L I) as LN.
  pose proof (cmops_nn (RNot a) k). pose proof (cst_nn (RNot a) s). split.
  - intros y r AY AN NS. pose proof (cell_cnt _ _ _ _ AY AN NS). lia.
  - intros r mm IN NS. pose proof (cmops_in (RNot a) _ _ IN). pose proof (cmop_inv a r mm NS). lia.
Qed.

(* never two notifier invocations of a at once *)
Lemma U2 r1 m1 k0 s a : Lin (MRetInvoke r1 m1 :: k0) s -> EAI s -> nshape a r1 ->
  forall r mm, In (MRetInvoke r mm) k0 -> nshape a r -> False.
Proof.
  intros L I N1 r mm IN NS. pose proof (Lin_not _ _ a L I) as LN. cbn [cmops] in LN.
  pose proof (cmop_inv a r1 m1 N1). pose proof (cmops_in (RNot a) _ _ IN). pose proof (cmop_inv a r mm NS).
  pose proof (cst_nn (RNot a) s). pose proof (conT_nn (RNot a) (tr s)). lia.
Qed.

(* never a notifier field and a notifier invocation of a at once *)
Lemma U3 k s a y r : Lin k s -> EAI s -> aget (actors s) a = Some y -> a_notify y = Some r -> nshape a r ->
  forall r2 mm, In (MRetInvoke r2 mm) k -> nshape a r2 -> False.
Proof.
  intros L I AY AN NS r2 mm IN NS2. pose proof (Lin_not _ _ a L I) as LN.
  pose proof (cell_cnt _ _ _ _ AY AN NS). pose proof (cmops_in (RNot a) _ _ IN). pose proof (cmop_inv a r2 mm NS2).
  pose proof (conT_nn (RNot a) (tr s)). lia.
Qed.


(* ------------------------------------------------------------------ *)
(** * Lists *)

Lemma list_set_nth_same {X} (l : list X) i x y : nth_error l i = Some y -> nth_error (list_set l i x) i = Some x.
Proof. revert i. induction l as [|e l IH]; intros i; destruct i; simpl; try discriminate; auto. Qed.
Lemma list_set_nth_other {X} (l : list X) i j x : i <> j -> nth_error (list_set l i x) j = nth_error l j.
Proof.
  revert i j. induction l as [|e l IH]; intros i j NE; destruct i, j; simpl; auto; try congruence; try (apply IH; congruence).
Qed.
Lemma nth_error_len {X} (l : list X) (x : X) : nth_error (l ++ [x]) (length l) = Some x.
Proof. induction l; simpl; auto. Qed.

Lemma slab_insert_nth l nx a l' nx' key : slab_insert l nx a = (l', nx', key) -> nth_error l' (N.to_nat key) = Some (SOcc a).
Proof.
  unfold slab_insert. destruct (nth_error l (N.to_nat nx)) as [[c0|n]|] eqn:E; intros Q; inversion Q; subst.
  - rewrite Nat2N.id. apply nth_error_len.
  - eapply list_set_nth_same; eauto.
  - rewrite Nat2N.id. apply nth_error_len.
Qed.
Lemma slab_insert_keep l nx a l' nx' key i x : slab_insert l nx a = (l', nx', key) ->
  nth_error l i = Some (SOcc x) -> nth_error l' i = Some (SOcc x).
Proof.
  unfold slab_insert. destruct (nth_error l (N.to_nat nx)) as [[c0|n]|] eqn:E; intros Q H; inversion Q; subst.
  - rewrite nth_error_app1; [exact H | apply nth_error_Some; congruence].
  - rewrite list_set_nth_other; [exact H | intros <-; congruence].
  - rewrite nth_error_app1; [exact H | apply nth_error_Some; congruence].
Qed.

Lemma calmpre_incl k m : In m (calmpre k) -> In m k.
Proof. induction k as [|m0 k IH]; simpl; [intros []|]. destruct (qmop m0); [intros [->|H]; auto | intros []]. Qed.

(* ------------------------------------------------------------------ *)
(** * The two invariants *)

Definition occ (s : st) (p key c : N) : Prop := nth_error (slab_of s p) (N.to_nat key) = Some (SOcc c).

Definition wrap_ok (s : st) (c : N) (r : ret) : Prop :=
  match r with
  | Ret _ (RKSlab p key inner) => (exists rid inn, inner = Ret rid (RKNotify c inn)) /\ (zombie s p \/ occ s p key c)
  | _ => True
  end.

Record WA (k : list mop) (s : st) : Prop := mkWA {
  wa_cell : forall c y r, aget (actors s) c = Some y -> a_notify y = Some r -> wrap_ok s c r;
  wa_mop : forall r mm c, In (MRetInvoke r mm) k -> nshape c r -> wrap_ok s c r }.

Definition pnb (c : N) (k : list mop) : Prop :=
  exists rid inn mm, In (MRetInvoke (Ret rid (RKNotify c inn)) mm) (calmpre k).
Definition post (c : N) (k : list mop) (s : st) : Prop := In c (o_notified (st04 (tr s))) \/ pnb c k.

Definition tK (x : N * N) (k : list mop) (s : st) : Z := tmops x k + T x s.

Definition TI (k : list mop) (s : st) : Prop :=
  forall p key, zombie s p \/ tK (p, key) k s = 0 \/ (tK (p, key) k s = 1 /\ exists c, occ s p key c /\ post c k s).

Lemma zombie_dec s p : zombie s p \/ ~ zombie s p.
Proof.
  unfold zombie. destruct (aget (actors s) p) as [x|] eqn:A; [|right; intros (x & Q & _); discriminate Q].
  destruct (a_state x) eqn:S; [right | right | left; eauto]; intros (x' & Q & S'); inversion Q; subst; congruence.
Qed.

Lemma occ_fun s p key c c' : occ s p key c -> occ s p key c' -> c = c'.
Proof. unfold occ. intros A B. rewrite A in B. inversion B; reflexivity. Qed.
Lemma occ_not_zombie s p key c : occ s p key c -> ~ zombie s p.
Proof.
  unfold occ, slab_of. intros O (x & AX & SX). rewrite AX, SX in O. simpl in O. destruct (N.to_nat key); discriminate.
Qed.
Lemma occ_cell s p key c : occ s p key c -> exists y, aget (actors s) p = Some y /\ nth_error (slab_st (a_state y)) (N.to_nat key) = Some (SOcc c).
Proof. unfold occ, slab_of. destruct (aget (actors s) p) as [y|]; [eauto|]. destruct (N.to_nat key); discriminate. Qed.

(* zombies stay, occupied entries stay unless the parent becomes a Zombie *)
Definition omono (s s' : st) : Prop :=
  (forall p, zombie s p -> zombie s' p) /\ (forall p key c, occ s p key c -> zombie s' p \/ occ s' p key c).

Lemma wrap_ok_mono s s' c r : omono s s' -> wrap_ok s c r -> wrap_ok s' c r.
Proof.
  intros [Z O]. destruct r as [rid [| | | |p key inner]]; simpl; auto. intros [SH [H|H]]; split; auto.
Qed.

Lemma afr_omono s s' : afr s s' -> omono s s'.
Proof.
  intros F. split.
  - intros p (x & AX & SX). specialize (F p). rewrite AX in F. destruct F as (y' & A' & (_ & [S'|[_ NZ]])); [exists y'; auto | contradiction].
  - intros p key c O. destruct (occ_cell _ _ _ _ O) as (y & AY & NTH). specialize (F p). rewrite AY in F.
    destruct F as (y' & A' & (_ & [S'|[S' _]])); [left; exists y'; auto | right].
    unfold occ, slab_of. rewrite A', S'. exact NTH.
Qed.

Lemma slabadd_omono s s' a : slabadd_ok s s' a -> omono s s'.
Proof.
  intros (p & px & sh & slab & nx & inner & slab' & nx' & key & rid & inn & _ & AP & SP & AB & NE & SI & _ & (ya & AYA & _) & (yp & AYP & SYP & _) & OTH).
  split.
  - intros q (x & AX & SX). destruct (N.eq_dec q a) as [->|NA]; [congruence|]. destruct (N.eq_dec q p) as [->|NP]; [congruence|].
    specialize (OTH q NA NP). rewrite AX in OTH. destruct OTH as (y' & A' & _ & S'). exists y'. split; congruence.
  - intros q k2 c O. right. destruct (occ_cell _ _ _ _ O) as (y & AY & NTH).
    destruct (N.eq_dec q a) as [->|NA]; [congruence|]. destruct (N.eq_dec q p) as [->|NP].
    + unfold occ, slab_of. rewrite AYP, SYP. simpl. rewrite AP in AY. inversion AY; subst y. rewrite SP in NTH. simpl in NTH.
      eapply slab_insert_keep; eauto.
    + specialize (OTH q NA NP). rewrite AY in OTH. destruct OTH as (y' & A' & _ & S'). unfold occ, slab_of. rewrite A', S'. exact NTH.
Qed.

Lemma slabrm_mono ci s pre s' : slabrm_ok ci s pre s' ->
  exists p key, ci_kind ci = KSlabRm p key /\ (forall c y, aget (actors s) c = Some y -> exists y', aget (actors s') c = Some y' /\ a_notify y' = a_notify y) /\
    (forall c y', aget (actors s') c = Some y' -> exists y, aget (actors s) c = Some y /\ a_notify y' = a_notify y) /\
    (forall q, zombie s q -> zombie s' q) /\
    (forall q k2 c, occ s q k2 c -> (q = p /\ k2 = key) \/ occ s' q k2 c) /\
    ~ zombie s p /\ tuse (p, key) ci s = 1 /\ pre = [MDropOwn (match nth_error (slab_of s p) (N.to_nat key) with Some (SOcc c) => c | _ => 0%N end) false; MDropRef p].
Proof.
  intros (p & key & y & sh & slab & nx & child & CK & AP & SP & NTH & PRE & ->). exists p, key. split; [exact CK|].
  split; [|split; [|split; [|split; [|split; [|split]]]]].
  - intros c yc AC. unfold upd_actor. cbn [actors set_actors]. destruct (N.eq_dec p c) as [<-|NE].
    + rewrite aget_aset_eq. eexists. split; [reflexivity|]. rewrite AP in AC. inversion AC; subst. reflexivity.
    + rewrite aget_aset_neq by auto. eauto.
  - intros c yc. unfold upd_actor. cbn [actors set_actors]. destruct (N.eq_dec p c) as [<-|NE].
    + rewrite aget_aset_eq. intros Q; inversion Q; subst. exists y. split; [exact AP | reflexivity].
    + rewrite aget_aset_neq by auto. eauto.
  - intros q (x & AX & SX). unfold zombie, upd_actor. cbn [actors set_actors]. destruct (N.eq_dec p q) as [<-|NE].
    + congruence.
    + rewrite aget_aset_neq by auto. eauto.
  - intros q k2 c O. destruct (N.eq_dec p q) as [<-|NE].
    + destruct (N.eq_dec k2 key) as [->|NK]; [left; auto|]. right. unfold occ, slab_of, upd_actor in *. cbn [actors set_actors].
      rewrite aget_aset_eq. rewrite AP, SP in O. simpl in *. rewrite list_set_nth_other; [exact O|]. intros Q. apply N2Nat.inj in Q. congruence.
    + right. unfold occ, slab_of, upd_actor in *. cbn [actors set_actors]. rewrite aget_aset_neq by auto. exact O.
  - intros (x & AX & SX). congruence.
  - unfold tuse. rewrite CK, AP, SP. unfold kb. simpl. rewrite !N.eqb_refl. reflexivity.
  - unfold slab_of. rewrite AP, SP. simpl. rewrite NTH. exact PRE.
Qed.

Fixpoint nkind_nshape (r : ret) {struct r} : nkind r = true -> exists c, nshape c r.
Proof.
  destruct r as [rid k]. destruct k as [caps b|a ci|a ci|a inner|p key inner]; simpl; try discriminate.
  - intros _. exists a. reflexivity.
  - apply nkind_nshape.
Qed.

Lemma ukind_not_nshape r c : ukind r = true -> ~ nshape c r.
Proof. destruct r as [rid [| | | |]]; simpl; try discriminate; auto. Qed.

Lemma gen_inv x m : gen x m <> 0 ->
  exists rid inner mg, m = MRetInvoke (Ret rid (RKSlab (fst x) (snd x) inner)) (Some mg) /\ gen x m = 1.
Proof.
  destruct m; simpl; try congruence. destruct r as [rid [| | | |q k2 inner]]; try congruence. destruct m as [mg|]; try congruence.
  unfold kb. destruct (N.eqb (fst x) q) eqn:E1; [|simpl; congruence]. destruct (N.eqb (snd x) k2) eqn:E2; [|simpl; congruence].
  apply N.eqb_eq in E1, E2. subst. intros _. simpl. eauto.
Qed.

Lemma tci_rm p key ci : ci_kind ci = KSlabRm p key -> tci (p, key) ci = 1.
Proof. intros CK. unfold tci. rewrite CK. unfold tkind, kb. cbn [fst snd]. rewrite !N.eqb_refl. reflexivity. Qed.

Lemma use_nn x m s : 0 <= use x m s.
Proof.
  destruct m; simpl; try lia; [|apply tci_nn]. unfold tuse. destruct (ci_kind c); try lia.
  destruct (aget (actors s) p) as [y|]; [destruct (a_state y)|]; try lia; apply kb_range.
Qed.
Lemma gen_nn x m : 0 <= gen x m.
Proof. destruct m; simpl; try lia. destruct r as [rid [| | | |q k2 inner]]; try lia. destruct m; try lia. apply kb_range. Qed.
Lemma tK_nn x k s : 0 <= tK x k s.
Proof. unfold tK. pose proof (tmops_nn x k). pose proof (T_nn x s). lia. Qed.

(* the plain notifier is invoked, or has been *)
Lemma post_step c m k0 s pre s' : handle m s = (pre, s') -> post c (m :: k0) s -> post c (pre ++ k0) s'.
Proof.
  intros E [N|(rid & inn & mm & IN)].
  - left. eapply notified_ext; [eapply handle_ext; eauto | exact N].
  - destruct (qmop m) eqn:QM; [|rewrite calmpre_nq in IN by auto; destruct IN].
    rewrite calmpre_q in IN by auto. destruct IN as [->|IN].
    + left. apply st04_notified. eexists. cbn [handle] in E. eapply ret_invoke_notifies; eauto.
    + right. exists rid, inn, mm. rewrite calmpre_app by (eapply qmop_quiet_pre; eauto). apply in_or_app. right. exact IN.
Qed.

Lemma WT_init d p : WA (map MTop p ++ [MEpilogue]) (init d) /\ TI (map MTop p ++ [MEpilogue]) (init d).
Proof.
  split.
  - constructor.
    + intros c y r H. discriminate H.
    + intros r mm c IN. exfalso. apply in_app_or in IN as [IN|[IN|[]]]; [|discriminate IN]. apply in_map_iff in IN as (o & Q & _). discriminate Q.
  - intros q key. right. left. unfold tK. rewrite tmops_app. simpl.
    assert (Z0 : tmops (q, key) (map MTop p) = 0) by (induction p; simpl; lia). rewrite Z0. reflexivity.
Qed.

Theorem step_WT m k0 s pre s' :
  KI (m :: k0) s -> Lin (m :: k0) s -> EAI s -> dk s = DGlobal ->
  WA (m :: k0) s -> TI (m :: k0) s -> handle m s = (pre, s') -> WA (pre ++ k0) s' /\ TI (pre ++ k0) s'.
Proof.
  intros [KK MOK] L EA D [WC WM] TT E.
  pose proof (Lin_NB _ _ _ L) as NBH.
  assert (NSH : forall c y r, aget (actors s) c = Some y -> a_notify y = Some r -> nshape c r).
  { intros c y r AY AN. destruct (ks_act _ KK _ _ AY) as (_ & _ & SH & _). auto. }
  (* notifiers of s keep referring to their entries *)
  assert (KEEP : forall c r, wrap_ok s c r ->
            (exists y, aget (actors s) c = Some y /\ a_notify y = Some r) \/ (exists mm, In (MRetInvoke r mm) (m :: k0) /\ nshape c r) ->
            wrap_ok s' c r).
  { intros c r W HOLD. destruct (handle_afr _ _ _ _ E) as [F|[(h & a & n & l & -> & SA)|(ci & -> & SR)]].
    - eapply wrap_ok_mono; [apply afr_omono; exact F | exact W].
    - eapply wrap_ok_mono; [eapply slabadd_omono; exact SA | exact W].
    - destruct (slabrm_mono _ _ _ _ SR) as (p & key & CK & _ & _ & ZM & OM & NZ & TU & _).
      destruct r as [rid [| | | |q k2 inner]]; simpl in *; auto. destruct W as [SH [W|W]]; split; auto.
      destruct (OM _ _ _ W) as [[-> ->]|O']; [exfalso | auto].
      (* the wrapper of the child whose entry is being vacated still exists: impossible *)
      destruct (TT p key) as [Z|[Z|(_ & c' & O' & PO)]]; [contradiction | |].
      + unfold tK in Z. cbn [tmops tmop] in Z. rewrite (tci_rm _ _ _ CK) in Z.
        pose proof (tmops_nn (p, key) k0). pose proof (T_nn (p, key) s). lia.
      + rewrite (occ_fun _ _ _ _ _ O' W) in PO. destruct PO as [N|(rid0 & inn0 & mm0 & IN)]; [|destruct IN].
        destruct (U1 _ _ c L EA N) as [UC UM]. destruct HOLD as [(y & AY & AN)|(mm & IN & NS)].
        * eapply UC; eauto.
        * eapply UM; eauto. }
  assert (OMO : (exists ci, m = MRunItem ci /\ slabrm_ok ci s pre s') \/ omono s s').
  { destruct (handle_afr _ _ _ _ E) as [F|[(h & a & n & l & -> & SA)|(ci & -> & SR)]];
      [right; apply afr_omono; exact F | right; eapply slabadd_omono; exact SA | left; eauto]. }
  assert (ZM : forall q, zombie s q -> zombie s' q).
  { intros q Z. destruct OMO as [(ci & -> & SR)|[ZM _]]; [|auto].
    destruct (slabrm_mono _ _ _ _ SR) as (p & key & _ & _ & _ & ZM & _). auto. }
  split.
  - (* WA *)
    constructor.
    + intros c y' r AY' AN'.
      destruct (handle_afr _ _ _ _ E) as [F|[(h & a & n & l & -> & SA)|(ci & -> & SR)]].
      * specialize (F c). destruct (aget (actors s) c) as [y|] eqn:AY.
        -- destruct F as (y2 & AY2 & ([NN|NN] & _)); rewrite AY' in AY2; inversion AY2; subst y2; [|congruence].
           apply KEEP; [eapply WC; eauto; congruence | left; exists y; split; [exact AY | congruence]].
        -- destruct (F y' AY') as (_ & NK). destruct (NK r AN') as (rid & inn & ->). exact I.
      * pose proof SA as SA0.
        destruct SA as (p & px & sh & slab & nx & inner & slab' & nx' & key & rid & inn & _ & AP & SP & AB & NE & SI & EI & (ya & AYA & NYA & _) & (yp & AYP & SYP & NYP) & OTH).
        destruct (N.eq_dec c a) as [->|NA].
        -- rewrite AYA in AY'. inversion AY'; subst y'. rewrite NYA in AN'. inversion AN'; subst r. simpl. split; [eauto|].
           right. unfold occ, slab_of. rewrite AYP, SYP. simpl. eapply slab_insert_nth; eauto.
        -- destruct (N.eq_dec c p) as [->|NP].
           ++ rewrite AYP in AY'. inversion AY'; subst y'. apply KEEP; [eapply WC; eauto; congruence | left; exists px; split; [exact AP | congruence]].
           ++ specialize (OTH c NA NP). destruct (aget (actors s) c) as [y|] eqn:AY; [|congruence].
              destruct OTH as (y2 & AY2 & NN & _). rewrite AY' in AY2. inversion AY2; subst y2.
              apply KEEP; [eapply WC; eauto; congruence | left; exists y; split; [exact AY | congruence]].
      * destruct (slabrm_mono _ _ _ _ SR) as (p & key & _ & _ & BK & _). destruct (BK _ _ AY') as (y & AY & NN).
        apply KEEP; [eapply WC; eauto; congruence | left; exists y; split; [exact AY | congruence]].
    + intros r mm c IN NS. apply in_app_or in IN as [IN|IN].
      * destruct (handle_ninv _ _ _ _ NBH E _ _ IN) as [UK|[(a & c0 & y & -> & AY & AN & _)|[(a & y & v & -> & AY & AN & _)|(rid & p & key & ->)]]].
        -- exfalso. eapply ukind_not_nshape; eauto.
        -- rewrite (nshape_fun _ _ _ NS (NSH _ _ _ AY AN)). apply KEEP; [eapply WC; eauto | left; eauto].
        -- rewrite (nshape_fun _ _ _ NS (NSH _ _ _ AY AN)). apply KEEP; [eapply WC; eauto | left; eauto].
        -- assert (W : wrap_ok s c (Ret rid (RKSlab p key r))) by (eapply WM; [left; reflexivity | exact NS]).
           simpl in W. destruct W as [(rid' & inn & ->) _]. exact I.
      * apply KEEP; [eapply WM; [right; exact IN | exact NS] | right; exists mm; split; [right; exact IN | exact NS]].
  - (* TI *)
    intros p key. destruct (TT p key) as [Z|NZ]; [left; auto|].
    destruct (zombie_dec s p) as [Z|NZP]; [left; auto|].
    assert (LAW : tK (p, key) (pre ++ k0) s' + use (p, key) m s = tK (p, key) (m :: k0) s + gen (p, key) m).
    { unfold tK. rewrite tmops_app. cbn [tmops].
      assert (DM : (exists t, m = MNew t) \/ forall t, m <> MNew t).
      { destruct m; try (right; intros t0 Q; discriminate Q). left; eauto. }
      destruct DM as [[t ->]|NN].
      - pose proof (new_T (p, key) _ _ _ _ D E) as LW. unfold lawT in LW. cbn [use gen tmop]. lia.
      - pose proof (handle_T (p, key) _ _ _ _ NN E). lia. }
    pose proof (use_nn (p, key) m s) as UN. pose proof (tK_nn (p, key) (pre ++ k0) s') as TN.
    destruct (Z.eq_dec (gen (p, key) m) 0) as [G0|G1].
    + (* nothing made *)
      destruct NZ as [Z0|(Z1 & c & O & PO)]; [right; left; lia|].
      destruct (Z.eq_dec (use (p, key) m s) 0) as [U0|U1]; [|right; left; lia].
      assert (O' : zombie s' p \/ occ s' p key c).
      { destruct OMO as [(ci & -> & SR)|[_ OM]]; [|auto].
        destruct (slabrm_mono _ _ _ _ SR) as (p1 & key1 & CK & _ & _ & _ & OM & _ & TU & _).
        destruct (OM _ _ _ O) as [[-> ->]|O']; [|auto]. cbn [use] in U0. lia. }
      destruct O' as [Z'|O']; [left; exact Z'|]. right. right. split; [lia|]. exists c. split; [exact O' | eapply post_step; eauto].
    + (* the wrapper of this entry is invoked with a cause *)
      destruct (gen_inv _ _ G1) as (rid & inner & mg & -> & G). cbn [fst snd] in *. cbn [use] in *.
      assert (NK : nkind (Ret rid (RKSlab p key inner)) = true).
      { pose proof (NB_mop _ _ NBH) as NBM. cbn [cmop cmsg] in NBM. pose proof (cret_nn RBad (Ret rid (RKSlab p key inner))).
        destruct mg as [v|c0]; apply nb_real.
        - exfalso. unfold badif in NBM. simpl ukind in NBM. cbv iota in NBM. rewrite ind_refl in NBM. lia.
        - pose proof (badif_nn RBad (nkind (Ret rid (RKSlab p key inner)))). lia. }
      destruct (nkind_nshape _ NK) as (c & NS).
      assert (W : wrap_ok s c (Ret rid (RKSlab p key inner))) by (eapply WM; [left; reflexivity | exact NS]).
      simpl in W. destruct W as [(rid' & inn & ->) [Z|O]]; [contradiction|].
      assert (Z0 : tK (p, key) (MRetInvoke (Ret rid (RKSlab p key (Ret rid' (RKNotify c inn)))) (Some mg) :: k0) s = 0).
      { destruct NZ as [Z0|(Z1 & c' & O2 & PO)]; [exact Z0 | exfalso].
        rewrite (occ_fun _ _ _ _ _ O2 O) in PO. destruct PO as [N|(rid0 & inn0 & mm0 & IN)].
        - destruct (U1 _ _ c L EA N) as [_ UM]. eapply UM; [left; reflexivity | exact NS].
        - apply calmpre_incl in IN. destruct IN as [Q|IN]; [discriminate Q|].
          eapply (U2 _ _ _ _ c L EA NS); [exact IN | reflexivity]. }
      assert (O' : zombie s' p \/ occ s' p key c).
      { destruct OMO as [(ci & Q & _)|[_ OM]]; [discriminate Q | auto]. }
      destruct O' as [Z'|O']; [left; exact Z'|]. right. right. split; [lia|]. exists c. split; [exact O'|].
      right. cbn [handle] in E. unfold ret_invoke in E. injp E. exists rid', inn, (Some mg).
      cbn [app calmpre qmop is_work runish andb negb]. left. reflexivity.
Qed.

Print Assumptions step_WT.
