(** Layer R proofs: well-formedness of every closure instance of the configuration, however deeply it is nested
    inside captured values, Ret handlers, held queues, timers, frames ... (a "for all values" invariant, not a
    counting one).

    Every closure instance has a uid below the next uid to be handed out; an actor call carries the [ETarget] event
    of its uid and target in the trace; the call kept inside a Ret / notifier is a Ready call to the actor the Ret
    names.  [step_WF]: preserved by every step of the machine. *)
From Coq Require Import ZArith NArith List Bool Lia.
From Stk Require Import Lib.U Gen.SrcCount Gen.SrcCore Gen.SrcLog R.Syntax R.Rt R.Shape R.Eff R.Tags R.Mono.
Import ListNotations.
Local Open Scope Z_scope.

(* ------------------------------------------------------------------ *)
(** * All closure instances of a value *)

Inductive node := NItem (ci : citem) | NHeld (a : N) (ci : citem) | NVal (r : ret) | NAct (a : N).

(* the actor an item will look up in the actor table when it runs *)
Definition tacts (k : ckind) : list node :=
  match k with KMeth a _ _ | KPrep a _ _ | KSlabRm a _ => [NAct a] | _ => [] end.

Definition lflat (f : hval -> list node) : list (N * hval) -> list node :=
  fix go l := match l with [] => [] | p :: l' => (let (_, v) := p in f v) ++ go l' end.

Fixpoint vnodes (v : hval) : list node :=
  match v with HRet r => NVal r :: rnodes r | HOwn a | HAct a | HAnon a => [NAct a] | _ => [] end
with rnodes (r : ret) : list node :=
  match r with Ret _ k => knodes k end
with knodes (k : rkind) : list node :=
  match k with
  | RKClos caps _ => lflat vnodes caps
  | RKTo a ci | RKSomeTo a ci => NHeld a ci :: NAct a :: cnodes ci
  | RKNotify _ inner => match inner with Some (p, ci) => NHeld p ci :: NAct p :: cnodes ci | None => [] end
  | RKSlab p _ inner => NAct p :: rnodes inner
  end
with cnodes (ci : citem) : list node :=
  match ci with CI u c k caps q => NItem (CI u c k caps q) :: tacts k ++ lflat vnodes caps end.

Definition lnodes (l : list (N * hval)) : list node := lflat vnodes l.

Lemma lnodes_cons h v l : lnodes ((h, v) :: l) = vnodes v ++ lnodes l.
Proof. reflexivity. Qed.

Lemma lnodes_app a b : lnodes (a ++ b) = lnodes a ++ lnodes b.
Proof. induction a as [|[h v] a IH]; simpl; auto. fold (lnodes (a ++ b)) (lnodes a). rewrite IH, app_assoc. reflexivity. Qed.

Lemma cnodes_eq ci : cnodes ci = NItem ci :: tacts (ci_kind ci) ++ lnodes (ci_caps ci).
Proof. destruct ci; reflexivity. Qed.

(* ------------------------------------------------------------------ *)
(** * Well-formed nodes *)

(* the latest target event of a uid in a trace (newest first) *)
Fixpoint last_tgt (t : list ev) (u : N) : option (N * bool) :=
  match t with
  | [] => None
  | ETarget u' a p :: r => if N.eqb u u' then Some (a, p) else last_tgt r u
  | _ :: r => last_tgt r u
  end.

Definition is_tgt (e : ev) : bool := match e with ETarget _ _ _ => true | _ => false end.

Definition iwf (s : st) (ci : citem) : Prop :=
  (ci_uid ci < nuid s)%N /\
  match ci_kind ci with
  | KMeth a _ _ => last_tgt (tr s) (ci_uid ci) = Some (a, false)
  | KPrep a _ _ => last_tgt (tr s) (ci_uid ci) = Some (a, true)
  | KPlain _ => last_tgt (tr s) (ci_uid ci) = None
  | _ => True
  end.

(* the call kept inside a Ret: a Ready call to the actor the Ret names, not handed to any queue yet *)
Definition tgt_is (ci : citem) (a : N) : Prop :=
  match ci_kind ci with KMeth a' _ _ => a' = a | _ => False end /\ ci_sq ci = None.

(* a Ret that is a value (held in a handle, captured ...) was made by the program: never a notifier *)
Definition user_ret (r : ret) : Prop :=
  match r with Ret _ k => match k with RKClos _ _ | RKTo _ _ | RKSomeTo _ _ => True | _ => False end end.

Definition nwf (s : st) (n : node) : Prop :=
  match n with NItem ci => iwf s ci | NHeld a ci => tgt_is ci a | NVal r => user_ret r | NAct a => In (EActor a) (tr s) end.

(* later state: uids only grow, the trace only grows, and the target events added are about uids that were not
   handed out before *)
Definition fresh_tgts (n n' : N) (evs : list ev) : Prop := forall u a p, In (ETarget u a p) evs -> (n <= u < n')%N.

Definition sle (s s' : st) : Prop :=
  (nuid s <= nuid s')%N /\ exists evs, tr s' = evs ++ tr s /\ fresh_tgts (nuid s) (nuid s') evs.

Lemma fresh_nil n n' : fresh_tgts n n' []. Proof. intros u a p []. Qed.

Lemma fresh_notgt n n' evs : forallb (fun e => negb (is_tgt e)) evs = true -> fresh_tgts n n' evs.
Proof.
  intros F u a p H. rewrite forallb_forall in F. specialize (F _ H). discriminate.
Qed.

Lemma sle_refl s : sle s s. Proof. split; [lia | exists []; split; [reflexivity | apply fresh_nil]]. Qed.
Lemma sle_trans a b c : sle a b -> sle b c -> sle a c.
Proof.
  intros [A1 (x & X & FX)] [B1 (y & Y & FY)]. split; [lia|]. exists (y ++ x). split.
  - rewrite Y, X, app_assoc. reflexivity.
  - intros u p q H. apply in_app_or in H as [H|H]; [specialize (FY _ _ _ H); lia | specialize (FX _ _ _ H); lia].
Qed.

Lemma sle_ext s s' : sle s s' -> ext s s'.
Proof. intros [_ (evs & E & _)]. exists evs. exact E. Qed.

Lemma last_tgt_app evs t u : (forall u' a p, In (ETarget u' a p) evs -> u' <> u) -> last_tgt (evs ++ t) u = last_tgt t u.
Proof.
  induction evs as [|e evs IH]; simpl; auto. intros H.
  assert (R : last_tgt (evs ++ t) u = last_tgt t u) by (apply IH; intros; eapply H; eauto).
  destruct e; auto. destruct (N.eqb u uid) eqn:E; auto. apply N.eqb_eq in E. exfalso. eapply H; [left; reflexivity | congruence].
Qed.

Lemma nwf_mono s s' n : sle s s' -> nwf s n -> nwf s' n.
Proof.
  intros [A (evs & B & F)] H. destruct n; simpl in *; auto; [|rewrite B; apply in_or_app; auto]. destruct H as [H1 H2]. split; [lia|].
  assert (R : last_tgt (tr s') (ci_uid ci) = last_tgt (tr s) (ci_uid ci)).
  { rewrite B. apply last_tgt_app. intros u' a p IN EQ. specialize (F _ _ _ IN). lia. }
  rewrite R. exact H2.
Qed.

Definition nsf (s : st) (l : list node) : Prop := Forall (nwf s) l.

Lemma nsf_mono s s' l : sle s s' -> nsf s l -> nsf s' l.
Proof. intros H F. eapply Forall_impl; [|exact F]. intros n. apply nwf_mono; auto. Qed.

Definition cwf s ci := nsf s (cnodes ci).
Definition vwf s v := nsf s (vnodes v).
Definition rwf s r := nsf s (rnodes r).
Definition lwf s l := nsf s (lnodes l).
Definition qwf s (l : list citem) := Forall (cwf s) l.

Definition twf s (k : ckind) := nsf s (tacts k).

Lemma cwf_iff s ci : cwf s ci <-> iwf s ci /\ lwf s (ci_caps ci) /\ twf s (ci_kind ci).
Proof.
  unfold cwf, lwf, twf, nsf. rewrite cnodes_eq. split.
  - intros H; inversion H; subst. apply Forall_app in H3 as [X Y]. auto.
  - intros (A & B & C); constructor; auto. apply Forall_app. auto.
Qed.

Lemma lwf_cons s h v l : lwf s ((h, v) :: l) <-> vwf s v /\ lwf s l.
Proof. unfold lwf, vwf, nsf. rewrite lnodes_cons. apply Forall_app. Qed.

Lemma lwf_nil s : lwf s []. Proof. constructor. Qed.

Lemma lwf_app s a b : lwf s (a ++ b) <-> lwf s a /\ lwf s b.
Proof. unfold lwf, nsf. rewrite lnodes_app. apply Forall_app. Qed.

Lemma qwf_mono s s' l : sle s s' -> qwf s l -> qwf s' l.
Proof. intros H F. eapply Forall_impl; [|exact F]. intros c. apply nsf_mono; auto. Qed.

(* association lists *)
Lemma lwf_aget s l h v : lwf s l -> aget l h = Some v -> vwf s v.
Proof.
  induction l as [|[j x] r IH]; simpl; [discriminate|]. intros W. apply lwf_cons in W as [W1 W2].
  destruct (N.eqb h j); [intros E; inversion E; subst; auto | auto].
Qed.

Lemma lwf_adel s l h : lwf s l -> lwf s (adel l h).
Proof.
  induction l as [|[j x] r IH]; simpl; auto. intros W. apply lwf_cons in W as [W1 W2].
  destruct (N.eqb h j); auto. apply lwf_cons. auto.
Qed.

Lemma lwf_aset s l h v : lwf s l -> vwf s v -> lwf s (aset l h v).
Proof.
  induction l as [|[j x] r IH]; simpl; intros W V.
  - apply lwf_cons. split; auto.
  - apply lwf_cons in W as [W1 W2]. destruct (N.eqb h j); apply lwf_cons; auto.
Qed.

Lemma lwf_amin s l h v : lwf s l -> amin l = Some (h, v) -> vwf s v.
Proof.
  revert h v. induction l as [|[j x] r IH]; simpl; [discriminate|]. intros h v W. apply lwf_cons in W as [W1 W2].
  destruct (amin r) as [[j' x']|] eqn:A.
  - destruct (N.ltb j' j); intros E; inversion E; subst; auto. eapply IH; eauto.
  - intros E; inversion E; subst; auto.
Qed.

(* ------------------------------------------------------------------ *)
(** * The configuration *)

Definition mnodes (m : mop) : list node :=
  match m with
  | MRunItem c | MDropItem c | MDropInner c => cnodes c
  | MDropVal v => vnodes v
  | MRetInvoke r _ => rnodes r
  | MToReady a | MEndBody _ (FPrep a _) => [NAct a]
  | _ => []
  end.

Definition mwf s m := nsf s (mnodes m).
Definition kwf s (k : list mop) := Forall (mwf s) k.

Definition awf s (x : actor) : Prop :=
  match a_state x with
  | SPrep held => qwf s held
  | SReady sh _ _ => lwf s sh
  | SZombie => True
  end /\
  match a_notify x with Some nt => rwf s nt | None => True end.

Record QWF (s : st) : Prop := mkQWF {
  w_nuid : (1 <= nuid s)%N;
  w_main : qwf s (mainq s);
  w_lazy : qwf s (lazyq s);
  w_idle : qwf s (idleq s);
  w_timers : qwf s (map ti_ci (timers s));
  w_env : lwf s (env s);
  w_frames : Forall (fun fr => lwf s (f_loc fr)) (frames s);
  w_actors : forall a x, aget (actors s) a = Some x -> awf s x;
  w_tgts : forall u, (nuid s <= u)%N -> last_tgt (tr s) u = None;
  w_ae : forall a x, aget (actors s) a = Some x -> In (EActor a) (tr s);
  w_fwds : forall f rc k a, aget (fwds s) f = Some (FwdObj rc k (Some a)) -> In (EActor a) (tr s) }.

Definition WF (k : list mop) (s : st) : Prop := kwf s k /\ QWF s.

Lemma kwf_mono s s' k : sle s s' -> kwf s k -> kwf s' k.
Proof. intros H F. eapply Forall_impl; [|exact F]. intros m. apply nsf_mono; auto. Qed.

Lemma awf_mono s s' x : sle s s' -> awf s x -> awf s' x.
Proof.
  intros H [A B]. split.
  - destruct (a_state x); auto. eapply qwf_mono; eauto. eapply nsf_mono; eauto.
  - destruct (a_notify x); auto. eapply nsf_mono; eauto.
Qed.

(* same components, later state *)
Lemma QWF_transport s s' :
  QWF s -> sle s s' -> mainq s' = mainq s -> lazyq s' = lazyq s -> idleq s' = idleq s -> timers s' = timers s ->
  env s' = env s -> frames s' = frames s -> actors s' = actors s -> fwds s' = fwds s -> QWF s'.
Proof.
  intros [A B C D E F G H TG AE FW] L E1 E2 E3 E4 E5 E6 E7 E8. constructor.
  10:{ intros a x. rewrite E7. intros AX. eapply ext_in; [apply sle_ext; exact L | eapply AE; eauto]. }
  10:{ intros f rc k a. rewrite E8. intros AX. eapply ext_in; [apply sle_ext; exact L | eapply FW; eauto]. }
  9:{ intros u U. destruct L as [LN (evs & LE & LF)]. rewrite LE, last_tgt_app; [apply TG; lia|].
      intros u' a p IN EQ. specialize (LF _ _ _ IN). lia. }
  - destruct L. lia.
  - rewrite E1. eapply qwf_mono; eauto.
  - rewrite E2. eapply qwf_mono; eauto.
  - rewrite E3. eapply qwf_mono; eauto.
  - rewrite E4. eapply qwf_mono; eauto.
  - rewrite E5. eapply nsf_mono; eauto.
  - rewrite E6. eapply Forall_impl; [|exact G]. intros fr. apply nsf_mono; auto.
  - rewrite E7. intros a x AX. eapply awf_mono; eauto.
Qed.

(* ------------------------------------------------------------------ *)
(** * Setters *)

Lemma sle_emit s e : is_tgt e = false -> sle s (emit s e).
Proof.
  intros T. split; [simpl; lia|]. exists [e]. split; [reflexivity|]. intros u a p [E|[]]. subst e. discriminate T.
Qed.

Lemma sle_same s s' : nuid s' = nuid s -> tr s' = tr s -> sle s s'.
Proof. intros A B. split; [lia|]. exists []. split; [auto | apply fresh_nil]. Qed.

Ltac transport_tac := eapply QWF_transport; [eassumption | | reflexivity ..].

Lemma Q_emit s e : is_tgt e = false -> QWF s -> QWF (emit s e).
Proof. intros T H. transport_tac. apply sle_emit; auto. Qed.

Ltac qe := apply Q_emit; [reflexivity|].
Ltac se := apply sle_emit; reflexivity.

Lemma Q_set_nuid s v : QWF s -> (nuid s <= v)%N -> QWF (set_nuid s v).
Proof. intros H L. transport_tac. split; [exact L|]. exists []. split; [reflexivity | apply fresh_nil]. Qed.

Definition fwf s (v : list (N * fwdobj)) : Prop := forall f rc k a, aget v f = Some (FwdObj rc k (Some a)) -> In (EActor a) (tr s).
Lemma Q_set_fwds s v : QWF s -> fwf s v -> QWF (set_fwds s v).
Proof. intros [A B C D E F G H TG AE FW] L. constructor; auto. Qed.
Lemma fwf_aset s v f rc k tg : fwf s v -> match tg with Some a => In (EActor a) (tr s) | None => True end -> fwf s (aset v f (FwdObj rc k tg)).
Proof.
  intros W T g rc' k' a. destruct (N.eq_dec f g) as [<-|NE].
  - rewrite aget_aset_eq. intros E; inversion E; subst. exact T.
  - rewrite aget_aset_neq by auto. apply W.
Qed.
Lemma fwf_same s v f rc k tg rc' : fwf s v -> aget v f = Some (FwdObj rc k tg) -> fwf s (aset v f (FwdObj rc' k tg)).
Proof. intros W G. apply fwf_aset; auto. destruct tg; auto. eapply W; eauto. Qed.
Lemma Q_set_shut s v : QWF s -> QWF (set_shut s v). Proof. intros H. transport_tac. apply sle_same; reflexivity. Qed.
Lemma Q_set_logseq s v : QWF s -> QWF (set_logseq s v). Proof. intros H. transport_tac. apply sle_same; reflexivity. Qed.
Lemma Q_set_tvars s v : QWF s -> QWF (set_tvars s v). Proof. intros H. transport_tac. apply sle_same; reflexivity. Qed.
Lemma Q_set_tnext s v : QWF s -> QWF (set_tnext s v). Proof. intros H. transport_tac. apply sle_same; reflexivity. Qed.
Lemma Q_set_now s v : QWF s -> QWF (set_now s v). Proof. intros H. transport_tac. apply sle_same; reflexivity. Qed.
Lemma Q_set_start s v : QWF s -> QWF (set_start s v). Proof. intros H. transport_tac. apply sle_same; reflexivity. Qed.
Lemma Q_set_alive s v : QWF s -> QWF (set_alive s v). Proof. intros H. transport_tac. apply sle_same; reflexivity. Qed.
Lemma Q_set_recreate s v : QWF s -> QWF (set_recreate s v). Proof. intros H. transport_tac. apply sle_same; reflexivity. Qed.
Lemma Q_set_logfilter s v : QWF s -> QWF (set_logfilter s v). Proof. intros H. transport_tac. apply sle_same; reflexivity. Qed.
Lemma Q_set_haslogger s v : QWF s -> QWF (set_haslogger s v). Proof. intros H. transport_tac. apply sle_same; reflexivity. Qed.

Lemma Q_set_mainq s l : QWF s -> qwf s l -> QWF (set_mainq s l).
Proof. intros [A B C D E F G H TG AE FW] L. constructor; auto. Qed.
Lemma Q_set_lazyq s l : QWF s -> qwf s l -> QWF (set_lazyq s l).
Proof. intros [A B C D E F G H TG AE FW] L. constructor; auto. Qed.
Lemma Q_set_idleq s l : QWF s -> qwf s l -> QWF (set_idleq s l).
Proof. intros [A B C D E F G H TG AE FW] L. constructor; auto. Qed.
Lemma Q_set_timers s l : QWF s -> qwf s (map ti_ci l) -> QWF (set_timers s l).
Proof. intros [A B C D E F G H TG AE FW] L. constructor; auto. Qed.
Lemma Q_set_env s v : QWF s -> lwf s v -> QWF (set_env s v).
Proof. intros [A B C D E F G H TG AE FW] L. constructor; auto. Qed.
Lemma Q_set_frames s fs : QWF s -> Forall (fun fr => lwf s (f_loc fr)) fs -> QWF (set_frames s fs).
Proof. intros [A B C D E F G H TG AE FW] L. constructor; auto. Qed.

Lemma Q_upd_actor s a x : QWF s -> awf s x -> (exists y, aget (actors s) a = Some y) -> QWF (upd_actor s a x).
Proof.
  intros [A B C D E F G H TG AE FW] L (y0 & AY). constructor; auto; unfold upd_actor; simpl; intros b y.
  - destruct (N.eq_dec a b) as [<-|NE].
    + rewrite aget_aset_eq. intros EQ; inversion EQ; subst; auto.
    + rewrite aget_aset_neq by auto. apply H.
  - destruct (N.eq_dec a b) as [<-|NE].
    + intros _. eapply AE; eauto.
    + rewrite aget_aset_neq by auto. apply AE.
Qed.

Lemma sle_upd_actor s a x : sle s (upd_actor s a x). Proof. apply sle_same; reflexivity. Qed.

(* items *)
Lemma iwf_setq s ci q : iwf s (ci_setq ci q) <-> iwf s ci.
Proof. destruct ci; reflexivity. Qed.
Lemma iwf_unq s ci : iwf s (ci_unq ci) <-> iwf s ci.
Proof. destruct ci; reflexivity. Qed.

Lemma cwf_setq s ci q : cwf s ci -> cwf s (ci_setq ci q).
Proof. rewrite !cwf_iff. destruct ci; simpl. auto. Qed.
Lemma cwf_unq s ci : cwf s ci -> cwf s (ci_unq ci).
Proof. rewrite !cwf_iff. destruct ci; simpl. auto. Qed.

Lemma qwf_app s a b : qwf s (a ++ b) <-> qwf s a /\ qwf s b.
Proof. apply Forall_app. Qed.

Lemma Q_push_main s ci : QWF s -> cwf s ci -> QWF (push_main s ci).
Proof. intros H C. unfold push_main. apply Q_set_mainq; auto. apply qwf_app. split; [apply H | constructor; auto]. Qed.

Lemma sle_push_main s ci : sle s (push_main s ci). Proof. apply sle_same; reflexivity. Qed.

Lemma Q_submit s q ci : QWF s -> cwf s ci -> QWF (submit s q ci).
Proof.
  intros H C. unfold submit.
  assert (H1 : QWF (emit s (ESub q (ci_uid ci) (ci_call ci)))) by (qe; auto).
  assert (C1 : cwf (emit s (ESub q (ci_uid ci) (ci_call ci))) (ci_setq ci q)).
  { apply cwf_setq. eapply nsf_mono; [se | exact C]. }
  destruct q.
  - apply Q_push_main; auto.
  - apply Q_set_lazyq; auto. apply qwf_app. split; [apply H1 | constructor; auto].
  - apply Q_set_idleq; auto. apply qwf_app. split; [apply H1 | constructor; auto].
  - exact H1.
Qed.

Lemma sle_submit s q ci : sle s (submit s q ci).
Proof.
  unfold submit. destruct q.
  - eapply sle_trans; [apply (sle_emit s (ESub QMain (ci_uid ci) (ci_call ci))); reflexivity | apply sle_push_main].
  - eapply sle_trans; [apply (sle_emit s (ESub QLazy (ci_uid ci) (ci_call ci))); reflexivity | apply sle_same; reflexivity].
  - eapply sle_trans; [apply (sle_emit s (ESub QIdle (ci_uid ci) (ci_call ci))); reflexivity | apply sle_same; reflexivity].
  - apply sle_emit; reflexivity.
Qed.

Lemma Q_timer_add s k v t ci : QWF s -> cwf s ci -> QWF (timer_add s k v t ci).
Proof.
  intros H C. unfold timer_add.
  set (s1 := emit (emit s (ESub QTimer (ci_uid ci) (ci_call ci))) (ETimerVar k v (ci_uid ci))).
  assert (L : sle s s1) by (eapply sle_trans; se).
  assert (H1 : QWF s1) by (unfold s1; qe; qe; auto).
  apply Q_set_tvars, Q_set_tnext, Q_set_timers; auto. rewrite map_app. apply qwf_app. split; [apply H1|].
  constructor; auto. simpl. apply cwf_setq. eapply nsf_mono; eauto.
Qed.

Lemma sle_timer_add s k v t ci : sle s (timer_add s k v t ci).
Proof.
  unfold timer_add.
  eapply sle_trans; [apply (sle_emit s (ESub QTimer (ci_uid ci) (ci_call ci))); reflexivity|].
  eapply sle_trans; [apply (sle_emit _ (ETimerVar k v (ci_uid ci))); reflexivity|]. apply sle_same; reflexivity.
Qed.

Lemma Q_ref_clone s a : QWF s -> QWF (ref_clone s a).
Proof.
  intros H. unfold ref_clone. destruct (aget (actors s) a) as [x|] eqn:E; [|qe; auto].
  assert (AW : awf s (with_rc x (oz (minrc_clone (a_rc x))))) by (apply (w_actors _ H _ _ E)).
  destruct (a_freed x).
  - apply Q_upd_actor; [qe; auto | eapply awf_mono; [se | exact AW] | simpl; eauto].
  - apply Q_upd_actor; eauto.
Qed.

(* a new cell together with its creation event *)
Lemma Q_add_actor s a x : QWF s -> awf s x -> QWF (emit (upd_actor s a x) (EActor a)).
Proof.
  intros H0 L. assert (SL : sle s (emit (upd_actor s a x) (EActor a))) by (eapply sle_trans; [apply sle_upd_actor | se]).
  destruct H0 as [A B C D E F G H TG AE FW]. constructor.
  9:{ intros u U. destruct SL as [LN (evs & LE & LF)]. rewrite LE, last_tgt_app; [apply TG; simpl in U; lia|].
      intros u' a' p IN EQ. specialize (LF _ _ _ IN). simpl in *. lia. }
  - exact A.
  - eapply qwf_mono; eauto.
  - eapply qwf_mono; eauto.
  - eapply qwf_mono; eauto.
  - eapply qwf_mono; eauto.
  - eapply nsf_mono; eauto.
  - eapply Forall_impl; [|exact G]. intros fr. apply nsf_mono; auto.
  - simpl. intros b y. destruct (N.eq_dec a b) as [<-|NE].
    + rewrite aget_aset_eq. intros EQ; inversion EQ; subst. eapply awf_mono; eauto.
    + rewrite aget_aset_neq by auto. intros AX. eapply awf_mono; eauto.
  - simpl. intros b y. destruct (N.eq_dec a b) as [<-|NE]; [left; reflexivity|].
    rewrite aget_aset_neq by auto. intros AX. right. eapply AE; eauto.
  - simpl. intros f rc k b AX. right. eapply FW; eauto.
Qed.

Lemma sle_ref_clone s a : sle s (ref_clone s a).
Proof.
  unfold ref_clone. destruct (aget (actors s) a) as [x|]; [destruct (a_freed x)|].
  - eapply sle_trans; [ | apply sle_upd_actor]; [se].
  - apply sle_upd_actor.
  - se.
Qed.

Lemma Q_log_rec s a b c d : QWF s -> QWF (log_rec s a b c d).
Proof. intros H. unfold log_rec. destruct (_ && _); auto. qe; auto. Qed.
Lemma sle_log_rec s a b c d : sle s (log_rec s a b c d).
Proof. unfold log_rec. destruct (_ && _); [se | apply sle_refl]. Qed.

Lemma sle_new_actor s a nt parent vis : sle s (new_actor s a nt parent vis).
Proof.
  unfold new_actor.
  assert (L : sle s (emit (upd_actor (log_rec (set_logseq s (oz (log_id_next (logseq s)))) (oz (log_id_next (logseq s))) LOGLEVEL_OPEN parent 0) a
       (mkActor (SPrep []) (oz (count_inc (oz count_new))) MINRC_INIT (Some nt) (oz (log_id_next (logseq s))) false)) (EActor a))).
  { eapply sle_trans; [|se]. eapply sle_trans; [|apply sle_upd_actor].
    eapply sle_trans; [|apply sle_log_rec]. apply sle_same; reflexivity. }
  destruct vis; auto. eapply sle_trans; [exact L | se].
Qed.

Lemma Q_new_actor s a nt parent vis : QWF s -> rwf s nt -> QWF (new_actor s a nt parent vis).
Proof.
  intros H R. unfold new_actor.
  set (s2 := log_rec (set_logseq s (oz (log_id_next (logseq s)))) (oz (log_id_next (logseq s))) LOGLEVEL_OPEN parent 0).
  assert (L : sle s s2) by (unfold s2; eapply sle_trans; [|apply sle_log_rec]; apply sle_same; reflexivity).
  assert (H2 : QWF s2) by (unfold s2; apply Q_log_rec, Q_set_logseq; auto).
  assert (H3 : QWF (emit (upd_actor s2 a (mkActor (SPrep []) (oz (count_inc (oz count_new))) MINRC_INIT (Some nt) (oz (log_id_next (logseq s))) false)) (EActor a))).
  { apply Q_add_actor; auto. split; simpl; [constructor|]. eapply nsf_mono; eauto. }
  destruct vis; auto. qe; auto.
Qed.

(* ------------------------------------------------------------------ *)
(** * Moving values *)

Lemma lookup_wf s h v : QWF s -> lookup s h = Some v -> vwf s v.
Proof.
  intros H. unfold lookup. destruct (frames s) as [|fr rest] eqn:F.
  - apply lwf_aget. apply H.
  - destruct (aget (f_loc fr) h) eqn:A.
    + intros E; inversion E; subst. eapply lwf_aget; [|exact A]. pose proof (w_frames _ H) as W. rewrite F in W. inversion W; auto.
    + apply lwf_aget. apply H.
Qed.

Lemma take_wf s h o s' : QWF s -> take s h = (o, s') -> QWF s' /\ nuid s' = nuid s /\ tr s' = tr s /\ forall v, o = Some v -> vwf s v.
Proof.
  intros H. unfold take.
  assert (ENV : forall v0, aget (env s) h = Some v0 -> QWF (set_env s (adel (env s) h)) /\ vwf s v0).
  { intros v0 A. split. apply Q_set_env; auto. apply lwf_adel, H. eapply lwf_aget; [apply H | eauto]. }
  destruct (frames s) as [|fr rest] eqn:F.
  - destruct (aget (env s) h) eqn:A; intros E; inversion E; subst.
    + destruct (ENV _ eq_refl) as [Q V]. split; [exact Q|]. split; [reflexivity|]. split; [reflexivity|].
      intros v0 EQ; inversion EQ; subst; auto.
    + split; [exact H|]. split; [reflexivity|]. split; [reflexivity|]. discriminate.
  - pose proof (w_frames _ H) as W. rewrite F in W. inversion W as [|? ? W1 W2]; subst.
    destruct (aget (f_loc fr) h) eqn:A.
    + intros E; inversion E; subst. split; [|split; [reflexivity|split; [reflexivity|]]].
      * apply Q_set_frames; auto. constructor; auto. simpl. apply lwf_adel; auto.
      * intros v0 EQ; inversion EQ; subst. eapply lwf_aget; eauto.
    + destruct (aget (env s) h) eqn:A2; intros E; inversion E; subst.
      * destruct (ENV _ eq_refl) as [Q V]. split; [exact Q|]. split; [reflexivity|]. split; [reflexivity|].
        intros v0 EQ; inversion EQ; subst; auto.
      * split; [exact H|]. split; [reflexivity|]. split; [reflexivity|]. discriminate.
Qed.

Lemma nsf_same s s' l : nuid s' = nuid s -> tr s' = tr s -> nsf s l -> nsf s' l.
Proof. intros A B. apply nsf_mono. apply sle_same; auto. Qed.

Lemma take_caps_wf ids : forall s l s', QWF s -> take_caps ids s = (l, s') ->
  QWF s' /\ nuid s' = nuid s /\ tr s' = tr s /\ lwf s l.
Proof.
  induction ids as [|h r IH]; simpl; intros s l s' H E.
  - inversion E; subst. split; [exact H|]. split; [reflexivity|]. split; [reflexivity | apply lwf_nil].
  - destruct (take s h) as [[v|] s1] eqn:T.
    + destruct (take_caps r s1) as [l2 s2] eqn:T2. inversion E; subst.
      destruct (take_wf _ _ _ _ H T) as (H1 & N1 & T1 & V1).
      destruct (IH _ _ _ H1 T2) as (H2 & N2 & T2' & L2).
      split; [exact H2|]. split; [congruence|]. split; [congruence|]. apply lwf_cons. split; [apply V1; auto|].
      eapply nsf_same; [| |exact L2]; congruence.
    + destruct (take_wf _ _ _ _ H T) as (H1 & N1 & T1 & V1).
      destruct (IH _ _ _ H1 E) as (H2 & N2 & T2' & L2).
      split; [exact H2|]. split; [congruence|]. split; [congruence|]. eapply nsf_same; [| |exact L2]; congruence.
Qed.

Lemma take_env_caps_wf ids : forall s l s', QWF s -> take_env_caps ids s = (l, s') ->
  QWF s' /\ nuid s' = nuid s /\ tr s' = tr s /\ lwf s l.
Proof.
  induction ids as [|h r IH]; simpl; intros s l s' H E.
  - inversion E; subst. split; [exact H|]. split; [reflexivity|]. split; [reflexivity | apply lwf_nil].
  - destruct (aget (env s) h) eqn:A.
    + destruct (take_env_caps r (set_env s (adel (env s) h))) as [l2 s2] eqn:T2. inversion E; subst.
      assert (H1 : QWF (set_env s (adel (env s) h))) by (apply Q_set_env; auto; apply lwf_adel, H).
      destruct (IH _ _ _ H1 T2) as (H2 & N2 & T2' & L2).
      split; [exact H2|]. split; [exact N2|]. split; [exact T2'|].
      apply lwf_cons. split; [eapply lwf_aget; [apply H | eauto] | exact L2].
    + eapply IH; eauto.
Qed.

Lemma bind_wf s h v l s' : QWF s -> vwf s v -> bind s h v = (l, s') ->
  QWF s' /\ nuid s' = nuid s /\ tr s' = tr s /\ kwf s l.
Proof.
  intros H V. unfold bind.
  assert (Q : QWF (set_env s (aset (env s) h v))) by (apply Q_set_env; auto; apply lwf_aset; auto; apply H).
  destruct (aget (env s) h) eqn:A; intros E; inversion E; subst.
  - split; [exact Q|]. split; [reflexivity|]. split; [reflexivity|].
    constructor; [|constructor]. unfold mwf; simpl. eapply lwf_aget; [apply H | eauto].
  - split; [exact Q|]. split; [reflexivity|]. split; [reflexivity|]. constructor.
Qed.

Lemma bad_wf s c l s' : QWF s -> bad s c = (l, s') -> QWF s' /\ sle s s' /\ kwf s' l.
Proof. unfold bad. intros H E; inversion E; subst. split; [qe; auto|]. split; [se | constructor]. Qed.

(* new closure instances *)
Lemma inst_wf c mk s ci s' : QWF s -> inst c mk s = (ci, s') ->
  QWF s' /\ sle s s' /\ ci_uid ci = nuid s /\ (nuid s < nuid s')%N /\ lwf s' (ci_caps ci) /\ ci_kind ci = mk (clo_body c) /\
  ci_sq ci = None.
Proof.
  intros H. unfold inst. destruct (take_caps (clo_caps c) s) as [caps s1] eqn:T. intros E; inversion E; subst. clear E.
  destruct (take_caps_wf _ _ _ _ H T) as (H1 & N1 & T1 & L1).
  assert (L : sle s (emit (set_nuid s1 (nuid s + 1)%N) (EClo (nuid s) (clo_id c)))).
  { split; [simpl; lia|]. exists [EClo (nuid s) (clo_id c)]. split; [simpl; rewrite T1; reflexivity | apply fresh_notgt; reflexivity]. }
  split; [qe; apply Q_set_nuid; auto; lia|]. split; [exact L|]. split; [reflexivity|]. split; [simpl; lia|].
  split; [simpl; eapply nsf_mono; [exact L | exact L1]|]. split; reflexivity.
Qed.

Lemma cwf_intro s u c k caps q :
  (u < nuid s)%N -> lwf s caps ->
  match k with KMeth a _ _ => last_tgt (tr s) u = Some (a, false) | KPrep a _ _ => last_tgt (tr s) u = Some (a, true)
             | KPlain _ => last_tgt (tr s) u = None | _ => True end ->
  twf s k ->
  cwf s (CI u c k caps q).
Proof. intros A B C D. apply cwf_iff. split; [split; auto|]. split; auto. Qed.

(* a fresh closure instance with its creation event and (for calls) its target event *)
Lemma created_wf s1 cid k caps :
  QWF s1 -> lwf s1 caps -> twf s1 k ->
  let u := nuid s1 in
  let s' := target_ev (emit (set_nuid s1 (u + 1)%N) (EClo u cid)) (CI u cid k caps None) in
  QWF s' /\ sle s1 s' /\ cwf s' (CI u cid k caps None).
Proof.
  intros H L TW u s'.
  assert (SL : sle s1 s').
  { unfold s', target_ev. destruct k; (split; [simpl; lia|]).
    all: try (exists [EClo u cid]; split; [reflexivity | apply fresh_notgt; reflexivity]).
    - exists [ETarget u a false; EClo u cid]. split; [reflexivity|]. intros u' a' p' [E|[E|[]]]; inversion E; subst. unfold u. simpl. lia.
    - exists [ETarget u a true; EClo u cid]. split; [reflexivity|]. intros u' a' p' [E|[E|[]]]; inversion E; subst. unfold u. simpl. lia. }
  assert (Q : QWF s').
  { eapply QWF_transport; [exact H | exact SL | ..]; unfold s', target_ev; destruct k; reflexivity. }
  split; auto. split; auto. apply cwf_intro.
  - unfold s', target_ev. destruct k; simpl; lia.
  - eapply nsf_mono; eauto.
  - unfold s', target_ev. destruct k; simpl; auto; try (rewrite N.eqb_refl; reflexivity). apply (w_tgts _ H). unfold u. lia.
  - eapply nsf_mono; eauto.
Qed.

Lemma twf_plain s b : twf s (KPlain b). Proof. constructor. Qed.

Lemma inst_plain_wf c s ci s' : QWF s -> inst c KPlain s = (ci, s') -> QWF s' /\ sle s s' /\ cwf s' ci.
Proof.
  intros H. unfold inst. destruct (take_caps (clo_caps c) s) as [caps s1] eqn:T. intros E; inversion E; subst. clear E.
  destruct (take_caps_wf _ _ _ _ H T) as (H1 & N1 & T1 & L1).
  assert (LC : lwf s1 caps) by (eapply nsf_same; [| |exact L1]; auto).
  destruct (created_wf s1 (clo_id c) (KPlain (clo_body c)) caps H1 LC (twf_plain _ _)) as (A & B & C). rewrite N1 in A, B, C.
  split; [exact A|]. split; [eapply sle_trans; [apply sle_same; eauto | exact B] | exact C].
Qed.

Lemma inst_call_wf c mk s ci s' : QWF s -> twf s (mk (clo_body c)) -> inst_call c mk s = (ci, s') ->
  QWF s' /\ sle s s' /\ cwf s' ci /\ ci_kind ci = mk (clo_body c) /\ ci_sq ci = None.
Proof.
  intros H TW. unfold inst_call, inst. destruct (take_caps (clo_caps c) s) as [caps s1] eqn:T. intros E; inversion E; subst. clear E.
  destruct (take_caps_wf _ _ _ _ H T) as (H1 & N1 & T1 & L1).
  assert (LC : lwf s1 caps) by (eapply nsf_same; [| |exact L1]; auto).
  assert (TW1 : twf s1 (mk (clo_body c))) by (eapply nsf_same; [| |exact TW]; auto).
  destruct (created_wf s1 (clo_id c) (mk (clo_body c)) caps H1 LC TW1) as (A & B & C). rewrite N1 in A, B, C.
  split; [exact A|]. split; [eapply sle_trans; [apply sle_same; eauto | exact B]|]. split; [exact C|]. split; reflexivity.
Qed.

Lemma inst_nocaps_wf c mk s ci s' : QWF s -> twf s (mk (clo_body c)) -> inst_nocaps c mk s = (ci, s') ->
  QWF (target_ev s' ci) /\ sle s (target_ev s' ci) /\ cwf (target_ev s' ci) ci /\ ci_kind ci = mk (clo_body c).
Proof.
  intros H TW. unfold inst_nocaps. intros E; inversion E; subst. clear E.
  destruct (created_wf s (clo_id c) (mk (clo_body c)) [] H (lwf_nil s) TW) as (A & B & C).
  split; [exact A|]. split; [exact B|]. split; [exact C | reflexivity].
Qed.

Lemma inst_env_wf c s ci s' : QWF s -> inst_env c KPlain s = (ci, s') -> QWF s' /\ sle s s' /\ cwf s' ci.
Proof.
  intros H. unfold inst_env. destruct (take_env_caps (clo_caps c) s) as [caps s1] eqn:T. intros E; inversion E; subst. clear E.
  destruct (take_env_caps_wf _ _ _ _ H T) as (H1 & N1 & T1 & L1).
  assert (L : sle s (emit (set_nuid s1 (nuid s1 + 1)%N) (EClo (nuid s1) (clo_id c)))).
  { split; [simpl; lia|]. exists [EClo (nuid s1) (clo_id c)]. split; [simpl; rewrite T1; reflexivity | apply fresh_notgt; reflexivity]. }
  split; [qe; apply Q_set_nuid; auto; lia|]. split; auto.
  apply cwf_intro; [simpl; lia | eapply nsf_mono; eauto | | constructor]. simpl. rewrite T1. rewrite <- T1. apply (w_tgts _ H1). lia.
Qed.

Lemma tok_script_wf script : forall s, QWF s -> QWF (tok_script s script) /\ sle s (tok_script s script).
Proof.
  unfold tok_script. induction script as [|c r IH]; simpl; intros s H.
  - split; [auto | apply sle_refl].
  - destruct (inst_env c KPlain s) as [ci s1] eqn:I. destruct (inst_env_wf _ _ _ _ H I) as (H1 & L1 & C1).
    destruct (IH (submit s1 QMain ci) (Q_submit _ _ _ H1 C1)) as (H2 & L2).
    split; auto. eapply sle_trans; [exact L1|]. eapply sle_trans; [apply sle_submit | exact L2].
Qed.

(* the same without the existence of the target (for the calculi that only need the item itself) *)
Lemma created_wf0 s1 cid k caps :
  QWF s1 -> lwf s1 caps ->
  let u := nuid s1 in
  let s' := target_ev (emit (set_nuid s1 (u + 1)%N) (EClo u cid)) (CI u cid k caps None) in
  QWF s' /\ sle s1 s' /\ iwf s' (CI u cid k caps None).
Proof.
  intros H L u s'.
  assert (SL : sle s1 s').
  { unfold s', target_ev. destruct k; (split; [simpl; lia|]).
    all: try (exists [EClo u cid]; split; [reflexivity | apply fresh_notgt; reflexivity]).
    - exists [ETarget u a false; EClo u cid]. split; [reflexivity|]. intros u' a' p' [E|[E|[]]]; inversion E; subst. unfold u. simpl. lia.
    - exists [ETarget u a true; EClo u cid]. split; [reflexivity|]. intros u' a' p' [E|[E|[]]]; inversion E; subst. unfold u. simpl. lia. }
  assert (Q : QWF s').
  { eapply QWF_transport; [exact H | exact SL | ..]; unfold s', target_ev; destruct k; reflexivity. }
  split; auto. split; auto. split.
  - unfold s', target_ev. destruct k; simpl; lia.
  - unfold s', target_ev. destruct k; simpl; auto; try (rewrite N.eqb_refl; reflexivity). apply (w_tgts _ H). unfold u. lia.
Qed.

Lemma inst_call_wf0 c mk s ci s' : QWF s -> inst_call c mk s = (ci, s') ->
  QWF s' /\ sle s s' /\ iwf s' ci /\ ci_kind ci = mk (clo_body c) /\ ci_sq ci = None.
Proof.
  intros H. unfold inst_call, inst. destruct (take_caps (clo_caps c) s) as [caps s1] eqn:T. intros E; inversion E; subst. clear E.
  destruct (take_caps_wf _ _ _ _ H T) as (H1 & N1 & T1 & L1).
  assert (LC : lwf s1 caps) by (eapply nsf_same; [| |exact L1]; auto).
  destruct (created_wf0 s1 (clo_id c) (mk (clo_body c)) caps H1 LC) as (A & B & C). rewrite N1 in A, B, C.
  split; [exact A|]. split; [eapply sle_trans; [apply sle_same; eauto | exact B]|]. split; [exact C|]. split; reflexivity.
Qed.

Lemma inst_nocaps_wf0 c mk s ci s' : QWF s -> inst_nocaps c mk s = (ci, s') ->
  QWF (target_ev s' ci) /\ sle s (target_ev s' ci) /\ iwf (target_ev s' ci) ci /\ ci_kind ci = mk (clo_body c).
Proof.
  intros H. unfold inst_nocaps. intros E; inversion E; subst. clear E.
  destruct (created_wf0 s (clo_id c) (mk (clo_body c)) [] H (lwf_nil s)) as (A & B & C).
  split; [exact A|]. split; [exact B|]. split; [exact C | reflexivity].
Qed.

Lemma handle_actor_wf s v p : vwf s v -> handle_actor v = Some p -> nwf s (NAct p).
Proof. unfold vwf, nsf. destruct v; simpl; try discriminate; intros F E; inversion E; subst; exact (Forall_inv F). Qed.

Lemma twf_meth s a b arg : nwf s (NAct a) -> twf s (KMeth a b arg).
Proof. intros H. constructor; [exact H | constructor]. Qed.
Lemma twf_prep s a b r : nwf s (NAct a) -> twf s (KPrep a b r).
Proof. intros H. constructor; [exact H | constructor]. Qed.

Lemma mk_notifier_wf s a n r s' : QWF s -> mk_notifier s a n = (r, s') -> QWF s' /\ sle s s' /\ rwf s' r.
Proof.
  intros H. unfold mk_notifier. destruct n as [[hp c]|].
  - destruct (lookup s hp) as [v|] eqn:LK.
    + destruct (handle_actor v) as [p|] eqn:HA.
      * destruct (inst_call c (fun b => KMeth p b None) (ref_clone s p)) as [ci s2] eqn:I.
        intros E; inversion E; subst.
        pose proof (handle_actor_wf _ _ _ (lookup_wf _ _ _ H LK) HA) as NP.
        assert (NP1 : nwf (ref_clone s p) (NAct p)) by (eapply nwf_mono; [apply sle_ref_clone | exact NP]).
        destruct (inst_call_wf _ _ _ _ _ (Q_ref_clone _ p H) (twf_meth _ _ _ _ NP1) I) as (H2 & L2 & C2 & K2 & Q2).
        split; auto. split; [eapply sle_trans; [apply sle_ref_clone | exact L2]|].
        unfold rwf, nsf. simpl. constructor; [|constructor; [eapply nwf_mono; [exact L2 | exact NP1] | exact C2]].
        simpl. unfold tgt_is. rewrite K2. split; [reflexivity | exact Q2].
      * intros E; inversion E; subst. split; [qe; auto|]. split; [se | constructor].
    + intros E; inversion E; subst. split; [qe; auto|]. split; [se | constructor].
  - intros E; inversion E; subst. split; auto. split; [apply sle_refl | constructor].
Qed.

(* ------------------------------------------------------------------ *)
(** * Acts *)

Lemma qwf_incl s (l l' : list citem) : incl l' l -> qwf s l -> qwf s l'.
Proof. intros I F. apply Forall_forall. intros x Hx. eapply Forall_forall in F; eauto. Qed.

Lemma take_actors s h o s' : take s h = (o, s') -> actors s' = actors s.
Proof.
  unfold take. destruct (frames s) as [|fr rest].
  - destruct (aget (env s) h); intros E; inversion E; subst; reflexivity.
  - destruct (aget (f_loc fr) h); [intros E; inversion E; subst; reflexivity|].
    destruct (aget (env s) h); intros E; inversion E; subst; reflexivity.
Qed.

Lemma kwf_nil s : kwf s []. Proof. constructor. Qed.

Lemma kwf_one_plain s m : mnodes m = [] -> kwf s [m].
Proof. intros H. constructor; [|constructor]. unfold mwf. rewrite H. constructor. Qed.

Lemma vwf_trivial s v : vnodes v = [] -> vwf s v.
Proof. intros H. unfold vwf. rewrite H. constructor. Qed.

Definition res_ok (s : st) (l : list mop) (s' : st) : Prop := QWF s' /\ sle s s' /\ kwf s' l.

Lemma res_bad s c l s' : QWF s -> bad s c = (l, s') -> res_ok s l s'.
Proof. intros H E. destruct (bad_wf _ _ _ _ H E) as (A & B & C). split; auto. Qed.

(* bind as the last operation, after a chain s -> s1 *)
Lemma res_bind s s1 h v l s' : sle s s1 -> QWF s1 -> vwf s1 v -> bind s1 h v = (l, s') -> res_ok s l s'.
Proof.
  intros L H V E. destruct (bind_wf _ _ _ _ _ H V E) as (H2 & N2 & T2 & K2).
  assert (L2 : sle s1 s') by (apply sle_same; auto).
  split; auto. split; [eapply sle_trans; eauto|]. eapply kwf_mono; eauto.
Qed.

Lemma res_bind0 s s1 h v l s' : sle s s1 -> QWF s1 -> vwf s v -> bind s1 h v = (l, s') -> res_ok s l s'.
Proof. intros L H V E. eapply res_bind; eauto. eapply nsf_mono; eauto. Qed.

Lemma res_plain_submit c s q ci s1 : QWF s -> inst c KPlain s = (ci, s1) -> res_ok s [] (submit s1 q ci).
Proof.
  intros H I. destruct (inst_plain_wf _ _ _ _ H I) as (H1 & L1 & C1).
  split; [apply Q_submit; auto|]. split; [eapply sle_trans; [exact L1 | apply sle_submit] | apply kwf_nil].
Qed.

Lemma res_plain_timer c s k v t ci s1 : QWF s -> inst c KPlain s = (ci, s1) -> res_ok s [] (timer_add s1 k v t ci).
Proof.
  intros H I. destruct (inst_plain_wf _ _ _ _ H I) as (H1 & L1 & C1).
  split; [apply Q_timer_add; auto|]. split; [eapply sle_trans; [exact L1 | apply sle_timer_add] | apply kwf_nil].
Qed.

Lemma res_emit s e : is_tgt e = false -> QWF s -> res_ok s [] (emit s e).
Proof. intros T H. split; [apply Q_emit; auto|]. split; [apply sle_emit; auto | apply kwf_nil]. Qed.

Ltac re := (apply res_emit; [reflexivity | auto]).

Lemma var_timer_wf s k v i k' e o ci0 : QWF s -> var_timer s k v = Some (TI i k' e o ci0) -> cwf s ci0.
Proof.
  intros H V. apply var_timer_in' in V. pose proof (w_timers _ H) as W. eapply Forall_forall in W; eauto.
Qed.

Lemma res_call c mk s0 s ci s2 q : sle s0 s -> QWF s -> twf s (mk (clo_body c)) -> inst_call c mk s = (ci, s2) -> res_ok s0 [] (submit s2 q ci).
Proof.
  intros L0 H TW I. destruct (inst_call_wf _ _ _ _ _ H TW I) as (H2 & L2 & C2 & _).
  split; [apply Q_submit; auto|]. split; [|apply kwf_nil].
  eapply sle_trans; [exact L0|]. eapply sle_trans; [exact L2 | apply sle_submit].
Qed.

Lemma new_actor_in s a nt parent vis : In (EActor a) (tr (new_actor s a nt parent vis)).
Proof. unfold new_actor. destruct vis; simpl; auto. Qed.

Lemma vwf_own s a : In (EActor a) (tr s) -> vwf s (HOwn a). Proof. intros H. constructor; [exact H | constructor]. Qed.
Lemma vwf_act s a : In (EActor a) (tr s) -> vwf s (HAct a). Proof. intros H. constructor; [exact H | constructor]. Qed.
Lemma vwf_anon s a : In (EActor a) (tr s) -> vwf s (HAnon a). Proof. intros H. constructor; [exact H | constructor]. Qed.
Lemma vwf_in s v a : vwf s v -> match v with HOwn b | HAct b | HAnon b => b = a | _ => False end -> In (EActor a) (tr s).
Proof. unfold vwf, nsf. destruct v; simpl; try contradiction; intros F <-; exact (Forall_inv F). Qed.

Lemma do_act_wf a s l s' : QWF s -> do_act a s = (l, s') -> res_ok s l s'.
Proof.
  intros H. unfold do_act. destruct a.
  - (* ADefer *) destruct (has_core s); [|apply res_bad; auto].
    destruct (inst c KPlain s) as [ci s1] eqn:I. intros E; inversion E; subst. eapply res_plain_submit; eauto.
  - destruct (inst c KPlain s) as [ci s1] eqn:I. intros E; inversion E; subst. eapply res_plain_submit; eauto.
  - destruct (has_core s); [|apply res_bad; auto].
    destruct (inst c KPlain s) as [ci s1] eqn:I. intros E; inversion E; subst. eapply res_plain_submit; eauto.
  - destruct (has_core s); [|apply res_bad; auto].
    destruct (inst c KPlain s) as [ci s1] eqn:I. intros E; inversion E; subst. eapply res_plain_submit; eauto.
  - (* ATimerAdd *) destruct (has_core s); [|apply res_bad; auto].
    destruct (inst c KPlain s) as [ci s1] eqn:I. intros E; inversion E; subst. eapply res_plain_timer; eauto.
  - destruct (has_core s); [|apply res_bad; auto].
    destruct (inst c KPlain s) as [ci s1] eqn:I. intros E; inversion E; subst. eapply res_plain_timer; eauto.
  - (* ATimerMac *) destruct (has_core s); [|apply res_bad; auto].
    destruct k; [apply res_bad; auto| |].
    all: destruct (inst c KPlain s) as [ci s1] eqn:I; destruct (inst_plain_wf _ _ _ _ H I) as (H1 & L1 & C1).
    all: destruct (var_timer s1 _ v) as [[i k' e o ci0]|] eqn:V; intros E; inversion E; subst.
    all: try (split; [apply Q_timer_add; auto|]; split; [eapply sle_trans; [exact L1 | apply sle_timer_add] | apply kwf_nil]).
    all: split; [apply Q_set_timers; auto; eapply qwf_incl; [apply incl_ti_update_const; cbn [ti_ci]; eapply var_timer_in'; eauto | apply H1]|].
    all: split; [eapply sle_trans; [exact L1 | apply sle_same; reflexivity]|].
    all: constructor; [exact C1 | constructor].
  - (* ATimerUpd *) destruct (has_core s); [|apply res_bad; auto].
    destruct k; [apply res_bad; auto| |].
    all: destruct (var_timer s _ v) as [[i k' e o ci0]|] eqn:V; intros E; inversion E; subst; try (re).
    all: split; [qe; apply Q_set_timers; auto; eapply qwf_incl; [apply incl_ti_update_const; cbn [ti_ci]; eapply var_timer_in'; eauto | apply H]|].
    all: split; [eapply sle_trans; [|se]; apply sle_same; reflexivity | apply kwf_nil].
  - (* ATimerDel *) destruct (has_core s); [|apply res_bad; auto].
    destruct (var_timer s k v) as [[i k' e o ci0]|] eqn:V; intros E; inversion E; subst; [|re].
    split; [apply Q_set_timers; auto; eapply qwf_incl; [apply incl_ti_remove | apply H]|].
    split; [apply sle_same; reflexivity|].
    constructor; [|apply kwf_one_plain; reflexivity]. unfold mwf; simpl. apply (nsf_same s); [reflexivity | reflexivity |]. apply cwf_unq. eapply (var_timer_wf s); eauto.
  - (* ATimerActive *) destruct (has_core s); [|apply res_bad; auto]. destruct k; [apply res_bad; auto| |];
      intros E; inversion E; subst; re.
  - (* ANewActor *) destruct (has_core s); [|apply res_bad; auto].
    destruct (aget (actors s) a); [apply res_bad; auto|].
    destruct (mk_notifier s a n) as [nt s1] eqn:MK. destruct (mk_notifier_wf _ _ _ _ _ H MK) as (H1 & L1 & R1).
    intros E. eapply res_bind; [| | |exact E].
    + eapply sle_trans; [exact L1 | apply sle_new_actor].
    + apply Q_new_actor; auto.
    + apply vwf_own, new_actor_in.
  - (* ACall *) destruct (lookup s h) as [v|] eqn:LK; [|apply res_bad; auto]. destruct (handle_actor v) as [a|] eqn:HA; [|apply res_bad; auto].
    destruct (inst_call c _ (ref_clone s a)) as [ci s2] eqn:I. intros E; inversion E; subst.
    pose proof (handle_actor_wf _ _ _ (lookup_wf _ _ _ H LK) HA) as NP.
    eapply res_call; [apply sle_ref_clone | apply Q_ref_clone; auto | | exact I].
    apply twf_meth. eapply nwf_mono; [apply sle_ref_clone | exact NP].
  - destruct (lookup s h) as [v|] eqn:LK; [|apply res_bad; auto]. destruct (handle_actor v) as [a|] eqn:HA; [|apply res_bad; auto].
    destruct (inst_call c _ (ref_clone s a)) as [ci s2] eqn:I. intros E; inversion E; subst.
    pose proof (handle_actor_wf _ _ _ (lookup_wf _ _ _ H LK) HA) as NP.
    eapply res_call; [apply sle_ref_clone | apply Q_ref_clone; auto | | exact I].
    apply twf_prep. eapply nwf_mono; [apply sle_ref_clone | exact NP].
  - (* AStop *) destruct (frames s) as [|[cx loc die] rest] eqn:F; [apply res_bad; auto|]. destruct cx; try (apply res_bad; auto).
    intros E; inversion E; subst. split; [|split; [eapply sle_trans; [|se]; apply sle_same; reflexivity | apply kwf_nil]].
    qe; apply Q_set_frames; auto. pose proof (w_frames _ H) as W. rewrite F in W. inversion W; subst. constructor; auto.
  - destruct (frames s) as [|[cx loc die] rest] eqn:F; [apply res_bad; auto|]. destruct cx; try (apply res_bad; auto).
    intros E'; inversion E'; subst. split; [|split; [eapply sle_trans; [|se]; apply sle_same; reflexivity | apply kwf_nil]].
    qe; apply Q_set_frames; auto. pose proof (w_frames _ H) as W. rewrite F in W. inversion W; subst. constructor; auto.
  - (* AKill *) destruct (cur_ctx s); try (apply res_bad; auto). destruct (alive s); try (apply res_bad; auto).
    destruct (lookup s h) as [[]|]; try (apply res_bad; auto). intros E; inversion E; subst.
    split; [qe; auto|]. split; [se | apply kwf_one_plain; reflexivity].
  - (* AKillAsync *) destruct (lookup s h) as [[]|]; try (apply res_bad; auto).
    destruct (aget (actors s) a) as [x|] eqn:AX; [|apply res_bad; auto]. intros E; inversion E; subst.
    assert (H1 : QWF (upd_actor s a (with_strong x (oz (count_inc (a_strong x)))))) by (apply Q_upd_actor; eauto; apply (w_actors _ H _ _ AX)).
    split; [|split; [|apply kwf_nil]].
    + apply Q_push_main. qe; apply Q_ref_clone; auto. apply cwf_intro; [ | apply lwf_nil | exact Logic.I | constructor].
      simpl. pose proof (w_nuid _ (Q_ref_clone _ a H1)). lia.
    + eapply sle_trans; [apply sle_upd_actor|]. eapply sle_trans; [apply sle_ref_clone|]. eapply sle_trans; [ | apply sle_push_main]; [se].
  - (* AOwned *) destruct (lookup s h) as [[]|] eqn:LK; try (apply res_bad; auto).
    destruct (aget (actors s) a) as [x|] eqn:AX; [|apply res_bad; auto]. intros E.
    assert (H1 : QWF (upd_actor s a (with_strong x (oz (count_inc (a_strong x)))))) by (apply Q_upd_actor; eauto; apply (w_actors _ H _ _ AX)).
    eapply res_bind0; [| | |exact E].
    + eapply sle_trans; [apply sle_upd_actor|]. eapply sle_trans; [apply sle_ref_clone | se].
    + qe; apply Q_ref_clone; auto.
    + apply vwf_own. exact (vwf_in _ _ a (lookup_wf _ _ _ H LK) eq_refl).
  - (* AClone *) destruct (lookup s h) as [[a|a|a|r|f|t sc]|] eqn:LK; try (apply res_bad; auto).
    + intros E. eapply res_bind0; [ | | | exact E]; [apply sle_ref_clone | apply Q_ref_clone; auto | apply vwf_act; exact (vwf_in _ _ a (lookup_wf _ _ _ H LK) eq_refl)].
    + intros E. eapply res_bind0; [ | | | exact E]; [apply sle_ref_clone | apply Q_ref_clone; auto | apply vwf_act; exact (vwf_in _ _ a (lookup_wf _ _ _ H LK) eq_refl)].
    + destruct (aget (fwds s) f) as [[rc k tg]|] eqn:FG; [|apply res_bad; auto].
      intros E. eapply res_bind; [ | | | exact E]; [apply sle_same; reflexivity | apply Q_set_fwds; auto; eapply fwf_same; [exact (w_fwds _ H) | exact FG] | apply vwf_trivial; reflexivity].
  - (* AAnon *) destruct (lookup s h) as [[]|] eqn:LK; try (apply res_bad; auto).
    destruct (take s h) as [o s1] eqn:T. destruct (take_wf _ _ _ _ H T) as (H1 & N1 & T1 & _).
    intros E. eapply res_bind0; [ | | | exact E]; [apply sle_same; auto | exact H1 | apply vwf_anon; exact (vwf_in _ _ a (lookup_wf _ _ _ H LK) eq_refl)].
  - (* AStore *) destruct (cur_ctx s) as [|a pr|]; try (apply res_bad; auto). destruct pr; try (apply res_bad; auto).
    destruct (aget (actors s) a) as [x|] eqn:AX; [|apply res_bad; auto].
    destruct (a_state x) as [|sh slab nx|] eqn:SX; try (apply res_bad; auto).
    destruct (take s h) as [[v|] s1] eqn:T; destruct (take_wf _ _ _ _ H T) as (H1 & N1 & T1 & V1); intros E; inversion E; subst.
    + split; [|split; [eapply sle_trans; [apply sle_same; eauto | apply sle_upd_actor] | apply kwf_nil]].
      apply Q_upd_actor; [exact H1 | | exists x; rewrite (take_actors _ _ _ _ T); exact AX].
      pose proof (w_actors _ H _ _ AX) as [A1 A2]. rewrite SX in A1.
      assert (LS : sle s s1) by (apply sle_same; auto).
      split; simpl.
      * apply lwf_app. split; [eapply nsf_mono; eauto|]. apply lwf_cons. split; [eapply nsf_mono; [exact LS | apply V1; auto] | apply lwf_nil].
      * destruct (a_notify x); auto. eapply nsf_mono; eauto.
    + split; auto. split; [apply sle_same; auto | apply kwf_nil].
  - (* ADropH *) destruct (take s h) as [[v|] s1] eqn:T; destruct (take_wf _ _ _ _ H T) as (H1 & N1 & T1 & V1); intros E; inversion E; subst.
    + split; auto. split; [apply sle_same; auto|]. constructor; [|constructor]. unfold mwf; simpl.
      eapply nsf_same; [exact N1 | exact T1 | apply V1; auto].
    + split; auto. split; [apply sle_same; auto | apply kwf_nil].
  - (* ASlabAdd *) destruct (cur_ctx s) as [|p pr|]; try (apply res_bad; auto). destruct pr; try (apply res_bad; auto).
    destruct (alive s); try (apply res_bad; auto).
    destruct (aget (actors s) p) as [px|] eqn:AP; [|apply res_bad; auto].
    destruct (aget (actors s) a) eqn:AA; [apply res_bad; auto|].
    destruct (a_state px) as [|sh slab nx|] eqn:SP; try (apply res_bad; auto).
    destruct (mk_notifier s a n) as [inner s1] eqn:MK. destruct (mk_notifier_wf _ _ _ _ _ H MK) as (H1 & L1 & R1).
    destruct (slab_insert slab nx a) as [[slab' nx'] key] eqn:SI.
    set (s3 := new_actor (ref_clone s1 p) a (Ret a (RKSlab p key inner)) (a_logid px) false).
    assert (L2 : sle s1 (ref_clone s1 p)) by apply sle_ref_clone.
    assert (H3 : QWF s3).
    { unfold s3. apply Q_new_actor. apply Q_ref_clone; auto. unfold rwf. simpl. eapply nsf_mono; [exact L2|]. constructor; [|exact R1].
      simpl. eapply ext_in; [apply sle_ext; exact L1 | eapply (w_ae _ H); eauto]. }
    assert (L3 : sle s s3).
    { eapply sle_trans; [exact L1|]. eapply sle_trans; [exact L2 | apply sle_new_actor]. }
    set (s4 := ref_clone s3 a).
    assert (H4 : QWF s4) by (apply Q_ref_clone; auto).
    assert (L4 : sle s s4) by (eapply sle_trans; [exact L3 | apply sle_ref_clone]).
    assert (IA : In (EActor a) (tr s4)) by (unfold s4, s3; eapply ext_in; [apply sle_ext, sle_ref_clone | apply new_actor_in]).
    intros E. eapply res_bind; [ | | | exact E]; [| | apply vwf_act; simpl; right; destruct (aget (actors s4) p); exact IA].
    + eapply sle_trans; [|se].
      destruct (aget (actors s4) p); [eapply sle_trans; [exact L4 | apply sle_upd_actor] | exact L4].
    + qe. destruct (aget (actors s4) p) as [px'|] eqn:AP'; auto.
      apply Q_upd_actor; eauto. pose proof (w_actors _ H4 _ _ AP') as [A1 A2].
      pose proof (w_actors _ H _ _ AP) as [B1 B2]. rewrite SP in B1.
      split; simpl; auto. eapply nsf_mono; eauto.
  - (* ASlabLen *) destruct (cur_ctx s) as [|a pr|]; try (apply res_bad; auto). destruct pr; try (apply res_bad; auto).
    destruct (aget (actors s) a) as [x|]; [|apply res_bad; auto]. destruct (a_state x); try (apply res_bad; auto).
    intros E; inversion E; subst. re.
  - (* AIsZombie *) destruct (lookup s h) as [v|]; [|apply res_bad; auto]. destruct (handle_actor v) as [a|]; [|apply res_bad; auto].
    destruct (aget (actors s) a); [|apply res_bad; auto]. intros E; inversion E; subst. re.
  - (* ANewRet *) destruct k as [caps body|ht c|ht c].
    + destruct (take_caps caps s) as [cv s1] eqn:T. destruct (take_caps_wf _ _ _ _ H T) as (H1 & N1 & T1 & L1).
      intros E. eapply res_bind; [| | |exact E].
      * eapply sle_trans; [apply sle_same; eauto | se].
      * qe; auto.
      * unfold vwf, nsf. simpl. constructor; [exact I|]. eapply nsf_mono; [|exact L1]. eapply sle_trans; [apply sle_same; eauto | se].
    + destruct (lookup s ht) as [v|] eqn:LK; [|apply res_bad; auto]. destruct (handle_actor v) as [a|] eqn:HA; [|apply res_bad; auto].
      destruct (inst_call c _ (ref_clone s a)) as [ci s2] eqn:I.
      pose proof (handle_actor_wf _ _ _ (lookup_wf _ _ _ H LK) HA) as NP.
      assert (NP1 : nwf (ref_clone s a) (NAct a)) by (eapply nwf_mono; [apply sle_ref_clone | exact NP]).
      destruct (inst_call_wf _ _ _ _ _ (Q_ref_clone _ a H) (twf_meth _ _ _ _ NP1) I) as (H2 & L2 & C2 & K2 & Q2).
      intros E. eapply res_bind; [| | |exact E].
      * eapply sle_trans; [apply sle_ref_clone|]. eapply sle_trans; [exact L2|]. eapply sle_trans; se.
      * qe; qe; auto.
      * unfold vwf, nsf. simpl. constructor; [exact Logic.I|]. constructor; [simpl; unfold tgt_is; rewrite K2; split; [reflexivity | exact Q2]|].
        constructor; [eapply nwf_mono; [|exact NP1]; eapply sle_trans; [exact L2|]; eapply sle_trans; se|].
        eapply nsf_mono; [|exact C2]. eapply sle_trans; se.
    + destruct (lookup s ht) as [v|] eqn:LK; [|apply res_bad; auto]. destruct (handle_actor v) as [a|] eqn:HA; [|apply res_bad; auto].
      destruct (inst_call c _ (ref_clone s a)) as [ci s2] eqn:I.
      pose proof (handle_actor_wf _ _ _ (lookup_wf _ _ _ H LK) HA) as NP.
      assert (NP1 : nwf (ref_clone s a) (NAct a)) by (eapply nwf_mono; [apply sle_ref_clone | exact NP]).
      destruct (inst_call_wf _ _ _ _ _ (Q_ref_clone _ a H) (twf_meth _ _ _ _ NP1) I) as (H2 & L2 & C2 & K2 & Q2).
      intros E. eapply res_bind; [| | |exact E].
      * eapply sle_trans; [apply sle_ref_clone|]. eapply sle_trans; [exact L2|]. eapply sle_trans; se.
      * qe; qe; auto.
      * unfold vwf, nsf. simpl. constructor; [exact Logic.I|]. constructor; [simpl; unfold tgt_is; rewrite K2; split; [reflexivity | exact Q2]|].
        constructor; [eapply nwf_mono; [|exact NP1]; eapply sle_trans; [exact L2|]; eapply sle_trans; se|].
        eapply nsf_mono; [|exact C2]. eapply sle_trans; se.
  - (* ARetSend *) destruct (lookup s h) as [[a|a|a|[rid rk]|f|t sc]|] eqn:LK; try (apply res_bad; auto).
    destruct (take s h) as [o s1] eqn:T. destruct (take_wf _ _ _ _ H T) as (H1 & N1 & T1 & _).
    intros E; inversion E; subst. split; [qe; auto|]. split; [eapply sle_trans; [apply sle_same; eauto | se]|].
    constructor; [|constructor]. unfold mwf; simpl.
    eapply nsf_mono; [|exact (Forall_inv_tail (lookup_wf _ _ _ H LK))]. eapply sle_trans; [apply sle_same; eauto | se].
  - (* ANewFwd *) destruct (aget (fwds s) f); [apply res_bad; auto|]. destruct k as [body|ht c].
    + intros E. eapply res_bind; [ | | | exact E]; [| | apply vwf_trivial; reflexivity].
      * eapply sle_trans; [|se]. apply sle_same; reflexivity.
      * qe; apply Q_set_fwds; auto. apply fwf_aset; [exact (w_fwds _ H) | exact Logic.I].
    + destruct (lookup s ht) as [v|] eqn:LK; [|apply res_bad; auto]. destruct (handle_actor v) as [a|] eqn:HA; [|apply res_bad; auto].
      pose proof (handle_actor_wf _ _ _ (lookup_wf _ _ _ H LK) HA) as NP. simpl in NP.
      intros E. eapply res_bind; [ | | | exact E]; [| | apply vwf_trivial; reflexivity].
      * eapply sle_trans; [apply sle_ref_clone | apply sle_same; reflexivity].
      * apply Q_set_fwds; [apply Q_ref_clone; auto|].
        assert (X : ext s (ref_clone s a)) by apply sle_ext, sle_ref_clone.
        apply fwf_aset; [|eapply ext_in; eauto]. intros g rc' k' b G. eapply ext_in; [exact X|]. eapply (w_fwds _ H). 
        replace (fwds s) with (fwds (ref_clone s a)); [exact G|]. unfold ref_clone. destruct (aget (actors s) a) as [x|]; [destruct (a_freed x)|]; reflexivity.
  - (* AFwdSend *) destruct (lookup s h) as [[a|a|a|r|f|t sc]|]; try (apply res_bad; auto).
    destruct (aget (fwds s) f) as [[rc [body|ht c] tg]|] eqn:FG; try (apply res_bad; auto).
    + intros E; inversion E; subst. split; [|split].
      * unfold push_frame. apply Q_set_frames. qe; apply Q_set_fwds; auto. eapply fwf_same; [exact (w_fwds _ H) | exact FG].
        constructor; [simpl; apply lwf_nil|]. pose proof (w_frames _ H) as W.
        eapply Forall_impl; [|exact W]. intros fr. apply nsf_mono. eapply sle_trans; [|se]. apply sle_same; reflexivity.
      * eapply sle_trans; [|apply sle_same; reflexivity]. eapply sle_trans; [|se]. apply sle_same; reflexivity.
      * constructor; [unfold mwf; simpl; constructor|]. constructor; [unfold mwf; simpl; constructor|]. apply kwf_one_plain. reflexivity.
    + destruct tg as [a|]; [|apply res_bad; auto].
      destruct (inst_nocaps c _ (ref_clone s a)) as [ci s2] eqn:I.
      assert (NP1 : nwf (ref_clone s a) (NAct a)) by (eapply nwf_mono; [apply sle_ref_clone | exact (w_fwds _ H _ _ _ _ FG)]).
      destruct (inst_nocaps_wf _ _ _ _ _ (Q_ref_clone _ a H) (twf_meth _ _ _ _ NP1) I) as (H2 & L2 & C2 & _).
      intros E; inversion E; subst. split; [apply Q_submit; auto|]. split; [|apply kwf_nil].
      eapply sle_trans; [apply sle_ref_clone|]. eapply sle_trans; [exact L2 | apply sle_submit].
  - (* ANewTok *) intros E. eapply res_bind; [ | | | exact E]; [se | qe; auto | apply vwf_trivial; reflexivity].
  - (* ALog *) destruct (has_core s); [|apply res_bad; auto]. intros E; inversion E; subst.
    split; [apply Q_log_rec; qe; auto|]. split; [eapply sle_trans; [ | apply sle_log_rec]; [se] | apply kwf_nil].
  - destruct (has_core s); [|apply res_bad; auto]. intros E; inversion E; subst. re.
  - destruct (has_core s); [|apply res_bad; auto]. intros E; inversion E; subst. re.
  - destruct (has_core s); [|apply res_bad; auto]. intros E; inversion E; subst. re.
  - destruct (has_core s); [|apply res_bad; auto]. intros E; inversion E; subst.
    split; [apply Q_set_shut; qe; auto|]. split; [eapply sle_trans; [ | apply sle_same; reflexivity]; [se] | apply kwf_nil].
  - (* ARep *) destruct n; intros E; inversion E; subst.
    + split; auto. split; [apply sle_refl | apply kwf_nil].
    + split; auto. split; [apply sle_refl|]. constructor; [unfold mwf; simpl; constructor|]. apply kwf_one_plain. reflexivity.
Qed.

(* ------------------------------------------------------------------ *)
(** * Handlers *)

Lemma kwf_app s a b : kwf s (a ++ b) <-> kwf s a /\ kwf s b.
Proof. apply Forall_app. Qed.

Lemma kwf_drops s l : lwf s l -> kwf s (drops l).
Proof.
  induction l as [|[h v] l IH]; simpl; intros W; [constructor|]. apply lwf_cons in W as [W1 W2]. constructor; [exact W1 | apply IH; exact W2].
Qed.

Lemma kwf_map_dropitem s l : qwf s l -> kwf s (map MDropItem l).
Proof. intros F. induction F; simpl; constructor; auto. Qed.
Lemma kwf_map_runitem s l : qwf s l -> kwf s (map MRunItem l).
Proof. intros F. induction F; simpl; constructor; auto. Qed.

Lemma kwf_slab_drops s l : kwf s (slab_drops l).
Proof. induction l as [|[c|n] l IH]; simpl; auto; constructor; auto. constructor. Qed.

Lemma kwf_plain s l : (forall m, In m l -> mnodes m = []) -> kwf s l.
Proof. intros H. apply Forall_forall. intros m Hm. unfold mwf. rewrite (H m Hm). constructor. Qed.

Lemma state_drops_wf a x s l s' : awf s x -> state_drops a (a_state x) s = (l, s') -> s' = s /\ kwf s l.
Proof.
  intros [A _]. unfold state_drops. destruct (a_state x); intros E; inversion E; subst; split; auto.
  - apply kwf_map_dropitem; auto.
  - constructor; [constructor|]. apply kwf_app. split; [apply kwf_drops; auto | apply kwf_slab_drops].
  - constructor.
Qed.

Lemma cwf_as_call s a ci arg : cwf s ci -> tgt_is ci a -> cwf s (as_call a ci arg).
Proof.
  rewrite !cwf_iff. intros [[A B] [C D]] [T _]. destruct ci as [u c k caps q]. simpl in *.
  destruct k; try contradiction. subst a0. split; [split; auto|]. split; auto.
Qed.

Lemma internal_wf s k : QWF s -> match k with KSlabRm _ _ | KTerm _ | KKill _ _ => True | _ => False end -> twf s k -> cwf s (CI 0 0 k [] None).
Proof.
  intros H K T. apply cwf_intro; [pose proof (w_nuid _ H); lia | apply lwf_nil | destruct k; auto; contradiction | exact T].
Qed.

Lemma push_frame_wf s c loc : QWF s -> lwf s loc -> QWF (push_frame s c loc).
Proof. intros H L. unfold push_frame. apply Q_set_frames; auto. constructor; auto. apply H. Qed.

Lemma sle_push_frame s c loc : sle s (push_frame s c loc). Proof. apply sle_same; reflexivity. Qed.

Lemma cwf_caps s ci : cwf s ci -> lwf s (ci_caps ci).
Proof. intros H. apply cwf_iff in H. apply H. Qed.

Lemma run_item_wf ci s l s' : QWF s -> cwf s ci -> run_item ci s = (l, s') -> res_ok s l s'.
Proof.
  intros H C. unfold run_item. destruct ci as [u i kd caps q]. pose proof (cwf_caps _ _ C) as LC. simpl in LC.
  destruct kd.
  - intros E; inversion E; subst. split; [|split; [eapply sle_trans; [ | apply sle_push_frame]; [se]|]].
    + apply push_frame_wf. qe; auto. eapply nsf_mono; [se | exact LC].
    + apply kwf_plain. intros m [<-|[<-|[]]]; reflexivity.
  - destruct (aget (actors s) a) as [x|] eqn:AX.
    + pose proof (w_actors _ H _ _ AX) as [A1 A2]. destruct (a_state x) eqn:SX; intros E; inversion E; subst.
      * split; [|split; [apply sle_upd_actor | apply kwf_nil]]. apply Q_upd_actor; eauto. split; simpl; auto.
        apply qwf_app. split; auto. constructor; auto.
      * split; [|split; [eapply sle_trans; [ | apply sle_push_frame]; [se]|]].
        -- apply push_frame_wf. qe; auto. eapply nsf_mono; [se | exact LC].
        -- apply kwf_plain. intros m [<-|[<-|[<-|[]]]]; reflexivity.
      * split; auto. split; [apply sle_refl|]. constructor; [exact C|]. apply kwf_one_plain. reflexivity.
    + intros E; inversion E; subst. split; [qe; auto|]. split; [se|].
      constructor; [|constructor]. unfold mwf; simpl. eapply nsf_mono; [se | exact C].
  - destruct (aget (actors s) a) as [x|] eqn:AX.
    + assert (TA : In (EActor a) (tr s)) by (apply cwf_iff in C as (_ & _ & TW); exact (Forall_inv TW)).
      destruct (ob (count_is_prep (a_strong x))); intros E; inversion E; subst.
      * split; [|split; [eapply sle_trans; [ | apply sle_push_frame]; [se]|]].
        -- apply push_frame_wf. qe; auto. eapply nsf_mono; [se | exact LC].
        -- constructor; [constructor|]. constructor; [|apply kwf_one_plain; reflexivity].
           constructor; [simpl; right; exact TA | constructor].
      * split; auto. split; [apply sle_refl|]. constructor; [exact C|]. apply kwf_one_plain. reflexivity.
    + intros E; inversion E; subst. split; [qe; auto|]. split; [se|].
      constructor; [|constructor]. unfold mwf; simpl. eapply nsf_mono; [se | exact C].
  - destruct (aget (actors s) p) as [x|] eqn:AX.
    + pose proof (w_actors _ H _ _ AX) as [A1 A2]. destruct (a_state x) eqn:SX.
      * intros E; inversion E; subst. split; [|split; [apply sle_upd_actor | apply kwf_nil]]. apply Q_upd_actor; eauto. split; simpl; auto.
        apply qwf_app. split; auto. constructor; auto.
      * destruct (nth_error slab (N.to_nat key)) as [[child|nx]|]; intros E; inversion E; subst.
        -- split; [|split; [apply sle_upd_actor | apply kwf_plain; intros m [<-|[<-|[]]]; reflexivity]]. apply Q_upd_actor; eauto. split; simpl; auto.
        -- split; [qe; auto|]. split; [se | apply kwf_one_plain; reflexivity].
        -- split; [qe; auto|]. split; [se | apply kwf_one_plain; reflexivity].
      * intros E; inversion E; subst. split; auto. split; [apply sle_refl | apply kwf_one_plain; reflexivity].
    + intros E; inversion E; subst. split; [qe; auto|]. split; [se | apply kwf_nil].
  - intros E; inversion E; subst. split; auto. split; [apply sle_refl | apply kwf_plain; intros m [<-|[<-|[]]]; reflexivity].
  - intros E; inversion E; subst. split; auto. split; [apply sle_refl | apply kwf_plain; intros m [<-|[<-|[]]]; reflexivity].
Qed.

Lemma drop_item_wf ci s l s' : QWF s -> cwf s ci -> drop_item ci s = (l, s') -> res_ok s l s'.
Proof.
  intros H C. unfold drop_item. destruct ci as [u i kd caps q]. pose proof (cwf_caps _ _ C) as LC. simpl in LC.
  destruct kd; intros E; inversion E; subst.
  - split; [qe; auto|]. split; [se|]. apply kwf_drops. eapply nsf_mono; [se | exact LC].
  - split; auto. split; [apply sle_refl|]. constructor; [unfold mwf; simpl; constructor|]. constructor; [exact C | constructor].
  - split; auto. split; [apply sle_refl|]. constructor; [unfold mwf; simpl; constructor|]. constructor; [exact C | constructor].
  - split; auto. split; [apply sle_refl | apply kwf_one_plain; reflexivity].
  - split; auto. split; [apply sle_refl | apply kwf_one_plain; reflexivity].
  - split; auto. split; [apply sle_refl | apply kwf_one_plain; reflexivity].
Qed.

Lemma ret_invoke_wf r m s l s' : QWF s -> rwf s r -> ret_invoke r m s = (l, s') -> res_ok s l s'.
Proof.
  intros H R. unfold ret_invoke. destruct r as [rid k]. unfold rwf in R. simpl in R. destruct k.
  - intros E; inversion E; subst. split; [|split; [eapply sle_trans; [ | apply sle_push_frame]; [se]|]].
    + apply push_frame_wf. qe; auto. eapply nsf_mono; [se | exact R].
    + apply kwf_plain. intros x [<-|[<-|[]]]; reflexivity.
  - inversion R as [|? ? T C0]; subst. inversion C0 as [|? ? TA C]; subst. simpl in T. intros E; inversion E; subst.
    split; [|split; [eapply sle_trans; [ | apply sle_submit]; [se] | apply kwf_nil]].
    apply Q_submit. qe; auto. apply cwf_as_call; auto; try (eapply nsf_mono; [se | exact C]).
  - inversion R as [|? ? T C0]; subst. inversion C0 as [|? ? TA C]; subst. simpl in T. destruct m as [mm|]; intros E; inversion E; subst.
    + split; [|split; [eapply sle_trans; [ | apply sle_submit]; [se] | apply kwf_nil]].
      apply Q_submit. qe; auto. apply cwf_as_call; auto; try (eapply nsf_mono; [se | exact C]).
    + split; [qe; auto|]. split; [se|].
      constructor; [unfold mwf; simpl; constructor|]. constructor; [|constructor]. unfold mwf; simpl. eapply nsf_mono; [se | exact C].
  - destruct inner as [[p ci]|]; intros E; inversion E; subst.
    + inversion R as [|? ? T C0]; subst. inversion C0 as [|? ? TA C]; subst. simpl in T.
      split; [|split; [eapply sle_trans; [ | apply sle_submit]; [se] | apply kwf_nil]].
      apply Q_submit. qe; auto. apply cwf_as_call; auto; try (eapply nsf_mono; [se | exact C]).
    + split; [qe; auto|]. split; [se | apply kwf_nil].
  - destruct m as [mm|]; intros E; inversion E; subst.
    + split; [|split; [eapply sle_trans; [apply sle_ref_clone | apply sle_push_main]|]].
      * apply Q_push_main. apply Q_ref_clone; auto. apply internal_wf; [apply Q_ref_clone; auto | exact I|].
        constructor; [|constructor]. eapply nwf_mono; [apply sle_ref_clone | exact (Forall_inv R)].
      * constructor; [|apply kwf_one_plain; reflexivity]. unfold mwf; simpl.
        eapply nsf_mono; [|exact (Forall_inv_tail R)]. eapply sle_trans; [apply sle_ref_clone | apply sle_push_main].
    + split; auto. split; [apply sle_refl|]. constructor; [unfold mwf; simpl; constructor|]. constructor; [exact (Forall_inv_tail R) | constructor].
Qed.

Lemma terminate_wf a c s l s' : QWF s -> terminate a c s = (l, s') -> res_ok s l s'.
Proof.
  intros H. unfold terminate. destruct (aget (actors s) a) as [x|] eqn:AX.
  - pose proof (w_actors _ H _ _ AX) as AW.
    set (x1 := mkActor SZombie (oz (count_set_state (a_strong x) STATE_ZOMBIE)) (a_rc x) None (a_logid x) (a_freed x)).
    set (s0 := if a_freed x then emit s (EModel M_UAF a) else s).
    assert (L0 : sle s s0) by (unfold s0; destruct (a_freed x); [se | apply sle_refl]).
    assert (H0 : QWF s0) by (unfold s0; destruct (a_freed x); [qe; auto | auto]).
    assert (H1 : QWF (upd_actor s0 a x1)) by (apply Q_upd_actor; [exact H0 | split; exact I | exists x; unfold s0; destruct (a_freed x); exact AX]).
    assert (L1 : sle s (upd_actor s0 a x1)) by (eapply sle_trans; [exact L0 | apply sle_upd_actor]).
    destruct (state_drops a (a_state x) (upd_actor s0 a x1)) as [dl s1] eqn:SD.
    destruct (state_drops_wf a x _ _ _ (awf_mono _ _ _ L1 AW) SD) as [-> KD].
    destruct AW as [_ AN]. destruct (a_notify x) as [nt|]; intros E; inversion E; subst.
    + split; auto. split; auto. apply kwf_app. split; auto.
      constructor; [unfold mwf; simpl; constructor|]. constructor; [|constructor]. unfold mwf; simpl. eapply nsf_mono; eauto.
    + split; auto.
  - intros E; inversion E; subst. split; [qe; auto|]. split; [se | apply kwf_nil].
Qed.

Lemma drop_own_wf a b s l s' : QWF s -> drop_own a b s = (l, s') -> res_ok s l s'.
Proof.
  intros H. unfold drop_own.
  set (s0 := if b then emit s (EOwnDrop a) else s).
  assert (L0 : sle s s0) by (unfold s0; destruct b; [se | apply sle_refl]).
  assert (H0 : QWF s0) by (unfold s0; destruct b; [qe; auto | auto]).
  destruct (aget (actors s0) a) as [x|] eqn:AX.
  - pose proof (w_actors _ H0 _ _ AX) as AW. destruct (count_dec (a_strong x)) as [[v z]|].
    + assert (H1 : QWF (upd_actor s0 a (with_strong x v))) by (apply Q_upd_actor; eauto).
      destruct z; intros E; inversion E; subst.
      * split; [|split; [|apply kwf_one_plain; reflexivity]].
        -- apply Q_push_main. apply Q_ref_clone; auto. apply internal_wf; [apply Q_ref_clone; auto | exact I | constructor].
        -- eapply sle_trans; [exact L0|]. eapply sle_trans; [apply sle_upd_actor|]. eapply sle_trans; [apply sle_ref_clone | apply sle_push_main].
      * split; auto. split; [eapply sle_trans; [exact L0 | apply sle_upd_actor] | apply kwf_one_plain; reflexivity].
    + intros E; inversion E; subst. split; [qe; auto|]. split; [eapply sle_trans; [exact L0 | se] | apply kwf_one_plain; reflexivity].
  - intros E; inversion E; subst. split; [qe; auto|]. split; [eapply sle_trans; [exact L0 | se] | apply kwf_nil].
Qed.

Lemma drop_ref_wf a s l s' : QWF s -> drop_ref a s = (l, s') -> res_ok s l s'.
Proof.
  intros H. unfold drop_ref. destruct (aget (actors s) a) as [x|] eqn:AX.
  - pose proof (w_actors _ H _ _ AX) as AW. destruct (a_freed x).
    { intros E; inversion E; subst. split; [qe; auto|]. split; [se | apply kwf_nil]. }
    destruct (minrc_drop (a_rc x)) as [[v z]|].
    + destruct z.
      * set (x1 := mkActor SZombie (oz (count_set_state (a_strong x) STATE_ZOMBIE)) v None (a_logid x) true).
        set (s1 := emit (upd_actor s a x1) (EModel M_FREE_ACTOR a)).
        assert (L1 : sle s s1) by (eapply sle_trans; [apply sle_upd_actor | se]).
        assert (H1 : QWF s1) by (qe; apply Q_upd_actor; eauto; split; exact I).
        destruct (state_drops a (a_state x) s1) as [dl s2] eqn:SD.
        destruct (state_drops_wf a x _ _ _ (awf_mono _ _ _ L1 AW) SD) as [-> KD].
        intros E; inversion E; subst. split; auto. split; auto. apply kwf_app. split; auto.
        destruct AW as [_ AN]. destruct (a_notify x) as [nt|]; [|constructor].
        constructor; [|constructor]. unfold mwf; simpl. eapply nsf_mono; eauto.
      * intros E; inversion E; subst. split; [apply Q_upd_actor; eauto|]. split; [apply sle_upd_actor | apply kwf_nil].
    + intros E; inversion E; subst. split; [qe; auto|]. split; [se | apply kwf_nil].
  - intros E; inversion E; subst. split; [qe; auto|]. split; [se | apply kwf_nil].
Qed.

Lemma drop_val_wf v s l s' : QWF s -> vwf s v -> drop_val v s = (l, s') -> res_ok s l s'.
Proof.
  intros H V. unfold drop_val. destruct v.
  - intros E; inversion E; subst. split; auto. split; [apply sle_refl | apply kwf_one_plain; reflexivity].
  - intros E; inversion E; subst. split; auto. split; [apply sle_refl | apply kwf_one_plain; reflexivity].
  - intros E; inversion E; subst. split; auto. split; [apply sle_refl | apply kwf_one_plain; reflexivity].
  - intros E; inversion E; subst. split; auto. split; [apply sle_refl|]. constructor; [exact (Forall_inv_tail V) | constructor].
  - destruct (aget (fwds s) f) as [[rc k tg]|] eqn:FG.
    + assert (FS : forall rc', fwf s (aset (fwds s) f (FwdObj rc' k tg))) by (intros rc'; eapply fwf_same; [exact (w_fwds _ H) | exact FG]).
      destruct (minrc_drop rc) as [[v' z]|].
      * destruct z; [destruct k; [|destruct tg]|]; intros E; inversion E; subst.
        -- split; [qe; apply Q_set_fwds; auto|]. split; [eapply sle_trans; [|se]; apply sle_same; reflexivity | apply kwf_nil].
        -- split; [apply Q_set_fwds; auto|]. split; [apply sle_same; reflexivity | apply kwf_one_plain; reflexivity].
        -- split; [apply Q_set_fwds; auto|]. split; [apply sle_same; reflexivity | apply kwf_nil].
        -- split; [apply Q_set_fwds; auto|]. split; [apply sle_same; reflexivity | apply kwf_nil].
      * intros E; inversion E; subst. split; [qe; auto|]. split; [se | apply kwf_nil].
    + intros E; inversion E; subst. split; [qe; auto|]. split; [se | apply kwf_nil].
  - intros E; inversion E; subst. destruct (tok_script_wf script (emit s (ETokDrop t)) (Q_emit _ (ETokDrop t) eq_refl H)) as [A B].
    split; auto. split; [eapply sle_trans; [ | exact B]; [se] | apply kwf_nil].
Qed.

(* ------------------------------------------------------------------ *)
(** * Steps *)

Lemma ti_insert_in x l y : In y (ti_insert x l) -> y = x \/ In y l.
Proof.
  induction l as [|z l IH]; simpl; [intros [<-|[]]; auto|].
  destruct (ti_le x z); simpl; intros [<-|H]; auto. destruct (IH H); auto.
Qed.

Lemma ti_sort_in l y : In y (ti_sort l) -> In y l.
Proof.
  induction l as [|z l IH]; simpl; auto. intros H. apply ti_insert_in in H as [<-|H]; auto.
Qed.

Lemma qwf_timers_sub s (l l' : list titem) : (forall y, In y l' -> In y l) -> qwf s (map ti_ci l) -> qwf s (map ti_ci l').
Proof.
  intros I F. apply Forall_forall. intros c Hc. apply in_map_iff in Hc as (y & <- & Hy).
  eapply Forall_forall in F; [exact F|]. apply in_map. auto.
Qed.

Lemma fold_emit_opt_wf (f : N * actor -> option ev) l : (forall p e, f p = Some e -> is_tgt e = false) -> forall s, QWF s ->
  QWF (fold_left (fun x p => emit_opt x (f p)) l s) /\ sle s (fold_left (fun x p => emit_opt x (f p)) l s).
Proof.
  intros NT. induction l as [|p l IH]; simpl; intros s H; [split; [auto | apply sle_refl]|].
  assert (H1 : QWF (emit_opt s (f p))) by (unfold emit_opt; destruct (f p) eqn:F; [apply Q_emit; eauto | auto]).
  assert (L1 : sle s (emit_opt s (f p))) by (unfold emit_opt; destruct (f p) eqn:F; [apply sle_emit; eauto | apply sle_refl]).
  destruct (IH _ H1) as [A B]. split; auto. eapply sle_trans; eauto.
Qed.

Lemma class_flag_notgt all p e : class_flag all p = Some e -> is_tgt e = false.
Proof.
  unfold class_flag. destruct (a_freed (snd p)); [discriminate|].
  destruct (a_state (snd p)) as [[|c hl]| |]; try discriminate.
  - intros E; inversion E. reflexivity.
  - destruct (existsb _ _); [|discriminate]. intros E; inversion E. reflexivity.
Qed.

Lemma leaks_notgt t : forallb (fun e => negb (is_tgt e)) (rev (leaks t)) = true.
Proof.
  apply forallb_forall. intros e H. apply in_rev in H. unfold leaks in H. apply in_map_iff in H as (p & <- & _). reflexivity.
Qed.

Lemma Q_set_tr_ext s l : forallb (fun e => negb (is_tgt e)) l = true -> QWF s -> QWF (set_tr s (l ++ tr s)).
Proof. intros NT H. transport_tac. split; [simpl; lia | exists l; split; [reflexivity | apply fresh_notgt; auto]]. Qed.

Lemma handle_res m k0 s pre s' : WF (m :: k0) s -> handle m s = (pre, s') -> res_ok s pre s'.
Proof.
  intros [K H] E. inversion K as [|? ? MW K0]; subst.
  assert (FIN : res_ok s pre s' -> res_ok s pre s') by auto.
  destruct m; simpl in E.
  - (* MTop *)
    apply FIN. unfold do_top in E. destruct o.
    + destruct (alive s); inversion E; subst; (split; [auto|split; [apply sle_refl | apply kwf_plain; simpl; intros m [<-|[<-|[]]] || intros m [<-|[]]; reflexivity]]).
    + destruct (alive s); [|eapply res_bad; eauto]. inversion E; subst.
      split; [qe; auto|]. split; [se | apply kwf_plain; intros m [<-|[<-|[<-|[]]]]; reflexivity].
    + inversion E; subst. split; [apply push_frame_wf; auto; apply lwf_nil|]. split; [apply sle_push_frame|].
      apply kwf_plain. intros m [<-|[<-|[]]]; reflexivity.
    + destruct (alive s); inversion E; subst.
      * split; [qe; auto|]. split; [se | apply kwf_one_plain; reflexivity].
      * split; auto. split; [apply sle_refl | apply kwf_nil].
    + inversion E; subst. split; auto. split; [apply sle_refl | apply kwf_one_plain; reflexivity].
    + destruct (alive s); [|eapply res_bad; eauto]. inversion E; subst.
      split; [apply Q_set_haslogger, Q_set_logfilter; qe; auto|].
      split; [eapply sle_trans; [ | apply sle_same; reflexivity]; [se] | apply kwf_nil].
    + destruct (alive s); [|eapply res_bad; eauto]. inversion E; subst.
      split; [apply Q_set_logfilter; destruct (haslogger _); [qe; qe | qe]; auto|].
      split; [|apply kwf_nil].
      eapply sle_trans; [apply (sle_emit s (ESetFilter lvls)); reflexivity|].
      destruct (haslogger _); [eapply sle_trans; [apply (sle_emit _ (ELog 0 LOGLEVEL_INFO 0 9)); reflexivity|]|]; apply sle_same; reflexivity.
  - (* MActs *)
    apply FIN. destruct l as [|a l].
    + inversion E; subst. split; auto. split; [apply sle_refl | apply kwf_nil].
    + destruct (do_act a s) as [p s1] eqn:DA. inversion E; subst. destruct (do_act_wf _ _ _ _ H DA) as (A & B & C).
      split; auto. split; auto. apply kwf_app. split; auto. apply kwf_one_plain. reflexivity.
  - (* MPopFrame *)
    apply FIN. destruct (frames s) as [|fr rest] eqn:F; inversion E; subst.
    + split; auto. split; [apply sle_refl | apply kwf_nil].
    + pose proof (w_frames _ H) as W. rewrite F in W. inversion W; subst.
      split; [apply Q_set_frames; auto|]. split; [apply sle_same; reflexivity|]. apply kwf_drops. assumption.
  - (* MEndBody *)
    apply FIN. destruct (frames s) as [|fr rest] eqn:F; inversion E; subst.
    + split; [qe; qe; auto|]. split; [eapply sle_trans; [apply (sle_emit s (EBad 60)); reflexivity | se] | apply kwf_nil].
    + pose proof (w_frames _ H) as W. rewrite F in W. inversion W as [|? ? W1 W2]; subst.
      assert (L : sle s (set_frames (emit s (EEnd uid)) rest)) by (eapply sle_trans; [ | apply sle_same; reflexivity]; [se]).
      split; [|split; [exact L|]].
      * apply Q_set_frames. qe; auto. eapply Forall_impl; [|exact W2]. intros x. apply nsf_mono. se.
      * apply kwf_app. split; [apply kwf_drops; eapply nsf_mono; eauto|].
        destruct f as [|a0|a0 ready]; simpl; try apply kwf_nil;
          destruct (f_die fr); try destruct ready; try apply kwf_nil;
          try (apply kwf_plain; simpl; intros m M; repeat (destruct M as [<-|M]; [reflexivity|]); contradiction).
        constructor; [|constructor]. eapply nsf_mono; [exact L | exact MW].
  - (* MRunItem *) apply FIN. eapply run_item_wf; eauto.
  - apply FIN. eapply drop_item_wf; eauto.
  - (* MDropInner *) apply FIN. inversion E; subst. split; [qe; auto|]. split; [se|].
    apply kwf_drops. eapply nsf_mono; [se | apply cwf_caps; exact MW].
  - apply FIN. eapply drop_val_wf; eauto.
  - apply FIN. eapply drop_own_wf; eauto.
  - apply FIN. eapply drop_ref_wf; eauto.
  - apply FIN. eapply ret_invoke_wf; eauto.
  - apply FIN. inversion E; subst. re.
  - apply FIN. inversion E; subst. re.
  - apply FIN. inversion E; subst. re.
  - apply FIN. inversion E; subst. re.
  - apply FIN. eapply terminate_wf; eauto.
  - (* MLogClose *) apply FIN. destruct (aget (actors s) a); inversion E; subst.
    + split; [apply Q_log_rec; auto|]. split; [apply sle_log_rec | apply kwf_nil].
    + split; auto. split; [apply sle_refl | apply kwf_nil].
  - (* MToReady *) apply FIN. destruct (aget (actors s) a) as [x|] eqn:AX.
    + pose proof (w_actors _ H _ _ AX) as [A1 A2]. destruct (a_state x) eqn:SX; inversion E; subst.
      * split; [|split; [eapply sle_trans; [apply sle_upd_actor | se]|]].
        -- qe; apply Q_upd_actor; eauto. split; simpl; auto. apply lwf_nil.
        -- apply kwf_map_runitem. eapply qwf_mono; [|exact A1]. eapply sle_trans; [apply sle_upd_actor | se].
      * re.
      * re.
    + inversion E; subst. re.
  - (* MNew *) apply FIN. inversion E; subst.
    assert (L : sle s (fresh_stakker (set_mainq (emit s (ENew t)) []) t)) by (eapply sle_trans; [ | apply sle_same; reflexivity]; [se]).
    split; [|split; [exact L|]].
    + unfold fresh_stakker. apply Q_set_shut, Q_set_haslogger, Q_set_logfilter, Q_set_logseq, Q_set_recreate, Q_set_tvars, Q_set_start, Q_set_now, Q_set_alive.
      apply Q_set_mainq; [qe; auto | constructor].
    + destruct (dk s); [|constructor]. apply kwf_map_dropitem. eapply qwf_mono; [exact L | apply H].
  - (* MRunIdle *) apply FIN. destruct idle; [destruct (idleq s) as [|c r] eqn:IQ|]; inversion E; subst.
    + split; auto. split; [apply sle_refl | apply kwf_nil].
    + pose proof (w_idle _ H) as W. rewrite IQ in W. inversion W; subst.
      split; [apply Q_set_idleq; auto|]. split; [apply sle_same; reflexivity|]. constructor; [assumption | constructor].
    + split; auto. split; [apply sle_refl | apply kwf_nil].
  - (* MRunMain *) apply FIN. destruct (t >? now s).
    + inversion E; subst. clear E.
      set (s1 := if ambiguous (filter (ti_due t) (timers s)) then emit (set_now (set_mainq s []) t) (EModel M_AMBIG 0) else set_now (set_mainq s []) t).
      assert (L1 : sle s s1) by (unfold s1; destruct (ambiguous _); [eapply sle_trans; [|se]|]; apply sle_same; reflexivity).
      assert (H1 : QWF s1).
      { unfold s1. destruct (ambiguous _); [qe|]; apply Q_set_now, Q_set_mainq; auto; constructor. }
      assert (TS : timers s1 = timers s) by (unfold s1; destruct (ambiguous _); reflexivity).
      split; [|split; [eapply sle_trans; [exact L1 | apply sle_same; reflexivity]|]].
      * apply Q_set_timers; auto. eapply qwf_timers_sub; [|apply H1]. intros y Hy. apply filter_In in Hy. rewrite TS. tauto.
      * apply kwf_map_runitem. apply qwf_app. split.
        -- eapply qwf_mono; [|apply H]. eapply sle_trans; [exact L1 | apply sle_same; reflexivity].
        -- eapply qwf_mono with (s := s); [eapply sle_trans; [exact L1 | apply sle_same; reflexivity]|].
           eapply qwf_timers_sub; [|apply H]. intros y Hy. apply ti_sort_in in Hy. apply filter_In in Hy. tauto.
    + inversion E; subst. split; [apply Q_set_mainq; auto; constructor|]. split; [apply sle_same; reflexivity|].
      apply kwf_map_runitem. apply H.
  - (* MLoop *) apply FIN. destruct (mainq s) as [|c l] eqn:MQ.
    + destruct (lazyq s) as [|c l] eqn:LQ; inversion E; subst.
      * split; [|split; [|apply kwf_nil]].
        -- qe. destruct (t >? recreate s); [apply Q_set_recreate|]; auto.
        -- eapply sle_trans; [|se]. destruct (t >? recreate s); [apply sle_same; reflexivity | apply sle_refl].
      * split; [apply Q_set_lazyq; auto; constructor|]. split; [apply sle_same; reflexivity|].
        change (MRunItem c :: map MRunItem l ++ [MLoop t]) with (map MRunItem (c :: l) ++ [MLoop t]).
        apply kwf_app. split; [apply kwf_map_runitem; rewrite <- LQ; apply H | apply kwf_one_plain; reflexivity].
    + inversion E; subst. split; [apply Q_set_mainq; auto; constructor|]. split; [apply sle_same; reflexivity|].
      change (MRunItem c :: map MRunItem l ++ [MLoop t]) with (map MRunItem (c :: l) ++ [MLoop t]).
      apply kwf_app. split; [apply kwf_map_runitem; rewrite <- MQ; apply H | apply kwf_one_plain; reflexivity].
  - (* MDrain *) apply FIN. destruct (i >=? TEARDOWN_ROUNDS).
    + inversion E; subst. destruct (is_nil (mainq s)).
      * split; auto. split; [apply sle_refl | apply kwf_one_plain; reflexivity].
      * split; [qe; auto|]. split; [se | apply kwf_one_plain; reflexivity].
    + destruct (mainq s) as [|c l] eqn:MQ; inversion E; subst.
      * split; auto. split; [apply sle_refl | apply kwf_one_plain; reflexivity].
      * split; [apply Q_set_mainq; auto; constructor|]. split; [apply sle_same; reflexivity|].
        change (MDropItem c :: map MDropItem l ++ [MDrain (i + 1)]) with (map MDropItem (c :: l) ++ [MDrain (i + 1)]).
        apply kwf_app. split; [apply kwf_map_dropitem; rewrite <- MQ; apply H | apply kwf_one_plain; reflexivity].
  - (* MDropFields *) apply FIN. inversion E; subst. clear E.
    set (s0 := if ambiguous (timers s) then emit s (EModel M_AMBIG 1) else s).
    assert (L0 : sle s s0) by (unfold s0; destruct (ambiguous _); [se | apply sle_refl]).
    assert (H0 : QWF s0) by (unfold s0; destruct (ambiguous _); [qe; auto | auto]).
    assert (L1 : sle s0 (emit (set_tvars (set_timers (set_idleq (set_lazyq s0 []) []) []) []) EDropFields)).
    { eapply sle_trans; [|se]. apply sle_same; reflexivity. }
    split; [|split; [eapply sle_trans; eauto|]].
    + qe; apply Q_set_tvars, Q_set_timers; [|constructor]. apply Q_set_idleq; [|constructor]. apply Q_set_lazyq; auto. constructor.
    + apply kwf_app. split; [|apply kwf_one_plain; reflexivity]. apply kwf_map_dropitem.
      eapply qwf_mono; [exact L1|]. apply qwf_app. split; [apply H0|]. apply qwf_app. split; [apply H0|].
      eapply qwf_timers_sub; [|apply H0]. intros y Hy. apply ti_sort_in in Hy. exact Hy.
  - (* MDropEnd *) apply FIN. inversion E; subst. split; [|split; [|apply kwf_nil]].
    + qe; apply Q_set_alive. destruct (is_nil (mainq s)); [auto | qe; auto].
    + eapply sle_trans; [|se]. destruct (is_nil (mainq s)); [apply sle_same; reflexivity|].
      eapply sle_trans; [ | apply sle_same; reflexivity]; [se].
  - (* MDropAll *) apply FIN. destruct (amin (env s)) as [[h v]|] eqn:AM; inversion E; subst.
    + split; [apply Q_set_env; auto; apply lwf_adel, H|]. split; [apply sle_same; reflexivity|].
      constructor; [|apply kwf_one_plain; reflexivity]. unfold mwf; simpl. eapply lwf_amin; [apply H | eauto].
    + split; auto. split; [apply sle_refl | apply kwf_nil].
  - (* MEpilogue *) apply FIN. inversion E; subst. split; [qe; auto|]. split; [se|].
    apply kwf_plain. simpl. intros m M. repeat (destruct M as [<-|M]; [reflexivity|]). contradiction.
  - (* MLeaks *) apply FIN. inversion E; subst.
    destruct (fold_emit_opt_wf (class_flag (actors s)) (actors s) (class_flag_notgt (actors s)) s H) as [A B]. fold (class_flags s) in A, B.
    split; [apply Q_set_tr_ext; [apply leaks_notgt | auto]|]. split; [|apply kwf_nil].
    eapply sle_trans; [exact B|]. split; [simpl; lia|]. eexists. split; [reflexivity | apply fresh_notgt, leaks_notgt].
Qed.

Lemma handle_wf m k0 s pre s' : WF (m :: k0) s -> handle m s = (pre, s') -> WF (pre ++ k0) s'.
Proof.
  intros W E. destruct (handle_res _ _ _ _ _ W E) as (A & B & C). destruct W as [K H]. inversion K as [|? ? MW K0]; subst.
  split; auto. apply kwf_app. split; auto. eapply kwf_mono; eauto.
Qed.

(* the new trace extends the old one, and its target events are about uids handed out by this step *)
Lemma step_sle k s k' s' : WF k s -> step k s = Some (k', s') -> sle s s'.
Proof.
  intros W H. destruct k as [|m k0]; [discriminate|]. simpl in H.
  destruct (handle m s) as [pre s1] eqn:E. inversion H; subst. apply (handle_res _ _ _ _ _ W E).
Qed.

Theorem step_WF k s k' s' : WF k s -> step k s = Some (k', s') -> WF k' s'.
Proof.
  intros W H. destruct k as [|m k0]; [discriminate|]. simpl in H.
  destruct (handle m s) as [pre s1] eqn:E. inversion H; subst. eapply handle_wf; eauto.
Qed.

Lemma WF_init d p : WF (map MTop p ++ [MEpilogue]) (init d).
Proof.
  split.
  - apply kwf_plain. intros m M. apply in_app_or in M as [M|[<-|[]]]; [|reflexivity]. apply in_map_iff in M as (o & <- & _). reflexivity.
  - constructor; simpl; [lia | constructor | constructor | constructor | constructor | constructor | constructor | intros a0 x0 E0; discriminate E0 | reflexivity
                         | intros a0 x0 E0; discriminate E0 | intros f0 rc0 k0 a0 E0; discriminate E0].
Qed.

(* every configuration the machine reaches from a program is well-formed *)
Inductive reach (d : dkind) (p : list top) : list mop -> st -> Prop :=
| reach_init : reach d p (map MTop p ++ [MEpilogue]) (init d)
| reach_step k s k' s' : reach d p k s -> step k s = Some (k', s') -> reach d p k' s'.

Lemma reach_WF d p k s : reach d p k s -> WF k s.
Proof. intros R. induction R; [apply WF_init | eapply step_WF; eauto]. Qed.

(* ------------------------------------------------------------------ *)
(** * All nodes of a configuration (for counting invariants built on the same traversal) *)

Definition anodes (x : actor) : list node :=
  match a_state x with
  | SPrep held => flat_map cnodes held
  | SReady sh _ _ => lnodes sh
  | SZombie => []
  end ++ match a_notify x with Some nt => rnodes nt | None => [] end.

Definition snodes (s : st) : list node :=
  flat_map cnodes (mainq s) ++ flat_map cnodes (lazyq s) ++ flat_map cnodes (idleq s) ++
  flat_map (fun t => cnodes (ti_ci t)) (timers s) ++ lnodes (env s) ++
  flat_map (fun fr => lnodes (f_loc fr)) (frames s) ++ flat_map (fun p => anodes (snd p)) (actors s).

Definition cfg_nodes (k : list mop) (s : st) : list node := flat_map mnodes k ++ snodes s.
