(** Layer R proofs: two small continuation invariants used by the end-game of C05 / C03.
    [FL]: the frames of the state are exactly the pending frame pops of the continuation (in number).
    [Tail]: the continuation ends with the epilogue; when [MLeaks] is reached the environment and the frame
    stack are empty and nothing else is pending. *)
From Coq Require Import ZArith NArith List Bool Lia.
From Stk Require Import Lib.U Gen.SrcCount Gen.SrcCore Gen.SrcLog R.Syntax R.Rt R.Shape R.Eff.
Import ListNotations.
Local Open Scope Z_scope.

Definition FL (k : list mop) (s : st) : Prop := length (frames s) = length (poppers k).

Lemma eff_frames s s' : eff s s' -> length (frames s') = length (frames s).
Proof.
  intros E. induction E; auto; try (rewrite <- IHE; reflexivity).
  - rewrite <- IHE. unfold submit. destruct q; reflexivity.
  - rewrite <- IHE. simpl. rewrite <- (map_length f_ctx), H, map_length. reflexivity.
Qed.

Lemma poppers_cons m k : poppers (m :: k) = if is_popper m then m :: poppers k else poppers k.
Proof. reflexivity. Qed.

Lemma step_FL k s k' s' : FL k s -> step k s = Some (k', s') -> FL k' s'.
Proof.
  unfold FL. intros F H. destruct k as [|m k0]; [discriminate|]. simpl in H.
  destruct (handle m s) as [pre s1] eqn:E. inversion H; subst; clear H.
  rewrite poppers_app, app_length. rewrite poppers_cons in F.
  destruct (qmop m) eqn:Q.
  - destruct (handle_qmop _ _ _ _ Q E) as [_ HC]. destruct HC as [O|c M C P S|fr rest M FR P S].
    + assert (NP : is_popper m = false).
      { destruct m; try reflexivity; try discriminate Q.
        exfalso. destruct O as [EF PP|s2 loc EF X PP].
        - simpl in E. destruct (frames s) as [|fr rest] eqn:FR; inversion E; subst.
          + simpl in F. discriminate.
          + apply eff_frames in EF. simpl in EF. rewrite FR in EF. simpl in EF. lia.
        - simpl in E. destruct (frames s) as [|fr rest] eqn:FR; inversion E; subst; simpl in PP; try discriminate.
          rewrite poppers_drops in PP. discriminate. }
      rewrite NP in F. destruct O as [EF PP|s2 loc EF X PP].
      * rewrite PP. simpl. rewrite (eff_frames _ _ EF). exact F.
      * subst s'. rewrite PP. simpl. rewrite (eff_frames _ _ EF). lia.
    + subst. simpl in *. rewrite poppers_drops. simpl. exact F.
    + subst. simpl in *. rewrite poppers_drops, FR in *. simpl in *. lia.
  - destruct (is_work m) eqn:W.
    + (* runish *)
      destruct m; try discriminate W; try discriminate Q; simpl in E.
      * (* MEndBody *)
        destruct (frames s) as [|fr rest] eqn:FR; inversion E; subst; simpl in *; [discriminate|].
        rewrite poppers_app, poppers_drops. simpl.
        assert (T : forall l, l = match f with
            | FNone => []
            | FMeth a => match f_die fr with Some c => [MTerminate a c] | None => [] end
            | FPrep a ready => match f_die fr with
                | Some c => if ready then [MOrphNew a; MTerminate a c; MOrphDrop a] else [MTerminate a c]
                | None => if ready then [MToReady a] else [] end end -> poppers l = []).
        { intros l ->. destruct f; try destruct (f_die fr); try destruct ready; reflexivity. }
        rewrite (T _ eq_refl). simpl. lia.
      * (* MRunItem *)
        simpl in F. revert E. unfold run_item. destruct c as [u i kd caps q]. destruct kd; repeat dest_match;
          intros E; inversion E; subst; simpl; try exact F; try (unfold push_frame; simpl; lia).
      * (* MToReady *)
        simpl in F. destruct (aget (actors s) a) as [x|]; [destruct (a_state x)|]; inversion E; subst; simpl; try exact F.
        rewrite poppers_map_runitem. simpl. exact F.
    + (* phase / top *)
      assert (NP : is_popper m = false) by (destruct m; try reflexivity; discriminate W). rewrite NP in F.
      destruct m; try discriminate W; simpl in E.
      * unfold do_top in E. destruct o; repeat (revert E; dest_match; intros E); unfold bad in *; inversion E; subst; simpl; try exact F; try (unfold push_frame; simpl; lia).
      * inversion E; subst. rewrite poppers_map_dropitem. simpl. exact F.
      * destruct idle; [destruct (idleq s)|]; inversion E; subst; simpl; exact F.
      * unfold fire in E. simpl in E. destruct (t >? now s); inversion E; subst; rewrite poppers_map_runitem; [destruct (ambiguous _)|]; simpl; exact F.
      * destruct (mainq s) as [|c l] eqn:MQ; [destruct (lazyq s) as [|c l] eqn:LQ|]; inversion E; subst.
        -- destruct (t >? recreate s); simpl; exact F.
        -- change (MRunItem c :: map MRunItem l ++ [MLoop t]) with (map MRunItem (c :: l) ++ [MLoop t]).
           rewrite poppers_app, poppers_map_runitem. simpl. exact F.
        -- change (MRunItem c :: map MRunItem l ++ [MLoop t]) with (map MRunItem (c :: l) ++ [MLoop t]).
           rewrite poppers_app, poppers_map_runitem. simpl. exact F.
      * destruct (i >=? TEARDOWN_ROUNDS).
        -- inversion E; subst. destruct (is_nil (mainq s)); simpl; exact F.
        -- destruct (mainq s) as [|c l] eqn:MQ; inversion E; subst; simpl; try exact F.
           change (MDropItem c :: map MDropItem l ++ [MDrain (i + 1)]) with (map MDropItem (c :: l) ++ [MDrain (i + 1)]).
           rewrite poppers_app, poppers_map_dropitem. simpl. exact F.
      * inversion E; subst. rewrite poppers_app, poppers_map_dropitem. destruct (ambiguous _); simpl; exact F.
      * inversion E; subst. destruct (is_nil (mainq s)); simpl; exact F.
      * destruct (amin (env s)) as [[h v]|]; inversion E; subst; simpl; exact F.
      * inversion E; subst. simpl. exact F.
      * inversion E; subst. simpl.
        assert (FF : forall (f : N * actor -> option ev) l s0, frames (fold_left (fun s1 p0 => emit_opt s1 (f p0)) l s0) = frames s0).
        { intros f l. induction l; simpl; intros s0; auto. rewrite IHl. unfold emit_opt. destruct (f a); reflexivity. }
        unfold class_flags. rewrite FF. exact F.
Qed.

Lemma FL_init d p : FL (map MTop p ++ [MEpilogue]) (init d).
Proof. unfold FL. rewrite poppers_app. simpl. induction p; simpl; auto. Qed.

(* ------------------------------------------------------------------ *)

Definition is_end (m : mop) : bool := match m with MLeaks | MEpilogue => true | _ => false end.
Definition clean (w : list mop) : Prop := forallb (fun m => negb (is_end m)) w = true.

Lemma clean_app a b : clean a -> clean b -> clean (a ++ b).
Proof. unfold clean. intros A B. rewrite forallb_app, A, B. reflexivity. Qed.

Lemma clean_work l : forallb is_work l = true -> clean l.
Proof.
  unfold clean. induction l as [|m l IH]; simpl; auto. intros H. apply andb_prop in H as [H1 H2].
  rewrite (IH H2). destruct m; try reflexivity; discriminate H1.
Qed.

Lemma clean_map {X} (f : X -> mop) l : (forall x, is_end (f x) = false) -> clean (map f l).
Proof. unfold clean. intros H. induction l as [|x l IH]; simpl; auto. rewrite IH, H. reflexivity. Qed.

Lemma clean_cons m w : clean (m :: w) -> is_end m = false /\ clean w.
Proof. unfold clean. simpl. intros H. apply andb_prop in H as [H1 H2]. split; auto. apply negb_true_iff; auto. Qed.

Lemma handle_clean m s pre s' : handle m s = (pre, s') -> is_end m = false -> clean pre.
Proof.
  intros E NE. destruct (is_work m) eqn:W.
  { apply clean_work. eapply handle_work; eauto. }
  destruct m; try discriminate W; try discriminate NE; simpl in E.
  - unfold do_top in E. destruct o; repeat (revert E; dest_match; intros E); unfold bad in *; inversion E; subst; reflexivity.
  - inversion E; subst. apply clean_map. reflexivity.
  - destruct idle; [destruct (idleq s)|]; inversion E; subst; reflexivity.
  - destruct (t >? now s); inversion E; subst; apply clean_map; reflexivity.
  - destruct (mainq s) as [|c l] eqn:MQ; [destruct (lazyq s) as [|c l] eqn:LQ|]; inversion E; subst; try reflexivity.
    + change (MRunItem c :: map MRunItem l ++ [MLoop t]) with (map MRunItem (c :: l) ++ [MLoop t]).
      apply clean_app; [apply clean_map; reflexivity | reflexivity].
    + change (MRunItem c :: map MRunItem l ++ [MLoop t]) with (map MRunItem (c :: l) ++ [MLoop t]).
      apply clean_app; [apply clean_map; reflexivity | reflexivity].
  - destruct (i >=? TEARDOWN_ROUNDS); [inversion E; subst; reflexivity|].
    destruct (mainq s) as [|c l] eqn:MQ; inversion E; subst; try reflexivity.
    change (MDropItem c :: map MDropItem l ++ [MDrain (i + 1)]) with (map MDropItem (c :: l) ++ [MDrain (i + 1)]).
    apply clean_app; [apply clean_map; reflexivity | reflexivity].
  - inversion E; subst. apply clean_app; [apply clean_map; reflexivity | reflexivity].
  - inversion E; subst. reflexivity.
  - destruct (amin (env s)) as [[h v]|]; inversion E; subst; reflexivity.
Qed.

Inductive Tail (k : list mop) (s : st) : Prop :=
| tail_prog w : k = w ++ [MEpilogue] -> clean w -> Tail k s
| tail_epi w : k = w ++ [MDropAll; MLeaks] -> clean w -> Tail k s
| tail_leaks : k = [MLeaks] -> env s = [] -> frames s = [] -> Tail k s
| tail_done : k = [] -> Tail k s.

Lemma amin_none {X} (l : list (N * X)) : amin l = None -> l = [].
Proof. destruct l as [|[j x] r]; auto. simpl. destruct (amin r) as [[j' x']|]; [destruct (N.ltb j' j)|]; discriminate. Qed.

Lemma step_Tail k s k' s' : FL k s -> Tail k s -> step k s = Some (k', s') -> Tail k' s'.
Proof.
  intros F T H. destruct k as [|m k0]; [discriminate|]. simpl in H.
  destruct (handle m s) as [pre s1] eqn:E. inversion H; subst; clear H.
  destruct T as [w K NL|w K NL|K EN FR|K]; try discriminate.
  - destruct w as [|m' w]; simpl in K; inversion K; subst.
    + simpl in E. inversion E; subst. simpl.
      apply (tail_epi _ _ [MTop TDropStakker; MDropAll; MTop (TNew 0); MTop TDropStakker; MDropAll; MTop (TNew 0); MTop TDropStakker]); reflexivity.
    + apply clean_cons in NL as [N1 N2].
      apply (tail_prog _ _ (pre ++ w)). rewrite app_assoc. reflexivity.
      apply clean_app; auto. eapply handle_clean; eauto.
  - destruct w as [|m' w]; simpl in K; inversion K; subst.
    + simpl in E. destruct (amin (env s)) as [[h v]|] eqn:AM; inversion E; subst.
      * apply (tail_epi _ _ [MDropVal v]); reflexivity.
      * simpl. apply tail_leaks; auto.
        -- apply amin_none; auto.
        -- unfold FL in F. simpl in F. destruct (frames s'); [reflexivity | discriminate].
    + apply clean_cons in NL as [N1 N2].
      apply (tail_epi _ _ (pre ++ w)). rewrite app_assoc. reflexivity.
      apply clean_app; auto. eapply handle_clean; eauto.
  - inversion K; subst. simpl in E. inversion E; subst. simpl. apply tail_done. reflexivity.
Qed.

Lemma clean_tops p : clean (map MTop p).
Proof. apply clean_map. reflexivity. Qed.

Lemma Tail_init d p : Tail (map MTop p ++ [MEpilogue]) (init d).
Proof. apply (tail_prog _ _ (map MTop p)). reflexivity. apply clean_tops. Qed.

(* when the leak report is due, nothing else is pending *)
Lemma Tail_leaks k0 s : Tail (MLeaks :: k0) s -> k0 = [] /\ env s = [] /\ frames s = [].
Proof.
  intros T. destruct T as [w K NL|w K NL|K EN FR|K]; try discriminate.
  - destruct w as [|m' w]; simpl in K; inversion K; subst. apply clean_cons in NL as [N1 _]. discriminate.
  - destruct w as [|m' w]; simpl in K; inversion K; subst. apply clean_cons in NL as [N1 _]. discriminate.
  - inversion K; subst. auto.
Qed.
