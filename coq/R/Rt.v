(** Layer R: the executable micro-op continuation machine (DESIGN 5.3).

    Configuration [(k, s)]: [k : list mop] is the continuation (Rust's nested calls linearised),
    [s : st] the runtime state.  [step] pops one micro-op and may push others in front.
    The code modelled: core.rs (run loop 106-157, Stakker::drop 326-345, Core::new), actor.rs
    (apply / apply_prep / terminate / ActorOwn::drop / ActorOwnSlab::add), rc/actorrc_*.rs
    (to_ready / to_zombie), rc/count.rs and rc/minrc.rs (through the GENERATED functions of
    Gen/SrcCount.v), ret.rs, fwd.rs, deferrer/*.rs (abstract queue + limbo), log.rs (through
    Gen/SrcLog.v), timers at the API level.  No proofs in this file. *)
From Coq Require Import ZArith NArith List Bool.
From Stk Require Import Lib.U Gen.SrcCount Gen.SrcCore Gen.SrcLog R.Syntax.
Import ListNotations.
Local Open Scope Z_scope.

(* ------------------------------------------------------------------ *)
(** * State *)

Inductive sentry := SOcc (child : N) | SVac (next : N).

Inductive astate :=
| SPrep (held : list citem)
| SReady (sh : list (N * hval)) (slab : list sentry) (snext : N)
| SZombie.

Record actor := mkActor {
  a_state : astate;
  a_strong : Z;          (* packed CountAndState *)
  a_rc : Z;              (* MinRc count of the ActorBox *)
  a_notify : option ret;
  a_logid : Z;
  a_freed : bool }.

Inductive fwdobj := FwdObj (rc : Z) (k : fwdk) (target : option N).

Inductive ctx := XStk | XCx (a : N) (prep : bool) | XNone.

Record frame := mkFrame { f_ctx : ctx; f_loc : list (N * hval); f_die : option cause }.

Inductive titem := TI (tid : N) (k : tk) (exp : Z) (ord : Z) (ci : citem).

Inductive dkind := DGlobal | DInline.

Record st := mkSt {
  dk : dkind;
  alive : bool;
  now : Z;
  start : Z;
  mainq : list citem;
  lazyq : list citem;
  idleq : list citem;
  timers : list titem;
  tnext : N;
  tvars : list ((tk * N) * N);
  recreate : Z;
  actors : list (N * actor);
  fwds : list (N * fwdobj);
  env : list (N * hval);
  frames : list frame;
  nuid : N;
  logseq : Z;
  logfilter : Z;
  haslogger : bool;
  shut : bool;
  tr : list ev }.        (* newest first *)

Definition init (d : dkind) : st :=
  mkSt d false 0 0 [] [] [] [] 1%N [] 0 [] [] [] [] 1%N 0 0 false false [].

Definition set_alive s v := mkSt (dk s) v (now s) (start s) (mainq s) (lazyq s) (idleq s) (timers s) (tnext s) (tvars s) (recreate s) (actors s) (fwds s) (env s) (frames s) (nuid s) (logseq s) (logfilter s) (haslogger s) (shut s) (tr s).
Definition set_now s v := mkSt (dk s) (alive s) v (start s) (mainq s) (lazyq s) (idleq s) (timers s) (tnext s) (tvars s) (recreate s) (actors s) (fwds s) (env s) (frames s) (nuid s) (logseq s) (logfilter s) (haslogger s) (shut s) (tr s).
Definition set_start s v := mkSt (dk s) (alive s) (now s) v (mainq s) (lazyq s) (idleq s) (timers s) (tnext s) (tvars s) (recreate s) (actors s) (fwds s) (env s) (frames s) (nuid s) (logseq s) (logfilter s) (haslogger s) (shut s) (tr s).
Definition set_mainq s v := mkSt (dk s) (alive s) (now s) (start s) v (lazyq s) (idleq s) (timers s) (tnext s) (tvars s) (recreate s) (actors s) (fwds s) (env s) (frames s) (nuid s) (logseq s) (logfilter s) (haslogger s) (shut s) (tr s).
Definition set_lazyq s v := mkSt (dk s) (alive s) (now s) (start s) (mainq s) v (idleq s) (timers s) (tnext s) (tvars s) (recreate s) (actors s) (fwds s) (env s) (frames s) (nuid s) (logseq s) (logfilter s) (haslogger s) (shut s) (tr s).
Definition set_idleq s v := mkSt (dk s) (alive s) (now s) (start s) (mainq s) (lazyq s) v (timers s) (tnext s) (tvars s) (recreate s) (actors s) (fwds s) (env s) (frames s) (nuid s) (logseq s) (logfilter s) (haslogger s) (shut s) (tr s).
Definition set_timers s v := mkSt (dk s) (alive s) (now s) (start s) (mainq s) (lazyq s) (idleq s) v (tnext s) (tvars s) (recreate s) (actors s) (fwds s) (env s) (frames s) (nuid s) (logseq s) (logfilter s) (haslogger s) (shut s) (tr s).
Definition set_tnext s v := mkSt (dk s) (alive s) (now s) (start s) (mainq s) (lazyq s) (idleq s) (timers s) v (tvars s) (recreate s) (actors s) (fwds s) (env s) (frames s) (nuid s) (logseq s) (logfilter s) (haslogger s) (shut s) (tr s).
Definition set_tvars s v := mkSt (dk s) (alive s) (now s) (start s) (mainq s) (lazyq s) (idleq s) (timers s) (tnext s) v (recreate s) (actors s) (fwds s) (env s) (frames s) (nuid s) (logseq s) (logfilter s) (haslogger s) (shut s) (tr s).
Definition set_recreate s v := mkSt (dk s) (alive s) (now s) (start s) (mainq s) (lazyq s) (idleq s) (timers s) (tnext s) (tvars s) v (actors s) (fwds s) (env s) (frames s) (nuid s) (logseq s) (logfilter s) (haslogger s) (shut s) (tr s).
Definition set_actors s v := mkSt (dk s) (alive s) (now s) (start s) (mainq s) (lazyq s) (idleq s) (timers s) (tnext s) (tvars s) (recreate s) v (fwds s) (env s) (frames s) (nuid s) (logseq s) (logfilter s) (haslogger s) (shut s) (tr s).
Definition set_fwds s v := mkSt (dk s) (alive s) (now s) (start s) (mainq s) (lazyq s) (idleq s) (timers s) (tnext s) (tvars s) (recreate s) (actors s) v (env s) (frames s) (nuid s) (logseq s) (logfilter s) (haslogger s) (shut s) (tr s).
Definition set_env s v := mkSt (dk s) (alive s) (now s) (start s) (mainq s) (lazyq s) (idleq s) (timers s) (tnext s) (tvars s) (recreate s) (actors s) (fwds s) v (frames s) (nuid s) (logseq s) (logfilter s) (haslogger s) (shut s) (tr s).
Definition set_frames s v := mkSt (dk s) (alive s) (now s) (start s) (mainq s) (lazyq s) (idleq s) (timers s) (tnext s) (tvars s) (recreate s) (actors s) (fwds s) (env s) v (nuid s) (logseq s) (logfilter s) (haslogger s) (shut s) (tr s).
Definition set_nuid s v := mkSt (dk s) (alive s) (now s) (start s) (mainq s) (lazyq s) (idleq s) (timers s) (tnext s) (tvars s) (recreate s) (actors s) (fwds s) (env s) (frames s) v (logseq s) (logfilter s) (haslogger s) (shut s) (tr s).
Definition set_logseq s v := mkSt (dk s) (alive s) (now s) (start s) (mainq s) (lazyq s) (idleq s) (timers s) (tnext s) (tvars s) (recreate s) (actors s) (fwds s) (env s) (frames s) (nuid s) v (logfilter s) (haslogger s) (shut s) (tr s).
Definition set_logfilter s v := mkSt (dk s) (alive s) (now s) (start s) (mainq s) (lazyq s) (idleq s) (timers s) (tnext s) (tvars s) (recreate s) (actors s) (fwds s) (env s) (frames s) (nuid s) (logseq s) v (haslogger s) (shut s) (tr s).
Definition set_haslogger s v := mkSt (dk s) (alive s) (now s) (start s) (mainq s) (lazyq s) (idleq s) (timers s) (tnext s) (tvars s) (recreate s) (actors s) (fwds s) (env s) (frames s) (nuid s) (logseq s) (logfilter s) v (shut s) (tr s).
Definition set_shut s v := mkSt (dk s) (alive s) (now s) (start s) (mainq s) (lazyq s) (idleq s) (timers s) (tnext s) (tvars s) (recreate s) (actors s) (fwds s) (env s) (frames s) (nuid s) (logseq s) (logfilter s) (haslogger s) v (tr s).
Definition set_tr s v := mkSt (dk s) (alive s) (now s) (start s) (mainq s) (lazyq s) (idleq s) (timers s) (tnext s) (tvars s) (recreate s) (actors s) (fwds s) (env s) (frames s) (nuid s) (logseq s) (logfilter s) (haslogger s) (shut s) v.

Definition emit (s : st) (e : ev) : st := set_tr s (e :: tr s).

(* ------------------------------------------------------------------ *)
(** * Small library: association lists keyed by N *)

Fixpoint aget {X} (l : list (N * X)) (i : N) : option X :=
  match l with
  | [] => None
  | (j, x) :: r => if N.eqb i j then Some x else aget r i
  end.

Fixpoint adel {X} (l : list (N * X)) (i : N) : list (N * X) :=
  match l with
  | [] => []
  | (j, x) :: r => if N.eqb i j then r else (j, x) :: adel r i
  end.

(* replace in place if present, else append *)
Fixpoint aset {X} (l : list (N * X)) (i : N) (x : X) : list (N * X) :=
  match l with
  | [] => [(i, x)]
  | (j, y) :: r => if N.eqb i j then (i, x) :: r else (j, y) :: aset r i x
  end.

(* entry with the smallest key *)
Fixpoint amin {X} (l : list (N * X)) : option (N * X) :=
  match l with
  | [] => None
  | (j, x) :: r => match amin r with
                   | Some (j', x') => if N.ltb j' j then Some (j', x') else Some (j, x)
                   | None => Some (j, x)
                   end
  end.

Definition tk_eqb (a b : tk) : bool :=
  match a, b with TFixed, TFixed | TMax, TMax | TMin, TMin => true | _, _ => false end.

Fixpoint vget (l : list ((tk * N) * N)) (k : tk) (v : N) : option N :=
  match l with
  | [] => None
  | ((k', v'), x) :: r => if tk_eqb k k' && N.eqb v v' then Some x else vget r k v
  end.

Fixpoint vset (l : list ((tk * N) * N)) (k : tk) (v : N) (x : N) : list ((tk * N) * N) :=
  match l with
  | [] => [((k, v), x)]
  | ((k', v'), y) :: r => if tk_eqb k k' && N.eqb v v' then ((k, v), x) :: r else ((k', v'), y) :: vset r k v x
  end.

Definition is_nil {X} (l : list X) : bool := match l with [] => true | _ => false end.

(* ------------------------------------------------------------------ *)
(** * Micro-ops *)

Inductive fin := FNone | FMeth (a : N) | FPrep (a : N) (ready : bool).

Inductive mop :=
| MTop (o : top)
| MActs (l : list act)
| MPopFrame
| MEndBody (uid : N) (f : fin)
| MRunItem (c : citem)
| MDropItem (c : citem)
| MDropInner (c : citem)
| MDropVal (v : hval)
| MDropOwn (a : N) (logged : bool)
| MDropRef (a : N)
| MRetInvoke (r : ret) (m : option msg)
| MValDrop (a : N)         (* the Drop impl of an actor's own value begins *)
| MDelDone (k : tk) (v : N)   (* timer_del returns true *)
| MOrphNew (a : N)         (* an init step returns Some(value) although it asked to stop / fail ... *)
| MOrphDrop (a : N)        (* ... the value is dropped by apply_prep after the termination *)
| MTerminate (a : N) (c : cause)
| MLogClose (a : N) (c : cause)
| MToReady (a : N)
| MNew (t : Z)
| MRunIdle (idle : bool)
| MRunMain (t : Z)
| MLoop (t : Z)
| MDrain (i : Z)
| MDropFields
| MDropEnd
| MDropAll
| MEpilogue
| MLeaks.

(* ------------------------------------------------------------------ *)
(** * Helpers over the state *)

Definition cur_ctx (s : st) : ctx := match frames s with fr :: _ => f_ctx fr | [] => XNone end.

Definition has_core (s : st) : bool :=
  alive s && match cur_ctx s with XStk | XCx _ _ => true | XNone => false end.

Definition lookup (s : st) (h : N) : option hval :=
  match frames s with
  | fr :: _ => match aget (f_loc fr) h with Some v => Some v | None => aget (env s) h end
  | [] => aget (env s) h
  end.

(* move a handle out of the current scope (frame locals first, then the global environment) *)
Definition take (s : st) (h : N) : option hval * st :=
  match frames s with
  | fr :: rest =>
      match aget (f_loc fr) h with
      | Some v => (Some v, set_frames s (mkFrame (f_ctx fr) (adel (f_loc fr) h) (f_die fr) :: rest))
      | None => match aget (env s) h with
                | Some v => (Some v, set_env s (adel (env s) h))
                | None => (None, s)
                end
      end
  | [] => match aget (env s) h with
          | Some v => (Some v, set_env s (adel (env s) h))
          | None => (None, s)
          end
  end.

Fixpoint take_caps (ids : list N) (s : st) : list (N * hval) * st :=
  match ids with
  | [] => ([], s)
  | h :: r => match take s h with
              | (Some v, s1) => let '(l, s2) := take_caps r s1 in ((h, v) :: l, s2)
              | (None, s1) => take_caps r s1
              end
  end.

(* bind a handle in the global environment; the previous value (if any) is dropped afterwards *)
Definition bind (s : st) (h : N) (v : hval) : list mop * st :=
  match aget (env s) h with
  | Some old => ([MDropVal old], set_env s (aset (env s) h v))
  | None => ([], set_env s (aset (env s) h v))
  end.

Definition handle_actor (v : hval) : option N :=
  match v with HOwn a | HAct a => Some a | _ => None end.

Definition oz (o : option Z) : Z := match o with Some v => v | None => 0 end.
Definition ob (o : option bool) : bool := match o with Some v => v | None => false end.

Definition upd_actor (s : st) (a : N) (x : actor) : st := set_actors s (aset (actors s) a x).

Definition with_state (x : actor) (st' : astate) : actor :=
  mkActor st' (a_strong x) (a_rc x) (a_notify x) (a_logid x) (a_freed x).
Definition with_strong (x : actor) (v : Z) : actor :=
  mkActor (a_state x) v (a_rc x) (a_notify x) (a_logid x) (a_freed x).
Definition with_rc (x : actor) (v : Z) : actor :=
  mkActor (a_state x) (a_strong x) v (a_notify x) (a_logid x) (a_freed x).
Definition with_notify (x : actor) (v : option ret) : actor :=
  mkActor (a_state x) (a_strong x) (a_rc x) v (a_logid x) (a_freed x).
Definition with_freed (x : actor) (v : bool) : actor :=
  mkActor (a_state x) (a_strong x) (a_rc x) (a_notify x) (a_logid x) v.

(* clone an Actor reference: MinRc::clone through the generated function *)
Definition ref_clone (s : st) (a : N) : st :=
  match aget (actors s) a with
  | Some x => let s1 := if a_freed x then emit s (EModel M_UAF a) else s in
              upd_actor s1 a (with_rc x (oz (minrc_clone (a_rc x))))
  | None => emit s (EModel M_UAF a)
  end.

(* create a closure instance: allocate the uid, move the captured handles out of the current scope *)
Definition inst (c : clo) (mk : list act -> ckind) (s : st) : citem * st :=
  let uid := nuid s in
  let '(caps, s1) := take_caps (clo_caps c) s in
  (CI uid (clo_id c) (mk (clo_body c)) caps None, emit (set_nuid s1 (uid + 1)%N) (EClo uid (clo_id c))).

Definition target_ev (s : st) (ci : citem) : st :=
  match ci with
  | CI u _ (KMeth a _ _) _ _ => emit s (ETarget u a false)
  | CI u _ (KPrep a _ _) _ _ => emit s (ETarget u a true)
  | _ => s
  end.

Definition inst_call (c : clo) (mk : list act -> ckind) (s : st) : citem * st :=
  let '(ci, s1) := inst c mk s in (ci, target_ev s1 ci).

Definition inst_nocaps (c : clo) (mk : list act -> ckind) (s : st) : citem * st :=
  let uid := nuid s in
  (CI uid (clo_id c) (mk (clo_body c)) [] None, emit (set_nuid s (uid + 1)%N) (EClo uid (clo_id c))).

(* closures created inside a Drop impl (token scripts) capture from the global environment only *)
Fixpoint take_env_caps (ids : list N) (s : st) : list (N * hval) * st :=
  match ids with
  | [] => ([], s)
  | h :: r => match aget (env s) h with
              | Some v => let '(l, s2) := take_env_caps r (set_env s (adel (env s) h)) in ((h, v) :: l, s2)
              | None => take_env_caps r s
              end
  end.

Definition inst_env (c : clo) (mk : list act -> ckind) (s : st) : citem * st :=
  let '(caps, s1) := take_env_caps (clo_caps c) s in
  let uid := nuid s1 in
  (CI uid (clo_id c) (mk (clo_body c)) caps None, emit (set_nuid s1 (uid + 1)%N) (EClo uid (clo_id c))).

Definition push_main (s : st) (ci : citem) : st := set_mainq s (mainq s ++ [ci]).

Definition submit (s : st) (q : qk) (ci : citem) : st :=
  let s1 := emit s (ESub q (ci_uid ci) (ci_call ci)) in
  let ci := ci_setq ci q in
  match q with
  | QMain => push_main s1 ci
  | QLazy => set_lazyq s1 (lazyq s1 ++ [ci])
  | QIdle => set_idleq s1 (idleq s1 ++ [ci])
  | QTimer => s1
  end.

Definition push_frame (s : st) (c : ctx) (loc : list (N * hval)) : st :=
  set_frames s (mkFrame c loc None :: frames s).

Definition allows (s : st) (lvl : Z) : bool := ob (logfilter_allows (logfilter s) lvl).

Definition filter_of (lvls : list Z) : Z :=
  fold_left (fun acc l => Z.lor acc (oz (logfilter_from l))) lvls 0.

Definition ctx_logid (s : st) : Z :=
  match cur_ctx s with
  | XCx a _ => match aget (actors s) a with Some x => a_logid x | None => 0 end
  | _ => 0
  end.

Definition log_rec (s : st) (id lvl parent : Z) (marker : N) : st :=
  if allows s lvl && haslogger s then emit s (ELog id lvl parent marker) else s.

Definition marker_of (c : cause) : N :=
  match c with CStop => 0%N | CFail _ => 1%N | CKill _ => 2%N | CDrop => 3%N end.

Definition drops (l : list (N * hval)) : list mop := map (fun p => MDropVal (snd p)) l.

Fixpoint slab_drops (l : list sentry) : list mop :=
  match l with
  | [] => []
  | SOcc c :: r => MDropOwn c false :: slab_drops r
  | SVac _ :: r => slab_drops r
  end.

Fixpoint slab_len (l : list sentry) : Z :=
  match l with [] => 0 | SOcc _ :: r => 1 + slab_len r | SVac _ :: r => slab_len r end.

Fixpoint list_set {X} (l : list X) (i : nat) (x : X) : list X :=
  match l, i with
  | [], _ => []
  | _ :: r, O => x :: r
  | y :: r, S j => y :: list_set r j x
  end.

(* slab crate key policy: insert at [next]; a vacated key becomes the head of the free list *)
Definition slab_insert (l : list sentry) (next : N) (child : N) : list sentry * N * N :=
  match nth_error l (N.to_nat next) with
  | Some (SVac nx) => (list_set l (N.to_nat next) (SOcc child), nx, next)
  | _ => (l ++ [SOcc child], (N.of_nat (length l) + 1)%N, N.of_nat (length l))
  end.

(* what dropping the contents of an actor cell does *)
Definition state_drops (a : N) (sa : astate) (s : st) : list mop * st :=
  match sa with
  | SPrep held => (map MDropItem held, s)
  | SReady sh slab _ => (MValDrop a :: drops sh ++ slab_drops slab, s)
  | SZombie => ([], s)
  end.

(* ------------------------------------------------------------------ *)
(** * Timers, abstract at the API level *)

Definition ti_tid (t : titem) := match t with TI i _ _ _ _ => i end.
Definition ti_ci (t : titem) := match t with TI _ _ _ _ c => c end.
Definition ti_key (t : titem) : Z := match t with TI _ TFixed _ o _ => o | TI _ _ e _ _ => e end.
Definition ti_isvar (t : titem) : bool := match t with TI _ TFixed _ _ _ => false | _ => true end.

Definition ti_le (x y : titem) : bool :=
  (ti_key x <? ti_key y) || ((ti_key x =? ti_key y) && N.leb (ti_tid x) (ti_tid y)).

Fixpoint ti_insert (x : titem) (l : list titem) : list titem :=
  match l with
  | [] => [x]
  | y :: r => if ti_le x y then x :: l else y :: ti_insert x r
  end.

Definition ti_sort (l : list titem) : list titem := fold_right ti_insert [] l.

Definition ti_due (t : Z) (x : titem) : bool := match x with TI _ _ e _ _ => e <=? t end.

Definition ambiguous (l : list titem) : bool :=
  existsb ti_isvar l && negb (Nat.leb (length l) 1).

Fixpoint ti_find (l : list titem) (i : N) : option titem :=
  match l with
  | [] => None
  | x :: r => if N.eqb (ti_tid x) i then Some x else ti_find r i
  end.

Fixpoint ti_remove (l : list titem) (i : N) : list titem :=
  match l with
  | [] => []
  | x :: r => if N.eqb (ti_tid x) i then r else x :: ti_remove r i
  end.

Fixpoint ti_update (l : list titem) (i : N) (f : titem -> titem) : list titem :=
  match l with
  | [] => []
  | x :: r => if N.eqb (ti_tid x) i then f x :: r else x :: ti_update r i f
  end.

(* the pending timer a variable refers to, if it is still pending *)
Definition var_timer (s : st) (k : tk) (v : N) : option titem :=
  match vget (tvars s) k v with
  | Some i => ti_find (timers s) i
  | None => None
  end.

Definition timer_add (s : st) (k : tk) (v : N) (t : Z) (ci : citem) : st :=
  let i := tnext s in
  let ord := Z.max t (now s) in
  let s1 := emit (emit s (ESub QTimer (ci_uid ci) (ci_call ci))) (ETimerVar k v (ci_uid ci)) in
  let ci := ci_setq ci QTimer in
  set_tvars (set_tnext (set_timers s1 (timers s1 ++ [TI i k t ord ci])) (i + 1)%N) (vset (tvars s1) k v i).

(* ------------------------------------------------------------------ *)
(** * Leak accounting: what was created and never consumed, computed from the trace *)

Definition created (e : ev) : option (N * N) :=
  match e with
  | EClo u _ => Some (LK_CLO, u)
  | EReady a => Some (LK_VAL, a)
  | ERetNew r => Some (LK_RET, r)
  | EActor a => Some (LK_NOTIFY, a)
  | ETokNew t => Some (LK_TOK, t)
  | EFwdNew f => Some (LK_FWD, f)
  | EOrphNew a => Some (LK_ORPH, a)
  | _ => None
  end.

Definition consumed (e : ev) : option (N * N) :=
  match e with
  | ERun u _ _ | EMeth _ u _ | EPrep _ u _ | EDrop u _ _ => Some (LK_CLO, u)
  | EValDrop a => Some (LK_VAL, a)
  | ERet r _ => Some (LK_RET, r)
  | ENotify a _ => Some (LK_NOTIFY, a)
  | ETokDrop t => Some (LK_TOK, t)
  | EFwdFree f => Some (LK_FWD, f)
  | EOrphDrop a => Some (LK_ORPH, a)
  | _ => None
  end.

Definition pair_eqb (x y : N * N) : bool := N.eqb (fst x) (fst y) && N.eqb (snd x) (snd y).

Fixpoint remove_first (x : N * N) (l : list (N * N)) : list (N * N) :=
  match l with
  | [] => []
  | y :: r => if pair_eqb x y then r else y :: remove_first x r
  end.

(* [t] oldest first *)
Fixpoint live_after (t : list ev) (live : list (N * N)) : list (N * N) :=
  match t with
  | [] => live
  | e :: r =>
      let live1 := match created e with Some p => live ++ [p] | None => live end in
      let live2 := match consumed e with Some p => remove_first p live1 | None => live1 end in
      live_after r live2
  end.

Definition leaks (t : list ev) : list ev := map (fun p => ELeak (fst p) (snd p)) (live_after t []).

(* ------------------------------------------------------------------ *)
(** * Class predicates of the known findings, decided on the final state of the model *)

(* does the notifier of a child hold a reference to actor [p]? *)
Fixpoint ret_refs (r : ret) (p : N) : bool :=
  match r with
  | Ret _ (RKNotify _ (Some (q, _))) => N.eqb p q
  | Ret _ (RKSlab q _ inner) => N.eqb p q || ret_refs inner p
  | _ => false
  end.

Definition child_refs (l : list (N * actor)) (p : N) (c : N) : bool :=
  match aget l c with
  | Some x => match a_notify x with Some nt => ret_refs nt p | None => false end
  | None => false
  end.

Definition owned_children (sa : astate) : list N :=
  match sa with
  | SReady sh slab _ =>
      flat_map (fun hv => match snd hv with HOwn c | HAnon c => [c] | _ => [] end) sh ++
      flat_map (fun e => match e with SOcc c => [c] | SVac _ => [] end) slab
  | _ => []
  end.

(* F5 (PendingTermAtTeardown): a Prep actor left with held calls.
   F7 (PendingTermChildCycle): an unterminated actor owning a child whose notifier refers back to it. *)
Definition class_flag (all : list (N * actor)) (p : N * actor) : option ev :=
  let a := fst p in let x := snd p in
  if a_freed x then None else
  match a_state x with
  | SPrep (_ :: _) => Some (EModel M_PREPHELD a)
  | SReady _ _ _ =>
      if existsb (child_refs all a) (owned_children (a_state x)) then Some (EModel M_CHILDCYCLE a) else None
  | _ => None
  end.

Definition emit_opt (s : st) (o : option ev) : st := match o with Some e => emit s e | None => s end.

Definition class_flags (s : st) : st :=
  fold_left (fun s0 p => emit_opt s0 (class_flag (actors s) p)) (actors s) s.

(* ------------------------------------------------------------------ *)
(** * Acts *)

Definition bad (s : st) (code : N) : list mop * st := ([], emit s (EBad code)).

Definition tok_script (s : st) (script : list clo) : st :=
  fold_left (fun s0 c => let '(ci, s1) := inst_env c KPlain s0 in submit s1 QMain ci) script s.

(* the notifier of a new actor *)
Definition mk_notifier (s : st) (a : N) (n : option (N * clo)) : ret * st :=
  match n with
  | None => (Ret a (RKNotify a None), s)
  | Some (hp, c) =>
      match lookup s hp with
      | Some v =>
          match handle_actor v with
          | Some p =>
              let s1 := ref_clone s p in
              let '(ci, s2) := inst_call c (fun b => KMeth p b None) s1 in
              (Ret a (RKNotify a (Some (p, ci))), s2)
          | None => (Ret a (RKNotify a None), emit s (EBad 20))
          end
      | None => (Ret a (RKNotify a None), emit s (EBad 20))
      end
  end.

(* ActorRc::new + ActorOwn::construct *)
Definition new_actor (s : st) (a : N) (nt : ret) (parent : Z) (visible_owner : bool) : st :=
  let id := oz (log_id_next (logseq s)) in
  let s1 := set_logseq s id in
  let s2 := log_rec s1 id LOGLEVEL_OPEN parent 0 in
  let strong := oz (count_inc (oz count_new)) in
  let x := mkActor (SPrep []) strong MINRC_INIT (Some nt) id false in
  let s3 := emit (upd_actor s2 a x) (EActor a) in
  if visible_owner then emit s3 (EOwnNew a) else s3.

Definition do_act (a : act) (s : st) : list mop * st :=
  match a with
  | ADefer c =>
      if has_core s then let '(ci, s1) := inst c KPlain s in ([], submit s1 QMain ci) else bad s 1
  | ADeferD c => let '(ci, s1) := inst c KPlain s in ([], submit s1 QMain ci)
  | ALazy c =>
      if has_core s then let '(ci, s1) := inst c KPlain s in ([], submit s1 QLazy ci) else bad s 2
  | AIdle c =>
      if has_core s then let '(ci, s1) := inst c KPlain s in ([], submit s1 QIdle ci) else bad s 3
  | ATimerAdd k v t c =>
      if has_core s then let '(ci, s1) := inst c KPlain s in ([], timer_add s1 k v t ci) else bad s 4
  | AAfter v d c =>
      if has_core s then let '(ci, s1) := inst c KPlain s in ([], timer_add s1 TFixed v (now s1 + d) ci) else bad s 5
  | ATimerMac k v t c =>
      if has_core s then
        match k with
        | TFixed => bad s 6
        | _ =>
            let '(ci, s1) := inst c KPlain s in
            match var_timer s1 k v with
            | Some (TI i _ e o ci0) =>
                let e' := match k with TMax => Z.max e t | _ => Z.min e t end in
                ([MDropItem ci], set_timers s1 (ti_update (timers s1) i (fun _ => TI i k e' o ci0)))
            | None => ([], timer_add s1 k v t ci)
            end
        end
      else bad s 6
  | ATimerUpd k v t =>
      if has_core s then
        match k with
        | TFixed => bad s 7
        | _ =>
            match var_timer s k v with
            | Some (TI i _ e o ci0) =>
                let e' := match k with TMax => Z.max e t | _ => Z.min e t end in
                ([], emit (set_timers s (ti_update (timers s) i (fun _ => TI i k e' o ci0))) (EBool TAG_UPD true))
            | None => ([], emit s (EBool TAG_UPD false))
            end
        end
      else bad s 7
  | ATimerDel k v =>
      if has_core s then
        match var_timer s k v with
        | Some (TI i _ _ _ ci0) =>
            (* the closure leaves the timer set: it is dropped as a closure that sits in no queue *)
            ([MDropItem (ci_unq ci0); MDelDone k v], set_timers s (ti_remove (timers s) i))
        | None => ([], emit s (ETimerDel k v false))
        end
      else bad s 8
  | ATimerActive k v =>
      if has_core s then
        match k with
        | TFixed => bad s 9
        | _ => ([], emit s (EBool TAG_ACTIVE (match var_timer s k v with Some _ => true | None => false end)))
        end
      else bad s 9
  | ANewActor h a n =>
      if has_core s then
        match aget (actors s) a with
        | Some _ => bad s 10
        | None =>
            let parent := ctx_logid s in
            let '(nt, s1) := mk_notifier s a n in
            let s2 := new_actor s1 a nt parent true in
            bind s2 h (HOwn a)
        end
      else bad s 10
  | ACall h c =>
      match lookup s h with
      | Some v =>
          match handle_actor v with
          | Some a =>
              let s1 := ref_clone s a in
              let '(ci, s2) := inst_call c (fun b => KMeth a b None) s1 in
              ([], submit s2 QMain ci)
          | None => bad s 11
          end
      | None => bad s 11
      end
  | ACallPrep h c ready =>
      match lookup s h with
      | Some v =>
          match handle_actor v with
          | Some a =>
              let s1 := ref_clone s a in
              let '(ci, s2) := inst_call c (fun b => KPrep a b ready) s1 in
              ([], submit s2 QMain ci)
          | None => bad s 12
          end
      | None => bad s 12
      end
  | AStop =>
      match frames s with
      | mkFrame (XCx a p) loc die :: rest =>
          let die' := match die with Some d => Some d | None => Some CStop end in
          ([], emit (set_frames s (mkFrame (XCx a p) loc die' :: rest)) (EReq a CStop))
      | _ => bad s 13
      end
  | AFail e =>
      match frames s with
      | mkFrame (XCx a p) loc die :: rest =>
          let die' := match die with Some d => Some d | None => Some (CFail e) end in
          ([], emit (set_frames s (mkFrame (XCx a p) loc die' :: rest)) (EReq a (CFail e)))
      | _ => bad s 14
      end
  | AKill h e =>
      match cur_ctx s, alive s with
      | XStk, true =>
          match lookup s h with
          | Some (HOwn a) => ([MTerminate a (CKill e)], emit s (EReq a (CKill e)))
          | _ => bad s 15
          end
      | _, _ => bad s 15
      end
  | AKillAsync h e =>
      match lookup s h with
      | Some (HOwn a) =>
          match aget (actors s) a with
          | Some x =>
              let s1 := upd_actor s a (with_strong x (oz (count_inc (a_strong x)))) in
              let s2 := ref_clone s1 a in
              ([], push_main (emit s2 (EReq a (CKill e))) (CI 0 0 (KKill a e) [] None))
          | None => bad s 16
          end
      | _ => bad s 16
      end
  | AOwned h h2 =>
      match lookup s h with
      | Some (HOwn a) =>
          match aget (actors s) a with
          | Some x =>
              let s1 := upd_actor s a (with_strong x (oz (count_inc (a_strong x)))) in
              let s2 := ref_clone s1 a in
              bind (emit s2 (EOwnNew a)) h2 (HOwn a)
          | None => bad s 17
          end
      | _ => bad s 17
      end
  | AClone h h2 =>
      match lookup s h with
      | Some (HOwn a) | Some (HAct a) => bind (ref_clone s a) h2 (HAct a)
      | Some (HFwd f) =>
          match aget (fwds s) f with
          | Some (FwdObj rc k tg) =>
              bind (set_fwds s (aset (fwds s) f (FwdObj (oz (minrc_clone rc)) k tg))) h2 (HFwd f)
          | None => bad s 18
          end
      | _ => bad s 18
      end
  | AAnon h h2 =>
      match lookup s h with
      | Some (HOwn a) => let '(_, s1) := take s h in bind s1 h2 (HAnon a)
      | _ => bad s 19
      end
  | AStore h =>
      match cur_ctx s with
      | XCx a false =>
          match aget (actors s) a with
          | Some x =>
              match a_state x with
              | SReady sh slab nx =>
                  match take s h with
                  | (Some v, s1) => ([], upd_actor s1 a (with_state x (SReady (sh ++ [(h, v)]) slab nx)))
                  | (None, s1) => ([], s1)
                  end
              | _ => bad s 21
              end
          | None => bad s 21
          end
      | _ => bad s 21
      end
  | ADropH h =>
      match take s h with
      | (Some v, s1) => ([MDropVal v], s1)
      | (None, s1) => ([], s1)
      end
  | ASlabAdd h a n =>
      match cur_ctx s, alive s with
      | XCx p false, true =>
          match aget (actors s) p, aget (actors s) a with
          | Some px, None =>
              match a_state px with
              | SReady sh slab nx =>
                  let '(inner, s1) := mk_notifier s a n in
                  let s2 := ref_clone s1 p in                      (* the wrapper's [parent] *)
                  let '(slab', nx', key) := slab_insert slab nx a in
                  let s3 := new_actor s2 a (Ret a (RKSlab p key inner)) (a_logid px) false in
                  let s4 := ref_clone s3 a in                      (* actorown.clone() *)
                  let s5 := match aget (actors s4) p with
                            | Some px' => upd_actor s4 p (with_state px' (SReady sh slab' nx'))
                            | None => s4
                            end in
                  bind (emit s5 (ESlabAdd p a)) h (HAct a)
              | _ => bad s 22
              end
          | _, _ => bad s 22
          end
      | _, _ => bad s 22
      end
  | ASlabLen =>
      match cur_ctx s with
      | XCx a false =>
          match aget (actors s) a with
          | Some x => match a_state x with
                      | SReady _ slab _ => ([], emit s (ESlabLen a (slab_len slab)))
                      | _ => bad s 23
                      end
          | None => bad s 23
          end
      | _ => bad s 23
      end
  | AIsZombie h =>
      match lookup s h with
      | Some v =>
          match handle_actor v with
          | Some a => match aget (actors s) a with
                      | Some x => ([], emit s (EIsZombie a (ob (count_is_zombie (a_strong x)))))
                      | None => bad s 24
                      end
          | None => bad s 24
          end
      | None => bad s 24
      end
  | ANewRet h r k =>
      match k with
      | RClos caps body =>
          let '(cv, s1) := take_caps caps s in
          bind (emit s1 (ERetNew r)) h (HRet (Ret r (RKClos cv body)))
      | RTo ht c =>
          match lookup s ht with
          | Some v => match handle_actor v with
                      | Some a =>
                          let s1 := ref_clone s a in
                          let '(ci, s2) := inst_call c (fun b => KMeth a b None) s1 in
                          bind (emit (emit s2 (ERetNew r)) (ERetTo r (ci_uid ci) false)) h (HRet (Ret r (RKTo a ci)))
                      | None => bad s 25
                      end
          | None => bad s 25
          end
      | RSomeTo ht c =>
          match lookup s ht with
          | Some v => match handle_actor v with
                      | Some a =>
                          let s1 := ref_clone s a in
                          let '(ci, s2) := inst_call c (fun b => KMeth a b None) s1 in
                          bind (emit (emit s2 (ERetNew r)) (ERetTo r (ci_uid ci) true)) h (HRet (Ret r (RKSomeTo a ci)))
                      | None => bad s 25
                      end
          | None => bad s 25
          end
      end
  | ARetSend h v =>
      match lookup s h with
      | Some (HRet (Ret rid rk)) =>
          let '(_, s1) := take s h in ([MRetInvoke (Ret rid rk) (Some (MNum v))], emit s1 (ERetSent rid v))
      | _ => bad s 26
      end
  | ANewFwd h f k =>
      match aget (fwds s) f with
      | Some _ => bad s 27
      | None =>
          match k with
          | FClos body =>
              bind (emit (set_fwds s (aset (fwds s) f (FwdObj MINRC_INIT k None))) (EFwdNew f)) h (HFwd f)
          | FTo ht c =>
              match lookup s ht with
              | Some v => match handle_actor v with
                          | Some a =>
                              let s1 := ref_clone s a in
                              bind (set_fwds s1 (aset (fwds s1) f (FwdObj MINRC_INIT k (Some a)))) h (HFwd f)
                          | None => bad s 27
                          end
              | None => bad s 27
              end
          end
      end
  | AFwdSend h v =>
      match lookup s h with
      | Some (HFwd f) =>
          match aget (fwds s) f with
          | Some (FwdObj rc (FClos body) tg) =>
              (* the sender holds its own clone while the handler runs *)
              let s1 := set_fwds s (aset (fwds s) f (FwdObj (oz (minrc_clone rc)) (FClos body) tg)) in
              ([MActs body; MPopFrame; MDropVal (HFwd f)], push_frame (emit s1 (EFwd f v)) XNone [])
          | Some (FwdObj _ (FTo _ c) (Some a)) =>
              let s1 := ref_clone s a in
              let '(ci, s2) := inst_nocaps c (fun b => KMeth a b (Some v)) s1 in
              ([], submit (target_ev s2 ci) QMain ci)
          | _ => bad s 28
          end
      | _ => bad s 28
      end
  | ANewTok h t script => bind (emit s (ETokNew t)) h (HTok t script)
  | ALog lvl => if has_core s then ([], log_rec (emit s (ELogReq (ctx_logid s) lvl)) (ctx_logid s) lvl 0 0) else bad s 29
  | ALogCheck lvl => if has_core s then ([], emit s (ELogCheck lvl (allows s lvl))) else bad s 30
  | ANow => if has_core s then ([], emit s (ENum TAG_NOW (now s))) else bad s 31
  | AStart => if has_core s then ([], emit s (ENum TAG_START (start s))) else bad s 32
  | AShutdown => if has_core s then ([], set_shut (emit s (EBool TAG_NOTSHUT (negb (shut s)))) true) else bad s 33
  | ARep n l =>
      match n with
      | N0 => ([], s)
      | _ => ([MActs l; MActs [ARep (N.pred n) l]], s)
      end
  end.

(* ------------------------------------------------------------------ *)
(** * The step function *)

Definition apply_kind (k : ckind) : bool :=
  match k with KMeth _ _ _ | KSlabRm _ _ => true | _ => false end.

Definition run_item (ci : citem) (s : st) : list mop * st :=
  match ci with
  | CI uid cid kind caps sq =>
      match kind with
      | KPlain body =>
          ([MActs body; MEndBody uid FNone],
           push_frame (emit s (ERun uid (now s) (match sq with Some q => q | None => QMain end))) XStk caps)
      | KMeth a body arg =>
          match aget (actors s) a with
          | Some x =>
              match a_state x with
              | SReady _ _ _ =>
                  ([MActs body; MEndBody uid (FMeth a); MDropRef a],
                   push_frame (emit s (EMeth a uid (now s))) (XCx a false) caps)
              | SPrep held => ([], upd_actor s a (with_state x (SPrep (held ++ [ci]))))
              | SZombie => ([MDropInner ci; MDropRef a], s)
              end
          | None => ([MDropInner ci], emit s (EModel M_UAF a))
          end
      | KPrep a body ready =>
          match aget (actors s) a with
          | Some x =>
              if ob (count_is_prep (a_strong x)) then
                ([MActs body; MEndBody uid (FPrep a ready); MDropRef a],
                 push_frame (emit s (EPrep a uid (now s))) (XCx a true) caps)
              else ([MDropInner ci; MDropRef a], s)
          | None => ([MDropInner ci], emit s (EModel M_UAF a))
          end
      | KSlabRm p key =>
          match aget (actors s) p with
          | Some x =>
              match a_state x with
              | SReady sh slab nx =>
                  match nth_error slab (N.to_nat key) with
                  | Some (SOcc child) =>
                      ([MDropOwn child false; MDropRef p],
                       upd_actor s p (with_state x (SReady sh (list_set slab (N.to_nat key) (SVac nx)) key)))
                  | _ => ([MDropRef p], emit s (EBad 40))
                  end
              | SPrep held => ([], upd_actor s p (with_state x (SPrep (held ++ [ci]))))
              | SZombie => ([MDropRef p], s)
              end
          | None => ([], emit s (EModel M_UAF p))
          end
      | KTerm a => ([MTerminate a CDrop; MDropRef a], s)
      | KKill a e => ([MTerminate a (CKill e); MDropOwn a false], s)
      end
  end.

(* a queue item dropped without running: the outer closure's captures go in declaration order *)
Definition drop_item (ci : citem) (s : st) : list mop * st :=
  match ci with
  | CI uid cid kind caps sq =>
      match kind with
      | KPlain _ => (drops caps, emit s (EDrop uid sq false))
      | KMeth a _ _ | KPrep a _ _ => ([MDropRef a; MDropInner ci], s)
      | KSlabRm p _ => ([MDropRef p], s)
      | KTerm a => ([MDropRef a], s)
      | KKill a _ => ([MDropOwn a false], s)
      end
  end.

Definition msg_num (m : option msg) : option N :=
  match m with Some (MNum v) => Some v | _ => None end.
Definition msg_cause (m : option msg) : option cause :=
  match m with Some (MCause c) => Some c | _ => None end.

(* the call closure kept inside a Ret, with its argument filled in (always a call to [a]) *)
Definition as_call (a : N) (ci : citem) (arg : option N) : citem :=
  match ci with
  | CI u c k caps q =>
      CI u c (KMeth a (match k with KMeth _ b _ | KPlain b | KPrep _ b _ => b | _ => [] end) arg) caps q
  end.

Definition ret_invoke (r : ret) (m : option msg) (s : st) : list mop * st :=
  match r with
  | Ret rid k =>
      match k with
      | RKClos caps body =>
          ([MActs body; MPopFrame], push_frame (emit s (ERet rid (msg_num m))) XNone caps)
      | RKTo a ci =>
          ([], submit (emit s (ERet rid (msg_num m))) QMain (as_call a ci (msg_num m)))
      | RKSomeTo a ci =>
          match m with
          | Some _ => ([], submit (emit s (ERet rid (msg_num m))) QMain (as_call a ci (msg_num m)))
          | None => ([MDropRef a; MDropInner ci], emit s (ERet rid None))
          end
      | RKNotify a inner =>
          let s1 := emit s (ENotify a (msg_cause m)) in
          match inner with
          | Some (p, ci) => ([], submit s1 QMain (as_call p ci None))
          | None => ([], s1)
          end
      | RKSlab p key inner =>
          match m with
          | Some _ =>
              let s1 := ref_clone s p in
              ([MRetInvoke inner m; MDropRef p], push_main s1 (CI 0 0 (KSlabRm p key) [] None))
          | None => ([MDropRef p; MRetInvoke inner None], s)
          end
      end
  end.

Definition terminate (a : N) (c : cause) (s : st) : list mop * st :=
  match aget (actors s) a with
  | Some x =>
      let x1 := mkActor SZombie (oz (count_set_state (a_strong x) STATE_ZOMBIE)) (a_rc x) None (a_logid x) (a_freed x) in
      let s0 := if a_freed x then emit s (EModel M_UAF a) else s in
      let '(dl, s1) := state_drops a (a_state x) (upd_actor s0 a x1) in
      match a_notify x with
      | Some nt => (dl ++ [MLogClose a c; MRetInvoke nt (Some (MCause c))], s1)
      | None => (dl, s1)
      end
  | None => ([], emit s (EModel M_UAF a))
  end.

Definition drop_own (a : N) (logged : bool) (s : st) : list mop * st :=
  let s0 := if logged then emit s (EOwnDrop a) else s in
  match aget (actors s0) a with
  | Some x =>
      match count_dec (a_strong x) with
      | Some (v, z) =>
          let s1 := upd_actor s0 a (with_strong x v) in
          if z then ([MDropRef a], push_main (ref_clone s1 a) (CI 0 0 (KTerm a) [] None))
          else ([MDropRef a], s1)
      | None => ([MDropRef a], emit s0 (EBad 41))
      end
  | None => ([], emit s0 (EModel M_UAF a))
  end.

Definition drop_ref (a : N) (s : st) : list mop * st :=
  match aget (actors s) a with
  | Some x =>
      if a_freed x then ([], emit s (EModel M_UAF a)) else
      match minrc_drop (a_rc x) with
      | Some (v, z) =>
          if z then
            (* the cell is gone; in the model its packed word is marked Zombie so that nothing can treat it as Prep / Ready *)
            let x1 := mkActor SZombie (oz (count_set_state (a_strong x) STATE_ZOMBIE)) v None (a_logid x) true in
            let s1 := emit (upd_actor s a x1) (EModel M_FREE_ACTOR a) in
            let nl := match a_notify x with Some nt => [MRetInvoke nt None] | None => [] end in
            let '(dl, s2) := state_drops a (a_state x) s1 in
            (nl ++ dl, s2)
          else ([], upd_actor s a (with_rc x v))
      | None => ([], emit s (EBad 42))
      end
  | None => ([], emit s (EModel M_UAF a))
  end.

Definition drop_val (v : hval) (s : st) : list mop * st :=
  match v with
  | HOwn a | HAnon a => ([MDropOwn a true], s)
  | HAct a => ([MDropRef a], s)
  | HRet r => ([MRetInvoke r None], s)
  | HFwd f =>
      match aget (fwds s) f with
      | Some (FwdObj rc k tg) =>
          match minrc_drop rc with
          | Some (v', z) =>
              let s1 := set_fwds s (aset (fwds s) f (FwdObj v' k tg)) in
              if z then
                match k, tg with
                | FClos _, _ => ([], emit s1 (EFwdFree f))
                | FTo _ _, Some a => ([MDropRef a], s1)
                | FTo _ _, None => ([], s1)
                end
              else ([], s1)
          | None => ([], emit s (EBad 43))
          end
      | None => ([], emit s (EBad 43))
      end
  | HTok t script => ([], tok_script (emit s (ETokDrop t)) script)
  end.

Definition fire (t : Z) (s : st) : list citem * st :=
  let due := filter (ti_due t) (timers s) in
  let rest := filter (fun x => negb (ti_due t x)) (timers s) in
  let s1 := if ambiguous due then emit s (EModel M_AMBIG 0) else s in
  (map ti_ci (ti_sort due), set_timers s1 rest).

Definition fresh_stakker (s : st) (t : Z) : st :=
  let s1 := set_start (set_now (set_alive s true) t) t in
  (* the lazy / idle queues and the timers of the previous instance were dropped with it *)
  let s2 := set_tvars s1 [] in
  set_shut (set_haslogger (set_logfilter (set_logseq (set_recreate s2 (t + RECREATE_SECS * 1000)) 0) 0) false) false.

Definition do_top (o : top) (s : st) : list mop * st :=
  match o with
  | TNew t => if alive s then ([MTop TDropStakker; MNew t], s) else ([MNew t], s)
  | TRun t idle =>
      if alive s then ([MRunIdle idle; MRunMain t; MLoop t], emit s (ERunBegin t idle))
      else bad s 50
  | TDo l => ([MActs l; MPopFrame], push_frame s (if alive s then XStk else XNone) [])
  | TDropStakker => if alive s then ([MDrain 0], emit s EDropBegin) else ([], s)
  | TDropAll => ([MDropAll], s)
  | TSetLogger lvls =>
      if alive s then ([], set_haslogger (set_logfilter (emit s (ESetLogger lvls)) (filter_of lvls)) true) else bad s 51
  | TSetFilter lvls =>
      if alive s then
        let s0 := emit s (ESetFilter lvls) in
        let s1 := if haslogger s0 then emit s0 (ELog 0 LOGLEVEL_INFO 0 9) else s0 in
        ([], set_logfilter s1 (filter_of lvls))
      else bad s 52
  end.

(* what one micro-op does: the micro-ops it pushes in front of the continuation, and the new state *)
Definition handle (m : mop) (s : st) : list mop * st :=
  match m with
  | MTop o => do_top o s
  | MActs [] => ([], s)
  | MActs (a :: l) => let '(p, s1) := do_act a s in (p ++ [MActs l], s1)
  | MPopFrame =>
      match frames s with
      | fr :: rest => (drops (f_loc fr), set_frames s rest)
      | [] => ([], s)
      end
  | MEndBody uid f =>
      match frames s with
      | fr :: rest =>
          let s1 := set_frames (emit s (EEnd uid)) rest in
          let tail :=
            match f with
            | FNone => []
            | FMeth a => match f_die fr with Some c => [MTerminate a c] | None => [] end
            | FPrep a ready =>
                match f_die fr with
                | Some c => if ready then [MOrphNew a; MTerminate a c; MOrphDrop a] else [MTerminate a c]
                | None => if ready then [MToReady a] else []
                end
            end in
          (drops (f_loc fr) ++ tail, s1)
      | [] => ([], emit (emit s (EBad 60)) (EEnd uid))   (* unreachable: every body has its frame *)
      end
  | MRunItem ci => run_item ci s
  | MDropItem ci => drop_item ci s
  | MDropInner ci => (drops (ci_caps ci), emit s (EDrop (ci_uid ci) (ci_sq ci) true))   (* only calls *)
  | MDropVal v => drop_val v s
  | MDropOwn a lg => drop_own a lg s
  | MDropRef a => drop_ref a s
  | MRetInvoke r m0 => ret_invoke r m0 s
  | MValDrop a => ([], emit s (EValDrop a))
  | MDelDone k v => ([], emit s (ETimerDel k v true))
  | MOrphNew a => ([], emit s (EOrphNew a))
  | MOrphDrop a => ([], emit s (EOrphDrop a))
  | MTerminate a c => terminate a c s
  | MLogClose a c =>
      match aget (actors s) a with
      | Some x => ([], log_rec s (a_logid x) LOGLEVEL_CLOSE 0 (marker_of c))
      | None => ([], s)
      end
  | MToReady a =>
      match aget (actors s) a with
      | Some x =>
          match a_state x with
          | SPrep held =>
              let x1 := mkActor (SReady [] [] 0%N) (oz (count_set_state (a_strong x) STATE_READY))
                                (a_rc x) (a_notify x) (a_logid x) (a_freed x) in
              (map MRunItem held, emit (upd_actor s a x1) (EReady a))
          | _ => ([], emit s (EBad 61))
          end
      | None => ([], emit s (EModel M_UAF a))
      end
  | MNew t =>
      let old := match dk s with DGlobal => mainq s | DInline => [] end in
      let s1 := fresh_stakker (set_mainq (emit s (ENew t)) []) t in
      (map MDropItem old, s1)
  | MRunIdle idle =>
      if idle then
        match idleq s with
        | c :: r => ([MRunItem c], set_idleq s r)
        | [] => ([], s)
        end
      else ([], s)
  | MRunMain t =>
      let batch := mainq s in
      let s1 := set_mainq s [] in
      if t >? now s1 then
        let '(fired, s2) := fire t (set_now s1 t) in
        (map MRunItem (batch ++ fired), s2)
      else (map MRunItem batch, s1)
  | MLoop t =>
      match mainq s with
      | _ :: _ => (map MRunItem (mainq s) ++ [MLoop t], set_mainq s [])
      | [] =>
          match lazyq s with
          | _ :: _ => (map MRunItem (lazyq s) ++ [MLoop t], set_lazyq s [])
          | [] =>
              let s1 := if t >? recreate s then set_recreate s (t + RECREATE_SECS * 1000) else s in
              ([], emit s1 (ERunRet (negb (is_nil (idleq s1)))))
          end
      end
  | MDrain i =>
      if i >=? TEARDOWN_ROUNDS then
        ([MDropFields], if is_nil (mainq s) then s
                            else emit s (EModel (if i >=? F4_CLASS_ROUNDS then M_DRAINLEFT else M_DRAINSHORT) 0))
      else
        match mainq s with
        | [] => ([MDropFields], s)
        | _ :: _ => (map MDropItem (mainq s) ++ [MDrain (i + 1)], set_mainq s [])
        end
  | MDropFields =>
      let s0 := if ambiguous (timers s) then emit s (EModel M_AMBIG 1) else s in
      let items := lazyq s0 ++ idleq s0 ++ map ti_ci (ti_sort (timers s0)) in
      let s1 := set_tvars (set_timers (set_idleq (set_lazyq s0 []) []) []) [] in
      (map MDropItem items ++ [MDropEnd], emit s1 EDropFields)
  | MDropEnd =>
      let s1 := if is_nil (mainq s) then s else emit s (EModel M_LIMBO 0) in
      ([], emit (set_alive s1 false) EDropEnd)
  | MDropAll =>
      match amin (env s) with
      | Some (h, v) => ([MDropVal v; MDropAll], set_env s (adel (env s) h))
      | None => ([], s)
      end
  | MEpilogue =>
      (* drop everything; two flush rounds (a fresh Stakker drops what was parked in the global queue; handles
         bound by Drop handlers meanwhile are dropped again) *)
      ([MTop TDropStakker; MDropAll; MTop (TNew 0); MTop TDropStakker; MDropAll;
        MTop (TNew 0); MTop TDropStakker; MDropAll; MLeaks], emit s EEpilogue)
  | MLeaks =>
      let s1 := class_flags s in
      ([], set_tr s1 (rev (leaks (rev (tr s1))) ++ tr s1))
  end.

Definition step (k : list mop) (s : st) : option (list mop * st) :=
  match k with
  | [] => None
  | m :: k' => let '(pre, s') := handle m s in Some (pre ++ k', s')
  end.

Inductive result := Done (t : list ev) | OutOfFuel (t : list ev).

Fixpoint run (fuel : nat) (k : list mop) (s : st) : result :=
  match fuel with
  | O => match k with [] => Done (rev (tr s)) | _ => OutOfFuel (rev (tr s)) end
  | S f => match step k s with
           | Some (k', s') => run f k' s'
           | None => Done (rev (tr s))
           end
  end.

Definition exec (d : dkind) (fuel : nat) (p : list top) : result :=
  run fuel (map MTop p ++ [MEpilogue]) (init d).
