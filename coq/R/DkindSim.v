(** Layer R proofs, C18 (continued): lock-step simulation of the deferrer variants of the runtime machine.
    Part 1 ([Dkind.v]) shows that every handler commutes with a change of [dk] except [MNew] on a non-empty
    leftover queue.  Here: the two machines stay equal (modulo the [dk] field) until such an [MNew]; for a program
    that creates its Stakker first this cannot happen before the first [dropend]. *)
From Coq Require Import ZArith NArith List Bool Lia.
From Stk Require Import Lib.U Gen.SrcCount Gen.SrcCore Gen.SrcLog R.Syntax R.Rt R.Shape R.Eff R.Mono R.Dkind.
Import ListNotations.
Local Open Scope Z_scope.

(* ------------------------------------------------------------------ *)
(** * Part 2: lock-step simulation *)

(** the prefix of a (chronological) trace up to and including the first event satisfying [stop] *)
Fixpoint upto (stop : ev -> bool) (t : list ev) : list ev :=
  match t with
  | [] => []
  | e :: r => e :: (if stop e then [] else upto stop r)
  end.

Definition is_dropend (e : ev) : bool := match e with EDropEnd => true | _ => false end.
Definition is_new (e : ev) : bool := match e with ENew _ => true | _ => false end.

(** the prefix of the trace up to and including the first [dropend]: the first Stakker instance has been torn down *)
Definition upto_dropend (t : list ev) : list ev := upto is_dropend t.
(** ... up to and including the first [new] *)
Definition upto_new (t : list ev) : list ev := upto is_new t.

Lemma upto_app_hit stop l x : existsb stop l = true -> upto stop (l ++ x) = upto stop l.
Proof.
  induction l as [|e l IH]; cbn [existsb app upto]; [discriminate|].
  destruct (stop e); [reflexivity|]. cbn [orb]. intros H. rewrite IH by exact H. reflexivity.
Qed.

Lemma upto_never t : upto (fun _ => false) t = t.
Proof. induction t as [|e t IH]; cbn [upto]; [reflexivity|]. rewrite IH. reflexivity. Qed.

Lemma existsb_rev {X} (f : X -> bool) l : existsb f (rev l) = existsb f l.
Proof.
  induction l as [|x l IH]; [reflexivity|]. cbn [rev existsb]. rewrite existsb_app, IH. cbn [existsb].
  rewrite orb_false_r. apply orb_comm.
Qed.

Lemma run_ext fuel : forall k s t, run fuel k s = Done t -> exists x, t = rev (tr s) ++ x.
Proof.
  induction fuel as [|f IH]; intros k s t H; cbn [run] in H.
  - destruct k; [|discriminate H]. inversion H; subst. exists []. rewrite app_nil_r. reflexivity.
  - destruct (step k s) as [[k' s']|] eqn:E.
    + destruct (IH _ _ _ H) as [x X]. destruct (step_ext _ _ _ _ E) as [evs V].
      exists (rev evs ++ x). rewrite X, V, rev_app_distr, app_assoc. reflexivity.
    + inversion H; subst. exists []. rewrite app_nil_r. reflexivity.
Qed.

(* once the stop event is in the common trace, nothing later matters *)
Lemma after_stop stop f1 f2 k1 k2 s1 s2 t1 t2 :
  existsb stop (tr s1) = true -> tr s2 = tr s1 ->
  run f1 k1 s1 = Done t1 -> run f2 k2 s2 = Done t2 -> upto stop t1 = upto stop t2.
Proof.
  intros S T R1 R2. destruct (run_ext _ _ _ _ R1) as [x1 X1]. destruct (run_ext _ _ _ _ R2) as [x2 X2].
  subst. rewrite T. rewrite !upto_app_hit by (rewrite existsb_rev; exact S). reflexivity.
Qed.

Lemma run_nil fuel s : run fuel [] s = Done (rev (tr s)).
Proof. destruct fuel; reflexivity. Qed.

Section Sync.
Variable d : dkind.
Variable stop : ev -> bool.
Variable Safe : list mop -> st -> Prop.
(* as long as the stop event has not been emitted, no [MNew] finds a non-empty queue and [Safe] is kept *)
Hypothesis safe_step : forall m k0 s pre s',
  Safe (m :: k0) s -> handle m s = (pre, s') -> existsb stop (tr s') = false ->
  new_clean m s = true /\ Safe (pre ++ k0) s'.

Lemma sync fG : forall fI k s tG tI,
  Safe k s -> run fG k s = Done tG -> run fI k (with_dk d s) = Done tI -> upto stop tG = upto stop tI.
Proof.
  induction fG as [|f IH]; intros fI k s tG tI HS RG RI.
  - cbn [run] in RG. destruct k; [|discriminate RG]. rewrite run_nil in RI.
    inversion RG; inversion RI; subst. reflexivity.
  - destruct k as [|m k0].
    + rewrite run_nil in RG, RI. inversion RG; inversion RI; subst. reflexivity.
    + destruct fI as [|g]; [discriminate RI|].
      cbn [run step] in RG, RI.
      destruct (handle m s) as [pre s'] eqn:E.
      destruct (existsb stop (tr s')) eqn:X.
      * (* the stop event has just been emitted (or was there already) *)
        destruct (handle m (with_dk d s)) as [pre2 s2] eqn:E2.
        eapply after_stop; [exact X | | exact RG | exact RI].
        pose proof (handle_dk_tr d m s) as T. rewrite E, E2 in T. exact T.
      * destruct (safe_step _ _ _ _ _ HS E X) as [C HS'].
        rewrite (handle_dk d _ _ C), E in RI. cbn [wp fst snd] in RI.
        eapply IH; eauto.
Qed.
End Sync.

(* ------------------------------------------------------------------ *)
(** * Who changes [alive] *)

Lemma eff_alive s s1 : eff s s1 -> alive s1 = alive s.
Proof.
  intros E. induction E; try reflexivity; try exact IHE.
  - destruct q; exact IHE.
Qed.

Lemma hcase_alive mo s pre s' : hcase mo s pre s' -> alive s' = alive s.
Proof.
  intros [O|c M C P S|fr rest M F P S].
  - destruct O as [E _|s1 loc E X _]; [apply eff_alive; auto|]. subst. apply (eff_alive _ _ E).
  - subst. reflexivity.
  - subst. reflexivity.
Qed.

Lemma fold_emit_opt_alive (f : N * actor -> option ev) l : forall s,
  alive (fold_left (fun s0 p => emit_opt s0 (f p)) l s) = alive s.
Proof.
  induction l as [|p l IH]; intros s; [reflexivity|]. cbn [fold_left]. rewrite IH. destruct (f p); reflexivity.
Qed.

Definition alive_op (m : mop) : bool := match m with MNew _ | MDropEnd => true | _ => false end.

Lemma handle_alive mo s pre s' : handle mo s = (pre, s') -> alive_op mo = false -> alive s' = alive s.
Proof.
  intros H A. destruct (qmop mo) eqn:Q.
  { destruct (handle_qmop _ _ _ _ Q H) as [_ HC]. eapply hcase_alive; eauto. }
  destruct mo; try discriminate Q; try discriminate A; simpl in H.
  - (* MTop *)
    unfold do_top in H. destruct o; repeat (revert H; dest_match; intros H); unfold bad in *; inversion H; subst;
      first [reflexivity | assumption | congruence].
  - destruct (frames s); inversion H; subst; reflexivity.
  - revert H. unfold run_item. destruct c as [u i kd caps q]. destruct kd; repeat dest_match; intros H; inversion H; subst;
      reflexivity.
  - destruct (aget (actors s) a) as [x|]; [destruct (a_state x)|]; inversion H; subst; reflexivity.
  - destruct idle; [destruct (idleq s)|]; inversion H; subst; reflexivity.
  - destruct (t >? now s); inversion H; subst; [|reflexivity].
    destruct (ambiguous _); reflexivity.
  - destruct (mainq s); [destruct (lazyq s)|]; inversion H; subst; try reflexivity.
    destruct (t >? recreate s); reflexivity.
  - destruct (i >=? TEARDOWN_ROUNDS).
    + inversion H; subst. destruct (is_nil (mainq s)); reflexivity.
    + destruct (mainq s); inversion H; subst; reflexivity.
  - inversion H; subst. destruct (ambiguous (timers s)); reflexivity.
  - destruct (amin (env s)) as [[h v]|]; inversion H; subst; reflexivity.
  - inversion H; subst. reflexivity.
  - inversion H; subst. unfold class_flags. cbn [alive set_tr]. apply fold_emit_opt_alive.
Qed.

(* ------------------------------------------------------------------ *)
(** * While a Stakker is alive, the next [MNew] sits behind a teardown *)

Definition nonew (m : mop) : bool := match m with MNew _ => false | _ => true end.

(* micro-ops that, executed while a Stakker is alive, reach [MDropEnd] before anything behind them runs *)
Definition stopper (m : mop) : bool :=
  match m with
  | MTop (TNew _) | MTop TDropStakker | MDrain _ | MDropFields | MDropEnd | MEpilogue => true
  | _ => false
  end.

Fixpoint guard (k : list mop) : bool :=
  match k with
  | [] => true
  | m :: r => nonew m && (stopper m || guard r)
  end.

Lemma guard_app_nonew pre k : forallb nonew pre = true -> guard k = true -> guard (pre ++ k) = true.
Proof.
  induction pre as [|m pre IH]; cbn [forallb app guard]; intros A G; [exact G|].
  apply andb_prop in A as [A1 A2]. rewrite A1, (IH A2 G), orb_true_r. reflexivity.
Qed.

Lemma guard_app_stop pre m k : forallb nonew pre = true -> nonew m = true -> stopper m = true -> guard (pre ++ m :: k) = true.
Proof.
  induction pre as [|x pre IH]; cbn [forallb app guard]; intros A N S.
  - rewrite N, S. reflexivity.
  - apply andb_prop in A as [A1 A2]. rewrite A1, (IH A2 N S), orb_true_r. reflexivity.
Qed.

Lemma work_nonew l : forallb is_work l = true -> forallb nonew l = true.
Proof.
  induction l as [|m l IH]; cbn [forallb]; [reflexivity|]. intros H. apply andb_prop in H as [H1 H2].
  rewrite (IH H2), andb_true_r. destruct m; try discriminate H1; reflexivity.
Qed.

Lemma nonew_map_runitem l : forallb nonew (map MRunItem l) = true.
Proof. apply forallb_map. reflexivity. Qed.
Lemma nonew_map_dropitem l : forallb nonew (map MDropItem l) = true.
Proof. apply forallb_map. reflexivity. Qed.

Lemma guard_tops p : guard (map MTop p ++ [MEpilogue]) = true.
Proof.
  induction p as [|o p IH]; [reflexivity|]. cbn [map app guard nonew]. rewrite IH, orb_true_r. reflexivity.
Qed.

(* a non-stopper, non-[MNew] micro-op pushes no [MNew] *)
Lemma handle_nonew m s pre s' :
  handle m s = (pre, s') -> nonew m = true -> stopper m = false -> forallb nonew pre = true.
Proof.
  intros H N S. destruct (is_work m) eqn:W.
  { apply work_nonew. eapply handle_work; eauto. }
  destruct m; try discriminate W; try discriminate N; try discriminate S; simpl in H.
  - (* MTop *)
    unfold do_top in H. destruct o; try discriminate S;
      repeat (revert H; dest_match; intros H); unfold bad in *; inversion H; subst; reflexivity.
  - destruct idle; [destruct (idleq s)|]; inversion H; subst; reflexivity.
  - destruct (t >? now s); [destruct (fire t (set_now (set_mainq s []) t)) as [fired s2]|]; inversion H; subst;
      apply nonew_map_runitem.
  - destruct (mainq s) as [|c l]; [destruct (lazyq s) as [|c l]|]; inversion H; subst; try reflexivity.
    all: cbn [forallb nonew andb app]; rewrite ?forallb_app, ?nonew_map_runitem; reflexivity.
  - destruct (amin (env s)) as [[h v]|]; inversion H; subst; reflexivity.
  - inversion H; subst. reflexivity.
Qed.

(* the stoppers, executed while alive *)
Lemma handle_stopper m s pre s' k :
  handle m s = (pre, s') -> stopper m = true -> alive s = true -> existsb is_dropend (tr s') = false ->
  guard (pre ++ k) = true.
Proof.
  intros H S A X. destruct m; try discriminate S; cbn [handle] in H.
  - destruct o; try discriminate S; cbn [do_top] in H; rewrite A in H; inversion H; subst; reflexivity.
  - destruct (i >=? TEARDOWN_ROUNDS); [inversion H; subst; reflexivity|].
    destruct (mainq s) as [|c l]; inversion H; subst; [reflexivity|].
    change (guard ((map MDropItem (c :: l) ++ [MDrain (i + 1)]) ++ k) = true).
    rewrite <- app_assoc. apply guard_app_stop; [apply nonew_map_dropitem | reflexivity | reflexivity].
  - inversion H; subst. rewrite <- app_assoc. apply guard_app_stop; [apply nonew_map_dropitem | reflexivity | reflexivity].
  - inversion H; subst. cbn in X. discriminate X.
  - inversion H; subst. reflexivity.
Qed.

(** [Safe]: a Stakker is alive and every [MNew] of the continuation sits behind a teardown; or the program is
    about to create its first Stakker with nothing queued. *)
Definition Safe (k : list mop) (s : st) : Prop :=
  (alive s = true /\ guard k = true) \/
  (alive s = false /\ mainq s = [] /\
   exists t r, (k = MTop (TNew t) :: r \/ k = MNew t :: r) /\ guard r = true).

Lemma safe_step m k0 s pre s' :
  Safe (m :: k0) s -> handle m s = (pre, s') -> existsb is_dropend (tr s') = false ->
  new_clean m s = true /\ Safe (pre ++ k0) s'.
Proof.
  intros [[A G]|[A [Q [t [r [[E|E] G]]]]]] H X.
  - cbn [guard] in G. apply andb_prop in G as [N G].
    split; [destruct m; try discriminate N; reflexivity|]. left.
    destruct (stopper m) eqn:S.
    + split; [|eapply handle_stopper; eauto].
      destruct (alive_op m) eqn:AO; [|rewrite (handle_alive _ _ _ _ H AO); exact A].
      destruct m; try discriminate AO; try discriminate N.
      simpl in H. inversion H; subst. cbn in X. discriminate X.
    + cbn [orb] in G. split.
      * rewrite (handle_alive _ _ _ _ H); [exact A|]. destruct m; try discriminate N; try discriminate S; reflexivity.
      * apply guard_app_nonew; [eapply handle_nonew; eauto | exact G].
  - injection E as E1 E2. subst m k0. split; [reflexivity|]. cbn [handle do_top] in H. rewrite A in H. inversion H; subst.
    right. split; [exact A|]. split; [exact Q|]. exists t, r. split; [right; reflexivity | exact G].
  - injection E as E1 E2. subst m k0. split; [cbn [new_clean]; rewrite Q; reflexivity|]. cbn [handle] in H. rewrite Q in H.
    assert (P : pre = []) by (destruct (dk s); inversion H; reflexivity).
    left. split; [inversion H; reflexivity | rewrite P; exact G].
Qed.

(* ------------------------------------------------------------------ *)
(** * The theorems *)

(** Every program that creates its Stakker first: the two deferrer variants produce exactly the same events
    up to and including the first [dropend]. *)
Theorem deferrer_prefix : forall t0 p fG fI tG tI,
  exec DGlobal fG (TNew t0 :: p) = Done tG -> exec DInline fI (TNew t0 :: p) = Done tI ->
  upto_dropend tG = upto_dropend tI.
Proof.
  intros t0 p fG fI tG tI RG RI. unfold exec in *. rewrite (init_dk DInline DGlobal) in RI.
  eapply (sync DInline is_dropend Safe safe_step); [| exact RG | exact RI].
  right. split; [reflexivity|]. split; [reflexivity|]. cbn [map app].
  exists t0, (map MTop p ++ [MEpilogue]). split; [left; reflexivity | apply guard_tops].
Qed.

(** Every program at all: the same events up to and including the first [new] (a closure deferred through a
    Deferrer before any Stakker exists is dropped by the first [Core::new] of the global variant only). *)
Theorem deferrer_prefix_any : forall p fG fI tG tI,
  exec DGlobal fG p = Done tG -> exec DInline fI p = Done tI -> upto_new tG = upto_new tI.
Proof.
  intros p fG fI tG tI RG RI. unfold exec in *. rewrite (init_dk DInline DGlobal) in RI.
  eapply (sync DInline is_new (fun _ _ => True)); [| exact I | exact RG | exact RI].
  intros m k0 s pre s' _ H X. split; [|exact I].
  destruct m; try reflexivity. cbn [handle] in H. inversion H; subst. cbn in X. discriminate X.
Qed.

(** The whole trace: if every [Core::new] of the global run finds the deferrer queue empty, the two variants
    cannot be told apart at all. *)
Fixpoint news_clean (fuel : nat) (k : list mop) (s : st) : bool :=
  match fuel with
  | O => true
  | S f => match k with
           | [] => true
           | m :: k0 => new_clean m s && (let '(pre, s') := handle m s in news_clean f (pre ++ k0) s')
           end
  end.

Lemma sync_full d fG : forall fI k s tG tI,
  news_clean fG k s = true -> run fG k s = Done tG -> run fI k (with_dk d s) = Done tI -> tG = tI.
Proof.
  induction fG as [|f IH]; intros fI k s tG tI C RG RI.
  - cbn [run] in RG. destruct k; [|discriminate RG]. rewrite run_nil in RI.
    inversion RG; inversion RI; subst. reflexivity.
  - destruct k as [|m k0].
    + rewrite run_nil in RG, RI. inversion RG; inversion RI; subst. reflexivity.
    + destruct fI as [|g]; [discriminate RI|].
      cbn [run step news_clean] in RG, RI, C. apply andb_prop in C as [C1 C2].
      rewrite (handle_dk d _ _ C1) in RI. destruct (handle m s) as [pre s'] eqn:E. cbn [wp fst snd] in RI.
      eapply IH; eauto.
Qed.

Theorem deferrer_full : forall p fG fI tG tI,
  news_clean fG (map MTop p ++ [MEpilogue]) (init DGlobal) = true ->
  exec DGlobal fG p = Done tG -> exec DInline fI p = Done tI -> tG = tI.
Proof.
  intros p fG fI tG tI C RG RI. unfold exec in *. rewrite (init_dk DInline DGlobal) in RI.
  eapply sync_full; eauto.
Qed.

(* ------------------------------------------------------------------ *)
(** * Examples (tests by computation; the theorems above quantify over all programs) *)

(** closures, an actor (Prep step, Ready method deferring a closure), two timers, and a token captured by the
    pending timer's closure: the token is dropped in the field phase of [Stakker::drop], its Drop handler defers
    closure 6, which is left in limbo.  The next [Core::new] drops it under the global deferrer; under the inline
    deferrer it is never touched again (leak line). *)
Definition ex_prog : list top :=
  [ TNew 0;
    TDo [ ANewActor 1 1 None;
          ACallPrep 1 (Clo 1 0 0 [] [ANow]) true;
          ACall 1 (Clo 2 0 0 [] [ADefer (Clo 3 0 0 [] [ANow])]);
          ANewTok 5 5 [Clo 6 0 0 [] []];
          ATimerAdd TFixed 1 100 (Clo 4 0 0 [5%N] []);
          ATimerAdd TFixed 2 5 (Clo 7 0 0 [] [ANow]) ];
    TRun 10 false;
    TDropStakker;
    TNew 20;
    TRun 30 false ].

Example deferrer_prefix_example :
  exists tG tI,
    exec DGlobal 400 ex_prog = Done tG /\ exec DInline 400 ex_prog = Done tI /\
    upto_dropend tG = upto_dropend tI /\ length (upto_dropend tG) = 40%nat /\
    existsb (fun e => match e with EModel 4 0 => true | _ => false end) (upto_dropend tG) = true /\
    nth 41 tG EEpilogue = EDrop 6 (Some QMain) false /\ nth 41 tI EEpilogue = ERunBegin 30 false /\
    existsb (fun e => match e with ELeak 0 6 => true | _ => false end) tI = true /\
    existsb (fun e => match e with ELeak _ _ => true | _ => false end) tG = false /\
    tG <> tI.
Proof.
  eexists. eexists. split; [vm_compute; reflexivity|]. split; [vm_compute; reflexivity|].
  repeat (split; [vm_compute; reflexivity|]).
  intros E. apply (f_equal (fun t => nth 41 t EEpilogue)) in E. vm_compute in E. discriminate E.
Qed.

(** the hypothesis "the program creates its Stakker first" cannot be dropped: a closure deferred through a
    Deferrer while no Stakker has ever existed (impossible with the real crate: a Deferrer is obtained from a
    Stakker) is dropped by the first [Core::new] of the global variant only -- the traces differ right after the
    first [new], before any [dropend]. *)
Definition pre_prog : list top := [ TDo [ADeferD (Clo 1 0 0 [] [])]; TNew 0 ].

Example deferrer_prefix_needs_new_first :
  exists tG tI,
    exec DGlobal 100 pre_prog = Done tG /\ exec DInline 100 pre_prog = Done tI /\
    upto_new tG = upto_new tI /\ length (upto_new tG) = 3%nat /\
    nth 3 tG (ENew 0) = EDrop 1 (Some QMain) false /\ nth 3 tI (ENew 0) = EEpilogue /\
    upto_dropend tG <> upto_dropend tI.
Proof.
  eexists. eexists. split; [vm_compute; reflexivity|]. split; [vm_compute; reflexivity|].
  repeat (split; [vm_compute; reflexivity|]).
  intros E. apply (f_equal (fun t => nth 3 t (ENew 0))) in E. vm_compute in E. discriminate E.
Qed.

(** a program (actor created, run and terminated by its owner's drop; timer; a second Stakker with a lazy closure)
    in which every [Core::new] finds the queue empty: the hypothesis of [deferrer_full] holds *)
Definition clean_prog : list top :=
  [ TNew 0;
    TDo [ ANewActor 1 1 None;
          ACallPrep 1 (Clo 1 0 0 [] [ANow]) true;
          ACall 1 (Clo 2 0 0 [] [ADefer (Clo 3 0 0 [] [ANow])]);
          ATimerAdd TFixed 2 5 (Clo 7 0 0 [] [ANow]);
          ADropH 1 ];
    TRun 10 false;
    TDropStakker;
    TNew 20;
    TDo [ ALazy (Clo 8 0 0 [] []) ];
    TRun 30 false ].

Example deferrer_full_example :
  news_clean 400 (map MTop clean_prog ++ [MEpilogue]) (init DGlobal) = true /\
  exists t, exec DGlobal 400 clean_prog = Done t /\ exec DInline 400 clean_prog = Done t /\ length t = 54%nat /\
            news_clean 400 (map MTop ex_prog ++ [MEpilogue]) (init DGlobal) = false.
Proof.
  split; [vm_compute; reflexivity|]. eexists. split; [vm_compute; reflexivity|].
  repeat (split; [vm_compute; reflexivity|]). vm_compute; reflexivity.
Qed.

(** the absence of the limbo flag ([~model 4]) alone does not make the whole traces equal: an owner handle still alive
    when the Stakker is dropped queues its actor's [terminate(Dropped)] while no Stakker exists; the next [Core::new]
    drops that item (and frees the actor) under the global deferrer only.  Hence the hypothesis [news_clean]. *)
Definition own_prog : list top :=
  [ TNew 0; TDo [ ANewActor 1 1 None; ACallPrep 1 (Clo 1 0 0 [] []) true ]; TRun 1 false ].

Example deferrer_limbo_flag_insufficient :
  exists tG tI,
    exec DGlobal 200 own_prog = Done tG /\ exec DInline 200 own_prog = Done tI /\
    existsb (fun e => match e with EModel 4 _ => true | _ => false end) tG = false /\
    upto_dropend tG = upto_dropend tI /\
    nth 17 tG EEpilogue = EModel 1 1 /\ nth 17 tI EEpilogue = EDropBegin /\
    existsb (fun e => match e with ELeak 1 1 => true | _ => false end) tI = true /\
    tG <> tI.
Proof.
  eexists. eexists. split; [vm_compute; reflexivity|]. split; [vm_compute; reflexivity|].
  repeat (split; [vm_compute; reflexivity|]).
  intros E. apply (f_equal (fun t => nth 17 t EEpilogue)) in E. vm_compute in E. discriminate E.
Qed.
