(** Layer R proofs: C05, monitor C (timers): when [timer_del] answers true, the closure bound to the timer variable
    has been released (dropped un-run), hence every Ret it captured has answered None. *)
From Coq Require Import ZArith NArith List Bool Lia.
From Stk Require Import Lib.U Gen.SrcCount Gen.SrcCore Gen.SrcLog R.Syntax R.Rt R.Mon R.Shape R.Eff R.Tags R.Mono R.C15Proofs.
From Stk Require Import R.Lin R.LinAct R.LinLaw R.LinStep R.LinEvs R.LinNin R.LinDel R.LinC05Mon R.LinC05A R.LinC05Core R.LinC05B.
Import ListNotations.
Local Open Scope Z_scope.

(* ------------------------------------------------------------------ *)
(** * Lists *)

Lemma tk_eqb_eq a b : tk_eqb a b = true <-> a = b.
Proof. destruct a, b; simpl; split; congruence. Qed.

Lemma tk_eqb5_eq a b : tk_eqb5 a b = tk_eqb a b.
Proof. destruct a, b; reflexivity. Qed.

Lemma vget_vset l k v x k' v' :
  vget (vset l k v x) k' v' = if tk_eqb k' k && N.eqb v' v then Some x else vget l k' v'.
Proof.
  induction l as [|[[k0 v0] y] l IH]; simpl.
  - reflexivity.
  - destruct (tk_eqb k k0 && N.eqb v v0) eqn:E; simpl.
    + apply andb_prop in E as [E1 E2]. apply tk_eqb_eq in E1. apply N.eqb_eq in E2. subst.
      destruct (tk_eqb k' k0 && N.eqb v' v0); reflexivity.
    + rewrite IH. destruct (tk_eqb k' k0 && N.eqb v' v0) eqn:F; auto.
      destruct (tk_eqb k' k && N.eqb v' v) eqn:G; auto.
      apply andb_prop in F as [F1 F2]. apply andb_prop in G as [G1 G2].
      apply tk_eqb_eq in F1, G1. apply N.eqb_eq in F2, G2. subst. rewrite N.eqb_refl in E.
      assert (tk_eqb k0 k0 = true) by (apply tk_eqb_eq; reflexivity). rewrite H in E. discriminate.
Qed.

Lemma ti_find_in l i t : ti_find l i = Some t -> In t l /\ ti_tid t = i.
Proof.
  induction l as [|x l IH]; simpl; [discriminate|]. destruct (N.eqb (ti_tid x) i) eqn:E.
  - intros Q; inversion Q; subst. apply N.eqb_eq in E. auto.
  - intros Q. destruct (IH Q). auto.
Qed.

Lemma ti_find_unique l t : NoDup (map ti_tid l) -> In t l -> ti_find l (ti_tid t) = Some t.
Proof.
  induction l as [|x l IH]; simpl; [contradiction|]. intros ND [->|IN].
  - rewrite N.eqb_refl. reflexivity.
  - inversion ND; subst. destruct (N.eqb (ti_tid x) (ti_tid t)) eqn:E.
    + apply N.eqb_eq in E. exfalso. apply H1. rewrite E. apply in_map. exact IN.
    + apply IH; auto.
Qed.

Lemma ti_find_app_old l x i t : ti_find l i = Some t -> ti_find (l ++ [x]) i = Some t.
Proof. induction l as [|y l IH]; simpl; [discriminate|]. destruct (N.eqb (ti_tid y) i); auto. Qed.

Lemma ti_find_app_new l x i : Forall (fun t => (ti_tid t < i)%N) l -> ti_tid x = i -> ti_find (l ++ [x]) i = Some x.
Proof.
  induction l as [|y l IH]; simpl; intros F E.
  - rewrite E, N.eqb_refl. reflexivity.
  - inversion F; subst. destruct (N.eqb (ti_tid y) (ti_tid x)) eqn:Q; [apply N.eqb_eq in Q; lia|]. apply IH; auto.
Qed.

Lemma ti_find_app_inv l x i t : ti_find (l ++ [x]) i = Some t -> ti_find l i = Some t \/ (t = x /\ ti_tid x = i).
Proof.
  induction l as [|y l IH]; simpl.
  - destruct (N.eqb (ti_tid x) i) eqn:E; [|discriminate]. intros Q; inversion Q; subst. apply N.eqb_eq in E. auto.
  - destruct (N.eqb (ti_tid y) i); auto.
Qed.

Lemma sub_nodup_find l l' i t :
  NoDup (map ti_tid l) -> (forall x, In x l' -> In x l) -> ti_find l' i = Some t -> ti_find l i = Some t.
Proof.
  intros ND SUB F. destruct (ti_find_in _ _ _ F) as [IN <-]. apply ti_find_unique; auto.
Qed.

Lemma in_ti_remove l i x : In x (ti_remove l i) -> In x l.
Proof. induction l as [|y l IH]; simpl; [auto|]. destruct (N.eqb (ti_tid y) i); simpl; [auto|]. intros [->|H]; auto. Qed.

Lemma tids_ti_remove l i : forall x, In x (map ti_tid (ti_remove l i)) -> In x (map ti_tid l).
Proof. intros x H. apply in_map_iff in H as (t & <- & IN). apply in_map. eapply in_ti_remove; eauto. Qed.

Lemma nodup_ti_remove l i : NoDup (map ti_tid l) -> NoDup (map ti_tid (ti_remove l i)).
Proof.
  induction l as [|y l IH]; simpl; auto. intros ND. inversion ND; subst. destruct (N.eqb (ti_tid y) i); simpl; auto.
  constructor; auto. intros H. apply H1. eapply tids_ti_remove; eauto.
Qed.

Lemma tids_ti_update l i f : (forall x, ti_tid (f x) = ti_tid x) -> map ti_tid (ti_update l i f) = map ti_tid l.
Proof. intros H. induction l as [|y l IH]; simpl; auto. destruct (N.eqb (ti_tid y) i); simpl; rewrite ?H, ?IH; reflexivity. Qed.

Lemma ti_find_update l i f j t :
  (forall x, ti_tid (f x) = ti_tid x) -> ti_find (ti_update l i f) j = Some t ->
  exists t0, ti_find l j = Some t0 /\ (t = t0 \/ t = f t0).
Proof.
  intros H. induction l as [|y l IH]; simpl; [discriminate|]. destruct (N.eqb (ti_tid y) i) eqn:E; simpl.
  - rewrite H. destruct (N.eqb (ti_tid y) j); [intros Q; inversion Q; subst; eauto | eauto].
  - destruct (N.eqb (ti_tid y) j); [intros Q; inversion Q; subst; eauto | auto].
Qed.

Lemma nodup_filter {X} (f : X -> N) p l : NoDup (map f l) -> NoDup (map f (filter p l)).
Proof.
  induction l as [|y l IH]; simpl; auto. intros ND. inversion ND; subst. destruct (p y); simpl; auto.
  constructor; auto. intros H. apply H1. apply in_map_iff in H as (x & E & IN). apply filter_In in IN as [IN _]. rewrite <- E. apply in_map; auto.
Qed.

Lemma nmem_in x l : nmem x l = true <-> In x l.
Proof.
  induction l as [|y l IH]; simpl; [split; [discriminate | tauto]|]. rewrite orb_true_iff, IH, N.eqb_eq. split; intros [H|H]; auto.
Qed.

Lemma in_nremove x u l : In x (nremove u l) -> In x l.
Proof. induction l as [|y l IH]; simpl; auto. destruct (N.eqb u y); simpl; auto. intros [->|H]; auto. Qed.

Lemma nodup_nremove u l : NoDup l -> NoDup (nremove u l) /\ ~ In u (nremove u l).
Proof.
  induction l as [|y l IH]; simpl; intros ND; [split; [constructor | tauto]|]. inversion ND; subst.
  destruct (N.eqb u y) eqn:E.
  - apply N.eqb_eq in E. subst. auto.
  - destruct (IH H2) as [A B]. split.
    + constructor; auto. intros H. apply H1. eapply in_nremove; eauto.
    + simpl. intros [->|H]; [rewrite N.eqb_refl in E; discriminate | auto].
Qed.

(* ------------------------------------------------------------------ *)
(** * Monitor C over a block of events *)

Definition pbC (e : ev) : bool :=
  match e with ESub QTimer _ _ | ETimerVar _ _ _ | ETimerDel _ _ true => false | _ => true end.

Lemma monC_block evs : forall t m,
  forallb pbC evs = true -> monr stepC iC t = Some m -> NoDup (c_tlive m) ->
  exists m', monr stepC iC (evs ++ t) = Some m' /\ c_tvar m' = c_tvar m /\ NoDup (c_tlive m') /\
             (forall u, In u (c_tlive m') -> In u (c_tlive m)) /\
             (forall u q c, In (EDrop u q c) evs -> ~ In u (c_tlive m')).
Proof.
  induction evs as [|e l IH]; simpl; intros t m F M ND.
  - exists m. repeat split; auto.
  - apply andb_prop in F as [F1 F2]. destruct (IH t m F2 M ND) as (m1 & M1 & A & B & C & D). rewrite M1.
    assert (RM : forall u, exists m', Some (mkC (c_tvar m1) (nremove u (c_tlive m1))) = Some m' /\ c_tvar m' = c_tvar m /\ NoDup (c_tlive m') /\
               (forall x, In x (c_tlive m') -> In x (c_tlive m)) /\ ~ In u (c_tlive m') /\ (forall x, ~ In x (c_tlive m1) -> ~ In x (c_tlive m'))).
    { intros u. eexists. split; [reflexivity|]. simpl. destruct (nodup_nremove u _ B) as [N1 N2]. repeat split; auto.
      - intros x H. apply C. eapply in_nremove; eauto.
      - intros x NX H. apply NX. eapply in_nremove; eauto. }
    assert (SAME : stepC m1 e = Some m1 -> (forall u q c, e <> EDrop u q c) -> exists m', stepC m1 e = Some m' /\ c_tvar m' = c_tvar m /\ NoDup (c_tlive m') /\
               (forall u, In u (c_tlive m') -> In u (c_tlive m)) /\ (forall u q c, e = EDrop u q c \/ In (EDrop u q c) l -> ~ In u (c_tlive m'))).
    { intros S NE. exists m1. repeat split; auto. intros u q c [Q|IN]; [exfalso; eapply NE; eauto | eapply D; eauto]. }
    destruct e; try (apply SAME; [reflexivity | intros; discriminate]).
    + destruct q; try (apply SAME; [reflexivity | intros; discriminate]). discriminate F1.
    + destruct (RM uid) as (m' & Q & A' & B' & C' & D' & E'). exists m'. simpl. repeat split; auto.
      intros u q0 c [Q0|IN]; [discriminate Q0|]. apply E'. eapply D; eauto.
    + destruct (RM uid) as (m' & Q & A' & B' & C' & D' & E'). exists m'. simpl. repeat split; auto.
      intros u q0 c [Q0|IN]; [inversion Q0; subst; exact D'|]. apply E'. eapply D; eauto.
    + discriminate F1.
    + destruct b; [discriminate F1|]. apply SAME; [reflexivity | intros; discriminate].
Qed.

(* ------------------------------------------------------------------ *)
(** * The pass: which handlers leave the timers alone *)

Definition tsame (s s' : st) : Prop := timers s' = timers s /\ tvars s' = tvars s /\ tnext s' = tnext s.

Lemma tsame_refl s : tsame s s. Proof. repeat split. Qed.
Lemma tsame_trans a b c : tsame a b -> tsame b c -> tsame a c.
Proof. intros (A1 & A2 & A3) (B1 & B2 & B3). repeat split; congruence. Qed.
Lemma ts_emit s e : tsame s (emit s e). Proof. repeat split. Qed.
Lemma ts_push_main s c : tsame s (push_main s c). Proof. repeat split. Qed.
Lemma ts_push_frame s c l : tsame s (push_frame s c l). Proof. repeat split. Qed.
Lemma ts_upd_actor s a x : tsame s (upd_actor s a x). Proof. repeat split. Qed.
Lemma ts_submit s q c : q <> QTimer -> tsame s (submit s q c).
Proof. intros H. unfold submit. destruct q; try congruence; repeat split. Qed.
Lemma ts_set_alive s v : tsame s (set_alive s v). Proof. repeat split. Qed.
Lemma ts_set_now s v : tsame s (set_now s v). Proof. repeat split. Qed.
Lemma ts_set_start s v : tsame s (set_start s v). Proof. repeat split. Qed.
Lemma ts_set_mainq s v : tsame s (set_mainq s v). Proof. repeat split. Qed.
Lemma ts_set_lazyq s v : tsame s (set_lazyq s v). Proof. repeat split. Qed.
Lemma ts_set_idleq s v : tsame s (set_idleq s v). Proof. repeat split. Qed.
Lemma ts_set_recreate s v : tsame s (set_recreate s v). Proof. repeat split. Qed.
Lemma ts_set_actors s v : tsame s (set_actors s v). Proof. repeat split. Qed.
Lemma ts_set_fwds s v : tsame s (set_fwds s v). Proof. repeat split. Qed.
Lemma ts_set_env s v : tsame s (set_env s v). Proof. repeat split. Qed.
Lemma ts_set_frames s v : tsame s (set_frames s v). Proof. repeat split. Qed.
Lemma ts_set_nuid s v : tsame s (set_nuid s v). Proof. repeat split. Qed.
Lemma ts_set_logseq s v : tsame s (set_logseq s v). Proof. repeat split. Qed.
Lemma ts_set_logfilter s v : tsame s (set_logfilter s v). Proof. repeat split. Qed.
Lemma ts_set_haslogger s v : tsame s (set_haslogger s v). Proof. repeat split. Qed.
Lemma ts_set_shut s v : tsame s (set_shut s v). Proof. repeat split. Qed.

Lemma ts_ref_clone s a : tsame s (ref_clone s a).
Proof. unfold ref_clone. destruct (aget (actors s) a) as [y|]; [destruct (a_freed y)|]; repeat split. Qed.
Lemma ts_log_rec s a b c d : tsame s (log_rec s a b c d).
Proof. unfold log_rec. destruct (allows s b && haslogger s); repeat split. Qed.
Lemma ts_target_ev s ci : tsame s (target_ev s ci).
Proof. unfold target_ev. destruct ci as [u i kd caps q]. destruct kd; repeat split. Qed.
Lemma ts_new_actor s a nt p v : tsame s (new_actor s a nt p v).
Proof. unfold new_actor, log_rec. destruct (allows _ _ && haslogger _); destruct v; repeat split. Qed.
Lemma ts_take s h o s' : take s h = (o, s') -> tsame s s'.
Proof. unfold take. repeat dest_match; intros Q; inversion Q; repeat split. Qed.
Lemma ts_take_caps ids : forall s l s', take_caps ids s = (l, s') -> tsame s s'.
Proof.
  induction ids as [|h r IH]; simpl; intros s l s' E.
  - inversion E; apply tsame_refl.
  - destruct (take s h) as [[v|] s1] eqn:T.
    + destruct (take_caps r s1) as [l2 s2] eqn:T2. inversion E; subst. eapply tsame_trans; [eapply ts_take; eauto | eapply IH; eauto].
    + eapply tsame_trans; [eapply ts_take; eauto | eapply IH; eauto].
Qed.
Lemma ts_take_env_caps ids : forall s l s', take_env_caps ids s = (l, s') -> tsame s s'.
Proof.
  induction ids as [|h r IH]; simpl; intros s l s' E.
  - inversion E; apply tsame_refl.
  - destruct (aget (env s) h).
    + destruct (take_env_caps r (set_env s (adel (env s) h))) as [l2 s2] eqn:T2. inversion E; subst.
      eapply tsame_trans; [apply ts_set_env | eapply IH; eauto].
    + eapply IH; eauto.
Qed.
Lemma ts_bind s h v l s' : bind s h v = (l, s') -> tsame s s'.
Proof. unfold bind. destruct (aget (env s) h); intros Q; inversion Q; repeat split. Qed.
Lemma ts_bad s c l s' : bad s c = (l, s') -> tsame s s'.
Proof. unfold bad. intros Q; inversion Q; repeat split. Qed.
Lemma ts_inst c mk s ci s' : inst c mk s = (ci, s') -> tsame s s'.
Proof.
  unfold inst. destruct (take_caps (clo_caps c) s) as [caps s1] eqn:T. intros Q; inversion Q; subst.
  eapply tsame_trans; [eapply ts_take_caps; eauto | repeat split].
Qed.
Lemma ts_inst_call c mk s ci s' : inst_call c mk s = (ci, s') -> tsame s s'.
Proof.
  unfold inst_call. destruct (inst c mk s) as [ci1 s1] eqn:I. intros Q; inversion Q; subst.
  eapply tsame_trans; [eapply ts_inst; eauto | apply ts_target_ev].
Qed.
Lemma ts_inst_nocaps c mk s ci s' : inst_nocaps c mk s = (ci, s') -> tsame s s'.
Proof. unfold inst_nocaps. intros Q; inversion Q; repeat split. Qed.
Lemma ts_tok_script script : forall s, tsame s (tok_script s script).
Proof.
  unfold tok_script. induction script as [|c r IH]; intros s; [apply tsame_refl|]. cbn [fold_left].
  destruct (inst_env c KPlain s) as [ci s1] eqn:I. eapply tsame_trans; [|apply IH].
  unfold inst_env in I. destruct (take_env_caps (clo_caps c) s) as [caps s2] eqn:T. inversion I; subst.
  eapply tsame_trans; [eapply ts_take_env_caps; eauto|]. eapply tsame_trans; [|apply ts_submit; discriminate]. repeat split.
Qed.
Lemma ts_mk_notifier s a n r s' : mk_notifier s a n = (r, s') -> tsame s s'.
Proof.
  unfold mk_notifier. destruct n as [[hp c]|].
  - destruct (lookup s hp) as [v|].
    + destruct (handle_actor v) as [p|].
      * destruct (inst_call c (fun b => KMeth p b None) (ref_clone s p)) as [ci s2] eqn:I.
        intros Q; inversion Q; subst. eapply tsame_trans; [apply ts_ref_clone | eapply ts_inst_call; eauto].
      * intros Q; inversion Q; subst. apply ts_emit.
    + intros Q; inversion Q; subst. apply ts_emit.
  - intros Q; inversion Q; subst. apply tsame_refl.
Qed.

Ltac ts_step :=
  lazymatch goal with
  | |- tsame _ (emit ?s _) => apply (tsame_trans _ s); [ | apply ts_emit ]
  | |- tsame _ (submit ?s _ _) => apply (tsame_trans _ s); [ | apply ts_submit; discriminate ]
  | |- tsame _ (push_main ?s _) => apply (tsame_trans _ s); [ | apply ts_push_main ]
  | |- tsame _ (push_frame ?s _ _) => apply (tsame_trans _ s); [ | apply ts_push_frame ]
  | |- tsame _ (upd_actor ?s _ _) => apply (tsame_trans _ s); [ | apply ts_upd_actor ]
  | |- tsame _ (ref_clone ?s _) => apply (tsame_trans _ s); [ | apply ts_ref_clone ]
  | |- tsame _ (log_rec ?s _ _ _ _) => apply (tsame_trans _ s); [ | apply ts_log_rec ]
  | |- tsame _ (target_ev ?s _) => apply (tsame_trans _ s); [ | apply ts_target_ev ]
  | |- tsame _ (new_actor ?s _ _ _ _) => apply (tsame_trans _ s); [ | apply ts_new_actor ]
  | |- tsame _ (tok_script ?s _) => apply (tsame_trans _ s); [ | apply ts_tok_script ]
  | |- tsame _ (set_alive ?s _) => apply (tsame_trans _ s); [ | apply ts_set_alive ]
  | |- tsame _ (set_now ?s _) => apply (tsame_trans _ s); [ | apply ts_set_now ]
  | |- tsame _ (set_start ?s _) => apply (tsame_trans _ s); [ | apply ts_set_start ]
  | |- tsame _ (set_mainq ?s _) => apply (tsame_trans _ s); [ | apply ts_set_mainq ]
  | |- tsame _ (set_lazyq ?s _) => apply (tsame_trans _ s); [ | apply ts_set_lazyq ]
  | |- tsame _ (set_idleq ?s _) => apply (tsame_trans _ s); [ | apply ts_set_idleq ]
  | |- tsame _ (set_recreate ?s _) => apply (tsame_trans _ s); [ | apply ts_set_recreate ]
  | |- tsame _ (set_actors ?s _) => apply (tsame_trans _ s); [ | apply ts_set_actors ]
  | |- tsame _ (set_fwds ?s _) => apply (tsame_trans _ s); [ | apply ts_set_fwds ]
  | |- tsame _ (set_env ?s _) => apply (tsame_trans _ s); [ | apply ts_set_env ]
  | |- tsame _ (set_frames ?s _) => apply (tsame_trans _ s); [ | apply ts_set_frames ]
  | |- tsame _ (set_nuid ?s _) => apply (tsame_trans _ s); [ | apply ts_set_nuid ]
  | |- tsame _ (set_logseq ?s _) => apply (tsame_trans _ s); [ | apply ts_set_logseq ]
  | |- tsame _ (set_logfilter ?s _) => apply (tsame_trans _ s); [ | apply ts_set_logfilter ]
  | |- tsame _ (set_haslogger ?s _) => apply (tsame_trans _ s); [ | apply ts_set_haslogger ]
  | |- tsame _ (set_shut ?s _) => apply (tsame_trans _ s); [ | apply ts_set_shut ]
  | |- tsame _ (if ?b then _ else _) => destruct b
  | |- tsame _ ?s' =>
      match goal with
      | H : take _ _ = (_, s') |- _ => eapply tsame_trans; [ | exact (ts_take _ _ _ _ H) ]
      | H : take_caps _ _ = (_, s') |- _ => eapply tsame_trans; [ | exact (ts_take_caps _ _ _ _ H) ]
      | H : bind _ _ _ = (_, s') |- _ => eapply tsame_trans; [ | exact (ts_bind _ _ _ _ _ H) ]
      | H : bad _ _ = (_, s') |- _ => eapply tsame_trans; [ | exact (ts_bad _ _ _ _ H) ]
      | H : inst _ _ _ = (_, s') |- _ => eapply tsame_trans; [ | exact (ts_inst _ _ _ _ _ H) ]
      | H : inst_call _ _ _ = (_, s') |- _ => eapply tsame_trans; [ | exact (ts_inst_call _ _ _ _ _ H) ]
      | H : inst_nocaps _ _ _ = (_, s') |- _ => eapply tsame_trans; [ | exact (ts_inst_nocaps _ _ _ _ _ H) ]
      | H : mk_notifier _ _ _ = (_, s') |- _ => eapply tsame_trans; [ | exact (ts_mk_notifier _ _ _ _ _ H) ]
      | _ => is_var s'; apply tsame_refl
      end
  end.

Ltac ts_tac := repeat ts_step.

Definition specialC_act (a : act) : bool :=
  match a with
  | ATimerAdd _ _ _ _ | AAfter _ _ _ | ATimerMac _ _ _ _ | ATimerUpd _ _ _ | ATimerDel _ _ => true
  | _ => false
  end.

Definition specialC (m : mop) : bool :=
  match m with
  | MActs (a :: _) => specialC_act a
  | MRunMain _ | MDropFields | MNew _ | MDelDone _ _ => true
  | _ => false
  end.

Ltac passC := intros Q; LinDel.inj_pair Q; (split; [ei_tac | ts_tac]).

Lemma do_act_C a s pre s' : do_act a s = (pre, s') -> specialC_act a = false -> evs_in pbC s s' /\ tsame s s'.
Proof.
  intros H SP. destruct a; try discriminate SP; clear SP; revert H; unfold do_act; repeat dest_match; passC.
Qed.

Lemma handle_C m s pre s' : handle m s = (pre, s') -> specialC m = false -> evs_in pbC s s' /\ tsame s s'.
Proof.
  intros H SP. destruct m; try discriminate SP; cbn [handle] in H.
  - revert H. unfold do_top. destruct o; repeat dest_match; passC.
  - destruct l as [|a l]; [revert H; passC|]. destruct (do_act a s) as [p s1] eqn:E. inversion H; subst.
    eapply do_act_C; eauto.
  - revert H. destruct (frames s); passC.
  - revert H. destruct (frames s); passC.
  - revert H. unfold run_item. destruct c as [u i kd caps q]. destruct kd; repeat dest_match; passC.
  - revert H. unfold drop_item. destruct c as [u i kd caps q]. destruct kd; passC.
  - revert H. passC.
  - revert H. unfold drop_val. destruct v; repeat dest_match; passC.
  - revert H. unfold drop_own. destruct logged; repeat dest_match; passC.
  - revert H. unfold drop_ref. destruct (aget (actors s) a) as [y|]; [|passC].
    destruct (a_freed y); [passC|]. destruct (minrc_drop (a_rc y)) as [[v z]|]; [|passC]. destruct z; [|passC].
    destruct (state_drops a (a_state y) _) as [dl s2] eqn:SD. destruct (state_drops_del _ _ _ _ _ SD) as [_ _].
    assert (S2 : s2 = emit (upd_actor s a (mkActor SZombie (oz (count_set_state (a_strong y) STATE_ZOMBIE)) v None (a_logid y) true)) (EModel M_FREE_ACTOR a)).
    { unfold state_drops in SD. destruct (a_state y); inversion SD; reflexivity. }
    subst s2. passC.
  - revert H. unfold ret_invoke. destruct r as [rid k]. destruct k; repeat dest_match; passC.
  - revert H. passC.
  - revert H. passC.
  - revert H. passC.
  - revert H. unfold terminate. destruct (aget (actors s) a) as [y|]; [|passC].
    destruct (state_drops a (a_state y) _) as [dl s2] eqn:SD.
    assert (S2 : s2 = upd_actor (if a_freed y then emit s (EModel M_UAF a) else s) a
                        (mkActor SZombie (oz (count_set_state (a_strong y) STATE_ZOMBIE)) (a_rc y) None (a_logid y) (a_freed y))).
    { unfold state_drops in SD. destruct (a_state y); inversion SD; reflexivity. }
    subst s2. destruct (a_notify y); passC.
  - revert H. destruct (aget (actors s) a); passC.
  - revert H. destruct (aget (actors s) a) as [y|]; [destruct (a_state y)|]; passC.
  - revert H. destruct idle; [destruct (idleq s)|]; passC.
  - revert H. repeat dest_match; passC.
  - revert H. repeat dest_match; passC.
  - revert H. repeat dest_match; passC.
  - revert H. repeat dest_match; passC.
  - revert H. passC.
  - inversion H; subst. split.
    + destruct (class_flags_tr s) as (fl & TR1 & FM & _).
      exists (rev (leaks (rev (tr (class_flags s)))) ++ fl). simpl. rewrite TR1, app_assoc. split; [reflexivity|].
      rewrite forallb_app. apply andb_true_intro. split.
      * unfold leaks. rewrite <- map_rev. apply forallb_forall. intros e IN. apply in_map_iff in IN as (p & <- & _). reflexivity.
      * apply forallb_forall. intros e IN. rewrite Forall_forall in FM. destruct (FM e IN) as (c & a & -> & _). reflexivity.
    + simpl. unfold class_flags.
      assert (TS : forall (f : N * actor -> option ev) l s0, tsame s0 (fold_left (fun s1 p0 => emit_opt s1 (f p0)) l s0)).
      { intros f l. induction l; simpl; intros s0; [apply tsame_refl|]. eapply tsame_trans; [|apply IHl]. unfold emit_opt. destruct (f a); [apply ts_emit | apply tsame_refl]. }
      destruct (TS (class_flag (actors s)) (actors s) s) as (A & B & C). repeat split; auto.
Qed.

(* ------------------------------------------------------------------ *)
(** * The relation *)

Record TM (tv : list ((tk * N) * N)) (s : st) : Prop := mkTM {
  tm_tv : forall kk vv i t, vget (tvars s) kk vv = Some i -> ti_find (timers s) i = Some t ->
                            tv_get tv kk vv = Some (ci_uid (ti_ci t));
  tm_ids : Forall (fun t => (ti_tid t < tnext s)%N) (timers s);
  tm_nd : NoDup (map ti_tid (timers s));
  tm_vlt : forall kk vv i, vget (tvars s) kk vv = Some i -> (i < tnext s)%N }.

Record RC (m : sC) (k : list mop) (s : st) : Prop := mkRC {
  rc_tm : TM (c_tvar m) s;
  rc_lnd : NoDup (c_tlive m);
  rc_llt : forall u, In u (c_tlive m) -> (u < nuid s)%N;
  rc_del : forall w kk vv rest, k = w ++ MDelDone kk vv :: rest -> forall u, tv_get (c_tvar m) kk vv = Some u ->
             ~ In u (c_tlive m) \/ (exists c, w = [MDropItem c] /\ ci_uid c = u /\ ci_call c = false) }.

Lemma TM_tsame tv s s' : tsame s s' -> TM tv s -> TM tv s'.
Proof. intros (A & B & C) [T1 T2 T3 T4]. split; rewrite ?A, ?B, ?C; auto. Qed.

Lemma do_act_nodel a s pre s' : do_act a s = (pre, s') -> (forall k v, a <> ATimerDel k v) -> existsb is_del pre = false.
Proof.
  intros H NA. pose proof (do_act_pre _ _ _ _ H) as AP. inversion AP as [p D1 D2 EQ|c k v EQ|b v EQ|l1 l2 EQ]; subst; auto.
  exfalso. revert H. unfold do_act. destruct a; repeat dest_match; intros Q; LinDel.inj_pair Q;
    try discriminate;
    try (match goal with H : bind _ _ _ = (_, _) |- _ => destruct (bind_del _ _ _ _ _ H) as [X _]; discriminate X end);
    try (match goal with H : bad _ _ = (_, _) |- _ => destruct (bad_del _ _ _ _ H) as [X _]; discriminate X end).
  eapply NA; reflexivity.
Qed.

Lemma handle_nodel mo s pre s' :
  handle mo s = (pre, s') -> (forall k v l, mo <> MActs (ATimerDel k v :: l)) -> existsb is_del pre = false.
Proof.
  intros E NA. destruct (qmop mo) eqn:Q; [|eapply nonq_pre; eauto].
  destruct (is_acts mo) eqn:IA.
  - destruct mo; try discriminate IA. cbn [handle] in E. destruct l as [|a l]; [inversion E; reflexivity|].
    destruct (do_act a s) as [p s1] eqn:DA. inversion E; subst. rewrite del_app. simpl.
    rewrite (do_act_nodel _ _ _ _ DA); [reflexivity|]. intros k v ->. eapply NA; reflexivity.
  - destruct (qmop_pre _ _ _ _ E Q IA) as [p D1 D2|b]; auto.
Qed.

Lemma drop_plain_ev c s pre s' :
  handle (MDropItem c) s = (pre, s') -> ci_call c = false -> tr s' = EDrop (ci_uid c) (ci_sq c) false :: tr s.
Proof.
  cbn [handle]. unfold drop_item, ci_call. destruct c as [u i kd caps q]. simpl. destruct kd; try discriminate.
  intros Q _; inversion Q; reflexivity.
Qed.

(** a step that emits no timer event, pushes no deletion and keeps (or re-establishes) the timer table *)
Lemma RC_block m mo k0 s pre s' evs :
  Lin (mo :: k0) s -> Lin (pre ++ k0) s' -> handle mo s = (pre, s') ->
  tr s' = evs ++ tr s -> forallb pbC evs = true -> existsb is_del pre = false ->
  TM (c_tvar m) s' ->
  monr stepC iC (tr s) = Some m -> RC m (mo :: k0) s ->
  exists m', monr stepC iC (tr s') = Some m' /\ RC m' (pre ++ k0) s'.
Proof.
  intros L L' E TR NE ND TMS M R.
  destruct (monC_block evs _ _ NE M (rc_lnd _ _ _ R)) as (m' & M' & A & B & C & D).
  assert (X : ext s s') by (exists evs; exact TR).
  pose proof (nuid_mono _ _ _ _ L L' X) as NM.
  exists m'. rewrite TR. split; [exact M'|]. split.
  - rewrite A. exact TMS.
  - exact B.
  - intros u H. pose proof (rc_llt _ _ _ R u (C u H)). lia.
  - intros w kk vv rest SPL u TV. rewrite A in TV.
    destruct (app_split pre k0 w (MDelDone kk vv) rest SPL) as [(w0 & K0 & ->)|(p2 & PRE & _)].
    + destruct (rc_del _ _ _ R (mo :: w0) kk vv rest ltac:(rewrite K0; reflexivity) u TV) as [NI|(c & WQ & CU & CC)].
      * left. intros H. apply NI. apply C; auto.
      * inversion WQ; subst. left. pose proof (drop_plain_ev _ _ _ _ E CC) as TE. rewrite TR in TE.
        assert (EV : evs = [EDrop (ci_uid c) (ci_sq c) false]).
        { apply (app_inv_tail (tr s)). simpl. exact TE. }
        eapply D. rewrite EV. left. reflexivity.
    + exfalso. eapply in_split_del; eauto.
Qed.

Lemma IC_neutral m mo k0 s pre s' :
  Lin (mo :: k0) s -> Lin (pre ++ k0) s' -> handle mo s = (pre, s') -> specialC mo = false ->
  monr stepC iC (tr s) = Some m -> RC m (mo :: k0) s ->
  exists m', monr stepC iC (tr s') = Some m' /\ RC m' (pre ++ k0) s'.
Proof.
  intros L L' E SP M R. destruct (handle_C _ _ _ _ E SP) as [[evs [TR NE]] TS].
  eapply RC_block; eauto.
  - eapply handle_nodel; eauto. intros k v l ->. discriminate SP.
  - eapply TM_tsame; eauto. apply (rc_tm _ _ _ R).
Qed.

(* ------------------------------------------------------------------ *)
(** * The timer table under the timer operations *)

Lemma tv_get_head tv k v u : tv_get (((k, v), u) :: tv) k v = Some u.
Proof. simpl. rewrite tk_eqb5_eq. replace (tk_eqb k k) with true by (symmetry; apply tk_eqb_eq; reflexivity). rewrite N.eqb_refl. reflexivity. Qed.

Lemma tv_get_other tv k v u kk vv : (tk_eqb kk k && N.eqb vv v) = false -> tv_get (((k, v), u) :: tv) kk vv = tv_get tv kk vv.
Proof. intros H. simpl. rewrite tk_eqb5_eq, H. reflexivity. Qed.

Lemma nodup_snoc {X} (l : list X) a : NoDup l -> ~ In a l -> NoDup (l ++ [a]).
Proof.
  induction l as [|y l IH]; simpl; intros ND NI; [constructor; [tauto | constructor]|].
  inversion ND; subst. constructor.
  - intros H. apply in_app_or in H as [H|[H|[]]]; [auto | subst; apply NI; left; reflexivity].
  - apply IH; auto.
Qed.

Lemma TM_timer_add tv s k v t ci : TM tv s -> TM (((k, v), ci_uid ci) :: tv) (timer_add s k v t ci).
Proof.
  intros [T1 T2 T3 T4]. unfold timer_add.
  set (i := tnext s). set (x := TI i k t (Z.max t (now s)) (ci_setq ci QTimer)).
  assert (UX : ci_uid (ti_ci x) = ci_uid ci) by (unfold x; simpl; destruct ci; reflexivity).
  split; cbn [timers tvars tnext set_tvars set_tnext set_timers emit set_tr]; fold i; fold x.
  - intros kk vv i0 t0. rewrite vget_vset. destruct (tk_eqb kk k && N.eqb vv v) eqn:Q.
    + apply andb_prop in Q as [Q1 Q2]. apply tk_eqb_eq in Q1. apply N.eqb_eq in Q2. subst kk vv.
      intros Y; inversion Y; subst i0. intros F. rewrite tv_get_head.
      destruct (ti_find_app_inv _ _ _ _ F) as [F0|[-> _]]; [|rewrite UX; reflexivity].
      exfalso. destruct (ti_find_in _ _ _ F0) as [IN TD]. rewrite Forall_forall in T2. specialize (T2 _ IN). unfold i in TD. lia.
    + intros VG F. rewrite (tv_get_other _ _ _ _ _ _ Q).
      destruct (ti_find_app_inv _ _ _ _ F) as [F0|[-> TD]]; [eapply T1; eauto|].
      exfalso. specialize (T4 _ _ _ VG). unfold x in TD. simpl in TD. unfold i in TD. lia.
  - apply Forall_app. split.
    + eapply Forall_impl; [|exact T2]. intros a H. simpl in H. lia.
    + constructor; [|constructor]. unfold x. simpl. lia.
  - rewrite map_app. simpl. apply nodup_snoc; [exact T3|].
    intros IN. apply in_map_iff in IN as (y & E & INY). rewrite Forall_forall in T2. specialize (T2 _ INY). unfold i in E. lia.
  - intros kk vv i0. rewrite vget_vset. destruct (tk_eqb kk k && N.eqb vv v).
    + intros Y; inversion Y. unfold i. lia.
    + intros VG. specialize (T4 _ _ _ VG). lia.
Qed.

Lemma ti_find_update_ci l i t0 y j t :
  ti_find l i = Some t0 -> ti_tid y = ti_tid t0 -> ti_ci y = ti_ci t0 ->
  ti_find (ti_update l i (fun _ => y)) j = Some t -> exists t1, ti_find l j = Some t1 /\ ti_ci t = ti_ci t1.
Proof.
  intros F TD CI. revert F. induction l as [|x l IH]; simpl; [discriminate|].
  destruct (N.eqb (ti_tid x) i) eqn:E; simpl.
  - intros Q; inversion Q; subst x. rewrite TD. destruct (N.eqb (ti_tid t0) j); [intros Y; inversion Y; subst; eauto | eauto].
  - intros F. destruct (N.eqb (ti_tid x) j); [intros Y; inversion Y; subst; eauto | auto].
Qed.

Lemma TM_update tv s i t0 y :
  TM tv s -> ti_find (timers s) i = Some t0 -> ti_tid y = ti_tid t0 -> ti_ci y = ti_ci t0 ->
  TM tv (set_timers s (ti_update (timers s) i (fun _ => y))).
Proof.
  intros [T1 T2 T3 T4] F TD CI. split; cbn [timers tvars tnext set_timers].
  - intros kk vv j t VG FU. destruct (ti_find_update_ci _ _ _ _ _ _ F TD CI FU) as (t1 & F1 & C1). rewrite C1. eapply T1; eauto.
  - assert (G : forall l, Forall (fun t => (ti_tid t < tnext s)%N) l -> (forall x, In x l -> (ti_tid x < tnext s)%N) ).
    { intros l FA x IN. rewrite Forall_forall in FA. auto. }
    apply Forall_forall. intros x IN.
    assert (TT : In (ti_tid x) (map ti_tid (ti_update (timers s) i (fun _ => y)))) by (apply in_map; exact IN).
    assert (MP : forall l, ti_find l i = Some t0 -> map ti_tid (ti_update l i (fun _ => y)) = map ti_tid l).
    { induction l as [|z l IH]; simpl; [discriminate|]. destruct (N.eqb (ti_tid z) i) eqn:E; simpl.
      - intros Q; inversion Q; subst. rewrite TD. reflexivity.
      - intros Q. rewrite (IH Q). reflexivity. }
    rewrite (MP _ F) in TT. apply in_map_iff in TT as (z & EZ & INZ). rewrite <- EZ. eapply G; eauto.
  - assert (MP : forall l, ti_find l i = Some t0 -> map ti_tid (ti_update l i (fun _ => y)) = map ti_tid l).
    { induction l as [|z l IH]; simpl; [discriminate|]. destruct (N.eqb (ti_tid z) i) eqn:E; simpl.
      - intros Q; inversion Q; subst. rewrite TD. reflexivity.
      - intros Q. rewrite (IH Q). reflexivity. }
    rewrite (MP _ F). exact T3.
  - exact T4.
Qed.

Lemma TM_sub tv s l' :
  TM tv s -> (forall x, In x l' -> In x (timers s)) -> NoDup (map ti_tid l') -> TM tv (set_timers s l').
Proof.
  intros [T1 T2 T3 T4] SUB ND. split; cbn [timers tvars tnext set_timers]; auto.
  - intros kk vv j t VG F. eapply T1; eauto. eapply sub_nodup_find; eauto.
  - apply Forall_forall. intros x IN. rewrite Forall_forall in T2. auto.
Qed.

Lemma TM_novars tv s : Forall (fun t => (ti_tid t < tnext s)%N) (timers s) -> NoDup (map ti_tid (timers s)) -> tvars s = [] -> TM tv s.
Proof. intros A B C. split; auto; rewrite C; intros; discriminate. Qed.

(* ------------------------------------------------------------------ *)
(** * Cases *)

Lemma IC_deldone m kk vv k0 s pre s' :
  handle (MDelDone kk vv) s = (pre, s') ->
  monr stepC iC (tr s) = Some m -> RC m (MDelDone kk vv :: k0) s ->
  exists m', monr stepC iC (tr s') = Some m' /\ RC m' (pre ++ k0) s'.
Proof.
  intros E M R. cbn [handle] in E. inversion E; subst pre s'; clear E.
  exists m. split.
  - simpl. rewrite M. simpl. destruct (tv_get (c_tvar m) kk vv) as [u|] eqn:TV; [|reflexivity].
    destruct (rc_del _ _ _ R [] kk vv k0 eq_refl u TV) as [NI|(c & Q & _)]; [|discriminate Q].
    destruct (nmem u (c_tlive m)) eqn:NM; [apply nmem_in in NM; contradiction | reflexivity].
  - split.
    + eapply TM_tsame; [|apply (rc_tm _ _ _ R)]. apply ts_emit.
    + apply (rc_lnd _ _ _ R).
    + apply (rc_llt _ _ _ R).
    + intros w k1 v1 rest SPL u TV. simpl in SPL.
      destruct (rc_del _ _ _ R (MDelDone kk vv :: w) k1 v1 rest ltac:(rewrite SPL; reflexivity) u TV) as [NI|(c & Q & _)]; [left; exact NI | discriminate Q].
Qed.

Lemma nodel_split k0 : existsb is_del k0 = false -> forall w kk vv rest, k0 = w ++ MDelDone kk vv :: rest -> False.
Proof. intros H w kk vv rest E. eapply in_split_del; eauto. Qed.

(* the common part of the three ways of adding a timer *)
Lemma IC_timer_add m mo l k0 s c ci s1 kk vv t :
  Lin (mo :: k0) s -> DD (mo :: k0) s -> mo = MActs l -> has_core s = true ->
  inst c KPlain s = (ci, s1) ->
  monr stepC iC (tr s) = Some m -> RC m (mo :: k0) s ->
  forall l', exists m', monr stepC iC (tr (timer_add s1 kk vv t ci)) = Some m' /\ RC m' ([MActs l'] ++ k0) (timer_add s1 kk vv t ci).
Proof.
  intros L D -> HC I M R l'.
  assert (ND0 : existsb is_del k0 = false).
  { destruct (existsb is_del k0) eqn:Q; auto. pose proof (DD_nocore _ _ _ D Q). congruence. }
  pose proof (inst_uid _ _ _ _ _ I) as UI.
  assert (TS1 : tsame s s1) by (eapply ts_inst; eauto).
  assert (TR1 : tr s1 = EClo (nuid s) (clo_id c) :: tr s).
  { revert I. unfold inst. destruct (take_caps (clo_caps c) s) as [caps s2] eqn:T. intros Q; inversion Q; subst. simpl.
    assert (TT : tr s2 = tr s). {
      clear - T. revert s caps s2 T. induction (clo_caps c) as [|h r IH]; simpl; intros s caps s2 T.
      - inversion T; reflexivity.
      - destruct (take s h) as [[v|] s3] eqn:TK.
        + destruct (take_caps r s3) as [l2 s4] eqn:T2. inversion T; subst. rewrite (IH _ _ _ T2). eapply take_tr; eauto.
        + rewrite (IH _ _ _ T). eapply take_tr; eauto. }
    rewrite TT. reflexivity. }
  assert (NU1 : nuid s1 = (nuid s + 1)%N).
  { revert I. unfold inst. destruct (take_caps (clo_caps c) s) as [caps s2]. intros Q; inversion Q; reflexivity. }
  set (u := ci_uid ci).
  assert (NIu : ~ In u (c_tlive m)).
  { intros IN. pose proof (rc_llt _ _ _ R u IN). unfold u in *. lia. }
  eexists. split.
  - unfold timer_add. cbn [tr set_tvars set_tnext set_timers emit set_tr]. simpl monr. rewrite TR1. simpl monr. rewrite M. reflexivity.
  - split; cbn [c_tvar c_tlive].
    + apply TM_timer_add. eapply TM_tsame; eauto. apply (rc_tm _ _ _ R).
    + constructor; [exact NIu | apply (rc_lnd _ _ _ R)].
    + assert (NUT : nuid (timer_add s1 kk vv t ci) = nuid s1) by reflexivity.
      intros x [<-|IN]; rewrite NUT; [unfold u; lia|].
      pose proof (rc_llt _ _ _ R x IN). lia.
    + intros w k1 v1 rest SPL. exfalso. simpl in SPL. destruct w as [|y w]; simpl in SPL; inversion SPL; subst.
      eapply nodel_split; eauto.
Qed.

Lemma RC_simple m mo k0 s pre s' :
  Lin (mo :: k0) s -> Lin (pre ++ k0) s' -> handle mo s = (pre, s') ->
  evs_in pbC s s' -> tsame s s' -> existsb is_del pre = false ->
  monr stepC iC (tr s) = Some m -> RC m (mo :: k0) s ->
  exists m', monr stepC iC (tr s') = Some m' /\ RC m' (pre ++ k0) s'.
Proof.
  intros L L' E [evs [TR NE]] TS ND M R. eapply RC_block; eauto. eapply TM_tsame; eauto. apply (rc_tm _ _ _ R).
Qed.

Lemma inst_tr c mk s ci s' : inst c mk s = (ci, s') -> tr s' = EClo (nuid s) (clo_id c) :: tr s.
Proof.
  unfold inst. destruct (take_caps (clo_caps c) s) as [caps s2] eqn:T. intros Q; inversion Q; subst. simpl.
  assert (TT : tr s2 = tr s).
  { clear - T. revert s caps s2 T. induction (clo_caps c) as [|h r IH]; simpl; intros s caps s2 T.
    - inversion T; reflexivity.
    - destruct (take s h) as [[v|] s3] eqn:TK.
      + destruct (take_caps r s3) as [l2 s4] eqn:T2. inversion T; subst. rewrite (IH _ _ _ T2). eapply take_tr; eauto.
      + rewrite (IH _ _ _ T). eapply take_tr; eauto. }
  rewrite TT. reflexivity.
Qed.

Lemma IC_acts m a l k0 s pre s' :
  Lin (MActs (a :: l) :: k0) s -> Lin (pre ++ k0) s' -> DD (MActs (a :: l) :: k0) s -> Tags (MActs (a :: l) :: k0) s ->
  handle (MActs (a :: l)) s = (pre, s') -> specialC_act a = true ->
  monr stepC iC (tr s) = Some m -> RC m (MActs (a :: l) :: k0) s ->
  exists m', monr stepC iC (tr s') = Some m' /\ RC m' (pre ++ k0) s'.
Proof.
  intros L L' D TG E SP M R. pose proof E as E0. cbn [handle] in E.
  destruct (do_act a s) as [p s1] eqn:DA. inversion E; subst pre s1; clear E.
  assert (BAD : forall n, (p, s') = bad s n -> exists m', monr stepC iC (tr s') = Some m' /\ RC m' ((p ++ [MActs l]) ++ k0) s').
  { intros n Q. unfold bad in Q. inversion Q; subst. eapply RC_simple; eauto; [ei_tac | ts_tac]. }
  destruct a; try discriminate SP; unfold do_act in DA.
  - (* ATimerAdd *)
    destruct (has_core s) eqn:HC; [|apply (BAD 4%N); auto].
    destruct (inst c KPlain s) as [ci s1] eqn:I. inversion DA; subst p s'.
    apply (IC_timer_add m _ (ATimerAdd k v t c :: l) k0 s c ci s1 k v t L D eq_refl HC I M R l).
  - (* AAfter *)
    destruct (has_core s) eqn:HC; [|apply (BAD 5%N); auto].
    destruct (inst c KPlain s) as [ci s1] eqn:I. inversion DA; subst p s'.
    apply (IC_timer_add m _ (AAfter v d c :: l) k0 s c ci s1 TFixed v (now s1 + d) L D eq_refl HC I M R l).
  - (* ATimerMac *)
    destruct (has_core s) eqn:HC; [|apply (BAD 6%N); auto].
    destruct k; [apply (BAD 6%N); auto| |].
    + destruct (inst c KPlain s) as [ci s1] eqn:I.
      destruct (var_timer s1 TMax v) as [[i k0' e o ci0]|] eqn:VT.
      * inversion DA; subst p s'. destruct (var_timer_find _ _ _ _ VT) as (i' & F & TD). simpl in TD. subst i'.
        eapply RC_block with (evs := [EClo (nuid s) (clo_id c)]); eauto.
        -- simpl. eapply inst_tr; eauto.
        -- apply TM_update with (t0 := TI i k0' e o ci0); auto. eapply TM_tsame; [eapply ts_inst; eauto | apply (rc_tm _ _ _ R)].
      * inversion DA; subst p s'.
        apply (IC_timer_add m _ (ATimerMac TMax v t c :: l) k0 s c ci s1 TMax v t L D eq_refl HC I M R l).
    + destruct (inst c KPlain s) as [ci s1] eqn:I.
      destruct (var_timer s1 TMin v) as [[i k0' e o ci0]|] eqn:VT.
      * inversion DA; subst p s'. destruct (var_timer_find _ _ _ _ VT) as (i' & F & TD). simpl in TD. subst i'.
        eapply RC_block with (evs := [EClo (nuid s) (clo_id c)]); eauto.
        -- simpl. eapply inst_tr; eauto.
        -- apply TM_update with (t0 := TI i k0' e o ci0); auto. eapply TM_tsame; [eapply ts_inst; eauto | apply (rc_tm _ _ _ R)].
      * inversion DA; subst p s'.
        apply (IC_timer_add m _ (ATimerMac TMin v t c :: l) k0 s c ci s1 TMin v t L D eq_refl HC I M R l).
  - (* ATimerUpd *)
    destruct (has_core s) eqn:HC; [|apply (BAD 7%N); auto].
    destruct k; [apply (BAD 7%N); auto| |].
    + destruct (var_timer s TMax v) as [[i k0' e o ci0]|] eqn:VT; inversion DA; subst p s'.
      * destruct (var_timer_find _ _ _ _ VT) as (i' & F & TD). simpl in TD. subst i'.
        eapply RC_block with (evs := [EBool TAG_UPD true]); eauto.
        apply (TM_tsame _ (set_timers s (ti_update (timers s) i (fun _ => TI i TMax (Z.max e t) o ci0)))); [repeat split|].
        apply TM_update with (t0 := TI i k0' e o ci0); auto. apply (rc_tm _ _ _ R).
      * eapply RC_simple; eauto; [ei_tac | ts_tac].
    + destruct (var_timer s TMin v) as [[i k0' e o ci0]|] eqn:VT; inversion DA; subst p s'.
      * destruct (var_timer_find _ _ _ _ VT) as (i' & F & TD). simpl in TD. subst i'.
        eapply RC_block with (evs := [EBool TAG_UPD true]); eauto.
        apply (TM_tsame _ (set_timers s (ti_update (timers s) i (fun _ => TI i TMin (Z.min e t) o ci0)))); [repeat split|].
        apply TM_update with (t0 := TI i k0' e o ci0); auto. apply (rc_tm _ _ _ R).
      * eapply RC_simple; eauto; [ei_tac | ts_tac].
  - (* ATimerDel *)
    destruct (has_core s) eqn:HC; [|apply (BAD 8%N); auto].
    destruct (var_timer s k v) as [[i k0' e o ci0]|] eqn:VT; inversion DA; subst p s'; [|eapply RC_simple; eauto; [ei_tac | ts_tac]].
    assert (ND0 : existsb is_del k0 = false).
    { destruct (existsb is_del k0) eqn:Q; auto. pose proof (DD_nocore _ _ _ D Q). congruence. }
    destruct (var_timer_find _ _ _ _ VT) as (i' & F & TD). simpl in TD. subst i'.
    assert (VG : vget (tvars s) k v = Some i).
    { unfold var_timer in VT. destruct (vget (tvars s) k v) as [j|]; [|discriminate]. destruct (ti_find_in _ _ _ VT) as [_ TJ]. simpl in TJ. subst. reflexivity. }
    assert (PL : ci_call ci0 = false).
    { destruct (ti_find_in _ _ _ F) as [IN _]. pose proof (tg_timers _ _ TG) as FT. rewrite Forall_forall in FT.
      destruct (FT ci0) as [A _]; auto. change ci0 with (ti_ci (TI i k0' e o ci0)). apply in_map. exact IN. }
    exists m. split; [exact M|]. split.
    + apply TM_sub; [apply (rc_tm _ _ _ R) | apply in_ti_remove | apply nodup_ti_remove; apply (tm_nd _ _ (rc_tm _ _ _ R))].
    + apply (rc_lnd _ _ _ R).
    + apply (rc_llt _ _ _ R).
    + intros w k1 v1 rest SPL u TV. simpl in SPL.
      destruct w as [|y w]; simpl in SPL; inversion SPL; subst.
      destruct w as [|y' w]; simpl in H1; inversion H1; subst.
      * right. exists (ci_unq ci0). split; [reflexivity|]. split.
        -- pose proof (tm_tv _ _ (rc_tm _ _ _ R) _ _ _ _ VG F) as G. simpl in G. rewrite G in TV. inversion TV. destruct ci0; reflexivity.
        -- destruct ci0; exact PL.
      * exfalso. destruct w as [|y'' w]; simpl in H2; inversion H2; subst. eapply nodel_split; eauto.
Qed.

Lemma IC_runmain m t k0 s pre s' :
  Lin (MRunMain t :: k0) s -> Lin (pre ++ k0) s' -> handle (MRunMain t) s = (pre, s') ->
  monr stepC iC (tr s) = Some m -> RC m (MRunMain t :: k0) s ->
  exists m', monr stepC iC (tr s') = Some m' /\ RC m' (pre ++ k0) s'.
Proof.
  intros L L' E M R. pose proof E as E0. cbn [handle] in E.
  destruct (t >? now (set_mainq s [])).
  - destruct (fire t (set_now (set_mainq s []) t)) as [fired s2] eqn:FI. inversion E; subst pre s'; clear E.
    unfold fire in FI. inversion FI; subst fired s2; clear FI.
    assert (EV : evs_in pbC s (set_timers (if ambiguous (filter (ti_due t) (timers (set_now (set_mainq s []) t)))
                 then emit (set_now (set_mainq s []) t) (EModel M_AMBIG 0) else set_now (set_mainq s []) t)
                 (filter (fun x => negb (ti_due t x)) (timers (set_now (set_mainq s []) t))))) by ei_tac.
    destruct EV as [evs [TR NE]].
    eapply RC_block; eauto; [apply del_runitems|].
    pose proof (rc_tm _ _ _ R) as TM0.
    assert (G : TM (c_tvar m) (set_timers s (filter (fun x => negb (ti_due t x)) (timers s)))).
    { apply TM_sub; auto.
      - intros x IN. apply filter_In in IN. tauto.
      - apply nodup_filter. apply (tm_nd _ _ TM0). }
    destruct G as [G1 G2 G3 G4]. destruct (ambiguous _); split; auto.
  - inversion E; subst pre s'; clear E. eapply RC_simple; eauto; [ei_tac | ts_tac | apply del_runitems].
Qed.

Lemma IC_dropfields m k0 s pre s' :
  Lin (MDropFields :: k0) s -> Lin (pre ++ k0) s' -> handle MDropFields s = (pre, s') ->
  monr stepC iC (tr s) = Some m -> RC m (MDropFields :: k0) s ->
  exists m', monr stepC iC (tr s') = Some m' /\ RC m' (pre ++ k0) s'.
Proof.
  intros L L' E M R. pose proof E as E0. cbn [handle] in E. inversion E; subst pre s'; clear E.
  assert (EV : evs_in pbC s (emit (set_tvars (set_timers (set_idleq (set_lazyq (if ambiguous (timers s) then emit s (EModel M_AMBIG 1) else s) []) []) []) []) EDropFields)) by ei_tac.
  destruct EV as [evs [TR NE]].
  eapply RC_block; eauto.
  - rewrite del_app, del_dropitems. reflexivity.
  - apply TM_novars; try reflexivity; simpl; constructor.
Qed.

Lemma IC_new m t k0 s pre s' :
  Lin (MNew t :: k0) s -> Lin (pre ++ k0) s' -> handle (MNew t) s = (pre, s') ->
  monr stepC iC (tr s) = Some m -> RC m (MNew t :: k0) s ->
  exists m', monr stepC iC (tr s') = Some m' /\ RC m' (pre ++ k0) s'.
Proof.
  intros L L' E M R. pose proof E as E0. cbn [handle] in E. inversion E; subst pre s'; clear E.
  eapply RC_block with (evs := [ENew t]); eauto.
  - apply del_dropitems.
  - pose proof (rc_tm _ _ _ R) as [T1 T2 T3 T4]. apply TM_novars; auto.
Qed.

Theorem step_RC k s k' s' m :
  Lin k s -> DD k s -> Tags k s -> step k s = Some (k', s') ->
  monr stepC iC (tr s) = Some m -> RC m k s ->
  exists m', monr stepC iC (tr s') = Some m' /\ RC m' k' s'.
Proof.
  intros L D TG H M R. pose proof (step_Lin _ _ _ _ L H) as L'.
  destruct k as [|mo k0]; [discriminate|]. simpl in H.
  destruct (handle mo s) as [pre s1] eqn:E. inversion H; subst; clear H.
  destruct (specialC mo) eqn:SP; [|eapply IC_neutral; eauto].
  destruct mo; try discriminate SP.
  - destruct l as [|a l]; [discriminate SP|]. simpl in SP. eapply IC_acts; eauto.
  - eapply IC_deldone; eauto.
  - eapply IC_new; eauto.
  - eapply IC_runmain; eauto.
  - eapply IC_dropfields; eauto.
Qed.

Lemma RC_init d p : RC iC (map MTop p ++ [MEpilogue]) (init d).
Proof.
  split; simpl.
  - split; simpl; try constructor; intros; discriminate.
  - constructor.
  - intros u [].
  - intros w kk vv rest H. exfalso.
    assert (IN : In (MDelDone kk vv) (map MTop p ++ [MEpilogue])) by (rewrite H; apply in_or_app; right; left; reflexivity).
    apply in_app_or in IN as [IN|[IN|[]]]; [|discriminate IN]. apply in_map_iff in IN as (o & Q & _). discriminate Q.
Qed.
