(** Layer R proofs: C16, the leak conjunct -- part 1: a frame calculus for the final-configuration argument.

    [R s0 s]: going from [s0] to [s] keeps the deferrer kind and the [alive] flag, touches the lazy / idle queues and
    the timers only when [s0] had Core access, never emits [ENew], and every closure instance appended to the main
    queue is announced by an [ESub] event (internal items carry no instance).  Every handler except the phase
    micro-ops of [Stakker::run] / [Stakker::drop] / [Core::new] is an [R] step ([handle_R]). *)
From Coq Require Import ZArith NArith List Bool Lia.
From Stk Require Import Lib.U Gen.SrcCount Gen.SrcCore Gen.SrcLog R.Syntax R.Rt R.Shape R.Eff R.Lin.
Import ListNotations.
Local Open Scope Z_scope.

(* [t] newest first: an [ESub] event newer than the newest [ENew] *)
Fixpoint sub_since_new (t : list ev) : bool :=
  match t with
  | [] => false
  | e :: r => match e with ENew _ => false | ESub _ _ _ => true | _ => sub_since_new r end
  end.

Definition has_real (l : list citem) : bool := existsb (fun c => realk (ci_kind c)) l.

(* a closure instance in the main queue was submitted after the last [Core::new] *)
Definition MQ (s : st) : Prop := has_real (mainq s) = true -> sub_since_new (tr s) = true.

Definition okev (e : ev) : bool := match e with ENew _ | ELeak _ _ => false | _ => true end.

(* no leak report yet *)
Definition nlk (t : list ev) : bool := forallb (fun e => match e with ELeak _ _ => false | _ => true end) t.

Record R (s0 s : st) : Prop := mkR {
  r_dk : dk s = dk s0;
  r_alive : alive s = alive s0;
  r_lit : has_core s0 = false -> lazyq s = lazyq s0 /\ idleq s = idleq s0 /\ timers s = timers s0;
  r_mq : MQ s0 -> MQ s;
  r_nl : nlk (tr s0) = true -> nlk (tr s) = true }.

Lemma R_refl s : R s s.
Proof. split; auto. Qed.

Lemma R_same s0 s s' : R s0 s -> dk s' = dk s -> alive s' = alive s -> lazyq s' = lazyq s -> idleq s' = idleq s ->
  timers s' = timers s -> mainq s' = mainq s -> tr s' = tr s -> R s0 s'.
Proof.
  intros [A B C D NL] E1 E2 E3 E4 E5 E6 E7. split; try congruence.
  - intros H. destruct (C H) as (C1 & C2 & C3). repeat split; congruence.
  - intros H. specialize (D H). unfold MQ in *. rewrite E6, E7. exact D.
  - intros H. rewrite E7. exact (NL H).
Qed.

Lemma ssn_emit e t : okev e = true -> sub_since_new t = true -> sub_since_new (e :: t) = true.
Proof. intros O H. destruct e; simpl; auto; try discriminate O. Qed.

Lemma R_emit s0 s e : R s0 s -> okev e = true -> R s0 (emit s e).
Proof.
  intros [A B C D NL] O. split; auto.
  - intros H. specialize (D H). unfold MQ in *. intros G. apply ssn_emit; auto.
  - intros H. specialize (NL H). change (nlk (e :: tr s) = true). unfold nlk in *. cbn [forallb]. rewrite NL. destruct e; try reflexivity; discriminate O.
Qed.

Lemma has_real_app a b : has_real (a ++ b) = has_real a || has_real b.
Proof. apply existsb_app. Qed.

Lemma R_submit_main s0 s ci : R s0 s -> R s0 (submit s QMain ci).
Proof. intros [A B C D NL]. split; auto. intros H G. reflexivity. Qed.

Lemma R_submit_core s0 s q ci : R s0 s -> has_core s0 = true -> R s0 (submit s q ci).
Proof.
  intros [A B C D NL] HC. split.
  - destruct q; exact A.
  - destruct q; exact B.
  - intros H. congruence.
  - intros H G. destruct q; reflexivity.
  - intros H. destruct q; exact (NL H).
Qed.

Lemma R_push_main s0 s ci : R s0 s -> realk (ci_kind ci) = false -> R s0 (push_main s ci).
Proof.
  intros [A B C D NL] K. split; auto. intros H. specialize (D H). unfold MQ in *. unfold push_main. cbn [mainq tr set_mainq].
  rewrite has_real_app. cbn [has_real existsb]. rewrite K. rewrite !orb_false_r. exact D.
Qed.

Lemma R_timer_add s0 s k v t ci : R s0 s -> has_core s0 = true -> R s0 (timer_add s k v t ci).
Proof.
  intros [A B C D NL] HC. split; auto.
  - intros H. congruence.
  - intros H G. reflexivity.
Qed.

Lemma R_set_timers s0 s l : R s0 s -> has_core s0 = true -> R s0 (set_timers s l).
Proof. intros [A B C D NL] HC. split; auto. intros H. congruence. Qed.

Ltac same_tac := intros H; eapply R_same; [exact H | reflexivity ..].

Lemma R_set_nuid s0 s v : R s0 s -> R s0 (set_nuid s v). Proof. same_tac. Qed.
Lemma R_set_env s0 s v : R s0 s -> R s0 (set_env s v). Proof. same_tac. Qed.
Lemma R_set_fwds s0 s v : R s0 s -> R s0 (set_fwds s v). Proof. same_tac. Qed.
Lemma R_set_shut s0 s v : R s0 s -> R s0 (set_shut s v). Proof. same_tac. Qed.
Lemma R_set_logseq s0 s v : R s0 s -> R s0 (set_logseq s v). Proof. same_tac. Qed.
Lemma R_set_logfilter s0 s v : R s0 s -> R s0 (set_logfilter s v). Proof. same_tac. Qed.
Lemma R_set_haslogger s0 s v : R s0 s -> R s0 (set_haslogger s v). Proof. same_tac. Qed.
Lemma R_set_tvars s0 s v : R s0 s -> R s0 (set_tvars s v). Proof. same_tac. Qed.
Lemma R_set_tnext s0 s v : R s0 s -> R s0 (set_tnext s v). Proof. same_tac. Qed.
Lemma R_set_frames s0 s v : R s0 s -> R s0 (set_frames s v). Proof. same_tac. Qed.
Lemma R_set_recreate s0 s v : R s0 s -> R s0 (set_recreate s v). Proof. same_tac. Qed.
Lemma R_push_frame s0 s c l : R s0 s -> R s0 (push_frame s c l). Proof. same_tac. Qed.
Lemma R_upd_actor s0 s a x : R s0 s -> R s0 (upd_actor s a x). Proof. same_tac. Qed.

Lemma R_ref_clone s0 s a : R s0 s -> R s0 (ref_clone s a).
Proof.
  intros H. unfold ref_clone. destruct (aget (actors s) a) as [x|].
  - destruct (a_freed x); apply R_upd_actor; auto. apply R_emit; auto.
  - apply R_emit; auto.
Qed.

Lemma R_take s0 s h o s' : R s0 s -> take s h = (o, s') -> R s0 s'.
Proof.
  intros H. unfold take. destruct (frames s) as [|fr rest].
  - destruct (aget (env s) h); intros E; inversion E; subst; auto. apply R_set_env; auto.
  - destruct (aget (f_loc fr) h).
    + intros E; inversion E; subst. apply R_set_frames; auto.
    + destruct (aget (env s) h); intros E; inversion E; subst; auto. apply R_set_env; auto.
Qed.

Lemma R_take_caps ids : forall s0 s l s', R s0 s -> take_caps ids s = (l, s') -> R s0 s'.
Proof.
  induction ids as [|h r IH]; simpl; intros s0 s l s' H E.
  - inversion E; subst; auto.
  - destruct (take s h) as [[v|] s1] eqn:T.
    + destruct (take_caps r s1) as [l2 s2] eqn:T2. inversion E; subst.
      eapply IH; [|eauto]. eapply R_take; eauto.
    + eapply IH; [|eauto]. eapply R_take; eauto.
Qed.

Lemma R_take_env_caps ids : forall s0 s l s', R s0 s -> take_env_caps ids s = (l, s') -> R s0 s'.
Proof.
  induction ids as [|h r IH]; simpl; intros s0 s l s' H E.
  - inversion E; subst; auto.
  - destruct (aget (env s) h).
    + destruct (take_env_caps r (set_env s (adel (env s) h))) as [l2 s2] eqn:T2. inversion E; subst.
      eapply IH; [|eauto]. apply R_set_env; auto.
    + eapply IH; eauto.
Qed.

Lemma R_inst c mk s0 s ci s' : R s0 s -> inst c mk s = (ci, s') -> R s0 s'.
Proof.
  intros H. unfold inst. destruct (take_caps (clo_caps c) s) as [caps s1] eqn:T. intros E; inversion E; subst.
  apply R_emit; auto. apply R_set_nuid. eapply R_take_caps; eauto.
Qed.

Lemma R_inst_env c mk s0 s ci s' : R s0 s -> inst_env c mk s = (ci, s') -> R s0 s'.
Proof.
  intros H. unfold inst_env. destruct (take_env_caps (clo_caps c) s) as [caps s1] eqn:T. intros E; inversion E; subst.
  apply R_emit; auto. apply R_set_nuid. eapply R_take_env_caps; eauto.
Qed.

Lemma R_inst_nocaps c mk s0 s ci s' : R s0 s -> inst_nocaps c mk s = (ci, s') -> R s0 s'.
Proof. intros H. unfold inst_nocaps. intros E; inversion E; subst. apply R_emit; auto. apply R_set_nuid; auto. Qed.

Lemma R_target_ev s0 s ci : R s0 s -> R s0 (target_ev s ci).
Proof. intros H. unfold target_ev. destruct ci as [u i k caps q]. destruct k; auto; apply R_emit; auto. Qed.

Lemma R_inst_call c mk s0 s ci s' : R s0 s -> inst_call c mk s = (ci, s') -> R s0 s'.
Proof.
  intros H. unfold inst_call. destruct (inst c mk s) as [ci1 s1] eqn:I. intros E; inversion E; subst.
  apply R_target_ev. eapply R_inst; eauto.
Qed.

Lemma R_bind s0 s h v l s' : R s0 s -> bind s h v = (l, s') -> R s0 s'.
Proof. intros H. unfold bind. destruct (aget (env s) h); intros E; inversion E; subst; apply R_set_env; auto. Qed.

Lemma R_bad s0 s c l s' : R s0 s -> bad s c = (l, s') -> R s0 s'.
Proof. intros H. unfold bad. intros E; inversion E; subst. apply R_emit; auto. Qed.

Lemma R_log_rec s0 s a b c d : R s0 s -> R s0 (log_rec s a b c d).
Proof. intros H. unfold log_rec. destruct (allows s b && haslogger s); auto. apply R_emit; auto. Qed.

Lemma R_tok_script script : forall s0 s, R s0 s -> R s0 (tok_script s script).
Proof.
  unfold tok_script. induction script as [|c r IH]; simpl; intros s0 s H; auto.
  destruct (inst_env c KPlain s) as [ci s1] eqn:I. apply IH.
  apply R_submit_main. eapply R_inst_env; eauto.
Qed.

Lemma R_new_actor s0 s a nt parent vis : R s0 s -> R s0 (new_actor s a nt parent vis).
Proof.
  intros H. unfold new_actor.
  assert (E : R s0 (emit (upd_actor (log_rec (set_logseq s (oz (log_id_next (logseq s)))) (oz (log_id_next (logseq s))) LOGLEVEL_OPEN parent 0) a
                 (mkActor (SPrep []) (oz (count_inc (oz count_new))) MINRC_INIT (Some nt) (oz (log_id_next (logseq s))) false)) (EActor a))).
  { apply R_emit; auto. apply R_upd_actor. apply R_log_rec. apply R_set_logseq; auto. }
  destruct vis; auto. apply R_emit; auto.
Qed.

Lemma R_mk_notifier s0 s a n r s' : R s0 s -> mk_notifier s a n = (r, s') -> R s0 s'.
Proof.
  intros H. unfold mk_notifier. destruct n as [[hp c]|].
  - destruct (lookup s hp) as [v|].
    + destruct (handle_actor v) as [p|].
      * destruct (inst_call c (fun b => KMeth p b None) (ref_clone s p)) as [ci s2] eqn:I.
        intros E; inversion E; subst. eapply R_inst_call; [|eauto]. apply R_ref_clone; auto.
      * intros E; inversion E; subst. apply R_emit; auto.
    + intros E; inversion E; subst. apply R_emit; auto.
  - intros E; inversion E; subst; auto.
Qed.

Lemma R_state_drops s0 s a sa l s' : R s0 s -> state_drops a sa s = (l, s') -> R s0 s'.
Proof. intros H E. apply state_drops_same in E as [-> _]. exact H. Qed.

Lemma R_emit_opt s0 s o : R s0 s -> (forall e, o = Some e -> okev e = true) -> R s0 (emit_opt s o).
Proof. intros H O. destruct o; simpl; auto. apply R_emit; auto. Qed.

Lemma class_flag_okev all p e : class_flag all p = Some e -> okev e = true.
Proof.
  unfold class_flag. destruct (a_freed (snd p)); [discriminate|]. destruct (a_state (snd p)) as [[|c l]|sh sl nx|]; try discriminate.
  - intros E; inversion E; reflexivity.
  - destruct (existsb _ _); [|discriminate]. intros E; inversion E; reflexivity.
Qed.

Lemma R_class_flags s0 s : R s0 s -> R s0 (class_flags s).
Proof.
  unfold class_flags. generalize (actors s) at 1 as all. intros all. generalize (actors s) as l. intros l. revert s.
  induction l as [|p l IH]; simpl; intros s H; auto.
  apply IH. apply R_emit_opt; auto. intros e E. eapply class_flag_okev; eauto.
Qed.

(* the leak report itself *)
Lemma MQ_set_tr s l : forallb (fun e => match e with ENew _ => false | _ => true end) l = true -> MQ s -> MQ (set_tr s (l ++ tr s)).
Proof.
  intros O M G. specialize (M G). cbn [tr set_tr]. clear G. induction l as [|e l IH]; simpl in *; auto.
  apply andb_prop in O as [O1 O2]. specialize (IH O2). destruct e; auto; discriminate O1.
Qed.

Ltac r_tac :=
  repeat first
    [ assumption
    | apply R_refl
    | match goal with |- R _ (if ?b then _ else _) => destruct b end
    | apply R_upd_actor
    | apply R_set_frames
    | apply R_push_frame
    | apply R_set_timers; [ | assumption ]
    | apply R_emit; [ | reflexivity ]
    | apply R_submit_main
    | apply R_submit_core; [ | assumption ]
    | apply R_push_main; [ | reflexivity ]
    | apply R_timer_add; [ | assumption ]
    | apply R_set_nuid | apply R_set_env | apply R_set_fwds | apply R_set_shut
    | apply R_set_logseq | apply R_set_tvars | apply R_set_tnext | apply R_set_logfilter | apply R_set_haslogger
    | apply R_ref_clone | apply R_log_rec | apply R_new_actor | apply R_tok_script | apply R_target_ev
    | eapply R_state_drops; [ | eassumption ]
    | eapply R_bind; [ | eassumption ]
    | eapply R_bad; [ | eassumption ]
    | eapply R_take; [ | eassumption ]
    | eapply R_take_caps; [ | eassumption ]
    | eapply R_inst; [ | eassumption ]
    | eapply R_inst_call; [ | eassumption ]
    | eapply R_inst_nocaps; [ | eassumption ]
    | eapply R_mk_notifier; [ | eassumption ] ].

Ltac rr_tac :=
  intros;
  match goal with
  | E : (_, _) = (_, _) |- _ => inversion E; subst; clear E
  | _ => idtac
  end;
  solve [r_tac].

Lemma do_act_R a s l s' : do_act a s = (l, s') -> R s s'.
Proof. unfold do_act. destruct a; repeat dest_match; try solve [rr_tac]. Qed.

Lemma run_item_R c s l s' : run_item c s = (l, s') -> R s s'.
Proof. unfold run_item. destruct c as [u i k caps q]; destruct k; repeat dest_match; try solve [rr_tac]. Qed.

Lemma drop_item_R c s l s' : drop_item c s = (l, s') -> R s s'.
Proof. unfold drop_item. destruct c as [u i k caps q]; destruct k; try solve [rr_tac]. Qed.

Lemma ret_invoke_R r m s l s' : ret_invoke r m s = (l, s') -> R s s'.
Proof. unfold ret_invoke. destruct r as [rid k]. destruct k; repeat dest_match; try solve [rr_tac]. Qed.

Lemma terminate_R a c s l s' : terminate a c s = (l, s') -> R s s'.
Proof. unfold terminate. repeat dest_match; try solve [rr_tac]. Qed.

Lemma drop_own_R a b s l s' : drop_own a b s = (l, s') -> R s s'.
Proof. unfold drop_own. repeat dest_match; try solve [rr_tac]. Qed.

Lemma drop_ref_R a s l s' : drop_ref a s = (l, s') -> R s s'.
Proof. unfold drop_ref. repeat dest_match; try solve [rr_tac]. Qed.

Lemma drop_val_R v s l s' : drop_val v s = (l, s') -> R s s'.
Proof. unfold drop_val. destruct v; repeat dest_match; try solve [rr_tac]. Qed.

Lemma do_top_R o s l s' : do_top o s = (l, s') -> R s s'.
Proof. unfold do_top. destruct o; repeat dest_match; try solve [rr_tac]. Qed.

(* the micro-ops that change the queues wholesale or the [alive] flag *)
Definition is_phase (m : mop) : bool :=
  match m with MNew _ | MRunIdle _ | MRunMain _ | MLoop _ | MDrain _ | MDropFields | MDropEnd => true | _ => false end.

Lemma handle_R m s pre s' : is_phase m = false -> m <> MLeaks -> handle m s = (pre, s') -> R s s'.
Proof.
  intros P NLK. destruct m; try discriminate P; cbn [handle].
  - apply do_top_R.
  - destruct l as [|a l]; [rr_tac|]. destruct (do_act a s) as [p s1] eqn:E. intros Q; inversion Q; subst. eapply do_act_R; eauto.
  - destruct (frames s); rr_tac.
  - destruct (frames s); rr_tac.
  - apply run_item_R.
  - apply drop_item_R.
  - rr_tac.
  - apply drop_val_R.
  - apply drop_own_R.
  - apply drop_ref_R.
  - apply ret_invoke_R.
  - rr_tac.
  - rr_tac.
  - rr_tac.
  - rr_tac.
  - apply terminate_R.
  - destruct (aget (actors s) a); rr_tac.
  - repeat dest_match; rr_tac.
  - destruct (amin (env s)) as [[h v]|]; rr_tac.
  - rr_tac.
  - exfalso. apply NLK. reflexivity.
Qed.
