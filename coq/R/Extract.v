(** Extraction of the Layer R model (and, later, the monitors) for exec/r_driver.ml. *)
From Coq Require Import ZArith NArith List Bool.
From Coq Require Import ExtrOcamlBasic.
From Stk Require Import R.Syntax R.Rt R.Mon R.MonX.
Extraction Language OCaml.
Extraction "extracted/r_model.ml" exec C01_ok C02_ok C03_ok C03_dropped_ok C03_none_ok C04_ok C05_ok C05_calls_ok C06_ok C06_plain_ok C06_calls_ok C15_ok C16_ok C20_ok.
