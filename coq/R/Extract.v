(** Extraction of the Layer R model (and, later, the monitors) for exec/r_driver.ml. *)
From Coq Require Import ZArith NArith List Bool.
From Coq Require Import ExtrOcamlBasic.
From Stk Require Import R.Syntax R.Rt.
Extraction Language OCaml.
Extraction "extracted/r_model.ml" exec.
