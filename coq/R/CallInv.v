(** Layer R proofs: facts about actor cells, queued calls and pending notifier invocations that the call
    monitors (C02, C06 calls conjunct) rest on; no monitor state here.  [step_KI]: preserved by every step. *)
From Coq Require Import ZArith NArith List Bool Lia Permutation.
From Stk Require Import Lib.U Gen.SrcCount Gen.SrcCore Gen.SrcLog R.Syntax R.Rt R.Mon R.Shape R.Eff R.Tags R.Drops R.Mono R.Count R.Nest R.C20Proofs R.Calls.
Import ListNotations.
Local Open Scope Z_scope.

Definition zombie (s : st) (a : N) : Prop := exists x, aget (actors s) a = Some x /\ a_state x = SZombie.

(* an item of the held queue of actor [a]: a Ready call to [a] that went through the main queue, or the internal
   slab-removal item of one of [a]'s children *)
Definition hok (a : N) (c : citem) : Prop :=
  (exists b arg, ci_kind c = KMeth a b arg /\ ci_sq c = Some QMain) \/
  (exists key, ci_kind c = KSlabRm a key /\ ci_sq c = None /\ ci_uid c = 0%N).

Definition aok (a : N) (x : actor) : Prop :=
  srange (a_strong x) /\ sta (a_strong x) = skind (a_state x) /\
  (forall nt, a_notify x = Some nt -> nshape a nt) /\ (a_notify x = None -> a_state x = SZombie) /\
  Forall (hok a) (held_of x).

(* an item of the main queue or of a batch taken from it *)
Definition subok (c : citem) : Prop :=
  match ci_kind c with
  | KMeth _ _ _ | KPrep _ _ _ => ci_sq c = Some QMain
  | KSlabRm _ _ | KTerm _ | KKill _ _ => ci_sq c = None /\ ci_uid c = 0%N
  | KPlain _ => True
  end.

(* a call whose closure is dropped after its target reference: it went through the main queue, or was never sent *)
Definition dsq (c : citem) : Prop := match ci_sq c with None | Some QMain => True | Some _ => False end.

Definition mok (s : st) (m : mop) : Prop :=
  match m with
  | MRunItem c | MDropItem c => subok c
  | MDropInner c => callk c /\ dsq c
  | MRetInvoke r _ => forall a, nshape a r -> zombie s a
  | _ => True
  end.

Lemma subok_dsq c : callk c -> subok c -> dsq c.
Proof. unfold callk, subok, dsq. destruct (ci_kind c); try contradiction; intros _ ->; exact I. Qed.

Record KS (s : st) : Prop := mkKS {
  ks_act : forall a x, aget (actors s) a = Some x -> aok a x;
  ks_main : Forall subok (mainq s);
  ks_keys : NoDup (map fst (actors s)) }.

Definition KI (k : list mop) (s : st) : Prop := KS s /\ Forall (mok s) k.

Definition zmono (s s' : st) : Prop := forall a, zombie s a -> zombie s' a.

Lemma zmono_refl s : zmono s s. Proof. intros a H; auto. Qed.
Lemma zmono_trans a b c : zmono a b -> zmono b c -> zmono a c.
Proof. intros H G x Z. auto. Qed.
Lemma zmono_same s s' : actors s' = actors s -> zmono s s'.
Proof. intros E a (x & A & Z). exists x. rewrite E. auto. Qed.

Lemma mok_mono s s' m : zmono s s' -> mok s m -> mok s' m.
Proof. intros Z H. destruct m; simpl in *; auto. Qed.

Lemma skind_zombie sa : skind sa = 2 -> sa = SZombie.
Proof. destruct sa; simpl; intros H; try discriminate; reflexivity. Qed.

Lemma zmono_upd s a x y : aget (actors s) a = Some y -> skind (a_state x) = skind (a_state y) -> zmono s (upd_actor s a x).
Proof.
  intros AY SK b (z & AZ & ZZ). unfold zombie, upd_actor. simpl. destruct (N.eq_dec a b) as [<-|NE].
  - rewrite aget_aset_eq. exists x. split; auto. rewrite AY in AZ. inversion AZ; subst. rewrite ZZ in SK. apply skind_zombie. exact SK.
  - rewrite aget_aset_neq by auto. eauto.
Qed.

Lemma zmono_fresh s a x : aget (actors s) a = None -> zmono s (upd_actor s a x).
Proof.
  intros AN b (z & AZ & ZZ). unfold zombie, upd_actor. simpl. assert (a <> b) by (intros <-; congruence).
  rewrite aget_aset_neq by auto. eauto.
Qed.

Lemma zmono_new_actor s a nt parent vis : aget (actors s) a = None -> zmono s (new_actor s a nt parent vis).
Proof.
  intros AN b (z & AZ & ZZ). assert (a <> b) by (intros <-; congruence). exists z. split; auto.
  unfold new_actor, log_rec. destruct (_ && _); destruct vis; unfold upd_actor; simpl; rewrite aget_aset_neq; auto.
Qed.

Lemma keff_zmono s s1 : keff s s1 -> zmono s s1.
Proof.
  intros E. induction E; try apply zmono_refl; try (eapply zmono_trans; [exact IHE|]).
  - apply zmono_same. reflexivity.
  - apply zmono_same. apply H.
  - eapply zmono_upd; eauto. apply H0.
  - apply zmono_new_actor; auto.
  - apply zmono_same. unfold submit, push_main. reflexivity.
  - apply zmono_same. unfold submit. destruct q; reflexivity.
  - apply zmono_same. reflexivity.
  - apply zmono_same. reflexivity.
Qed.

Lemma aok_new a nt : nshape a nt ->
  aok a (mkActor (SPrep []) (oz (count_inc (oz count_new))) MINRC_INIT (Some nt) 0 false) .
Proof.
  intros N. split; [|split; [|split; [|split]]]; simpl.
  - vm_compute. split; [discriminate | reflexivity].
  - reflexivity.
  - intros nt0 E; inversion E; subst; auto.
  - discriminate.
  - constructor.
Qed.

Lemma aok_logid a st strong rc nt id id' fr : aok a (mkActor st strong rc nt id fr) -> aok a (mkActor st strong rc nt id' fr).
Proof. intros H. exact H. Qed.

Lemma aset_keys {X} (l : list (N * X)) a x :
  map fst (aset l a x) = match aget l a with Some _ => map fst l | None => map fst l ++ [a] end.
Proof.
  induction l as [|[b y] r IH]; simpl; auto. destruct (N.eqb a b) eqn:E; simpl.
  - apply N.eqb_eq in E. subst. reflexivity.
  - rewrite IH. destruct (aget r a); reflexivity.
Qed.

Lemma aget_none_keys {X} (l : list (N * X)) a : aget l a = None -> ~ In a (map fst l).
Proof.
  induction l as [|[b y] r IH]; simpl; auto. destruct (N.eqb a b) eqn:E; [discriminate|].
  intros H [Q|Q]; [subst; rewrite N.eqb_refl in E; discriminate | apply IH; auto].
Qed.

Lemma aset_nodup {X} (l : list (N * X)) a x : NoDup (map fst l) -> NoDup (map fst (aset l a x)).
Proof.
  intros H. rewrite aset_keys. destruct (aget l a) eqn:E; auto.
  eapply Permutation_NoDup; [apply Permutation_cons_append|]. constructor; auto. apply aget_none_keys; auto.
Qed.

Lemma aget_in {X} (l : list (N * X)) a x : NoDup (map fst l) -> In (a, x) l -> aget l a = Some x.
Proof.
  induction l as [|[b y] r IH]; simpl; [contradiction|]. intros N [Q|Q].
  - inversion Q; subst. rewrite N.eqb_refl. reflexivity.
  - inversion N; subst. destruct (N.eqb a b) eqn:E.
    + apply N.eqb_eq in E. subst. exfalso. apply H1. apply in_map_iff. exists (b, x). auto.
    + apply IH; auto.
Qed.

Lemma KS_upd s a x : KS s -> aok a x -> KS (upd_actor s a x).
Proof.
  intros [A M KK] X. constructor; auto.
  - unfold upd_actor; simpl. intros b y. destruct (N.eq_dec a b) as [<-|NE].
    + rewrite aget_aset_eq. intros E; inversion E; subst; auto.
    + rewrite aget_aset_neq by auto. apply A.
  - unfold upd_actor; simpl. apply aset_nodup; auto.
Qed.

Lemma aok_same_view a x y : aok a y -> same_view x y -> aok a x.
Proof.
  intros (R & S & N1 & N2 & H) (V1 & V2 & V3 & V4). destruct (V4 R) as [R' S'].
  split; auto. split; [congruence|]. split; [rewrite V3; auto|]. split.
  - rewrite V3. intros E. specialize (N2 E). rewrite N2 in V2. apply skind_zombie. exact V2.
  - rewrite V1. exact H.
Qed.

Lemma subok_setq_call ci : callk ci -> subok (ci_setq ci QMain).
Proof. destruct ci as [u i k caps q]. unfold callk, subok. simpl. destruct k; simpl; auto; contradiction. Qed.

Lemma subok_setq_plain ci q : ci_call ci = false -> subok (ci_setq ci q).
Proof. destruct ci as [u i k caps q0]. unfold ci_call, subok. simpl. destruct k; simpl; auto; discriminate. Qed.

Lemma keff_KS s s1 : keff s s1 -> KS s -> KS s1.
Proof.
  intros E. induction E; intros K; auto.
  - specialize (IHE K). destruct IHE as [A M KK]. constructor; auto.
  - specialize (IHE K). destruct IHE as [A M KK]. destruct H as (_ & HM & HA & _). constructor; [rewrite HA; auto | rewrite HM; auto | rewrite HA; auto].
  - specialize (IHE K). apply KS_upd; auto. eapply aok_same_view; eauto. apply (ks_act _ IHE _ _ H).
  - specialize (IHE K). unfold new_actor.
    set (s2 := log_rec (set_logseq s1 (oz (log_id_next (logseq s1)))) (oz (log_id_next (logseq s1))) LOGLEVEL_OPEN parent 0).
    assert (K2 : KS s2).
    { destruct IHE as [A M KK]. unfold s2, log_rec. destruct (_ && _); constructor; auto. }
    assert (K3 : KS (emit (upd_actor s2 a (mkActor (SPrep []) (oz (count_inc (oz count_new))) MINRC_INIT (Some nt) (oz (log_id_next (logseq s1))) false)) (EActor a))).
    { assert (K4 : KS (upd_actor s2 a (mkActor (SPrep []) (oz (count_inc (oz count_new))) MINRC_INIT (Some nt) (oz (log_id_next (logseq s1))) false))).
      { apply KS_upd; auto. eapply aok_logid. apply aok_new; auto. }
      destruct K4 as [A M KK]. constructor; auto. }
    destruct vis; auto. destruct K3 as [A M KK]. constructor; auto.
  - specialize (IHE K). destruct IHE as [A M KK]. constructor; auto. unfold submit, push_main. simpl.
    apply Forall_app. split; auto. constructor; [|constructor]. apply subok_setq_call; auto.
  - specialize (IHE K). destruct IHE as [A M KK]. unfold submit. destruct q; constructor; auto.
    unfold push_main. simpl. apply Forall_app. split; auto. constructor; [|constructor]. apply subok_setq_plain; auto.
  - specialize (IHE K). destruct IHE as [A M KK]. constructor; auto. unfold push_main. simpl.
    apply Forall_app. split; auto. constructor; [|constructor]. unfold subok. simpl. destruct k; simpl in *; auto; contradiction.
  - specialize (IHE K). destruct IHE as [A M KK]. constructor; auto.
Qed.

Lemma genm_mok s m : genm m -> mok s m.
Proof.
  destruct m; simpl; auto; try contradiction.
  - intros C. unfold subok. unfold ci_call in C. destruct (ci_kind c); auto; discriminate.
  - intros [U _] a N. destruct r as [rid k]. destruct k; simpl in *; contradiction.
Qed.

Lemma gen_mok s l : Forall genm l -> Forall (mok s) l.
Proof. intros F. eapply Forall_impl; [|exact F]. intros m. apply genm_mok. Qed.

(* ------------------------------------------------------------------ *)
(** * Steps *)

Lemma hok_subok a c : hok a c -> subok c.
Proof. intros [(b & arg & K & Q)|(key & K & Q & U)]; unfold subok; rewrite K; auto. Qed.

Fixpoint nshape_fun (r : ret) {struct r} : forall a a', nshape a r -> nshape a' r -> a = a'.
Proof.
  destruct r as [rid k]. destruct k; simpl; intros b b'; try contradiction.
  - intros <- <-. reflexivity.
  - apply nshape_fun.
Qed.

Lemma KS_same s s' : KS s -> actors s' = actors s -> mainq s' = mainq s -> KS s'.
Proof. intros [A M KK] E1 E2. constructor; [rewrite E1; auto | rewrite E2; auto | rewrite E1; auto]. Qed.

Lemma aok_zombie_cell a x v rc fr : aok a x -> aok a (mkActor SZombie (oz (count_set_state (a_strong x) STATE_ZOMBIE)) rc None v fr).
Proof.
  intros (R & _). split; [|split; [|split; [|split]]]; simpl.
  - apply sta_set; auto. unfold STATE_ZOMBIE. lia.
  - apply sta_set; auto. unfold STATE_ZOMBIE. lia.
  - discriminate.
  - reflexivity.
  - constructor.
Qed.

Lemma zombie_upd_self s a x : a_state x = SZombie -> zombie (upd_actor s a x) a.
Proof. intros Z. exists x. split; auto. unfold upd_actor; simpl. apply aget_aset_eq. Qed.

Lemma zmono_upd_zombie s a x : a_state x = SZombie -> zmono s (upd_actor s a x).
Proof.
  intros Z b (y & AY & ZY). destruct (N.eq_dec a b) as [<-|NE].
  - apply zombie_upd_self; auto.
  - exists y. split; auto. unfold upd_actor; simpl. rewrite aget_aset_neq; auto.
Qed.

Lemma state_drops_mok a x s l s' : aok a x -> state_drops a (a_state x) s = (l, s') -> s' = s /\ forall s2, Forall (mok s2) l.
Proof.
  intros (_ & _ & _ & _ & H). unfold state_drops, held_of in *. destruct (a_state x); intros E; inversion E; subst; split; auto; intros s2.
  - induction H; simpl; constructor; auto. simpl. eapply hok_subok; eauto.
  - constructor; [exact I|]. apply Forall_app. split; [apply gen_mok, gen_drops | apply gen_mok, gen_slab_drops].
Qed.

Lemma held_run_mok a l s2 : Forall (hok a) l -> Forall (mok s2) (map MRunItem l).
Proof. intros F. induction F; simpl; constructor; auto. simpl. eapply hok_subok; eauto. Qed.

Lemma subok_drop_mok l s2 : Forall subok l -> Forall (mok s2) (map MDropItem l).
Proof. intros F. induction F; simpl; constructor; auto. Qed.
Lemma subok_run_mok l s2 : Forall subok l -> Forall (mok s2) (map MRunItem l).
Proof. intros F. induction F; simpl; constructor; auto. Qed.

Lemma plain_subok c : ci_call c = false -> subok c.
Proof. unfold subok, ci_call. destruct (ci_kind c); auto; discriminate. Qed.
Lemma tagged_subok q l : Forall (tagged q) l -> Forall subok l.
Proof. intros F. eapply Forall_impl; [|exact F]. intros c [C _]. apply plain_subok; auto. Qed.

Lemma notif_mok s a nt m0 : nshape a nt -> zombie s a -> mok s (MRetInvoke nt m0).
Proof. intros N Z a' N'. rewrite <- (nshape_fun _ _ _ N N'). exact Z. Qed.

Lemma subok_as_call a ci arg : subok (ci_setq (as_call a ci arg) QMain).
Proof. destruct ci as [u i k caps q]. reflexivity. Qed.

Lemma fold_emit_opt_fields (f : N * actor -> option ev) l : forall s0,
  actors (fold_left (fun x p => emit_opt x (f p)) l s0) = actors s0 /\ mainq (fold_left (fun x p => emit_opt x (f p)) l s0) = mainq s0.
Proof.
  induction l as [|p l IH]; intros s0; simpl; auto. destruct (IH (emit_opt s0 (f p))) as [A B]. rewrite A, B.
  unfold emit_opt. destruct (f p); auto.
Qed.

Lemma class_flags_fields s : actors (class_flags s) = actors s /\ mainq (class_flags s) = mainq s.
Proof. unfold class_flags. apply fold_emit_opt_fields. Qed.

Lemma handle_KI m k0 s pre s' : WF (m :: k0) s -> QTags s -> KI (m :: k0) s -> handle m s = (pre, s') ->
  KI (pre ++ k0) s' /\ zmono s s'.
Proof.
  intros W T [K M] E. inversion M as [|? ? MM M0]; subst.
  assert (FIN : KS s' -> zmono s s' -> Forall (mok s') pre -> KI (pre ++ k0) s' /\ zmono s s').
  { intros A B C. split; auto. split; auto. apply Forall_app. split; auto. eapply Forall_impl; [|exact M0]. intros x. apply mok_mono; auto. }
  destruct (kclass m) eqn:KC.
  { destruct (kclass_kout _ _ _ _ _ KC W T E) as [KE G]. apply FIN; [eapply keff_KS; eauto | apply keff_zmono; auto | apply gen_mok; auto]. }
  pose proof W as [WK WQ]. inversion WK as [|? ? MW WK0]; subst.
  destruct m; try discriminate KC; simpl in E.
  - (* MTop *)
    unfold do_top in E. destruct o.
    + destruct (alive s); inversion E; subst; (apply FIN; [exact K | apply zmono_refl | repeat constructor]).
    + destruct (alive s); [|unfold bad in E]; inversion E; subst; (apply FIN; [eapply KS_same; eauto | apply zmono_same; reflexivity | repeat constructor]).
    + inversion E; subst. apply FIN; [eapply KS_same; eauto | apply zmono_same; reflexivity | repeat constructor].
    + destruct (alive s); inversion E; subst; (apply FIN; [eapply KS_same; eauto | apply zmono_same; reflexivity | repeat constructor]).
    + inversion E; subst. (apply FIN; [exact K | apply zmono_refl | repeat constructor]).
    + destruct (alive s); [|unfold bad in E]; inversion E; subst; (apply FIN; [eapply KS_same; eauto | apply zmono_same; reflexivity | repeat constructor]).
    + destruct (alive s); [|unfold bad in E]; inversion E; subst.
      * apply FIN; [eapply KS_same; eauto; destruct (haslogger _); reflexivity | apply zmono_same; destruct (haslogger _); reflexivity | constructor].
      * apply FIN; [eapply KS_same; eauto | apply zmono_same; reflexivity | constructor].
  - (* MEndBody *)
    destruct (frames s) as [|fr rest]; inversion E; subst.
    + apply FIN; [eapply KS_same; eauto | apply zmono_same; reflexivity | constructor].
    + apply FIN; [eapply KS_same; eauto | apply zmono_same; reflexivity|].
      apply Forall_app. split; [apply gen_mok, gen_drops|].
      destruct f; simpl; try constructor; destruct (f_die fr); try destruct ready; repeat constructor.
  - (* MRunItem *)
    unfold run_item in E. destruct c as [u i kd caps q]. unfold subok in MM. simpl in MM. destruct kd.
    + inversion E; subst. apply FIN; [eapply KS_same; eauto | apply zmono_same; reflexivity | repeat constructor; try (apply subok_dsq; [exact Logic.I | exact MM])].
    + destruct (aget (actors s) a) as [x|] eqn:AX.
      * pose proof (ks_act _ K _ _ AX) as AO. destruct (a_state x) eqn:SX; inversion E; subst.
        -- apply FIN; [|eapply zmono_upd; eauto; simpl; rewrite SX; reflexivity | constructor].
           apply KS_upd; auto. destruct AO as (R & S & N1 & N2 & H). split; [|split; [|split; [|split]]]; simpl; auto.
           ++ rewrite S, SX. reflexivity.
           ++ intros Q. specialize (N2 Q). congruence.
           ++ unfold held_of in H. rewrite SX in H. apply Forall_app. split; auto. constructor; [|constructor].
              left. simpl. eauto.
        -- apply FIN; [eapply KS_same; eauto | apply zmono_same; reflexivity | repeat constructor; try (apply subok_dsq; [exact Logic.I | exact MM])].
        -- (apply FIN; [exact K | apply zmono_refl | repeat constructor; try (apply subok_dsq; [exact Logic.I | exact MM])]).
      * inversion E; subst. apply FIN; [eapply KS_same; eauto | apply zmono_same; reflexivity | repeat constructor; try (apply subok_dsq; [exact Logic.I | exact MM])].
    + destruct (aget (actors s) a) as [x|] eqn:AX.
      * destruct (ob (count_is_prep (a_strong x))); inversion E; subst.
        -- apply FIN; [eapply KS_same; eauto | apply zmono_same; reflexivity | repeat constructor; try (apply subok_dsq; [exact Logic.I | exact MM])].
        -- (apply FIN; [exact K | apply zmono_refl | repeat constructor; try (apply subok_dsq; [exact Logic.I | exact MM])]).
      * inversion E; subst. apply FIN; [eapply KS_same; eauto | apply zmono_same; reflexivity | repeat constructor; try (apply subok_dsq; [exact Logic.I | exact MM])].
    + destruct MM as [MQ MU]. destruct (aget (actors s) p) as [x|] eqn:AX.
      * pose proof (ks_act _ K _ _ AX) as AO. destruct (a_state x) eqn:SX.
        -- inversion E; subst. apply FIN; [|eapply zmono_upd; eauto; simpl; rewrite SX; reflexivity | constructor].
           apply KS_upd; auto. destruct AO as (R & S & N1 & N2 & H). split; [|split; [|split; [|split]]]; simpl; auto.
           ++ rewrite S, SX. reflexivity.
           ++ intros Q. specialize (N2 Q). congruence.
           ++ unfold held_of in H. rewrite SX in H. apply Forall_app. split; auto. constructor; [|constructor].
              right. simpl in *. eauto.
        -- destruct (nth_error slab (N.to_nat key)) as [[child|nx]|]; inversion E; subst.
           ++ apply FIN; [|eapply zmono_upd; eauto; simpl; rewrite SX; reflexivity | repeat constructor; try (apply subok_dsq; [exact Logic.I | exact MM])].
              apply KS_upd; auto. destruct AO as (R & S & N1 & N2 & H). split; [|split; [|split; [|split]]]; simpl; auto.
              ** rewrite S, SX. reflexivity.
              ** intros Q. specialize (N2 Q). congruence.
              ** constructor.
           ++ apply FIN; [eapply KS_same; eauto | apply zmono_same; reflexivity | repeat constructor; try (apply subok_dsq; [exact Logic.I | exact MM])].
           ++ apply FIN; [eapply KS_same; eauto | apply zmono_same; reflexivity | repeat constructor; try (apply subok_dsq; [exact Logic.I | exact MM])].
        -- inversion E; subst. (apply FIN; [exact K | apply zmono_refl | repeat constructor; try (apply subok_dsq; [exact Logic.I | exact MM])]).
      * inversion E; subst. apply FIN; [eapply KS_same; eauto | apply zmono_same; reflexivity | constructor].
    + inversion E; subst. (apply FIN; [exact K | apply zmono_refl | repeat constructor; try (apply subok_dsq; [exact Logic.I | exact MM])]).
    + inversion E; subst. (apply FIN; [exact K | apply zmono_refl | repeat constructor; try (apply subok_dsq; [exact Logic.I | exact MM])]).
  - (* MDropItem: a call *)
    destruct c as [u i kd caps q]. unfold ci_call in KC. simpl in KC. destruct kd; try discriminate KC; simpl in E; inversion E; subst;
      ((apply FIN; [exact K | apply zmono_refl | repeat constructor; try (apply subok_dsq; [exact Logic.I | exact MM])])).
  - (* MDropInner *)
    inversion E; subst. apply FIN; [eapply KS_same; eauto | apply zmono_same; reflexivity | apply gen_mok, gen_drops].
  - (* MDropRef *)
    unfold drop_ref in E. destruct (aget (actors s) a) as [x|] eqn:AX.
    + pose proof (ks_act _ K _ _ AX) as AO. destruct (a_freed x).
      { inversion E; subst. apply FIN; [eapply KS_same; eauto | apply zmono_same; reflexivity | constructor]. }
      destruct (minrc_drop (a_rc x)) as [[v z]|].
      * destruct z.
        -- set (x1 := mkActor SZombie (oz (count_set_state (a_strong x) STATE_ZOMBIE)) v None (a_logid x) true) in *.
           set (s1 := emit (upd_actor s a x1) (EModel M_FREE_ACTOR a)) in *.
           destruct (state_drops a (a_state x) s1) as [dl s2] eqn:SD.
           destruct (state_drops_mok _ _ _ _ _ AO SD) as [-> DM]. inversion E; subst.
           assert (ZM : zmono s s1) by (eapply zmono_trans; [apply (zmono_upd_zombie s a x1); reflexivity | apply zmono_same; reflexivity]).
           apply FIN; auto.
           ++ eapply KS_same with (s := upd_actor s a x1); try reflexivity. apply KS_upd; auto. apply aok_zombie_cell; auto.
           ++ apply Forall_app. split; [|apply DM].
              destruct (a_notify x) as [nt|] eqn:NT; [|constructor]. constructor; [|constructor].
              eapply notif_mok; [apply AO; eauto|]. apply (zombie_upd_self s a x1). reflexivity.
        -- inversion E; subst. apply FIN; [|eapply zmono_upd; eauto | constructor].
           apply KS_upd; auto.
      * inversion E; subst. apply FIN; [eapply KS_same; eauto | apply zmono_same; reflexivity | constructor].
    + inversion E; subst. apply FIN; [eapply KS_same; eauto | apply zmono_same; reflexivity | constructor].
  - (* MRetInvoke *)
    rename m into m0. unfold ret_invoke in E. destruct r as [rid rk]. destruct rk.
    + inversion E; subst. apply FIN; [eapply KS_same; eauto | apply zmono_same; reflexivity | repeat constructor].
    + inversion E; subst. apply FIN; [|apply zmono_same; reflexivity | constructor].
      destruct K as [A MQ KK]. constructor; auto. unfold submit, push_main; simpl. apply Forall_app. split; auto.
      constructor; [apply subok_as_call | constructor].
    + destruct m0 as [mm|]; inversion E; subst.
      * apply FIN; [|apply zmono_same; reflexivity | constructor].
        destruct K as [A MQ KK]. constructor; auto. unfold submit, push_main; simpl. apply Forall_app. split; auto.
        constructor; [apply subok_as_call | constructor].
      * apply FIN; [eapply KS_same; eauto | apply zmono_same; reflexivity|].
        constructor; [exact I|]. constructor; [|constructor]. simpl.
        unfold mwf, nsf in MW. simpl in MW. pose proof (Forall_inv MW) as TG. simpl in TG. destruct TG as [TK TS].
        split; [unfold callk; destruct (ci_kind ci); auto | unfold dsq; rewrite TS; exact I].
    + destruct inner as [[p ci]|]; inversion E; subst.
      * apply FIN; [|apply zmono_same; reflexivity | constructor].
        destruct K as [A MQ KK]. constructor; auto. unfold submit, push_main; simpl. apply Forall_app. split; auto.
        constructor; [apply subok_as_call | constructor].
      * apply FIN; [eapply KS_same; eauto | apply zmono_same; reflexivity | constructor].
    + assert (KR : keff s (push_main (ref_clone s p) (CI 0 0 (KSlabRm p key) [] None))) by (apply ke_push_internal; [apply ke_ref_clone, ke_refl | exact I]).
      destruct m0 as [mm|]; inversion E; subst.
      * apply FIN; [eapply keff_KS; eauto | apply keff_zmono; auto|].
        constructor; [|repeat constructor]. intros a N. apply (keff_zmono _ _ KR). apply MM. exact N.
      * apply FIN; auto; [apply zmono_refl|]. constructor; [exact I|]. constructor; [|constructor]. intros a N. apply MM. exact N.
  - (* MTerminate *)
    unfold terminate in E. destruct (aget (actors s) a) as [x|] eqn:AX.
    + pose proof (ks_act _ K _ _ AX) as AO.
      set (x1 := mkActor SZombie (oz (count_set_state (a_strong x) STATE_ZOMBIE)) (a_rc x) None (a_logid x) (a_freed x)) in *.
      set (s0 := if a_freed x then emit s (EModel M_UAF a) else s) in *.
      assert (K0 : KS s0) by (unfold s0; destruct (a_freed x); [eapply KS_same; eauto | auto]).
      assert (Z0 : zmono s (upd_actor s0 a x1)).
      { eapply zmono_trans; [|apply (zmono_upd_zombie s0 a x1); reflexivity]. unfold s0. destruct (a_freed x); [apply zmono_same; reflexivity | apply zmono_refl]. }
      destruct (state_drops a (a_state x) (upd_actor s0 a x1)) as [dl s1] eqn:SD.
      destruct (state_drops_mok _ _ _ _ _ AO SD) as [-> DM].
      assert (K1 : KS (upd_actor s0 a x1)) by (apply KS_upd; auto; apply aok_zombie_cell; auto).
      destruct (a_notify x) as [nt|] eqn:NT; inversion E; subst.
      * apply FIN; auto. apply Forall_app. split; [apply DM|]. constructor; [exact I|]. constructor; [|constructor].
        eapply notif_mok; [apply AO; eauto|]. apply (zombie_upd_self s0 a x1). reflexivity.
      * apply FIN; auto.
    + inversion E; subst. apply FIN; [eapply KS_same; eauto | apply zmono_same; reflexivity | constructor].
  - (* MLogClose *)
    destruct (aget (actors s) a); inversion E; subst.
    + apply FIN; [eapply KS_same; eauto; unfold log_rec; destruct (_ && _); reflexivity | apply zmono_same; unfold log_rec; destruct (_ && _); reflexivity | constructor].
    + (apply FIN; [exact K | apply zmono_refl | constructor]).
  - (* MToReady *)
    destruct (aget (actors s) a) as [x|] eqn:AX.
    + pose proof (ks_act _ K _ _ AX) as AO. destruct (a_state x) eqn:SX; inversion E; subst.
      * set (x1 := mkActor (SReady [] [] 0%N) (oz (count_set_state (a_strong x) STATE_READY)) (a_rc x) (a_notify x) (a_logid x) (a_freed x)).
        assert (ZM : zmono s (emit (upd_actor s a x1) (EReady a))).
        { eapply zmono_trans; [|apply zmono_same; reflexivity]. intros b (y & AY & ZY). destruct (N.eq_dec a b) as [<-|NE].
          - rewrite AX in AY. inversion AY; subst. congruence.
          - exists y. split; auto. unfold upd_actor; simpl. rewrite aget_aset_neq; auto. }
        apply FIN; auto.
        -- eapply KS_same with (s := upd_actor s a x1); try reflexivity. apply KS_upd; auto.
           destruct AO as (R & S & N1 & N2 & H). split; [|split; [|split; [|split]]]; simpl; auto.
           ++ apply sta_set; auto. unfold STATE_READY. lia.
           ++ apply sta_set; auto. unfold STATE_READY. lia.
           ++ intros Q. specialize (N2 Q). congruence.
           ++ constructor.
        -- destruct AO as (_ & _ & _ & _ & H). unfold held_of in H. rewrite SX in H. eapply held_run_mok; eauto.
      * apply FIN; [eapply KS_same; eauto | apply zmono_same; reflexivity | constructor].
      * apply FIN; [eapply KS_same; eauto | apply zmono_same; reflexivity | constructor].
    + inversion E; subst. apply FIN; [eapply KS_same; eauto | apply zmono_same; reflexivity | constructor].
  - (* MNew *)
    inversion E; subst. apply FIN.
    + destruct K as [A MQ KK]. constructor; auto. simpl. constructor.
    + apply zmono_same. reflexivity.
    + destruct (dk s); [|constructor]. apply subok_drop_mok. apply (ks_main _ K).
  - (* MRunIdle *)
    destruct idle; [destruct (idleq s) as [|c r] eqn:IQ|]; inversion E; subst.
    + (apply FIN; [exact K | apply zmono_refl | constructor]).
    + apply FIN; [eapply KS_same; eauto | apply zmono_same; reflexivity|]. constructor; [|constructor].
      pose proof (qt_idle _ T) as TI. rewrite IQ in TI. inversion TI as [|? ? [C _] _]; subst.
      simpl. unfold subok. unfold ci_call in C. destruct (ci_kind c); auto; discriminate.
    + (apply FIN; [exact K | apply zmono_refl | constructor]).
  - (* MRunMain *)
    assert (PL : forall l, Forall (tagged QTimer) (map ti_ci l) -> forall s2, Forall (mok s2) (map MRunItem (map ti_ci l))).
    { intros l F s2. induction l; simpl; constructor; inversion F; subst; auto.
      destruct H1 as [C _]. simpl. unfold subok. unfold ci_call in C. destruct (ci_kind (ti_ci a)); auto; discriminate. }
    assert (MB : forall s2, Forall (mok s2) (map MRunItem (mainq s))).
    { intros s2. apply subok_run_mok. apply (ks_main _ K). }
    destruct (t >? now s).
    + inversion E; subst. apply FIN.
      * destruct K as [A MQ KK]. constructor; [destruct (ambiguous _); exact A | destruct (ambiguous _); simpl; constructor | destruct (ambiguous _); exact KK].
      * apply zmono_same. destruct (ambiguous _); reflexivity.
      * rewrite map_app. apply Forall_app. split; [apply MB|]. apply PL.
        pose proof (qt_timers _ T) as TT. apply Forall_forall. intros c Hc. apply in_map_iff in Hc as (y & <- & Hy).
        apply ti_sort_in in Hy. apply filter_In in Hy as [Hy _]. eapply Forall_forall in TT; [exact TT|]. apply in_map. exact Hy.
    + inversion E; subst. apply FIN; [|apply zmono_same; reflexivity | apply MB].
      destruct K as [A MQ KK]. constructor; auto. simpl. constructor.
  - (* MLoop *)
    destruct (mainq s) as [|c l] eqn:MQE.
    + destruct (lazyq s) as [|c l] eqn:LQ; inversion E; subst.
      * apply FIN; [eapply KS_same; eauto; destruct (t >? recreate s); reflexivity | apply zmono_same; destruct (t >? recreate s); reflexivity | constructor].
      * apply FIN; [eapply KS_same; eauto | apply zmono_same; reflexivity|].
        change (MRunItem c :: map MRunItem l ++ [MLoop t]) with (map MRunItem (c :: l) ++ [MLoop t]).
        apply Forall_app. split; [|repeat constructor].
        pose proof (qt_lazy _ T) as TL. rewrite LQ in TL. apply subok_run_mok. eapply tagged_subok; eauto.
    + inversion E; subst. apply FIN; [|apply zmono_same; reflexivity|].
      * destruct K as [A MQ KK]. constructor; auto. simpl. constructor.
      * change (MRunItem c :: map MRunItem l ++ [MLoop t]) with (map MRunItem (c :: l) ++ [MLoop t]).
        apply Forall_app. split; [|repeat constructor].
        pose proof (ks_main _ K) as MQ. rewrite MQE in MQ. apply subok_run_mok; auto.
  - (* MDrain *)
    destruct (i >=? TEARDOWN_ROUNDS).
    + inversion E; subst. destruct (is_nil (mainq s)); (apply FIN; [eapply KS_same; eauto | apply zmono_same; reflexivity | repeat constructor]).
    + destruct (mainq s) as [|c l] eqn:MQE; inversion E; subst.
      * (apply FIN; [exact K | apply zmono_refl | repeat constructor]).
      * apply FIN; [|apply zmono_same; reflexivity|].
        -- destruct K as [A MQ KK]. constructor; auto. simpl. constructor.
        -- change (MDropItem c :: map MDropItem l ++ [MDrain (i + 1)]) with (map MDropItem (c :: l) ++ [MDrain (i + 1)]).
           apply Forall_app. split; [|repeat constructor].
           pose proof (ks_main _ K) as MQ. rewrite MQE in MQ. apply subok_drop_mok; auto.
  - (* MDropFields *)
    inversion E; subst. apply FIN.
    + eapply KS_same; eauto; destruct (ambiguous _); reflexivity.
    + apply zmono_same. destruct (ambiguous _); reflexivity.
    + apply Forall_app. split; [|repeat constructor].
      assert (PLN : forall l, Forall (fun c => ci_call c = false) l -> Forall (mok (emit (set_tvars (set_timers (set_idleq (set_lazyq (if ambiguous (timers s) then emit s (EModel M_AMBIG 1) else s) []) []) []) []) EDropFields)) (map MDropItem l)).
      { intros l F. induction F; simpl; constructor; auto. simpl. unfold subok. unfold ci_call in H. destruct (ci_kind x); auto; discriminate. }
      apply PLN. destruct (ambiguous (timers s)); simpl.
      all: apply Forall_app; split; [eapply Forall_impl; [|apply (qt_lazy _ T)]; intros c [C _]; exact C|].
      all: apply Forall_app; split; [eapply Forall_impl; [|apply (qt_idle _ T)]; intros c [C _]; exact C|].
      all: apply Forall_forall; intros c Hc; apply in_map_iff in Hc as (y & <- & Hy); apply ti_sort_in in Hy.
      all: pose proof (qt_timers _ T) as TT; eapply Forall_forall in TT; [destruct TT as [C _]; exact C | apply in_map; exact Hy].
  - (* MDropEnd *)
    inversion E; subst. apply FIN; [eapply KS_same; eauto; destruct (is_nil _); reflexivity | apply zmono_same; destruct (is_nil _); reflexivity | constructor].
  - (* MDropAll *)
    destruct (amin (env s)) as [[h v]|]; inversion E; subst.
    + apply FIN; [eapply KS_same; eauto | apply zmono_same; reflexivity | repeat constructor].
    + (apply FIN; [exact K | apply zmono_refl | constructor]).
  - (* MEpilogue *)
    inversion E; subst. apply FIN; [eapply KS_same; eauto | apply zmono_same; reflexivity | repeat constructor].
  - (* MLeaks *)
    inversion E; subst.
    pose proof (class_flags_fields s) as AC.
    destruct AC as [AC MC]. apply FIN; [eapply KS_same; eauto | apply zmono_same; exact AC | constructor].
Qed.

Theorem step_KI k s k' s' : WF k s -> QTags s -> KI k s -> step k s = Some (k', s') -> KI k' s' /\ zmono s s'.
Proof.
  intros W T K H. destruct k as [|m k0]; [discriminate|]. simpl in H.
  destruct (handle m s) as [pre s1] eqn:E. inversion H; subst. eapply handle_KI; eauto.
Qed.

Lemma KI_init d p : KI (map MTop p ++ [MEpilogue]) (init d).
Proof.
  split.
  - constructor; simpl; [intros a x E; discriminate E | constructor | constructor].
  - apply Forall_app. split; [|repeat constructor]. induction p; simpl; constructor; auto. exact I.
Qed.
