(** Layer R proofs: C05, the core monitor A (a Ret handler is invoked exactly once: Some on ret, None on drop).

    Architecture: the C05 monitor is the product of three monitors (LinC05Mon.v).  For the core monitor A the
    invariant [IA] relates the monitor state on the trace so far to the configuration through the census of
    Lin.v: a Ret that occurs in the configuration is created, not yet invoked and not yet sent (except the one
    being delivered at the head of the continuation); by linearity its invocation removes its only occurrence. *)
From Coq Require Import ZArith NArith List Bool Lia.
From Stk Require Import Lib.U Gen.SrcCount Gen.SrcCore Gen.SrcLog R.Syntax R.Rt R.Mon R.Shape R.Eff R.Tags R.Mono R.C15Proofs.
From Stk Require Import R.Lin R.LinAct R.LinLaw R.LinStep R.LinEvs R.LinTail R.LinLive R.LinC05Mon R.LinC05A R.LinC05Pass.
Import ListNotations.
Local Open Scope Z_scope.

(* ------------------------------------------------------------------ *)
(** * The relation for monitor A *)

Definition pend (k : list mop) (r v : N) : Prop :=
  exists rk k0, k = MRetInvoke (Ret r rk) (Some (MNum v)) :: k0.

Definition container (y : res) : Prop := match y with RClo _ | RVal _ | RNot _ => True | _ => False end.

(* a container that was created is neither present nor consumed: it will be reported as leaked *)
Definition LostC (k : list mop) (s : st) : Prop := exists y, container y /\ bal y k s < 0.

Record RA (m : sA) (k : list mop) (s : st) : Prop := mkRA {
  ra_sent : forall r v, nget (a_sent m) r = Some v -> nget (a_inv m) r = Some (Some v) \/ pend k r v;
  ra_prev : forall r v, a_prev m = Some (ERetSent r v) -> pend k r v;
  ra_tail : existsb mnum (tl k) = false;
  ra_head : forall r rk v k0, k = MRetInvoke (Ret r rk) (Some (MNum v)) :: k0 ->
                              a_prev m = Some (ERetSent r v) /\ nget (a_sent m) r = Some v;
  ra_bal : forall r, bal (RRet r) k s < 0 -> LostC k s;
  ra_fin : k = [] -> finA m = true }.

Definition leak_kind (kd : N) : bool := N.eqb kd LK_CLO || N.eqb kd LK_VAL || N.eqb kd LK_NOTIFY.

(* the two hypotheses of the theorem, on the trace so far *)
Definition BadT (t : list ev) : Prop :=
  (exists r, 2 <= creT (RRet r) t) \/ (exists kd id, In (ELeak kd id) t /\ leak_kind kd = true).

Definition IA (k : list mop) (s : st) : Prop :=
  BadT (tr s) \/ exists m, monr stepA iA (tr s) = Some m /\ RA m k s.

(* ------------------------------------------------------------------ *)
(** * Stability of the escape clauses *)

Lemma creT_ext x s s' : ext s s' -> creT x (tr s) <= creT x (tr s').
Proof. intros [evs E]. rewrite E, creT_app. pose proof (creT_nn x evs). lia. Qed.

Lemma BadT_ext s s' : ext s s' -> BadT (tr s) -> BadT (tr s').
Proof.
  intros E [[r H]|(kd & id & H & L)].
  - left. exists r. pose proof (creT_ext (RRet r) _ _ E). lia.
  - right. exists kd, id. split; auto. eapply ext_in; eauto.
Qed.

Lemma LostC_step k s k' s' : Lin k s -> step k s = Some (k', s') -> LostC k s -> LostC k' s'.
Proof. intros L H (y & C & B). exists y. split; auto. pose proof (step_bal _ _ _ _ y L H). lia. Qed.

Lemma emb_ret r m : emb (RRet r) m = 0.
Proof. destruct m; simpl; try reflexivity. destruct r0 as [rid [| | | |]]; try reflexivity; apply ind_neq; discriminate. Qed.

Lemma cci_pos_real x c : 0 < cci x c -> realk (ci_kind c) = true.
Proof. intros H. destruct (realk (ci_kind c)) eqn:E; auto. rewrite (cci_unreal x c E) in H. lia. Qed.

Lemma cci_self c : realk (ci_kind c) = true -> 1 <= cci (RClo (ci_uid c)) c.
Proof. intros R. rewrite (cci_real _ c R), ind_refl. pose proof (cenv_nn (RClo (ci_uid c)) (ci_caps c)). lia. Qed.

Lemma cq_pos_clo x l : 0 < cq x l -> exists u, 0 < cq (RClo u) l.
Proof.
  induction l as [|c l IH]; simpl; [lia|]. intros H.
  pose proof (cci_nn x c). pose proof (cq_nn x l).
  destruct (Z.ltb 0 (cci x c)) eqn:E.
  - apply Z.ltb_lt in E. exists (ci_uid c). pose proof (cci_self c (cci_pos_real _ _ E)). pose proof (cq_nn (RClo (ci_uid c)) l). lia.
  - apply Z.ltb_ge in E. destruct IH as [u U]; [lia|]. exists u. pose proof (cci_nn (RClo u) c). lia.
Qed.

(** the balance of a Ret is constant unless a container is lost *)
Lemma bal_ret_step k s k' s' r :
  Lin k s -> step k s = Some (k', s') -> (bal (RRet r) k s < 0 -> LostC k s) ->
  bal (RRet r) k' s' < 0 -> LostC k' s'.
Proof.
  intros L H OLD NEG.
  destruct (Z.ltb (bal (RRet r) k s) 0) eqn:B.
  { apply Z.ltb_lt in B. eapply LostC_step; eauto. }
  apply Z.ltb_ge in B.
  destruct k as [|mo k0]; [discriminate|]. simpl in H.
  destruct (handle mo s) as [pre s1] eqn:E. inversion H; subst; clear H.
  assert (D : (exists t, mo = MNew t) \/ forall t, mo <> MNew t).
  { destruct mo; try (right; intros t0 Q; discriminate Q). left; eauto. }
  unfold bal in *. rewrite cmops_app in NEG. simpl in B.
  destruct D as [[t ->]|NN].
  - pose proof (new_law _ _ _ _ (RRet r) E) as G. simpl in B.
    destruct (dk s) eqn:DK; [lia|].
    assert (P : 0 < cq (RRet r) (mainq s)) by lia.
    destruct (cq_pos_clo _ _ P) as [u U]. exists (RClo u). split; [exact I|].
    pose proof (new_law _ _ _ _ (RClo u) E) as G2. rewrite DK in G2.
    pose proof (lin_le _ _ L (RClo u)) as LE. unfold bal in *. rewrite cmops_app. simpl in LE. lia.
  - pose proof (handle_law _ _ _ _ (RRet r) (Lin_NB _ _ _ L) NN E) as G. rewrite emb_ret in G. lia.
Qed.

(* ------------------------------------------------------------------ *)
(** * Re-establishing the relation after a step that leaves [a_sent] / [a_inv] alone *)

Lemma mnum_tl k : existsb mnum k = false -> existsb mnum (tl k) = false.
Proof. destruct k; simpl; auto. intros H. apply orb_false_elim in H as [_ H]. exact H. Qed.

Lemma RA_quiet m m' k k' s s' :
  RA m k s -> (forall r v, ~ pend k r v) -> a_sent m' = a_sent m -> a_inv m' = a_inv m -> sent_prev m' = false ->
  existsb mnum k' = false -> (forall r, bal (RRet r) k' s' < 0 -> LostC k' s') -> (k' = [] -> finA m' = true) ->
  RA m' k' s'.
Proof.
  intros R NP ES EI SP MN BL FN. split; auto.
  - intros r v H. rewrite ES in H. rewrite EI. destruct (ra_sent _ _ _ R r v H) as [A|A]; [left; exact A | exfalso; eapply NP; eauto].
  - intros r v H. unfold sent_prev in SP. rewrite H in SP. discriminate.
  - apply mnum_tl; auto.
  - intros r rk v k0 ->. simpl in MN. discriminate.
Qed.

Lemma not_pend_head mo k0 : mnum mo = false -> forall r v, ~ pend (mo :: k0) r v.
Proof. intros H r v (rk & k1 & E). inversion E; subst. discriminate. Qed.

Lemma RA_sent_prev m mo k0 s : RA m (mo :: k0) s -> mnum mo = false -> sent_prev m = false.
Proof.
  intros R H. unfold sent_prev. destruct (a_prev m) as [[]|] eqn:P; auto.
  exfalso. eapply (not_pend_head mo k0 H). eapply ra_prev; eauto.
Qed.

Lemma tail_nonempty mo k0 s pre s' : Tail (mo :: k0) s -> mo <> MLeaks -> handle mo s = (pre, s') -> pre ++ k0 <> [].
Proof.
  intros T NL E. destruct T as [w K _|w K _|K _ _|K]; try discriminate.
  - destruct w as [|x w]; simpl in K; inversion K; subst.
    + simpl in E. inversion E. discriminate.
    + intros H. apply app_eq_nil in H as [_ H]. destruct w; discriminate.
  - destruct w as [|x w]; simpl in K; inversion K; subst.
    + intros H. apply app_eq_nil in H as [_ H]. discriminate.
    + intros H. apply app_eq_nil in H as [_ H]. destruct w; discriminate.
  - inversion K; subst. congruence.
Qed.

Lemma step_handle mo k0 s pre s' : handle mo s = (pre, s') -> step (mo :: k0) s = Some (pre ++ k0, s').
Proof. intros E. simpl. rewrite E. reflexivity. Qed.

Lemma specialA_mnum mo : specialA mo = false -> mnum mo = false.
Proof. destruct mo; simpl; auto. discriminate. Qed.

(** every micro-op that does not speak about Rets *)
Lemma IA_neutral mo k0 s pre s' m :
  Lin (mo :: k0) s -> Tail (mo :: k0) s -> specialA mo = false -> handle mo s = (pre, s') ->
  monr stepA iA (tr s) = Some m -> RA m (mo :: k0) s ->
  exists m', monr stepA iA (tr s') = Some m' /\ RA m' (pre ++ k0) s'.
Proof.
  intros L T SP E M R.
  destruct (handle_A _ _ _ _ E SP) as [[evs [TR NE]] MN].
  pose proof (specialA_mnum _ SP) as NM.
  destruct (monA_neutral evs _ _ NE M (RA_sent_prev _ _ _ _ R NM)) as (m' & M' & A & B & C & D).
  exists m'. rewrite TR. split; [exact M'|].
  eapply RA_quiet; eauto.
  - apply not_pend_head; auto.
  - rewrite mnum_app, MN. simpl. apply (ra_tail _ _ _ R).
  - intros r. eapply bal_ret_step; eauto. apply step_handle; auto. apply (ra_bal _ _ _ R).
  - intros K. exfalso. eapply tail_nonempty; eauto. intros ->. discriminate.
Qed.

(* ------------------------------------------------------------------ *)
(** * Creation of a Ret *)

Lemma bind_tr s h v l s' : bind s h v = (l, s') -> tr s' = tr s.
Proof. unfold bind. destruct (aget (env s) h); intros Q; inversion Q; reflexivity. Qed.

Lemma newret_shape h r kd s pre s' :
  do_act (ANewRet h r kd) s = (pre, s') ->
  existsb mnum pre = false /\
  (evs_in pbA s s' \/
   exists evs1 evs2, tr s' = evs2 ++ ERetNew r :: evs1 ++ tr s /\ forallb pbA evs1 = true /\ forallb pbA evs2 = true).
Proof.
  unfold do_act. destruct kd as [caps body|ht c|ht c].
  - destruct (take_caps caps s) as [cv s1] eqn:T. intros Q. split; [eapply bind_mnum; eauto|]. right.
    assert (E1 : evs_in pbA s s1) by ei_tac. destruct E1 as [evs1 [A B]].
    exists evs1, []. rewrite (bind_tr _ _ _ _ _ Q). simpl. rewrite A. auto.
  - destruct (lookup s ht) as [v|]; [|intros Q; split; [eapply bad_mnum; eauto | left; ei_tac]].
    destruct (handle_actor v) as [a|]; [|intros Q; split; [eapply bad_mnum; eauto | left; ei_tac]].
    destruct (inst_call c (fun b => KMeth a b None) (ref_clone s a)) as [ci s2] eqn:I.
    intros Q. split; [eapply bind_mnum; eauto|]. right.
    assert (E1 : evs_in pbA s s2) by ei_tac. destruct E1 as [evs1 [A B]].
    exists evs1, [ERetTo r (ci_uid ci) false]. rewrite (bind_tr _ _ _ _ _ Q). simpl. rewrite A. auto.
  - destruct (lookup s ht) as [v|]; [|intros Q; split; [eapply bad_mnum; eauto | left; ei_tac]].
    destruct (handle_actor v) as [a|]; [|intros Q; split; [eapply bad_mnum; eauto | left; ei_tac]].
    destruct (inst_call c (fun b => KMeth a b None) (ref_clone s a)) as [ci s2] eqn:I.
    intros Q. split; [eapply bind_mnum; eauto|]. right.
    assert (E1 : evs_in pbA s s2) by ei_tac. destruct E1 as [evs1 [A B]].
    exists evs1, [ERetTo r (ci_uid ci) true]. rewrite (bind_tr _ _ _ _ _ Q). simpl. rewrite A. auto.
Qed.

Lemma creT_ret_new r evs1 evs2 t :
  forallb pbA evs1 = true -> forallb pbA evs2 = true ->
  creT (RRet r) (evs2 ++ ERetNew r :: evs1 ++ t) = 1 + creT (RRet r) t.
Proof.
  intros A B. rewrite creT_app. cbn [creT]. rewrite creT_app, cre1_ret, N.eqb_refl.
  assert (Z : forall l, forallb pbA l = true -> creT (RRet r) l = 0).
  { induction l as [|e l IH]; cbn [creT forallb]; auto. intros H. apply andb_prop in H as [H1 H2]. rewrite (IH H2), cre1_ret.
    destruct e; try reflexivity. discriminate H1. }
  rewrite (Z _ A), (Z _ B). lia.
Qed.

Lemma IA_newret h r kd l k0 s pre s' m :
  Lin (MActs (ANewRet h r kd :: l) :: k0) s -> Tail (MActs (ANewRet h r kd :: l) :: k0) s ->
  handle (MActs (ANewRet h r kd :: l)) s = (pre, s') ->
  monr stepA iA (tr s) = Some m -> RA m (MActs (ANewRet h r kd :: l) :: k0) s ->
  BadT (tr s') \/ exists m', monr stepA iA (tr s') = Some m' /\ RA m' (pre ++ k0) s'.
Proof.
  intros L T E M R. pose proof E as E0. cbn [handle] in E.
  destruct (do_act (ANewRet h r kd) s) as [p s1] eqn:DA. inversion E; subst pre s1; clear E.
  destruct (newret_shape _ _ _ _ _ _ DA) as [MN [[evs [TR NE]]|(evs1 & evs2 & TR & N1 & N2)]].
  - (* ill-typed: nothing created *)
    right. destruct (monA_neutral evs _ _ NE M (RA_sent_prev _ _ _ _ R eq_refl)) as (m' & M' & A & B & C & D).
    exists m'. rewrite TR. split; [exact M'|].
    eapply RA_quiet; eauto.
    + apply not_pend_head; reflexivity.
    + rewrite mnum_app, mnum_app, MN. simpl. apply (ra_tail _ _ _ R).
    + intros r0. eapply bal_ret_step; eauto. apply step_handle; auto. apply (ra_bal _ _ _ R).
    + intros K. exfalso. eapply tail_nonempty; eauto. discriminate.
  - destruct (monA_neutral evs1 _ _ N1 M (RA_sent_prev _ _ _ _ R eq_refl)) as (m1 & M1 & A1 & B1 & C1 & D1).
    destruct (nmem r (a_new m1)) eqn:NM.
    + (* the id was already used *)
      left. left. exists r. rewrite TR, (creT_ret_new r _ _ _ N1 N2).
      destruct (monA_facts _ _ M) as (F1 & _ & _). rewrite F1, <- A1, NM. lia.
    + right.
      assert (M2 : monr stepA iA (ERetNew r :: evs1 ++ tr s) = Some (mkA (r :: a_new m1) (a_sent m1) (a_inv m1) (Some (ERetNew r)))).
      { simpl. rewrite M1. unfold stepA, adjA. unfold sent_prev in D1.
        destruct (a_prev m1) as [[]|]; try discriminate D1; cbn [negb a_new a_sent a_inv a_prev]; rewrite NM; reflexivity. }
      destruct (monA_neutral evs2 _ _ N2 M2 eq_refl) as (m' & M' & A & B & C & D).
      exists m'. rewrite TR. split; [exact M'|].
      eapply RA_quiet; eauto.
      * apply not_pend_head; reflexivity.
      * rewrite B. simpl. exact B1.
      * rewrite C. simpl. exact C1.
      * rewrite mnum_app, mnum_app, MN. simpl. apply (ra_tail _ _ _ R).
      * intros r0. eapply bal_ret_step; eauto. apply step_handle; auto. apply (ra_bal _ _ _ R).
      * intros K. exfalso. eapply tail_nonempty; eauto. discriminate.
Qed.

(* ------------------------------------------------------------------ *)
(** * Sending a value through a Ret *)

Lemma take_tr s h o s' : take s h = (o, s') -> tr s' = tr s.
Proof. unfold take. repeat dest_match; intros Q; inversion Q; reflexivity. Qed.

Lemma retsend_shape h v s pre s' :
  do_act (ARetSend h v) s = (pre, s') ->
  (exists rid rk s1, take s h = (Some (HRet (Ret rid rk)), s1) /\
                     pre = [MRetInvoke (Ret rid rk) (Some (MNum v))] /\ s' = emit s1 (ERetSent rid v)) \/
  (existsb mnum pre = false /\ evs_in pbA s s').
Proof.
  unfold do_act. destruct (lookup s h) as [[| | |[rid rk]| |]|] eqn:LK; try (solve [intros Q; right; split; [eapply bad_mnum; eassumption | ei_tac]]).
  destruct (lookup_take _ _ _ LK) as [s1 T]. rewrite T. intros Q; inversion Q; subst. left. exists rid, rk, s1. auto.
Qed.

Lemma cret_self rid rk : ukind (Ret rid rk) = true -> 1 <= cret (RRet rid) (Ret rid rk).
Proof.
  rewrite cret_eq. destruct rk as [caps b|a ci|a ci|a inner|p key inner]; simpl; try discriminate; intros _.
  - rewrite crk_clos, ind_refl. pose proof (cenv_nn (RRet rid) caps). lia.
  - rewrite crk_to, ind_refl. pose proof (ind_range (RRet rid) (REmb rid (ci_uid ci) false)).
    pose proof (badif_nn (RRet rid) (realk (ci_kind ci))). pose proof (cci_nn (RRet rid) ci). lia.
  - rewrite crk_someto, ind_refl. pose proof (ind_range (RRet rid) (REmb rid (ci_uid ci) true)).
    pose proof (badif_nn (RRet rid) (realk (ci_kind ci))). pose proof (cci_nn (RRet rid) ci). lia.
Qed.

(* a Ret that occurs in the configuration is created and not yet invoked *)
Lemma present_live k s m rid :
  Lin k s -> monr stepA iA (tr s) = Some m -> 1 <= cnt (RRet rid) k s ->
  nmem rid (a_new m) = true /\ nget (a_inv m) rid = None.
Proof.
  intros L M P. pose proof (Lin_live _ _ (RRet rid) L ltac:(discriminate)) as LV.
  destruct (monA_facts _ _ M) as (F1 & F2 & _). rewrite F1, F2 in LV.
  destruct (nmem rid (a_new m)); destruct (nget (a_inv m) rid); try lia. auto.
Qed.

Lemma IA_retsend h v l k0 s pre s' m :
  Lin (MActs (ARetSend h v :: l) :: k0) s -> Tail (MActs (ARetSend h v :: l) :: k0) s ->
  handle (MActs (ARetSend h v :: l)) s = (pre, s') ->
  monr stepA iA (tr s) = Some m -> RA m (MActs (ARetSend h v :: l) :: k0) s ->
  exists m', monr stepA iA (tr s') = Some m' /\ RA m' (pre ++ k0) s'.
Proof.
  intros L T E M R. pose proof E as E0. cbn [handle] in E.
  destruct (do_act (ARetSend h v) s) as [p s1] eqn:DA. inversion E; subst pre s1; clear E.
  pose proof (RA_sent_prev _ _ _ _ R eq_refl) as SP.
  destruct (retsend_shape _ _ _ _ _ DA) as [(rid & rk & s1 & TK & -> & ->)|[MN [evs [TR NE]]]].
  - (* the Ret is taken out of the scope and invoked next *)
    pose proof (take_W (RRet rid) _ _ _ _ TK) as TW. pose proof (take_W RBad _ _ _ _ TK) as TB.
    pose proof (take_tr _ _ _ _ TK) as TT. unfold W in TW, TB. rewrite TT in TW, TB. simpl copt in TW, TB.
    assert (UK : ukind (Ret rid rk) = true).
    { apply nb_real. pose proof (Lin_wellkinded _ _ L) as WK. unfold cnt in WK.
      pose proof (cmops_nn RBad (MActs (ARetSend h v :: l) :: k0)). pose proof (cst_nn RBad s1).
      rewrite cv_ret in TB. pose proof (cret_nn RBad (Ret rid rk)). pose proof (badif_nn RBad (ukind (Ret rid rk))). lia. }
    assert (PR : 1 <= cnt (RRet rid) (MActs (ARetSend h v :: l) :: k0) s).
    { unfold cnt. pose proof (cmops_nn (RRet rid) (MActs (ARetSend h v :: l) :: k0)). pose proof (cst_nn (RRet rid) s1).
      rewrite cv_ret in TW. pose proof (cret_self _ _ UK). pose proof (badif_nn (RRet rid) (ukind (Ret rid rk))). lia. }
    destruct (present_live _ _ _ _ L M PR) as [NW NI].
    assert (NS : nget (a_sent m) rid = None).
    { destruct (nget (a_sent m) rid) as [v'|] eqn:SV; auto.
      destruct (ra_sent _ _ _ R _ _ SV) as [A|A]; [congruence | exfalso; eapply not_pend_head; [|exact A]; reflexivity]. }
    eexists. split.
    + cbn [emit tr set_tr]. simpl monr. rewrite TT, M. unfold stepA, adjA. unfold sent_prev in SP.
      destruct (a_prev m) as [[]|]; try discriminate SP; cbn [negb a_new a_sent a_inv a_prev]; rewrite NW, NS, NI; reflexivity.
    + split; cbn [a_new a_sent a_inv a_prev app tl].
      * intros r v0. rewrite nget_nset. destruct (N.eqb r rid) eqn:Q.
        -- apply N.eqb_eq in Q. subst r. intros X; inversion X; subst. right. exists rk, (MActs l :: k0). reflexivity.
        -- intros X. destruct (ra_sent _ _ _ R _ _ X) as [A|A]; [left; exact A | exfalso; eapply not_pend_head; [|exact A]; reflexivity].
      * intros r v0 X. inversion X; subst. exists rk, (MActs l :: k0). reflexivity.
      * simpl. apply (ra_tail _ _ _ R).
      * intros r rk0 v0 k1 X. inversion X; subst. split; [reflexivity|]. rewrite nget_nset, N.eqb_refl. reflexivity.
      * intros r. eapply (bal_ret_step _ _ _ _ r L (step_handle _ _ _ _ _ E0)). apply (ra_bal _ _ _ R).
      * discriminate.
  - destruct (monA_neutral evs _ _ NE M SP) as (m' & M' & A & B & C & D).
    exists m'. rewrite TR. split; [exact M'|].
    eapply RA_quiet; eauto.
    + apply not_pend_head; reflexivity.
    + rewrite mnum_app, mnum_app, MN. simpl. apply (ra_tail _ _ _ R).
    + intros r0. eapply bal_ret_step; eauto. apply step_handle; auto. apply (ra_bal _ _ _ R).
    + intros K. exfalso. eapply tail_nonempty; eauto. discriminate.
Qed.

(* ------------------------------------------------------------------ *)
(** * Invocation of a Ret *)

Lemma ret_invoke_user rid rk m0 s pre s' :
  ukind (Ret rid rk) = true -> ret_invoke (Ret rid rk) m0 s = (pre, s') ->
  existsb mnum pre = false /\
  exists evs2, tr s' = evs2 ++ ERet rid (msg_num m0) :: tr s /\ forallb pbA evs2 = true.
Proof.
  unfold ret_invoke. destruct rk as [caps b|a ci|a ci|a inner|p key inner]; simpl ukind; try discriminate; intros _.
  - intros Q; inversion Q; subst. split; [reflexivity|]. exists []. split; reflexivity.
  - intros Q; inversion Q; subst. split; [reflexivity|]. eexists [_]. split; reflexivity.
  - destruct m0 as [m1|]; intros Q; inversion Q; subst; (split; [reflexivity|]).
    + eexists [_]. split; reflexivity.
    + exists []. split; reflexivity.
Qed.

Lemma ret_invoke_notif rid rk m0 s pre s' :
  ukind (Ret rid rk) = false -> (forall v, m0 <> Some (MNum v)) -> ret_invoke (Ret rid rk) m0 s = (pre, s') ->
  existsb mnum pre = false /\ evs_in pbA s s'.
Proof.
  unfold ret_invoke. destruct rk as [caps b|a ci|a ci|a inner|p key inner]; simpl ukind; try discriminate; intros _ NM.
  - destruct inner as [[p ci]|]; intros Q; inversion Q; subst; (split; [reflexivity | ei_tac]).
  - destruct m0 as [[v|c]|]; intros Q; inversion Q; subst.
    + exfalso. eapply NM; reflexivity.
    + split; [reflexivity | ei_tac].
    + split; [reflexivity | ei_tac].
Qed.

Lemma IA_retinvoke r m0 k0 s pre s' m :
  Lin (MRetInvoke r m0 :: k0) s -> Tail (MRetInvoke r m0 :: k0) s ->
  handle (MRetInvoke r m0) s = (pre, s') ->
  monr stepA iA (tr s) = Some m -> RA m (MRetInvoke r m0 :: k0) s ->
  exists m', monr stepA iA (tr s') = Some m' /\ RA m' (pre ++ k0) s'.
Proof.
  intros L T E M R. pose proof E as E0. cbn [handle] in E. destruct r as [rid rk].
  pose proof (NB_mop _ _ (Lin_NB _ _ _ L)) as NBM. cbn [cmop] in NBM.
  assert (NF : pre ++ k0 = [] -> False) by (intros K; eapply tail_nonempty; eauto; discriminate).
  assert (BL : forall r0, bal (RRet r0) (pre ++ k0) s' < 0 -> LostC (pre ++ k0) s').
  { intros r0. eapply (bal_ret_step _ _ _ _ r0 L (step_handle _ _ _ _ _ E0)). apply (ra_bal _ _ _ R). }
  destruct (ukind (Ret rid rk)) eqn:UK.
  - (* a user Ret: its handler runs now, with the value sent or None *)
    destruct (ret_invoke_user _ _ _ _ _ _ UK E) as [MN (evs2 & TR & N2)].
    assert (PR : 1 <= cnt (RRet rid) (MRetInvoke (Ret rid rk) m0 :: k0) s).
    { unfold cnt. cbn [cmops cmop]. pose proof (cret_self _ _ UK). pose proof (cmsg_nn (RRet rid) (Ret rid rk) m0).
      pose proof (cmops_nn (RRet rid) k0). pose proof (cst_nn (RRet rid) s). lia. }
    destruct (present_live _ _ _ _ L M PR) as [NW NI].
    assert (NC : forall c, m0 <> Some (MCause c)).
    { intros c ->. cbn [cmsg] in NBM. assert (NK : nkind (Ret rid rk) = false) by (destruct rk; try discriminate UK; reflexivity).
      rewrite NK in NBM. cbn [badif] in NBM. rewrite ind_refl in NBM. pose proof (cret_nn RBad (Ret rid rk)). lia. }
    assert (ST : opt_n_eqb (msg_num m0) (nget (a_sent m) rid) = true /\ adjA m (ERet rid (msg_num m0)) = true /\
                 (forall v, nget (a_sent m) rid = Some v -> msg_num m0 = Some v)).
    { destruct m0 as [[v|c]|].
      - destruct (ra_head _ _ _ R rid rk v k0 eq_refl) as [P S]. unfold adjA. rewrite P, S. simpl. rewrite !N.eqb_refl.
        repeat split; auto.
      - exfalso. eapply NC; reflexivity.
      - assert (NS : nget (a_sent m) rid = None).
        { destruct (nget (a_sent m) rid) as [v'|] eqn:SV; auto.
          destruct (ra_sent _ _ _ R _ _ SV) as [A|(rk' & k1 & A)]; [congruence | inversion A]. }
        rewrite NS. pose proof (RA_sent_prev _ _ _ _ R eq_refl) as SP. unfold adjA. unfold sent_prev in SP.
        split; [reflexivity|]. split; [|discriminate]. destruct (a_prev m) as [[]|]; try discriminate SP; reflexivity. }
    destruct ST as (OK & ADJ & SV).
    assert (M1 : monr stepA iA (ERet rid (msg_num m0) :: tr s) =
                 Some (mkA (a_new m) (a_sent m) (nset (a_inv m) rid (msg_num m0)) (Some (ERet rid (msg_num m0))))).
    { simpl. rewrite M. unfold stepA. rewrite ADJ. cbn [negb a_new a_sent a_inv a_prev]. rewrite NW, NI, OK. reflexivity. }
    destruct (monA_neutral evs2 _ _ N2 M1 eq_refl) as (m' & M' & A & B & C & D).
    exists m'. rewrite TR. split; [exact M'|]. split.
    + intros r v. rewrite B, C. cbn [a_sent a_inv]. rewrite nget_nset. intros X. destruct (N.eqb r rid) eqn:Q.
      * apply N.eqb_eq in Q. subst r. left. rewrite (SV _ X). reflexivity.
      * destruct (ra_sent _ _ _ R _ _ X) as [Y|(rk' & k1 & Y)]; [left; exact Y|].
        inversion Y; subst. rewrite N.eqb_refl in Q. discriminate.
    + intros r v X. unfold sent_prev in D. rewrite X in D. discriminate.
    + apply mnum_tl. rewrite mnum_app, MN. simpl. apply (ra_tail _ _ _ R).
    + intros r rk0 v k1 X. exfalso. assert (Y : existsb mnum (pre ++ k0) = false) by (rewrite mnum_app, MN; simpl; apply (ra_tail _ _ _ R)).
      rewrite X in Y. discriminate.
    + exact BL.
    + intros K. exfalso. auto.
  - (* a notifier or a slab wrapper: nothing for this monitor *)
    assert (NM : forall v, m0 <> Some (MNum v)).
    { intros v ->. cbn [cmsg] in NBM. rewrite UK in NBM. cbn [badif] in NBM. rewrite ind_refl in NBM.
      pose proof (cret_nn RBad (Ret rid rk)). lia. }
    destruct (ret_invoke_notif _ _ _ _ _ _ UK NM E) as [MN [evs [TR NE]]].
    assert (HM : mnum (MRetInvoke (Ret rid rk) m0) = false).
    { destruct m0 as [[v|c]|]; try reflexivity. exfalso. eapply NM; reflexivity. }
    destruct (monA_neutral evs _ _ NE M (RA_sent_prev _ _ _ _ R HM)) as (m' & M' & A & B & C & D).
    exists m'. rewrite TR. split; [exact M'|].
    apply (RA_quiet m m' _ _ s s' R); auto.
    + apply not_pend_head; auto.
    + rewrite mnum_app, MN. simpl. apply (ra_tail _ _ _ R).
Qed.

(* ------------------------------------------------------------------ *)
(** * The end: the leak report *)

Section NotifyShape.
Transparent cret crk.
Fixpoint nkind_notify (nt : ret) {struct nt} : nkind nt = true -> exists a, 1 <= cret (RNot a) nt.
Proof.
  destruct nt as [rid k]. destruct k as [caps b|a ci|a ci|a inner|p key inner]; simpl; try discriminate.
  - intros _. exists a. rewrite ind_refl. destruct inner as [[p ci]|]; [|lia].
    pose proof (badif_nn (RNot a) (realk (ci_kind ci))). pose proof (cci_nn (RNot a) ci). lia.
  - intros H. destruct (nkind_notify inner H) as [a A]. exists a. exact A.
Qed.
End NotifyShape.

Lemma cacts_container r l :
  0 < cacts (RRet r) l -> cacts RBad l = 0 -> exists y, container y /\ 0 < cacts y l.
Proof.
  induction l as [|[a x] l IH]; simpl; [lia|]. intros P B.
  pose proof (cactor_nn RBad a x). pose proof (cacts_nn RBad l).
  pose proof (cactor_nn (RRet r) a x). pose proof (cacts_nn (RRet r) l).
  destruct (Z.ltb 0 (cactor (RRet r) a x)) eqn:E.
  - apply Z.ltb_lt in E. unfold cactor in *.
    pose proof (cstate_nn (RRet r) a (a_state x)). pose proof (cnotopt_nn (RRet r) (a_notify x)).
    pose proof (cstate_nn RBad a (a_state x)). pose proof (cnotopt_nn RBad (a_notify x)).
    destruct (Z.ltb 0 (cstate (RRet r) a (a_state x))) eqn:F.
    + apply Z.ltb_lt in F. destruct (a_state x) as [held|sh slab nx|] eqn:SA; simpl in F; try lia.
      * destruct (cq_pos_clo _ _ F) as [u U]. exists (RClo u). split; [exact I|]. simpl.
        pose proof (cnotopt_nn (RClo u) (a_notify x)). pose proof (cacts_nn (RClo u) l). lia.
      * exists (RVal a). split; [exact I|]. simpl. rewrite ind_refl.
        pose proof (cenv_nn (RVal a) sh). pose proof (cnotopt_nn (RVal a) (a_notify x)). pose proof (cacts_nn (RVal a) l). lia.
    + apply Z.ltb_ge in F. destruct (a_notify x) as [nt|] eqn:NT; simpl in *; [|lia].
      assert (NK : nkind nt = true).
      { apply nb_real. pose proof (badif_nn RBad (nkind nt)). pose proof (cret_nn RBad nt). lia. }
      destruct (nkind_notify nt NK) as [a0 A0]. exists (RNot a0). split; [exact I|].
      pose proof (cstate_nn (RNot a0) a (a_state x)). pose proof (badif_nn (RNot a0) (nkind nt)). pose proof (cacts_nn (RNot a0) l). lia.
  - apply Z.ltb_ge in E. destruct IH as (y & C & Y); [lia | lia |]. exists y. split; auto. pose proof (cactor_nn y a x). lia.
Qed.

(** at the end a Ret can only sit inside a closure, an actor value or a notifier *)
Lemma ret_in_container r s :
  1 <= cst (RRet r) s -> env s = [] -> frames s = [] -> cst RBad s = 0 -> exists y, container y /\ 1 <= cst y s.
Proof.
  unfold cst. intros P EN FR NB. rewrite EN, FR in *. simpl in *.
  pose proof (cq_nn (RRet r) (mainq s)). pose proof (cq_nn (RRet r) (lazyq s)). pose proof (cq_nn (RRet r) (idleq s)).
  pose proof (ctim_nn (RRet r) (timers s)). pose proof (cacts_nn (RRet r) (actors s)).
  assert (Q : forall l, 0 < cq (RRet r) l -> exists u, 1 <= cq (RClo u) l).
  { intros l H4. destruct (cq_pos_clo _ _ H4) as [u U]. exists u. lia. }
  destruct (Z.ltb 0 (cq (RRet r) (mainq s))) eqn:E1.
  { apply Z.ltb_lt in E1. destruct (Q _ E1) as [u U]. exists (RClo u). split; [exact I|].
    pose proof (cq_nn (RClo u) (lazyq s)). pose proof (cq_nn (RClo u) (idleq s)). pose proof (ctim_nn (RClo u) (timers s)).
    pose proof (cacts_nn (RClo u) (actors s)). simpl. lia. }
  destruct (Z.ltb 0 (cq (RRet r) (lazyq s))) eqn:E2.
  { apply Z.ltb_lt in E2. destruct (Q _ E2) as [u U]. exists (RClo u). split; [exact I|].
    pose proof (cq_nn (RClo u) (mainq s)). pose proof (cq_nn (RClo u) (idleq s)). pose proof (ctim_nn (RClo u) (timers s)).
    pose proof (cacts_nn (RClo u) (actors s)). simpl. lia. }
  destruct (Z.ltb 0 (cq (RRet r) (idleq s))) eqn:E3.
  { apply Z.ltb_lt in E3. destruct (Q _ E3) as [u U]. exists (RClo u). split; [exact I|].
    pose proof (cq_nn (RClo u) (mainq s)). pose proof (cq_nn (RClo u) (lazyq s)). pose proof (ctim_nn (RClo u) (timers s)).
    pose proof (cacts_nn (RClo u) (actors s)). simpl. lia. }
  destruct (Z.ltb 0 (ctim (RRet r) (timers s))) eqn:E4.
  { apply Z.ltb_lt in E4. rewrite <- cq_map_ti in E4. destruct (Q _ E4) as [u U]. rewrite cq_map_ti in U. exists (RClo u). split; [exact I|].
    pose proof (cq_nn (RClo u) (mainq s)). pose proof (cq_nn (RClo u) (lazyq s)). pose proof (cq_nn (RClo u) (idleq s)).
    pose proof (cacts_nn (RClo u) (actors s)). simpl. lia. }
  apply Z.ltb_ge in E1, E2, E3, E4.
  assert (AB : cacts RBad (actors s) = 0).
  { pose proof (cq_nn RBad (mainq s)). pose proof (cq_nn RBad (lazyq s)). pose proof (cq_nn RBad (idleq s)).
    pose proof (ctim_nn RBad (timers s)). pose proof (cacts_nn RBad (actors s)). lia. }
  destruct (cacts_container r (actors s)) as (y & C & Y); [lia | exact AB |].
  exists y. split; auto. simpl.
  pose proof (cq_nn y (mainq s)). pose proof (cq_nn y (lazyq s)). pose proof (cq_nn y (idleq s)). pose proof (ctim_nn y (timers s)).
  pose proof (cnu_nn y (nuid s)). lia.
Qed.

Definition is_model_ev (e : ev) : Prop := exists c a, e = EModel c a /\ c <> M_DRAINLEFT.

Lemma model_evs x evs : Forall is_model_ev evs -> creT x evs = 0 /\ conT x evs = 0 /\ forallb pbA evs = true.
Proof.
  induction 1 as [|e l (c & a & -> & _) F (A & B & C)]; [simpl; auto|]. cbn [creT conT forallb cre1 con1 pbA specA negb andb]. rewrite A, B, C. auto.
Qed.

Definition leak_ev (e : ev) : Prop := exists kd id, e = ELeak kd id /\ kd <> LK_RET.

Lemma monA_leaks evs : forall t m, Forall leak_ev evs -> monr stepA iA t = Some m -> sent_prev m = false ->
  exists m', monr stepA iA (evs ++ t) = Some m' /\ a_new m' = a_new m /\ a_sent m' = a_sent m /\ a_inv m' = a_inv m /\
             sent_prev m' = false.
Proof.
  induction evs as [|e l IH]; simpl; intros t m F M S.
  - exists m. auto.
  - inversion F as [|? ? (kd & id & -> & NK) F2]; subst. destruct (IH t m F2 M S) as (m1 & M1 & A & B & C & D).
    rewrite M1. unfold stepA, adjA. unfold sent_prev in D.
    destruct (a_prev m1) as [[]|]; try discriminate D; cbn [negb];
      (destruct (N.eqb kd LK_RET) eqn:Q; [apply N.eqb_eq in Q; congruence|]);
      (eexists; split; [reflexivity|]; simpl; auto).
Qed.

Lemma tok_container y : container y -> exists p, tok y = Some p /\ leak_kind (fst p) = true.
Proof. destruct y; simpl; try contradiction; intros _; eexists; split; reflexivity. Qed.

Lemma IA_leaks k0 s pre s' m :
  Lin (MLeaks :: k0) s -> Tail (MLeaks :: k0) s -> handle MLeaks s = (pre, s') ->
  monr stepA iA (tr s) = Some m -> RA m (MLeaks :: k0) s ->
  BadT (tr s') \/ exists m', monr stepA iA (tr s') = Some m' /\ RA m' (pre ++ k0) s'.
Proof.
  intros L T E M R. pose proof E as E0. destruct (Tail_leaks _ _ T) as (-> & EN & FR).
  cbn [handle] in E. inversion E; subst pre s'; clear E.
  destruct (class_flags_tr s) as (fl & TR1 & FM & _).
  set (t1 := tr (class_flags s)) in *.
  set (LL := live_after (rev t1) []).
  assert (TRS : tr (set_tr (class_flags s) (rev (leaks (rev t1)) ++ t1)) =
                rev (map (fun p : N * N => ELeak (fst p) (snd p)) LL) ++ t1) by reflexivity.
  rewrite TRS.
  assert (CT : forall x, creT x t1 = creT x (tr s) /\ conT x t1 = conT x (tr s)).
  { intros x. rewrite TR1, creT_app, conT_app. destruct (model_evs x _ FM) as (A & B & _). lia. }
  destruct (model_evs (RRet 0) _ FM) as (_ & _ & NF).
  pose proof (RA_sent_prev _ _ _ _ R eq_refl) as SP.
  destruct (monA_neutral fl _ _ NF M SP) as (m1 & M1 & A1 & B1 & C1 & D1). rewrite <- TR1 in M1. fold t1 in M1.
  (* a live container is reported *)
  assert (REP : forall y, container y -> 0 < creT y (tr s) - conT y (tr s) -> exists p, In p LL /\ leak_kind (fst p) = true).
  { intros y C P. destruct (tok_container y C) as (p & TK & LK). exists p. split; auto.
    apply (live_reported y p t1 TK). destruct (CT y) as [X Y]. lia. }
  destruct (existsb (fun p => leak_kind (fst p)) LL) eqn:EX.
  { (* some container leaked: outside the hypothesis of the theorem *)
    left. right. apply existsb_exists in EX as (p & IN & LK). exists (fst p), (snd p). split; auto.
    apply in_or_app. left. apply -> in_rev. apply in_map_iff. exists p. auto. }
  right.
  assert (NOC : forall p, In p LL -> leak_kind (fst p) = false).
  { intros p IN. destruct (leak_kind (fst p)) eqn:LK; auto.
    assert (existsb (fun p => leak_kind (fst p)) LL = true) by (apply existsb_exists; eauto). congruence. }
  (* hence every Ret created has been invoked *)
  assert (DONE : forall r, creT (RRet r) (tr s) - conT (RRet r) (tr s) <= 0).
  { intros r. destruct (Z.ltb 0 (creT (RRet r) (tr s) - conT (RRet r) (tr s))) eqn:LV; [|apply Z.ltb_ge in LV; lia].
    apply Z.ltb_lt in LV. exfalso.
    assert (LC : LostC [MLeaks] s \/ 1 <= cst (RRet r) s).
    { destruct (Z.ltb (bal (RRet r) [MLeaks] s) 0) eqn:BB.
      - left. apply Z.ltb_lt in BB. apply (ra_bal _ _ _ R r BB).
      - right. apply Z.ltb_ge in BB. pose proof (lin_le _ _ L (RRet r)) as LE. unfold bal, W in *. simpl in *. lia. }
    destruct LC as [(y & C & BY)|PR].
    - destruct (REP y C) as (p & IN & LK).
      + unfold bal, W in BY. pose proof (cmops_nn y [MLeaks]). pose proof (cst_nn y s). lia.
      + rewrite (NOC p IN) in LK. discriminate.
    - assert (NBS : cst RBad s = 0).
      { pose proof (Lin_wellkinded _ _ L) as WK. unfold cnt in WK. pose proof (cmops_nn RBad [MLeaks]). pose proof (cst_nn RBad s). lia. }
      destruct (ret_in_container r s PR EN FR NBS) as (y & C & PY).
      destruct (REP y C) as (p & IN & LK).
      + assert (NFy : forall u, y <> RFr u) by (intros u ->; contradiction).
        pose proof (Lin_live _ _ y L NFy) as LV2. unfold cnt in LV2. pose proof (cmops_nn y [MLeaks]). lia.
      + rewrite (NOC p IN) in LK. discriminate. }
  (* so the report names no Ret, and the monitor accepts it *)
  assert (NORET : forall p, In p LL -> fst p <> LK_RET).
  { intros [kd id] IN Q. simpl in Q. subst kd.
    apply cntp_in in IN. change LL with (liveR t1) in IN. rewrite (live_ret_exact t1 m1 id M1) in IN.
    destruct (CT (RRet id)) as [X Y]. pose proof (DONE id). lia. }
  assert (FL2 : Forall leak_ev (rev (map (fun p : N * N => ELeak (fst p) (snd p)) LL))).
  { apply Forall_rev. apply Forall_forall. intros e IN. apply in_map_iff in IN as (p & <- & IP).
    exists (fst p), (snd p). split; auto. }
  destruct (monA_leaks _ _ _ FL2 M1 D1) as (m2 & M2 & A2 & B2 & C2 & D2).
  exists m2. split; [exact M2|]. simpl app.
  assert (FIN : finA m2 = true).
  { unfold finA. apply andb_true_intro. split.
    - apply forallb_forall. intros r IN. rewrite C2, C1. destruct (nget (a_inv m) r) eqn:NI; auto. exfalso.
      destruct (monA_facts _ _ M) as (F1 & F2 & _). pose proof (DONE r) as DN. rewrite F1, F2, NI in DN.
      rewrite A2, A1 in IN. assert (NM : nmem r (a_new m) = true).
      { clear - IN. induction (a_new m) as [|y l IH]; simpl in *; [contradiction|]. destruct IN as [->|IN]; [rewrite N.eqb_refl; reflexivity|].
        rewrite (IH IN). apply orb_true_r. }
      rewrite NM in DN. lia.
    - unfold sent_prev in D2. destruct (a_prev m2) as [[]|]; auto; try discriminate. }
  split.
  - intros r v X. rewrite B2, B1 in X. rewrite C2, C1. destruct (ra_sent _ _ _ R _ _ X) as [Y|(rk & k1 & Y)]; [left; exact Y | inversion Y].
  - intros r v X. unfold sent_prev in D2. rewrite X in D2. discriminate.
  - reflexivity.
  - intros r rk v k1 X. discriminate X.
  - intros r. apply (bal_ret_step _ _ _ _ r L (step_handle _ [] _ _ _ E0)). apply (ra_bal _ _ _ R).
  - intros _. exact FIN.
Qed.

(* ------------------------------------------------------------------ *)
(** * Monitor A: preservation and theorem *)

Theorem step_IA k s k' s' : Lin k s -> Tail k s -> IA k s -> step k s = Some (k', s') -> IA k' s'.
Proof.
  intros L T [B|(m & M & R)] H.
  { left. eapply BadT_ext; eauto. eapply step_ext; eauto. }
  destruct k as [|mo k0]; [discriminate|]. simpl in H.
  destruct (handle mo s) as [pre s1] eqn:E. inversion H; subst; clear H.
  destruct (specialA mo) eqn:SP.
  - destruct mo; try discriminate SP.
    + destruct l as [|a l]; [discriminate SP|]. simpl in SP. destruct a; try discriminate SP.
      * eapply IA_newret; eauto.
      * right. eapply IA_retsend; eauto.
    + right. eapply IA_retinvoke; eauto.
    + eapply IA_leaks; eauto.
  - right. eapply IA_neutral; eauto.
Qed.

Lemma IA_init d p : IA (map MTop p ++ [MEpilogue]) (init d).
Proof.
  right. exists iA. split; [reflexivity|]. split.
  - intros r v X. discriminate X.
  - intros r v X. discriminate X.
  - assert (forall l, existsb mnum (map MTop l ++ [MEpilogue]) = false) by (induction l; simpl; auto).
    apply mnum_tl. auto.
  - intros r rk v k0 X. destruct p; discriminate X.
  - intros r B. exfalso. pose proof (lin_le _ _ (Lin_init d p) (RRet r)) as LE. unfold bal in *. rewrite cmops_tops in *.
    unfold W, cst in *. simpl in *. lia.
  - intros X. destruct p; discriminate X.
Qed.

Lemma run_invA fuel : forall k s t,
  Lin k s -> FL k s -> Tail k s -> IA k s -> run fuel k s = Done t ->
  exists s', t = rev (tr s') /\ (BadT (tr s') \/ exists m, monr stepA iA (tr s') = Some m /\ finA m = true).
Proof.
  induction fuel as [|f IH]; intros k s t L F T I H; simpl in H.
  - destruct k; [|discriminate]. inversion H; subst. exists s. split; auto.
    destruct I as [B|(m & M & R)]; [left; auto | right; exists m; split; auto; apply (ra_fin _ _ _ R eq_refl)].
  - destruct (step k s) as [[k' s']|] eqn:ST.
    + eapply IH; [ eapply step_Lin; eauto | eapply step_FL; eauto | eapply step_Tail; eauto | eapply step_IA; eauto | exact H ].
    + inversion H; subst. exists s. split; auto. destruct k as [|m0 k1]; [|simpl in ST; destruct (handle m0 s); discriminate ST].
      destruct I as [B|(m & M & R)]; [left; auto | right; exists m; split; auto; apply (ra_fin _ _ _ R eq_refl)].
Qed.

(** the hypotheses of the theorem on the final trace *)
Definition ret_ids (t : list ev) : list N := flat_map (fun e => match e with ERetNew r => [r] | _ => [] end) t.

Definition no_container_leak (t : list ev) : Prop :=
  forall kd id, In (ELeak kd id) t -> leak_kind kd = false.

Lemma ret_ids_app a b : ret_ids (a ++ b) = ret_ids a ++ ret_ids b.
Proof. apply flat_map_app. Qed.

Lemma ret_ids_rev t : ret_ids (rev t) = rev (ret_ids t).
Proof.
  induction t as [|e t IH]; simpl; auto. rewrite ret_ids_app, IH. simpl. rewrite app_nil_r.
  destruct e; simpl; rewrite ?app_nil_r; reflexivity.
Qed.

Lemma creT_count r t : creT (RRet r) t = Z.of_nat (count_occ N.eq_dec (ret_ids t) r).
Proof.
  induction t as [|e t IH]; [reflexivity|]. cbn [creT]. rewrite IH, cre1_ret. destruct e; try reflexivity.
  simpl ret_ids. simpl count_occ. destruct (N.eq_dec r0 r) as [->|NE].
  - rewrite N.eqb_refl. lia.
  - destruct (N.eqb r r0) eqn:Q; [apply N.eqb_eq in Q; congruence | lia].
Qed.

Lemma NoDup_creT r t : NoDup (ret_ids (rev t)) -> creT (RRet r) t <= 1.
Proof.
  intros ND. rewrite ret_ids_rev in ND. apply NoDup_rev in ND. rewrite rev_involutive in ND.
  rewrite creT_count. pose proof (proj1 (NoDup_count_occ N.eq_dec _) ND r). lia.
Qed.

Theorem C05_core_proved : forall (d : dkind) (p : list top) (fuel : nat) (t : list ev),
  exec d fuel p = Done t -> NoDup (ret_ids t) -> no_container_leak t -> okA t = true.
Proof.
  intros d p fuel t H ND NL. unfold exec in H.
  destruct (run_invA fuel _ _ _ (Lin_init d p) (FL_init d p) (Tail_init d p) (IA_init d p) H) as (s' & -> & [[(r & B)|(kd & id & IN & LK)]|(m & M & F)]).
  - exfalso. pose proof (NoDup_creT r _ ND). lia.
  - exfalso. rewrite (NL kd id) in LK; [discriminate|]. apply -> in_rev. exact IN.
  - unfold okA. rewrite fold_mon_rev, M. exact F.
Qed.

Print Assumptions C05_core_proved.
