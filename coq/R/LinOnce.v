(** Layer R proofs: C16, the at-most-once monitor for the kinds not covered by linearity (tokens, Fwd closures,
    orphaned values).  Part 1: the monitor succeeds when, on every earlier part of the trace, no pair was released more
    often than created; every micro-op either releases nothing or creates nothing of these kinds. *)
From Coq Require Import ZArith NArith List Bool Lia.
From Stk Require Import Lib.U Gen.SrcCount Gen.SrcCore Gen.SrcLog R.Syntax R.Rt R.Mon R.Shape R.Eff R.C15Proofs.
From Stk Require Import R.Lin R.LinEvs R.LinNin R.C16Proofs R.Own R.LinRef R.LinRefLaw R.LinRefStep R.LinUaf.
Import ListNotations.
Local Open Scope Z_scope.

Definition pc1 (p : N * N) (e : ev) : Z := match created16 e with Some q => if p_eqb p q then 1 else 0 | None => 0 end.
Definition pk1 (p : N * N) (e : ev) : Z := match consumed16 e with Some q => if p_eqb p q then 1 else 0 | None => 0 end.
Fixpoint pcT (p : N * N) (t : list ev) : Z := match t with [] => 0 | e :: r => pc1 p e + pcT p r end.
Fixpoint pkT (p : N * N) (t : list ev) : Z := match t with [] => 0 | e :: r => pk1 p e + pkT p r end.

Lemma pc1_nn p e : 0 <= pc1 p e. Proof. unfold pc1. destruct (created16 e); [destruct (p_eqb p p0)|]; lia. Qed.
Lemma pk1_nn p e : 0 <= pk1 p e. Proof. unfold pk1. destruct (consumed16 e); [destruct (p_eqb p p0)|]; lia. Qed.
Lemma pcT_nn p t : 0 <= pcT p t. Proof. induction t as [|e t IH]; simpl; [lia|]. pose proof (pc1_nn p e). lia. Qed.
Lemma pkT_nn p t : 0 <= pkT p t. Proof. induction t as [|e t IH]; simpl; [lia|]. pose proof (pk1_nn p e). lia. Qed.
Lemma pcT_app p a b : pcT p (a ++ b) = pcT p a + pcT p b. Proof. induction a; simpl; lia. Qed.
Lemma pkT_app p a b : pkT p (a ++ b) = pkT p a + pkT p b. Proof. induction a; simpl; lia. Qed.

Section Gen.
Variable K : N -> bool.

Definition suf16 (t : list ev) : Prop := forall t1 t2, t = t1 ++ t2 -> forall p, K (fst p) = true -> pkT p t2 <= pcT p t2.

Lemma suf16_tail e t : suf16 (e :: t) -> suf16 t.
Proof. intros S t1 t2 EQ. apply (S (e :: t1) t2). simpl. rewrite EQ. reflexivity. Qed.

Lemma live_count16 t : forall live, monr (step16k K) [] t = Some live -> forall p, K (fst p) = true -> pcount p live = pcT p t - pkT p t.
Proof.
  induction t as [|e t IH]; simpl; intros live H p KP.
  - inversion H; subst. reflexivity.
  - destruct (monr (step16k K) [] t) as [l0|] eqn:M0; [|discriminate]. specialize (IH l0 eq_refl p KP).
    unfold step16k in H. unfold pc1, pk1.
    set (live1 := match created16 e with Some q => if K (fst q) then q :: l0 else l0 | None => l0 end) in *.
    assert (C1 : pcount p live1 = pcount p l0 + match created16 e with Some q => if p_eqb p q then 1 else 0 | None => 0 end).
    { unfold live1. destruct (created16 e) as [q|]; [|lia]. destruct (K (fst q)) eqn:KQ; simpl; [lia|].
      destruct (p_eqb p q) eqn:PQ; [|lia]. apply p_eqb_eq in PQ. subst q. congruence. }
    destruct (consumed16 e) as [q|].
    + destruct (K (fst q)) eqn:KQ.
      * destruct (p_mem q live1) eqn:PM; [|discriminate]. inversion H; subst. rewrite pcount_remove by auto. lia.
      * inversion H; subst. destruct (p_eqb p q) eqn:PQ; [apply p_eqb_eq in PQ; subst q; congruence | lia].
    + inversion H; subst. lia.
Qed.

Lemma no_fail16 t : suf16 t -> exists live, monr (step16k K) [] t = Some live.
Proof.
  induction t as [|e t IH]; simpl; intros S; [eauto|].
  destruct (IH (suf16_tail _ _ S)) as (l0 & M0). rewrite M0. unfold step16k.
  set (live1 := match created16 e with Some q => if K (fst q) then q :: l0 else l0 | None => l0 end).
  destruct (consumed16 e) as [q|] eqn:CO; [|eauto]. destruct (K (fst q)) eqn:KQ; [|eauto].
  assert (PM : p_mem q live1 = true).
  { apply p_mem_count.
    assert (L1 : live1 = l0) by (unfold live1; destruct (created16 e) as [p|] eqn:CR; [exfalso; eapply created_not_consumed; eauto | reflexivity]).
    rewrite L1, (live_count16 t l0 M0 q KQ).
    pose proof (S [] (e :: t) eq_refl q KQ) as G. simpl in G. unfold pk1, pc1 in G. rewrite CO, p_eqb_refl in G.
    destruct (created16 e) as [p|] eqn:CR; [exfalso; eapply created_not_consumed; eauto|]. lia. }
  rewrite PM. eauto.
Qed.

(* events that release nothing / create nothing of the selected kinds *)
Definition nc16 (e : ev) : bool := match consumed16 e with Some q => negb (K (fst q)) | None => true end.
Definition nr16 (e : ev) : bool := match created16 e with Some q => negb (K (fst q)) | None => true end.

Lemma pk1_nc p e : K (fst p) = true -> nc16 e = true -> pk1 p e = 0.
Proof.
  unfold nc16, pk1. intros KP. destruct (consumed16 e) as [q|]; [|reflexivity]. intros H. apply negb_true_iff in H.
  destruct (p_eqb p q) eqn:PQ; [|reflexivity]. apply p_eqb_eq in PQ. subst q. congruence.
Qed.
Lemma pc1_nr p e : K (fst p) = true -> nr16 e = true -> pc1 p e = 0.
Proof.
  unfold nr16, pc1. intros KP. destruct (created16 e) as [q|]; [|reflexivity]. intros H. apply negb_true_iff in H.
  destruct (p_eqb p q) eqn:PQ; [|reflexivity]. apply p_eqb_eq in PQ. subst q. congruence.
Qed.
Lemma pkT_nc p a : K (fst p) = true -> forallb nc16 a = true -> pkT p a = 0.
Proof. intros KP. induction a as [|e a IH]; simpl; auto. intros H. apply andb_prop in H as [H1 H2]. rewrite (pk1_nc p e KP H1), IH; auto. Qed.
Lemma pcT_nr p a : K (fst p) = true -> forallb nr16 a = true -> pcT p a = 0.
Proof. intros KP. induction a as [|e a IH]; simpl; auto. intros H. apply andb_prop in H as [H1 H2]. rewrite (pc1_nr p e KP H1), IH; auto. Qed.

(* the step: the new part of the trace is all-non-releasing or all-non-creating, and the whole new trace is balanced *)
Lemma suf16_ext evs t :
  suf16 t -> (forallb nc16 evs = true \/ forallb nr16 evs = true) ->
  (forall p, K (fst p) = true -> pkT p (evs ++ t) <= pcT p (evs ++ t)) -> suf16 (evs ++ t).
Proof.
  intros S CL BAL t1 t2 EQ p KP. apply app_eq_app' in EQ as [(m & -> & ->)|(m & -> & ->)].
  - (* t2 = m ++ t, evs = t1 ++ m *)
    rewrite pkT_app, pcT_app. pose proof (S [] t eq_refl p KP) as ST. specialize (BAL p KP). rewrite !pkT_app, !pcT_app in BAL.
    rewrite forallb_app, forallb_app in CL. destruct CL as [CL|CL]; apply andb_prop in CL as [C1 C2].
    + rewrite (pkT_nc p m KP C2). pose proof (pcT_nn p m). lia.
    + rewrite (pcT_nr p m KP C2) in *. rewrite (pcT_nr p t1 KP C1) in BAL. pose proof (pkT_nn p t1). lia.
  - apply (S m t2 eq_refl p KP).
Qed.
End Gen.

(* ------------------------------------------------------------------ *)
(** * The kinds outside linearity *)

Definition K3 (k : N) : bool := negb (K16_lin k).
Definition nc3 := nc16 K3.
Definition nr3 := nr16 K3.

Lemma fold_flags_P (pb : ev -> bool) (f : N * actor -> option ev) (FU : forall p e, f p = Some e -> pb e = true) l : forall s,
  exists fl, tr (fold_left (fun s0 p => emit_opt s0 (f p)) l s) = fl ++ tr s /\ forallb pb fl = true.
Proof.
  induction l as [|p l IH]; simpl; intros s; [exists []; auto|].
  destruct (IH (emit_opt s (f p))) as (fl & TR & PF). unfold emit_opt in *. destruct (f p) as [e|] eqn:E.
  - exists (fl ++ [e]). rewrite TR. split; [rewrite <- app_assoc; reflexivity|].
    rewrite forallb_app, PF. simpl. rewrite (FU _ _ E). reflexivity.
  - exists fl. auto.
Qed.

Lemma class_flag_model' all p e : class_flag all p = Some e -> exists c a, e = EModel c a.
Proof.
  unfold class_flag. destruct (a_freed (snd p)); [discriminate|].
  destruct (a_state (snd p)) as [[|c hl]| |]; try discriminate.
  - intros E; inversion E. eauto.
  - destruct (existsb _ _); [|discriminate]. intros E; inversion E. eauto.
Qed.

Ltac pass3 := intros Q; inj_R Q; ei_tac.

Lemma do_act_nc3 a s pre s' : do_act a s = (pre, s') -> evs_in nc3 s s'.
Proof. unfold do_act. destruct a; repeat dest_match; pass3. Qed.

Ltac l3 := intros Q; inj_R Q; left; ei_tac.
Ltac r3 := intros Q; inj_R Q; right; ei_tac.

Lemma handle_class3 m s pre s' : handle m s = (pre, s') -> evs_in nc3 s s' \/ evs_in nr3 s s'.
Proof.
  destruct m; cbn [handle].
  - unfold do_top. destruct o; repeat dest_match; l3.
  - destruct l as [|a l]; [l3|]. destruct (do_act a s) as [p s1] eqn:E. intros Q; inj_R Q. left. eapply do_act_nc3; eauto.
  - destruct (frames s); l3.
  - destruct (frames s); l3.
  - unfold run_item. destruct c as [u i kd caps q]. destruct kd; repeat dest_match; l3.
  - unfold drop_item. destruct c as [u i kd caps q]. destruct kd; l3.
  - l3.
  - unfold drop_val. destruct v; repeat dest_match; r3.
  - unfold drop_own. destruct logged; repeat dest_match; l3.
  - unfold drop_ref. destruct (aget (actors s) a) as [y|]; [|l3]. destruct (a_freed y); [l3|].
    destruct (minrc_drop (a_rc y)) as [[v z]|]; [|l3]. destruct z; [|l3].
    destruct (state_drops a (a_state y) _) as [dl s2] eqn:SD. destruct (Own.state_drops_h (Own.HR a) _ _ _ _ _ SD) as [-> _]. l3.
  - unfold ret_invoke. destruct r as [rid k]. destruct k; repeat dest_match; l3.
  - l3.
  - l3.
  - l3.
  - r3.
  - unfold terminate. destruct (aget (actors s) a) as [y|]; [|l3].
    destruct (state_drops a (a_state y) _) as [dl s2] eqn:SD. destruct (Own.state_drops_h (Own.HR a) _ _ _ _ _ SD) as [-> _].
    destruct (a_notify y); l3.
  - destruct (aget (actors s) a); l3.
  - destruct (aget (actors s) a) as [y|]; [destruct (a_state y)|]; l3.
  - unfold fresh_stakker. l3.
  - destruct idle; [destruct (idleq s)|]; l3.
  - destruct (t >? now (set_mainq s [])).
    + destruct (fire t _) as [fired s2] eqn:FI. unfold fire in FI. injection FI as ? ?; subst. destruct (ambiguous _); l3.
    + l3.
  - repeat dest_match; l3.
  - repeat dest_match; l3.
  - cbv zeta. destruct (ambiguous (timers s)); l3.
  - repeat dest_match; l3.
  - repeat dest_match; l3.
  - l3.
  - (* MLeaks *) intros Q; inj_R Q. left.
    assert (FU : forall p e, class_flag (actors s) p = Some e -> nc3 e = true) by (intros p e CF; destruct (class_flag_model' _ _ _ CF) as (c & a & ->); reflexivity).
    destruct (fold_flags_P nc3 (class_flag (actors s)) FU (actors s) s) as (fl & TR1 & PF). fold (class_flags s) in TR1.
    exists (rev (leaks (rev (tr (class_flags s)))) ++ fl). split.
    + change (tr (set_tr ?x ?v)) with v. rewrite TR1 at 2. rewrite app_assoc. reflexivity.
    + rewrite forallb_app, PF, andb_true_r.
      apply forallb_forall. intros e IN. apply in_rev in IN. unfold leaks in IN. apply in_map_iff in IN as (p & <- & _). reflexivity.
Qed.

(* ------------------------------------------------------------------ *)
(** * Events about tokens, Fwd closures, orphans; the Fwd table *)

Definition pbO3 (e : ev) : bool :=
  match e with EOrphNew _ | EOrphDrop _ | EFwdNew _ | EFwdFree _ | ETokNew _ | ETokDrop _ => false | _ => true end.

Lemma K3_kind k : K3 k = true -> k <> LK_CLO /\ k <> LK_VAL /\ k <> LK_RET /\ k <> LK_NOTIFY.
Proof.
  unfold K3, K16_lin. intros H. apply negb_true_iff in H. repeat (apply orb_false_elim in H as [H ?]).
  repeat split; intros ->; discriminate.
Qed.

Lemma pbO3_zero p e : K3 (fst p) = true -> pbO3 e = true -> pc1 p e = 0 /\ pk1 p e = 0.
Proof.
  intros KP PB. destruct (K3_kind _ KP) as (A & B & C & D). destruct p as [kd i]. simpl in *.
  unfold pc1, pk1, p_eqb. destruct e; simpl in *; try discriminate PB; split; try reflexivity;
    match goal with |- context [N.eqb kd ?c] => destruct (N.eqb kd c) eqn:Q; [apply N.eqb_eq in Q; congruence | reflexivity] end.
Qed.

Lemma pbO3_block p evs : K3 (fst p) = true -> forallb pbO3 evs = true -> pcT p evs = 0 /\ pkT p evs = 0.
Proof.
  intros KP. induction evs as [|e l IH]; simpl; [auto|]. intros H. apply andb_prop in H as [H1 H2].
  destruct (pbO3_zero p e KP H1) as [A B]. destruct (IH H2) as [C D]. lia.
Qed.

Lemma fwds_submit s q c : fwds (submit s q c) = fwds s. Proof. unfold submit. destruct q; reflexivity. Qed.
Lemma fwds_new_actor s a nt p v : fwds (new_actor s a nt p v) = fwds s.
Proof. unfold new_actor, log_rec. destruct (_ && _); destruct v; reflexivity. Qed.
Lemma fwds_log_rec s a b c d : fwds (log_rec s a b c d) = fwds s. Proof. apply Own.log_rec_fwds. Qed.
Lemma fwds_target_ev s ci : fwds (target_ev s ci) = fwds s. Proof. apply Own.target_ev_same. Qed.
Lemma fwds_take s h o s' : take s h = (o, s') -> fwds s' = fwds s. Proof. intros T. apply (Own.take_same _ _ _ _ T). Qed.
Lemma fwds_take_caps ids s l s' : take_caps ids s = (l, s') -> fwds s' = fwds s. Proof. intros T. apply (Own.take_caps_same _ _ _ _ T). Qed.
Lemma fwds_take_env_caps ids s l s' : take_env_caps ids s = (l, s') -> fwds s' = fwds s. Proof. intros T. apply (Own.take_env_caps_same _ _ _ _ T). Qed.
Lemma fwds_bind s h v l s' : bind s h v = (l, s') -> fwds s' = fwds s.
Proof. unfold bind. destruct (aget (env s) h); intros Q; inversion Q; reflexivity. Qed.
Lemma fwds_bad s c l s' : bad s c = (l, s') -> fwds s' = fwds s. Proof. unfold bad. intros Q; inversion Q; reflexivity. Qed.
Lemma fwds_inst c mk s ci s' : inst c mk s = (ci, s') -> fwds s' = fwds s. Proof. intros I. apply (Own.inst_same _ _ _ _ _ I). Qed.
Lemma fwds_inst_call c mk s ci s' : inst_call c mk s = (ci, s') -> fwds s' = fwds s. Proof. intros I. apply (Own.inst_call_same _ _ _ _ _ I). Qed.
Lemma fwds_inst_nocaps c mk s ci s' : inst_nocaps c mk s = (ci, s') -> fwds s' = fwds s. Proof. intros I. apply (Own.inst_nocaps_same _ _ _ _ _ I). Qed.
Lemma fwds_tok_script script : forall s, fwds (tok_script s script) = fwds s.
Proof.
  unfold tok_script. induction script as [|c r IH]; intros s; [reflexivity|]. cbn [fold_left].
  destruct (inst_env c KPlain s) as [ci s1] eqn:I. rewrite IH, fwds_submit.
  unfold inst_env in I. destruct (take_env_caps (clo_caps c) s) as [caps s2] eqn:T. inversion I; subst.
  change (fwds (emit ?x ?e)) with (fwds x). change (fwds (set_nuid ?x ?v)) with (fwds x). eapply fwds_take_env_caps; eauto.
Qed.
Lemma fwds_mk_notifier s a n r s' : mk_notifier s a n = (r, s') -> fwds s' = fwds s.
Proof.
  unfold mk_notifier. destruct n as [[hp c]|].
  - destruct (lookup s hp) as [v|]; [destruct (handle_actor v) as [p|]|].
    + destruct (inst_call c (fun b => KMeth p b None) (ref_clone s p)) as [ci s2] eqn:I.
      intros Q; inversion Q; subst. rewrite (fwds_inst_call _ _ _ _ _ I). apply fwds_ref_clone.
    + intros Q; inversion Q; subst. reflexivity.
    + intros Q; inversion Q; subst. reflexivity.
  - intros Q; inversion Q; subst. reflexivity.
Qed.

Lemma fwds_emit s e : fwds (emit s e) = fwds s. Proof. reflexivity. Qed.
Lemma fwds_push_main s c : fwds (push_main s c) = fwds s. Proof. reflexivity. Qed.
Lemma fwds_push_frame s c l : fwds (push_frame s c l) = fwds s. Proof. reflexivity. Qed.
Lemma fwds_upd_actor s a x : fwds (upd_actor s a x) = fwds s. Proof. reflexivity. Qed.
Lemma fwds_timer_add s k v t c : fwds (timer_add s k v t c) = fwds s. Proof. reflexivity. Qed.
Lemma fwds_set_alive s v : fwds (set_alive s v) = fwds s. Proof. reflexivity. Qed.
Lemma fwds_set_now s v : fwds (set_now s v) = fwds s. Proof. reflexivity. Qed.
Lemma fwds_set_start s v : fwds (set_start s v) = fwds s. Proof. reflexivity. Qed.
Lemma fwds_set_mainq s v : fwds (set_mainq s v) = fwds s. Proof. reflexivity. Qed.
Lemma fwds_set_lazyq s v : fwds (set_lazyq s v) = fwds s. Proof. reflexivity. Qed.
Lemma fwds_set_idleq s v : fwds (set_idleq s v) = fwds s. Proof. reflexivity. Qed.
Lemma fwds_set_timers s v : fwds (set_timers s v) = fwds s. Proof. reflexivity. Qed.
Lemma fwds_set_tnext s v : fwds (set_tnext s v) = fwds s. Proof. reflexivity. Qed.
Lemma fwds_set_tvars s v : fwds (set_tvars s v) = fwds s. Proof. reflexivity. Qed.
Lemma fwds_set_recreate s v : fwds (set_recreate s v) = fwds s. Proof. reflexivity. Qed.
Lemma fwds_set_env s v : fwds (set_env s v) = fwds s. Proof. reflexivity. Qed.
Lemma fwds_set_frames s v : fwds (set_frames s v) = fwds s. Proof. reflexivity. Qed.
Lemma fwds_set_nuid s v : fwds (set_nuid s v) = fwds s. Proof. reflexivity. Qed.
Lemma fwds_set_logseq s v : fwds (set_logseq s v) = fwds s. Proof. reflexivity. Qed.
Lemma fwds_set_logfilter s v : fwds (set_logfilter s v) = fwds s. Proof. reflexivity. Qed.
Lemma fwds_set_haslogger s v : fwds (set_haslogger s v) = fwds s. Proof. reflexivity. Qed.
Lemma fwds_set_shut s v : fwds (set_shut s v) = fwds s. Proof. reflexivity. Qed.
Lemma fwds_set_tr s v : fwds (set_tr s v) = fwds s. Proof. reflexivity. Qed.

Ltac fw_rw :=
  repeat first
    [ rewrite fwds_emit
    | rewrite fwds_push_main
    | rewrite fwds_push_frame
    | rewrite fwds_upd_actor
    | rewrite fwds_timer_add
    | rewrite fwds_set_alive
    | rewrite fwds_set_now
    | rewrite fwds_set_start
    | rewrite fwds_set_mainq
    | rewrite fwds_set_lazyq
    | rewrite fwds_set_idleq
    | rewrite fwds_set_timers
    | rewrite fwds_set_tnext
    | rewrite fwds_set_tvars
    | rewrite fwds_set_recreate
    | rewrite fwds_set_env
    | rewrite fwds_set_frames
    | rewrite fwds_set_nuid
    | rewrite fwds_set_logseq
    | rewrite fwds_set_logfilter
    | rewrite fwds_set_haslogger
    | rewrite fwds_set_shut
    | rewrite fwds_set_tr
    | rewrite fwds_submit
    | rewrite fwds_ref_clone
    | rewrite fwds_log_rec
    | rewrite fwds_target_ev
    | rewrite fwds_new_actor
    | rewrite fwds_tok_script
    | match goal with
      | H : take _ _ = (_, ?s') |- context [fwds ?s'] => rewrite (fwds_take _ _ _ _ H)
      | H : take_caps _ _ = (_, ?s') |- context [fwds ?s'] => rewrite (fwds_take_caps _ _ _ _ H)
      | H : bind _ _ _ = (_, ?s') |- context [fwds ?s'] => rewrite (fwds_bind _ _ _ _ _ H)
      | H : bad _ _ = (_, ?s') |- context [fwds ?s'] => rewrite (fwds_bad _ _ _ _ H)
      | H : inst _ _ _ = (_, ?s') |- context [fwds ?s'] => rewrite (fwds_inst _ _ _ _ _ H)
      | H : inst_call _ _ _ = (_, ?s') |- context [fwds ?s'] => rewrite (fwds_inst_call _ _ _ _ _ H)
      | H : inst_nocaps _ _ _ = (_, ?s') |- context [fwds ?s'] => rewrite (fwds_inst_nocaps _ _ _ _ _ H)
      | H : mk_notifier _ _ _ = (_, ?s') |- context [fwds ?s'] => rewrite (fwds_mk_notifier _ _ _ _ _ H)
      | |- context [fwds (if ?b then _ else _)] => destruct b
      end ].
Ltac fw_tac := fw_rw; reflexivity.


Definition isO (m : mop) : bool := match m with MOrphNew _ | MOrphDrop _ => true | _ => false end.
Lemma isO_app a b : existsb isO (a ++ b) = existsb isO a || existsb isO b. Proof. apply existsb_app. Qed.
Lemma isO_drops l : existsb isO (drops l) = false. Proof. unfold drops. induction l; simpl; auto. Qed.
Lemma isO_slab_drops l : existsb isO (slab_drops l) = false. Proof. induction l as [|[c|n] l IH]; simpl; auto. Qed.
Lemma isO_dropitems l : existsb isO (map MDropItem l) = false. Proof. induction l; simpl; auto. Qed.
Lemma isO_runitems l : existsb isO (map MRunItem l) = false. Proof. induction l; simpl; auto. Qed.
Lemma bind_isO s h v l s' : bind s h v = (l, s') -> existsb isO l = false.
Proof. unfold bind. destruct (aget (env s) h); intros Q; inversion Q; reflexivity. Qed.
Lemma bad_isO s c l s' : bad s c = (l, s') -> existsb isO l = false.
Proof. unfold bad. intros Q; inversion Q; reflexivity. Qed.
Ltac isO_tac :=
  first [ reflexivity
        | (eapply bind_isO; eassumption)
        | (eapply bad_isO; eassumption)
        | (cbn [map app existsb isO orb]; rewrite ?isO_app, ?isO_drops, ?isO_slab_drops, ?isO_dropitems, ?isO_runitems; reflexivity) ].

(* neutral for the three kinds: no such event, the Fwd table untouched, no orphan micro-op pushed *)
Definition neutral3 (s : st) (pre : list mop) (s' : st) : Prop :=
  evs_in pbO3 s s' /\ fwds s' = fwds s /\ existsb isO pre = false.

Ltac passN := intros Q; inj_R Q; (split; [ei_tac | split; [fw_tac | isO_tac]]).

Lemma do_act_N3 a s pre s' : do_act a s = (pre, s') ->
  match a with ANewTok _ _ _ | ANewFwd _ _ _ | AClone _ _ | AFwdSend _ _ => False | _ => True end -> neutral3 s pre s'.
Proof. intros H SP. unfold neutral3. revert H. unfold do_act. destruct a; try contradiction; repeat dest_match; passN. Qed.
