(** Layer R proofs: C16, the at-most-once part for the object kinds covered by the linearity census
    (closure instances, actor values, user Rets, termination notifiers).

    [C16_split]: C16_ok = C16_flags_ok && C16_once_ok K && C16_once_ok (not K) for every selection K of kinds.
    [C16_lin_proved]: for every program, deferrer kind and amount of fuel, on the trace of a terminated
    execution no closure instance is run / dropped, no actor value dropped, no user Ret invoked and no
    termination notifier invoked unless it was created before and not yet consumed.

    Proof: the census invariant [Lin] (LinStep.v) gives  consumed <= created  for every resource at every step
    boundary; the events of one micro-op are either free of consumption events or free of creation events
    ([handle_class]), so the inequality holds at every prefix of the trace; the monitor's multiset of live
    objects has, for each object, created - consumed copies. *)
From Coq Require Import ZArith NArith List Bool Lia.
From Stk Require Import Lib.U Gen.SrcCount Gen.SrcCore Gen.SrcLog R.Syntax R.Rt R.Mon R.Shape R.C15Proofs
  R.Lin R.LinAct R.LinLaw R.LinStep R.LinEvs.
Import ListNotations.
Local Open Scope Z_scope.

(* ------------------------------------------------------------------ *)
(** * Event classes *)

Definition is_con (e : ev) : bool :=
  match e with ERun _ _ _ | EMeth _ _ _ | EPrep _ _ _ | EDrop _ _ _ | EValDrop _ | ERet _ _ | ENotify _ _ => true | _ => false end.
Definition is_cre (e : ev) : bool :=
  match e with EClo _ _ | EReady _ | ERetNew _ | ERetTo _ _ _ | EActor _ => true | _ => false end.
Definition pbNC (e : ev) : bool := negb (is_con e).
Definition pbNR (e : ev) : bool := negb (is_cre e).

Lemma con1_nc x e : pbNC e = true -> con1 x e = 0.
Proof. destruct e; simpl; try discriminate; reflexivity. Qed.
Lemma cre1_nr x e : pbNR e = true -> cre1 x e = 0.
Proof. destruct e; simpl; try discriminate; reflexivity. Qed.

Lemma cre1_nn x e : 0 <= cre1 x e.
Proof. destruct e; simpl; try lia; try apply ind_range. pose proof (ind_range x (RClo uid)). pose proof (ind_range x (RFr uid)). lia. Qed.
Lemma con1_nn' x e : 0 <= con1 x e.
Proof. destruct e; simpl; try lia; apply ind_range. Qed.

Lemma conT_app x a t : conT x (a ++ t) = conT x a + conT x t.
Proof. induction a; simpl; lia. Qed.
Lemma creT_app x a t : creT x (a ++ t) = creT x a + creT x t.
Proof. induction a; simpl; lia. Qed.
Lemma conT_nc x a : forallb pbNC a = true -> conT x a = 0.
Proof. induction a as [|e a IH]; simpl; auto. intros H. apply andb_prop in H as [H1 H2]. rewrite (con1_nc x e H1), IH; auto. Qed.
Lemma creT_nr x a : forallb pbNR a = true -> creT x a = 0.
Proof. induction a as [|e a IH]; simpl; auto. intros H. apply andb_prop in H as [H1 H2]. rewrite (cre1_nr x e H1), IH; auto. Qed.

(* ------------------------------------------------------------------ *)
(** * One micro-op emits no consumption event, or no creation event *)

Ltac inj_pair Q :=
  match type of Q with
  | (_, _) = (_, _) => injection Q as ? ?; subst
  | _ => idtac
  end.
Ltac nc_tac := intros Q; inj_pair Q; ei_tac.

Lemma do_act_nc a s pre s' : do_act a s = (pre, s') -> evs_in pbNC s s'.
Proof. intros H. destruct a; revert H; unfold do_act; repeat dest_match; nc_tac. Qed.

Lemma do_top_nc o s pre s' : do_top o s = (pre, s') -> evs_in pbNC s s'.
Proof. unfold do_top. destruct o; repeat dest_match; nc_tac. Qed.

Lemma run_item_nr c s pre s' : run_item c s = (pre, s') -> evs_in pbNR s s'.
Proof. unfold run_item. destruct c as [u i kd caps q]. destruct kd; repeat dest_match; nc_tac. Qed.

Lemma drop_item_nr c s pre s' : drop_item c s = (pre, s') -> evs_in pbNR s s'.
Proof. unfold drop_item. destruct c as [u i kd caps q]. destruct kd; nc_tac. Qed.

Lemma drop_val_nc v s pre s' : drop_val v s = (pre, s') -> evs_in pbNC s s'.
Proof. unfold drop_val. destruct v; repeat dest_match; nc_tac. Qed.

Lemma drop_own_nc a lg s pre s' : drop_own a lg s = (pre, s') -> evs_in pbNC s s'.
Proof. unfold drop_own. destruct lg; repeat dest_match; nc_tac. Qed.

Lemma state_drops_same a sa s l s' : state_drops a sa s = (l, s') -> s' = s.
Proof. unfold state_drops. destruct sa; intros Q; inversion Q; reflexivity. Qed.

Lemma drop_ref_nc a s pre s' : drop_ref a s = (pre, s') -> evs_in pbNC s s'.
Proof.
  unfold drop_ref. destruct (aget (actors s) a) as [y|]; [|nc_tac].
  destruct (a_freed y); [nc_tac|]. destruct (minrc_drop (a_rc y)) as [[v z]|]; [|nc_tac].
  destruct z; [|nc_tac].
  destruct (state_drops a (a_state y) _) as [dl s2] eqn:SD. rewrite (state_drops_same _ _ _ _ _ SD). nc_tac.
Qed.

Lemma terminate_nc a c s pre s' : terminate a c s = (pre, s') -> evs_in pbNC s s'.
Proof.
  unfold terminate. destruct (aget (actors s) a) as [y|]; [|nc_tac].
  destruct (state_drops a (a_state y) _) as [dl s2] eqn:SD. rewrite (state_drops_same _ _ _ _ _ SD).
  destruct (a_notify y); nc_tac.
Qed.

Lemma ret_invoke_nr r m s pre s' : ret_invoke r m s = (pre, s') -> evs_in pbNR s s'.
Proof. unfold ret_invoke. destruct r as [rid k]. destruct k; repeat dest_match; nc_tac. Qed.

Lemma evs_in_forall (pb : ev -> bool) s l : Forall (fun e => pb e = true) l -> evs_in pb s (set_tr s (l ++ tr s)).
Proof. intros F. exists l. split; [reflexivity|]. apply forallb_forall. intros e IN. eapply Forall_forall in F; eauto. Qed.

Lemma leaks_nc s : evs_in pbNC s (set_tr (class_flags s) (rev (leaks (rev (tr (class_flags s)))) ++ tr (class_flags s))).
Proof.
  destruct (class_flags_tr s) as (evs & TE & FE & _).
  exists (rev (leaks (rev (tr (class_flags s)))) ++ evs). split; [simpl; rewrite TE at 2; rewrite app_assoc; reflexivity|].
  rewrite forallb_app. apply andb_true_intro. split.
  - apply forallb_forall. intros e IN. apply in_rev in IN. unfold leaks in IN. apply in_map_iff in IN as (p & <- & _). reflexivity.
  - apply forallb_forall. intros e IN. eapply Forall_forall in FE; eauto. destruct FE as (c & a & -> & _). reflexivity.
Qed.

Lemma handle_class m s pre s' : handle m s = (pre, s') -> evs_in pbNC s s' \/ evs_in pbNR s s'.
Proof.
  intros H. destruct m; cbn [handle] in H.
  - left. eapply do_top_nc; eauto.
  - left. destruct l as [|a l]; [revert H; nc_tac|]. destruct (do_act a s) as [p s1] eqn:E. inversion H; subst. eapply do_act_nc; eauto.
  - left. revert H. destruct (frames s); nc_tac.
  - left. revert H. destruct (frames s) as [|fr rest]; nc_tac.
  - right. eapply run_item_nr; eauto.
  - right. eapply drop_item_nr; eauto.
  - right. revert H. nc_tac.
  - left. eapply drop_val_nc; eauto.
  - left. eapply drop_own_nc; eauto.
  - left. eapply drop_ref_nc; eauto.
  - right. eapply ret_invoke_nr; eauto.
  - right. revert H. nc_tac.
  - left. revert H. nc_tac.
  - left. revert H. nc_tac.
  - left. revert H. nc_tac.
  - left. eapply terminate_nc; eauto.
  - left. revert H. destruct (aget (actors s) a); nc_tac.
  - left. revert H. destruct (aget (actors s) a) as [y|]; [destruct (a_state y)|]; nc_tac.
  - left. revert H. unfold fresh_stakker. nc_tac.
  - left. revert H. destruct idle; [destruct (idleq s)|]; nc_tac.
  - left. revert H. destruct (t >? now (set_mainq s [])).
    + destruct (fire t _) as [fired s2] eqn:FI. unfold fire in FI. injection FI as ? ?; subst. nc_tac.
    + nc_tac.
  - left. revert H. repeat dest_match; nc_tac.
  - left. revert H. repeat dest_match; nc_tac.
  - left. revert H. nc_tac.
  - left. revert H. repeat dest_match; nc_tac.
  - left. revert H. repeat dest_match; nc_tac.
  - left. revert H. nc_tac.
  - left. inversion H; subst. apply leaks_nc.
Qed.

(* ------------------------------------------------------------------ *)
(** * consumed <= created at every prefix of the trace *)

Definition notfr (x : res) : Prop := match x with RFr _ => False | _ => True end.

Lemma cnu_notfr x n : notfr x -> cnu x n = 0.
Proof. destruct x; simpl; try reflexivity. contradiction. Qed.

Lemma Lin_le0 k s x : Lin k s -> notfr x -> conT x (tr s) <= creT x (tr s).
Proof.
  intros [LE _] NF. specialize (LE x). rewrite (cnu_notfr x 1 NF) in LE. unfold bal, W in LE.
  pose proof (cmops_nn x k). pose proof (cst_nn x s). lia.
Qed.

(* [t] is newest first: its suffixes are the prefixes of the execution *)
Definition sufok (t : list ev) : Prop := forall t1 t2, t = t1 ++ t2 -> forall x, notfr x -> conT x t2 <= creT x t2.

Lemma app_eq_app' {X} (a b c d : list X) : a ++ b = c ++ d ->
  (exists l, a = c ++ l /\ d = l ++ b) \/ (exists l, c = a ++ l /\ b = l ++ d).
Proof.
  revert c. induction a as [|x a IH]; intros c H.
  - right. exists c. auto.
  - destruct c as [|y c].
    + left. exists (x :: a). auto.
    + simpl in H. inversion H; subst. destruct (IH c H2) as [(l & -> & ->)|(l & -> & ->)]; [left | right]; exists l; auto.
Qed.

Lemma conT_nn0 x t : 0 <= conT x t.
Proof. induction t; simpl; [lia|]. pose proof (con1_nn' x a). lia. Qed.
Lemma creT_nn0 x t : 0 <= creT x t.
Proof. induction t; simpl; [lia|]. pose proof (cre1_nn x a). lia. Qed.

Lemma step_sufok k s k' s' : Lin k s -> sufok (tr s) -> step k s = Some (k', s') -> sufok (tr s').
Proof.
  intros L S H. pose proof (step_Lin _ _ _ _ L H) as L'.
  destruct k as [|m k0]; [discriminate|]. simpl in H. destruct (handle m s) as [pre s1] eqn:E. inversion H; subst; clear H.
  intros t1 t2 EQ x NF.
  assert (CL : exists evs, tr s' = evs ++ tr s /\ (forallb pbNC evs = true \/ forallb pbNR evs = true)).
  { destruct (handle_class _ _ _ _ E) as [(evs & A & B)|(evs & A & B)]; exists evs; auto. }
  destruct CL as (evs & TE & CL). rewrite TE in EQ.
  destruct (app_eq_app' _ _ _ _ EQ) as [(l & E1 & E2)|(l & E1 & E2)].
  - (* the suffix contains the whole old trace and the tail [l] of the new events *)
    subst t2. rewrite conT_app, creT_app.
    assert (SUB : forall pb, forallb pb evs = true -> forallb pb l = true).
    { intros pb F. rewrite E1, forallb_app in F. apply andb_prop in F. apply F. }
    destruct CL as [NC|NR].
    + rewrite (conT_nc x l (SUB _ NC)). pose proof (Lin_le0 _ _ x L NF). pose proof (creT_nn0 x l). lia.
    + rewrite (creT_nr x l (SUB _ NR)). pose proof (Lin_le0 _ _ x L' NF) as G. rewrite TE, conT_app, creT_app, (creT_nr x evs NR) in G.
      rewrite E1, conT_app in G. pose proof (conT_nn0 x t1). lia.
  - (* a suffix of the old trace *)
    eapply S; eauto.
Qed.

Lemma run_sufok fuel : forall k s t, Lin k s -> sufok (tr s) -> run fuel k s = Done t -> exists s', t = rev (tr s') /\ sufok (tr s').
Proof.
  induction fuel as [|f IH]; intros k s t L S H; simpl in H.
  - destruct k; [|discriminate]. inversion H; subst. eauto.
  - destruct (step k s) as [[k' s']|] eqn:ST.
    + eapply IH; [eapply step_Lin; eauto | eapply step_sufok; eauto | exact H].
    + inversion H; subst. eauto.
Qed.

(* ------------------------------------------------------------------ *)
(** * The monitor's multiset of live objects *)

Definition res_of (p : N * N) : res :=
  if N.eqb (fst p) LK_CLO then RClo (snd p)
  else if N.eqb (fst p) LK_VAL then RVal (snd p)
  else if N.eqb (fst p) LK_RET then RRet (snd p)
  else RNot (snd p).

Fixpoint pcount (p : N * N) (l : list (N * N)) : Z :=
  match l with [] => 0 | q :: r => (if p_eqb p q then 1 else 0) + pcount p r end.

Lemma pcount_nn p l : 0 <= pcount p l.
Proof. induction l as [|q l IH]; simpl; [lia|]. destruct (p_eqb p q); lia. Qed.

Lemma p_eqb_eq p q : p_eqb p q = true <-> p = q.
Proof.
  destruct p as [a b], q as [c d]. unfold p_eqb. simpl. rewrite andb_true_iff, !N.eqb_eq. split; [intros [-> ->]; reflexivity | intros E; inversion E; auto].
Qed.

Lemma p_eqb_refl p : p_eqb p p = true. Proof. apply p_eqb_eq. reflexivity. Qed.

Lemma p_mem_count p l : p_mem p l = true <-> 1 <= pcount p l.
Proof.
  induction l as [|q l IH]; cbn [p_mem pcount]; [split; [discriminate | intros X; exfalso; lia]|].
  pose proof (pcount_nn p l). destruct (p_eqb p q); cbn [orb]; [split; [intros _; lia | auto]|]. rewrite IH. split; intros; lia.
Qed.

Lemma pcount_remove p q l : p_mem q l = true -> pcount p (p_remove q l) = pcount p l - (if p_eqb p q then 1 else 0).
Proof.
  induction l as [|y l IH]; simpl; [discriminate|]. destruct (p_eqb q y) eqn:QY.
  - intros _. apply p_eqb_eq in QY. subst y. lia.
  - simpl. intros M. rewrite IH; auto. lia.
Qed.

Lemma K16_cases (k : N) : K16_lin k = true -> (k = LK_CLO \/ k = LK_VAL \/ k = LK_RET \/ k = LK_NOTIFY).
Proof. unfold K16_lin. rewrite !orb_true_iff, !N.eqb_eq. tauto. Qed.

(* creation / consumption events of the monitor and of the census agree on these kinds *)
Lemma cre_agree p e : K16_lin (fst p) = true ->
  cre1 (res_of p) e = match created16 e with Some q => if p_eqb p q then 1 else 0 | None => 0 end.
Proof.
  intros K. destruct p as [kd i]. simpl in K. apply K16_cases in K.
  destruct K as [K|[K|[K|K]]]; subst kd; unfold res_of; simpl; destruct e; simpl; try reflexivity; unfold p_eqb; simpl.
  all: try (rewrite ind_neq by discriminate; rewrite ?Z.add_0_r, ?Z.add_0_l).
  all: try (destruct (N.eqb i _) eqn:Q; [apply N.eqb_eq in Q; subst; rewrite ?ind_refl; reflexivity | rewrite ind_neq; [reflexivity | intros EQ; inversion EQ; subst; rewrite N.eqb_refl in Q; discriminate Q]]).
  all: try reflexivity.
Qed.

Lemma con_agree p e : K16_lin (fst p) = true ->
  con1 (res_of p) e = match consumed16 e with Some q => if p_eqb p q then 1 else 0 | None => 0 end.
Proof.
  intros K. destruct p as [kd i]. simpl in K. apply K16_cases in K.
  destruct K as [K|[K|[K|K]]]; subst kd; unfold res_of; simpl; destruct e; simpl; try reflexivity; unfold p_eqb; simpl.
  all: try (rewrite ind_neq by discriminate; reflexivity).
  all: try (destruct (N.eqb i _) eqn:Q; [apply N.eqb_eq in Q; subst; rewrite ?ind_refl; reflexivity | rewrite ind_neq; [reflexivity | intros EQ; inversion EQ; subst; rewrite N.eqb_refl in Q; discriminate Q]]).
Qed.

Lemma res_notfr p : notfr (res_of p).
Proof. unfold res_of. repeat destruct (N.eqb _ _); exact I. Qed.

Definition mon16 (t : list ev) := monr (step16k K16_lin) [] t.

Lemma live_count t : forall live, mon16 t = Some live -> forall p, K16_lin (fst p) = true ->
  pcount p live = creT (res_of p) t - conT (res_of p) t.
Proof.
  unfold mon16. induction t as [|e t IH]; simpl; intros live H p K.
  - inversion H; subst. reflexivity.
  - destruct (monr (step16k K16_lin) [] t) as [l0|] eqn:M0; [|discriminate]. specialize (IH l0 eq_refl p K).
    rewrite (cre_agree p e K), (con_agree p e K). unfold step16k in H.
    set (live1 := match created16 e with Some q => if K16_lin (fst q) then q :: l0 else l0 | None => l0 end) in *.
    assert (C1 : pcount p live1 = pcount p l0 + match created16 e with Some q => if p_eqb p q then 1 else 0 | None => 0 end).
    { unfold live1. destruct (created16 e) as [q|]; [|lia]. destruct (K16_lin (fst q)) eqn:KQ; simpl; [lia|].
      destruct (p_eqb p q) eqn:PQ; [|lia]. apply p_eqb_eq in PQ. subst q. congruence. }
    destruct (consumed16 e) as [q|].
    + destruct (K16_lin (fst q)) eqn:KQ.
      * destruct (p_mem q live1) eqn:PM; [|discriminate]. inversion H; subst. rewrite pcount_remove by auto. lia.
      * inversion H; subst. destruct (p_eqb p q) eqn:PQ; [apply p_eqb_eq in PQ; subst q; congruence | lia].
    + inversion H; subst. lia.
Qed.

Lemma sufok_tail e t : sufok (e :: t) -> sufok t.
Proof. intros S t1 t2 EQ. apply (S (e :: t1) t2). simpl. rewrite EQ. reflexivity. Qed.

Lemma created_not_consumed e p q : created16 e = Some p -> consumed16 e = Some q -> False.
Proof. destruct e; simpl; discriminate. Qed.

Lemma no_fail t : sufok t -> exists live, mon16 t = Some live.
Proof.
  unfold mon16. induction t as [|e t IH]; simpl; intros S; [eauto|].
  destruct (IH (sufok_tail _ _ S)) as (l0 & M0). rewrite M0. unfold step16k.
  set (live1 := match created16 e with Some q => if K16_lin (fst q) then q :: l0 else l0 | None => l0 end).
  destruct (consumed16 e) as [q|] eqn:CO; [|eauto]. destruct (K16_lin (fst q)) eqn:KQ; [|eauto].
  assert (PM : p_mem q live1 = true).
  { apply p_mem_count.
    assert (L1 : live1 = l0) by (unfold live1; destruct (created16 e) as [p|] eqn:CR; [exfalso; eapply created_not_consumed; eauto | reflexivity]).
    rewrite L1, (live_count t l0 M0 q KQ).
    pose proof (S [] (e :: t) eq_refl (res_of q) (res_notfr q)) as G. simpl in G.
    rewrite (con_agree q e KQ), CO, p_eqb_refl in G. rewrite (cre_agree q e KQ) in G.
    destruct (created16 e) as [p|] eqn:CR; [exfalso; eapply created_not_consumed; eauto|]. lia. }
  rewrite PM. eauto.
Qed.

(** C16, at-most-once part for closure instances, actor values, user Rets and termination notifiers: for every
    program, deferrer kind and amount of fuel. *)
Theorem C16_lin_proved : forall (d : dkind) (p : list top) (fuel : nat) (t : list ev),
  exec d fuel p = Done t -> C16_once_ok K16_lin t = true.
Proof.
  intros d p fuel t H. unfold exec in H.
  assert (S0 : sufok (tr (init d))).
  { intros t1 t2 EQ x NF. simpl in EQ. destruct t1; [|discriminate]. destruct t2; [|discriminate]. simpl. lia. }
  destruct (run_sufok fuel _ _ _ (Lin_init d p) S0 H) as (s' & -> & S).
  destruct (no_fail _ S) as (live & M). unfold C16_once_ok. rewrite fold_mon_rev. unfold mon16 in M. rewrite M. reflexivity.
Qed.

(* ------------------------------------------------------------------ *)
(** * C16_ok is the conjunction of the flag check and the at-most-once monitors of any two complementary
      selections of kinds *)

Section Split.
Variable K : N -> bool.
Let nK (k : N) : bool := negb (K k).
Let fK (f : N -> bool) (l : list (N * N)) := filter (fun p => f (fst p)) l.

Lemma p_mem_filter f p l : f (fst p) = true -> p_mem p (fK f l) = p_mem p l.
Proof.
  intros FP. induction l as [|q l IH]; simpl; auto. destruct (f (fst q)) eqn:FQ; simpl; rewrite IH; auto.
  destruct (p_eqb p q) eqn:PQ; auto. apply p_eqb_eq in PQ. subst q. congruence.
Qed.

Lemma filter_remove_in f p l : f (fst p) = true -> fK f (p_remove p l) = p_remove p (fK f l).
Proof.
  intros FP. induction l as [|q l IH]; simpl; auto. destruct (p_eqb p q) eqn:PQ.
  - apply p_eqb_eq in PQ. subst q. rewrite FP. simpl. rewrite p_eqb_refl. reflexivity.
  - simpl. destruct (f (fst q)); simpl; rewrite ?PQ, IH; reflexivity.
Qed.

Lemma filter_remove_out f p l : f (fst p) = false -> fK f (p_remove p l) = fK f l.
Proof.
  intros FP. induction l as [|q l IH]; simpl; auto. destruct (p_eqb p q) eqn:PQ.
  - apply p_eqb_eq in PQ. subst q. rewrite FP. reflexivity.
  - simpl. rewrite IH. reflexivity.
Qed.

Definition is_some {X} (o : option X) : bool := match o with Some _ => true | None => false end.

(* one event, from related states *)
Lemma step16_split live e :
  match step16 live e with
  | Some live' => flag16 e = true /\ step16k K (fK K live) e = Some (fK K live') /\ step16k nK (fK nK live) e = Some (fK nK live')
  | None => flag16 e && is_some (step16k K (fK K live) e) && is_some (step16k nK (fK nK live) e) = false
  end.
Proof.
  assert (GEN : created16 e = None -> consumed16 e = None -> forall f, step16k f (fK f live) e = Some (fK f live)).
  { intros A B f. unfold step16k. rewrite A, B. reflexivity. }
  destruct e; try (simpl; rewrite !GEN by reflexivity; auto; fail).
  all: try (simpl; destruct (N.leb 900 code); simpl; rewrite ?GEN by reflexivity; auto; fail).
  all: try (simpl; destruct (N.eqb code M_UAF); simpl; rewrite ?GEN by reflexivity; auto; fail).
  all: unfold step16, step16k; simpl created16; simpl consumed16; cbv iota beta.
  all: unfold nK; simpl fst.
  all: try match goal with |- context [K ?k] => destruct (K k) eqn:KK end; simpl negb; cbv iota.
  all: try (split; [reflexivity|]; simpl; rewrite ?KK; simpl; split; reflexivity).
  all: try (simpl flag16; simpl andb;
            match goal with |- context [p_mem ?p ?l] =>
              first [ rewrite (p_mem_filter K p l) by exact KK | rewrite (p_mem_filter (fun k => negb (K k)) p l) by (simpl; rewrite KK; reflexivity) ];
              destruct (p_mem p l) eqn:PM end;
            [ split; [reflexivity|]; split;
              first [ rewrite filter_remove_in by (simpl; rewrite ?KK; reflexivity); reflexivity
                    | rewrite filter_remove_out by (simpl; rewrite ?KK; reflexivity); reflexivity ]
            | simpl; rewrite ?andb_false_r; reflexivity ]).
  all: try reflexivity.
Qed.

Lemma monr_split u :
  match monr step16 [] u with
  | Some live => forallb flag16 u = true /\ monr (step16k K) [] u = Some (fK K live) /\ monr (step16k nK) [] u = Some (fK nK live)
  | None => forallb flag16 u && is_some (monr (step16k K) [] u) && is_some (monr (step16k nK) [] u) = false
  end.
Proof.
  induction u as [|e u IH]; simpl; [auto|].
  destruct (monr step16 [] u) as [live|].
  - destruct IH as (F & A & B). rewrite F, A, B. pose proof (step16_split live e) as G.
    destruct (step16 live e) as [live'|]; [destruct G as (G1 & G2 & G3); rewrite G1; auto | rewrite andb_true_r; exact G].
  - destruct (forallb flag16 u); [|rewrite andb_false_r; reflexivity].
    destruct (monr (step16k K) [] u) as [a|]; [|rewrite andb_false_r; reflexivity].
    destruct (monr (step16k nK) [] u) as [b|]; [discriminate IH|]. simpl. rewrite !andb_false_r. reflexivity.
Qed.

Lemma forallb_rev {X} (f : X -> bool) l : forallb f (rev l) = forallb f l.
Proof. induction l; simpl; auto. rewrite forallb_app, IHl. simpl. rewrite andb_true_r, andb_comm. reflexivity. Qed.

Theorem C16_split t : C16_ok t = C16_flags_ok t && C16_once_ok K t && C16_once_ok nK t.
Proof.
  rewrite <- (rev_involutive t). unfold C16_ok, C16_once_ok, C16_flags_ok. rewrite !fold_mon_rev, forallb_rev.
  pose proof (monr_split (rev t)) as G. destruct (monr step16 [] (rev t)) as [live|].
  - destruct G as (F & A & B). rewrite F, A, B. reflexivity.
  - destruct (forallb flag16 (rev t)); [|reflexivity].
    destruct (monr (step16k K) [] (rev t)); [|reflexivity]. destruct (monr (step16k nK) [] (rev t)); [discriminate G | reflexivity].
Qed.
End Split.

(* not vacuous: the restricted monitor rejects a closure run twice, run before it exists, a Ret invoked twice *)
Example C16_once_rejects :
  C16_once_ok K16_lin [EClo 1 0; ERun 1 0 QMain] = true /\
  C16_once_ok K16_lin [EClo 1 0; ERun 1 0 QMain; EDrop 1 None false] = false /\
  C16_once_ok K16_lin [ERun 1 0 QMain; EClo 1 0] = false /\
  C16_once_ok K16_lin [ERetNew 7; ERet 7 None; ERet 7 (Some 3%N)] = false /\
  C16_once_ok K16_lin [EActor 2; EReady 2; EValDrop 2; ENotify 2 None] = true /\
  C16_once_ok K16_lin [EActor 2; ENotify 2 None; ENotify 2 None] = false.
Proof. vm_compute. repeat split. Qed.
