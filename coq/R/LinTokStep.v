(** Layer R proofs: the TOKEN census, part 3: the law of every micro-op. *)
From Coq Require Import ZArith NArith List Bool Lia.
From Stk Require Import Lib.U Gen.SrcCount Gen.SrcCore Gen.SrcLog R.Syntax R.Rt R.Shape R.Count R.Lin R.LinTok R.LinTokLaw.
Import ListNotations.
Local Open Scope Z_scope.

Arguments submit : simpl never.
Arguments push_main : simpl never.
Arguments timer_add : simpl never.
Arguments emit : simpl never.
Arguments upd_actor : simpl never.
Arguments ref_clone : simpl never.
Arguments new_actor : simpl never.
Arguments log_rec : simpl never.
Arguments tok_script : simpl never.
Arguments target_ev : simpl never.
Arguments push_frame : simpl never.

Definition newtokm (t : N) (m : mop) : Z := match m with MActs (a :: _) => newtok t a | _ => 0 end.

Lemma hslabT t l : hslab (HT t) l = 0.
Proof. induction l as [|[c|n] l IH]; simpl; auto. Qed.

Ltac gen_T t := intros Q; inj_T Q; law_T (HT t); rewrite ?hslabT in *; try lia.

Lemma H_class_flags_T t s : H (HT t) (class_flags s) = H (HT t) s.
Proof.
  unfold class_flags. generalize (class_flag (actors s)). intros f. generalize (actors s) as l. intros l. revert s.
  induction l as [|p l IH]; simpl; intros s; auto. rewrite IH. unfold emit_opt. destruct (f p); reflexivity.
Qed.

Lemma handle_T m s pre s' t : handle m s = (pre, s') -> hmops (HT t) pre + H (HT t) s' <= hmop (HT t) m + H (HT t) s + newtokm t m.
Proof.
  destruct m; cbn [handle hmop newtokm]; rewrite ?hindT_O, ?hindT_R, ?hindT_F.
  - unfold do_top. destruct o; repeat dest_match; gen_T t.
  - destruct l as [|a l]; [gen_T t|]. destruct (do_act a s) as [p s1] eqn:E. intros Q; inj_T Q.
    pose proof (do_act_T _ _ _ _ t E). rewrite hmops_app. cbn [hmops hmop]. lia.
  - destruct (frames s) as [|fr rest] eqn:FR; gen_T t.
  - destruct (frames s) as [|fr rest] eqn:FR; [gen_T t|]. intros Q; inj_T Q.
    rewrite H_set_frames, H_emit, hmops_app, hmops_drops. change (frames (emit s (EEnd uid))) with (frames s). rewrite FR. cbn [hfrs].
    assert (T0 : hmops (HT t) (match f with
       | FNone => []
       | FMeth a => match f_die fr with Some c => [MTerminate a c] | None => [] end
       | FPrep a ready => match f_die fr with
                          | Some c => if ready then [MOrphNew a; MTerminate a c; MOrphDrop a] else [MTerminate a c]
                          | None => if ready then [MToReady a] else [] end end) = 0).
    { destruct f; [|destruct (f_die fr)|destruct (f_die fr); destruct ready]; reflexivity. }
    rewrite T0. lia.
  - unfold run_item. destruct c as [u i kd caps q]. rewrite hci_eq. destruct kd; repeat dest_match; gen_T t.
  - unfold drop_item. destruct c as [u i kd caps q]. rewrite hci_eq. destruct kd; gen_T t.
  - intros Q; inj_T Q. rewrite H_emit, hmops_drops, hcc_caps. lia.
  - unfold drop_val. destruct v; repeat dest_match; gen_T t.
  - unfold drop_own. destruct logged; repeat dest_match; gen_T t.
  - unfold drop_ref. destruct (aget (actors s) a) as [y|] eqn:A; [|gen_T t]. destruct (a_freed y); [gen_T t|].
    destruct (minrc_drop (a_rc y)) as [[v z]|]; [|gen_T t]. destruct z; [|gen_T t].
    destruct (state_drops a (a_state y) _) as [dl s2] eqn:SD. destruct (state_drops_h (HT t) _ _ _ _ _ SD) as [-> DH].
    intros Q; inj_T Q. rewrite H_emit, (H_upd_some (HT t) s a _ _ A), !cactT, hmops_app, DH.
    assert (HN : hmops (HT t) (match a_notify y with Some nt => [MRetInvoke nt None] | None => [] end) = hnotopt (HT t) (a_notify y)).
    { destruct (a_notify y); cbn [hmops hmop hnotopt]; lia. }
    rewrite HN. unfold hactor at 1. cbn [hactor a_state a_notify hstate hnotopt]. unfold hactor. cbn [a_state a_notify hstate hnotopt]. lia.
  - unfold ret_invoke. destruct r as [rid k]. rewrite hret_eq. destruct k; repeat dest_match; gen_T t.
  - gen_T t.
  - gen_T t.
  - gen_T t.
  - gen_T t.
  - unfold terminate. destruct (aget (actors s) a) as [y|] eqn:A; [|gen_T t].
    set (s0 := if a_freed y then emit s (EModel M_UAF a) else s).
    assert (A0 : aget (actors s0) a = Some y) by (unfold s0; destruct (a_freed y); exact A).
    assert (H0 : H (HT t) s0 = H (HT t) s) by (unfold s0; destruct (a_freed y); reflexivity).
    destruct (state_drops a (a_state y) _) as [dl s1] eqn:SD. destruct (state_drops_h (HT t) _ _ _ _ _ SD) as [-> DH].
    destruct (a_notify y) as [nt|] eqn:NT; intros Q; inj_T Q; rewrite (H_upd_some (HT t) s0 a _ _ A0), H0, !cactT, ?hmops_app, DH;
      unfold hactor; cbn [a_state a_notify hstate hnotopt hmops hmop]; rewrite NT; cbn [hnotopt]; lia.
  - destruct (aget (actors s) a); gen_T t.
  - destruct (aget (actors s) a) as [y|] eqn:A; [destruct (a_state y) as [held|sh slab nx|] eqn:SA|]; try (gen_T t; fail).
    intros Q; inj_T Q. rewrite H_emit, (H_upd_some (HT t) s a _ _ A), !cactT, hmops_runitems, (hactor_unf (HT t) y _ SA).
    unfold hactor. cbn [a_state a_notify hstate hnotopt henv hslab]. lia.
  - unfold fresh_stakker. intros Q; inj_T Q. law_T (HT t). change (mainq (emit s (ENew t0))) with (mainq s).
    destruct (dk s); rewrite ?hmops_dropitems; cbn [hmops hq map]; nn_T; lia.
  - destruct idle; [destruct (idleq s) as [|c0 r0] eqn:IQ|]; gen_T t.
  - destruct (t0 >? now (set_mainq s [])).
    + destruct (fire t0 (set_now (set_mainq s []) t0)) as [fired s2] eqn:FI. intros Q; inj_T Q.
      pose proof (H_fire (HT t) _ _ _ _ FI) as HF. law_T (HT t). rewrite ?hmops_runitems, ?hq_app. cbn [hq] in *. nn_T. lia.
    + intros Q; inj_T Q. law_T (HT t). rewrite ?hmops_runitems. cbn [hq]. nn_T. lia.
  - destruct (mainq s) as [|c0 r0] eqn:MQ; [destruct (lazyq s) as [|c1 r1] eqn:LQ|].
    + destruct (t0 >? recreate s); gen_T t.
    + intros Q; inj_T Q. law_T (HT t). rewrite ?hmops_app, ?hmops_runitems. cbn [hq hmops hmop]. rewrite ?hmops_runitems. qrwT. nn_T. lia.
    + intros Q; inj_T Q. law_T (HT t). rewrite ?hmops_app, ?hmops_runitems. cbn [hq hmops hmop]. rewrite ?hmops_runitems. qrwT. nn_T. lia.
  - destruct (i >=? TEARDOWN_ROUNDS).
    + destruct (is_nil (mainq s)); gen_T t.
    + destruct (mainq s) as [|c0 r0] eqn:MQ; [gen_T t|]. intros Q; inj_T Q. law_T (HT t).
      rewrite ?hmops_app, ?hmops_dropitems. cbn [hq hmops hmop]. rewrite ?hmops_dropitems. qrwT. nn_T. lia.
  - cbv zeta. intros Q; inj_T Q.
    assert (G : forall s0, H (HT t) s0 = H (HT t) s -> lazyq s0 = lazyq s -> idleq s0 = idleq s -> timers s0 = timers s ->
       hmops (HT t) (map MDropItem (lazyq s0 ++ idleq s0 ++ map ti_ci (ti_sort (timers s0))) ++ [MDropEnd]) +
       H (HT t) (emit (set_tvars (set_timers (set_idleq (set_lazyq s0 []) []) []) []) EDropFields) <= 0 + H (HT t) s + 0).
    { intros s0 E1 E3 E4 E5. rewrite H_emit, H_set_tvars, H_set_timers, H_set_idleq, H_set_lazyq, hmops_app, hmops_dropitems, !hq_app, hq_map_ti, htim_sort.
      change (idleq (set_lazyq s0 [])) with (idleq s0). change (timers (set_idleq (set_lazyq s0 []) [])) with (timers s0).
      rewrite E1, E3, E4, E5. cbn [hq htim hmops hmop]. lia. }
    destruct (ambiguous (timers s)); apply G; reflexivity.
  - destruct (is_nil (mainq s)); gen_T t.
  - destruct (amin (env s)) as [[h v]|] eqn:AM; [|gen_T t]. intros Q; inj_T Q. law_T (HT t).
    pose proof (henv_aget (HT t) _ _ _ (amin_aget _ _ _ AM)). lia.
  - gen_T t.
  - intros Q; inj_T Q. change (H (HT t) (set_tr ?x ?v)) with (H (HT t) x). rewrite H_class_flags_T. cbn [hmops]. lia.
Qed.
