(** Layer R proofs: C06, plain-closure conjunct (run() reaches quiescence; lazy after main; idle on request).

    [C06_plain_proved]: for every program, fuel and deferrer kind, [C06_plain_ok] holds of the trace of a
    terminated execution of the model: the main, lazy and idle queues are FIFO lists, main and lazy are empty
    whenever [run] returns, a lazy item starts only with the main queue empty or inside a lazy batch that made the
    pending work, the idle item runs only on request, first and alone, and [run]'s result says whether idle items
    remain. *)
From Coq Require Import ZArith NArith List Bool Lia.
From Stk Require Import Lib.U Gen.SrcCount Gen.SrcCore Gen.SrcLog R.Syntax R.Rt R.Mon R.Shape R.Eff R.Tags R.Drops R.Mono R.C15Proofs R.C01Proofs.
Import ListNotations.
Local Open Scope Z_scope.

(* ------------------------------------------------------------------ *)
(** * Views of the lazy and idle queues *)

Definition qk_eq (a b : qk) : bool :=
  match a, b with QMain, QMain | QLazy, QLazy | QIdle, QIdle | QTimer, QTimer => true | _, _ => false end.

Definition ptag (q : qk) (c : citem) : bool :=
  negb (ci_call c) && match ci_sq c with Some q' => qk_eq q q' | None => false end.
Definition t_item (q : qk) (c : citem) : list N := if ptag q c then [ci_uid c] else [].
Definition t_mop (q : qk) (mo : mop) : list N :=
  match mo with MRunItem c | MDropItem c => t_item q c | _ => [] end.
Definition tuids (q : qk) (w : list mop) : list N := flat_map (t_mop q) w.
Definition tquids (q : qk) (l : list citem) : list N := flat_map (t_item q) l.

Lemma tuids_app q a b : tuids q (a ++ b) = tuids q a ++ tuids q b.
Proof. apply flat_map_app. Qed.
Lemma tquids_app q a b : tquids q (a ++ b) = tquids q a ++ tquids q b.
Proof. apply flat_map_app. Qed.
Lemma tuids_runitems q l : tuids q (map MRunItem l) = tquids q l.
Proof. induction l; simpl; auto. rewrite IHl. reflexivity. Qed.
Lemma tuids_dropitems q l : tuids q (map MDropItem l) = tquids q l.
Proof. induction l; simpl; auto. rewrite IHl. reflexivity. Qed.

Lemma tquids_tagged_same q l : Forall (tagged q) l -> tquids q l = map ci_uid l.
Proof.
  intros F. induction F; simpl; auto. rewrite IHF. destruct H as [A B]. unfold t_item, ptag. rewrite A, B.
  destruct q; reflexivity.
Qed.

Lemma tquids_tagged_other q q' l : q <> q' -> Forall (tagged q') l -> tquids q l = [].
Proof.
  intros N F. induction F; simpl; auto. rewrite IHF, app_nil_r. destruct H as [A B]. unfold t_item, ptag. rewrite A, B.
  destruct q, q'; try congruence; reflexivity.
Qed.

Lemma tquids_calls q l : Forall is_callb l -> tquids q l = [].
Proof. intros F. induction F; simpl; auto. rewrite IHF, app_nil_r. unfold t_item, ptag. unfold is_callb in H. rewrite H. reflexivity. Qed.

Lemma tquids_main_ok q l : q <> QMain -> Forall main_ok l -> tquids q l = [].
Proof.
  intros N F. induction F; simpl; auto. rewrite IHF, app_nil_r. unfold t_item, ptag.
  destruct (ci_call x) eqn:C; simpl; auto. rewrite (H C). destruct q; try congruence; reflexivity.
Qed.

Lemma t_mop_ok q mo : okdrop mo -> runish mo = false -> t_mop q mo = [].
Proof.
  destruct mo; simpl; auto; try discriminate. unfold t_item, ptag. intros [H|H] _; rewrite H; simpl; auto.
  rewrite andb_false_r. reflexivity.
Qed.

Lemma tuids_ok_quiet q l : Forall okdrop l -> existsb runish l = false -> tuids q l = [].
Proof.
  intros F. induction F; simpl; auto. intros R. apply orb_false_elim in R as [R1 R2]. rewrite t_mop_ok; auto.
Qed.

Lemma tuids_norun q l : Forall okdrop l -> (forall x, In x l -> match x with MRunItem _ => False | _ => True end) -> tuids q l = [].
Proof.
  intros F H. induction F; simpl; auto. rewrite IHF by (intros y Hy; apply H; right; auto). rewrite app_nil_r.
  specialize (H x (or_introl eq_refl)). destruct x; simpl; auto; try contradiction.
  simpl in H0. unfold t_item, ptag. destruct H0 as [G|G]; rewrite G; simpl; auto. rewrite andb_false_r. reflexivity.
Qed.

(* ------------------------------------------------------------------ *)
(** * The relation *)

Definition lazy_item (mo : mop) : Prop :=
  match mo with
  | MRunItem c => tagged QLazy c
  | MEndBody _ f => f = FNone
  | MToReady _ => False
  | _ => True
  end.

Definition nolazy_item (mo : mop) : Prop :=
  match mo with MRunItem c => ptag QLazy c = false | _ => True end.

(* the work of the loop of Stakker::run: a main batch (no lazy closure among the items to run) or a lazy batch *)
Definition loop06 (m : s06) (w : list mop) : Prop :=
  Forall nolazy_item w \/
  (Forall lazy_item w /\
   (q_lazyon m = true \/ (q_main m = [] /\ exists l, w = map MRunItem l))).

Definition idle06 (m : s06) (w : list mop) : Prop :=
  (exists c, w = [MRunItem c] /\ tagged QIdle c /\ q_run m = Some true /\ q_first m = true) \/
  (exists u w1 w2, w = w1 ++ MEndBody u FNone :: w2 /\ quiet w1 /\ quiet w2) \/
  quiet w.

Definition R06 (m : s06) (k : list mop) (s : st) : Prop :=
  exists L, (dk s = DGlobal -> L = []) /\
  q_lazy m = tuids QLazy (work_of k) ++ tquids QLazy (lazyq s) /\
  q_idle m = tuids QIdle (work_of k) ++ tquids QIdle (idleq s) /\
  match phase_of k with
  | Some PTop => q_main m = quids (mainq s) /\ q_limbo m = wuids (work_of k) ++ L /\ q_tear m = false
  | Some (PRunIdle b _) =>
      q_main m = wuids (work_of k) ++ quids (mainq s) /\ q_limbo m = L /\ q_tear m = false /\
      work_of k = [] /\ q_run m = Some b /\ q_first m = true /\ q_lazyon m = false
  | Some (PRunMain _) =>
      q_main m = wuids (work_of k) ++ quids (mainq s) /\ q_limbo m = L /\ q_tear m = false /\ idle06 m (work_of k)
  | Some (PLoop _) =>
      q_main m = wuids (work_of k) ++ quids (mainq s) /\ q_limbo m = L /\ q_tear m = false /\ loop06 m (work_of k)
  | Some _ => q_main m = wuids (work_of k) ++ quids (mainq s) /\ q_limbo m = L /\ q_tear m = true
  | None => False
  end.

Definition I06 (k : list mop) (s : st) : Prop :=
  exists m, monr step06 i06 (tr s) = Some m /\ R06 m k s.

(* ------------------------------------------------------------------ *)
(** * Effects *)

Lemma step06_quiet m e : quiet_ev e = true -> step06 m e = Some m.
Proof.
  destruct e; simpl; try discriminate; auto.
  destruct call; try discriminate. intros _. destruct q as [[]|]; reflexivity.
Qed.

Lemma t_item_setq q c : ci_call c = false -> t_item q (ci_setq c q) = [ci_uid c].
Proof. destruct c as [u i k caps sq]. unfold t_item, ptag, ci_call. simpl. intros ->. destruct q; reflexivity. Qed.

Lemma t_item_setq_other q q' c : q <> q' -> t_item q (ci_setq c q') = [].
Proof. intros N. destruct c as [u i k caps sq]. unfold t_item, ptag. simpl. destruct (negb _); auto. destruct q, q'; try congruence; reflexivity. Qed.

Lemma t_item_call q c : ci_call c = true -> t_item q c = [].
Proof. unfold t_item, ptag. intros ->. reflexivity. Qed.

(* effects only append to the three queues, and the monitor's lists grow by the same closures *)
Lemma eff_mon06 s s1 m :
  eff s s1 -> monr step06 i06 (tr s) = Some m ->
  exists m1 lm ll li, monr step06 i06 (tr s1) = Some m1 /\
    mainq s1 = mainq s ++ lm /\ lazyq s1 = lazyq s ++ ll /\ idleq s1 = idleq s ++ li /\
    q_main m1 = q_main m ++ quids lm /\ q_lazy m1 = q_lazy m ++ tquids QLazy ll /\ q_idle m1 = q_idle m ++ tquids QIdle li /\
    q_limbo m1 = q_limbo m /\ q_tear m1 = q_tear m /\ q_run m1 = q_run m /\ q_first m1 = q_first m /\
    q_lazyon m1 = q_lazyon m /\ dk s1 = dk s.
Proof.
  intros E M. induction E.
  - exists m, [], [], []. rewrite !app_nil_r. repeat split; auto.
  - destruct (IHE M) as (m1 & lm & ll & li & A & B1 & B2 & B3 & C1 & C2 & C3 & D & F & G & H1 & H2 & K).
    exists m1, lm, ll, li. repeat split; auto. unfold emit; simpl. rewrite A. apply step06_quiet; auto.
  - destruct (IHE M) as (m1 & lm & ll & li & A & B1 & B2 & B3 & C1 & C2 & C3 & D & F & G & H1 & H2 & K).
    exists m1, lm, ll, li. repeat split; auto. unfold emit; simpl. rewrite A. reflexivity.
  - destruct (IHE M) as (m1 & lm & ll & li & A & B1 & B2 & B3 & C1 & C2 & C3 & D & F & G & H1 & H2 & K).
    exists m1, lm, ll, li. repeat split; auto. unfold emit; simpl. rewrite A. reflexivity.
  - (* submit of a plain closure *)
    destruct (IHE M) as (m1 & lm & ll & li & A & B1 & B2 & B3 & C1 & C2 & C3 & D & F & G & H1 & H2 & K).
    destruct q; try congruence.
    + exists (mk06 (q_main m1 ++ [ci_uid ci]) (q_limbo m1) (q_lazy m1) (q_idle m1) (q_run m1) (q_first m1) (q_lazyon m1) (q_tear m1)),
             (lm ++ [ci_setq ci QMain]), ll, li.
      unfold submit, push_main, emit; simpl. rewrite A, H. simpl. repeat split; auto.
      * rewrite B1, app_assoc. reflexivity.
      * rewrite C1, quids_app. simpl. rewrite pmain_setq, app_nil_r, app_assoc; auto.
    + exists (mk06 (q_main m1) (q_limbo m1) (q_lazy m1 ++ [ci_uid ci]) (q_idle m1) (q_run m1) (q_first m1) (q_lazyon m1) (q_tear m1)),
             lm, (ll ++ [ci_setq ci QLazy]), li.
      unfold submit, emit; simpl. rewrite A, H. simpl. repeat split; auto.
      * rewrite B2, app_assoc. reflexivity.
      * rewrite C2, tquids_app. simpl. rewrite t_item_setq, app_nil_r, app_assoc; auto.
    + exists (mk06 (q_main m1) (q_limbo m1) (q_lazy m1) (q_idle m1 ++ [ci_uid ci]) (q_run m1) (q_first m1) (q_lazyon m1) (q_tear m1)),
             lm, ll, (li ++ [ci_setq ci QIdle]).
      unfold submit, emit; simpl. rewrite A, H. simpl. repeat split; auto.
      * rewrite B3, app_assoc. reflexivity.
      * rewrite C3, tquids_app. simpl. rewrite t_item_setq, app_nil_r, app_assoc; auto.
  - (* submit of a call *)
    destruct (IHE M) as (m1 & lm & ll & li & A & B1 & B2 & B3 & C1 & C2 & C3 & D & F & G & H1 & H2 & K).
    exists m1, (lm ++ [ci_setq ci QMain]), ll, li. unfold submit, push_main, emit; simpl. rewrite A, H. simpl. repeat split; auto.
    + rewrite B1, app_assoc. reflexivity.
    + rewrite C1, quids_app. simpl. rewrite call_uids, !app_nil_r; auto. rewrite call_setq; auto.
  - destruct (IHE M) as (m1 & lm & ll & li & A & B1 & B2 & B3 & C1 & C2 & C3 & D & F & G & H1 & H2 & K).
    exists m1, (lm ++ [ci]), ll, li. unfold push_main; simpl. repeat split; auto.
    + rewrite B1, app_assoc. reflexivity.
    + rewrite C1, quids_app. simpl. rewrite call_uids, !app_nil_r; auto.
  - destruct (IHE M) as (m1 & lm & ll & li & A & B1 & B2 & B3 & C1 & C2 & C3 & D & F & G & H1 & H2 & K).
    exists m1, lm, ll, li. unfold timer_add, emit; simpl. rewrite A. repeat split; auto.
  - destruct (IHE M) as (m1 & lm & ll & li & A & B1 & B2 & B3 & C1 & C2 & C3 & D & F & G & H1 & H2 & K). exists m1, lm, ll, li. repeat split; auto.
  - destruct (IHE M) as (m1 & lm & ll & li & A & B1 & B2 & B3 & C1 & C2 & C3 & D & F & G & H1 & H2 & K). exists m1, lm, ll, li. repeat split; auto.
  - destruct (IHE M) as (m1 & lm & ll & li & A & B1 & B2 & B3 & C1 & C2 & C3 & D & F & G & H1 & H2 & K). exists m1, lm, ll, li. repeat split; auto.
  - destruct (IHE M) as (m1 & lm & ll & li & A & B1 & B2 & B3 & C1 & C2 & C3 & D & F & G & H1 & H2 & K). exists m1, lm, ll, li. repeat split; auto.
  - destruct (IHE M) as (m1 & lm & ll & li & A & B1 & B2 & B3 & C1 & C2 & C3 & D & F & G & H1 & H2 & K). exists m1, lm, ll, li. repeat split; auto.
  - destruct (IHE M) as (m1 & lm & ll & li & A & B1 & B2 & B3 & C1 & C2 & C3 & D & F & G & H1 & H2 & K). exists m1, lm, ll, li. repeat split; auto.
  - destruct (IHE M) as (m1 & lm & ll & li & A & B1 & B2 & B3 & C1 & C2 & C3 & D & F & G & H1 & H2 & K). exists m1, lm, ll, li. repeat split; auto.
  - destruct (IHE M) as (m1 & lm & ll & li & A & B1 & B2 & B3 & C1 & C2 & C3 & D & F & G & H1 & H2 & K). exists m1, lm, ll, li. repeat split; auto.
  - destruct (IHE M) as (m1 & lm & ll & li & A & B1 & B2 & B3 & C1 & C2 & C3 & D & F & G & H1 & H2 & K). exists m1, lm, ll, li. repeat split; auto.
  - destruct (IHE M) as (m1 & lm & ll & li & A & B1 & B2 & B3 & C1 & C2 & C3 & D & F & G & H1 & H2 & K). exists m1, lm, ll, li. repeat split; auto.
Qed.

(* ------------------------------------------------------------------ *)
(** * Quiet work *)

Lemma quiet_lazy_items l : quiet l -> Forall lazy_item l.
Proof.
  intros Q. apply Forall_forall. intros x Hx. pose proof (quiet_no_runish _ _ Q Hx) as R.
  destruct x; simpl; auto; discriminate.
Qed.

Lemma quiet_nolazy_items l : quiet l -> Forall nolazy_item l.
Proof.
  intros Q. apply Forall_forall. intros x Hx. pose proof (quiet_no_runish _ _ Q Hx) as R.
  destruct x; simpl; auto; discriminate.
Qed.

Lemma loop06_step m m' mo w pre :
  qmop mo = true -> quiet pre -> q_lazyon m' = q_lazyon m -> loop06 m (mo :: w) -> loop06 m' (pre ++ w).
Proof.
  intros Q P E [A|[A B]].
  - left. inversion A; subst. apply Forall_app; split; auto. apply quiet_nolazy_items; auto.
  - right. inversion A; subst. split. apply Forall_app; split; auto. apply quiet_lazy_items; auto.
    destruct B as [B|[_ [l B]]]; [left; congruence|].
    exfalso. destruct l; simpl in B; inversion B; subst. apply andb_prop in Q as [_ Q]. simpl in Q. discriminate.
Qed.

Lemma idle06_step m m' mo w pre :
  qmop mo = true -> quiet pre -> idle06 m (mo :: w) -> idle06 m' (pre ++ w).
Proof.
  intros Q P H. apply andb_prop in Q as [Q1 Q2]. apply negb_true_iff in Q2.
  destruct H as [(c & E & _)|[(u & w1 & w2 & E & A & B)|A]].
  - inversion E; subst. simpl in Q2. discriminate.
  - right; left. destruct w1 as [|x w1]; simpl in E; inversion E; subst.
    + simpl in Q2. discriminate.
    + exists u, (pre ++ w1), w2. rewrite app_assoc. split; [reflexivity|]. split; auto.
      apply quiet_app; auto. apply quiet_inv in A as [_ [_ X]]. exact X.
  - right; right. apply quiet_app; auto. apply quiet_inv in A as [_ [_ X]]. exact X.
Qed.

(* how the relation moves when the head micro-op (contributing nothing to the views) is replaced by quiet work
   and the queues / lists grow together *)
Lemma R06_eff m mo k0 s pre s1 m1 lm ll li :
  qmop mo = true -> quiet pre -> Forall okdrop pre ->
  mop_uids mo = [] -> t_mop QLazy mo = [] -> t_mop QIdle mo = [] ->
  R06 m (mo :: k0) s ->
  mainq s1 = mainq s ++ lm -> lazyq s1 = lazyq s ++ ll -> idleq s1 = idleq s ++ li ->
  q_main m1 = q_main m ++ quids lm -> q_lazy m1 = q_lazy m ++ tquids QLazy ll -> q_idle m1 = q_idle m ++ tquids QIdle li ->
  q_limbo m1 = q_limbo m -> q_tear m1 = q_tear m -> q_run m1 = q_run m -> q_first m1 = q_first m ->
  q_lazyon m1 = q_lazyon m -> dk s1 = dk s ->
  R06 m1 (pre ++ k0) s1.
Proof.
  intros Q QP OK MU ML MI (L & LD & RL & RI & R) B1 B2 B3 C1 C2 C3 D F G H1 H2 K.
  pose proof Q as Q'. apply andb_prop in Q' as [W _].
  destruct QP as [PW NR].
  destruct (work_step_phase mo k0 pre W PW) as [X [Y Z]].
  assert (WU : wuids pre = []) by (apply wuids_ok_quiet; auto).
  assert (TL : tuids QLazy pre = []) by (apply tuids_ok_quiet; auto).
  assert (TI : tuids QIdle pre = []) by (apply tuids_ok_quiet; auto).
  exists L. split. rewrite K; auto.
  rewrite X, Z. rewrite Y in RL, RI, R.
  rewrite B1, B2, B3, C1, C2, C3, D, F, quids_app, !tquids_app, wuids_app, !tuids_app, WU, TL, TI. simpl.
  simpl in RL, RI, R. rewrite ML in RL. rewrite MI in RI. rewrite MU in R. simpl in RL, RI, R.
  split. rewrite RL, app_assoc. reflexivity.
  split. rewrite RI, app_assoc. reflexivity.
  destruct (phase_of (mo :: k0)) as [[]|] eqn:PH; auto.
  - destruct R as (R1 & R2 & R3). rewrite R1. auto.
  - destruct R as (R1 & R2 & R3 & R4 & _). discriminate R4.
  - destruct R as (R1 & R2 & R3 & R4). rewrite R1, app_assoc. repeat split; auto.
    eapply idle06_step; eauto. split; auto.
  - destruct R as (R1 & R2 & R3 & R4). rewrite R1, app_assoc. repeat split; auto.
    eapply loop06_step; eauto. split; auto.
  - destruct R as (R1 & R2 & R3). rewrite R1, app_assoc. auto.
  - destruct R as (R1 & R2 & R3). rewrite R1, app_assoc. auto.
  - destruct R as (R1 & R2 & R3). rewrite R1, app_assoc. auto.
Qed.

Lemma loop06_drop m m' c w pre :
  quiet pre -> q_lazyon m' = q_lazyon m -> loop06 m (MDropItem c :: w) -> loop06 m' (pre ++ w).
Proof. intros. eapply (loop06_step m m' (MDropItem c)); eauto. Qed.

Lemma idle06_drop m m' c w pre : quiet pre -> idle06 m (MDropItem c :: w) -> idle06 m' (pre ++ w).
Proof. intros. eapply (idle06_step m m' (MDropItem c)); eauto. Qed.

Lemma I06_qmop mo k0 s pre s' :
  shape (mo :: k0) -> Tags (mo :: k0) s -> drop_tags (mo :: k0) ->
  qmop mo = true -> handle mo s = (pre, s') -> I06 (mo :: k0) s -> I06 (pre ++ k0) s'.
Proof.
  intros SH T DT Q E (m & MM & R).
  destruct (handle_qmop _ _ _ _ Q E) as [QP HC].
  pose proof Q as Q'. apply andb_prop in Q' as [W NR]. apply negb_true_iff in NR.
  apply Tags_split in T as [QT _].
  pose proof (handle_ok _ _ _ _ W QT E) as OK.
  assert (CASE : (exists c, mo = MDropItem c /\ ci_call c = false) \/
                 (mop_uids mo = [] /\ t_mop QLazy mo = [] /\ t_mop QIdle mo = [] /\ forall c, mo = MDropItem c -> ci_call c = true)).
  { destruct mo; simpl; auto; try discriminate NR;
      try (right; repeat split; try reflexivity; intros c0 E0; discriminate E0).
    destruct (ci_call c) eqn:CC; [right | left; eauto].
    repeat split; [apply call_uids; auto | apply t_item_call; auto | apply t_item_call; auto | intros c0 E0; inversion E0; subst; auto]. }
  destruct CASE as [(c & -> & CC)|(MU & ML & MI & NP)].
  - (* a plain closure dropped un-run: the head of the list of the queue it sits in *)
    destruct (plain_kind _ CC) as [b KB]. destruct c as [u i kd caps q]. simpl in KB. subst kd. simpl in E. inversion E; subst. clear E.
    destruct QP as [PW NRP].
    destruct (work_step_phase (MDropItem (CI u i (KPlain b) caps q)) k0 (drops caps) W PW) as [X [Y Z]].
    assert (WU : wuids (drops caps) = []) by (apply wuids_ok_quiet; auto).
    assert (TL : tuids QLazy (drops caps) = []) by (apply tuids_ok_quiet; auto).
    assert (TI : tuids QIdle (drops caps) = []) by (apply tuids_ok_quiet; auto).
    assert (QD : quiet (drops caps)) by (split; auto).
    destruct R as (L & LD & RL & RI & R). rewrite Y in RL, RI, R. unfold drop_tags in DT. rewrite Y in DT.
    unfold I06, R06. rewrite X, Z. simpl tr. simpl monr. rewrite MM.
    rewrite wuids_app, !tuids_app, WU, TL, TI. simpl app.
    simpl in RL, RI, R.
    destruct q as [[]|].
    + (* main queue *)
      change (t_item QLazy (CI u i (KPlain b) caps (Some QMain))) with (@nil N) in RL.
      change (t_item QIdle (CI u i (KPlain b) caps (Some QMain))) with (@nil N) in RI.
      change (item_uids (CI u i (KPlain b) caps (Some QMain))) with [u] in R. simpl in RL, RI, R.
      destruct (phase_of (MDropItem (CI u i (KPlain b) caps (Some QMain)) :: k0)) as [[]|] eqn:PH; try contradiction.
      * destruct R as (R1 & R2 & R3). simpl. rewrite R3, R2. simpl. rewrite N.eqb_refl.
        eexists. split; [reflexivity|]. exists L. simpl. repeat split; auto.
      * exfalso. inversion DT as [|? ? D1 D2]; subst. simpl in D1. destruct D1; discriminate.
      * exfalso. inversion DT as [|? ? D1 D2]; subst. simpl in D1. destruct D1; discriminate.
      * exfalso. inversion DT as [|? ? D1 D2]; subst. simpl in D1. destruct D1; discriminate.
      * destruct R as (R1 & R2 & R3). simpl. rewrite R3, R1. simpl. rewrite N.eqb_refl.
        eexists. split; [reflexivity|]. exists L. simpl. repeat split; auto.
      * destruct R as (R1 & R2 & R3). simpl. rewrite R3, R1. simpl. rewrite N.eqb_refl.
        eexists. split; [reflexivity|]. exists L. simpl. repeat split; auto.
      * destruct R as (R1 & R2 & R3). simpl. rewrite R3, R1. simpl. rewrite N.eqb_refl.
        eexists. split; [reflexivity|]. exists L. simpl. repeat split; auto.
    + (* lazy queue *)
      change (t_item QLazy (CI u i (KPlain b) caps (Some QLazy))) with [u] in RL.
      change (t_item QIdle (CI u i (KPlain b) caps (Some QLazy))) with (@nil N) in RI.
      change (item_uids (CI u i (KPlain b) caps (Some QLazy))) with (@nil N) in R. simpl in RL, RI, R.
      simpl. rewrite RL. simpl. rewrite N.eqb_refl.
      eexists. split; [reflexivity|]. exists L. simpl. split; auto. split; auto. split; auto.
      destruct (phase_of (MDropItem (CI u i (KPlain b) caps (Some QLazy)) :: k0)) as [[]|] eqn:PH; auto.
      * destruct R as (R1 & R2 & R3 & R4 & _). discriminate R4.
      * destruct R as (R1 & R2 & R3 & R4). repeat split; auto. eapply idle06_drop; eauto.
      * destruct R as (R1 & R2 & R3 & R4). repeat split; auto. eapply loop06_drop; eauto.
    + (* idle queue *)
      change (t_item QLazy (CI u i (KPlain b) caps (Some QIdle))) with (@nil N) in RL.
      change (t_item QIdle (CI u i (KPlain b) caps (Some QIdle))) with [u] in RI.
      change (item_uids (CI u i (KPlain b) caps (Some QIdle))) with (@nil N) in R. simpl in RL, RI, R.
      simpl. rewrite RI. simpl. rewrite N.eqb_refl.
      eexists. split; [reflexivity|]. exists L. simpl. split; auto. split; auto. split; auto.
      destruct (phase_of (MDropItem (CI u i (KPlain b) caps (Some QIdle)) :: k0)) as [[]|] eqn:PH; auto.
      * destruct R as (R1 & R2 & R3 & R4 & _). discriminate R4.
      * destruct R as (R1 & R2 & R3 & R4). repeat split; auto. eapply idle06_drop; eauto.
      * destruct R as (R1 & R2 & R3 & R4). repeat split; auto. eapply loop06_drop; eauto.
    + (* timer *)
      change (t_item QLazy (CI u i (KPlain b) caps (Some QTimer))) with (@nil N) in RL.
      change (t_item QIdle (CI u i (KPlain b) caps (Some QTimer))) with (@nil N) in RI.
      change (item_uids (CI u i (KPlain b) caps (Some QTimer))) with (@nil N) in R. simpl in RL, RI, R.
      exists m. split; [reflexivity|]. exists L. split; auto. split; auto. split; auto.
      destruct (phase_of (MDropItem (CI u i (KPlain b) caps (Some QTimer)) :: k0)) as [[]|] eqn:PH; auto.
      * destruct R as (R1 & R2 & R3 & R4 & _). discriminate R4.
      * destruct R as (R1 & R2 & R3 & R4). repeat split; auto. eapply idle06_drop; eauto.
      * destruct R as (R1 & R2 & R3 & R4). repeat split; auto. eapply loop06_drop; eauto.
    + (* no queue *)
      change (t_item QLazy (CI u i (KPlain b) caps None)) with (@nil N) in RL.
      change (t_item QIdle (CI u i (KPlain b) caps None)) with (@nil N) in RI.
      change (item_uids (CI u i (KPlain b) caps None)) with (@nil N) in R. simpl in RL, RI, R.
      exists m. split; [reflexivity|]. exists L. split; auto. split; auto. split; auto.
      destruct (phase_of (MDropItem (CI u i (KPlain b) caps None) :: k0)) as [[]|] eqn:PH; auto.
      * destruct R as (R1 & R2 & R3 & R4 & _). discriminate R4.
      * destruct R as (R1 & R2 & R3 & R4). repeat split; auto. eapply idle06_drop; eauto.
      * destruct R as (R1 & R2 & R3 & R4). repeat split; auto. eapply loop06_drop; eauto.
  - (* effects, possibly with a pushed frame, or a frame pop *)
    assert (G : exists m1 lm ll li, monr step06 i06 (tr s') = Some m1 /\
      mainq s' = mainq s ++ lm /\ lazyq s' = lazyq s ++ ll /\ idleq s' = idleq s ++ li /\
      q_main m1 = q_main m ++ quids lm /\ q_lazy m1 = q_lazy m ++ tquids QLazy ll /\ q_idle m1 = q_idle m ++ tquids QIdle li /\
      q_limbo m1 = q_limbo m /\ q_tear m1 = q_tear m /\ q_run m1 = q_run m /\ q_first m1 = q_first m /\
      q_lazyon m1 = q_lazyon m /\ dk s' = dk s).
    { destruct HC as [O|c1 M1 C1 P1 S1|fr rest M1 F1 P1 S1].
      - destruct O as [EF _|s1 loc EF X _].
        + eapply eff_mon06; eauto.
        + subst. destruct (eff_mon06 _ _ _ EF MM) as (m1 & lm & ll & li & A). exists m1, lm, ll, li. exact A.
      - subst. specialize (NP _ eq_refl). congruence.
      - subst. exists m, [], [], []. rewrite !app_nil_r. repeat split; auto. }
    destruct G as (m1 & lm & ll & li & A & B1 & B2 & B3 & C1 & C2 & C3 & D & F & G & H1 & H2 & K).
    exists m1. split; auto. eapply R06_eff; eauto.
Qed.

(* ------------------------------------------------------------------ *)
(** * Items run by Stakker::run *)

Lemma run_item_queues c s pre s' :
  run_item c s = (pre, s') -> mainq s' = mainq s /\ lazyq s' = lazyq s /\ idleq s' = idleq s /\ dk s' = dk s.
Proof.
  unfold run_item. destruct c as [u i kd caps q]. destruct kd; repeat dest_match; intros E; inversion E; subst; auto.
Qed.

Lemma norun_lazy l : (forall x, In x l -> match x with MRunItem _ => False | _ => True end) ->
  (forall x, In x l -> match x with MToReady _ => False | MEndBody _ f => f = FNone | _ => True end) -> Forall lazy_item l.
Proof.
  intros H G. apply Forall_forall. intros x Hx. specialize (H x Hx). specialize (G x Hx). destruct x; simpl; auto; contradiction.
Qed.

Lemma norun_nolazy l : (forall x, In x l -> match x with MRunItem _ => False | _ => True end) -> Forall nolazy_item l.
Proof. intros H. apply Forall_forall. intros x Hx. specialize (H x Hx). destruct x; simpl; auto; contradiction. Qed.

Lemma call_views c : ci_call c = true ->
  item_uids c = [] /\ t_item QLazy c = [] /\ t_item QIdle c = [] /\ ptag QLazy c = false.
Proof. intros H. repeat split. apply call_uids; auto. apply t_item_call; auto. apply t_item_call; auto. unfold ptag. rewrite H. reflexivity. Qed.

Lemma I06_runitem c k0 s pre s' :
  shape (MRunItem c :: k0) -> Tags (MRunItem c :: k0) s ->
  run_item c s = (pre, s') -> I06 (MRunItem c :: k0) s -> I06 (pre ++ k0) s'.
Proof.
  intros SH T E (m & MM & (L & LD & RL & RI & R)).
  assert (HW : handle (MRunItem c) s = (pre, s')) by exact E.
  destruct (handle_work (MRunItem c) _ _ _ eq_refl HW) as [PW _].
  destruct (work_step_phase (MRunItem c) k0 pre eq_refl PW) as [X [Y Z]].
  destruct (run_item_ev _ _ _ _ E) as (_ & _ & evs & TR & SE).
  destruct (run_item_queues _ _ _ _ E) as (MQ & LQ & IQ & DK).
  pose proof T as T'. apply Tags_split in T' as [QT WT].
  pose proof (handle_ok (MRunItem c) _ _ _ eq_refl QT HW) as OK.
  assert (NRI : forall x, In x pre -> match x with MRunItem _ => False | _ => True end) by (intros x Hx; eapply run_item_norun; eauto).
  assert (WU : wuids pre = []) by (apply wuids_norun; auto).
  assert (TL : tuids QLazy pre = []) by (apply tuids_norun; auto).
  assert (TI : tuids QIdle pre = []) by (apply tuids_norun; auto).
  unfold work_tags in WT. rewrite Y in WT, RL, RI, R.
  destruct SH as [p [PH RU]]. rewrite Y in RU. simpl in RU. specialize (RU eq_refl).
  unfold I06, R06. rewrite X, Z, MQ, LQ, IQ, DK, PH, wuids_app, !tuids_app, WU, TL, TI. simpl app.
  rewrite PH in *. simpl in RL, RI, R.
  destruct p; try discriminate RU.
  - destruct R as (_ & _ & _ & R4 & _). discriminate R4.
  - (* the idle item starts *)
    destruct R as (R1 & R2 & R3 & R4).
    destruct R4 as [(c0 & E0 & TC & IO & II)|[(u & w1 & w2 & E0 & A & B)|A]].
    + inversion E0; subst c0. rewrite H1 in *. clear E0 H1.
      destruct TC as [TC TQ]. destruct c as [u i kd caps q]. unfold ci_call in TC; simpl in TC, TQ.
      destruct kd; try discriminate TC. subst q. simpl in E. inversion E; subst pre s'. clear TR.
      change (t_item QIdle (CI u i (KPlain body) caps (Some QIdle))) with [u] in RI.
      change (t_item QLazy (CI u i (KPlain body) caps (Some QIdle))) with (@nil N) in RL.
      change (item_uids (CI u i (KPlain body) caps (Some QIdle))) with (@nil N) in R1. simpl in RL, RI, R1.
      simpl. rewrite MM. simpl. rewrite RI. simpl. rewrite N.eqb_refl, IO, II. simpl.
      eexists. split; [reflexivity|]. exists L. simpl. repeat split; auto.
      right; left. exists u, [MActs body], []. simpl. repeat split; auto; quiet_tac.
    + exfalso. destruct w1 as [|x w1]; simpl in E0; inversion E0; subst. apply quiet_inv in A as [_ [A _]]. discriminate.
    + exfalso. apply quiet_inv in A as [_ [A _]]. discriminate.
  - (* in the loop *)
    rewrite TR. destruct R as (R1 & R2 & R3 & R4). pose proof (Forall_inv WT) as LI.
    destruct SE; simpl; rewrite MM.
    + (* no event *)
      assert (IU : item_uids c = [] /\ t_item QLazy c = [] /\ t_item QIdle c = [] /\ ptag QLazy c = false).
      { clear - E TR. unfold run_item in E. destruct c as [u i kd caps q]. destruct kd; try (apply call_views; reflexivity).
        inversion E; subst. simpl in TR. exfalso. eapply cons_neq; eauto. }
      destruct IU as (U1 & U2 & U3 & U4). rewrite U1 in R1. rewrite U2 in RL. rewrite U3 in RI. simpl in R1, RL, RI.
      exists m. split; auto. exists L. repeat split; auto.
      destruct R4 as [A|[A B]].
      * left. apply Forall_app; split; [apply norun_nolazy; auto | exact (Forall_inv_tail A)].
      * exfalso. pose proof (Forall_inv A) as TC. destruct TC as [TC TQ]. unfold ptag in U4. rewrite TC, TQ in U4. discriminate.
    + assert (IU : item_uids c = [] /\ t_item QLazy c = [] /\ t_item QIdle c = [] /\ ptag QLazy c = false).
      { clear - E H TR. unfold run_item in E. destruct c as [u i kd caps q]. destruct kd; try (apply call_views; reflexivity).
        inversion E; subst. simpl in TR. inversion TR; subst. simpl in H. discriminate. }
      destruct IU as (U1 & U2 & U3 & U4). rewrite U1 in R1. rewrite U2 in RL. rewrite U3 in RI. simpl in R1, RL, RI.
      exists m. split. apply step06_quiet; auto. exists L. repeat split; auto.
      destruct R4 as [A|[A B]].
      * left. apply Forall_app; split; [apply norun_nolazy; auto | exact (Forall_inv_tail A)].
      * exfalso. pose proof (Forall_inv A) as TC. destruct TC as [TC TQ]. unfold ptag in U4. rewrite TC, TQ in U4. discriminate.
    + (* a plain closure starts: main / lazy / timer *)
      destruct (LI H) as [S|[S|S]]; rewrite S.
      * (* main *)
        assert (U1 : item_uids c = [ci_uid c]) by (unfold item_uids, pmain; rewrite H, S; reflexivity).
        assert (U2 : t_item QLazy c = []) by (unfold t_item, ptag; rewrite H, S; reflexivity).
        assert (U3 : t_item QIdle c = []) by (unfold t_item, ptag; rewrite H, S; reflexivity).
        rewrite U1 in R1. rewrite U2 in RL. rewrite U3 in RI. simpl in R1, RL, RI.
        simpl. rewrite R1. simpl. rewrite N.eqb_refl. eexists. split; [reflexivity|]. exists L. simpl. repeat split; auto.
        destruct R4 as [A|[A B]].
        -- left. apply Forall_app; split; [apply norun_nolazy; auto | exact (Forall_inv_tail A)].
        -- exfalso. pose proof (Forall_inv A) as TC. destruct TC as [_ TQ]. congruence.
      * (* lazy *)
        assert (U1 : item_uids c = []) by (unfold item_uids, pmain; rewrite H, S; reflexivity).
        assert (U2 : t_item QLazy c = [ci_uid c]) by (unfold t_item, ptag; rewrite H, S; reflexivity).
        assert (U3 : t_item QIdle c = []) by (unfold t_item, ptag; rewrite H, S; reflexivity).
        rewrite U1 in R1. rewrite U2 in RL. rewrite U3 in RI. simpl in R1, RL, RI.
        destruct R4 as [A|[A B]].
        -- exfalso. pose proof (Forall_inv A) as NL. simpl in NL. unfold ptag in NL. rewrite H, S in NL. discriminate.
        -- simpl. rewrite RL. simpl. rewrite N.eqb_refl.
           assert (G : (q_lazyon m || nil_b (q_main m)) = true).
           { destruct B as [B|[B _]]; [rewrite B; reflexivity | rewrite B; apply orb_true_r]. }
           unfold guard. rewrite G. eexists. split; [reflexivity|]. exists L. simpl. repeat split; auto.
           right. split; [|left; reflexivity]. apply Forall_app; split; [|exact (Forall_inv_tail A)].
           apply norun_lazy; auto. intros x Hx.
           clear - E Hx H. unfold run_item in E. destruct c as [u i kd caps q]. unfold ci_call in H. simpl in H. destruct kd; try discriminate H.
           inversion E; subst. simpl in Hx. destruct Hx as [<-|[<-|[]]]; simpl; auto.
      * (* timer *)
        assert (U1 : item_uids c = []) by (unfold item_uids, pmain; rewrite H, S; reflexivity).
        assert (U2 : t_item QLazy c = []) by (unfold t_item, ptag; rewrite H, S; reflexivity).
        assert (U3 : t_item QIdle c = []) by (unfold t_item, ptag; rewrite H, S; reflexivity).
        rewrite U1 in R1. rewrite U2 in RL. rewrite U3 in RI. simpl in R1, RL, RI.
        simpl. eexists. split; [reflexivity|]. exists L. simpl. repeat split; auto.
        destruct R4 as [A|[A B]].
        -- left. apply Forall_app; split; [apply norun_nolazy; auto | exact (Forall_inv_tail A)].
        -- exfalso. pose proof (Forall_inv A) as TC. destruct TC as [_ TQ]. congruence.
    + (* a method *)
      rewrite call_uids in R1 by auto. rewrite t_item_call in RL by auto. rewrite t_item_call in RI by auto. simpl in R1, RL, RI.
      simpl. eexists. split; [reflexivity|]. exists L. simpl. repeat split; auto.
      destruct R4 as [A|[A B]].
      * left. apply Forall_app; split; [apply norun_nolazy; auto | exact (Forall_inv_tail A)].
      * exfalso. pose proof (Forall_inv A) as TC. destruct TC as [TC _]. congruence.
    + rewrite call_uids in R1 by auto. rewrite t_item_call in RL by auto. rewrite t_item_call in RI by auto. simpl in R1, RL, RI.
      simpl. eexists. split; [reflexivity|]. exists L. simpl. repeat split; auto.
      destruct R4 as [A|[A B]].
      * left. apply Forall_app; split; [apply norun_nolazy; auto | exact (Forall_inv_tail A)].
      * exfalso. pose proof (Forall_inv A) as TC. destruct TC as [TC _]. congruence.
Qed.

Lemma endbody_queues u f s pre s' :
  handle (MEndBody u f) s = (pre, s') -> mainq s' = mainq s /\ lazyq s' = lazyq s /\ idleq s' = idleq s /\ dk s' = dk s.
Proof. simpl. destruct (frames s); intros E; inversion E; subst; auto. Qed.

Lemma endbody_lazy u s pre s' x :
  handle (MEndBody u FNone) s = (pre, s') -> In x pre -> match x with MToReady _ => False | MEndBody _ f => f = FNone | _ => True end.
Proof.
  intros E H. pose proof (endbody_none_quiet _ _ _ _ E) as Q. pose proof (quiet_no_runish _ _ Q H) as R.
  destruct x; simpl; auto; discriminate.
Qed.

Lemma I06_endbody u f k0 s pre s' :
  shape (MEndBody u f :: k0) -> Tags (MEndBody u f :: k0) s -> handle (MEndBody u f) s = (pre, s') ->
  I06 (MEndBody u f :: k0) s -> I06 (pre ++ k0) s'.
Proof.
  intros SH T E (m & MM & (L & LD & RL & RI & R)).
  destruct (handle_work (MEndBody u f) _ _ _ eq_refl E) as [PW _].
  destruct (work_step_phase (MEndBody u f) k0 pre eq_refl PW) as [X [Y Z]].
  destruct (endbody_ev _ _ _ _ _ E) as (_ & _ & TR).
  destruct (endbody_queues _ _ _ _ _ E) as (MQ & LQ & IQ & DK).
  apply Tags_split in T as [QT _].
  pose proof (handle_ok (MEndBody u f) _ _ _ eq_refl QT E) as OK.
  assert (NRI : forall x, In x pre -> match x with MRunItem _ => False | _ => True end) by (intros x Hx; eapply endbody_norun; eauto).
  assert (WU : wuids pre = []) by (apply wuids_norun; auto).
  assert (TL : tuids QLazy pre = []) by (apply tuids_norun; auto).
  assert (TI : tuids QIdle pre = []) by (apply tuids_norun; auto).
  rewrite Y in RL, RI, R.
  destruct SH as [p [PH RU]]. rewrite Y in RU. simpl in RU. specialize (RU eq_refl).
  assert (MS : monr step06 i06 (tr s') = Some m).
  { destruct TR as [TR|TR]; rewrite TR; simpl; rewrite MM; reflexivity. }
  exists m. split; auto. exists L. rewrite X, Z, MQ, LQ, IQ, DK, wuids_app, !tuids_app, WU, TL, TI. simpl app.
  rewrite PH in *. simpl in RL, RI, R. repeat split; auto.
  destruct p; try discriminate RU.
  - destruct R as (_ & _ & _ & R4 & _). discriminate R4.
  - destruct R as (R1 & R2 & R3 & R4). repeat split; auto.
    destruct R4 as [(c0 & E0 & _)|[(v & w1 & w2 & E0 & A & B)|A]].
    + inversion E0.
    + destruct w1 as [|x w1]; simpl in E0; inversion E0.
      * right; right. subst f. apply quiet_app; [eapply endbody_none_quiet; eauto | congruence].
      * exfalso. apply quiet_inv in A as [_ [A _]]. rewrite <- H0 in A. discriminate.
    + exfalso. apply quiet_inv in A as [_ [A _]]. discriminate.
  - destruct R as (R1 & R2 & R3 & R4). repeat split; auto.
    destruct R4 as [A|[A B]].
    + left. apply Forall_app; split; [apply norun_nolazy; auto | exact (Forall_inv_tail A)].
    + right. pose proof (Forall_inv A) as FN. simpl in FN. subst f. split.
      * apply Forall_app; split; [|exact (Forall_inv_tail A)]. apply norun_lazy; auto. intros x Hx. eapply endbody_lazy; eauto.
      * destruct B as [B|[_ [l B]]]; [left; auto|]. exfalso. destruct l; inversion B.
Qed.

Lemma I06_toready a k0 s pre s' :
  shape (MToReady a :: k0) -> Tags (MToReady a :: k0) s -> handle (MToReady a) s = (pre, s') ->
  I06 (MToReady a :: k0) s -> I06 (pre ++ k0) s'.
Proof.
  intros SH T E (m & MM & (L & LD & RL & RI & R)).
  destruct (handle_work (MToReady a) _ _ _ eq_refl E) as [PW _].
  destruct (work_step_phase (MToReady a) k0 pre eq_refl PW) as [X [Y Z]].
  apply Tags_split in T as [QT _].
  assert (EV : mainq s' = mainq s /\ lazyq s' = lazyq s /\ idleq s' = idleq s /\ dk s' = dk s /\
               (exists e, tr s' = e :: tr s /\ quiet_ev e = true) /\
               exists held, pre = map MRunItem held /\ Forall is_callb held).
  { simpl in E. destruct (aget (actors s) a) as [x|] eqn:AX; [destruct (a_state x) eqn:SX|]; inversion E; subst;
      repeat split; auto; try (eexists; split; reflexivity); try (exists []; split; [reflexivity|constructor]).
    exists held. split; auto. eapply held_calls; eauto. }
  destruct EV as (MQ & LQ & IQ & DK & (e & TR & QE) & held & PRE & HC).
  assert (WU : wuids pre = []) by (subst pre; rewrite wuids_runitems; apply quids_calls; auto).
  assert (TL : tuids QLazy pre = []) by (subst pre; rewrite tuids_runitems; apply tquids_calls; auto).
  assert (TI : tuids QIdle pre = []) by (subst pre; rewrite tuids_runitems; apply tquids_calls; auto).
  rewrite Y in RL, RI, R.
  destruct SH as [p [PH RU]]. rewrite Y in RU. simpl in RU. specialize (RU eq_refl).
  exists m. split. rewrite TR. simpl. rewrite MM. apply step06_quiet; auto.
  exists L. rewrite X, Z, MQ, LQ, IQ, DK, wuids_app, !tuids_app, WU, TL, TI. simpl app.
  rewrite PH in *. simpl in RL, RI, R. repeat split; auto.
  destruct p; try discriminate RU.
  - destruct R as (_ & _ & _ & R4 & _). discriminate R4.
  - destruct R as (R1 & R2 & R3 & R4). exfalso.
    destruct R4 as [(c0 & E0 & _)|[(v & w1 & w2 & E0 & A & B)|A]].
    + inversion E0.
    + destruct w1 as [|x w1]; simpl in E0; inversion E0; subst. apply quiet_inv in A as [_ [A _]]. discriminate.
    + apply quiet_inv in A as [_ [A _]]. discriminate.
  - destruct R as (R1 & R2 & R3 & R4). repeat split; auto.
    destruct R4 as [A|[A B]].
    + left. apply Forall_app; split; [|exact (Forall_inv_tail A)]. subst pre.
      clear - HC. induction HC; simpl; constructor; auto. simpl. unfold ptag. unfold is_callb in H. rewrite H. reflexivity.
    + exfalso. pose proof (Forall_inv A) as F. exact F.
Qed.

(* ------------------------------------------------------------------ *)
(** * Phase and top-level micro-ops *)

Lemma monr_ignored06 (P : ev -> Prop) m evs t :
  (forall e, P e -> step06 m e = Some m) -> Forall P evs ->
  monr step06 i06 t = Some m -> monr step06 i06 (evs ++ t) = Some m.
Proof. intros H F M. induction F; simpl; auto. rewrite IHF. auto. Qed.

Lemma nil_map {X Y} (f : X -> Y) l : is_nil (map f l) = is_nil l.
Proof. destruct l; reflexivity. Qed.

Lemma nolazy_of_main_ok l : Forall main_ok l -> Forall nolazy_item (map MRunItem l).
Proof.
  intros F. induction F as [|x l H F IH]; simpl; constructor; auto. simpl. unfold ptag.
  destruct (ci_call x) eqn:C; auto. rewrite (H C). reflexivity.
Qed.

Lemma lazy_of_tagged l : Forall (tagged QLazy) l -> Forall lazy_item (map MRunItem l).
Proof. intros F. induction F; simpl; constructor; auto. Qed.

Lemma I06_phase mo k0 s pre s' :
  shape (mo :: k0) -> Tags (mo :: k0) s -> is_work mo = false -> handle mo s = (pre, s') ->
  I06 (mo :: k0) s -> I06 (pre ++ k0) s'.
Proof.
  intros SH T W E (m & MM & (L & LD & RL & RI & R)).
  apply Tags_split in T as [Q _]. pose proof Q as [QA QB QC QD QH].
  destruct SH as [p [PH _]]. rewrite PH in R.
  assert (WO : work_of (mo :: k0) = []) by (simpl; rewrite W; reflexivity). rewrite WO in RL, RI, R. simpl in RL, RI, R.
  unfold phase_of in PH. simpl in PH. rewrite W in PH.
  unfold I06, R06.
  destruct mo; try discriminate W; simpl in E.
  - (* MTop *)
    simpl in PH. destruct (tops k0) eqn:T; [|discriminate]. inversion PH; subst p. destruct R as (R1 & R2 & R3).
    unfold do_top in E. destruct o.
    + destruct (alive s); inversion E; subst pre s'; exists m; (split; [auto|]); exists L; (split; [auto|]);
        rewrite tops_phase, tops_work_of by (simpl; auto); auto.
    + destruct (alive s); [|unfold bad in E]; inversion E; subst pre s'.
      * eexists. split. simpl. rewrite MM. reflexivity. exists L. split; auto.
        unfold phase_of. simpl. rewrite Z.eqb_refl, T. simpl. repeat split; auto.
      * exists m. split. simpl. rewrite MM. reflexivity. exists L. split; auto. simpl.
        rewrite tops_phase, tops_work_of; auto.
    + inversion E; subst pre s'. exists m. split; auto. exists L. split; auto.
      rewrite (phase_of_work [MActs l; MPopFrame]) by reflexivity. rewrite tops_phase by auto.
      rewrite (work_of_app [MActs l; MPopFrame]) by reflexivity. rewrite tops_work_of by auto. simpl. auto.
    + destruct (alive s); inversion E; subst pre s'.
      * eexists. split. simpl. rewrite MM. reflexivity. exists L. split; auto.
        unfold phase_of. simpl. rewrite T. simpl. repeat split; auto.
      * exists m. split; auto. exists L. split; auto. simpl. rewrite tops_phase, tops_work_of; auto.
    + inversion E; subst pre s'. exists m. split; auto. exists L. split; auto.
      rewrite tops_phase, tops_work_of by (simpl; auto). auto.
    + destruct (alive s); [|unfold bad in E]; inversion E; subst pre s'; exists m;
        (split; [simpl; rewrite MM; reflexivity|]); exists L; (split; [auto|]); simpl;
        rewrite tops_phase, tops_work_of; auto.
    + destruct (alive s); [|unfold bad in E]; inversion E; subst pre s'; exists m.
      * split. match goal with |- context [if ?b then _ else _] => destruct b end; simpl; rewrite MM; reflexivity.
        exists L. split. match goal with |- context [if ?b then _ else _] => destruct b end; auto.
        simpl. rewrite tops_phase, tops_work_of; auto.
        match goal with |- context [if ?b then _ else _] => destruct b end; auto.
      * split. simpl; rewrite MM; reflexivity. exists L. split; auto. simpl. rewrite tops_phase, tops_work_of; auto.
  - (* MNew *)
    simpl in PH. destruct (tops k0) eqn:T; [|discriminate]. inversion PH; subst p. destruct R as (R1 & R2 & R3).
    inversion E; subst pre s'.
    eexists. split. simpl. rewrite MM. reflexivity.
    destruct (dk s) eqn:DK.
    + exists []. split; auto.
      rewrite phase_of_work by apply work_map_dropitem. rewrite tops_phase by auto.
      rewrite work_of_app by apply work_map_dropitem. rewrite tops_work_of by auto. rewrite !app_nil_r.
      rewrite wuids_dropitems, !tuids_dropitems. simpl.
      rewrite (tquids_main_ok QLazy (mainq s)), (tquids_main_ok QIdle (mainq s)) by (auto; discriminate). simpl.
      rewrite R2, R1, (LD eq_refl). simpl. repeat split; auto.
    + exists (L ++ quids (mainq s)). split. simpl. rewrite DK. discriminate.
      simpl. rewrite tops_phase, tops_work_of by auto. simpl. rewrite R2, R1. auto.
  - (* MRunIdle *)
    destruct k0 as [|m1 k1]; [discriminate|]. destruct m1; try discriminate PH.
    destruct k1 as [|m2 k2]; [discriminate|]. destruct m2; try discriminate PH.
    destruct ((t =? t0) && tops k2) eqn:T; [|discriminate]. inversion PH; subst p.
    destruct R as (R1 & R2 & R3 & R4 & R5 & R6 & R7).
    assert (PP : forall w, forallb is_work w = true -> phase_of (w ++ MRunMain t :: MLoop t0 :: k2) = Some (PRunMain t) /\
                           work_of (w ++ MRunMain t :: MLoop t0 :: k2) = w).
    { intros w Hw. split. rewrite phase_of_work; auto. unfold phase_of. simpl. rewrite T. reflexivity.
      rewrite work_of_app by auto. simpl. apply app_nil_r. }
    exists m. destruct idle; [destruct (idleq s) as [|c r] eqn:IQ|]; inversion E; subst pre s'; (split; [auto|]); exists L; (split; [auto|]).
    + destruct (PP [] eq_refl) as [P1 P2]. rewrite P1, P2. simpl. rewrite IQ. repeat split; auto. right; right. apply quiet_nil.
    + destruct (PP [MRunItem c] eq_refl) as [P1 P2]. rewrite P1, P2. simpl.
      destruct (tags_idle_pop _ _ _ Q IQ) as [_ [TC TQ]].
      assert (U1 : item_uids c = []) by (unfold item_uids, pmain; rewrite TC, TQ; reflexivity).
      assert (U2 : t_item QLazy c = []) by (unfold t_item, ptag; rewrite TC, TQ; reflexivity).
      rewrite U1, U2. simpl in RI. rewrite !app_nil_r. repeat split; auto.
      left. exists c. repeat split; auto.
    + destruct (PP [] eq_refl) as [P1 P2]. rewrite P1, P2. simpl. repeat split; auto. right; right. apply quiet_nil.
  - (* MRunMain *)
    destruct k0 as [|m1 k1]; [discriminate|]. destruct m1; try discriminate PH.
    destruct ((t =? t0) && tops k1) eqn:T; [|discriminate]. apply andb_prop in T as [_ T]. inversion PH; subst p.
    destruct R as (R1 & R2 & R3 & R4).
    assert (PP : forall l, phase_of (map MRunItem l ++ MLoop t0 :: k1) = Some (PLoop t0) /\
                           work_of (map MRunItem l ++ MLoop t0 :: k1) = map MRunItem l).
    { intros l. split. rewrite phase_of_work by apply work_map_runitem. unfold phase_of. simpl. rewrite T. reflexivity.
      rewrite work_of_app by apply work_map_runitem. simpl. apply app_nil_r. }
    assert (NLM : forall l, Forall main_ok l -> Forall nolazy_item (map MRunItem l)).
    { intros l F. induction F; simpl; constructor; auto. simpl. unfold ptag. destruct (ci_call x) eqn:C; auto. rewrite (H C). reflexivity. }
    assert (NLT : forall l, Forall (tagged QTimer) l -> Forall nolazy_item (map MRunItem l)).
    { intros l F. induction F; simpl; constructor; auto. simpl. unfold ptag. destruct H as [A B]. rewrite A, B. reflexivity. }
    exists m. destruct (t >? now s) eqn:GT; inversion E; subst pre s'; clear E.
    + split. destruct (ambiguous _); simpl; rewrite MM; reflexivity.
      exists L. split. destruct (ambiguous _); auto.
      assert (FT : Forall (tagged QTimer) (map ti_ci (ti_sort (filter (ti_due t) (timers s))))).
      { apply Forall_tagged_sorted. rewrite Forall_map in *. apply Forall_filter. auto. }
      set (fl := map ti_ci (ti_sort (filter (ti_due t) (timers s)))) in *.
      destruct (PP (mainq s ++ fl)) as [P1 P2]. rewrite P1, P2.
      rewrite wuids_runitems, !tuids_runitems, quids_app, !tquids_app.
      rewrite (quids_tagged QTimer fl), (tquids_tagged_other QLazy QTimer fl), (tquids_tagged_other QIdle QTimer fl) by (auto; discriminate).
      rewrite (tquids_main_ok QLazy (mainq s)), (tquids_main_ok QIdle (mainq s)) by (auto; discriminate).
      destruct (ambiguous _); simpl; rewrite !app_nil_r; repeat split; auto;
        left; rewrite map_app; apply Forall_app; split; auto.
    + split; auto. exists L. split; auto.
      destruct (PP (mainq s)) as [P1 P2]. rewrite P1, P2.
      rewrite wuids_runitems, !tuids_runitems. rewrite (tquids_main_ok QLazy (mainq s)), (tquids_main_ok QIdle (mainq s)) by (auto; discriminate).
      simpl. rewrite !app_nil_r. repeat split; auto. left. auto.
  - (* MLoop *)
    destruct (tops k0) eqn:T; [|discriminate]. inversion PH; subst p. destruct R as (R1 & R2 & R3 & R4).
    assert (PP : forall l, phase_of ((map MRunItem l ++ [MLoop t]) ++ k0) = Some (PLoop t) /\
                           work_of ((map MRunItem l ++ [MLoop t]) ++ k0) = map MRunItem l).
    { intros l. rewrite <- app_assoc. simpl. split. rewrite phase_of_work by apply work_map_runitem. unfold phase_of. simpl. rewrite T. reflexivity.
      rewrite work_of_app by apply work_map_runitem. simpl. apply app_nil_r. }
    destruct (mainq s) as [|c l] eqn:M.
    + destruct (lazyq s) as [|c l] eqn:LQ.
      * inversion E; subst pre s'.
        assert (G : (nil_b (q_main m) && nil_b (q_lazy m) && Bool.eqb (negb (is_nil (idleq s))) (negb (nil_b (q_idle m)))) = true).
        { rewrite R1, RL. simpl. rewrite RI, (tquids_tagged_same QIdle) by auto.
          destruct (idleq s); reflexivity. }
        eexists. split.
        -- destruct (t >? recreate s); simpl; rewrite MM; simpl; unfold guard; rewrite G; reflexivity.
        -- exists L. split. destruct (t >? recreate s); auto. simpl. rewrite tops_phase, tops_work_of by auto.
           destruct (t >? recreate s); simpl; rewrite ?M, ?LQ; repeat split; auto.
      * inversion E; subst pre s'. exists m. split; auto. exists L. split; auto.
        change (MRunItem c :: map MRunItem l ++ [MLoop t]) with (map MRunItem (c :: l) ++ [MLoop t]).
        destruct (PP (c :: l)) as [P1 P2]. rewrite P1, P2. rewrite wuids_runitems, !tuids_runitems.
        rewrite (quids_tagged QLazy (c :: l)), (tquids_tagged_other QIdle QLazy (c :: l)) by (auto; discriminate).
        simpl lazyq. simpl idleq. simpl mainq. rewrite M. simpl tquids at 2. rewrite !app_nil_r. repeat split; auto.
        right. split.
        -- apply (lazy_of_tagged (c :: l)). auto.
        -- right. split. rewrite R1. reflexivity. exists (c :: l). reflexivity.
    + inversion E; subst pre s'. exists m. split; auto. exists L. split; auto.
      change (MRunItem c :: map MRunItem l ++ [MLoop t]) with (map MRunItem (c :: l) ++ [MLoop t]).
      destruct (PP (c :: l)) as [P1 P2]. rewrite P1, P2. rewrite wuids_runitems, !tuids_runitems.
      rewrite (tquids_main_ok QLazy (c :: l)), (tquids_main_ok QIdle (c :: l)) by (auto; discriminate).
      simpl. rewrite !app_nil_r. repeat split; auto.
      left. apply (nolazy_of_main_ok (c :: l)). auto.
  - (* MDrain *)
    destruct (tops k0) eqn:T; [|discriminate]. inversion PH; subst p. destruct R as (R1 & R2 & R3).
    destruct (i >=? TEARDOWN_ROUNDS).
    + inversion E; subst pre s'. exists m. split. destruct (is_nil (mainq s)); auto. simpl. rewrite MM. reflexivity.
      exists L. split. destruct (is_nil (mainq s)); auto.
      unfold phase_of. simpl. rewrite T. destruct (is_nil (mainq s)); simpl; auto.
    + destruct (mainq s) as [|c l] eqn:M; inversion E; subst pre s'; exists m; (split; [auto|]); exists L; (split; [auto|]).
      * unfold phase_of. simpl. rewrite T. simpl. rewrite M. auto.
      * match goal with |- context [phase_of ?k] => replace k with (map MDropItem (c :: l) ++ MDrain (i + 1) :: k0)
          by (simpl; rewrite <- app_assoc; reflexivity) end.
        rewrite phase_of_work by apply work_map_dropitem. unfold phase_of. simpl. rewrite T.
        rewrite work_of_app by apply work_map_dropitem.
        replace (work_of (MDrain (i + 1) :: k0)) with (@nil mop) by reflexivity. rewrite !app_nil_r.
        rewrite wuids_dropitems, !tuids_dropitems.
        pose proof (tquids_main_ok QLazy (c :: l) ltac:(discriminate) QA) as Z1. simpl in Z1.
        pose proof (tquids_main_ok QIdle (c :: l) ltac:(discriminate) QA) as Z2. simpl in Z2.
        simpl. rewrite Z1, Z2, R1. simpl. rewrite ?app_nil_r. repeat split; auto.
  - (* MDropFields *)
    destruct (tops k0) eqn:T; [|discriminate]. inversion PH; subst p. destruct R as (R1 & R2 & R3).
    assert (FT : Forall (tagged QTimer) (map ti_ci (ti_sort (timers s)))) by (apply Forall_tagged_sorted; auto).
    assert (G : forall s0, lazyq s0 = lazyq s -> idleq s0 = idleq s -> timers s0 = timers s -> mainq s0 = mainq s -> dk s0 = dk s ->
                monr step06 i06 (tr s0) = Some m ->
                exists m0, monr step06 i06 (tr (emit (set_tvars (set_timers (set_idleq (set_lazyq s0 []) []) []) []) EDropFields)) = Some m0 /\
                  R06 m0 ((map MDropItem (lazyq s0 ++ idleq s0 ++ map ti_ci (ti_sort (timers s0))) ++ [MDropEnd]) ++ k0)
                         (emit (set_tvars (set_timers (set_idleq (set_lazyq s0 []) []) []) []) EDropFields)).
    { intros s0 E1 E2 E3 E4 E5 M0. exists m. split. unfold emit. simpl. rewrite M0. reflexivity.
      exists L. split. unfold emit; simpl. rewrite E5; auto.
      rewrite <- app_assoc. simpl app. rewrite phase_of_work by apply work_map_dropitem.
      replace (phase_of (MDropEnd :: k0)) with (Some PDropEnd) by (unfold phase_of; simpl; rewrite T; reflexivity).
      rewrite work_of_app by apply work_map_dropitem.
      replace (work_of (MDropEnd :: k0)) with (@nil mop) by reflexivity. rewrite !app_nil_r.
      rewrite E1, E2, E3.
      rewrite wuids_dropitems, !tuids_dropitems, !quids_app, !tquids_app.
      set (fl := map ti_ci (ti_sort (timers s))) in *.
      rewrite (quids_tagged QLazy (lazyq s)), (quids_tagged QIdle (idleq s)), (quids_tagged QTimer fl) by (auto; discriminate).
      rewrite (tquids_tagged_other QLazy QIdle (idleq s)), (tquids_tagged_other QLazy QTimer fl) by (auto; discriminate).
      rewrite (tquids_tagged_other QIdle QLazy (lazyq s)), (tquids_tagged_other QIdle QTimer fl) by (auto; discriminate).
      unfold emit; simpl. rewrite E4, !app_nil_r. repeat split; auto. }
    inversion E; subst pre s'.
    destruct (ambiguous (timers s)).
    + apply (G (emit s (EModel M_AMBIG 1))); auto. unfold emit; simpl. rewrite MM. reflexivity.
    + apply (G s); auto.
  - (* MDropEnd *)
    destruct (tops k0) eqn:T; [|discriminate]. inversion PH; subst p. destruct R as (R1 & R2 & R3).
    inversion E; subst pre s'.
    eexists. split.
    + destruct (is_nil (mainq s)); simpl; rewrite MM; reflexivity.
    + exists L. split. destruct (is_nil (mainq s)); auto.
      simpl. rewrite tops_phase, tops_work_of by auto. simpl. destruct (is_nil (mainq s)); simpl; auto.
  - (* MDropAll *)
    simpl in PH. destruct (tops k0) eqn:T; [|discriminate]. inversion PH; subst p. destruct R as (R1 & R2 & R3).
    exists m. destruct (amin (env s)) as [[h v]|]; inversion E; subst pre s'; (split; [auto|]); exists L; (split; [auto|]).
    + assert (P1 : phase_of ([MDropVal v; MDropAll] ++ k0) = Some PTop).
      { change ([MDropVal v; MDropAll] ++ k0) with ([MDropVal v] ++ (MDropAll :: k0)).
        rewrite phase_of_work by reflexivity. apply tops_phase. simpl. auto. }
      assert (P2 : work_of ([MDropVal v; MDropAll] ++ k0) = [MDropVal v]) by reflexivity.
      rewrite P1, P2. simpl. auto.
    + simpl. rewrite tops_phase, tops_work_of by auto. auto.
  - (* MEpilogue *)
    simpl in PH. destruct (tops k0) eqn:T; [|discriminate]. inversion PH; subst p. destruct R as (R1 & R2 & R3).
    inversion E; subst pre s'. exists m. split. simpl. rewrite MM. reflexivity. exists L. split; auto.
    rewrite tops_phase, tops_work_of by (simpl; auto). auto.
  - (* MLeaks *)
    simpl in PH. destruct (tops k0) eqn:T; [|discriminate]. inversion PH; subst p. destruct R as (R1 & R2 & R3).
    inversion E; subst pre s'.
    destruct (class_flags_tr s) as (evs & A & B & C & D).
    assert (QF : forall (f : N * actor -> option ev) l s0,
               mainq (fold_left (fun s1 p0 => emit_opt s1 (f p0)) l s0) = mainq s0 /\
               lazyq (fold_left (fun s1 p0 => emit_opt s1 (f p0)) l s0) = lazyq s0 /\
               idleq (fold_left (fun s1 p0 => emit_opt s1 (f p0)) l s0) = idleq s0 /\
               dk (fold_left (fun s1 p0 => emit_opt s1 (f p0)) l s0) = dk s0).
    { intros f l. induction l; simpl; intros s0; auto. destruct (IHl (emit_opt s0 (f a))) as (A1 & A2 & A3 & A4).
      rewrite A1, A2, A3, A4. unfold emit_opt. destruct (f a); auto. }
    destruct (QF (class_flag (actors s)) (actors s) s) as (F1 & F2 & F3 & F4).
    exists m. split.
    + simpl. eapply monr_ignored06 with (P := fun e => exists k i, e = ELeak k i).
      * intros e (k & i & ->). reflexivity.
      * unfold leaks. rewrite <- map_rev. apply Forall_forall. intros x Hx. apply in_map_iff in Hx as [y [<- _]]. eauto.
      * rewrite A. eapply monr_ignored06 with (P := fun e => exists c a, e = EModel c a /\ c <> M_DRAINLEFT); eauto.
        intros e (c & a & -> & _). reflexivity.
    + exists L. unfold class_flags. simpl. rewrite F1, F2, F3, F4. split; auto.
      rewrite tops_phase, tops_work_of by auto. auto.
Qed.

(* ------------------------------------------------------------------ *)
(** * The theorem *)

Theorem step_I06 k s k' s' :
  shape k -> Tags k s -> drop_tags k -> I06 k s -> step k s = Some (k', s') -> I06 k' s'.
Proof.
  intros SH T DT I H. destruct k as [|mo k0]; [discriminate|]. simpl in H.
  destruct (handle mo s) as [pre s1] eqn:E. inversion H; subst; clear H.
  destruct (qmop mo) eqn:QM. { eapply I06_qmop; eauto. }
  destruct (is_work mo) eqn:W.
  - assert (R : runish mo = true). { unfold qmop in QM. rewrite W in QM. simpl in QM. apply negb_false_iff in QM. auto. }
    destruct mo; try discriminate R.
    + eapply I06_endbody; eauto.
    + eapply I06_runitem; eauto.
    + eapply I06_toready; eauto.
  - eapply I06_phase; eauto.
Qed.

Lemma I06_init d p : I06 (map MTop p ++ [MEpilogue]) (init d).
Proof.
  exists i06. split; [reflexivity|]. exists []. split; auto.
  assert (TP : tops (map MTop p ++ [MEpilogue]) = true).
  { unfold tops. rewrite forallb_app. simpl. rewrite andb_true_r. induction p; simpl; auto. }
  rewrite tops_phase, tops_work_of; auto.
Qed.

Lemma run_inv06 fuel : forall k s t,
  shape k -> Tags k s -> drop_tags k -> I06 k s -> run fuel k s = Done t ->
  exists s', t = rev (tr s') /\ exists m, monr step06 i06 (tr s') = Some m.
Proof.
  induction fuel as [|f IH]; intros k s t SH T DT I H; simpl in H.
  - destruct k; [|discriminate]. inversion H; subst. destruct I as (m & MM & _). eauto.
  - destruct (step k s) as [[k' s']|] eqn:ST.
    + eapply IH; [ eapply step_shape; eauto | eapply step_tags; eauto | eapply step_drop_tags; eauto
                 | eapply step_I06; eauto | exact H ].
    + inversion H; subst. destruct I as (m & MM & _). eauto.
Qed.

Theorem C06_plain_proved : forall (d : dkind) (p : list top) (fuel : nat) (t : list ev),
  exec d fuel p = Done t -> C06_plain_ok t = true.
Proof.
  intros d p fuel t H. unfold exec in H.
  destruct (run_inv06 fuel _ _ _ (shape_init p) (tags_init d p) (drop_tags_init p) (I06_init d p) H) as (s' & -> & m & MM).
  unfold C06_plain_ok. rewrite fold_mon_rev, MM. reflexivity.
Qed.

Example C06_nontrivial :
  exists t, exec DGlobal 400 [TNew 0; TDo [ALazy (Clo 1 0 0 [] [ADefer (Clo 2 0 0 [] []); ALazy (Clo 3 0 0 [] [])]);
                                         AIdle (Clo 4 0 0 [] []); AIdle (Clo 5 0 0 [] []); ADefer (Clo 6 0 0 [] [])];
                                  TRun 2 false; TRun 4 true] = Done t
            /\ In (ERunRet true) t /\ In (ERun 1%N 2 QLazy) t /\ In (ERun 6%N 2 QLazy) t /\ In (ERun 2%N 2 QIdle) t.
Proof. eexists. split; [vm_compute; reflexivity|]. simpl. tauto. Qed.
